import PPModel
/-!
  Line-protocol driver: one S-expression command per input line, one output line per input line.
  `bad-op` is printed for anything the models do not accept (never a default value).
-/
open PP

def handlers : List (List Sexp → Option Sexp) :=
  [ Driver.lineColHandle,
    Driver.pyStrHandle,
    Driver.parseHandle,
    Driver.diagramHandle,
    Driver.trimArityHandle,
    Driver.actionGateHandle,
    Driver.threadsHandle,
    Driver.regexHandle,
    Driver.prHandle,
    Driver.settingsHandle,
    Driver.wordPathsHandle,
    Driver.sugarHandle,
    Driver.heapHandle,
    Driver.infixHandle,
    Driver.quotedHandle,
    Driver.countedHandle,
    Driver.namesHandle ]

def dispatch (line : String) : String :=
  match Sexp.parseAll line with
  | none => "bad-line"
  | some xs =>
    match handlers.findSome? (fun h => h xs) with
    | some out => Sexp.render out
    | none => "bad-op"

partial def loop (h : IO.FS.Stream) (out : IO.FS.Stream) : IO Unit := do
  let line ← h.getLine
  if line.isEmpty then
    out.flush
    return ()
  out.putStrLn (dispatch line)
  out.flush   -- one answer per line, visible at once: the harness times each line out separately
  loop h out

def main : IO Unit := do
  loop (← IO.getStdin) (← IO.getStdout)
