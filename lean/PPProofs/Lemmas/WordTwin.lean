import PPProofs.Lemmas.WordPaths
import PPProofs.Lemmas.Ranges
/-!
  Soundness of the harness' "space twin" device for C17 (Word): the twin (a blank appended to
  `init_chars` and, when given, to `body_chars`) always takes the character-loop path, and on blank-free
  input its character loop computes exactly what the character loop of the original object computes.
-/
namespace PP.WordPaths
open PP.ReLite PP.Ranges

/-- the harness' twin: a blank appended to `init_chars` and (when given) to `body_chars` -/
def twinArgs (a : WordArgs) : WordArgs :=
  { a with init := a.init ++ [' '], body := if a.body.isEmpty then [] else a.body ++ [' '] }

/-! ### the character loop only tests characters of the input -/

theorem charIn_congr (A B s : List Char) (h : ∀ c ∈ s, A.contains c = B.contains c) (i : Nat) :
    charIn A s i = charIn B s i := by
  unfold charIn
  cases hs : s[i]? with
  | none => rfl
  | some c => exact h c (List.mem_of_getElem? hs)

theorem bodyLoop_congr (A B s : List Char) (h : ∀ c ∈ s, A.contains c = B.contains c) (maxloc : Nat) :
    ∀ (f loc : Nat), bodyLoop A s maxloc f loc = bodyLoop B s maxloc f loc := by
  intro f
  induction f with
  | zero => intro loc; rfl
  | succ f ih =>
    intro loc
    simp only [bodyLoop, charIn_congr A B s h, ih]

theorem slowPath_congr (w w' : Word) (s : List Char)
    (hI : ∀ c ∈ s, w.initSet.contains c = w'.initSet.contains c)
    (hB : ∀ c ∈ s, w.bodySet.contains c = w'.bodySet.contains c)
    (h1 : w.minLen = w'.minLen) (h2 : w.maxLen = w'.maxLen)
    (h3 : w.maxSpecified = w'.maxSpecified) (h4 : w.asKeyword = w'.asKeyword) (loc : Nat) :
    slowPath w s loc = slowPath w' s loc := by
  unfold slowPath
  simp only [charIn_congr _ _ s hI, charIn_congr _ _ s hB, bodyLoop_congr _ _ s hB, h1, h2, h3, h4]

/-! ### the sets of the twin -/

theorem mem_removeAll (s excl : List Char) (c : Char) : c ∈ removeAll s excl ↔ c ∈ s ∧ c ∉ excl := by
  simp [removeAll]

theorem mem_initSetOf (a : WordArgs) (c : Char) :
    c ∈ initSetOf a ↔ c ∈ a.init ∧ (a.excl = [] ∨ c ∉ a.excl) := by
  unfold initSetOf
  rw [mem_sortU]
  cases he : a.excl with
  | nil => simp
  | cons e es => simp [mem_removeAll]

theorem mem_initSetOf_twin (a : WordArgs) (hex : ' ' ∉ a.excl) (c : Char) :
    c ∈ initSetOf (twinArgs a) ↔ c ∈ initSetOf a ∨ c = ' ' := by
  rw [mem_initSetOf, mem_initSetOf]
  simp only [twinArgs, List.mem_append, List.mem_singleton]
  constructor
  · rintro ⟨h | h, h2⟩
    · exact Or.inl ⟨h, h2⟩
    · exact Or.inr h
  · rintro (⟨h, h2⟩ | h)
    · exact ⟨Or.inl h, h2⟩
    · subst h; exact ⟨Or.inr rfl, Or.inr hex⟩

theorem mem_bodySetOf_twin (a : WordArgs) (hex : ' ' ∉ a.excl)
    (hq : a.body = [] ∨ ∃ d ∈ a.body, d ∉ a.excl) (c : Char) :
    c ∈ bodySetOf (twinArgs a) ↔ c ∈ bodySetOf a ∨ c = ' ' := by
  cases hb : a.body with
  | nil =>
    have e1 : bodyArg (twinArgs a) = [] := by simp [bodyArg, twinArgs, hb]
    have e2 : bodyArg a = [] := by simp [bodyArg, hb]
    simp only [bodySetOf, e1, e2, List.isEmpty_nil, if_true]
    exact mem_initSetOf_twin a hex c
  | cons b bs =>
    rw [hb] at hq
    obtain ⟨d, hd, hdx⟩ : ∃ d ∈ b :: bs, d ∉ a.excl := by
      cases hq with
      | inl h => cases h
      | inr h => exact h
    have hbody' : (twinArgs a).body = (b :: bs) ++ [' '] := by simp [twinArgs, hb]
    have hexcl' : (twinArgs a).excl = a.excl := rfl
    -- membership in the `bodyArg`s
    have m1 : ∀ x, x ∈ bodyArg a ↔ x ∈ b :: bs ∧ (a.excl = [] ∨ x ∉ a.excl) := by
      intro x
      unfold bodyArg
      rw [hb]
      cases he : a.excl with
      | nil => simp
      | cons e es => simp [mem_removeAll]
    have m2 : ∀ x, x ∈ bodyArg (twinArgs a) ↔
        (x ∈ b :: bs ∨ x = ' ') ∧ (a.excl = [] ∨ x ∉ a.excl) := by
      intro x
      unfold bodyArg
      rw [hbody', hexcl']
      cases he : a.excl with
      | nil => simp [or_assoc]
      | cons e es => simp [mem_removeAll, or_assoc]
    have n1 : (bodyArg a).isEmpty = false := by
      have : d ∈ bodyArg a := (m1 d).2 ⟨hd, Or.inr hdx⟩
      cases hh : bodyArg a with
      | nil => rw [hh] at this; cases this
      | cons _ _ => rfl
    have n2 : (bodyArg (twinArgs a)).isEmpty = false := by
      have : ' ' ∈ bodyArg (twinArgs a) := (m2 ' ').2 ⟨Or.inr rfl, Or.inr hex⟩
      cases hh : bodyArg (twinArgs a) with
      | nil => rw [hh] at this; cases this
      | cons _ _ => rfl
    simp only [bodySetOf, n1, n2, Bool.false_eq_true, if_false]
    rw [mem_sortU, mem_sortU, m1, m2]
    constructor
    · rintro ⟨h | h, h2⟩
      · exact Or.inl ⟨h, h2⟩
      · exact Or.inr h
    · rintro (⟨h, h2⟩ | h)
      · exact ⟨Or.inl h, h2⟩
      · subst h; exact ⟨Or.inr rfl, Or.inr hex⟩

theorem contains_congr_of_mem (A B : List Char) (c : Char) (h : c ∈ A ↔ c ∈ B) :
    A.contains c = B.contains c := by
  rw [Bool.eq_iff_iff]
  simpa using h

/-! ### soundness of the twin -/

theorem twin_slow (a : WordArgs) (w w' : Word) (h : mkWord a = some w)
    (h' : mkWord (twinArgs a) = some w') (hex : ' ' ∉ a.excl)
    (hq : a.body = [] ∨ ∃ d ∈ a.body, d ∉ a.excl)
    (s : List Char) (hs : ' ' ∉ s) (loc : Nat) :
    w'.re = none ∧ slowPath w' s loc = slowPath w s loc := by
  obtain ⟨fI, fB, fmin, fmax, -, -, fkw, fms, -⟩ := mkWord_facts a w h
  obtain ⟨fI', fB', fmin', fmax', -, -, fkw', fms', fre'⟩ := mkWord_facts (twinArgs a) w' h'
  refine ⟨?_, ?_⟩
  · rw [fre']
    have : (initSetOf (twinArgs a)).contains ' ' = true := by
      rw [List.contains_iff_mem]
      exact (mem_initSetOf_twin a hex ' ').2 (Or.inr rfl)
    unfold reOf
    rw [this]
    rfl
  · apply slowPath_congr
    · intro c hc
      rw [fI, fI']
      apply contains_congr_of_mem
      rw [mem_initSetOf_twin a hex]
      have : c ≠ ' ' := fun e => hs (e ▸ hc)
      simp [this]
    · intro c hc
      rw [fB, fB']
      apply contains_congr_of_mem
      rw [mem_bodySetOf_twin a hex hq]
      have : c ≠ ' ' := fun e => hs (e ▸ hc)
      simp [this]
    · rw [fmin, fmin']; rfl
    · rw [fmax, fmax']; rfl
    · rw [fms, fms']; rfl
    · rw [fkw, fkw']; rfl

theorem twin_exists (a : WordArgs) (w : Word) (h : mkWord a = some w) :
    ∃ w', mkWord (twinArgs a) = some w' := by
  unfold mkWord at h ⊢
  split at h
  · cases h
  · split at h
    · cases h
    · split at h
      · cases h
      · rename_i h1 h2 h3
        have e1 : (twinArgs a).init.isEmpty = false := by simp [twinArgs]
        have e2 : (twinArgs a).min = a.min := rfl
        have e3 : (twinArgs a).max = a.max := rfl
        rw [e1, e2, e3]
        simp only [Bool.false_eq_true, if_false, h2, h3]
        exact ⟨_, rfl⟩

end PP.WordPaths
