import PPModel.Mod.PRSpec
/-! Helper lemmas about the association-list dict (`PyDict`) used by the `ParseResults` model. -/
namespace PP.PyDict

variable {β γ : Type}

theorem dget_none_iff (d : Dict β) (k : String) : dget d k = none ↔ k ∉ dkeys d := by
  induction d with
  | nil => simp [dget, dkeys]
  | cons e d ih =>
    obtain ⟨k', v⟩ := e
    by_cases h : k' = k
    · simp [dget, dkeys, h]
    · simp only [dget, h, if_false, dkeys, List.map_cons, List.mem_cons, not_or] at ih ⊢
      constructor
      · intro hh; exact ⟨fun e => h e.symm, ih.mp hh⟩
      · intro hh; exact ih.mpr hh.2

theorem dget_some_mem {d : Dict β} {k : String} {v : β} (h : dget d k = some v) : (k, v) ∈ d := by
  induction d with
  | nil => simp [dget] at h
  | cons e d ih =>
    obtain ⟨k', v'⟩ := e
    by_cases hk : k' = k
    · simp [dget, hk] at h; simp [hk, h]
    · simp [dget, hk] at h; exact List.mem_cons_of_mem _ (ih h)

theorem dget_isSome_iff (d : Dict β) (k : String) : (dget d k).isSome ↔ k ∈ dkeys d := by
  have := dget_none_iff d k
  cases h : dget d k <;> simp_all

theorem dhas_iff (d : Dict β) (k : String) : dhas d k = true ↔ k ∈ dkeys d := by
  simp [dhas, dkeys]

theorem dkeys_dset (d : Dict β) (k : String) (v : β) :
    dkeys (dset d k v) = if k ∈ dkeys d then dkeys d else dkeys d ++ [k] := by
  induction d with
  | nil => simp [dset, dkeys]
  | cons e d ih =>
    obtain ⟨k', v'⟩ := e
    by_cases h : k' = k
    · simp [dset, dkeys, h]
    · have h' : ¬ k = k' := fun e => h e.symm
      simp only [dkeys] at ih
      simp only [dset, h, if_false, dkeys, List.map_cons, List.mem_cons, h', false_or, ih]
      split <;> simp [*]

theorem dget_dset (d : Dict β) (k k' : String) (v : β) :
    dget (dset d k v) k' = if k' = k then some v else dget d k' := by
  induction d with
  | nil =>
    by_cases h : k = k'
    · simp [dset, dget, h]
    · have : ¬ k' = k := fun e => h e.symm
      simp [dset, dget, h, this]
  | cons e d ih =>
    obtain ⟨k0, v0⟩ := e
    by_cases h : k0 = k
    · subst h
      by_cases h2 : k0 = k'
      · simp [dset, dget, h2]
      · have : ¬ k' = k0 := fun e => h2 e.symm
        simp [dset, dget, h2, this]
    · by_cases h2 : k0 = k'
      · subst h2
        simp [dset, dget, h]
      · simp [dset, dget, h, h2, ih]

theorem dkeys_ddel (d : Dict β) (k : String) : dkeys (ddel d k) = (dkeys d).filter (fun x => x ≠ k) := by
  induction d with
  | nil => simp [ddel, dkeys]
  | cons e d ih =>
    obtain ⟨k', v'⟩ := e
    simp only [dkeys] at ih
    by_cases h : k' = k <;> simp [ddel, dkeys, List.filter_cons, h, ih]

theorem dget_ddel (d : Dict β) (k k' : String) :
    dget (ddel d k) k' = if k' = k then none else dget d k' := by
  induction d with
  | nil => simp [ddel, dget]
  | cons e d ih =>
    obtain ⟨k0, v0⟩ := e
    by_cases h : k0 = k
    · subst h
      by_cases h2 : k' = k0
      · subst h2; simp [ddel, ih]
      · have : ¬ k0 = k' := fun e => h2 e.symm
        simp [ddel, ih, dget, h2, this]
    · by_cases h2 : k0 = k'
      · subst h2; simp [ddel, h, dget]
      · simp [ddel, h, dget, h2, ih]

theorem mem_ddel {d : Dict β} {k : String} {e : String × β} (h : e ∈ ddel d k) : e ∈ d := by
  induction d with
  | nil => simp [ddel] at h
  | cons e0 d ih =>
    obtain ⟨k0, v0⟩ := e0
    by_cases hk : k0 = k
    · simp only [ddel, hk, if_true] at h; exact List.mem_cons_of_mem _ (ih h)
    · simp only [ddel, hk, if_false, List.mem_cons] at h
      rcases h with h | h
      · simp [h]
      · exact List.mem_cons_of_mem _ (ih h)

/-- mapping the values of a dict -/
def dmap (f : β → γ) (d : Dict β) : Dict γ := d.map (fun e => (e.1, f e.2))

theorem dkeys_dmap (f : β → γ) (d : Dict β) : dkeys (dmap f d) = dkeys d := by
  simp [dkeys, dmap, List.map_map, Function.comp_def]

theorem dget_dmap (f : β → γ) (d : Dict β) (k : String) : dget (dmap f d) k = (dget d k).map f := by
  induction d with
  | nil => simp [dmap, dget]
  | cons e d ih =>
    obtain ⟨k0, v0⟩ := e
    simp only [dmap] at ih
    by_cases h : k0 = k <;> simp [dmap, dget, h, ih]

theorem mem_dmap {f : β → γ} {d : Dict β} {e : String × γ} (h : e ∈ dmap f d) :
    ∃ e0 ∈ d, e = (e0.1, f e0.2) := by
  simp only [dmap, List.mem_map] at h
  obtain ⟨e0, h0, h1⟩ := h
  exact ⟨e0, h0, h1.symm⟩

theorem mem_dset {d : Dict β} {k : String} {v : β} {e : String × β} (h : e ∈ dset d k v) :
    e ∈ d ∨ e = (k, v) := by
  induction d with
  | nil => simp [dset] at h; exact Or.inr h
  | cons e0 d ih =>
    obtain ⟨k0, v0⟩ := e0
    by_cases hk : k0 = k
    · simp only [dset, hk, if_true, List.mem_cons] at h
      rcases h with h | h
      · exact Or.inr h
      · exact Or.inl (List.mem_cons_of_mem _ h)
    · simp only [dset, hk, if_false, List.mem_cons] at h
      rcases h with h | h
      · exact Or.inl (by simp [h])
      · rcases ih h with h | h
        · exact Or.inl (List.mem_cons_of_mem _ h)
        · exact Or.inr h

theorem nodup_dkeys_dset {d : Dict β} (k : String) (v : β) (h : (dkeys d).Nodup) :
    (dkeys (dset d k v)).Nodup := by
  rw [dkeys_dset]
  split
  · exact h
  · rename_i hk
    rw [List.nodup_append]
    refine ⟨h, by simp, ?_⟩
    intro a ha b hb
    simp at hb
    subst hb
    intro e; subst e; exact hk ha

theorem nodup_dkeys_ddel {d : Dict β} (k : String) (h : (dkeys d).Nodup) : (dkeys (ddel d k)).Nodup := by
  rw [dkeys_ddel]
  exact h.filter _

end PP.PyDict
