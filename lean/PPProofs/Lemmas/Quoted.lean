import PPModel.Mod.Quoted
/-!
Helper lemmas for the QuotedString model (`PPModel/Mod/Quoted.lean`): the scanner reads one written item back as
its character whatever follows (`scan_item`), hence a whole valid writing (`scan_encodeAll`); the minimal/defensive
choice `pick` is always valid (`pick_ok`); doubling a one-character quote is undone by `replaceAll` (`halve_double`).
-/
namespace PP.Quoted

/-! ## digits -/

theorem hexDigit_facts : ∀ k : Fin 16,
    isHex (hexDigit k.val) = true ∧ hexVal (hexDigit k.val) = k.val := by decide

theorem octDigit_facts : ∀ k : Fin 8,
    isOct (Char.ofNat (48 + k.val)) = true ∧ (Char.ofNat (48 + k.val)).toNat - 48 = k.val ∧
    wsMap (Char.ofNat (48 + k.val)) = none := by decide

theorem isHex_hexDigit {n : Nat} (h : n < 16) : isHex (hexDigit n) = true := (hexDigit_facts ⟨n, h⟩).1
theorem hexVal_hexDigit {n : Nat} (h : n < 16) : hexVal (hexDigit n) = n := (hexDigit_facts ⟨n, h⟩).2
theorem isOct_digit {n : Nat} (h : n < 8) : isOct (Char.ofNat (48 + n)) = true := (octDigit_facts ⟨n, h⟩).1
theorem octVal_digit {n : Nat} (h : n < 8) : (Char.ofNat (48 + n)).toNat - 48 = n := (octDigit_facts ⟨n, h⟩).2.1
theorem wsMap_digit {n : Nat} (h : n < 8) : wsMap (Char.ofNat (48 + n)) = none := (octDigit_facts ⟨n, h⟩).2.2

/-! ## the loop -/

theorem scanAux_skip (o : Opts) (d : Bool) : ∀ (k : Nat) (l : List Char),
    scanAux o d k l = scanAux o d 0 (l.drop k)
  | 0, l => by simp
  | k + 1, [] => by simp [scanAux]
  | k + 1, _ :: cs => by simp only [scanAux, List.drop_succ_cons]; exact scanAux_skip o d k cs

theorem scanAux_zero_cons (o : Opts) (d : Bool) (c : Char) (cs : List Char) :
    scanAux o d 0 (c :: cs) = (step o d c cs).1 :: scanAux o d 0 (cs.drop (step o d c cs).2) := by
  simp only [scanAux]; rw [scanAux_skip]

/-- reading one step: if `step` on `x :: xs` gives `(c, n)` and `xs.drop n = rest` -/
theorem scanAux_of_step (o : Opts) (d : Bool) {x c : Char} {xs rest : List Char} {n : Nat}
    (h : step o d x xs = (c, n)) (hr : xs.drop n = rest) :
    scanAux o d 0 (x :: xs) = c :: scanAux o d 0 rest := by
  rw [scanAux_zero_cons, h, hr]


/-! ## one written item is read back as its character -/

theorem convStep_hex (n : Nat) (h : n < 256) (rest : List Char) :
    convStep ('x' :: hexDigit (n / 16 % 16) :: hexDigit (n % 16) :: rest) = some (Char.ofNat n, 3) := by
  have h1 : n / 16 % 16 < 16 := Nat.mod_lt _ (by omega)
  have h2 : n % 16 < 16 := Nat.mod_lt _ (by omega)
  have w : wsMap 'x' = none := by decide
  have e : 16 * (n / 16 % 16) + n % 16 = n := by omega
  simp only [convStep, w, isHex_hexDigit h1, isHex_hexDigit h2, hexVal_hexDigit h1, hexVal_hexDigit h2, e]
  simp [isOct]

theorem convStep_uni (n : Nat) (h : n < 65536) (rest : List Char) :
    convStep ('u' :: hexDigit (n / 4096 % 16) :: hexDigit (n / 256 % 16) :: hexDigit (n / 16 % 16)
      :: hexDigit (n % 16) :: rest) = some (Char.ofNat n, 5) := by
  have h0 : n / 4096 % 16 < 16 := Nat.mod_lt _ (by omega)
  have h1 : n / 256 % 16 < 16 := Nat.mod_lt _ (by omega)
  have h2 : n / 16 % 16 < 16 := Nat.mod_lt _ (by omega)
  have h3 : n % 16 < 16 := Nat.mod_lt _ (by omega)
  have w : wsMap 'u' = none := by decide
  have e : 4096 * (n / 4096 % 16) + 256 * (n / 256 % 16) + 16 * (n / 16 % 16) + n % 16 = n := by omega
  simp only [convStep, w, isHex_hexDigit h0, isHex_hexDigit h1, isHex_hexDigit h2, isHex_hexDigit h3,
    hexVal_hexDigit h0, hexVal_hexDigit h1, hexVal_hexDigit h2, hexVal_hexDigit h3, e]
  simp [isOct]

theorem convStep_oct (n : Nat) (h : n < 512) (rest : List Char) :
    convStep (Char.ofNat (48 + n / 64 % 8) :: Char.ofNat (48 + n / 8 % 8) :: Char.ofNat (48 + n % 8) :: rest)
      = some (Char.ofNat n, 3) := by
  have h0 : n / 64 % 8 < 8 := Nat.mod_lt _ (by omega)
  have h1 : n / 8 % 8 < 8 := Nat.mod_lt _ (by omega)
  have h2 : n % 8 < 8 := Nat.mod_lt _ (by omega)
  have e : 64 * (n / 64 % 8) + 8 * (n / 8 % 8) + n % 8 = n := by omega
  simp only [convStep, wsMap_digit h0, isOct_digit h0, isOct_digit h1, isOct_digit h2,
    octVal_digit h0, octVal_digit h1, octVal_digit h2, e]
  simp

theorem convStep_ws (c : Char) (h : c = '\t' ∨ c = '\n' ∨ c = Char.ofNat 12 ∨ c = '\r') (rest : List Char) :
    convStep (wsLetter c :: rest) = some (c, 1) := by
  rcases h with h | h | h | h <;> subst h <;> simp [convStep, wsLetter, wsMap] <;> decide

/-- the step on a backslash when escapes are converted and an escape sequence follows -/
theorem step_conv (o : Opts) (d : Bool) (hc : o.convWs = true) {cs : List Char} {r : Char × Nat}
    (h : convStep cs = some r) : step o d '\\' cs = r := by
  simp [step, hc, h]

theorem scan_item (o : Opts) (enc : Enc) (c : Char) (rest : List Char)
    (h : ItemOk o enc c rest = true) :
    scanAux o (scanDotall o) 0 (encode o enc c ++ rest) = c :: scanAux o (scanDotall o) 0 rest := by
  cases enc with
  | raw =>
    simp only [ItemOk, Bool.and_eq_true, bne_iff_ne, ne_eq, Bool.or_eq_true, Bool.not_eq_true',
      Option.isNone_iff_eq_none] at h
    simp only [encode, List.cons_append, List.nil_append]
    refine scanAux_of_step o _ (n := 0) ?_ rfl
    have h1 : (if o.convWs && c == '\\' then convStep rest else none) = none := by
      rcases h.2 with h2 | h2
      · simp [h2]
      · simp [h2]
    unfold step
    rw [h1]
    cases he : o.esc with
    | none => rfl
    | some e =>
      have hce : (c == e) = false := by
        have := h.1; rw [he] at this
        simp only [Option.some.injEq] at this
        simp only [beq_eq_false_iff_ne, ne_eq]
        exact fun hce => this hce.symm
      cases rest with
      | nil => rfl
      | cons x xs => simp only [hce, Bool.false_and]; rfl
  | esc =>
    simp only [ItemOk, Bool.and_eq_true, Bool.or_eq_true, Bool.not_eq_true',
      Option.isNone_iff_eq_none] at h
    obtain ⟨⟨h0, hd⟩, h2⟩ := h
    cases he : o.esc with
    | none => simp [he] at h0
    | some e =>
      simp only [encode, he, List.cons_append, List.nil_append]
      refine scanAux_of_step o _ (n := 1) ?_ rfl
      have h1 : (if o.convWs && e == '\\' then convStep (c :: rest) else none) = none := by
        by_cases hq : (o.convWs && e == '\\') = true
        · simp only [hq, if_true]
          rcases h2 with h2 | h2
          · simp only [Bool.and_eq_true, beq_iff_eq] at hq
            rw [he, hq.2, hq.1] at h2
            simp at h2
          · exact h2
        · simp [hq]
      unfold step
      rw [h1, he]
      simp only [beq_self_eq_true, hd, Bool.and_self, if_true]
  | ws =>
    simp only [ItemOk, Bool.and_eq_true, Bool.or_eq_true, beq_iff_eq] at h
    simp only [encode, List.cons_append, List.nil_append]
    refine scanAux_of_step o _ (n := 1) (step_conv o _ h.1 (convStep_ws c ?_ rest)) rfl
    rcases h.2 with ((h | h) | h) | h <;> simp [h]
  | hex =>
    simp only [ItemOk, Bool.and_eq_true, decide_eq_true_eq] at h
    simp only [encode, List.cons_append, List.nil_append]
    have := convStep_hex c.toNat h.2 rest
    rw [Char.ofNat_toNat] at this
    exact scanAux_of_step o _ (n := 3) (step_conv o _ h.1 this) rfl
  | uni =>
    simp only [ItemOk, Bool.and_eq_true, decide_eq_true_eq] at h
    simp only [encode, List.cons_append, List.nil_append]
    have := convStep_uni c.toNat h.2 rest
    rw [Char.ofNat_toNat] at this
    exact scanAux_of_step o _ (n := 5) (step_conv o _ h.1 this) rfl
  | oct =>
    simp only [ItemOk, Bool.and_eq_true, decide_eq_true_eq] at h
    simp only [encode, List.cons_append, List.nil_append]
    have := convStep_oct c.toNat h.2 rest
    rw [Char.ofNat_toNat] at this
    exact scanAux_of_step o _ (n := 3) (step_conv o _ h.1 this) rfl

/-- a whole valid writing is read back as the characters written -/
theorem scan_encodeAll (o : Opts) : ∀ (items : List (Enc × Char)), Valid o items = true →
    scan o (encodeAll o items) = items.map (·.2)
  | [], _ => by simp [scan, encodeAll, scanAux]
  | (e, c) :: is, h => by
    simp only [Valid, Bool.and_eq_true] at h
    have ih := scan_encodeAll o is h.2
    simp only [scan] at ih ⊢
    simp only [encodeAll, List.map_cons]
    rw [scan_item o e c _ h.1, ih]


/-! ## the minimal / defensive choice is always a valid writing -/

theorem convStep_nonletter {c : Char} (h : isEscLetter c = false) (rest : List Char) :
    convStep (c :: rest) = none := by
  simp only [isEscLetter, Bool.or_eq_false_iff, beq_eq_false_iff_ne, ne_eq] at h
  obtain ⟨⟨⟨hw, ho⟩, hx⟩, hu⟩ := h
  have hw' : wsMap c = none := by cases hh : wsMap c <;> simp_all
  have h0 : c ≠ '0' := by intro hc; subst hc; revert ho; decide
  unfold convStep
  simp only [hw']
  split <;> simp [ho, h0, hx, hu]

theorem isEscLetter_lt {c : Char} (h : isEscLetter c = true) : c.toNat < 256 := by
  simp only [isEscLetter, Bool.or_eq_true, beq_iff_eq] at h
  rcases h with ((h | h) | h) | h
  · unfold wsMap at h
    split at h
    · next hc => subst hc; decide
    · split at h
      · next hc => subst hc; decide
      · split at h
        · next hc => subst hc; decide
        · split at h
          · next hc => subst hc; decide
          · simp at h
  · simp only [isOct, Bool.and_eq_true, decide_eq_true_eq] at h
    have := h.2
    rw [Char.le_def] at this
    have h7 : ('7' : Char).val.toNat = 55 := by decide
    have : c.val.toNat ≤ ('7' : Char).val.toNat := UInt32.le_iff_toNat_le.mp this
    simp only [Char.toNat]; omega
  · subst h; decide
  · subst h; decide

theorem pick_ok (o : Opts) (hesc : o.esc ≠ some '\n') (d : Bool) (c : Char) (rest : List Char) :
    ItemOk o (pick o d c) c rest = true := by
  unfold pick
  split
  · -- the esc_char itself
    next he =>
    have hc : c ≠ '\n' := by intro h; subst h; exact hesc he
    have hdot : dot (scanDotall o) c = true := by simp [dot, hc]
    simp only [ItemOk, he, Option.isSome_some, hdot, Bool.and_self, Bool.true_and, Bool.or_eq_true,
      Bool.not_eq_true', Option.isNone_iff_eq_none]
    by_cases hq : (o.convWs && some c == some '\\') = true
    · right
      simp only [Bool.and_eq_true, beq_iff_eq, Option.some.injEq] at hq
      rw [hq.2]
      exact convStep_nonletter (by decide) rest
    · left; simpa using hq
  · next he =>
    split
    · next hb =>
      simp only [Bool.and_eq_true, beq_iff_eq] at hb
      simp only [ItemOk, hb.1, hb.2, Bool.true_and, decide_eq_true_eq]
      decide
    · next hb =>
      split
      · next hsome =>
        split
        · next hnd =>
          have hcn : c = '\n' := by
            simp only [dot, Bool.not_eq_true', Bool.or_eq_false_iff, bne_eq_false_iff_eq] at hnd
            exact hnd.2
          split
          · next hcw => simp [ItemOk, hcw, hcn]
          · next hcw =>
            have : o.esc ≠ some c := he
            simp [ItemOk, hcw, this]
        · next hnd =>
          split
          · next hl =>
            simp only [Bool.and_eq_true] at hl
            simp only [ItemOk, hl.1.1, Bool.true_and, decide_eq_true_eq]
            exact isEscLetter_lt hl.2
          · next hl =>
            have hs : o.esc.isSome = true := by
              simp only [Bool.and_eq_true] at hsome; exact hsome.1
            have hdot : dot (scanDotall o) c = true := by simpa using hnd
            simp only [ItemOk, hs, hdot, Bool.and_self, Bool.true_and, Bool.or_eq_true, Bool.not_eq_true',
              Option.isNone_iff_eq_none]
            by_cases hq : (o.convWs && o.esc == some '\\') = true
            · right
              have : isEscLetter c = false := by
                cases hh : isEscLetter c with
                | false => rfl
                | true => exact absurd (by simp [hq, hh]) hl
              exact convStep_nonletter this rest
            · left; simpa using hq
      · split
        · next hw =>
          simp only [Bool.and_eq_true, Bool.or_eq_true, beq_iff_eq] at hw
          simp only [ItemOk, hw.2, Bool.true_and, Bool.or_eq_true, beq_iff_eq]
          rcases hw.1.1 with h | h <;> simp [h]
        · have h1 : (o.esc != some c) = true := by simp [he]
          have h2 : (!(o.convWs && c == '\\')) = true := by
            cases hh : (o.convWs && c == '\\') with
            | false => rfl
            | true => exact absurd hh hb
          simp only [ItemOk, h1, h2, Bool.true_or, Bool.and_self]

theorem valid_map_pick (o : Opts) (hesc : o.esc ≠ some '\n') (d : Bool) : ∀ (s : List Char),
    Valid o (s.map (fun c => (pick o d c, c))) = true
  | [] => rfl
  | c :: cs => by
    simp only [List.map_cons, Valid, Bool.and_eq_true]
    exact ⟨pick_ok o hesc d c _, valid_map_pick o hesc d cs⟩

/-! ## `str.replace` -/

theorem replAux_skip (old new : List Char) : ∀ (k : Nat) (l : List Char),
    replAux old new k l = replAux old new 0 (l.drop k)
  | 0, l => by simp
  | k + 1, [] => by simp [replAux]
  | k + 1, _ :: cs => by simp only [replAux, List.drop_succ_cons]; exact replAux_skip old new k cs

/-- writing every `q` as `qq` … -/
def double (q : Char) (s : List Char) : List Char := s.flatMap (fun c => if c = q then [q, q] else [c])

theorem replace_double (q : Char) : ∀ s : List Char, replaceAll [q] [q, q] s = double q s := by
  intro s
  simp only [replaceAll, List.isEmpty_cons, Bool.false_eq_true, if_false]
  induction s with
  | nil => rfl
  | cons c t ih =>
    by_cases h : c = q
    · subst h
      simp only [replAux, List.isPrefixOf, beq_self_eq_true, Bool.true_and, List.length_cons, List.length_nil]
      simp [double, List.flatMap_cons] at ih ⊢
      exact ih
    · have : (q == c) = false := by simp [Ne.symm h]
      simp only [replAux, List.isPrefixOf, this, Bool.false_and]
      simp [double, List.flatMap_cons, h] at ih ⊢
      exact ih

/-- … and reading every `qq` as `q` gives the text back -/
theorem halve_double (q : Char) : ∀ s : List Char, replaceAll [q, q] [q] (double q s) = s := by
  intro s
  simp only [replaceAll, List.isEmpty_cons, Bool.false_eq_true, if_false]
  induction s with
  | nil => rfl
  | cons c t ih =>
    by_cases h : c = q
    · subst h
      simp only [double, List.flatMap_cons, if_true, List.cons_append, List.nil_append] at ih ⊢
      simp only [replAux, List.isPrefixOf, beq_self_eq_true, Bool.true_and, if_true, List.length_cons,
        List.length_nil, List.cons_append, List.nil_append]
      rw [replAux_skip]
      simp only [List.drop_zero]
      rw [ih]
    · have hq : (q == c) = false := by simp [Ne.symm h]
      simp only [double, List.flatMap_cons, h, if_false, List.cons_append, List.nil_append] at ih ⊢
      simp only [replAux, List.isPrefixOf, hq, Bool.false_and]
      simp [ih]

end PP.Quoted
