import PPModel.Mod.WordPaths
/-!
  Helper lemmas for C17 (Word): the character loop and the greedy repetition of the regex model both
  compute "the longest run, capped".
-/
namespace PP.WordPaths
open PP.ReLite PP.Ranges

/-- length of the longest prefix of `l` all of whose characters satisfy `p` -/
def runAll (p : Char → Bool) : List Char → Nat
  | [] => 0
  | c :: cs => if p c then runAll p cs + 1 else 0

/-- cap a run length by an optional maximum -/
def capMin (n : Option Nat) (k : Nat) : Nat :=
  match n with
  | some c => Nat.min c k
  | none => k

/-- **the declarative reading of a Word**: at `loc`, an initial character followed by the longest run
    of body characters, capped at `maxLen`, failing below `minLen` -/
def wordSpec (initP bodyP : Char → Bool) (minLen : Nat) (maxLen : Option Nat)
    (s : List Char) (loc : Nat) : Option Nat :=
  match s[loc]? with
  | none => none
  | some c =>
    if initP c then
      let run := 1 + runAll bodyP (s.drop (loc + 1))
      let k := capMin maxLen run
      if k < minLen then none else some (loc + k)
    else none

/-- end of the capped run (where the strict-max test of the character loop looks) -/
def runEnd (bodyP : Char → Bool) (maxLen : Option Nat) (s : List Char) (loc : Nat) : Nat :=
  loc + capMin maxLen (1 + runAll bodyP (s.drop (loc + 1)))

theorem runAll_le_length (p : Char → Bool) (l : List Char) : runAll p l ≤ l.length := by
  induction l with
  | nil => simp [runAll]
  | cons c cs ih => simp only [runAll]; split <;> simp <;> omega

theorem runAll_drop_of_ge (p : Char → Bool) (s : List Char) (pos : Nat) (h : s.length ≤ pos) :
    runAll p (s.drop pos) = 0 := by
  rw [List.drop_eq_nil_of_le h]; rfl

theorem drop_eq_cons {s : List Char} {pos : Nat} {c : Char} (h : s[pos]? = some c) :
    s.drop pos = c :: s.drop (pos + 1) := by
  induction s generalizing pos with
  | nil => simp at h
  | cons d ds ih =>
    cases pos with
    | zero => simp at h; simp [h]
    | succ n => simp at h; simp [ih h]

theorem runAll_drop_step (p : Char → Bool) (s : List Char) (pos : Nat) :
    runAll p (s.drop pos) =
      match s[pos]? with
      | some c => if p c then runAll p (s.drop (pos + 1)) + 1 else 0
      | none => 0 := by
  cases h : s[pos]? with
  | none =>
    have : s.length ≤ pos := by simpa using h
    simp [runAll_drop_of_ge p s pos this]
  | some c => simp [drop_eq_cons h, runAll]

/-! ### the character loop -/

theorem bodyLoop_eq (body : List Char) (s : List Char) (maxloc : Nat) (hm : maxloc ≤ s.length) :
    ∀ (f loc : Nat), maxloc - loc ≤ f →
      bodyLoop body s maxloc f loc = loc + Nat.min (maxloc - loc) (runAll body.contains (s.drop loc)) := by
  intro f
  induction f with
  | zero =>
    intro loc h
    have : maxloc - loc = 0 := by omega
    simp [bodyLoop, this, Nat.min_def]
  | succ f ih =>
    intro loc h
    simp only [bodyLoop]
    by_cases hlt : loc < maxloc
    · have hl : loc < s.length := by omega
      have hs : s[loc]? = some s[loc] := by simp [hl]
      have hci : charIn body s loc = body.contains s[loc] := by simp [charIn, hs]
      have hrun : runAll body.contains (s.drop loc) =
          if body.contains s[loc] = true then runAll body.contains (s.drop (loc + 1)) + 1 else 0 := by
        rw [runAll_drop_step]; simp [hs]
      rw [hci, hrun]
      by_cases hb : body.contains s[loc] = true
      · simp only [hlt, hb, decide_true, Bool.and_self, if_true]
        rw [ih (loc + 1) (by omega)]
        simp only [Nat.min_def]
        split <;> split <;> omega
      · simp only [hb]
        simp [Nat.min_def]
    · have : maxloc - loc = 0 := by omega
      simp [hlt, this, Nat.min_def]

/-! ### the greedy repetition of a one-character step -/

theorem head?_append_ne (a b : List Nat) (h : a ≠ []) : (a ++ b).head? = a.head? := by
  cases a with
  | nil => exact absurd rfl h
  | cons x xs => rfl

/-- a step that consumes exactly one character satisfying `p` -/
def oneStep (p : Char → Bool) (s : List Char) (pos : Nat) : List Nat :=
  match s[pos]? with
  | some d => if p d then [pos + 1] else []
  | none => []

theorem repGo_head (p : Char → Bool) (s : List Char) :
    ∀ (f m : Nat) (n : Option Nat) (pos : Nat), s.length + 1 ≤ f + pos →
      (repGo (oneStep p s) f m n pos).head? =
        (if m ≤ capMin n (runAll p (s.drop pos)) then some (pos + capMin n (runAll p (s.drop pos)))
         else none) := by
  intro f
  induction f with
  | zero =>
    intro m n pos h
    have h0 : runAll p (s.drop pos) = 0 := runAll_drop_of_ge p s pos (by omega)
    have hc : capMin n 0 = 0 := by cases n <;> simp [capMin, Nat.min_def]
    simp only [repGo, h0, hc]
    by_cases hm : m = 0 <;> simp [hm]
  | succ f ih =>
    intro m n pos h
    simp only [repGo]
    by_cases hn : n = some 0
    · subst hn
      have hc : ∀ k, capMin (some 0) k = 0 := by intro k; simp [capMin, Nat.min_def]
      simp only [hc, if_true]
      by_cases hm : m = 0 <;> simp [hm]
    · simp only [hn, if_false]
      rw [runAll_drop_step]
      cases hs : s[pos]? with
      | none =>
        have hc : capMin n 0 = 0 := by cases n <;> simp [capMin, Nat.min_def]
        simp only [oneStep, hs, hc]
        by_cases hm : m = 0 <;> simp [hm]
      | some d =>
        by_cases hp : p d = true
        · have hstep : (oneStep p s pos).filter (fun e => decide (pos < e)) = [pos + 1] := by
            simp [oneStep, hs, hp]
          rw [hstep]
          simp only [List.flatMap_cons, List.flatMap_nil, List.append_nil, hp, if_true]
          have IH := ih (m - 1) (n.map (· - 1)) (pos + 1) (by omega)
          -- relate the caps
          have hcap : capMin n (runAll p (s.drop (pos + 1)) + 1)
              = capMin (n.map (· - 1)) (runAll p (s.drop (pos + 1))) + 1 := by
            cases n with
            | none => simp [capMin]
            | some c =>
              have : c ≠ 0 := by intro h0; exact hn (by simp [h0])
              simp only [capMin, Option.map, Nat.min_def]
              split <;> split <;> omega
          rw [hcap]
          generalize capMin (n.map (· - 1)) (runAll p (s.drop (pos + 1))) = k at IH ⊢
          by_cases hk : m - 1 ≤ k
          · rw [if_pos hk] at IH
            have hne : repGo (oneStep p s) f (m - 1) (n.map (· - 1)) (pos + 1) ≠ [] := by
              intro hnil; rw [hnil] at IH; simp at IH
            rw [head?_append_ne _ _ hne, IH]
            have : m ≤ k + 1 := by omega
            simp only [this, if_true]
            congr 1; omega
          · rw [if_neg hk] at IH
            have hnil : repGo (oneStep p s) f (m - 1) (n.map (· - 1)) (pos + 1) = [] :=
              List.head?_eq_none_iff.mp IH
            rw [hnil]
            have hm0 : m ≠ 0 := by omega
            have : ¬ m ≤ k + 1 := by omega
            simp [hm0, this]
        · have hstep : (oneStep p s pos).filter (fun e => decide (pos < e)) = [] := by
            simp [oneStep, hs, hp]
          rw [hstep]
          have hc : capMin n 0 = 0 := by cases n <;> simp [capMin, Nat.min_def]
          simp only [hp, hc]
          by_cases hm : m = 0 <;> simp [hm, hc]


/-! ### the character loop path = spec, with the strict-max test made explicit -/

theorem charIn_eq (set s : List Char) (i : Nat) :
    charIn set s i = match s[i]? with | some c => set.contains c | none => false := rfl

/-- the tests after the loop (core.py:2997-3010) -/
def slowTail (w : Word) (s : List Char) (start e : Nat) : Out :=
  if e - start < w.minLen then none
  else if w.maxSpecified && e < s.length && charIn w.bodySet s e then none
  else if w.asKeyword &&
      ((start > 0 && charIn w.bodySet s (start - 1)) || (e < s.length && charIn w.bodySet s e))
    then none
  else some e

def slowMaxloc (w : Word) (s : List Char) (start : Nat) : Nat :=
  match w.maxLen with
  | some m => Nat.min (start + m) s.length
  | none => s.length

theorem slowPath_eq_tail (w : Word) (s : List Char) (loc : Nat) :
    slowPath w s loc =
      if !charIn w.initSet s loc then none
      else slowTail w s loc
        (bodyLoop w.bodySet s (slowMaxloc w s loc) (slowMaxloc w s loc - (loc + 1)) (loc + 1)) := rfl

theorem charIn_lt {set s : List Char} {i : Nat} (h : charIn set s i = true) : i < s.length := by
  rw [charIn_eq] at h
  rcases Nat.lt_or_ge i s.length with hl | hl
  · exact hl
  · have : s[i]? = none := by simp [hl]
    rw [this] at h; cases h

theorem bodyLoop_run (w : Word) (s : List Char) (loc : Nat) (hl : loc < s.length)
    (hmax : ∀ m, w.maxLen = some m → 0 < m) :
    bodyLoop w.bodySet s (slowMaxloc w s loc) (slowMaxloc w s loc - (loc + 1)) (loc + 1) =
      loc + capMin w.maxLen (1 + runAll w.bodySet.contains (s.drop (loc + 1))) := by
  have hR := runAll_le_length w.bodySet.contains (s.drop (loc + 1))
  simp only [List.length_drop] at hR
  unfold slowMaxloc
  cases hm : w.maxLen with
  | none =>
    simp only [capMin]
    rw [bodyLoop_eq w.bodySet s s.length (Nat.le_refl _) _ _ (Nat.le_refl _)]
    simp only [Nat.min_def]; split <;> omega
  | some m =>
    have hm0 := hmax m hm
    simp only [capMin]
    rw [bodyLoop_eq w.bodySet s _ (Nat.min_le_right _ _) _ _ (Nat.le_refl _)]
    simp only [Nat.min_def]; split <;> split <;> split <;> omega

theorem slowTail_nokw (w : Word) (s : List Char) (loc K : Nat) (hkw : w.asKeyword = false) :
    slowTail w s loc (loc + K) =
      if K < w.minLen then none
      else if w.maxSpecified && charIn w.bodySet s (loc + K) then none else some (loc + K) := by
  unfold slowTail
  have e2 : loc + K - loc = K := by omega
  rw [e2]
  have hb : (decide (loc + K < s.length) && charIn w.bodySet s (loc + K))
      = charIn w.bodySet s (loc + K) := by
    by_cases hc : charIn w.bodySet s (loc + K) = true
    · have := charIn_lt hc
      simp [hc, this]
    · have : charIn w.bodySet s (loc + K) = false := by simpa using hc
      simp [this]
  simp only [Bool.and_assoc, hb, hkw, Bool.false_and, Bool.false_eq_true, if_false]

/-- complete description of `Word.parseImpl` when `as_keyword` is off: the declarative spec, except that
    a specified `max` followed by one more body character is a failure (the strict max) -/
theorem slowPath_char (w : Word) (s : List Char) (loc : Nat)
    (hmax : ∀ m, w.maxLen = some m → 0 < m) (hkw : w.asKeyword = false) :
    slowPath w s loc =
      match wordSpec w.initSet.contains w.bodySet.contains w.minLen w.maxLen s loc with
      | some e => if w.maxSpecified && charIn w.bodySet s e then none else some e
      | none => none := by
  rw [slowPath_eq_tail]
  unfold wordSpec
  by_cases hi : charIn w.initSet s loc = true
  · have hl := charIn_lt hi
    rw [bodyLoop_run w s loc hl hmax, slowTail_nokw w s loc _ hkw]
    have hs : s[loc]? = some s[loc] := by simp [hl]
    have hic : w.initSet.contains s[loc] = true := by
      have := hi; rw [charIn_eq, hs] at this; exact this
    simp only [hi, hs, hic, Bool.not_true, Bool.false_eq_true, if_false, if_true]
    obtain ⟨K, hK⟩ : ∃ K, K = capMin w.maxLen (1 + runAll w.bodySet.contains (s.drop (loc + 1))) :=
      ⟨_, rfl⟩
    rw [← hK]
    by_cases hlt : K < w.minLen <;> simp [hlt]
  · have hi' : charIn w.initSet s loc = false := by simpa using hi
    simp only [hi', Bool.not_false, if_true]
    rw [charIn_eq] at hi'
    cases hs : s[loc]? with
    | none => rfl
    | some c =>
      rw [hs] at hi'
      have hic : w.initSet.contains c = false := hi'
      simp only [hic, Bool.false_eq_true, if_false]

/-! ### complete description of the character loop, including as_keyword -/

theorem slowTail_full (w : Word) (s : List Char) (loc K : Nat) :
    slowTail w s loc (loc + K) =
      if K < w.minLen then none
      else if w.maxSpecified && charIn w.bodySet s (loc + K) then none
      else if w.asKeyword &&
          ((decide (loc > 0) && charIn w.bodySet s (loc - 1)) || charIn w.bodySet s (loc + K)) then none
      else some (loc + K) := by
  unfold slowTail
  have e2 : loc + K - loc = K := by omega
  rw [e2]
  have hb : (decide (loc + K < s.length) && charIn w.bodySet s (loc + K))
      = charIn w.bodySet s (loc + K) := by
    by_cases hc : charIn w.bodySet s (loc + K) = true
    · have := charIn_lt hc
      simp [hc, this]
    · have : charIn w.bodySet s (loc + K) = false := by simpa using hc
      simp [this]
  simp only [Bool.and_assoc, hb]

/-- `Word.parseImpl` for every flag combination: the spec, then the strict-max test, then the
    as_keyword test against the *body characters* on both sides -/
theorem slowPath_full (w : Word) (s : List Char) (loc : Nat)
    (hmax : ∀ m, w.maxLen = some m → 0 < m) :
    slowPath w s loc =
      match wordSpec w.initSet.contains w.bodySet.contains w.minLen w.maxLen s loc with
      | some e =>
          if w.maxSpecified && charIn w.bodySet s e then none
          else if w.asKeyword &&
              ((decide (loc > 0) && charIn w.bodySet s (loc - 1)) || charIn w.bodySet s e) then none
          else some e
      | none => none := by
  rw [slowPath_eq_tail]
  unfold wordSpec
  by_cases hi : charIn w.initSet s loc = true
  · have hl := charIn_lt hi
    rw [bodyLoop_run w s loc hl hmax, slowTail_full w s loc _]
    have hs : s[loc]? = some s[loc] := by simp [hl]
    have hic : w.initSet.contains s[loc] = true := by
      have := hi; rw [charIn_eq, hs] at this; exact this
    simp only [hi, hs, hic, Bool.not_true, Bool.false_eq_true, if_false, if_true]
    obtain ⟨K, hK⟩ : ∃ K, K = capMin w.maxLen (1 + runAll w.bodySet.contains (s.drop (loc + 1))) :=
      ⟨_, rfl⟩
    rw [← hK]
    by_cases hlt : K < w.minLen <;> simp [hlt]
  · have hi' : charIn w.initSet s loc = false := by simpa using hi
    simp only [hi', Bool.not_false, if_true]
    rw [charIn_eq] at hi'
    cases hs : s[loc]? with
    | none => rfl
    | some c =>
      rw [hs] at hi'
      have hic : w.initSet.contains c = false := hi'
      simp only [hic, Bool.false_eq_true, if_false]

/-! ### the regex path = spec -/

theorem ends_chr (s : List Char) (c : Char) : ends false s (.chr c) = oneStep (fun d => [c].contains d) s := by
  funext pos
  simp only [ends, oneStep, chrEq]
  cases s[pos]? with
  | none => rfl
  | some d =>
    have : (c == d) = ([c].contains d) := by
      simp only [List.contains_cons, List.contains_nil, Bool.or_false]
      exact Bool.eq_iff_iff.mpr ⟨fun h => by simp at h; simp [h], fun h => by simp at h; simp [h]⟩
    simp [this]

theorem ends_cls (s : List Char) (items : List CItem) :
    ends false s (.cls items) = oneStep (clsMem items) s := by
  funext pos
  simp only [ends, oneStep, clsMemCi]
  cases s[pos]? <;> simp

section
variable (hden : ∀ (cs : List Char) (c : Char), clsMem (collapseItems cs) c = true ↔ c ∈ cs)
include hden

theorem clsMem_collapse_eq (cs : List Char) : clsMem (collapseItems cs) = cs.contains := by
  funext c
  apply Bool.eq_iff_iff.mpr
  rw [hden]; simp

theorem ends_clsOf (s : List Char) (set : List Char) :
    ends false s (clsOf set) = oneStep set.contains s := by
  unfold clsOf
  rw [ends_cls, clsMem_collapse_eq hden]

/-- the leading fragment (`re.escape` of the single character, or the class) consumes one initial
    character -/
theorem ends_lead (s : List Char) (I : List Char) :
    ends false s (leadRe I) = oneStep I.contains s := by
  unfold leadRe
  split
  · rw [ends_chr]
  · rw [ends_clsOf hden]

end

theorem matchAt_rep (s : List Char) (L : Re) (p : Char → Bool) (hL : ends false s L = oneStep p s)
    (m : Nat) (n : Option Nat) (pos : Nat) :
    (repGo (ends false s L) (s.length + 1 - pos) m n pos).head? =
      (if m ≤ capMin n (runAll p (s.drop pos)) then some (pos + capMin n (runAll p (s.drop pos)))
       else none) := by
  rw [hL]
  by_cases hp : pos ≤ s.length + 1
  · exact repGo_head p s _ m n pos (by omega)
  · -- beyond the end: no fuel and nothing to match
    have h0 : s.length + 1 - pos = 0 := by omega
    have hr : runAll p (s.drop pos) = 0 := runAll_drop_of_ge p s pos (by omega)
    have hc : capMin n 0 = 0 := by cases n <;> simp [capMin, Nat.min_def]
    rw [h0, hr, hc]
    simp only [repGo]
    by_cases hm : m = 0 <;> simp [hm]

theorem matchAt_cat_lead (s : List Char) (L X : Re) (p : Char → Bool)
    (hL : ends false s L = oneStep p s) (pos : Nat) :
    matchAt false (.cat L X) s pos =
      match s[pos]? with
      | some d => if p d then matchAt false X s (pos + 1) else none
      | none => none := by
  simp only [matchAt, ends, hL, oneStep]
  cases s[pos]? with
  | none => simp
  | some d => by_cases hp : p d = true <;> simp [hp]


theorem capMin_zero (n : Option Nat) : capMin n 0 = 0 := by
  cases n <;> simp [capMin, Nat.min_def]

/-- spec when the body set is the initial set: a capped run from `loc` -/
theorem wordSpec_same (p : Char → Bool) (mn : Nat) (ml : Option Nat) (hmn : 1 ≤ mn)
    (hml : ∀ m, ml = some m → 0 < m) (s : List Char) (loc : Nat) :
    wordSpec p p mn ml s loc =
      if mn ≤ capMin ml (runAll p (s.drop loc)) then some (loc + capMin ml (runAll p (s.drop loc)))
      else none := by
  unfold wordSpec
  rw [runAll_drop_step p s loc]
  cases hs : s[loc]? with
  | none =>
    have : ¬ mn ≤ 0 := by omega
    simp [capMin_zero, this]
  | some c =>
    by_cases hp : p c = true
    · simp only [hp, if_true]
      have e : 1 + runAll p (s.drop (loc + 1)) = runAll p (s.drop (loc + 1)) + 1 := by omega
      rw [e]
      generalize capMin ml (runAll p (s.drop (loc + 1)) + 1) = k
      by_cases hk : k < mn
      · have : ¬ mn ≤ k := by omega
        simp [hk, this]
      · have : mn ≤ k := by omega
        simp [hk, this]
    · have : ¬ mn ≤ 0 := by omega
      simp [hp, capMin_zero, this]

/-- lead fragment followed by `X`: enough to show that `X` realises the capped body run -/
theorem matchAt_cat_lead_spec (s : List Char) (L X : Re) (pI pB : Char → Bool) (mn : Nat)
    (ml : Option Nat) (loc : Nat) (hL : ends false s L = oneStep pI s)
    (hX : matchAt false X s (loc + 1) =
      (if capMin ml (1 + runAll pB (s.drop (loc + 1))) < mn then none
       else some (loc + capMin ml (1 + runAll pB (s.drop (loc + 1)))))) :
    matchAt false (.cat L X) s loc = wordSpec pI pB mn ml s loc := by
  rw [matchAt_cat_lead s L X pI hL]
  unfold wordSpec
  cases s[loc]? with
  | none => rfl
  | some c =>
    by_cases hp : pI c = true
    · simp only [hp, if_true]; rw [hX]
    · simp only [hp]; rfl

/-- the lead fragment alone is a Word of exactly one character -/
theorem matchAt_lead_spec (s : List Char) (L : Re) (pI pB : Char → Bool) (loc : Nat)
    (hL : ends false s L = oneStep pI s) :
    matchAt false L s loc = wordSpec pI pB 1 (some 1) s loc := by
  unfold wordSpec
  simp only [matchAt, hL, oneStep]
  cases s[loc]? with
  | none => rfl
  | some c =>
    have hk : capMin (some 1) (1 + runAll pB (s.drop (loc + 1))) = 1 := by
      simp only [capMin, Nat.min_def]; split <;> omega
    by_cases hp : pI c = true
    · simp only [hp, if_true, hk]; rfl
    · simp only [hp]; rfl

theorem oneStep_head (p : Char → Bool) (s : List Char) (pos : Nat) :
    (oneStep p s pos).head? =
      match s[pos]? with
      | some d => if p d then some (pos + 1) else none
      | none => none := by
  unfold oneStep
  cases s[pos]? with
  | none => rfl
  | some d => by_cases hp : p d = true <;> simp [hp]

section
variable (hden : ∀ (cs : List Char) (c : Char), clsMem (collapseItems cs) c = true ↔ c ∈ cs)
include hden

/-- **the regex built by `Word.__init__` matches exactly the declarative spec** (no `\b`) -/
theorem wordReCore_spec (I B : List Char) (mn mx : Nat) (hmn : 1 ≤ mn) (hmx : 0 < mx → mn ≤ mx)
    (s : List Char) (loc : Nat) :
    matchAt false (wordReCore I B mn mx mn (if mx > 0 then some mx else none)) s loc =
      wordSpec I.contains B.contains mn (if mx > 0 then some mx else none) s loc := by
  have hL := ends_lead hden s I
  have hBd := ends_clsOf hden s B
  unfold wordReCore
  simp only []
  generalize leadRe I = L at hL ⊢
  have hml : ∀ m, (if mx > 0 then some mx else none) = some m → 0 < m := by
    intro m h; by_cases h0 : mx > 0
    · simp [h0] at h; omega
    · simp [h0] at h
  by_cases hBI : (B == I) = true
  · have hEq : B = I := by simpa using hBI
    subst hEq
    rw [if_pos hBI]
    by_cases h1 : (mx == 0 && mn == 1) = true
    · -- `+`
      rw [if_pos h1, wordSpec_same _ mn _ hmn hml]
      have hmx0 : mx = 0 := by simp at h1; exact h1.1
      have hmn1 : mn = 1 := by simp at h1; exact h1.2
      subst hmx0; subst hmn1
      simp only [matchAt, ends]
      rw [matchAt_rep s L _ hL]
      simp
    · rw [if_neg h1]
      by_cases h2 : (mx == 1) = true
      · -- no repeat
        rw [if_pos h2]
        have hmx1 : mx = 1 := by simpa using h2
        subst hmx1
        have hmn1 : mn = 1 := by have := hmx (by omega); omega
        subst hmn1
        exact matchAt_lead_spec s L _ _ loc hL
      · rw [if_neg h2, wordSpec_same _ mn _ hmn hml]
        by_cases h3 : (some mn != (if mx > 0 then some mx else none)) = true
        · rw [if_pos h3]
          simp only [matchAt, ends]
          rw [matchAt_rep s L _ hL]
        · rw [if_neg h3]
          have h3' : (if mx > 0 then some mx else none) = some mn := by
            have : ¬ (some mn ≠ (if mx > 0 then some mx else none)) := by simpa using h3
            exact (Classical.not_not.mp this).symm
          simp only [matchAt, ends]
          rw [matchAt_rep s L _ hL, h3']
  · rw [if_neg hBI]
    by_cases h2 : (mx == 1) = true
    · rw [if_pos h2]
      have hmx1 : mx = 1 := by simpa using h2
      subst hmx1
      have hmn1 : mn = 1 := by have := hmx (by omega); omega
      subst hmn1
      exact matchAt_lead_spec s L _ _ loc hL
    · rw [if_neg h2]
      have hmx1 : mx ≠ 1 := by simpa using h2
      by_cases h1 : (mx == 0 && mn == 1) = true
      · -- lead body*
        rw [if_pos h1]
        have hmx0 : mx = 0 := by simp at h1; exact h1.1
        have hmn1 : mn = 1 := by simp at h1; exact h1.2
        subst hmx0; subst hmn1
        apply matchAt_cat_lead_spec s L _ _ _ _ _ loc hL
        simp only [matchAt, ends]
        rw [matchAt_rep s _ _ hBd]
        generalize runAll B.contains (s.drop (loc + 1)) = R
        simp only [Nat.lt_irrefl, if_false, capMin, Nat.zero_le, if_true]
        have : ¬ (1 + R < 1) := by omega
        rw [if_neg this]; congr 1; omega
      · rw [if_neg h1]
        by_cases h22 : (mx == 2) = true
        · rw [if_pos h22]
          have hmx2 : mx = 2 := by simpa using h22
          subst hmx2
          have hmn2 : mn ≤ 2 := hmx (by omega)
          have hR : runAll B.contains (s.drop (loc + 1)) =
              match s[loc + 1]? with
              | some d => if B.contains d then runAll B.contains (s.drop (loc + 1 + 1)) + 1 else 0
              | none => 0 := runAll_drop_step _ s (loc + 1)
          have h20 : (if 2 > 0 then some 2 else none) = (some 2 : Option Nat) := rfl
          rw [h20]
          have hk0 : capMin (some 2) (1 + 0) = 1 := by simp [capMin, Nat.min_def]
          have hk1 : ∀ R', capMin (some 2) (1 + (R' + 1)) = 2 := by
            intro R'; simp only [capMin, Nat.min_def]; split <;> omega
          by_cases hle : mn ≤ 1
          · rw [if_pos hle]
            have hmn1 : mn = 1 := by omega
            subst hmn1
            apply matchAt_cat_lead_spec s L _ _ _ _ _ loc hL
            simp only [matchAt, ends, hBd]
            cases hs1 : s[loc + 1]? with
            | none =>
              have hR0 : runAll B.contains (s.drop (loc + 1)) = 0 := by rw [hR, hs1]
              have e : oneStep B.contains s (loc + 1) = [] := by simp [oneStep, hs1]
              rw [hR0, e, hk0]; rfl
            | some d =>
              by_cases hb : B.contains d = true
              · have hR1 : runAll B.contains (s.drop (loc + 1)) =
                    runAll B.contains (s.drop (loc + 1 + 1)) + 1 := by
                  rw [hR, hs1]; simp only [hb, if_true]
                have e : oneStep B.contains s (loc + 1) = [loc + 1 + 1] := by
                  simp only [oneStep, hs1, hb, if_true]
                rw [hR1, e, hk1]; rfl
              · have hR0 : runAll B.contains (s.drop (loc + 1)) = 0 := by
                  rw [hR, hs1]; simp only [hb]; rfl
                have e : oneStep B.contains s (loc + 1) = [] := by
                  simp only [oneStep, hs1, hb]; rfl
                rw [hR0, e, hk0]; rfl
          · rw [if_neg hle]
            have hmn1 : mn = 2 := by omega
            subst hmn1
            apply matchAt_cat_lead_spec s L _ _ _ _ _ loc hL
            simp only [matchAt, hBd]
            cases hs1 : s[loc + 1]? with
            | none =>
              have hR0 : runAll B.contains (s.drop (loc + 1)) = 0 := by rw [hR, hs1]
              have e : oneStep B.contains s (loc + 1) = [] := by simp [oneStep, hs1]
              rw [hR0, e, hk0]; rfl
            | some d =>
              by_cases hb : B.contains d = true
              · have hR1 : runAll B.contains (s.drop (loc + 1)) =
                    runAll B.contains (s.drop (loc + 1 + 1)) + 1 := by
                  rw [hR, hs1]; simp only [hb, if_true]
                have e : oneStep B.contains s (loc + 1) = [loc + 1 + 1] := by
                  simp only [oneStep, hs1, hb, if_true]
                rw [hR1, e, hk1]; rfl
              · have hR0 : runAll B.contains (s.drop (loc + 1)) = 0 := by
                  rw [hR, hs1]; simp only [hb]; rfl
                have e : oneStep B.contains s (loc + 1) = [] := by
                  simp only [oneStep, hs1, hb]; rfl
                rw [hR0, e, hk0]; rfl
        · rw [if_neg h22]
          have hmx2 : mx ≠ 2 := by simpa using h22
          by_cases h4 : (mn != mx) = true
          · rw [if_pos h4]
            have hne : mn ≠ mx := by simpa using h4
            apply matchAt_cat_lead_spec s L _ _ _ _ _ loc hL
            simp only [matchAt, ends]
            rw [matchAt_rep s _ _ hBd]
            generalize runAll B.contains (s.drop (loc + 1)) = R
            by_cases h0 : mx > 0
            · simp only [h0, if_true, capMin, Nat.min_def]
              split <;> split <;> split <;> first | rfl | (simp; omega) | omega
            · have : mx = 0 := by omega
              subst this
              simp only [Nat.lt_irrefl, if_false, capMin]
              split <;> split <;> first | rfl | (simp; omega) | omega
          · rw [if_neg h4]
            have heq : mn = mx := by simpa using h4
            subst heq
            apply matchAt_cat_lead_spec s L _ _ _ _ _ loc hL
            simp only [matchAt, ends]
            rw [matchAt_rep s _ _ hBd]
            generalize runAll B.contains (s.drop (loc + 1)) = R
            have h0 : mn > 0 := by omega
            simp only [h0, if_true, capMin, Nat.min_def]
            split <;> split <;> split <;> first | rfl | (simp; omega) | omega

end


/-! ### what `Word.__init__` establishes -/

theorem mkWord_facts (a : WordArgs) (w : Word) (h : mkWord a = some w) :
    w.initSet = initSetOf a ∧ w.bodySet = bodySetOf a ∧
    w.minLen = effMin a ∧ w.maxLen = maxLenOf a ∧
    1 ≤ effMin a ∧ (0 < effMax a → effMin a ≤ effMax a) ∧ w.asKeyword = a.asKeyword ∧
    w.maxSpecified = decide (a.max > 0) ∧ w.re = reOf a := by
  unfold mkWord at h
  split at h
  · cases h
  · split at h
    · cases h
    · split at h
      · cases h
      · rename_i h1 h2 h3
        injection h with h
        subst h
        refine ⟨rfl, rfl, rfl, rfl, ?_, ?_, rfl, rfl, rfl⟩
        · unfold effMin; split <;> omega
        · intro hpos
          unfold effMin effMax at *
          by_cases he : a.exact > 0
          · simp [he]
          · simp only [he, if_false] at hpos ⊢
            simp only [Bool.and_eq_true, decide_eq_true_eq, not_and, Nat.not_lt] at h3
            have := h3 hpos; omega

end PP.WordPaths
