import PPModel.Mod.Sugar
import PPProofs.Lemmas.ParseAdv
import PPProofs.Lemmas.ParseBound
import PPProofs.Lemmas.ParseStrict
/-
  Termination of the parse model on non-recursive grammars, with an explicit fuel bound.

  `hang` is produced in exactly these places of PPModel/Mod/Parse.lean:
    * `parse … 0` (fuel exhausted) and `parseStep` on an id outside the table;
    * the private budgets (`slen + 2`) of the inner loops `ignoreOne`, `skipIgnorables`, `manyLoop`, `ignLoop`;
    * the non-advance tests `l ≤ loc` of `ignoreOne` and `manyLoop` (where the real code loops for ever);
    * propagation of a nested `hang` (`stopCheck` / `canParseNext` / `orPass1` returning `none`, …);
    * an unreachable match arm (`orAt` on an empty sorted candidate list) and, in Entry.lean, the budget of `scanLoop`
      and its unreachable `abort (fail parse)` arm.
  One `…_nohang` lemma per helper, generic in the recursive call `p`, under
    `NH p e`        the nested calls the helper makes do not hang,
    `Adv p`         successful calls end at or after their start (Lemmas/ParseAdv.lean),
    `BndAll slen p` successful calls begun at `loc` end at or before `max loc (slen+1)` (Lemmas/ParseBound.lean, at every
                    `N ≥ slen+1`),
  and — only for the two non-advance tests — the hypothesis that the tested expression, when it matches, ends strictly
  after the location the loop tested.  The loop budgets are never exhausted because the positions strictly increase
  and stay `≤ slen + 1`.
-/
namespace PP.Parse

/-- `p` does not hang on element `e` (at any location, with any flags) -/
def NH (p : P) (e : Nat) : Prop := ∀ loc a c, p e loc a c ≠ .hang

/-- `Bnd N p` at every `N ≥ slen + 1` -/
def BndAll (slen : Nat) (p : P) : Prop := ∀ N, slen + 1 ≤ N → Bnd N p

theorem BndAll.ok_le {slen : Nat} {p : P} (hb : BndAll slen p) {e loc : Nat} {a c : Bool} {l : Nat} {ts : List Tok}
    (h : p e loc a c = .ok l ts) : l ≤ max loc (slen + 1) := by
  have := hb (max loc (slen + 1)) (by omega) e loc a c (by omega)
  rw [h] at this
  exact this

theorem parse_bndAll (g : Grammar) (s : List Char) : ∀ f, BndAll s.length (parse g s f) := by
  intro f N hN
  induction f with
  | zero => intro _ _ _ _ _; simp [parse, Out.inB]
  | succ f ih => exact parseStep_bnd g s hN ih

/-! ### try_parse / can_parse_next -/

theorem tryParse_nohang {p : P} {e : Nat} (hp : NH p e) (loc : Nat) (rf da : Bool) : tryParse p e loc rf da ≠ .hang := by
  unfold tryParse
  cases h0 : p e loc da true with
  | ok l ts => simp
  | fail c l => simp only; split <;> simp
  | idx => simp
  | hang => exact absurd h0 (hp _ _ _)

theorem canParseNext_nohang {p : P} {e : Nat} (hp : NH p e) (loc : Nat) (da : Bool) : canParseNext p e loc da ≠ none := by
  unfold canParseNext
  have := tryParse_nohang hp loc false da
  cases h0 : tryParse p e loc false da with
  | ok l ts => simp
  | fail c l => simp
  | idx => simp
  | hang => exact absurd h0 this

theorem stopCheck_nohang {p : P} {ne : Option Nat} (hp : ∀ n, ne = some n → NH p n) (loc : Nat) :
    stopCheck p ne loc ≠ none := by
  unfold stopCheck
  cases ne with
  | none => simp
  | some n =>
    simp only
    have := tryParse_nohang (hp n rfl) loc false false
    cases h0 : tryParse p n loc false false with
    | ok l ts => simp
    | fail c l => simp
    | idx => simp
    | hang => exact absurd h0 this

/-! ### pre-parsing -/

/-- element `e`, when it matches through `p` as an ignorable (`doActions`, `callPreParse` both on), consumes something -/
def IgnAdv (p : P) (e : Nat) : Prop := ∀ loc l ts, p e loc true true = .ok l ts → loc < l

theorem ignoreOne_nohang {slen : Nat} {p : P} {e : Nat} (hp : NH p e) (hb : BndAll slen p) (ha : IgnAdv p e) :
    ∀ k loc found, 1 ≤ k → slen + 2 ≤ k + loc → (ignoreOne p e k loc found).1 ≠ .abort .hang := by
  intro k
  induction k with
  | zero => intro loc found h1; omega
  | succ k ih =>
    intro loc found _ h2
    unfold ignoreOne
    cases h0 : p e loc true true with
    | ok l ts =>
      have hl := ha _ _ _ h0
      have hu := hb.ok_le h0
      simp only
      rw [if_neg (by omega)]
      exact ih _ _ (by omega) (by omega)
    | fail c l => cases c <;> simp
    | idx => simp
    | hang => exact absurd h0 (hp _ _ _)

theorem ignorePass_nohang {slen : Nat} {p : P} (hb : BndAll slen p) :
    ∀ es, (∀ e ∈ es, NH p e ∧ IgnAdv p e) → ∀ loc found, (ignorePass p slen es loc found).1 ≠ .abort .hang := by
  intro es
  induction es with
  | nil => intro _ loc found; simp [ignorePass]
  | cons e es ih =>
    intro hes loc found
    unfold ignorePass
    have h1 := ignoreOne_nohang (hes e (by simp)).1 hb (hes e (by simp)).2 (slen + 2) loc found (by omega) (by omega)
    generalize ignoreOne p e (slen + 2) loc found = r at h1
    rcases r with ⟨r, f⟩
    cases r with
    | «at» l => exact ih (fun x hx => hes x (List.mem_cons_of_mem _ hx)) _ _
    | abort o => exact h1

theorem skipIgnorables_nohang {slen : Nat} {p : P} (hb : BndAll slen p) (ign : List Nat)
    (hes : ∀ e ∈ ign, NH p e ∧ IgnAdv p e) :
    ∀ k loc, 1 ≤ k → slen + 2 ≤ k + loc → skipIgnorables p slen ign k loc ≠ .abort .hang := by
  intro k
  induction k with
  | zero => intro loc h1; omega
  | succ k ih =>
    intro loc _ h2
    unfold skipIgnorables
    have h1 := ignorePass_nohang hb ign hes loc false
    have h3 := ignorePass_bnd (hb (max loc (slen + 1)) (by omega)) slen ign loc false (by omega)
    have h4 := ignorePass_ge p slen ign loc false
    generalize ignorePass p slen ign loc false = r at h1 h3 h4
    rcases r with ⟨r, f⟩
    cases r with
    | «at» l =>
      simp only
      have h5 := h4 l f rfl
      have h6 : l ≤ max loc (slen + 1) := h3
      split
      · simp
      · rename_i hc
        have hne : l ≠ loc := by
          intro heq; apply hc; simp [heq]
        exact ih _ (by omega) (by omega)
    | abort o => exact h1

theorem preParse_nohang {p : P} (nd : Node) (s : List Char) (hb : BndAll s.length p)
    (hes : ∀ e ∈ nd.ignore, NH p e ∧ IgnAdv p e) (loc : Nat) : preParse p nd s loc ≠ .abort .hang := by
  unfold preParse
  split
  · simp
  · simp only
    have h1 : (if nd.ignore.isEmpty then PreR.at loc else skipIgnorables p s.length nd.ignore (s.length + 2) loc)
        ≠ .abort .hang := by
      split
      · simp
      · exact skipIgnorables_nohang hb _ hes _ _ (by omega) (by omega)
    generalize (if nd.ignore.isEmpty then PreR.at loc else skipIgnorables p s.length nd.ignore (s.length + 2) loc) = r at h1
    cases r with
    | «at» l => simp
    | abort o => exact h1

/-! ### combinators -/

theorem andRest_nohang {p : P} (isStop : Nat → Bool) (acts : Bool) (slen : Nat) :
    ∀ es, (∀ e ∈ es, NH p e) → ∀ stop loc acc, andRest p isStop acts slen es stop loc acc ≠ .hang := by
  intro es
  induction es with
  | nil => intro _ stop loc acc; simp [andRest]
  | cons x es ih =>
    intro hes stop loc acc
    have ih' := ih (fun e he => hes e (List.mem_cons_of_mem _ he))
    unfold andRest
    split
    · exact ih' _ _ _
    · cases h0 : p x loc acts true with
      | ok l ts => exact ih' _ _ _
      | fail c l => simp only; split <;> simp
      | idx => simp only; split <;> simp
      | hang => exact absurd h0 (hes x (by simp) _ _ _)

theorem andImpl_nohang {p : P} (isStop : Nat → Bool) (acts : Bool) (slen : Nat) (es : List Nat)
    (hes : ∀ e ∈ es, NH p e) (loc : Nat) : andImpl p isStop acts slen es loc ≠ .hang := by
  unfold andImpl
  cases es with
  | nil => simp
  | cons e0 rest =>
    simp only
    cases h0 : p e0 loc acts false with
    | ok l ts => exact andRest_nohang _ _ _ _ (fun e he => hes e (List.mem_cons_of_mem _ he)) _ _ _
    | fail c l => simp
    | idx => simp
    | hang => exact absurd h0 (hes e0 (by simp) _ _ _)

theorem mfGo_nohang {p : P} (acts : Bool) (slen loc : Nat) :
    ∀ es, (∀ e ∈ es, NH p e) → ∀ mx, mfGo p acts slen loc es mx ≠ .hang := by
  intro es
  induction es with
  | nil => intro _ mx; cases mx <;> simp [mfGo]
  | cons x es ih =>
    intro hes mx
    have ih' := ih (fun e he => hes e (List.mem_cons_of_mem _ he))
    unfold mfGo
    cases h0 : p x loc acts true with
    | ok l ts => simp
    | fail c l => cases c <;> first | exact ih' _ | simp
    | idx => exact ih' _
    | hang => exact absurd h0 (hes x (by simp) _ _ _)

theorem orPass1_nohang {p : P} (nameLen : Nat → Nat) (slen loc : Nat) :
    ∀ es, (∀ e ∈ es, NH p e) → ∀ a, orPass1 p nameLen slen loc es a ≠ none := by
  intro es
  induction es with
  | nil => intro _ a; simp [orPass1]
  | cons x es ih =>
    intro hes a
    have ih' := ih (fun e he => hes e (List.mem_cons_of_mem _ he))
    unfold orPass1
    have := tryParse_nohang (hes x (by simp)) loc true false
    cases h0 : tryParse p x loc true false with
    | ok l ts => exact ih' _
    | fail c l =>
      simp only
      split
      · exact ih' _
      · split
        · exact ih' _
        · exact ih' _
    | idx => exact ih' _
    | hang => exact absurd h0 this

theorem orPass2_nohang {p : P} (loc : Nat) :
    ∀ ms, (∀ m ∈ ms, NH p m.2) → ∀ longest mx, orPass2 p loc ms longest mx ≠ .inl .hang := by
  intro ms
  induction ms with
  | nil => intro _ longest mx; simp [orPass2]
  | cons m ms ih =>
    intro hms longest mx
    have ih' := ih (fun e he => hms e (List.mem_cons_of_mem _ he))
    rcases m with ⟨loc1, x⟩
    have hx : NH p x := hms (loc1, x) (by simp)
    have step : orPass2.orStep p loc loc1 x ms longest mx ≠ .inl .hang := by
      unfold orPass2.orStep
      cases h0 : p x loc true true with
      | ok l2 ts2 =>
        simp only
        split
        · simp
        · exact ih' _ _
      | fail c l =>
        cases c
        · exact ih' _ _
        · simp
        · simp
      | idx => simp
      | hang => exact absurd h0 (hx _ _ _)
    unfold orPass2
    cases longest with
    | none => exact step
    | some llt =>
      rcases llt with ⟨ll0, lt0⟩
      simp only
      split
      · simp
      · exact step

theorem orAfter_nohang (fatals : List Fatal) (mx : Option Nat) (loc : Nat) : orAfter fatals mx loc ≠ .hang := by
  unfold orAfter
  cases pickFatal fatals with
  | some f => simp
  | none => cases mx <;> simp

theorem insDesc_ne_nil (x : Nat × Nat) : ∀ l, insDesc x l ≠ [] := by
  intro l
  cases l with
  | nil => simp [insDesc]
  | cons y ys => unfold insDesc; split <;> simp

theorem sortDesc_eq_nil {l : List (Nat × Nat)} (h : sortDesc l = []) : l = [] := by
  cases l with
  | nil => rfl
  | cons x xs => unfold sortDesc at h; exact absurd h (insDesc_ne_nil _ _)

theorem orAt_nohang {p : P} (nameLen : Nat → Nat) (slen : Nat) (acts : Bool) (es : List Nat)
    (hes : ∀ e ∈ es, NH p e) (loc : Nat) : orAt p nameLen slen acts es loc ≠ .hang := by
  unfold orAt
  cases h1 : orPass1 p nameLen slen loc es {} with
  | none => exact absurd h1 (orPass1_nohang _ _ _ _ hes _)
  | some a =>
    have hc : ∀ m ∈ sortDesc a.cands, NH p m.2 := by
      intro m hm
      rcases orPass1_cands _ _ _ _ _ _ h1 m (mem_sortDesc hm) with h | h
      · simp at h
      · exact hes _ h
    simp only
    split
    · exact orAfter_nohang _ _ _
    · rename_i hne
      split
      · split
        · rename_i l0 e0 rest heq
          exact hc (l0, e0) (by rw [heq]; simp) _ _ _
        · rename_i heq
          have := sortDesc_eq_nil heq
          simp [this] at hne
      · have h2 := orPass2_nohang loc (sortDesc a.cands) hc none a.mx
        generalize orPass2 p loc (sortDesc a.cands) none a.mx = r at h2
        cases r with
        | inl o => simp only; intro ho; subst ho; exact h2 rfl
        | inr q =>
          rcases q with ⟨lg, mx'⟩
          cases lg with
          | none => exact orAfter_nohang _ _ _
          | some llt => rcases llt with ⟨ll, lt⟩; simp

theorem orImpl_nohang {p : P} (g : Grammar) (nd : Node) (s : List Char) (acts : Bool) (es : List Nat)
    (hb : BndAll s.length p) (hig : ∀ e ∈ nd.ignore, NH p e ∧ IgnAdv p e) (hes : ∀ e ∈ es, NH p e) (loc : Nat) :
    orImpl p g nd s acts es loc ≠ .hang := by
  unfold orImpl
  have h1 : (if es.all (callPreOf g) then preParse p nd s loc else PreR.at loc) ≠ .abort .hang := by
    split
    · exact preParse_nohang nd s hb hig loc
    · simp
  generalize (if es.all (callPreOf g) then preParse p nd s loc else PreR.at loc) = r at h1
  cases r with
  | abort o => simp only; intro ho; subst ho; exact h1 rfl
  | «at» l => exact orAt_nohang _ _ _ _ hes _

/-! ### repetition -/

theorem manyPre_nohang {p : P} (nd : Node) (slen : Nat) (hb : BndAll slen p)
    (hig : ∀ e ∈ nd.ignore, NH p e ∧ IgnAdv p e) (loc : Nat) : manyPre p nd slen loc ≠ .abort .hang := by
  unfold manyPre
  split
  · simp
  · exact skipIgnorables_nohang hb _ hig _ _ (by omega) (by omega)

/-- the body `x` of the repetition `nd`, when it matches after the loop's `_skipIgnorables`, ends strictly after the
    location `loc` the loop is at (the test `l ≤ loc` of `manyLoop`) -/
def ManyAdv (p : P) (nd : Node) (slen x : Nat) : Prop :=
  ∀ acts loc preloc l ts, manyPre p nd slen loc = .at preloc → p x preloc acts true = .ok l ts → loc < l

theorem manyLoop_nohang {p : P} (nd : Node) (acts : Bool) (slen x : Nat) (ne : Option Nat)
    (hb : BndAll slen p) (hig : ∀ e ∈ nd.ignore, NH p e ∧ IgnAdv p e) (hx : NH p x)
    (hne : ∀ n, ne = some n → NH p n) (ha : ManyAdv p nd slen x) :
    ∀ k loc acc, 1 ≤ k → slen + 2 ≤ k + loc → manyLoop p nd acts slen x ne k loc acc ≠ .hang := by
  intro k
  induction k with
  | zero => intro loc acc h1; omega
  | succ k ih =>
    intro loc acc _ h2
    unfold manyLoop
    cases hs : stopCheck p ne loc with
    | none => exact absurd hs (stopCheck_nohang hne _)
    | some b =>
      cases b with
      | true => simp
      | false =>
        simp only
        have hmb := manyPre_bnd (hb (max loc (slen + 1)) (by omega)) nd slen loc (by omega)
        cases hm : manyPre p nd slen loc with
        | abort o =>
          cases o with
          | ok e' ts' => simp
          | fail c l => cases c <;> simp
          | idx => simp
          | hang => exact absurd hm (manyPre_nohang nd slen hb hig _)
        | «at» preloc =>
          rw [hm] at hmb
          have hpl : preloc ≤ max loc (slen + 1) := hmb
          simp only
          cases h0 : p x preloc acts true with
          | ok l ts =>
            have hl := ha _ _ _ _ _ hm h0
            have hu := hb.ok_le h0
            simp only
            rw [if_neg (by omega)]
            exact ih _ _ (by omega) (by omega)
          | fail c l => cases c <;> simp
          | idx => simp
          | hang => exact absurd h0 (hx _ _ _)

theorem manyImpl_nohang {p : P} (nd : Node) (acts : Bool) (slen x : Nat) (ne : Option Nat)
    (hb : BndAll slen p) (hig : ∀ e ∈ nd.ignore, NH p e ∧ IgnAdv p e) (hx : NH p x)
    (hne : ∀ n, ne = some n → NH p n) (ha : ManyAdv p nd slen x) (loc : Nat) :
    manyImpl p nd acts slen x ne loc ≠ .hang := by
  have hbody : (match p x loc acts true with
      | .ok l ts => manyLoop p nd acts slen x ne (slen + 2) l ts
      | o => o) ≠ .hang := by
    cases h : p x loc acts true with
    | ok l' ts' => exact manyLoop_nohang nd acts slen x ne hb hig hx hne ha _ _ _ (by omega) (by omega)
    | fail c l' => simp
    | idx => simp
    | hang => exact absurd h (hx _ _ _)
  unfold manyImpl
  cases ne with
  | none => exact hbody
  | some n =>
    simp only
    have := tryParse_nohang (hne n rfl) loc false false
    cases ht : tryParse p n loc false false with
    | ok l ts => exact hbody
    | fail c l => simp
    | idx => simp
    | hang => exact absurd ht this

/-! ### SkipTo -/

theorem ignLoop_nohang {slen : Nat} {p : P} (hadv : Adv p) (hb : BndAll slen p) {i : Nat} (hi : NH p i) :
    ∀ k t, 1 ≤ k → slen + 2 ≤ k + t → ignLoop p i k t ≠ .inl .hang := by
  intro k
  induction k with
  | zero => intro t h1; omega
  | succ k ih =>
    intro t _ h2
    unfold ignLoop
    have hnh := tryParse_nohang hi t false false
    have hbd := tryParse_bnd (hb (max t (slen + 1)) (by omega)) i t false false (by omega)
    cases h0 : tryParse p i t false false with
    | ok l ts =>
      rw [h0] at hbd
      have hu : l ≤ max t (slen + 1) := hbd
      have hge := tryParse_adv hadv h0
      simp only
      split
      · simp
      · rename_i hc
        have hne : l ≠ t := by intro heq; apply hc; simp [heq]
        exact ih _ (by omega) (by omega)
    | fail c l => simp
    | idx => simp
    | hang => exact absurd h0 hnh

theorem failOnCheck_nohang {p : P} {fo : Option Nat} (hp : ∀ n, fo = some n → NH p n) (t : Nat) :
    failOnCheck p fo t ≠ none := by
  unfold failOnCheck
  cases fo with
  | none => simp
  | some n => exact canParseNext_nohang (hp n rfl) _ _

theorem ignStep_nohang {slen : Nat} {p : P} (hadv : Adv p) (hb : BndAll slen p) {ig : Option Nat}
    (hi : ∀ n, ig = some n → NH p n) (t : Nat) : ignStep p slen ig t ≠ .inl .hang := by
  unfold ignStep
  cases ig with
  | none => simp
  | some i => exact ignLoop_nohang hadv hb (hi i rfl) _ _ (by omega) (by omega)

theorem skipScan_nohang {p : P} (slen x : Nat) (fo ig : Option Nat) (loc0 : Nat) (hadv : Adv p) (hb : BndAll slen p)
    (hx : NH p x) (hfo : ∀ n, fo = some n → NH p n) (hig : ∀ n, ig = some n → NH p n) :
    ∀ k t, skipScan p slen x fo ig loc0 k t ≠ .inl .hang := by
  intro k
  induction k with
  | zero => intro t; simp [skipScan]
  | succ k ih =>
    intro t
    unfold skipScan
    split
    · simp
    · cases hf : failOnCheck p fo t with
      | none => exact absurd hf (failOnCheck_nohang hfo _)
      | some b =>
        cases b with
        | true => simp
        | false =>
          simp only
          cases hi : ignStep p slen ig t with
          | inl o => simp only; intro ho; simp at ho; subst ho; exact ignStep_nohang hadv hb hig _ hi
          | inr t' =>
            simp only
            cases h0 : p x t' false false with
            | ok l ts' => simp
            | fail c l =>
              cases c
              · exact ih _
              · simp
              · simp
            | idx => exact ih _
            | hang => exact absurd h0 (hx _ _ _)

theorem skipToImpl_nohang {p : P} (s : List Char) (acts : Bool) (x : Nat) (incl : Bool) (fo ig : Option Nat)
    (hadv : Adv p) (hb : BndAll s.length p) (hx : NH p x) (hfo : ∀ n, fo = some n → NH p n)
    (hig : ∀ n, ig = some n → NH p n) (loc : Nat) : skipToImpl p s acts x incl fo ig loc ≠ .hang := by
  unfold skipToImpl
  have hs := skipScan_nohang s.length x fo ig loc hadv hb hx hfo hig (s.length + 2) loc
  generalize skipScan p s.length x fo ig loc (s.length + 2) loc = r at hs
  cases r with
  | inl o => simp only; intro ho; subst ho; exact hs rfl
  | inr t =>
    simp only
    split
    · cases h0 : p x t acts false with
      | ok l ts' => simp
      | fail c l => simp
      | idx => simp
      | hang => exact absurd h0 (hx _ _ _)
    · simp

theorem enhanceImpl_nohang {p : P} (acts : Bool) (x : Option Nat) (hx : ∀ e, x = some e → NH p e) (loc : Nat) :
    enhanceImpl p acts x loc ≠ .hang := by
  unfold enhanceImpl
  cases x with
  | none => simp
  | some x =>
    simp only
    cases h0 : p x loc acts false with
    | ok l ts' => simp
    | fail c l => cases c <;> simp
    | idx => simp
    | hang => exact absurd h0 (hx x rfl _ _ _)

theorem runActs_nohang : ∀ (as : List Act) (start e : Nat) (ts : List Tok), runActs as start e ts ≠ .hang := by
  intro as
  induction as with
  | nil => intro _ _ _; simp [runActs]
  | cons a as ih =>
    intro start e ts
    unfold runActs
    cases a <;> first | exact ih _ _ _ | simp

/-! ### leaves -/

theorem litImpl_nohang (m s : List Char) (loc : Nat) : litImpl m s loc ≠ .hang := by
  unfold litImpl; split
  · simp
  · split <;> simp

theorem lit1Impl_nohang (c : Char) (s : List Char) (loc : Nat) : lit1Impl c s loc ≠ .hang := by
  unfold lit1Impl; split
  · simp
  · split <;> simp

theorem caselessLitImpl_nohang (mU ret s : List Char) (loc : Nat) : caselessLitImpl mU ret s loc ≠ .hang := by
  unfold caselessLitImpl; split <;> simp

theorem kwAfter_nohang (m ident : List Char) (up : Char → Char) (s : List Char) (loc : Nat) :
    kwAfter m ident up s loc ≠ .hang := by
  unfold kwAfter; split
  · simp
  · split
    · simp
    · split <;> simp

theorem kwTail_nohang (m ident : List Char) (up : Char → Char) (s : List Char) (loc : Nat) :
    kwTail m ident up s loc ≠ .hang := by
  unfold kwTail
  split
  · exact kwAfter_nohang _ _ _ _ _
  · split
    · simp
    · split
      · simp
      · exact kwAfter_nohang _ _ _ _ _

theorem keywordImpl_nohang (m ident : List Char) (cl : Bool) (s : List Char) (loc : Nat) :
    keywordImpl m ident cl s loc ≠ .hang := by
  unfold keywordImpl
  split
  · split
    · exact kwTail_nohang _ _ _ _ _
    · simp
  · split
    · simp
    · split
      · exact kwTail_nohang _ _ _ _ _
      · simp

theorem wordSlowImpl_nohang (init body : List Char) (mn : Nat) (mx : Option Nat) (ms kw : Bool) (s : List Char)
    (loc : Nat) : wordSlowImpl init body mn mx ms kw s loc ≠ .hang := by
  unfold wordSlowImpl
  grind

theorem wordReImpl_nohang (init body : List Char) (mn : Nat) (mx : Option Nat) (kw : Bool) (s : List Char)
    (loc : Nat) : wordReImpl init body mn mx kw s loc ≠ .hang := by
  unfold wordReImpl
  grind

theorem charsNotInImpl_nohang (notc : List Char) (mn : Nat) (mx : Option Nat) (s : List Char) (loc : Nat) :
    charsNotInImpl notc mn mx s loc ≠ .hang := by
  unfold charsNotInImpl
  grind

theorem stringEndImpl_nohang (s : List Char) (loc : Nat) : stringEndImpl s loc ≠ .hang := by
  unfold stringEndImpl
  grind

theorem lineEndImpl_nohang (s : List Char) (loc : Nat) : lineEndImpl s loc ≠ .hang := by
  unfold lineEndImpl
  grind

theorem wordStartImpl_nohang (cs s : List Char) (loc : Nat) : wordStartImpl cs s loc ≠ .hang := by
  unfold wordStartImpl
  grind

theorem wordEndImpl_nohang (cs s : List Char) (loc : Nat) : wordEndImpl cs s loc ≠ .hang := by
  unfold wordEndImpl
  grind

/-! ### `parseImpl`, `_parseNoCache` -/

/-- what one node needs from the recursive call: no nested call hangs, its ignorables consume something when they match,
    and — for a repetition — so does its body -/
structure NodeOk (p : P) (nd : Node) (slen : Nat) : Prop where
  nh : ∀ c ∈ nd.children, NH p c
  ign : ∀ e ∈ nd.ignore, IgnAdv p e
  many : ∀ x ne one, nd.kind = .many x ne one → ManyAdv p nd slen x

theorem NodeOk.hig {p : P} {nd : Node} {slen : Nat} (h : NodeOk p nd slen) : ∀ e ∈ nd.ignore, NH p e ∧ IgnAdv p e :=
  fun e he => ⟨h.nh e (by simp [Node.children, he]), h.ign e he⟩

theorem parseImpl_nohang {p : P} (g : Grammar) (nd : Node) (s : List Char) (hadv : Adv p) (hb : BndAll s.length p)
    (hn : NodeOk p nd s.length) (loc : Nat) (acts : Bool) : parseImpl g p nd s loc acts ≠ .hang := by
  have hk : ∀ c ∈ nd.kind.children, NH p c := fun c hc => hn.nh c (by simp [Node.children, hc])
  have hig := hn.hig
  unfold parseImpl
  cases hkd : nd.kind <;> simp only [hkd] at hk ⊢
  case lit m => exact litImpl_nohang _ _ _
  case lit1 c => exact lit1Impl_nohang _ _ _
  case empty => simp
  case errorStop => simp
  case noMatch => simp
  case caselessLit mU ret => exact caselessLitImpl_nohang _ _ _ _
  case keyword m i c => exact keywordImpl_nohang _ _ _ _ _
  case word i b mn mx ms kw re =>
    split
    · exact wordReImpl_nohang _ _ _ _ _ _ _
    · exact wordSlowImpl_nohang _ _ _ _ _ _ _ _
  case charsNotIn n mn mx => exact charsNotInImpl_nohang _ _ _ _ _
  case stringStart =>
    split
    · simp
    · have := preParse_nohang nd s hb hig 0
      cases hpre : preParse p nd s 0 with
      | «at» l => simp only; split <;> simp
      | abort o => simp only; intro ho; subst ho; exact this hpre
  case stringEnd => exact stringEndImpl_nohang _ _
  case lineStart w nl => split <;> simp
  case lineEnd => exact lineEndImpl_nohang _ _
  case wordStart cs => exact wordStartImpl_nohang _ _ _
  case wordEnd cs => exact wordEndImpl_nohang _ _ _
  case and es => exact andImpl_nohang _ _ _ _ (by simpa [Kind.children] using hk) _
  case matchFirst es => exact mfGo_nohang _ _ _ _ (by simpa [Kind.children] using hk) _
  case or es => exact orImpl_nohang _ _ _ _ _ hb hig (by simpa [Kind.children] using hk) _
  case opt x d =>
    have hx : NH p x := hk x (by simp [Kind.children])
    cases h0 : p x loc acts false with
    | ok l ts' => simp
    | fail c l => cases c <;> simp
    | idx => simp
    | hang => exact absurd h0 (hx _ _ _)
  case many x ne one =>
    have hx : NH p x := hk x (by simp [Kind.children])
    have hne : ∀ n, ne = some n → NH p n := by
      intro n h; subst h; exact hk n (by simp [Kind.children])
    have hm := manyImpl_nohang nd acts s.length x ne hb hig hx hne (hn.many x ne one hkd) loc
    split
    · exact hm
    · cases h1 : manyImpl p nd acts s.length x ne loc with
      | ok l ts' => simp
      | fail c l => cases c <;> simp
      | idx => simp
      | hang => exact absurd h1 hm
  case notAny x =>
    have hx : NH p x := hk x (by simp [Kind.children])
    have := canParseNext_nohang hx loc acts
    cases hc : canParseNext p x loc acts with
    | none => exact absurd hc this
    | some b => cases b <;> simp
  case followedBy x =>
    have hx : NH p x := hk x (by simp [Kind.children])
    cases h0 : p x loc acts true with
    | ok l ts' => simp
    | fail c l => simp
    | idx => simp
    | hang => exact absurd h0 (hx _ _ _)
  case located x =>
    have hx : NH p x := hk x (by simp [Kind.children])
    cases h0 : p x loc acts false with
    | ok l ts' => simp
    | fail c l => simp
    | idx => simp
    | hang => exact absurd h0 (hx _ _ _)
  case group x => exact enhanceImpl_nohang _ _ (by intro e h; simp at h; subst h; exact hk _ (by simp [Kind.children])) _
  case suppress x => exact enhanceImpl_nohang _ _ (by intro e h; simp at h; subst h; exact hk _ (by simp [Kind.children])) _
  case combine x j => exact enhanceImpl_nohang _ _ (by intro e h; simp at h; subst h; exact hk _ (by simp [Kind.children])) _
  case enhance x => exact enhanceImpl_nohang _ _ (by intro e h; simp at h; subst h; exact hk _ (by simp [Kind.children])) _
  case forward x => exact enhanceImpl_nohang _ _ (by intro e h; subst h; exact hk _ (by simp [Kind.children])) _
  case skipTo x incl fo ig =>
    refine skipToImpl_nohang _ _ _ _ _ _ hadv hb (hk x (by simp [Kind.children])) ?_ ?_ _
    · intro n h; subst h; exact hk n (by simp [Kind.children])
    · intro n h; subst h; exact hk n (by simp [Kind.children])

/-- one level of `_parseNoCache` does not hang on a node of the table whose nested calls do not -/
theorem parseStep_nohang {p : P} (g : Grammar) (s : List Char) (hadv : Adv p) (hb : BndAll s.length p)
    {id : Nat} {nd : Node} (hg : g[id]? = some nd) (hn : NodeOk p nd s.length) (loc : Nat) (a c : Bool) :
    parseStep g s p id loc a c ≠ .hang := by
  unfold parseStep
  rw [hg]
  simp only
  have h1 : (if (c && nd.callPre) = true then preParse p nd s loc else PreR.at loc) ≠ .abort .hang := by
    split
    · exact preParse_nohang nd s hb hn.hig loc
    · simp
  generalize (if (c && nd.callPre) = true then preParse p nd s loc else PreR.at loc) = pr at h1
  cases pr with
  | abort o => simp only; intro ho; subst ho; exact h1 rfl
  | «at» pre =>
    simp only
    have hi := parseImpl_nohang g nd s hadv hb hn pre a
    cases h : parseImpl g p nd s pre a with
    | ok e ts =>
      simp only
      split
      · exact runActs_nohang _ _ _ _
      · simp
    | fail c' l => simp
    | idx =>
      by_cases hc : (nd.mayIdx || decide (pre ≥ s.length)) = true <;> simp [hc]
    | hang => exact absurd h hi

/-! ### scan_string -/

/-- pre-parsing never aborts with a plain ParseException (`_skipIgnorables` swallows it, core.py:787-789) -/
theorem ignoreOne_abort_np (p : P) (e : Nat) :
    ∀ k loc found o f, ignoreOne p e k loc found = (.abort o, f) → ∀ l, o ≠ .fail .parse l := by
  intro k
  induction k with
  | zero => intro loc found o f h l; simp [ignoreOne] at h; rw [← h.1]; simp
  | succ k ih =>
    intro loc found o f h l
    unfold ignoreOne at h
    cases hp : p e loc true true with
    | ok l' ts =>
      rw [hp] at h
      simp only at h
      split at h
      · simp at h; rw [← h.1]; simp
      · exact ih _ _ _ _ h l
    | fail c l' =>
      rw [hp] at h
      cases c <;> simp at h <;> (rw [← h.1]; simp)
    | idx => rw [hp] at h; simp at h; rw [← h.1]; simp
    | hang => rw [hp] at h; simp at h; rw [← h.1]; simp

theorem ignorePass_abort_np (p : P) (slen : Nat) :
    ∀ es loc found o f, ignorePass p slen es loc found = (.abort o, f) → ∀ l, o ≠ .fail .parse l := by
  intro es
  induction es with
  | nil => intro loc found o f h; simp [ignorePass] at h
  | cons e es ih =>
    intro loc found o f h
    unfold ignorePass at h
    cases h1 : ignoreOne p e (slen + 2) loc found with
    | mk r f1 =>
      rw [h1] at h
      cases r with
      | «at» l1 => exact ih _ _ _ _ h
      | abort o1 => simp at h; rw [← h.1]; exact ignoreOne_abort_np p e _ _ _ _ _ h1

theorem skipIgnorables_abort_np (p : P) (slen : Nat) (ign : List Nat) :
    ∀ k loc o, skipIgnorables p slen ign k loc = .abort o → ∀ l, o ≠ .fail .parse l := by
  intro k
  induction k with
  | zero => intro loc o h l; simp [skipIgnorables] at h; rw [← h]; simp
  | succ k ih =>
    intro loc o h
    unfold skipIgnorables at h
    cases h1 : ignorePass p slen ign loc false with
    | mk r f1 =>
      rw [h1] at h
      cases r with
      | «at» l1 =>
        simp only at h
        split at h
        · simp at h
        · exact ih _ _ h
      | abort o1 => simp at h; rw [← h]; exact ignorePass_abort_np p slen _ _ _ _ _ h1

theorem preParse_abort_np (p : P) (nd : Node) (s : List Char) (loc : Nat) (o : Out) (h : preParse p nd s loc = .abort o) :
    ∀ l, o ≠ .fail .parse l := by
  unfold preParse at h
  split at h
  · simp at h
  · by_cases hi : nd.ignore.isEmpty = true
    · simp [hi] at h
    · simp only [hi] at h
      cases h1 : skipIgnorables p s.length nd.ignore (s.length + 2) loc with
      | «at» l1 => rw [h1] at h; simp at h
      | abort o1 => rw [h1] at h; simp at h; rw [← h]; exact skipIgnorables_abort_np p _ _ _ _ _ h1

theorem scanPre_nohang {p : P} (nd : Node) (sk : Bool) (s : List Char) (hb : BndAll s.length p)
    (hig : ∀ e ∈ nd.ignore, NH p e ∧ IgnAdv p e) (loc : Nat) : scanPre p nd sk s loc ≠ .abort .hang := by
  unfold scanPre
  split
  · exact preParse_nohang { nd with kind := .empty, skipWs := true } s hb hig loc
  · exact preParse_nohang nd s hb hig loc

theorem scanPre_abort_np (p : P) (nd : Node) (sk : Bool) (s : List Char) (loc : Nat) (o : Out)
    (h : scanPre p nd sk s loc = .abort o) : ∀ l, o ≠ .fail .parse l := by
  unfold scanPre at h
  split at h <;> exact preParse_abort_np _ _ _ _ _ h

theorem scanPre_ge' (p : P) (nd : Node) (sk : Bool) (s : List Char) (loc l : Nat)
    (h : scanPre p nd sk s loc = .at l) : loc ≤ l := by
  unfold scanPre at h
  split at h <;> exact preParse_ge _ _ _ _ _ h

/-- the scan_string driver loop: its budget `2·len + 4` is never exhausted (the location strictly increases and the
    loop leaves once it is past the end), and nothing inside it hangs -/
theorem scanLoop_nohang {p : P} (nd : Node) (root : Nat) (s : List Char) (sk ov : Bool) (hb : BndAll s.length p)
    (hig : ∀ e ∈ nd.ignore, NH p e ∧ IgnAdv p e) (hroot : NH p root) :
    ∀ k loc left acc, 1 ≤ k → s.length + 2 ≤ k + loc → (scanLoop p nd root s sk ov k loc left acc).exc ≠ some .hang := by
  intro k
  induction k with
  | zero => intro loc left acc h1; omega
  | succ k ih =>
    intro loc left acc _ h2
    unfold scanLoop
    split
    · simp
    · rename_i hcond
      have hloc : loc ≤ s.length := by
        simp at hcond; omega
      cases hpre : scanPre p nd sk s loc with
      | abort o =>
        cases o with
        | ok e ts => simp
        | fail c l =>
          cases c
          · exact absurd rfl (scanPre_abort_np p nd sk s loc _ hpre l)
          · simp
          · simp
        | idx => simp
        | hang => exact absurd hpre (scanPre_nohang nd sk s hb hig loc)
      | «at» preloc =>
        have hge := scanPre_ge' p nd sk s loc preloc hpre
        simp only
        cases h0 : p root preloc true false with
        | ok nextLoc ts =>
          simp only
          split
          · split
            · exact ih _ _ _ (by omega) (by split <;> omega)
            · exact ih _ _ _ (by omega) (by omega)
          · exact ih _ _ _ (by omega) (by omega)
        | fail c l =>
          cases c
          · exact ih _ _ _ (by omega) (by omega)
          · simp
          · simp
        | idx => simp
        | hang => exact absurd h0 (hroot _ _ _)

/-- parse_string (incl. parse_all) on a root that does not hang and whose ignorables do not either -/
theorem parseString_nohang {p : P} (g : Grammar) (root : Nat) (dw s : List Char) (pa : Bool) {nd : Node}
    (hg : g[root]? = some nd) (hb : BndAll s.length p) (hig : ∀ e ∈ nd.ignore, NH p e ∧ IgnAdv p e) (hroot : NH p root) :
    parseString p g root dw s pa ≠ .hang := by
  unfold parseString
  cases hp : p root 0 true true with
  | ok l ts =>
    simp only
    split
    · rw [hg]
      simp only
      have hpre := preParse_nohang nd s hb hig l
      cases hq : preParse p nd s l with
      | abort o => simp only; intro ho; subst ho; exact hpre hq
      | «at» l1 =>
        simp only
        have : stringEndCheck dw s l1 ≠ .hang := stringEndImpl_nohang _ _
        cases hs : stringEndCheck dw s l1 with
        | ok e ts' => simp
        | fail c l' => simp
        | idx => simp
        | hang => exact absurd hs this
    · simp
  | fail c l => simp
  | idx => simp
  | hang => exact absurd hp (hroot _ _ _)

/-- scan_string on such a root -/
theorem scanString_nohang {p : P} (g : Grammar) (root : Nat) (s : List Char) (mm : Nat) (sk ov : Bool) {nd : Node}
    (hg : g[root]? = some nd) (hb : BndAll s.length p) (hig : ∀ e ∈ nd.ignore, NH p e ∧ IgnAdv p e) (hroot : NH p root) :
    (scanString p g root s mm sk ov).exc ≠ some .hang := by
  unfold scanString
  rw [hg]
  simp only
  exact scanLoop_nohang nd root s sk ov hb hig hroot _ _ _ _ (by omega) (by omega)

end PP.Parse
