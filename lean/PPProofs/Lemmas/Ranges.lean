import PPModel.Mod.Ranges
/-! Lemmas about `_collapse_string_to_ranges`, `_escape_regex_range_chars` and `srange` models. -/
namespace PP.Ranges
open PP.ReLite

/-! ## 1. `sortU` -/

theorem mem_insertU (c x : Char) (l : List Char) : x ∈ insertU c l ↔ x = c ∨ x ∈ l := by
  induction l with
  | nil => simp [insertU]
  | cons d ds ih =>
    simp only [insertU]
    split
    · simp
    · split
      · rename_i h; have : c = d := by simpa using h
        subst this; simp
      · simp [ih]; grind

theorem mem_sortU (s : List Char) (c : Char) : c ∈ sortU s ↔ c ∈ s := by
  induction s with
  | nil => simp [sortU]
  | cons d ds ih =>
    have : sortU (d :: ds) = insertU d (sortU ds) := rfl
    rw [this, mem_insertU, ih]; simp

theorem insertU_sorted (c : Char) (l : List Char)
    (h : l.Pairwise (fun a b => a.toNat < b.toNat)) :
    (insertU c l).Pairwise (fun a b => a.toNat < b.toNat) := by
  induction l with
  | nil => simp [insertU]
  | cons d ds ih =>
    simp only [insertU]
    rw [List.pairwise_cons] at h
    split
    · rename_i hlt
      rw [List.pairwise_cons]
      refine ⟨?_, List.pairwise_cons.2 h⟩
      intro x hx
      rcases List.mem_cons.1 hx with rfl | hx
      · exact hlt
      · have := h.1 x hx; omega
    · split
      · exact List.pairwise_cons.2 h
      · rename_i hnlt hne
        have hne' : c ≠ d := by simpa using hne
        have hne'' : c.toNat ≠ d.toNat := fun e => hne' (Char.toNat_inj.1 e)
        rw [List.pairwise_cons]
        refine ⟨?_, ih h.2⟩
        intro x hx
        rcases (mem_insertU c x ds).1 hx with rfl | hx
        · omega
        · exact h.1 x hx

theorem sortU_sorted (s : List Char) : (sortU s).Pairwise (fun a b => a.toNat < b.toNat) := by
  induction s with
  | nil => simp [sortU]
  | cons d ds ih => exact insertU_sorted d _ ih

/-! ## 2. `ranges_denote` -/

/-- interval membership of a group -/
def inGrp (c : Char) (g : Char × Char) : Prop := g.1.toNat ≤ c.toNat ∧ c.toNat ≤ g.2.toNat

theorem groupGo_cover (c : Char) : ∀ (ds : List Char) (first last : Char),
    (last :: ds).Pairwise (fun a b => a.toNat < b.toNat) → first.toNat ≤ last.toNat →
    ((∃ g ∈ groupGo first last ds, inGrp c g) ↔
      (first.toNat ≤ c.toNat ∧ c.toNat ≤ last.toNat) ∨ c ∈ ds) := by
  intro ds
  induction ds with
  | nil => intro first last _ _; simp [groupGo, inGrp]
  | cons d ds ih =>
    intro first last hs hfl
    rw [List.pairwise_cons] at hs
    have hld : last.toNat < d.toNat := hs.1 d (by simp)
    simp only [groupGo]
    split
    · have h1 := ih d d hs.2 (Nat.le_refl _)
      have hcd : (d.toNat ≤ c.toNat ∧ c.toNat ≤ d.toNat) ↔ c = d := by
        rw [← Char.toNat_inj]; omega
      rw [hcd] at h1
      have h0 : (∃ g, g ∈ (first, last) :: groupGo d d ds ∧ inGrp c g) ↔
          inGrp c (first, last) ∨ ∃ g, g ∈ groupGo d d ds ∧ inGrp c g := by
        simp only [List.mem_cons]
        constructor
        · rintro ⟨g, rfl | hg, h⟩
          · exact Or.inl h
          · exact Or.inr ⟨g, hg, h⟩
        · rintro (h | ⟨g, hg, h⟩)
          · exact ⟨_, Or.inl rfl, h⟩
          · exact ⟨g, Or.inr hg, h⟩
      rw [h0, h1]
      simp [inGrp]
    · rename_i hgap
      have hs' : (d :: ds).Pairwise (fun a b => a.toNat < b.toNat) := hs.2
      rw [ih first d hs' (by omega)]
      have hcd : c = d ↔ c.toNat = d.toNat := Char.toNat_inj.symm
      have h2 : (first.toNat ≤ c.toNat ∧ c.toNat ≤ d.toNat) ↔
          ((first.toNat ≤ c.toNat ∧ c.toNat ≤ last.toNat) ∨ c.toNat = d.toNat) := by omega
      rw [h2, List.mem_cons, hcd, or_assoc]

theorem groupRuns_cover (c : Char) (l : List Char)
    (hs : l.Pairwise (fun a b => a.toNat < b.toNat)) :
    (∃ g ∈ groupRuns l, inGrp c g) ↔ c ∈ l := by
  cases l with
  | nil => simp [groupRuns]
  | cons a as =>
    simp only [groupRuns]
    rw [groupGo_cover c as a a hs (Nat.le_refl _)]
    have : (a.toNat ≤ c.toNat ∧ c.toNat ≤ a.toNat) ↔ c = a := by
      rw [← Char.toNat_inj]; omega
    simp [this]

theorem clsMem_groupItems (g : Char × Char) (c : Char) :
    clsMem (groupItems g) c = true ↔ inGrp c g := by
  obtain ⟨f, l⟩ := g
  simp only [groupItems, inGrp]
  split
  · rename_i h
    have : f = l := by simpa using h
    subst this
    simp only [clsMem, List.any_cons, List.any_nil, CItem.mem, Bool.or_false, beq_iff_eq]
    rw [← Char.toNat_inj]; omega
  · rename_i hne
    have hne' : f.toNat ≠ l.toNat := fun e => hne (by simpa using Char.toNat_inj.1 e)
    split
    · rename_i h
      have h' : l.toNat = f.toNat + 1 := by simpa using h
      simp only [clsMem, List.any_cons, List.any_nil, CItem.mem, Bool.or_false, Bool.or_eq_true,
        beq_iff_eq]
      rw [← Char.toNat_inj, ← Char.toNat_inj]; omega
    · simp [clsMem, CItem.mem]

theorem clsMem_flatMap {α} (l : List α) (f : α → List CItem) (c : Char) :
    clsMem (l.flatMap f) c = true ↔ ∃ a ∈ l, clsMem (f a) c = true := by
  simp [clsMem, List.any_flatMap]

theorem clsMem_map_one (l : List Char) (c : Char) :
    clsMem (l.map .one) c = true ↔ c ∈ l := by
  induction l with
  | nil => simp [clsMem]
  | cons d ds ih =>
    simp only [clsMem, List.map_cons, List.any_cons, Bool.or_eq_true, CItem.mem, beq_iff_eq,
      List.mem_cons] at ih ⊢
    rw [ih]

theorem ranges_denote (cs : List Char) (c : Char) :
    clsMem (collapseItems cs) c = true ↔ c ∈ cs := by
  simp only [collapseItems]
  split
  · rw [clsMem_flatMap]
    simp only [clsMem_groupItems]
    rw [groupRuns_cover c _ (sortU_sorted cs), mem_sortU]
  · rw [clsMem_map_one, mem_sortU]

/-! ## 3. `_escape_regex_range_chars` -/

theorem replChar_flatMap (c : Char) (r : List Char) (s : List Char) (f : Char → List Char) :
    replChar c r (s.flatMap f) = s.flatMap (fun d => replChar c r (f d)) := by
  simp [replChar, List.flatMap_assoc]

theorem replChar_eq_flatMap (c : Char) (r : List Char) (s : List Char) :
    replChar c r s = s.flatMap (fun d => replChar c r [d]) := by
  simp [replChar]

theorem esc_pointwise (c : Char) :
    replChar '\t' ['\\', 't'] (replChar '\n' ['\\', 'n'] (replChar ']' ['\\', ']']
      (replChar '[' ['\\', '['] (replChar '-' ['\\', '-'] (replChar '^' ['\\', '^']
        (replChar '\\' ['\\', '\\'] [c])))))) = renderItem (escItem c) := by
  by_cases h1 : c = '\\'
  · subst h1; decide
  by_cases h2 : c = '^'
  · subst h2; decide
  by_cases h3 : c = '-'
  · subst h3; decide
  by_cases h4 : c = '['
  · subst h4; decide
  by_cases h5 : c = ']'
  · subst h5; decide
  by_cases h6 : c = '\n'
  · subst h6; decide
  by_cases h7 : c = '\t'
  · subst h7; decide
  simp [replChar, escItem, renderItem, clsEscChar, clsSpecial, h1, h2, h3, h4, h5, h6, h7]

theorem escapeRangeChars_charwise (s : List Char) :
    escapeRangeChars s = s.flatMap (fun c => renderItem (escItem c)) := by
  simp only [escapeRangeChars]
  rw [replChar_eq_flatMap '\\']
  simp only [replChar_flatMap, esc_pointwise]

theorem escItems_denote (syms : List Char) (c : Char) :
    clsMem (syms.map escItem) c = true ↔ c ∈ syms := by
  induction syms with
  | nil => simp [clsMem]
  | cons d ds ih =>
    simp only [clsMem, List.map_cons, List.any_cons, Bool.or_eq_true, List.mem_cons] at ih ⊢
    rw [ih]
    have : CItem.mem c (escItem d) = true ↔ c = d := by
      simp only [escItem]
      split
      · rename_i h; have : d = '\n' := by simpa using h
        subst this; simp [CItem.mem]
      · split
        · rename_i h; have : d = '\t' := by simpa using h
          subst this; simp [CItem.mem]
        · simp [CItem.mem]
    rw [this]

/-! ## 4. text level: the class text parses back to the items -/

theorem clsChar_esc (c : Char) (t : List Char) :
    clsChar (clsEscChar c ++ t) = some (.one c, c, t) := by
  simp only [clsEscChar]
  split
  · rename_i h
    simp only [clsSpecial, List.mem_cons, List.not_mem_nil, or_false] at h
    rcases h with rfl | rfl | rfl | rfl | rfl <;> simp [clsChar] <;> decide
  · rename_i h
    simp only [clsSpecial, List.mem_cons, List.not_mem_nil, or_false, not_or] at h
    obtain ⟨h1, h2, h3, h4, h5⟩ := h
    show clsChar (c :: t) = _
    unfold clsChar
    split
    · simp_all
    · simp_all
    · simp_all
    · simp_all

theorem parse_step_single (f : Nat) (txt t : List Char) (it : CItem) (x : Char)
    (hc : clsChar txt = some (it, x, t)) (h1 : txt.head? ≠ some ']') (ht : t.head? ≠ some '-')
    (items : List CItem) (r : List Char) (hp : parseClsItems f t = some (items, r)) :
    parseClsItems (f+1) txt = some (it :: items, r) := by
  unfold parseClsItems
  split
  · rename_i h; cases h
  · rename_i h; simp at h1
  · injection ‹f + 1 = _› with hf; subst hf
    rw [hc]
    simp only
    split
    · simp at ht
    · rw [hp]

theorem parse_step_range (f : Nat) (txt t2 t : List Char) (it it2 : CItem) (lo hi : Char)
    (hc : clsChar txt = some (it, lo, '-' :: t2)) (h1 : txt.head? ≠ some ']')
    (h2 : t2.head? ≠ some ']') (hc2 : clsChar t2 = some (it2, hi, t))
    (hle : lo.toNat ≤ hi.toNat)
    (items : List CItem) (r : List Char) (hp : parseClsItems f t = some (items, r)) :
    parseClsItems (f+1) txt = some (.range lo hi :: items, r) := by
  unfold parseClsItems
  split
  · rename_i h; cases h
  · rename_i h; simp at h1
  · injection ‹f + 1 = _› with hf; subst hf
    rw [hc]
    simp only
    split
    · simp at h2
    · rw [hc2]
      simp only
      rw [if_neg (by omega), hp]

/-- well-formed class items: ranges are non-empty -/
def WF : CItem → Prop
  | .range lo hi => lo.toNat ≤ hi.toNat
  | _ => True

/-- the text does not start with a raw `-`, `]`, `^` -/
def goodHead (t : List Char) : Prop :=
  t.head? ≠ some '-' ∧ t.head? ≠ some ']' ∧ t.head? ≠ some '^'

theorem esc_head (c : Char) (t : List Char) : goodHead (clsEscChar c ++ t) := by
  simp only [clsEscChar, goodHead]
  split
  · simp
  · rename_i h
    simp only [clsSpecial, List.mem_cons, List.not_mem_nil, or_false, not_or] at h
    obtain ⟨h1, h2, h3, h4, h5⟩ := h
    simp [h2, h3, h4]

theorem render_head (it : CItem) (t : List Char) : goodHead (renderItem it ++ t) := by
  cases it with
  | one c => exact esc_head c t
  | nl => simp [renderItem, goodHead]
  | tab => simp [renderItem, goodHead]
  | range lo hi =>
    simp only [renderItem, List.append_assoc]
    exact esc_head lo _

theorem items_head (its : List CItem) (rest : List Char) :
    (its.flatMap renderItem ++ ']' :: rest).head? ≠ some '-' := by
  cases its with
  | nil => simp
  | cons it its =>
    simp only [List.flatMap_cons, List.append_assoc]
    exact (render_head it _).1

theorem parseClsItems_render (its : List CItem) (rest : List Char) (hwf : ∀ it ∈ its, WF it) :
    ∀ f, its.length + 1 ≤ f →
      parseClsItems f (its.flatMap renderItem ++ ']' :: rest) = some (its, rest) := by
  induction its with
  | nil =>
    intro f hf
    obtain ⟨f', rfl⟩ : ∃ f', f = f' + 1 := ⟨f - 1, by omega⟩
    simp [parseClsItems]
  | cons it its ih =>
    intro f hf
    obtain ⟨f', rfl⟩ : ∃ f', f = f' + 1 := ⟨f - 1, by omega⟩
    have hp := ih (fun x hx => hwf x (List.mem_cons_of_mem _ hx)) f'
      (by simp only [List.length_cons] at hf; omega)
    have hh := items_head its rest
    have hr := render_head it (its.flatMap renderItem ++ ']' :: rest)
    simp only [List.flatMap_cons, List.append_assoc]
    cases it with
    | one c =>
      exact parse_step_single f' _ _ (.one c) c (clsChar_esc c _) hr.2.1 hh _ _ hp
    | nl =>
      exact parse_step_single f' _ _ .nl '\n' (by simp [renderItem, clsChar]) hr.2.1 hh _ _ hp
    | tab =>
      exact parse_step_single f' _ _ .tab '\t' (by simp [renderItem, clsChar]) hr.2.1 hh _ _ hp
    | range lo hi =>
      have hle : lo.toNat ≤ hi.toNat := hwf (.range lo hi) (by simp)
      simp only [renderItem, List.append_assoc] at hr ⊢
      exact parse_step_range f' _ _ _ (.one lo) (.one hi) lo hi
        (clsChar_esc lo _) hr.2.1 (esc_head hi _).2.1 (clsChar_esc hi _) hle _ _ hp

theorem parseCls_render (its : List CItem) (rest : List Char) (hne : its ≠ [])
    (hwf : ∀ it ∈ its, WF it) :
    parseCls (its.flatMap renderItem ++ ']' :: rest) = some (its, rest) := by
  have hp := parseClsItems_render its rest hwf
    ((its.flatMap renderItem ++ ']' :: rest).length + 1) (by
      have : its.length ≤ (its.flatMap renderItem).length := by
        clear hne hwf
        induction its with
        | nil => simp
        | cons it its ih =>
          have : 1 ≤ (renderItem it).length := by
            cases it <;> simp [renderItem, clsEscChar] <;> (try split) <;> simp <;> omega
          simp only [List.flatMap_cons, List.length_append, List.length_cons]; omega
      simp only [List.length_append, List.length_cons]; omega)
  cases its with
  | nil => exact absurd rfl hne
  | cons it its =>
    have hr := render_head it (its.flatMap renderItem ++ ']' :: rest)
    simp only [List.flatMap_cons, List.append_assoc] at hp ⊢
    unfold parseCls
    split
    · rename_i h; rw [h] at hr; simp [goodHead] at hr
    · rename_i h; rw [h] at hr; simp [goodHead] at hr
    · exact hp

theorem groupGo_le : ∀ (ds : List Char) (first last : Char),
    (last :: ds).Pairwise (fun a b => a.toNat < b.toNat) → first.toNat ≤ last.toNat →
    ∀ g ∈ groupGo first last ds, g.1.toNat ≤ g.2.toNat := by
  intro ds
  induction ds with
  | nil => intro first last _ h g hg; simp [groupGo] at hg; subst hg; exact h
  | cons d ds ih =>
    intro first last hs hfl g hg
    rw [List.pairwise_cons] at hs
    have hld : last.toNat < d.toNat := hs.1 d (by simp)
    simp only [groupGo] at hg
    split at hg
    · rcases List.mem_cons.1 hg with rfl | hg
      · exact hfl
      · exact ih d d hs.2 (Nat.le_refl _) g hg
    · exact ih first d hs.2 (by omega) g hg

theorem groupRuns_le (l : List Char) (hs : l.Pairwise (fun a b => a.toNat < b.toNat)) :
    ∀ g ∈ groupRuns l, g.1.toNat ≤ g.2.toNat := by
  cases l with
  | nil => simp [groupRuns]
  | cons a as => exact groupGo_le as a a hs (Nat.le_refl _)

theorem groupGo_ne_nil : ∀ (ds : List Char) (first last : Char), groupGo first last ds ≠ [] := by
  intro ds
  induction ds with
  | nil => simp [groupGo]
  | cons d ds ih =>
    intro first last
    simp only [groupGo]
    split
    · simp
    · exact ih first d

theorem groupItems_ne_nil (g : Char × Char) : groupItems g ≠ [] := by
  simp only [groupItems]
  split
  · simp
  · split <;> simp

theorem collapseItems_wf (cs : List Char) : ∀ it ∈ collapseItems cs, WF it := by
  intro it hit
  simp only [collapseItems] at hit
  split at hit
  · rw [List.mem_flatMap] at hit
    obtain ⟨g, hg, hit⟩ := hit
    have hle := groupRuns_le _ (sortU_sorted cs) g hg
    simp only [groupItems] at hit
    split at hit
    · simp at hit; subst hit; trivial
    · split at hit
      · simp at hit; rcases hit with rfl | rfl <;> trivial
      · simp at hit; subst hit; exact hle
  · rw [List.mem_map] at hit
    obtain ⟨c, _, rfl⟩ := hit
    trivial

theorem sortU_ne_nil (cs : List Char) (hne : cs ≠ []) : sortU cs ≠ [] := by
  cases cs with
  | nil => exact absurd rfl hne
  | cons c cs =>
    intro h
    have := (mem_sortU (c :: cs) c).2 (by simp)
    rw [h] at this
    simp at this

theorem collapseItems_ne_nil (cs : List Char) (hne : cs ≠ []) : collapseItems cs ≠ [] := by
  have hs := sortU_ne_nil cs hne
  simp only [collapseItems]
  split
  · cases h : sortU cs with
    | nil => exact absurd h hs
    | cons a as =>
      simp only [groupRuns]
      have := groupGo_ne_nil as a a
      cases hg : groupGo a a as with
      | nil => exact absurd hg this
      | cons g gs =>
        simp only [List.flatMap_cons]
        have := groupItems_ne_nil g
        intro h'
        exact this (List.append_eq_nil_iff.1 h').1
  · simpa using hs

theorem parseCls_collapse (cs : List Char) (hne : cs ≠ []) (rest : List Char) :
    parseCls (collapse cs ++ ']' :: rest) = some (collapseItems cs, rest) :=
  parseCls_render (collapseItems cs) rest (collapseItems_ne_nil cs hne) (collapseItems_wf cs)

theorem parseCls_escItems (syms : List Char) (hne : syms ≠ []) (rest : List Char) :
    parseCls ((syms.map escItem).flatMap renderItem ++ ']' :: rest) =
      some (syms.map escItem, rest) := by
  apply parseCls_render
  · simpa using hne
  · intro it hit
    rw [List.mem_map] at hit
    obtain ⟨c, _, rfl⟩ := hit
    simp only [escItem]
    split
    · trivial
    · split <;> trivial

/-- the text of `_escape_regex_range_chars(syms)` is a class body denoting exactly `syms` -/
theorem parseCls_escapeRangeChars (syms : List Char) (hne : syms ≠ []) (rest : List Char) :
    parseCls (escapeRangeChars syms ++ ']' :: rest) = some (syms.map escItem, rest) := by
  rw [escapeRangeChars_charwise, ← List.flatMap_map]
  exact parseCls_escItems syms hne rest

/-- text-level denotation of `_collapse_string_to_ranges`: the class body text parses (as the body of
    `[...]`) to items denoting exactly the characters of `cs` -/
theorem collapse_text_denote (cs : List Char) (hne : cs ≠ []) (rest : List Char) :
    ∃ items, parseCls (collapse cs ++ ']' :: rest) = some (items, rest) ∧
      ∀ c, clsMem items c = true ↔ c ∈ cs :=
  ⟨collapseItems cs, parseCls_collapse cs hne rest, ranges_denote cs⟩

/-- text-level denotation of `_escape_regex_range_chars` -/
theorem escapeRangeChars_text_denote (syms : List Char) (hne : syms ≠ []) (rest : List Char) :
    ∃ items, parseCls (escapeRangeChars syms ++ ']' :: rest) = some (items, rest) ∧
      ∀ c, clsMem items c = true ↔ c ∈ syms :=
  ⟨syms.map escItem, parseCls_escapeRangeChars syms hne rest, escItems_denote syms⟩

/-! ## 5. `srange` inverts `_collapse_string_to_ranges` (whitespace-free sets) -/

theorem expandTabsGo_id : ∀ (s : List Char) (col : Nat), '\t' ∉ s →
    PP.LineCol.expandTabsGo s col = s := by
  intro s
  induction s with
  | nil => intro _ _; rfl
  | cons c cs ih =>
    intro col h
    simp only [List.mem_cons, not_or] at h
    have hc : (c == '\t') = false := by
      simp only [beq_eq_false_iff_ne]; exact fun e => h.1 e.symm
    simp [PP.LineCol.expandTabsGo, hc, ih _ h.2]

theorem expandTabs_id (s : List Char) (h : '\t' ∉ s) : PP.LineCol.expandTabs s = s :=
  expandTabsGo_id s 0 h

/-- the head of the text (if any) is not whitespace -/
def noWsHead (t : List Char) : Prop := ∀ a, t.head? = some a → isWs a = false

theorem skipWs_id (t : List Char) (h : noWsHead t) : skipWs t = t := by
  cases t with
  | nil => rfl
  | cons a u =>
    have := h a rfl
    simp [skipWs, this]

theorem singleChar_esc (c : Char) (t : List Char) (hc : isWs c = false) :
    singleChar (clsEscChar c ++ t) = .ok c t := by
  simp only [clsEscChar]
  split
  · rename_i h
    simp only [clsSpecial, List.mem_cons, List.not_mem_nil, or_false] at h
    rcases h with rfl | rfl | rfl | rfl | rfl <;>
      simp [singleChar, skipWs, isWs, escapedPunc]
  · rename_i h
    simp only [clsSpecial, List.mem_cons, List.not_mem_nil, or_false, not_or] at h
    obtain ⟨h1, h2, h3, h4, h5⟩ := h
    show singleChar (c :: t) = _
    unfold singleChar
    simp only [skipWs, hc]
    split
    · rename_i heq; simp at heq; exact absurd heq.1 h1
    · simp [h1, h4]

theorem bodyGo_step_single (f : Nat) (txt r1 acc : List Char) (a : Char)
    (hs : singleChar txt = .ok a r1) (hw : skipWs r1 = r1) (hd : r1.head? ≠ some '-') :
    bodyGo (f+1) txt acc = bodyGo f r1 (acc ++ [a]) := by
  simp only [bodyGo, hs, hw]
  split
  · simp at hd
  · rfl

theorem bodyGo_step_range (f : Nat) (txt r2 r3 acc : List Char) (a b : Char)
    (hs : singleChar txt = .ok a ('-' :: r2)) (hs2 : singleChar r2 = .ok b r3) :
    bodyGo (f+1) txt acc = bodyGo f r3 (acc ++ expandRange a b) := by
  have hw : skipWs ('-' :: r2) = '-' :: r2 := by simp [skipWs, isWs]
  simp only [bodyGo, hs, hw, hs2]

/-- items that `srange` reads back faithfully: no whitespace characters, no `\n`/`\t` escapes -/
def SOK : CItem → Prop
  | .one c => isWs c = false
  | .range lo hi => isWs lo = false ∧ isWs hi = false
  | _ => False

/-- what `srange` expands an item to -/
def expandItem : CItem → List Char
  | .one c => [c]
  | .nl => ['\n']
  | .tab => ['\t']
  | .range lo hi => expandRange lo hi

theorem esc_noWsHead (c : Char) (t : List Char) (hc : isWs c = false) :
    noWsHead (clsEscChar c ++ t) := by
  simp only [clsEscChar, noWsHead]
  split
  · intro a h; simp at h; subst h; decide
  · intro a h; simp at h; subst h; exact hc

theorem render_noWsHead (it : CItem) (t : List Char) (h : SOK it) :
    noWsHead (renderItem it ++ t) := by
  cases it with
  | one c => exact esc_noWsHead c t h
  | nl => exact absurd h id
  | tab => exact absurd h id
  | range lo hi =>
    simp only [renderItem, List.append_assoc]
    exact esc_noWsHead lo _ h.1

theorem items_noWsHead (its : List CItem) (rest : List Char) (h : ∀ it ∈ its, SOK it) :
    noWsHead (its.flatMap renderItem ++ ']' :: rest) := by
  cases its with
  | nil => intro a ha; simp at ha; subst ha; decide
  | cons it its =>
    simp only [List.flatMap_cons, List.append_assoc]
    exact render_noWsHead it _ (h it (by simp))

theorem bodyGo_render (its : List CItem) (hok : ∀ it ∈ its, SOK it) :
    ∀ f acc, its.length + 1 ≤ f →
      bodyGo f (its.flatMap renderItem ++ [']']) acc =
        some (acc ++ its.flatMap expandItem, [']']) := by
  induction its with
  | nil =>
    intro f acc hf
    obtain ⟨f', rfl⟩ : ∃ f', f = f' + 1 := ⟨f - 1, by omega⟩
    simp [bodyGo, singleChar, skipWs, isWs]
  | cons it its ih =>
    intro f acc hf
    obtain ⟨f', rfl⟩ : ∃ f', f = f' + 1 := ⟨f - 1, by omega⟩
    have hok' : ∀ x ∈ its, SOK x := fun x hx => hok x (List.mem_cons_of_mem _ hx)
    have hp := ih hok' f'
    have hf' : its.length + 1 ≤ f' := by simp only [List.length_cons] at hf; omega
    have hh := items_head its []
    have hw := skipWs_id _ (items_noWsHead its [] hok')
    have hit : SOK it := hok it (by simp)
    simp only [List.flatMap_cons, List.append_assoc]
    cases it with
    | one c =>
      simp only [renderItem]
      rw [bodyGo_step_single f' _ _ acc c (singleChar_esc c _ hit) hw hh, hp _ hf']
      simp [expandItem]
    | nl => exact absurd hit id
    | tab => exact absurd hit id
    | range lo hi =>
      simp only [renderItem, List.append_assoc, List.cons_append, List.nil_append]
      rw [bodyGo_step_range f' _ _ _ acc lo hi (singleChar_esc lo _ hit.1)
        (singleChar_esc hi _ hit.2), hp _ hf']
      simp [expandItem]

theorem expandRange_self (c : Char) : expandRange c c = [c] := by
  have : c.toNat + 1 - c.toNat = 1 := by omega
  simp [expandRange, this, List.range_succ]

theorem expandRange_succ (f l d : Char) (hfl : f.toNat ≤ l.toNat) (hd : d.toNat = l.toNat + 1) :
    expandRange f d = expandRange f l ++ [d] := by
  have h1 : d.toNat + 1 - f.toNat = (l.toNat + 1 - f.toNat) + 1 := by omega
  have h2 : f.toNat + (l.toNat + 1 - f.toNat) = d.toNat := by omega
  simp only [expandRange, h1, List.range_succ, List.map_append, List.map_cons, List.map_nil, h2,
    Char.ofNat_toNat]

theorem groupItems_expand (g : Char × Char) (hle : g.1.toNat ≤ g.2.toNat) :
    (groupItems g).flatMap expandItem = expandRange g.1 g.2 := by
  obtain ⟨f, l⟩ := g
  simp only [groupItems]
  split
  · rename_i h
    have : f = l := by simpa using h
    subst this
    simp [expandItem, expandRange_self]
  · split
    · rename_i h
      have h' : l.toNat = f.toNat + 1 := by simpa using h
      rw [expandRange_succ f f l (Nat.le_refl _) h', expandRange_self]
      simp [expandItem]
    · simp [expandItem]

theorem groupGo_expand : ∀ (ds : List Char) (first last : Char),
    (last :: ds).Pairwise (fun a b => a.toNat < b.toNat) → first.toNat ≤ last.toNat →
    (groupGo first last ds).flatMap (fun g => expandRange g.1 g.2) =
      expandRange first last ++ ds := by
  intro ds
  induction ds with
  | nil => intro first last _ _; simp [groupGo]
  | cons d ds ih =>
    intro first last hs hfl
    rw [List.pairwise_cons] at hs
    have hld : last.toNat < d.toNat := hs.1 d (by simp)
    simp only [groupGo]
    split
    · rw [List.flatMap_cons, ih d d hs.2 (Nat.le_refl _), expandRange_self]
      simp
    · rw [ih first d hs.2 (by omega), expandRange_succ first last d hfl (by omega)]
      simp

theorem flatMap_congr' {α β} (l : List α) (f g : α → List β) (h : ∀ a ∈ l, f a = g a) :
    l.flatMap f = l.flatMap g := by
  induction l with
  | nil => rfl
  | cons a as ih =>
    simp only [List.flatMap_cons]
    rw [h a (by simp), ih (fun x hx => h x (List.mem_cons_of_mem _ hx))]

theorem groupRuns_expand (l : List Char) (hs : l.Pairwise (fun a b => a.toNat < b.toNat)) :
    (groupRuns l).flatMap (fun g => (groupItems g).flatMap expandItem) = l := by
  have h1 : (groupRuns l).flatMap (fun g => (groupItems g).flatMap expandItem) =
      (groupRuns l).flatMap (fun g => expandRange g.1 g.2) := by
    apply flatMap_congr'
    intro g hg
    exact groupItems_expand g (groupRuns_le l hs g hg)
  rw [h1]
  cases l with
  | nil => simp [groupRuns]
  | cons a as =>
    simp only [groupRuns]
    rw [groupGo_expand as a a hs (Nat.le_refl _), expandRange_self]
    simp

theorem collapseItems_expand (cs : List Char) :
    (collapseItems cs).flatMap expandItem = sortU cs := by
  simp only [collapseItems]
  split
  · rw [List.flatMap_assoc]
    exact groupRuns_expand _ (sortU_sorted cs)
  · simp [List.flatMap_map, expandItem]

theorem groupGo_mem : ∀ (ds : List Char) (first last : Char),
    ∀ g ∈ groupGo first last ds, (g.1 = first ∨ g.1 ∈ ds) ∧ (g.2 = last ∨ g.2 ∈ ds) := by
  intro ds
  induction ds with
  | nil => intro first last g hg; simp [groupGo] at hg; subst hg; simp
  | cons d ds ih =>
    intro first last g hg
    simp only [groupGo] at hg
    split at hg
    · rcases List.mem_cons.1 hg with rfl | hg
      · simp
      · have := ih d d g hg
        simp only [List.mem_cons]
        grind
    · have := ih first d g hg
      simp only [List.mem_cons]
      grind

theorem groupRuns_mem (l : List Char) : ∀ g ∈ groupRuns l, g.1 ∈ l ∧ g.2 ∈ l := by
  cases l with
  | nil => simp [groupRuns]
  | cons a as =>
    intro g hg
    have := groupGo_mem as a a g hg
    simpa using this

theorem collapseItems_sok (cs : List Char) (hws : ∀ c ∈ cs, isWs c = false) :
    ∀ it ∈ collapseItems cs, SOK it := by
  have hws' : ∀ c ∈ sortU cs, isWs c = false := fun c hc => hws c ((mem_sortU cs c).1 hc)
  intro it hit
  simp only [collapseItems] at hit
  split at hit
  · rw [List.mem_flatMap] at hit
    obtain ⟨g, hg, hit⟩ := hit
    have hm := groupRuns_mem _ g hg
    simp only [groupItems] at hit
    split at hit
    · simp at hit; subst hit; exact hws' _ hm.1
    · split at hit
      · simp at hit; rcases hit with rfl | rfl
        · exact hws' _ hm.1
        · exact hws' _ hm.2
      · simp at hit; subst hit; exact ⟨hws' _ hm.1, hws' _ hm.2⟩
  · rw [List.mem_map] at hit
    obtain ⟨c, hc, rfl⟩ := hit
    exact hws' c hc

theorem esc_noTab (c : Char) (hc : isWs c = false) : '\t' ∉ clsEscChar c := by
  have : c ≠ '\t' := by intro e; subst e; simp [isWs] at hc
  simp only [clsEscChar]
  split <;> simp [Ne.symm this]

theorem render_noTab (it : CItem) (h : SOK it) : '\t' ∉ renderItem it := by
  cases it with
  | one c => exact esc_noTab c h
  | nl => exact absurd h id
  | tab => exact absurd h id
  | range lo hi =>
    have h1 := esc_noTab lo h.1
    have h2 := esc_noTab hi h.2
    simp [renderItem, h1, h2]

theorem items_noTab (its : List CItem) (h : ∀ it ∈ its, SOK it) :
    '\t' ∉ its.flatMap renderItem := by
  intro hm
  rw [List.mem_flatMap] at hm
  obtain ⟨it, hit, hm⟩ := hm
  exact render_noTab it (h it hit) hm

/-- `srange` on the class text of well-behaved items gives back their expansion -/
theorem srange_render (its : List CItem) (hne : its ≠ []) (hok : ∀ it ∈ its, SOK it)
    (hexp : its.flatMap expandItem ≠ []) :
    srange ('[' :: its.flatMap renderItem ++ [']']) = some (its.flatMap expandItem) := by
  have htab : '\t' ∉ ('[' :: its.flatMap renderItem ++ [']']) := by
    have := items_noTab its hok
    simp [this]
  have hw : skipWs (its.flatMap renderItem ++ [']']) = its.flatMap renderItem ++ [']'] :=
    skipWs_id _ (items_noWsHead its [] hok)
  have hb := bodyGo_render its hok ((its.flatMap renderItem ++ [']']).length + 1) [] (by
    have : its.length ≤ (its.flatMap renderItem).length := by
      clear hne hok hexp htab hw
      induction its with
      | nil => simp
      | cons it its ih =>
        have : 1 ≤ (renderItem it).length := by
          cases it <;> simp [renderItem, clsEscChar] <;> (try split) <;> simp <;> omega
        simp only [List.flatMap_cons, List.length_append, List.length_cons]; omega
    simp only [List.length_append, List.length_cons]; omega)
  have hcaret : ∀ r, its.flatMap renderItem ++ [']'] ≠ '^' :: r := by
    intro r h
    cases its with
    | nil => exact absurd rfl hne
    | cons it its =>
      have hr := render_head it (its.flatMap renderItem ++ [']'])
      simp only [List.flatMap_cons, List.append_assoc] at h
      rw [h] at hr
      simp [goodHead] at hr
  unfold srange
  rw [expandTabs_id _ htab]
  have h0 : skipWs ('[' :: its.flatMap renderItem ++ [']']) =
      '[' :: (its.flatMap renderItem ++ [']']) := by simp [skipWs, isWs]
  rw [h0]
  simp only [hw]
  have hm : (match its.flatMap renderItem ++ [']'] with
      | '^' :: r => r
      | _ => its.flatMap renderItem ++ [']']) = its.flatMap renderItem ++ [']'] := by
    split
    · rename_i h; exact absurd h (hcaret _)
    · rfl
  -- (`simp only` may already discharge the `^` match using `hcaret` from the context)
  try rw [hm]
  rw [hb]
  simp [hexp, skipWs, isWs]

theorem srange_inverts_partial (cs : List Char) (hne : cs ≠ [])
    (hws : ∀ c ∈ cs, isWs c = false) :
    srange ('[' :: collapse cs ++ [']']) = some (sortU cs) := by
  have h := srange_render (collapseItems cs) (collapseItems_ne_nil cs hne)
    (collapseItems_sok cs hws) (by rw [collapseItems_expand]; exact sortU_ne_nil cs hne)
  rw [collapseItems_expand] at h
  exact h

end PP.Ranges
