import PPModel.Mod.LeftRec
/-!
# Direct left recursion `E <<= (E + tail) | base` as a body of the growth loop, and its iterative reference

`lrBody` is what `mfGo` / `andImpl` (PPModel/Mod/Parse.lean) compute for `MatchFirst [And [E, t…], base]` when the nested
`E` is a memo hit (`pk` under the peek key, `ak` under the action key), generic in the sub-parsers:

* `tail a e`  = the outcome of the rest of the `And` (`t…`) started at the end `e` of the memo entry (tokens of the rest only)
* `base a`    = the outcome of the second alternative at the Forward's location

`iterLoop` / `iterRef` is the iterative grammar `base (tail)*`, shaped like `manyLoop` (Parse.lean): greedy, no give-back,
a ParseException / IndexError of the repetition body ends the repetition, a fatal error propagates, a body that matches
without advancing loops for ever (`.hang`).
-/
namespace PP.Parse

/-- the second alternative of a two-alternative `MatchFirst` whose first alternative failed with a ParseException at `m`
    (`mfGo p acts slen loc [b] (some m)`): a ParseException is re-raised at the farther of the two locations, a raw
    IndexError counts as a failure at `len(instring)` (core.py:4445-4461) -/
def mfSecond (slen m : Nat) : Out → Out
  | .fail .parse l2 => .fail .parse (if l2 > m then l2 else m)
  | .idx => .fail .parse (if slen > m then slen else m)
  | o => o

/-- `MatchFirst [And [E, t…], base]` with the nested `E` answered from the memo -/
def lrBody (slen : Nat) (base : Bool → Out) (tail : Bool → Nat → Out) : Bool → Out → Out → Out := fun a pk ak =>
  match (match (if a then ak else pk) with
    | .ok e ts => (match tail a e with
       | .ok e' ts' => Out.ok e' (ts ++ ts')
       | o => o)
    | o => o) with
  | .ok e ts => .ok e ts
  | .fail .parse l => mfSecond slen l (base a)
  | .idx => mfSecond slen slen (base a)
  | o => o

/-- the repetition `(tail)*` after a match ending at `e` with tokens `acc` (shape of `manyLoop`) -/
def iterLoop (tail : Bool → Nat → Out) (a : Bool) : Nat → Nat → List Tok → Out
  | 0, _, _ => .hang
  | k+1, e, acc =>
    match tail a e with
    | .ok e' ts' => if e' ≤ e then .hang else iterLoop tail a k e' (acc ++ ts')
    | .fail .parse _ => .ok e acc
    | .idx => .ok e acc
    | o => o

/-- the action run and the trial run agree on success and on the end position (tokens may differ); a non-match is the
    same outcome in both -/
def AgreeOut (x y : Out) : Prop :=
  (∀ e ts, x = .ok e ts → ∃ ts', y = .ok e ts') ∧ ((∀ e ts, x ≠ .ok e ts) → y = x)

theorem AgreeOut.refl (x : Out) : AgreeOut x x :=
  ⟨fun _ ts h => ⟨ts, h⟩, fun _ => rfl⟩

theorem lrBody_ok (slen : Nat) (base : Bool → Out) (tail : Bool → Nat → Out) (a : Bool) (pk ak : Out) (e e' : Nat)
    (ts ts' : List Tok) (hm : (if a then ak else pk) = .ok e ts) (ht : tail a e = .ok e' ts') :
    lrBody slen base tail a pk ak = .ok e' (ts ++ ts') := by
  simp only [lrBody, hm, ht]

theorem lrBody_stop_parse (slen : Nat) (base : Bool → Out) (tail : Bool → Nat → Out) (a : Bool) (pk ak : Out) (e l : Nat)
    (ts : List Tok) (hm : (if a then ak else pk) = .ok e ts) (ht : tail a e = .fail .parse l) :
    lrBody slen base tail a pk ak = mfSecond slen l (base a) := by
  simp only [lrBody, hm, ht]

theorem lrBody_stop_idx (slen : Nat) (base : Bool → Out) (tail : Bool → Nat → Out) (a : Bool) (pk ak : Out) (e : Nat)
    (ts : List Tok) (hm : (if a then ak else pk) = .ok e ts) (ht : tail a e = .idx) :
    lrBody slen base tail a pk ak = mfSecond slen slen (base a) := by
  simp only [lrBody, hm, ht]

theorem lrBody_seed (slen : Nat) (base : Bool → Out) (tail : Bool → Nat → Out) (a : Bool) (pk ak : Out) (l : Nat)
    (hm : (if a then ak else pk) = .fail .parse l) :
    lrBody slen base tail a pk ak = mfSecond slen l (base a) := by
  simp only [lrBody, hm]

/-- **the growth rounds after the base round are the repetition loop, in lock-step** (same round budget on both sides,
    so no bound on the ends is needed: an exhausted budget is `.hang` on both sides) -/
theorem growLoop_lrBody_loop (slen loc : Nat) (base : Bool → Out) (tail : Bool → Nat → Out) (acts : Bool)
    (e0 : Nat) (ts0 : List Tok) (hb : base false = .ok e0 ts0)
    (hadv : ∀ e e' ts', e0 ≤ e → tail false e = .ok e' ts' → e < e')
    (hag : acts = true → ∀ e, e0 ≤ e → AgreeOut (tail false e) (tail true e)) :
    ∀ k e tsP ak acc, e0 ≤ e → (if acts then ak = .ok e acc else acc = tsP) →
      growLoop (lrBody slen base tail) acts loc k (.ok e tsP) ak = iterLoop tail acts k e acc := by
  intro k
  induction k with
  | zero => intro e tsP ak acc _ _; rfl
  | succ k ih =>
    intro e tsP ak acc he hak
    have hpk : ∀ ak', (if false then ak' else Out.ok e tsP) = .ok e tsP := fun _ => rfl
    have hstop : notBetter e0 loc (.ok e tsP) = true := by simp [notBetter]; exact he
    unfold growLoop iterLoop
    cases ht : tail false e with
    | ok e' ts' =>
      have hlt := hadv e e' ts' he ht
      have hnb : notBetter e' loc (.ok e tsP) = false := by simp [notBetter]; omega
      have hle : ¬ e' ≤ e := by omega
      rw [lrBody_ok slen base tail false _ ak e e' tsP ts' (hpk ak) ht]
      simp only [hnb, Bool.false_eq_true, if_false]
      cases acts with
      | false =>
        simp only [Bool.false_eq_true, if_false] at hak ⊢
        rw [ht]
        simp only [hle, if_false]
        subst hak
        exact ih e' _ ak _ (by omega) (by simp)
      | true =>
        simp only [if_true] at hak ⊢
        obtain ⟨tsA, hta⟩ := (hag rfl e he).1 e' ts' ht
        rw [lrBody_ok slen base tail true (.ok e tsP) ak e e' acc tsA (by simpa using hak) hta, hta]
        simp only [hle, if_false]
        exact ih e' _ _ _ (by omega) (by simp)
    | fail c l =>
      have hta : tail acts e = .fail c l := by
        cases acts with
        | false => exact ht
        | true =>
          have := (hag rfl e he).2 (by intro e1 t1 h; rw [ht] at h; cases h)
          rw [this, ht]
      rw [hta]
      cases c with
      | parse =>
        rw [lrBody_stop_parse slen base tail false _ ak e l tsP (hpk ak) ht, hb]
        simp only [mfSecond, hstop, if_true]
        cases acts <;> simp_all
      | fatal => simp only [lrBody, hpk, ht]
      | «syntax» => simp only [lrBody, hpk, ht]
    | idx =>
      have hta : tail acts e = .idx := by
        cases acts with
        | false => exact ht
        | true =>
          have := (hag rfl e he).2 (by intro e1 t1 h; rw [ht] at h; cases h)
          rw [this, ht]
      rw [hta, lrBody_stop_idx slen base tail false _ ak e tsP (hpk ak) ht, hb]
      simp only [mfSecond, hstop, if_true]
      cases acts <;> simp_all
    | hang =>
      have hta : tail acts e = .hang := by
        cases acts with
        | false => exact ht
        | true =>
          have := (hag rfl e he).2 (by intro e1 t1 h; rw [ht] at h; cases h)
          rw [this, ht]
      rw [hta]
      simp only [lrBody, hpk, ht]

end PP.Parse
