import PPModel.Mod.CompressedRe
/-
  Kernel-checked language theorem for the model of `make_compressed_re`.
-/
namespace PP.CompressedRe
open PP.ReLite PP.Ranges PP.OneOf

/-! ## (a) denotational language of the repetition-free fragment -/

/-- language of the repetition-free fragment (`False` on star/plus/rep/wb) -/
def Lang : Re → List Char → Prop
  | .eps, u => u = []
  | .chr c, u => u = [c]
  | .cls items, u => ∃ d, clsMem items d = true ∧ u = [d]
  | .cat a b, u => ∃ u1 u2, u = u1 ++ u2 ∧ Lang a u1 ∧ Lang b u2
  | .alt a b, u => Lang a u ∨ Lang b u
  | .grp _ r, u => Lang r u
  | .opt r, u => Lang r u ∨ u = []
  | .star _, _ => False
  | .plus _, _ => False
  | .repN _ _, _ => False
  | .repMN _ _ _, _ => False
  | .wb, _ => False

/-- no repetition / word boundary operator occurs -/
def Simple : Re → Prop
  | .eps => True
  | .chr _ => True
  | .cls _ => True
  | .cat a b => Simple a ∧ Simple b
  | .alt a b => Simple a ∧ Simple b
  | .grp _ r => Simple r
  | .opt r => Simple r
  | .star _ => False
  | .plus _ => False
  | .repN _ _ => False
  | .repMN _ _ _ => False
  | .wb => False

theorem getElem?_eq_some_iff_drop (s : List Char) (pos : Nat) (d : Char) :
    s[pos]? = some d ↔ ∃ t, s.drop pos = d :: t := by
  rw [← List.head?_drop]
  cases h : s.drop pos with
  | nil => simp
  | cons x t => simp

theorem ends_iff (s : List Char) (r : Re) (hs : Simple r) :
    ∀ pos e, e ∈ ends false s r pos ↔
      ∃ u t, Lang r u ∧ s.drop pos = u ++ t ∧ e = pos + u.length := by
  induction r with
  | eps =>
    intro pos e
    simp only [ends, Lang, List.mem_singleton]
    constructor
    · intro h; exact ⟨[], s.drop pos, rfl, by simp, by simp [h]⟩
    · rintro ⟨u, t, rfl, _, h⟩; simpa using h
  | chr c =>
    intro pos e
    simp only [ends, Lang]
    constructor
    · intro h
      cases hd : s[pos]? with
      | none => simp [hd] at h
      | some d =>
        simp only [hd, chrEq] at h
        by_cases hcd : c = d
        · subst hcd
          obtain ⟨t, ht⟩ := (getElem?_eq_some_iff_drop s pos c).1 hd
          simp at h
          exact ⟨[c], t, rfl, by simpa using ht, by simp [h]⟩
        · simp [hcd] at h
    · rintro ⟨u, t, rfl, h1, h2⟩
      have : s[pos]? = some c := (getElem?_eq_some_iff_drop s pos c).2 ⟨t, by simpa using h1⟩
      simp [this, chrEq, h2]
  | cls items =>
    intro pos e
    simp only [ends, Lang]
    constructor
    · intro h
      cases hd : s[pos]? with
      | none => simp [hd] at h
      | some d =>
        simp only [hd, clsMemCi] at h
        by_cases hm : clsMem items d = true
        · obtain ⟨t, ht⟩ := (getElem?_eq_some_iff_drop s pos d).1 hd
          simp [hm] at h
          exact ⟨[d], t, ⟨d, hm, rfl⟩, by simpa using ht, by simp [h]⟩
        · simp [hm] at h
    · rintro ⟨u, t, ⟨d, hm, rfl⟩, h1, h2⟩
      have : s[pos]? = some d := (getElem?_eq_some_iff_drop s pos d).2 ⟨t, by simpa using h1⟩
      simp [this, clsMemCi, hm, h2]
  | cat a b iha ihb =>
    intro pos e
    have ha := iha hs.1
    have hb := ihb hs.2
    simp only [ends, Lang, List.mem_flatMap]
    constructor
    · rintro ⟨m, hm, he⟩
      obtain ⟨u1, t1, hl1, hd1, rfl⟩ := (ha pos m).1 hm
      obtain ⟨u2, t2, hl2, hd2, rfl⟩ := (hb _ e).1 he
      refine ⟨u1 ++ u2, t2, ⟨u1, u2, rfl, hl1, hl2⟩, ?_, by simp [Nat.add_assoc]⟩
      rw [← List.drop_drop, hd1] at hd2
      simp at hd2
      rw [hd1, hd2, List.append_assoc]
    · rintro ⟨u, t, ⟨u1, u2, rfl, hl1, hl2⟩, hd, rfl⟩
      refine ⟨pos + u1.length, (ha pos _).2 ⟨u1, u2 ++ t, hl1, by simpa using hd, rfl⟩, ?_⟩
      refine (hb _ _).2 ⟨u2, t, hl2, ?_, by simp [Nat.add_assoc]⟩
      rw [← List.drop_drop, hd]
      simp
  | alt a b iha ihb =>
    intro pos e
    have ha := iha hs.1
    have hb := ihb hs.2
    simp only [ends, Lang, List.mem_append, ha pos e, hb pos e]
    constructor
    · rintro (⟨u, t, h1, h2, h3⟩ | ⟨u, t, h1, h2, h3⟩)
      · exact ⟨u, t, Or.inl h1, h2, h3⟩
      · exact ⟨u, t, Or.inr h1, h2, h3⟩
    · rintro ⟨u, t, (h1 | h1), h2, h3⟩
      · exact Or.inl ⟨u, t, h1, h2, h3⟩
      · exact Or.inr ⟨u, t, h1, h2, h3⟩
  | grp cap r ih =>
    intro pos e
    simpa only [ends, Lang] using ih hs pos e
  | opt r ih =>
    intro pos e
    have hr := ih hs
    simp only [ends, Lang, List.mem_append, hr pos e, List.mem_singleton]
    constructor
    · rintro (⟨u, t, h1, h2, h3⟩ | h)
      · exact ⟨u, t, Or.inl h1, h2, h3⟩
      · exact ⟨[], s.drop pos, Or.inr rfl, by simp, by simp [h]⟩
    · rintro ⟨u, t, (h1 | h1), h2, h3⟩
      · exact Or.inl ⟨u, t, h1, h2, h3⟩
      · subst h1; right; simpa using h3
  | star r => exact hs.elim
  | plus r => exact hs.elim
  | repN r m => exact hs.elim
  | repMN r m n => exact hs.elim
  | wb => exact hs.elim

theorem fullMatch_iff_Lang (r : Re) (hs : Simple r) (w : List Char) :
    fullMatch false r w = true ↔ Lang r w := by
  simp only [fullMatch, List.contains_iff_mem, ends_iff w r hs]
  constructor
  · rintro ⟨u, t, h1, h2, h3⟩
    simp at h2 h3
    have : t = [] := by
      have := congrArg List.length h2
      simp at this
      cases t with
      | nil => rfl
      | cons x t => simp at this; omega
    subst this
    simp at h2
    rw [h2]; exact h1
  · intro h
    exact ⟨w, [], h, by simp, by simp⟩

/-! ## (b) languages of the building blocks -/

theorem Lang_catL_cons (r : Re) (rs : List Re) (u : List Char) :
    Lang (catL (r :: rs)) u ↔ ∃ u1 u2, u = u1 ++ u2 ∧ Lang r u1 ∧ Lang (catL rs) u2 := by
  cases rs with
  | nil =>
    simp only [catL, Lang]
    constructor
    · intro h; exact ⟨u, [], by simp, h, rfl⟩
    · rintro ⟨u1, u2, rfl, h, rfl⟩; simpa using h
  | cons r' rs => simp only [catL, Lang]

theorem Simple_catL (rs : List Re) (h : ∀ r ∈ rs, Simple r) : Simple (catL rs) := by
  induction rs with
  | nil => trivial
  | cons r rs ih =>
    cases rs with
    | nil => exact h r (by simp)
    | cons r' rs =>
      exact ⟨h r (by simp), ih (fun x hx => h x (List.mem_cons_of_mem _ hx))⟩

theorem Lang_catL_chrs (cs : List Char) (u : List Char) :
    Lang (catL (cs.map .chr)) u ↔ u = cs := by
  induction cs generalizing u with
  | nil => simp [catL, Lang]
  | cons c cs ih =>
    rw [List.map_cons, Lang_catL_cons]
    constructor
    · rintro ⟨u1, u2, rfl, h1, h2⟩
      rw [(ih u2).1 h2]
      simp only [Lang] at h1
      subst h1; rfl
    · rintro rfl
      exact ⟨[c], cs, rfl, rfl, (ih cs).2 rfl⟩

theorem Simple_catL_chrs (cs : List Char) : Simple (catL (cs.map .chr)) := by
  apply Simple_catL
  intro r hr
  obtain ⟨c, _, rfl⟩ := List.mem_map.1 hr
  trivial

theorem Lang_litRe (y u : List Char) : Lang (litRe y) u ↔ u = y := Lang_catL_chrs y u

theorem Simple_litRe (y : List Char) : Simple (litRe y) := Simple_catL_chrs y

theorem Lang_altL (rs : List Re) (hne : rs ≠ []) (u : List Char) :
    Lang (altL rs) u ↔ ∃ r ∈ rs, Lang r u := by
  induction rs with
  | nil => exact absurd rfl hne
  | cons r rs ih =>
    cases rs with
    | nil => simp [altL]
    | cons r' rs =>
      have := ih (by simp)
      simp only [altL, Lang] at this ⊢
      rw [this]
      simp

theorem Simple_altL (rs : List Re) (h : ∀ r ∈ rs, Simple r) : Simple (altL rs) := by
  induction rs with
  | nil => trivial
  | cons r rs ih =>
    cases rs with
    | nil => exact h r (by simp)
    | cons r' rs =>
      exact ⟨h r (by simp), ih (fun x hx => h x (List.mem_cons_of_mem _ hx))⟩

theorem CItem_mem_escItem (d c : Char) : CItem.mem d (escItem c) = true ↔ d = c := by
  unfold escItem
  split
  · rename_i h; simp at h; subst h; simp [CItem.mem]
  · split
    · rename_i h; simp at h; subst h; simp [CItem.mem]
    · simp [CItem.mem]

theorem Lang_clsOfSingles (ws : List W) (u : List Char) :
    Lang (clsOfSingles ws) u ↔ ∃ w ∈ ws, u = [w.headD ' '] := by
  simp only [clsOfSingles, Lang, clsMem, List.any_eq_true, List.mem_map]
  constructor
  · rintro ⟨d, ⟨it, ⟨w, hw, rfl⟩, hm⟩, rfl⟩
    exact ⟨w, hw, by rw [(CItem_mem_escItem _ _).1 hm]⟩
  · rintro ⟨w, hw, rfl⟩
    exact ⟨_, ⟨_, ⟨w, hw, rfl⟩, (CItem_mem_escItem _ _).2 rfl⟩, rfl⟩

theorem Simple_clsOfSingles (ws : List W) : Simple (clsOfSingles ws) := trivial

/-! ## (c) dedupe / sort / group preserve membership -/

theorem mem_dedupe (x : W) (ws : List W) : x ∈ dedupe ws ↔ x ∈ ws := by
  induction ws with
  | nil => simp [dedupe]
  | cons w ws ih =>
    simp only [dedupe, List.mem_cons, List.mem_filter, ih]
    by_cases h : x = w <;> simp [h]

theorem mem_insertBy (lt : W → W → Bool) (x w : W) (xs : List W) :
    x ∈ insertBy lt w xs ↔ x = w ∨ x ∈ xs := by
  induction xs with
  | nil => simp [insertBy]
  | cons y ys ih =>
    simp only [insertBy]
    split
    · simp only [List.mem_cons, ih]
      constructor
      · rintro (h | h | h) <;> simp [h]
      · rintro (h | h | h) <;> simp [h]
    · simp

theorem mem_sortBy (lt : W → W → Bool) (x : W) (ws : List W) : x ∈ sortBy lt ws ↔ x ∈ ws := by
  induction ws with
  | nil => simp [sortBy]
  | cons w ws ih =>
    have : sortBy lt (w :: ws) = insertBy lt w (sortBy lt ws) := rfl
    rw [this, mem_insertBy, ih]; simp

theorem exists_mem_cons' {α : Type} (P : α → Prop) (a : α) (l : List α) :
    (∃ g ∈ a :: l, P g) ↔ P a ∨ ∃ g ∈ l, P g := by
  constructor
  · rintro ⟨g, hg, hp⟩
    rcases List.mem_cons.1 hg with rfl | hg
    · exact Or.inl hp
    · exact Or.inr ⟨g, hg, hp⟩
  · rintro (h | ⟨g, hg, hp⟩)
    · exact ⟨a, by simp, h⟩
    · exact ⟨g, List.mem_cons_of_mem _ hg, hp⟩

theorem mem_groupGo (c : Char) (acc : List W) (ws : List W) (x : Char) (tl : W) :
    (∃ g ∈ groupGo c acc ws, g.1 = x ∧ tl ∈ g.2) ↔ (x = c ∧ tl ∈ acc) ∨ (x :: tl) ∈ ws := by
  induction ws generalizing c acc with
  | nil => simp [groupGo, eq_comm]
  | cons w ws ih =>
    cases w with
    | nil => simp [groupGo, ih]
    | cons d t =>
      simp only [groupGo]
      split
      · rename_i h
        simp at h; subst h
        rw [ih]
        simp only [List.mem_cons, List.cons.injEq]
        constructor
        · rintro (⟨h1, h2 | h2⟩ | h)
          · right; left; exact ⟨h1, h2⟩
          · left; exact ⟨h1, h2⟩
          · right; right; exact h
        · rintro (⟨h1, h2⟩ | ⟨h1, h2⟩ | h)
          · left; exact ⟨h1, Or.inr h2⟩
          · left; exact ⟨h1, Or.inl h2⟩
          · right; exact h
      · rw [exists_mem_cons', ih]
        simp only [List.mem_reverse, List.mem_cons, List.cons.injEq, List.not_mem_nil, or_false]
        constructor
        · rintro (⟨h1, h2⟩ | ⟨h1, h2⟩ | h)
          · left; exact ⟨h1.symm, h2⟩
          · right; left; exact ⟨h1, h2⟩
          · right; right; exact h
        · rintro (⟨h1, h2⟩ | ⟨h1, h2⟩ | h)
          · left; exact ⟨h1.symm, h2⟩
          · right; left; exact ⟨h1, h2⟩
          · right; right; exact h

theorem mem_groups (ws : List W) (x : Char) (tl : W) :
    (∃ g ∈ groups ws, g.1 = x ∧ tl ∈ g.2) ↔ (x :: tl) ∈ ws := by
  induction ws with
  | nil => simp [groups]
  | cons w ws ih =>
    cases w with
    | nil => simp [groups, ih]
    | cons d t =>
      simp only [groups, mem_groupGo, List.mem_cons, List.cons.injEq, List.not_mem_nil, or_false]

theorem groupGo_snd_ne_nil (c : Char) (acc : List W) (ws : List W) (hacc : acc ≠ []) :
    ∀ g ∈ groupGo c acc ws, g.2 ≠ [] := by
  induction ws generalizing c acc with
  | nil => simp [groupGo, hacc]
  | cons w ws ih =>
    cases w with
    | nil => simpa [groupGo] using ih c acc hacc
    | cons d t =>
      simp only [groupGo]
      split
      · exact ih _ _ (by simp)
      · intro g hg
        rcases List.mem_cons.1 hg with rfl | hg
        · simpa using hacc
        · exact ih _ _ (by simp) g hg

theorem groups_snd_ne_nil (ws : List W) : ∀ g ∈ groups ws, g.2 ≠ [] := by
  induction ws with
  | nil => simp [groups]
  | cons w ws ih =>
    cases w with
    | nil => simpa [groups] using ih
    | cons d t => exact groupGo_snd_ne_nil _ _ _ (by simp)

/-! ## (d) one group -/

/-- body of `groupRe` after the `let`s (same text as the model) -/
def groupReBody (rec : Option (List W → Re)) (initial : Char) (trailing : Bool) (suffixes : List W) :
    Re :=
  let q (r : Re) : Re := if trailing then .opt r else r
  match suffixes with
  | [] => .chr initial
  | [suf] =>
      if (reEscape suf).length > 1 && trailing then
        .cat (.chr initial) (.opt (.grp false (litRe suf)))
      else
        (match suf with
         | [c] => .cat (.chr initial) (q (.chr c))
         | _ => catL (.chr initial :: suf.map .chr))
  | _ =>
      if suffixes.all (fun s => s.length == 1) then
        .cat (.chr initial) (q (clsOfSingles suffixes))
      else
        match rec with
        | some f => .cat (.chr initial) (q (.grp false (f (sortStr suffixes))))
        | none => .cat (.chr initial) (q (.grp false (altL ((sortLenDesc suffixes).map litRe))))

theorem groupRe_eq (rec : Option (List W → Re)) (c : Char) (sufs : List W) :
    groupRe rec c sufs = groupReBody rec c ((sortLenDesc sufs).contains [])
      ((sortLenDesc sufs).filter (fun s => !s.isEmpty)) := rfl

/-- `r` is in the fragment and denotes exactly the word list `ws` -/
def Good (r : Re) (ws : List W) : Prop := Simple r ∧ ∀ u, Lang r u ↔ u ∈ ws

/-- the recursive call is correct on non-empty lists of non-empty words -/
def RecOK : Option (List W → Re) → Prop
  | none => True
  | some f => ∀ ws : List W, ws ≠ [] → (∀ w ∈ ws, w ≠ []) → Good (f ws) ws

theorem Lang_q (tr : Bool) (r : Re) (u : List Char) :
    Lang (if tr then .opt r else r) u ↔ Lang r u ∨ (tr = true ∧ u = []) := by
  cases tr <;> simp [Lang]

theorem Simple_q (tr : Bool) (r : Re) (h : Simple r) : Simple (if tr then .opt r else r) := by
  cases tr <;> simpa [Simple] using h

theorem Lang_cat_chr (c : Char) (r : Re) (u : List Char) :
    Lang (.cat (.chr c) r) u ↔ ∃ t, u = c :: t ∧ Lang r t := by
  simp only [Lang]
  constructor
  · rintro ⟨u1, u2, rfl, rfl, h⟩; exact ⟨u2, rfl, h⟩
  · rintro ⟨t, rfl, h⟩; exact ⟨[c], t, rfl, rfl, h⟩

theorem length_le_reEscape (s : List Char) : s.length ≤ (reEscape s).length := by
  induction s with
  | nil => simp [reEscape]
  | cons c cs ih =>
    have : reEscape (c :: cs) = reEscapeChar c ++ reEscape cs := by simp [reEscape]
    rw [this, List.length_append, List.length_cons]
    have : 1 ≤ (reEscapeChar c).length := by unfold reEscapeChar; split <;> simp
    omega

theorem mem_ne_nil_of_mem {α : Type} {ws : List α} {a : α} (h : a ∈ ws) : ws ≠ [] := by
  intro h'; subst h'; simp at h

theorem groupReBody_two (rec : Option (List W → Re)) (c : Char) (tr : Bool) (sfx : List W)
    (h2 : 2 ≤ sfx.length) :
    groupReBody rec c tr sfx =
      if sfx.all (fun s => s.length == 1) then
        .cat (.chr c) (if tr then .opt (clsOfSingles sfx) else clsOfSingles sfx)
      else
        match rec with
        | some f => .cat (.chr c) (if tr then .opt (.grp false (f (sortStr sfx)))
                                    else .grp false (f (sortStr sfx)))
        | none => .cat (.chr c)
            (if tr then .opt (.grp false (altL ((sortLenDesc sfx).map litRe)))
             else .grp false (altL ((sortLenDesc sfx).map litRe))) := by
  cases sfx with
  | nil => simp at h2
  | cons a l =>
    cases l with
    | nil => simp at h2
    | cons b l => rfl

theorem groupReBody_spec (rec : Option (List W → Re)) (hrec : RecOK rec) (c : Char) (tr : Bool)
    (sfx : List W) (hne : ∀ t ∈ sfx, t ≠ []) (h0 : sfx = [] → tr = true) :
    Simple (groupReBody rec c tr sfx) ∧
    ∀ u, Lang (groupReBody rec c tr sfx) u ↔ ((tr = true ∧ u = [c]) ∨ ∃ t ∈ sfx, u = c :: t) := by
  cases sfx with
  | nil =>
    have htr := h0 rfl
    subst htr
    simp [groupReBody, Simple, Lang]
  | cons a l =>
    cases l with
    | nil =>
      have ha : a ≠ [] := hne a (by simp)
      simp only [groupReBody]
      split
      · rename_i hc
        simp only [Bool.and_eq_true] at hc
        have htr := hc.2
        subst htr
        refine ⟨⟨trivial, Simple_litRe a⟩, fun u => ?_⟩
        rw [Lang_cat_chr]
        simp only [Lang, Lang_litRe, List.mem_singleton, true_and]
        constructor
        · rintro ⟨t, rfl, (rfl | rfl)⟩
          · right; exact ⟨t, rfl, rfl⟩
          · left; rfl
        · rintro (rfl | ⟨t, rfl, rfl⟩)
          · exact ⟨[], rfl, Or.inr rfl⟩
          · exact ⟨t, rfl, Or.inl rfl⟩
      · rename_i hc
        split
        · rename_i d
          refine ⟨⟨trivial, Simple_q _ _ trivial⟩, fun u => ?_⟩
          rw [Lang_cat_chr]
          simp only [Lang_q, Lang, List.mem_singleton]
          constructor
          · rintro ⟨t, rfl, (rfl | ⟨h, rfl⟩)⟩
            · right; exact ⟨_, rfl, rfl⟩
            · left; exact ⟨h, rfl⟩
          · rintro (⟨h, rfl⟩ | ⟨t, rfl, rfl⟩)
            · exact ⟨[], rfl, Or.inr ⟨h, rfl⟩⟩
            · exact ⟨_, rfl, Or.inl rfl⟩
        · rename_i hnot
          have hlen : 2 ≤ a.length := by
            cases a with
            | nil => exact absurd rfl ha
            | cons x xs =>
              cases xs with
              | nil => exact absurd rfl (hnot x)
              | cons y ys => simp
          have hesc := length_le_reEscape a
          have htr : tr = false := by
            cases tr with
            | false => rfl
            | true =>
              exfalso; apply hc
              simp only [Bool.and_true, decide_eq_true_eq]
              omega
          subst htr
          have : catL (Re.chr c :: a.map Re.chr) = catL ((c :: a).map Re.chr) := rfl
          rw [this]
          refine ⟨Simple_catL_chrs _, fun u => ?_⟩
          rw [Lang_catL_chrs]
          simp
    | cons b l =>
      rw [groupReBody_two rec c tr (a :: b :: l) (by simp)]
      generalize hs : a :: b :: l = sfx at *
      have hane : sfx ≠ [] := by rw [← hs]; simp
      have key : ∀ r : Re, Good r sfx →
          Simple (Re.cat (.chr c) (if tr then .opt r else r)) ∧
          ∀ u, Lang (Re.cat (.chr c) (if tr then .opt r else r)) u ↔
            ((tr = true ∧ u = [c]) ∨ ∃ t ∈ sfx, u = c :: t) := by
        intro r hg
        refine ⟨⟨trivial, Simple_q _ _ hg.1⟩, fun u => ?_⟩
        rw [Lang_cat_chr]
        simp only [Lang_q, hg.2]
        constructor
        · rintro ⟨t, rfl, (h | ⟨h, rfl⟩)⟩
          · right; exact ⟨t, h, rfl⟩
          · left; exact ⟨h, rfl⟩
        · rintro (⟨h, rfl⟩ | ⟨t, h, rfl⟩)
          · exact ⟨[], rfl, Or.inr ⟨h, rfl⟩⟩
          · exact ⟨t, rfl, Or.inl h⟩
      split
      · rename_i hall
        apply key
        refine ⟨Simple_clsOfSingles _, fun u => ?_⟩
        rw [Lang_clsOfSingles]
        have h1 : ∀ w ∈ sfx, [w.headD ' '] = w := by
          intro w hw
          have := (List.all_eq_true.1 hall) w hw
          simp only [beq_iff_eq] at this
          cases w with
          | nil => simp at this
          | cons x xs =>
            cases xs with
            | nil => rfl
            | cons y ys => simp at this
        constructor
        · rintro ⟨w, hw, rfl⟩; rw [h1 w hw]; exact hw
        · intro hu; exact ⟨u, hu, (h1 u hu).symm⟩
      · cases rec with
        | some f =>
          simp only []
          apply key
          obtain ⟨x, hx⟩ := List.exists_mem_of_ne_nil _ hane
          have hg := hrec (sortStr sfx)
            (mem_ne_nil_of_mem ((mem_sortBy _ x sfx).2 hx))
            (fun w hw => hne w ((mem_sortBy _ w sfx).1 hw))
          exact ⟨hg.1, fun u => by rw [Lang, hg.2 u]; exact mem_sortBy _ u sfx⟩
        | none =>
          simp only []
          apply key
          obtain ⟨x, hx⟩ := List.exists_mem_of_ne_nil _ hane
          refine ⟨?_, fun u => ?_⟩
          · apply Simple_altL
            intro r hr
            obtain ⟨y, _, rfl⟩ := List.mem_map.1 hr
            exact Simple_litRe y
          · have hmem : litRe x ∈ (sortLenDesc sfx).map litRe :=
              List.mem_map.2 ⟨x, (mem_sortBy _ x sfx).2 hx, rfl⟩
            rw [Lang, Lang_altL _ (mem_ne_nil_of_mem hmem)]
            constructor
            · rintro ⟨r, hr, hl⟩
              obtain ⟨y, hy, rfl⟩ := List.mem_map.1 hr
              rw [(Lang_litRe y u).1 hl]
              exact (mem_sortBy _ y sfx).1 hy
            · intro hu
              exact ⟨litRe u, List.mem_map.2 ⟨u, (mem_sortBy _ u sfx).2 hu, rfl⟩,
                (Lang_litRe u u).2 rfl⟩

theorem groupRe_spec (rec : Option (List W → Re)) (hrec : RecOK rec) (c : Char) (sufs : List W)
    (hne : sufs ≠ []) :
    Simple (groupRe rec c sufs) ∧
    ∀ u, Lang (groupRe rec c sufs) u ↔ ∃ t ∈ sufs, u = c :: t := by
  rw [groupRe_eq]
  have hmem : ∀ t, t ∈ (sortLenDesc sufs).filter (fun s => !s.isEmpty) ↔ t ∈ sufs ∧ t ≠ [] := by
    intro t
    simp only [List.mem_filter, sortLenDesc, mem_sortBy]
    cases t <;> simp
  have htr : (sortLenDesc sufs).contains [] = true ↔ [] ∈ sufs := by
    simp only [List.contains_iff_mem, sortLenDesc, mem_sortBy]
  have h := groupReBody_spec rec hrec c ((sortLenDesc sufs).contains [])
    ((sortLenDesc sufs).filter (fun s => !s.isEmpty))
    (fun t ht => ((hmem t).1 ht).2)
    (by
      intro h0
      rw [htr]
      obtain ⟨x, hx⟩ := List.exists_mem_of_ne_nil _ hne
      cases x with
      | nil => exact hx
      | cons y ys =>
        have : (y :: ys) ∈ (sortLenDesc sufs).filter (fun s => !s.isEmpty) :=
          (hmem _).2 ⟨hx, by simp⟩
        rw [h0] at this
        simp at this)
  refine ⟨h.1, fun u => ?_⟩
  rw [h.2 u, htr]
  constructor
  · rintro (⟨h1, rfl⟩ | ⟨t, ht, rfl⟩)
    · exact ⟨[], h1, rfl⟩
    · exact ⟨t, ((hmem t).1 ht).1, rfl⟩
  · rintro ⟨t, ht, rfl⟩
    cases t with
    | nil => left; exact ⟨ht, rfl⟩
    | cons y ys => right; exact ⟨y :: ys, (hmem _).2 ⟨ht, by simp⟩, rfl⟩

/-! ## (e) the recursion -/

theorem mcrGo_eq (rem : Nat) (ws : List W) :
    mcrGo rem ws =
      if (dedupe ws).isEmpty then .eps
      else altL ((groups (sortStr (dedupe ws))).map
        (fun g => groupRe (match rem with | 0 => none | r+1 => some (mcrGo r)) g.1 g.2)) := by
  cases rem <;> rfl

theorem level_good (rec : Option (List W → Re)) (hrec : RecOK rec) (ws : List W) (hne : ws ≠ [])
    (hw : ∀ w ∈ ws, w ≠ []) :
    Good (altL ((groups (sortStr (dedupe ws))).map (fun g => groupRe rec g.1 g.2))) ws := by
  have hL : ∀ x, x ∈ sortStr (dedupe ws) ↔ x ∈ ws := by
    intro x; simp only [sortStr, mem_sortBy, mem_dedupe]
  generalize sortStr (dedupe ws) = L at hL
  have hspec : ∀ g ∈ groups L, Simple (groupRe rec g.1 g.2) ∧
      ∀ u, Lang (groupRe rec g.1 g.2) u ↔ ∃ t ∈ g.2, u = g.1 :: t :=
    fun g hg => groupRe_spec rec hrec g.1 g.2 (groups_snd_ne_nil L g hg)
  have hgne : (groups L).map (fun g => groupRe rec g.1 g.2) ≠ [] := by
    obtain ⟨x, hx⟩ := List.exists_mem_of_ne_nil _ hne
    cases x with
    | nil => exact absurd rfl (hw _ hx)
    | cons y ys =>
      obtain ⟨g, hg, _⟩ := (mem_groups L y ys).2 ((hL _).2 hx)
      exact mem_ne_nil_of_mem (List.mem_map.2 ⟨g, hg, rfl⟩)
  refine ⟨?_, fun u => ?_⟩
  · apply Simple_altL
    intro r hr
    obtain ⟨g, hg, rfl⟩ := List.mem_map.1 hr
    exact (hspec g hg).1
  · rw [Lang_altL _ hgne]
    constructor
    · rintro ⟨r, hr, hl⟩
      obtain ⟨g, hg, rfl⟩ := List.mem_map.1 hr
      obtain ⟨t, ht, rfl⟩ := ((hspec g hg).2 u).1 hl
      exact (hL _).1 ((mem_groups L g.1 t).1 ⟨g, hg, rfl, ht⟩)
    · intro hu
      cases u with
      | nil => exact absurd rfl (hw _ hu)
      | cons y ys =>
        obtain ⟨g, hg, h1, h2⟩ := (mem_groups L y ys).2 ((hL _).2 hu)
        refine ⟨_, List.mem_map.2 ⟨g, hg, rfl⟩, ((hspec g hg).2 _).2 ⟨ys, h2, by rw [h1]⟩⟩

theorem dedupe_isEmpty (ws : List W) (hne : ws ≠ []) : (dedupe ws).isEmpty = false := by
  cases ws with
  | nil => exact absurd rfl hne
  | cons w ws => simp [dedupe]

theorem mcrGo_good (rem : Nat) : ∀ (ws : List W), ws ≠ [] → (∀ w ∈ ws, w ≠ []) →
    Good (mcrGo rem ws) ws := by
  induction rem with
  | zero =>
    intro ws hne hw
    rw [mcrGo_eq, dedupe_isEmpty ws hne]
    exact level_good none trivial ws hne hw
  | succ r ih =>
    intro ws hne hw
    rw [mcrGo_eq, dedupe_isEmpty ws hne]
    exact level_good (some (mcrGo r)) ih ws hne hw

/-! ## main theorem -/

theorem makeCompressedRe_good (words : List W) (maxLevel : Nat) (r : Re)
    (h : makeCompressedRe words maxLevel = some r) : Good r words := by
  unfold makeCompressedRe at h
  split at h
  · simp at h
  · rename_i hc
    simp only [Bool.or_eq_true, not_or, Bool.not_eq_true] at hc
    have hne : words ≠ [] := by
      intro h'; subst h'; simp at hc
    have hw : ∀ w ∈ words, w ≠ [] := by
      intro w hw h'; subst h'
      have h1 : words.contains [] = true := List.contains_iff_mem.2 hw
      rw [hc.2] at h1
      exact Bool.noConfusion h1
    simp only [] at h
    split at h
    · split at h
      · -- flat alternation
        simp only [Option.some.injEq] at h
        subst h
        have hm : ∀ x, x ∈ sortEscLenDesc (dedupe words) ↔ x ∈ words := by
          intro x; simp only [sortEscLenDesc, mem_sortBy, mem_dedupe]
        obtain ⟨x, hx⟩ := List.exists_mem_of_ne_nil _ hne
        have hmem : litRe x ∈ (sortEscLenDesc (dedupe words)).map litRe :=
          List.mem_map.2 ⟨x, (hm x).2 hx, rfl⟩
        refine ⟨?_, fun u => ?_⟩
        · apply Simple_altL
          intro r hr
          obtain ⟨y, _, rfl⟩ := List.mem_map.1 hr
          exact Simple_litRe y
        · rw [Lang_altL _ (mem_ne_nil_of_mem hmem)]
          constructor
          · rintro ⟨r, hr, hl⟩
            obtain ⟨y, hy, rfl⟩ := List.mem_map.1 hr
            rw [(Lang_litRe y u).1 hl]
            exact (hm y).1 hy
          · intro hu
            exact ⟨litRe u, List.mem_map.2 ⟨u, (hm u).2 hu, rfl⟩, (Lang_litRe u u).2 rfl⟩
      · -- class of single characters
        rename_i hany
        simp only [Option.some.injEq] at h
        subst h
        have h1 : ∀ w ∈ words, [w.headD ' '] = w := by
          intro w hww
          have hnw := hw w hww
          cases w with
          | nil => exact absurd rfl hnw
          | cons x xs =>
            cases xs with
            | nil => rfl
            | cons y ys =>
              exfalso; apply hany
              rw [List.any_eq_true]
              exact ⟨x :: y :: ys, (mem_dedupe _ _).2 hww, by simp⟩
        refine ⟨Simple_clsOfSingles _, fun u => ?_⟩
        rw [Lang_clsOfSingles]
        constructor
        · rintro ⟨w, hww, rfl⟩
          have := (mem_dedupe _ _).1 hww
          rw [h1 w this]; exact this
        · intro hu; exact ⟨u, (mem_dedupe _ _).2 hu, (h1 u hu).symm⟩
    · simp only [Option.some.injEq] at h
      subst h
      exact mcrGo_good _ words hne hw

/-- the regex generated by `make_compressed_re` fully matches exactly the given words -/
theorem compressed_re_language (words : List W) (maxLevel : Nat) (r : Re)
    (h : makeCompressedRe words maxLevel = some r) (w : W) :
    fullMatch false r w = true ↔ w ∈ words := by
  have hg := makeCompressedRe_good words maxLevel r h
  rw [fullMatch_iff_Lang r hg.1 w]
  exact hg.2 w

end PP.CompressedRe
