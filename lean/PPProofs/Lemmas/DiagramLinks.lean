import PPProofs.Lemmas.DiagramConv
import PPProofs.Lemmas.DiagramOut
/-! Helper lemmas for C20 (links_resolve): the invariant "every NonTerminal in the heap carries the
    custom name of an element that is extracted already or is marked for extraction (pending)", and
    the frame property "a call of `_to_diagram_element` leaves no new pending element behind". -/
namespace PP.Diagram

/-- the element is marked for extraction and still in the lookup table -/
def Pend (s : St) (u : Nat) : Prop := ∃ st, aget s.lookup u = some st ∧ st.extract = true

/-- the element has a diagram, or will get one when its conversion completes -/
def Tgt (s : St) (u : Nat) : Prop := (∃ d, aget s.diagrams u = some d) ∨ Pend s u

structure LInv (g : Grammar) (s : St) : Prop where
  lk : ∀ u st, aget s.lookup u = some st →
    (st.name.isSome → st.extract = true) ∧
    (st.extract = true → st.name = customOf g u ∧ truthy (customOf g u) = true)
  dg : ∀ u d, aget s.diagrams u = some d → d.name = customOf g u ∧ truthy (customOf g u) = true
  nt : ∀ nd ∈ s.heap, nd.func = .nonTerminal → ∃ u, customOf g u = some nd.text ∧ Tgt s u

/-- the relation carried through the recursion -/
def Step (g : Grammar) (s s' : St) : Prop :=
  LInv g s → LInv g s' ∧ (∀ u, Pend s' u → Pend s u) ∧ (∀ u, Tgt s u → Tgt s' u)

theorem Step.refl (g : Grammar) (s : St) : Step g s s := fun h => ⟨h, fun _ h => h, fun _ h => h⟩

theorem Step.trans {g : Grammar} {a b c : St} (h1 : Step g a b) (h2 : Step g b c) : Step g a c := by
  intro ha
  obtain ⟨hb, p1, t1⟩ := h1 ha
  obtain ⟨hc, p2, t2⟩ := h2 hb
  exact ⟨hc, fun u h => p1 u (p2 u h), fun u h => t2 u (t1 u h)⟩

/-! ### heap-only operations -/

theorem mem_modify_kw (heap : List PNode) (r : Nat) (kw : Kw) (nd : PNode)
    (h : nd ∈ heap.modify r (fun n => { n with kw := kw })) :
    ∃ n0 ∈ heap, nd.func = n0.func ∧ nd.text = n0.text := by
  obtain ⟨j, hj, rfl⟩ := List.mem_iff_getElem.mp h
  rw [List.getElem_modify]
  have hj' : j < heap.length := by simpa using hj
  refine ⟨heap[j], List.getElem_mem hj', ?_⟩
  split <;> simp

theorem LInv_heap {g : Grammar} {s s' : St} (hl : s'.lookup = s.lookup) (hd : s'.diagrams = s.diagrams)
    (hh : ∀ nd ∈ s'.heap, nd.func = .nonTerminal →
      (∃ n0 ∈ s.heap, nd.func = n0.func ∧ nd.text = n0.text) ∨ ∃ u, customOf g u = some nd.text ∧ Tgt s u)
    (h : LInv g s) : LInv g s' := by
  have tg : ∀ u, Tgt s u → Tgt s' u := by
    intro u hu
    unfold Tgt Pend at *
    rw [hl, hd]; exact hu
  refine ⟨by rw [hl]; exact h.lk, by rw [hd]; exact h.dg, ?_⟩
  intro nd hnd hf
  rcases hh nd hnd hf with ⟨n0, hn0, e1, e2⟩ | ⟨u, hu, ht⟩
  · obtain ⟨u, hu, ht⟩ := h.nt n0 hn0 (e1 ▸ hf)
    exact ⟨u, e2 ▸ hu, tg u ht⟩
  · exact ⟨u, hu, tg u ht⟩

theorem Step_heap {g : Grammar} {s s' : St} (hl : s'.lookup = s.lookup) (hd : s'.diagrams = s.diagrams)
    (hh : ∀ nd ∈ s'.heap, nd.func = .nonTerminal →
      (∃ n0 ∈ s.heap, nd.func = n0.func ∧ nd.text = n0.text) ∨ ∃ u, customOf g u = some nd.text ∧ Tgt s u) :
    Step g s s' := by
  intro h
  refine ⟨LInv_heap hl hd hh h, ?_, ?_⟩
  · intro u hu; unfold Pend at *; rw [hl] at hu; exact hu
  · intro u hu; unfold Tgt Pend at *; rw [hl, hd]; exact hu

theorem Step_setKw (g : Grammar) (s : St) (r : Nat) (kw : Kw) : Step g s (s.setKw r kw) :=
  Step_heap rfl rfl (fun nd hnd _ => Or.inl (mem_modify_kw _ _ _ _ hnd))

theorem Step_putChild (g : Grammar) (s : St) (p i : Nat) (v : Slot) : Step g s (s.putChild p i v) := by
  unfold St.putChild
  split
  · exact Step_setKw _ _ _ _
  · exact Step_setKw _ _ _ _
  · exact Step.refl _ _

theorem Step_addPlaceholder (g : Grammar) (s : St) (r i : Nat) : Step g s (addPlaceholder s r i) := by
  unfold addPlaceholder
  split
  · exact Step_setKw _ _ _ _
  · exact Step.refl _ _

/-- allocating a partial that is not a NonTerminal, or a NonTerminal whose text is the custom name of
    a target -/
theorem Step_alloc (g : Grammar) (s : St) (pn : PNode)
    (h : pn.func = .nonTerminal → ∃ u, customOf g u = some pn.text ∧ Tgt s u) :
    Step g s (s.alloc pn).2 := by
  refine Step_heap rfl rfl ?_
  intro nd hnd hf
  simp only [St.alloc, List.mem_append, List.mem_singleton] at hnd
  rcases hnd with hnd | rfl
  · exact Or.inl ⟨nd, hnd, rfl, rfl⟩
  · exact Or.inr (h hf)

/-! ### extract_into_diagram -/

def exNT (s : St) (pos : EState) : St :=
  match pos.parent with
  | some p => (newNT s (pos.name.getD "")).2.putChild p pos.parentIndex (.ref (newNT s (pos.name.getD "")).1)
  | none => s

def exFin (s1 : St) (el : Nat) (pos : EState) (c : Slot) : St :=
  { s1 with
    diagrams := aset s1.diagrams el { name := pos.name, content := c, index := pos.number }
    lookup := adel s1.lookup el }

theorem extract_eq (s : St) (el : Nat) (pos : EState) (h : aget s.lookup el = some pos) :
    ∃ c, extractIntoDiagram s el = exFin (exNT s pos) el pos c := by
  unfold extractIntoDiagram exNT
  simp only [h]
  cases pos.parent <;> exact ⟨_, rfl⟩

theorem extract_none (s : St) (el : Nat) (h : aget s.lookup el = none) : extractIntoDiagram s el = s := by
  unfold extractIntoDiagram
  simp only [h]

theorem exNT_lookup (s : St) (pos : EState) : (exNT s pos).lookup = s.lookup := by
  unfold exNT; split <;> simp

theorem Step_exNT (g : Grammar) (s : St) (el : Nat) (pos : EState) (h : aget s.lookup el = some pos)
    (hx : pos.extract = true) : Step g s (exNT s pos) := by
  intro hl
  unfold exNT
  split
  · refine Step.trans (Step_alloc g s _ ?_) (Step_putChild g _ _ _ _) hl
    intro _
    have := ((hl.lk el pos h).2 hx)
    refine ⟨el, ?_, Or.inr ⟨pos, h, hx⟩⟩
    show customOf g el = some (pos.name.getD "")
    rw [← this.1]
    cases hn : pos.name with
    | none => rw [this.1] at hn; rw [hn] at this; simp [truthy] at this
    | some x => rfl
  · exact Step.refl g s hl

theorem exFin_spec (g : Grammar) (s1 : St) (el : Nat) (pos : EState) (c : Slot)
    (h : aget s1.lookup el = some pos) (hx : pos.extract = true) (hl : LInv g s1) :
    LInv g (exFin s1 el pos c) ∧ (∀ u, Pend (exFin s1 el pos c) u → Pend s1 u ∧ u ≠ el) ∧
      (∀ u, Tgt s1 u → Tgt (exFin s1 el pos c) u) := by
  have tg : ∀ u, Tgt s1 u → Tgt (exFin s1 el pos c) u := by
    intro u hu
    by_cases hu' : u = el
    · subst hu'; exact Or.inl ⟨_, aget_aset_same _ _ _⟩
    · unfold Tgt Pend exFin
      simp only [aget_aset_ne _ _ _ _ hu', aget_adel_ne _ _ _ hu']
      exact hu
  refine ⟨⟨?_, ?_, ?_⟩, ?_, tg⟩
  · intro u st hu
    by_cases hu' : u = el
    · subst hu'; simp [exFin, aget_adel_same] at hu
    · simp only [exFin, aget_adel_ne _ _ _ hu'] at hu
      exact hl.lk u st hu
  · intro u d hu
    by_cases hu' : u = el
    · subst hu'
      simp only [exFin, aget_aset_same, Option.some.injEq] at hu
      subst hu
      exact (hl.lk u pos h).2 hx
    · simp only [exFin, aget_aset_ne _ _ _ _ hu'] at hu
      exact hl.dg u d hu
  · intro nd hnd hf
    obtain ⟨u, hu, ht⟩ := hl.nt nd hnd hf
    exact ⟨u, hu, tg u ht⟩
  · intro u ⟨st, hst, he⟩
    by_cases hu' : u = el
    · subst hu'; simp [exFin, aget_adel_same] at hst
    · simp only [exFin, aget_adel_ne _ _ _ hu'] at hst
      exact ⟨⟨st, hst, he⟩, hu'⟩

/-- `extract_into_diagram` of an element that is marked (or absent) -/
theorem extract_spec (g : Grammar) (s : St) (el : Nat)
    (hx : ∀ pos, aget s.lookup el = some pos → pos.extract = true) (hl : LInv g s) :
    LInv g (extractIntoDiagram s el) ∧ (∀ u, Pend (extractIntoDiagram s el) u → Pend s u ∧ u ≠ el) ∧
      (∀ u, Tgt s u → Tgt (extractIntoDiagram s el) u) := by
  cases h : aget s.lookup el with
  | none =>
    rw [extract_none s el h]
    refine ⟨hl, ?_, fun _ h => h⟩
    intro u hu
    refine ⟨hu, ?_⟩
    rintro rfl
    obtain ⟨st, hst, _⟩ := hu
    rw [h] at hst; exact absurd hst (by simp)
  | some pos =>
    obtain ⟨c, e⟩ := extract_eq s el pos h
    rw [e]
    obtain ⟨h1, p1, t1⟩ := Step_exNT g s el pos h (hx pos h) hl
    have h' : aget (exNT s pos).lookup el = some pos := by rw [exNT_lookup]; exact h
    obtain ⟨h2, p2, t2⟩ := exFin_spec g _ el pos c h' (hx pos h) h1
    exact ⟨h2, fun u hu => ⟨p1 u (p2 u hu).1, (p2 u hu).2⟩, fun u hu => t2 u (t1 u hu)⟩

theorem extract_diagrams_same (s : St) (el : Nat) (pos : EState) (h : aget s.lookup el = some pos) :
    ∃ d, aget (extractIntoDiagram s el).diagrams el = some d ∧ d.name = pos.name := by
  obtain ⟨c, e⟩ := extract_eq s el pos h
  rw [e]
  exact ⟨_, aget_aset_same _ _ _, rfl⟩

/-! ### writing an ElementState into the lookup table -/

def setL (s : St) (idx : Nat) (el : Nat) (st' : EState) : St :=
  { s with index := idx, lookup := aset s.lookup el st' }

theorem setL_spec (g : Grammar) (s : St) (idx el : Nat) (st' : EState) (hl : LInv g s)
    (h1 : st'.name.isSome → st'.extract = true)
    (h2 : st'.extract = true → st'.name = customOf g el ∧ truthy (customOf g el) = true)
    (h3 : Pend s el → st'.extract = true) :
    LInv g (setL s idx el st') ∧
      (∀ u, Pend (setL s idx el st') u → Pend s u ∨ (u = el ∧ st'.extract = true)) ∧
      (∀ u, Tgt s u → Tgt (setL s idx el st') u) := by
  have tg : ∀ u, Tgt s u → Tgt (setL s idx el st') u := by
    intro u hu
    by_cases hu' : u = el
    · subst hu'
      rcases hu with hu | hu
      · exact Or.inl hu
      · exact Or.inr ⟨st', aget_aset_same _ _ _, h3 hu⟩
    · unfold Tgt Pend setL
      simp only [aget_aset_ne _ _ _ _ hu']
      exact hu
  refine ⟨⟨?_, hl.dg, ?_⟩, ?_, tg⟩
  · intro u st hu
    by_cases hu' : u = el
    · subst hu'
      simp only [setL, aget_aset_same, Option.some.injEq] at hu
      subst hu
      exact ⟨h1, h2⟩
    · simp only [setL, aget_aset_ne _ _ _ _ hu'] at hu
      exact hl.lk u st hu
  · intro nd hnd hf
    obtain ⟨u, hu, ht⟩ := hl.nt nd hnd hf
    exact ⟨u, hu, tg u ht⟩
  · intro u ⟨st, hst, he⟩
    by_cases hu' : u = el
    · subst hu'
      simp only [setL, aget_aset_same, Option.some.injEq] at hst
      subst hst
      exact Or.inr ⟨rfl, he⟩
    · simp only [setL, aget_aset_ne _ _ _ _ hu'] at hst
      exact Or.inl ⟨st, hst, he⟩

theorem aset_aset {α} (l : List (Nat × α)) (k : Nat) (v w : α) : aset (aset l k v) k w = aset l k w := by
  induction l with
  | nil => simp [aset]
  | cons p rest ih =>
    obtain ⟨k', v'⟩ := p
    unfold aset
    by_cases h : k' = k
    · simp [h, aset]
    · simp only [h, if_false]
      rw [aset]
      simp [h, ih]

/-- the name chosen by `mark_for_extraction` -/
def markName (g : Grammar) (st : EState) (el : Nat) (name : Option String) : Option String :=
  if truthy st.name then st.name
  else if truthy name then name
  else if truthy ((g[el]?).bind (·.custom)) then (g[el]?).bind (·.custom)
  else some ""

theorem mark_eq (g : Grammar) (s : St) (el : Nat) (name : Option String) (f : Bool) (st : EState)
    (h : aget s.lookup el = some st) :
    markForExtraction g s el name f =
      if f || (st.complete && worth g el) then
        extractIntoDiagram (setL s s.index el { st with extract := true, name := markName g st el name }) el
      else setL s s.index el { st with extract := true, name := markName g st el name } := by
  unfold markForExtraction
  simp only [h]
  rfl

theorem truthy_isSome {a : Option String} (h : truthy a = true) : a.isSome := by
  cases a with
  | none => simp [truthy] at h
  | some x => rfl

/-- `mark_for_extraction` (not forced) of an element that is named already, or with its custom name -/
theorem mark_spec (g : Grammar) (s : St) (el : Nat) (name : Option String) (hl : LInv g s)
    (hn : ∀ st, aget s.lookup el = some st →
      st.name.isSome ∨ (name = customOf g el ∧ truthy name = true)) :
    LInv g (markForExtraction g s el name false) ∧
      (∀ u, Pend (markForExtraction g s el name false) u → Pend s u ∨ u = el) ∧
      (∀ u, Tgt s u → Tgt (markForExtraction g s el name false) u) ∧
      ((∃ st, aget s.lookup el = some st ∧ st.name.isSome) →
        ∀ u, Pend (markForExtraction g s el name false) u → Pend s u) := by
  cases h : aget s.lookup el with
  | none =>
    have e : markForExtraction g s el name false = s := by
      unfold markForExtraction; simp only [h]
    rw [e]
    exact ⟨hl, fun u hu => Or.inl hu, fun _ hu => hu, fun _ _ hu => hu⟩
  | some st =>
    have hnm : markName g st el name = customOf g el ∧ truthy (customOf g el) = true := by
      unfold markName
      by_cases ht : truthy st.name = true
      · have := (hl.lk el st h).2 ((hl.lk el st h).1 (truthy_isSome ht))
        simp only [ht, if_true]; exact this
      · rcases hn st h with hs | ⟨hs1, hs2⟩
        · have := (hl.lk el st h).2 ((hl.lk el st h).1 hs)
          rw [this.1] at ht; exact absurd this.2 ht
        · simp only [ht, hs2, if_true]
          exact ⟨hs1, hs1 ▸ hs2⟩
    obtain ⟨a1, a2, a3⟩ := setL_spec g s s.index el { st with extract := true, name := markName g st el name } hl
      (fun _ => rfl) (fun _ => hnm) (fun _ => rfl)
    rw [mark_eq g s el name false st h]
    split
    · obtain ⟨b1, b2, b3⟩ := extract_spec g _ el
        (fun pos hp => by
          simp only [setL, aget_aset_same, Option.some.injEq] at hp
          subst hp; rfl) a1
      refine ⟨b1, ?_, fun u hu => b3 u (a3 u hu), ?_⟩
      · intro u hu
        rcases a2 u (b2 u hu).1 with hh | hh
        · exact Or.inl hh
        · exact Or.inr hh.1
      · intro _ u hu
        rcases a2 u (b2 u hu).1 with hh | hh
        · exact hh
        · exact absurd hh.1 (b2 u hu).2
    · refine ⟨a1, ?_, a3, ?_⟩
      · intro u hu
        rcases a2 u hu with hh | hh
        · exact Or.inl hh
        · exact Or.inr hh.1
      · rintro ⟨st0, hst0, hs0⟩ u hu
        rcases a2 u hu with hh | hh
        · exact hh
        · rw [hh.1]
          simp only [Option.some.injEq] at hst0
          subst hst0
          exact ⟨st, h, (hl.lk el st h).1 hs0⟩

/-! ### register / pre / post / annotate -/

def ntFree : Option PNode → Bool
  | none => true
  | some p => p.func != .nonTerminal

theorem dispatch_ntFree (g : Grammar) (o : Opts) (n : Node) (name : String) :
    ntFree (dispatch g o n name) = true := by
  unfold dispatch
  simp only [apply_ite ntFree]
  simp [ntFree]

theorem dispatch_not_nt (g : Grammar) (o : Opts) (n : Node) (name : String) (pn : PNode)
    (h : dispatch g o n name = some pn) : pn.func ≠ .nonTerminal := by
  have := dispatch_ntFree g o n name
  rw [h] at this
  simpa [ntFree] using this

theorem customOf_eq {g : Grammar} {el : Nat} {n : Node} (hg : g[el]? = some n) : customOf g el = n.custom := by
  unfold customOf; rw [hg]; rfl

theorem setL_setL (s : St) (i j el : Nat) (a b : EState) : setL (setL s i el a) j el b = setL s j el b := by
  unfold setL
  simp only [aset_aset]

theorem Pend_not_of_untruthy {g : Grammar} {s : St} {el : Nat} (hl : LInv g s)
    (h : truthy (customOf g el) = false) : ¬ Pend s el := by
  rintro ⟨st, hst, he⟩
  have := ((hl.lk el st hst).2 he).2
  rw [h] at this; exact absurd this (by simp)

theorem register_spec (g : Grammar) (s : St) (el : Nat) (n : Node) (parent : Option Nat) (index : Nat)
    (pn : PNode) (hg : g[el]? = some n) (hpn : pn.func ≠ .nonTerminal) (hl : LInv g s) :
    LInv g (register g s el n parent index pn).2 ∧
      (∀ u, Pend (register g s el n parent index pn).2 u → Pend s u ∨ u = el) ∧
      (∀ u, Tgt s u → Tgt (register g s el n parent index pn).2 u) := by
  obtain ⟨a1, a2, a3⟩ := Step_alloc g s pn (fun h => absurd h hpn) hl
  let es : EState := { converted := s.heap.length, parent := parent, parentIndex := index, number := s.index + 1 }
  have hc := customOf_eq hg
  by_cases ht : truthy n.custom = true
  · have e : (register g s el n parent index pn).2 =
        setL (s.alloc pn).2 (s.index + 1) el { es with extract := true, name := n.custom } := by
      have e0 : (register g s el n parent index pn).2 =
          markForExtraction g (setL (s.alloc pn).2 (s.index + 1) el es) el n.custom false := by
        unfold register
        simp only [ht, if_true]
        rfl
      rw [e0, mark_eq g _ el n.custom false es (by simp only [setL]; exact aget_aset_same _ _ _)]
      have : markName g es el n.custom = n.custom := by
        unfold markName
        have : truthy es.name = false := rfl
        simp only [this, ht, if_true]
        rfl
      rw [this]
      simp only [Bool.false_or, show es.complete = false from rfl, Bool.false_and]
      exact setL_setL _ _ _ _ _ _
    rw [e]
    obtain ⟨b1, b2, b3⟩ := setL_spec g (s.alloc pn).2 (s.index + 1) el
      { es with extract := true, name := n.custom } a1 (fun _ => rfl)
      (fun _ => ⟨hc.symm, by rw [hc]; exact ht⟩) (fun _ => rfl)
    refine ⟨b1, ?_, fun u hu => b3 u (a3 u hu)⟩
    intro u hu
    rcases b2 u hu with hh | hh
    · exact Or.inl (a2 u hh)
    · exact Or.inr hh.1
  · have e : (register g s el n parent index pn).2 = setL (s.alloc pn).2 (s.index + 1) el es := by
      unfold register
      simp only [ht]
      rfl
    rw [e]
    have hnt : truthy (customOf g el) = false := by rw [hc]; simpa using ht
    obtain ⟨b1, b2, b3⟩ := setL_spec g (s.alloc pn).2 (s.index + 1) el es a1
      (fun h => absurd h (by simp [es])) (fun h => absurd h (by simp [es]))
      (fun h => absurd h (Pend_not_of_untruthy a1 hnt))
    refine ⟨b1, ?_, fun u hu => b3 u (a3 u hu)⟩
    intro u hu
    rcases b2 u hu with hh | hh
    · exact Or.inl (a2 u hh)
    · exact Or.inr hh.1

theorem seenOf_named (g : Grammar) (s : St) (el : Nat) (st : EState) (h : seenOf g s el = .named st) :
    aget s.lookup el = some st ∧ st.name.isSome := by
  unfold seenOf at h
  split at h
  · split at h
    · split at h
      · rename_i hst hn
        simp only [Seen.named.injEq] at h
        subst h
        exact ⟨hst, hn⟩
      · split at h <;> exact absurd h (by simp)
    · split at h <;> exact absurd h (by simp)
  · exact absurd h (by simp)

theorem seenOf_inDiagram (g : Grammar) (s : St) (el : Nat) (d : DEntry) (h : seenOf g s el = .inDiagram d) :
    aget s.diagrams el = some d := by
  unfold seenOf at h
  split at h
  · split at h
    · split at h
      · exact absurd h (by simp)
      · split at h
        · rename_i hd
          simp only [Seen.inDiagram.injEq] at h
          subst h; exact hd
        · exact absurd h (by simp)
    · split at h
      · rename_i hd
        simp only [Seen.inDiagram.injEq] at h
        subst h; exact hd
      · exact absurd h (by simp)
  · exact absurd h (by simp)

theorem getD_of_eq_custom {a c : Option String} (h : a = c) (ht : truthy c = true) : c = some (a.getD "") := by
  subst h
  cases a with
  | none => simp [truthy] at ht
  | some x => rfl

theorem pre_ret_spec (g : Grammar) (o : Opts) (el : Nat) (n : Node) (p : Option Nat) (i : Nat)
    (h : Option String) (s : St) (r : Option Nat) (s' : St) (hg : g[el]? = some n)
    (hp : pre g o el n p i h s = .ret r s') : Step g s s' := by
  intro hl
  unfold pre at hp
  split at hp
  · exact absurd hp (by simp)
  · split at hp
    · rename_i st hseen
      obtain ⟨hst, hsome⟩ := seenOf_named g s el st hseen
      simp only [newNT, Pre.ret.injEq] at hp
      obtain ⟨_, rfl⟩ := hp
      obtain ⟨m1, _, m3, m4⟩ := mark_spec g s el h hl (fun st' hst' => by
        rw [hst] at hst'; simp only [Option.some.injEq] at hst'; subst hst'; exact Or.inl hsome)
      have hnm := (hl.lk el st hst).2 ((hl.lk el st hst).1 hsome)
      have htr : truthy st.name = true := by rw [hnm.1]; exact hnm.2
      obtain ⟨a1, a2, a3⟩ := Step_alloc g (markForExtraction g s el h false)
        { func := .nonTerminal,
          text := if truthy st.name then st.name.getD "" else
            (if truthy h then h.getD "" else if truthy n.custom then n.custom.getD "" else "") }
        (fun _ => ⟨el, by simp only [htr, if_true]; exact getD_of_eq_custom hnm.1 hnm.2,
          m3 el (Or.inr ⟨st, hst, (hl.lk el st hst).1 hsome⟩)⟩) m1
      exact ⟨a1, fun u hu => m4 ⟨st, hst, hsome⟩ u (a2 u hu), fun u hu => a3 u (m3 u hu)⟩
    · rename_i d hseen
      have hd := seenOf_inDiagram g s el d hseen
      simp only [newNT, Pre.ret.injEq] at hp
      obtain ⟨_, rfl⟩ := hp
      have hnm := hl.dg el d hd
      exact Step_alloc g s { func := .nonTerminal, text := d.name.getD "" }
        (fun _ => ⟨el, getD_of_eq_custom hnm.1 hnm.2, Or.inl ⟨d, hd⟩⟩) hl
    · unfold preFresh at hp
      split at hp
      · simp only [Pre.ret.injEq] at hp
        obtain ⟨_, rfl⟩ := hp
        exact Step.refl g s hl
      · split at hp
        · simp only [Pre.ret.injEq] at hp
          obtain ⟨_, rfl⟩ := hp
          exact Step.refl g s hl
        · exact absurd hp (by simp)

theorem pre_loop_spec (g : Grammar) (o : Opts) (el : Nat) (n : Node) (p : Option Nat) (i : Nat)
    (h : Option String) (s : St) (r : Nat) (s' : St) (hg : g[el]? = some n)
    (hp : pre g o el n p i h s = .loop r s') (hl : LInv g s) :
    LInv g s' ∧ (∀ u, Pend s' u → Pend s u ∨ u = el) ∧ (∀ u, Tgt s u → Tgt s' u) := by
  unfold pre at hp
  split at hp
  · exact absurd hp (by simp)
  · split at hp
    · exact absurd hp (by simp)
    · exact absurd hp (by simp)
    · unfold preFresh at hp
      split at hp
      · exact absurd hp (by simp)
      · split at hp
        · exact absurd hp (by simp)
        · rename_i pn hd
          simp only [Pre.loop.injEq] at hp
          obtain ⟨_, rfl⟩ := hp
          exact register_spec g s el n p i pn hg (dispatch_not_nt g o n _ pn hd) hl

theorem setComplete_spec (g : Grammar) (s : St) (el : Nat) (hl : LInv g s) :
    LInv g (setComplete s el) ∧ (∀ u, Pend (setComplete s el) u → Pend s u) ∧
      (∀ u, Tgt s u → Tgt (setComplete s el) u) ∧
      (∀ st, aget (setComplete s el).lookup el = some st → st.complete = true) := by
  unfold setComplete
  cases h : aget s.lookup el with
  | none =>
    simp only
    exact ⟨hl, fun _ hu => hu, fun _ hu => hu, fun st hst => by rw [h] at hst; exact absurd hst (by simp)⟩
  | some st =>
    simp only
    obtain ⟨a1, a2, a3⟩ := setL_spec g s s.index el { st with complete := true } hl
      (hl.lk el st h).1 (hl.lk el st h).2
      (fun ⟨st0, h0, e0⟩ => by rw [h] at h0; simp only [Option.some.injEq] at h0; subst h0; exact e0)
    refine ⟨a1, ?_, a3, ?_⟩
    · intro u hu
      rcases a2 u hu with hh | hh
      · exact hh
      · rw [hh.1]; exact ⟨st, h, hh.2⟩
    · intro st2 hst2
      have : aget (aset s.lookup el { st with complete := true }) el = some st2 := hst2
      rw [aget_aset_same] at this
      simp only [Option.some.injEq] at this
      subst this; rfl

theorem post_spec (g : Grammar) (el : Nat) (n : Node) (hint : Option String) (ret : Nat) (s : St)
    (hl : LInv g s) :
    LInv g (post el n hint ret s).2 ∧ (∀ u, Pend (post el n hint ret s).2 u → Pend s u ∧ u ≠ el) ∧
      (∀ u, Tgt s u → Tgt (post el n hint ret s).2 u) := by
  have h1 : Step g s (post1 n hint ret s).2 := by
    unfold post1
    split
    · exact Step_alloc g s _ (fun h => absurd h (by simp))
    · exact Step.refl g s
  obtain ⟨a1, a2, a3⟩ := h1 hl
  obtain ⟨b1, b2, b3, b4⟩ := setComplete_spec g (post1 n hint ret s).2 el a1
  unfold post
  simp only
  cases hk : aget (setComplete (post1 n hint ret s).2 el).lookup el with
  | none =>
    simp only
    refine ⟨b1, ?_, fun u hu => b3 u (a3 u hu)⟩
    intro u hu
    refine ⟨a2 u (b2 u hu), ?_⟩
    rintro rfl
    obtain ⟨st, hst, _⟩ := hu
    rw [hk] at hst; exact absurd hst (by simp)
  | some st =>
    simp only
    split
    · rename_i hc
      have hx : st.extract = true := by simp only [Bool.and_eq_true] at hc; exact hc.1
      obtain ⟨c1, c2, c3⟩ := extract_spec g _ el (fun pos hp => by
        rw [hk] at hp; simp only [Option.some.injEq] at hp; subst hp; exact hx) b1
      obtain ⟨d, hd, hdn⟩ := extract_diagrams_same _ el st hk
      simp only [hd, newNT]
      have hnm := c1.dg el d hd
      obtain ⟨e1, e2, e3⟩ := Step_alloc g (extractIntoDiagram (setComplete (post1 n hint ret s).2 el) el)
        { func := .nonTerminal, text := d.name.getD "" }
        (fun _ => ⟨el, getD_of_eq_custom hnm.1 hnm.2, Or.inl ⟨d, hd⟩⟩) c1
      refine ⟨e1, ?_, fun u hu => e3 u (c3 u (b3 u (a3 u hu)))⟩
      intro u hu
      have := c2 u (e2 u hu)
      exact ⟨a2 u (b2 u this.1), this.2⟩
    · rename_i hc
      refine ⟨b1, ?_, fun u hu => b3 u (a3 u hu)⟩
      intro u hu
      refine ⟨a2 u (b2 u hu), ?_⟩
      rintro rfl
      obtain ⟨st', hst', he'⟩ := hu
      rw [hk] at hst'; simp only [Option.some.injEq] at hst'; subst hst'
      exact hc (by simp [he', b4 _ hk])

theorem annotate_spec (g : Grammar) (o : Opts) (n : Node) (r : Option Nat) (s : St) :
    Step g s (annotate o n r s).2 := by
  unfold annotate
  split
  · exact Step.refl g s
  · split
    · exact Step_alloc g s _ (fun h => absurd h (by simp))
    · exact Step.refl g s

/-! ### the recursion -/

theorem stepKid_step (g : Grammar) (rec : Rec) (ret : Nat)
    (hrec : ∀ c p i h s r s', rec c p i h s = some (r, s') → Step g s s') :
    ∀ c i s i' s', stepKid rec ret c i s = some (i', s') → Step g s s' := by
  intro c i s i' s' h
  unfold stepKid at h
  split at h
  · exact absurd h (by simp)
  · rename_i item s2 hr
    have h1 : Step g s s2 := (Step_addPlaceholder g s ret i).trans (hrec _ _ _ _ _ _ _ hr)
    split at h <;> simp only [Option.some.injEq, Prod.mk.injEq] at h <;> obtain ⟨_, rfl⟩ := h
    · exact h1.trans (Step_setKw g _ _ _)
    · exact h1.trans (Step_setKw g _ _ _)
    · exact h1
    · exact h1.trans (Step_setKw g _ _ _)
    · exact h1

theorem loopKids_step (g : Grammar) (rec : Rec) (ret : Nat)
    (hrec : ∀ c p i h s r s', rec c p i h s = some (r, s') → Step g s s') :
    ∀ kids i s s', loopKids rec ret kids i s = some s' → Step g s s' := by
  intro kids
  induction kids with
  | nil => intro i s s' h; simp [loopKids] at h; exact h ▸ Step.refl g s
  | cons c cs ih =>
    intro i s s' h
    unfold loopKids at h
    split at h
    · exact absurd h (by simp)
    · rename_i i' s1 hs
      exact (stepKid_step g rec ret hrec _ _ _ _ _ hs).trans (ih _ _ _ h)

/-- **frame property of `_to_diagram_element`**: a returning call preserves the link invariant,
    leaves no new pending element, and keeps every link target -/
theorem conv_step (g : Grammar) (o : Opts) :
    ∀ fuel el p i h s r s', conv g o fuel el p i h s = some (r, s') → Step g s s' := by
  intro fuel
  induction fuel with
  | zero => intro el p i h s r s' hc; simp [conv] at hc
  | succ f ih =>
    intro el p i h s r s' hc
    unfold conv at hc
    cases hg : g[el]? with
    | none => simp [hg] at hc; exact hc.2 ▸ Step.refl g s
    | some n =>
      simp only [hg] at hc
      cases hb : convBody g o (conv g o f) el n p i h s with
      | none => simp [hb] at hc
      | some rs =>
        obtain ⟨r1, s1⟩ := rs
        simp only [hb, Option.some.injEq] at hc
        have e : (annotate o n r1 s1).2 = s' := by rw [hc]
        refine e ▸ Step.trans ?_ (annotate_spec g o n r1 s1)
        unfold convBody at hb
        cases hp : pre g o el n p i h s with
        | ret r0 s0 =>
          simp only [hp, Option.some.injEq, Prod.mk.injEq] at hb
          exact hb.2 ▸ pre_ret_spec g o el n p i h s r0 s0 hg hp
        | pass c h' =>
          simp only [hp] at hb
          exact ih _ _ _ _ _ _ _ hb
        | loop ret s0 =>
          simp only [hp] at hb
          cases hl : loopKids (conv g o f) ret n.kids 0 s0 with
          | none => simp [hl] at hb
          | some s2 =>
            simp only [hl, Option.some.injEq] at hb
            have e2 : (post el n h ret s2).2 = s1 := by rw [hb]
            rw [← e2]
            intro hinv
            obtain ⟨a1, a2, a3⟩ := pre_loop_spec g o el n p i h s ret s0 hg hp hinv
            obtain ⟨b1, b2, b3⟩ := loopKids_step g (conv g o f) ret
              (fun c p i h s r s' a => ih c p i h s r s' a) _ _ _ _ hl a1
            obtain ⟨c1, c2, c3⟩ := post_spec g el n h ret s2 b1
            refine ⟨c1, ?_, fun u hu => c3 u (b3 u (a3 u hu))⟩
            intro u hu
            obtain ⟨hu1, hne⟩ := c2 u hu
            rcases a2 u (b2 u hu1) with hh | hh
            · exact hh
            · exact absurd hh hne

theorem LInv_init (g : Grammar) : LInv g {} :=
  ⟨fun _ _ h => absurd h (by simp), fun _ _ h => absurd h (by simp), fun _ h => absurd h (by simp)⟩

end PP.Diagram
