import PPProofs.Lemmas.DiagramConv
import PPProofs.Lemmas.DiagramOut
/-! Helper lemmas for C20 (links_resolve): the invariant "every NonTerminal in the heap carries the
    custom name of an element that is extracted already or is marked for extraction (pending)", and
    the frame property "a call of `_to_diagram_element` leaves no new pending element behind". -/
namespace PP.Diagram

/-- the element is marked for extraction and still in the lookup table -/
def Pend (s : St) (u : Nat) : Prop := ∃ st, aget s.lookup u = some st ∧ st.extract = true

/-- the element has a diagram, or will get one when its conversion completes -/
def Tgt (s : St) (u : Nat) : Prop := (∃ d, aget s.diagrams u = some d) ∨ Pend s u

structure LInv (g : Grammar) (s : St) : Prop where
  lk : ∀ u st, aget s.lookup u = some st →
    (st.name.isSome → st.extract = true) ∧
    (st.extract = true → st.name = customOf g u ∧ truthy (customOf g u) = true)
  dg : ∀ u d, aget s.diagrams u = some d → d.name = customOf g u ∧ truthy (customOf g u) = true
  nt : ∀ nd ∈ s.heap, nd.func = .nonTerminal → ∃ u, customOf g u = some nd.text ∧ Tgt s u

/-- the relation carried through the recursion -/
def Step (g : Grammar) (s s' : St) : Prop :=
  LInv g s → LInv g s' ∧ (∀ u, Pend s' u → Pend s u) ∧ (∀ u, Tgt s u → Tgt s' u)

theorem Step.refl (g : Grammar) (s : St) : Step g s s := fun h => ⟨h, fun _ h => h, fun _ h => h⟩

theorem Step.trans {g : Grammar} {a b c : St} (h1 : Step g a b) (h2 : Step g b c) : Step g a c := by
  intro ha
  obtain ⟨hb, p1, t1⟩ := h1 ha
  obtain ⟨hc, p2, t2⟩ := h2 hb
  exact ⟨hc, fun u h => p1 u (p2 u h), fun u h => t2 u (t1 u h)⟩

/-! ### heap-only operations -/

theorem mem_modify_kw (heap : List PNode) (r : Nat) (kw : Kw) (nd : PNode)
    (h : nd ∈ heap.modify r (fun n => { n with kw := kw })) :
    ∃ n0 ∈ heap, nd.func = n0.func ∧ nd.text = n0.text := by
  obtain ⟨j, hj, rfl⟩ := List.mem_iff_getElem.mp h
  rw [List.getElem_modify]
  have hj' : j < heap.length := by simpa using hj
  refine ⟨heap[j], List.getElem_mem hj', ?_⟩
  split <;> simp

theorem LInv_heap {g : Grammar} {s s' : St} (hl : s'.lookup = s.lookup) (hd : s'.diagrams = s.diagrams)
    (hh : ∀ nd ∈ s'.heap, nd.func = .nonTerminal →
      (∃ n0 ∈ s.heap, nd.func = n0.func ∧ nd.text = n0.text) ∨ ∃ u, customOf g u = some nd.text ∧ Tgt s u)
    (h : LInv g s) : LInv g s' := by
  have tg : ∀ u, Tgt s u → Tgt s' u := by
    intro u hu
    unfold Tgt Pend at *
    rw [hl, hd]; exact hu
  refine ⟨by rw [hl]; exact h.lk, by rw [hd]; exact h.dg, ?_⟩
  intro nd hnd hf
  rcases hh nd hnd hf with ⟨n0, hn0, e1, e2⟩ | ⟨u, hu, ht⟩
  · obtain ⟨u, hu, ht⟩ := h.nt n0 hn0 (e1 ▸ hf)
    exact ⟨u, e2 ▸ hu, tg u ht⟩
  · exact ⟨u, hu, tg u ht⟩

theorem Step_heap {g : Grammar} {s s' : St} (hl : s'.lookup = s.lookup) (hd : s'.diagrams = s.diagrams)
    (hh : ∀ nd ∈ s'.heap, nd.func = .nonTerminal →
      (∃ n0 ∈ s.heap, nd.func = n0.func ∧ nd.text = n0.text) ∨ ∃ u, customOf g u = some nd.text ∧ Tgt s u) :
    Step g s s' := by
  intro h
  refine ⟨LInv_heap hl hd hh h, ?_, ?_⟩
  · intro u hu; unfold Pend at *; rw [hl] at hu; exact hu
  · intro u hu; unfold Tgt Pend at *; rw [hl, hd]; exact hu

theorem Step_setKw (g : Grammar) (s : St) (r : Nat) (kw : Kw) : Step g s (s.setKw r kw) :=
  Step_heap rfl rfl (fun nd hnd _ => Or.inl (mem_modify_kw _ _ _ _ hnd))

theorem Step_putChild (g : Grammar) (s : St) (p i : Nat) (v : Slot) : Step g s (s.putChild p i v) := by
  unfold St.putChild
  split
  · exact Step_setKw _ _ _ _
  · exact Step_setKw _ _ _ _
  · exact Step.refl _ _

theorem Step_addPlaceholder (g : Grammar) (s : St) (r i : Nat) : Step g s (addPlaceholder s r i) := by
  unfold addPlaceholder
  split
  · exact Step_setKw _ _ _ _
  · exact Step.refl _ _

/-- allocating a partial that is not a NonTerminal, or a NonTerminal whose text is the custom name of
    a target -/
theorem Step_alloc (g : Grammar) (s : St) (pn : PNode)
    (h : pn.func = .nonTerminal → ∃ u, customOf g u = some pn.text ∧ Tgt s u) :
    Step g s (s.alloc pn).2 := by
  refine Step_heap rfl rfl ?_
  intro nd hnd hf
  simp only [St.alloc, List.mem_append, List.mem_singleton] at hnd
  rcases hnd with hnd | rfl
  · exact Or.inl ⟨nd, hnd, rfl, rfl⟩
  · exact Or.inr (h hf)

/-! ### extract_into_diagram -/

def exNT (s : St) (pos : EState) : St :=
  match pos.parent with
  | some p => (newNT s (pos.name.getD "")).2.putChild p pos.parentIndex (.ref (newNT s (pos.name.getD "")).1)
  | none => s

def exFin (s1 : St) (el : Nat) (pos : EState) (c : Slot) : St :=
  { s1 with
    diagrams := aset s1.diagrams el { name := pos.name, content := c, index := pos.number }
    lookup := adel s1.lookup el }

theorem extract_eq (s : St) (el : Nat) (pos : EState) (h : aget s.lookup el = some pos) :
    ∃ c, extractIntoDiagram s el = exFin (exNT s pos) el pos c := by
  unfold extractIntoDiagram exNT
  simp only [h]
  cases pos.parent <;> exact ⟨_, rfl⟩

theorem extract_none (s : St) (el : Nat) (h : aget s.lookup el = none) : extractIntoDiagram s el = s := by
  unfold extractIntoDiagram
  simp only [h]

theorem exNT_lookup (s : St) (pos : EState) : (exNT s pos).lookup = s.lookup := by
  unfold exNT; split <;> simp

theorem Step_exNT (g : Grammar) (s : St) (el : Nat) (pos : EState) (h : aget s.lookup el = some pos)
    (hx : pos.extract = true) : Step g s (exNT s pos) := by
  intro hl
  unfold exNT
  split
  · refine Step.trans (Step_alloc g s _ ?_) (Step_putChild g _ _ _ _) hl
    intro _
    have := ((hl.lk el pos h).2 hx)
    refine ⟨el, ?_, Or.inr ⟨pos, h, hx⟩⟩
    show customOf g el = some (pos.name.getD "")
    rw [← this.1]
    cases hn : pos.name with
    | none => rw [this.1] at hn; rw [hn] at this; simp [truthy] at this
    | some x => rfl
  · exact Step.refl g s hl

theorem exFin_spec (g : Grammar) (s1 : St) (el : Nat) (pos : EState) (c : Slot)
    (h : aget s1.lookup el = some pos) (hx : pos.extract = true) (hl : LInv g s1) :
    LInv g (exFin s1 el pos c) ∧ (∀ u, Pend (exFin s1 el pos c) u → Pend s1 u ∧ u ≠ el) ∧
      (∀ u, Tgt s1 u → Tgt (exFin s1 el pos c) u) := by
  have tg : ∀ u, Tgt s1 u → Tgt (exFin s1 el pos c) u := by
    intro u hu
    by_cases hu' : u = el
    · subst hu'; exact Or.inl ⟨_, aget_aset_same _ _ _⟩
    · unfold Tgt Pend exFin
      simp only [aget_aset_ne _ _ _ _ hu', aget_adel_ne _ _ _ hu']
      exact hu
  refine ⟨⟨?_, ?_, ?_⟩, ?_, tg⟩
  · intro u st hu
    by_cases hu' : u = el
    · subst hu'; simp [exFin, aget_adel_same] at hu
    · simp only [exFin, aget_adel_ne _ _ _ hu'] at hu
      exact hl.lk u st hu
  · intro u d hu
    by_cases hu' : u = el
    · subst hu'
      simp only [exFin, aget_aset_same, Option.some.injEq] at hu
      subst hu
      exact (hl.lk u pos h).2 hx
    · simp only [exFin, aget_aset_ne _ _ _ _ hu'] at hu
      exact hl.dg u d hu
  · intro nd hnd hf
    obtain ⟨u, hu, ht⟩ := hl.nt nd hnd hf
    exact ⟨u, hu, tg u ht⟩
  · intro u ⟨st, hst, he⟩
    by_cases hu' : u = el
    · subst hu'; simp [exFin, aget_adel_same] at hst
    · simp only [exFin, aget_adel_ne _ _ _ hu'] at hst
      exact ⟨⟨st, hst, he⟩, hu'⟩

/-- `extract_into_diagram` of an element that is marked (or absent) -/
theorem extract_spec (g : Grammar) (s : St) (el : Nat)
    (hx : ∀ pos, aget s.lookup el = some pos → pos.extract = true) (hl : LInv g s) :
    LInv g (extractIntoDiagram s el) ∧ (∀ u, Pend (extractIntoDiagram s el) u → Pend s u ∧ u ≠ el) ∧
      (∀ u, Tgt s u → Tgt (extractIntoDiagram s el) u) := by
  cases h : aget s.lookup el with
  | none =>
    rw [extract_none s el h]
    refine ⟨hl, ?_, fun _ h => h⟩
    intro u hu
    refine ⟨hu, ?_⟩
    rintro rfl
    obtain ⟨st, hst, _⟩ := hu
    rw [h] at hst; exact absurd hst (by simp)
  | some pos =>
    obtain ⟨c, e⟩ := extract_eq s el pos h
    rw [e]
    obtain ⟨h1, p1, t1⟩ := Step_exNT g s el pos h (hx pos h) hl
    have h' : aget (exNT s pos).lookup el = some pos := by rw [exNT_lookup]; exact h
    obtain ⟨h2, p2, t2⟩ := exFin_spec g _ el pos c h' (hx pos h) h1
    exact ⟨h2, fun u hu => ⟨p1 u (p2 u hu).1, (p2 u hu).2⟩, fun u hu => t2 u (t1 u hu)⟩

theorem extract_diagrams_same (s : St) (el : Nat) (pos : EState) (h : aget s.lookup el = some pos) :
    ∃ d, aget (extractIntoDiagram s el).diagrams el = some d ∧ d.name = pos.name := by
  obtain ⟨c, e⟩ := extract_eq s el pos h
  rw [e]
  exact ⟨_, aget_aset_same _ _ _, rfl⟩

/-! ### writing an ElementState into the lookup table -/

def setL (s : St) (idx : Nat) (el : Nat) (st' : EState) : St :=
  { s with index := idx, lookup := aset s.lookup el st' }

theorem setL_spec (g : Grammar) (s : St) (idx el : Nat) (st' : EState) (hl : LInv g s)
    (h1 : st'.name.isSome → st'.extract = true)
    (h2 : st'.extract = true → st'.name = customOf g el ∧ truthy (customOf g el) = true)
    (h3 : Pend s el → st'.extract = true) :
    LInv g (setL s idx el st') ∧
      (∀ u, Pend (setL s idx el st') u → Pend s u ∨ (u = el ∧ st'.extract = true)) ∧
      (∀ u, Tgt s u → Tgt (setL s idx el st') u) := by
  have tg : ∀ u, Tgt s u → Tgt (setL s idx el st') u := by
    intro u hu
    by_cases hu' : u = el
    · subst hu'
      rcases hu with hu | hu
      · exact Or.inl hu
      · exact Or.inr ⟨st', aget_aset_same _ _ _, h3 hu⟩
    · unfold Tgt Pend setL
      simp only [aget_aset_ne _ _ _ _ hu']
      exact hu
  refine ⟨⟨?_, hl.dg, ?_⟩, ?_, tg⟩
  · intro u st hu
    by_cases hu' : u = el
    · subst hu'
      simp only [setL, aget_aset_same, Option.some.injEq] at hu
      subst hu
      exact ⟨h1, h2⟩
    · simp only [setL, aget_aset_ne _ _ _ _ hu'] at hu
      exact hl.lk u st hu
  · intro nd hnd hf
    obtain ⟨u, hu, ht⟩ := hl.nt nd hnd hf
    exact ⟨u, hu, tg u ht⟩
  · intro u ⟨st, hst, he⟩
    by_cases hu' : u = el
    · subst hu'
      simp only [setL, aget_aset_same, Option.some.injEq] at hst
      subst hst
      exact Or.inr ⟨rfl, he⟩
    · simp only [setL, aget_aset_ne _ _ _ _ hu'] at hst
      exact Or.inl ⟨st, hst, he⟩

theorem aset_aset {α} (l : List (Nat × α)) (k : Nat) (v w : α) : aset (aset l k v) k w = aset l k w := by
  induction l with
  | nil => simp [aset]
  | cons p rest ih =>
    obtain ⟨k', v'⟩ := p
    unfold aset
    by_cases h : k' = k
    · simp [h, aset]
    · simp only [h, if_false]
      rw [aset]
      simp [h, ih]

/-- the name chosen by `mark_for_extraction` -/
def markName (g : Grammar) (st : EState) (el : Nat) (name : Option String) : Option String :=
  if truthy st.name then st.name
  else if truthy name then name
  else if truthy ((g[el]?).bind (·.custom)) then (g[el]?).bind (·.custom)
  else some ""

theorem mark_eq (g : Grammar) (s : St) (el : Nat) (name : Option String) (f : Bool) (st : EState)
    (h : aget s.lookup el = some st) :
    markForExtraction g s el name f =
      if f || (st.complete && worth g el) then
        extractIntoDiagram (setL s s.index el { st with extract := true, name := markName g st el name }) el
      else setL s s.index el { st with extract := true, name := markName g st el name } := by
  unfold markForExtraction
  simp only [h]
  rfl

theorem truthy_isSome {a : Option String} (h : truthy a = true) : a.isSome := by
  cases a with
  | none => simp [truthy] at h
  | some x => rfl

/-- `mark_for_extraction` (not forced) of an element that is named already, or with its custom name -/
theorem mark_spec (g : Grammar) (s : St) (el : Nat) (name : Option String) (hl : LInv g s)
    (hn : ∀ st, aget s.lookup el = some st →
      st.name.isSome ∨ (name = customOf g el ∧ truthy name = true)) :
    LInv g (markForExtraction g s el name false) ∧
      (∀ u, Pend (markForExtraction g s el name false) u → Pend s u ∨ u = el) ∧
      (∀ u, Tgt s u → Tgt (markForExtraction g s el name false) u) ∧
      ((∃ st, aget s.lookup el = some st ∧ st.name.isSome) →
        ∀ u, Pend (markForExtraction g s el name false) u → Pend s u) := by
  cases h : aget s.lookup el with
  | none =>
    have e : markForExtraction g s el name false = s := by
      unfold markForExtraction; simp only [h]
    rw [e]
    exact ⟨hl, fun u hu => Or.inl hu, fun _ hu => hu, fun _ _ hu => hu⟩
  | some st =>
    have hnm : markName g st el name = customOf g el ∧ truthy (customOf g el) = true := by
      unfold markName
      by_cases ht : truthy st.name = true
      · have := (hl.lk el st h).2 ((hl.lk el st h).1 (truthy_isSome ht))
        simp only [ht, if_true]; exact this
      · rcases hn st h with hs | ⟨hs1, hs2⟩
        · have := (hl.lk el st h).2 ((hl.lk el st h).1 hs)
          rw [this.1] at ht; exact absurd this.2 ht
        · simp only [ht, hs2, if_true]
          exact ⟨hs1, hs1 ▸ hs2⟩
    obtain ⟨a1, a2, a3⟩ := setL_spec g s s.index el { st with extract := true, name := markName g st el name } hl
      (fun _ => rfl) (fun _ => hnm) (fun _ => rfl)
    rw [mark_eq g s el name false st h]
    split
    · obtain ⟨b1, b2, b3⟩ := extract_spec g _ el
        (fun pos hp => by
          simp only [setL, aget_aset_same, Option.some.injEq] at hp
          subst hp; rfl) a1
      refine ⟨b1, ?_, fun u hu => b3 u (a3 u hu), ?_⟩
      · intro u hu
        rcases a2 u (b2 u hu).1 with hh | hh
        · exact Or.inl hh
        · exact Or.inr hh.1
      · intro _ u hu
        rcases a2 u (b2 u hu).1 with hh | hh
        · exact hh
        · exact absurd hh.1 (b2 u hu).2
    · refine ⟨a1, ?_, a3, ?_⟩
      · intro u hu
        rcases a2 u hu with hh | hh
        · exact Or.inl hh
        · exact Or.inr hh.1
      · rintro ⟨st0, hst0, hs0⟩ u hu
        rcases a2 u hu with hh | hh
        · exact hh
        · rw [hh.1]
          simp only [Option.some.injEq] at hst0
          subst hst0
          exact ⟨st, h, (hl.lk el st h).1 hs0⟩

/-! ### register / pre / post / annotate -/

def ntFree : Option PNode → Bool
  | none => true
  | some p => p.func != .nonTerminal

theorem dispatch_ntFree (g : Grammar) (o : Opts) (n : Node) (name : String) :
    ntFree (dispatch g o n name) = true := by
  unfold dispatch
  simp only [apply_ite ntFree]
  simp [ntFree]

theorem dispatch_not_nt (g : Grammar) (o : Opts) (n : Node) (name : String) (pn : PNode)
    (h : dispatch g o n name = some pn) : pn.func ≠ .nonTerminal := by
  have := dispatch_ntFree g o n name
  rw [h] at this
  simpa [ntFree] using this

theorem customOf_eq {g : Grammar} {el : Nat} {n : Node} (hg : g[el]? = some n) : customOf g el = n.custom := by
  unfold customOf; rw [hg]; rfl

theorem setL_setL (s : St) (i j el : Nat) (a b : EState) : setL (setL s i el a) j el b = setL s j el b := by
  unfold setL
  simp only [aset_aset]

theorem Pend_not_of_untruthy {g : Grammar} {s : St} {el : Nat} (hl : LInv g s)
    (h : truthy (customOf g el) = false) : ¬ Pend s el := by
  rintro ⟨st, hst, he⟩
  have := ((hl.lk el st hst).2 he).2
  rw [h] at this; exact absurd this (by simp)

theorem register_spec (g : Grammar) (s : St) (el : Nat) (n : Node) (parent : Option Nat) (index : Nat)
    (pn : PNode) (hg : g[el]? = some n) (hpn : pn.func ≠ .nonTerminal) (hl : LInv g s) :
    LInv g (register g s el n parent index pn).2 ∧
      (∀ u, Pend (register g s el n parent index pn).2 u → Pend s u ∨ u = el) ∧
      (∀ u, Tgt s u → Tgt (register g s el n parent index pn).2 u) := by
  obtain ⟨a1, a2, a3⟩ := Step_alloc g s pn (fun h => absurd h hpn) hl
  let es : EState := { converted := s.heap.length, parent := parent, parentIndex := index, number := s.index + 1 }
  have hc := customOf_eq hg
  by_cases ht : truthy n.custom = true
  · have e : (register g s el n parent index pn).2 =
        setL (s.alloc pn).2 (s.index + 1) el { es with extract := true, name := n.custom } := by
      have e0 : (register g s el n parent index pn).2 =
          markForExtraction g (setL (s.alloc pn).2 (s.index + 1) el es) el n.custom false := by
        unfold register
        simp only [ht, if_true]
        rfl
      rw [e0, mark_eq g _ el n.custom false es (by simp only [setL]; exact aget_aset_same _ _ _)]
      have : markName g es el n.custom = n.custom := by
        unfold markName
        have : truthy es.name = false := rfl
        simp only [this, ht, if_true]
        rfl
      rw [this]
      simp only [Bool.false_or, show es.complete = false from rfl, Bool.false_and]
      exact setL_setL _ _ _ _ _ _
    rw [e]
    obtain ⟨b1, b2, b3⟩ := setL_spec g (s.alloc pn).2 (s.index + 1) el
      { es with extract := true, name := n.custom } a1 (fun _ => rfl)
      (fun _ => ⟨hc.symm, by rw [hc]; exact ht⟩) (fun _ => rfl)
    refine ⟨b1, ?_, fun u hu => b3 u (a3 u hu)⟩
    intro u hu
    rcases b2 u hu with hh | hh
    · exact Or.inl (a2 u hh)
    · exact Or.inr hh.1
  · have e : (register g s el n parent index pn).2 = setL (s.alloc pn).2 (s.index + 1) el es := by
      unfold register
      simp only [ht]
      rfl
    rw [e]
    have hnt : truthy (customOf g el) = false := by rw [hc]; simpa using ht
    obtain ⟨b1, b2, b3⟩ := setL_spec g (s.alloc pn).2 (s.index + 1) el es a1
      (fun h => absurd h (by simp [es])) (fun h => absurd h (by simp [es]))
      (fun h => absurd h (Pend_not_of_untruthy a1 hnt))
    refine ⟨b1, ?_, fun u hu => b3 u (a3 u hu)⟩
    intro u hu
    rcases b2 u hu with hh | hh
    · exact Or.inl (a2 u hh)
    · exact Or.inr hh.1

theorem seenOf_named_lk (g : Grammar) (s : St) (el : Nat) (st : EState) (h : seenOf g s el = .named st) :
    aget s.lookup el = some st ∧ st.name.isSome := by
  unfold seenOf at h
  split at h
  · split at h
    · split at h
      · rename_i hst hn
        simp only [Seen.named.injEq] at h
        subst h
        exact ⟨hst, hn⟩
      · split at h <;> exact absurd h (by simp)
    · split at h <;> exact absurd h (by simp)
  · exact absurd h (by simp)

theorem seenOf_inDiagram_lk (g : Grammar) (s : St) (el : Nat) (d : DEntry) (h : seenOf g s el = .inDiagram d) :
    aget s.diagrams el = some d := by
  unfold seenOf at h
  split at h
  · split at h
    · split at h
      · exact absurd h (by simp)
      · split at h
        · rename_i hd
          simp only [Seen.inDiagram.injEq] at h
          subst h; exact hd
        · exact absurd h (by simp)
    · split at h
      · rename_i hd
        simp only [Seen.inDiagram.injEq] at h
        subst h; exact hd
      · exact absurd h (by simp)
  · exact absurd h (by simp)

theorem getD_of_eq_custom {a c : Option String} (h : a = c) (ht : truthy c = true) : c = some (a.getD "") := by
  subst h
  cases a with
  | none => simp [truthy] at ht
  | some x => rfl

theorem pre_ret_spec (g : Grammar) (o : Opts) (el : Nat) (n : Node) (p : Option Nat) (i : Nat)
    (h : Option String) (s : St) (r : Option Nat) (s' : St) (hg : g[el]? = some n)
    (hp : pre g o el n p i h s = .ret r s') : Step g s s' := by
  intro hl
  unfold pre at hp
  split at hp
  · exact absurd hp (by simp)
  · split at hp
    · rename_i st hseen
      obtain ⟨hst, hsome⟩ := seenOf_named_lk g s el st hseen
      simp only [newNT, Pre.ret.injEq] at hp
      obtain ⟨_, rfl⟩ := hp
      obtain ⟨m1, _, m3, m4⟩ := mark_spec g s el h hl (fun st' hst' => by
        rw [hst] at hst'; simp only [Option.some.injEq] at hst'; subst hst'; exact Or.inl hsome)
      have hnm := (hl.lk el st hst).2 ((hl.lk el st hst).1 hsome)
      have htr : truthy st.name = true := by rw [hnm.1]; exact hnm.2
      obtain ⟨a1, a2, a3⟩ := Step_alloc g (markForExtraction g s el h false)
        { func := .nonTerminal,
          text := if truthy st.name then st.name.getD "" else
            (if truthy h then h.getD "" else if truthy n.custom then n.custom.getD "" else "") }
        (fun _ => ⟨el, by simp only [htr, if_true]; exact getD_of_eq_custom hnm.1 hnm.2,
          m3 el (Or.inr ⟨st, hst, (hl.lk el st hst).1 hsome⟩)⟩) m1
      exact ⟨a1, fun u hu => m4 ⟨st, hst, hsome⟩ u (a2 u hu), fun u hu => a3 u (m3 u hu)⟩
    · rename_i d hseen
      have hd := seenOf_inDiagram_lk g s el d hseen
      simp only [newNT, Pre.ret.injEq] at hp
      obtain ⟨_, rfl⟩ := hp
      have hnm := hl.dg el d hd
      exact Step_alloc g s { func := .nonTerminal, text := d.name.getD "" }
        (fun _ => ⟨el, getD_of_eq_custom hnm.1 hnm.2, Or.inl ⟨d, hd⟩⟩) hl
    · unfold preFresh at hp
      split at hp
      · simp only [Pre.ret.injEq] at hp
        obtain ⟨_, rfl⟩ := hp
        exact Step.refl g s hl
      · split at hp
        · simp only [Pre.ret.injEq] at hp
          obtain ⟨_, rfl⟩ := hp
          exact Step.refl g s hl
        · exact absurd hp (by simp)

theorem pre_loop_spec (g : Grammar) (o : Opts) (el : Nat) (n : Node) (p : Option Nat) (i : Nat)
    (h : Option String) (s : St) (r : Nat) (s' : St) (hg : g[el]? = some n)
    (hp : pre g o el n p i h s = .loop r s') (hl : LInv g s) :
    LInv g s' ∧ (∀ u, Pend s' u → Pend s u ∨ u = el) ∧ (∀ u, Tgt s u → Tgt s' u) := by
  unfold pre at hp
  split at hp
  · exact absurd hp (by simp)
  · split at hp
    · exact absurd hp (by simp)
    · exact absurd hp (by simp)
    · unfold preFresh at hp
      split at hp
      · exact absurd hp (by simp)
      · split at hp
        · exact absurd hp (by simp)
        · rename_i pn hd
          simp only [Pre.loop.injEq] at hp
          obtain ⟨_, rfl⟩ := hp
          exact register_spec g s el n p i pn hg (dispatch_not_nt g o n _ pn hd) hl

theorem setComplete_spec (g : Grammar) (s : St) (el : Nat) (hl : LInv g s) :
    LInv g (setComplete s el) ∧ (∀ u, Pend (setComplete s el) u → Pend s u) ∧
      (∀ u, Tgt s u → Tgt (setComplete s el) u) ∧
      (∀ st, aget (setComplete s el).lookup el = some st → st.complete = true) := by
  unfold setComplete
  cases h : aget s.lookup el with
  | none =>
    simp only
    exact ⟨hl, fun _ hu => hu, fun _ hu => hu, fun st hst => by rw [h] at hst; exact absurd hst (by simp)⟩
  | some st =>
    simp only
    obtain ⟨a1, a2, a3⟩ := setL_spec g s s.index el { st with complete := true } hl
      (hl.lk el st h).1 (hl.lk el st h).2
      (fun ⟨st0, h0, e0⟩ => by rw [h] at h0; simp only [Option.some.injEq] at h0; subst h0; exact e0)
    refine ⟨a1, ?_, a3, ?_⟩
    · intro u hu
      rcases a2 u hu with hh | hh
      · exact hh
      · rw [hh.1]; exact ⟨st, h, hh.2⟩
    · intro st2 hst2
      have : aget (aset s.lookup el { st with complete := true }) el = some st2 := hst2
      rw [aget_aset_same] at this
      simp only [Option.some.injEq] at this
      subst this; rfl

theorem post_spec (g : Grammar) (el : Nat) (n : Node) (hint : Option String) (ret : Nat) (s : St)
    (hl : LInv g s) :
    LInv g (post el n hint ret s).2 ∧ (∀ u, Pend (post el n hint ret s).2 u → Pend s u ∧ u ≠ el) ∧
      (∀ u, Tgt s u → Tgt (post el n hint ret s).2 u) := by
  have h1 : Step g s (post1 n hint ret s).2 := by
    unfold post1
    split
    · exact Step_alloc g s _ (fun h => absurd h (by simp))
    · exact Step.refl g s
  obtain ⟨a1, a2, a3⟩ := h1 hl
  obtain ⟨b1, b2, b3, b4⟩ := setComplete_spec g (post1 n hint ret s).2 el a1
  unfold post
  simp only
  cases hk : aget (setComplete (post1 n hint ret s).2 el).lookup el with
  | none =>
    simp only
    refine ⟨b1, ?_, fun u hu => b3 u (a3 u hu)⟩
    intro u hu
    refine ⟨a2 u (b2 u hu), ?_⟩
    rintro rfl
    obtain ⟨st, hst, _⟩ := hu
    rw [hk] at hst; exact absurd hst (by simp)
  | some st =>
    simp only
    split
    · rename_i hc
      have hx : st.extract = true := by simp only [Bool.and_eq_true] at hc; exact hc.1
      obtain ⟨c1, c2, c3⟩ := extract_spec g _ el (fun pos hp => by
        rw [hk] at hp; simp only [Option.some.injEq] at hp; subst hp; exact hx) b1
      obtain ⟨d, hd, hdn⟩ := extract_diagrams_same _ el st hk
      simp only [hd, newNT]
      have hnm := c1.dg el d hd
      obtain ⟨e1, e2, e3⟩ := Step_alloc g (extractIntoDiagram (setComplete (post1 n hint ret s).2 el) el)
        { func := .nonTerminal, text := d.name.getD "" }
        (fun _ => ⟨el, getD_of_eq_custom hnm.1 hnm.2, Or.inl ⟨d, hd⟩⟩) c1
      refine ⟨e1, ?_, fun u hu => e3 u (c3 u (b3 u (a3 u hu)))⟩
      intro u hu
      have := c2 u (e2 u hu)
      exact ⟨a2 u (b2 u this.1), this.2⟩
    · rename_i hc
      refine ⟨b1, ?_, fun u hu => b3 u (a3 u hu)⟩
      intro u hu
      refine ⟨a2 u (b2 u hu), ?_⟩
      rintro rfl
      obtain ⟨st', hst', he'⟩ := hu
      rw [hk] at hst'; simp only [Option.some.injEq] at hst'; subst hst'
      exact hc (by simp [he', b4 _ hk])

theorem annotate_spec (g : Grammar) (o : Opts) (n : Node) (r : Option Nat) (s : St) :
    Step g s (annotate o n r s).2 := by
  unfold annotate
  split
  · exact Step.refl g s
  · split
    · exact Step_alloc g s _ (fun h => absurd h (by simp))
    · exact Step.refl g s

/-! ### the recursion -/

theorem stepKid_step (g : Grammar) (rec : Rec) (ret : Nat)
    (hrec : ∀ c p i h s r s', rec c p i h s = some (r, s') → Step g s s') :
    ∀ c i s i' s', stepKid rec ret c i s = some (i', s') → Step g s s' := by
  intro c i s i' s' h
  unfold stepKid at h
  split at h
  · exact absurd h (by simp)
  · rename_i item s2 hr
    have h1 : Step g s s2 := (Step_addPlaceholder g s ret i).trans (hrec _ _ _ _ _ _ _ hr)
    split at h <;> simp only [Option.some.injEq, Prod.mk.injEq] at h <;> obtain ⟨_, rfl⟩ := h
    · exact h1.trans (Step_setKw g _ _ _)
    · exact h1.trans (Step_setKw g _ _ _)
    · exact h1
    · exact h1.trans (Step_setKw g _ _ _)
    · exact h1

theorem loopKids_step (g : Grammar) (rec : Rec) (ret : Nat)
    (hrec : ∀ c p i h s r s', rec c p i h s = some (r, s') → Step g s s') :
    ∀ kids i s s', loopKids rec ret kids i s = some s' → Step g s s' := by
  intro kids
  induction kids with
  | nil => intro i s s' h; simp [loopKids] at h; exact h ▸ Step.refl g s
  | cons c cs ih =>
    intro i s s' h
    unfold loopKids at h
    split at h
    · exact absurd h (by simp)
    · rename_i i' s1 hs
      exact (stepKid_step g rec ret hrec _ _ _ _ _ hs).trans (ih _ _ _ h)

/-- **frame property of `_to_diagram_element`**: a returning call preserves the link invariant,
    leaves no new pending element, and keeps every link target -/
theorem conv_step (g : Grammar) (o : Opts) :
    ∀ fuel el p i h s r s', conv g o fuel el p i h s = some (r, s') → Step g s s' := by
  intro fuel
  induction fuel with
  | zero => intro el p i h s r s' hc; simp [conv] at hc
  | succ f ih =>
    intro el p i h s r s' hc
    unfold conv at hc
    cases hg : g[el]? with
    | none => simp [hg] at hc; exact hc.2 ▸ Step.refl g s
    | some n =>
      simp only [hg] at hc
      cases hb : convBody g o (conv g o f) el n p i h s with
      | none => simp [hb] at hc
      | some rs =>
        obtain ⟨r1, s1⟩ := rs
        simp only [hb, Option.some.injEq] at hc
        have e : (annotate o n r1 s1).2 = s' := by rw [hc]
        refine e ▸ Step.trans ?_ (annotate_spec g o n r1 s1)
        unfold convBody at hb
        cases hp : pre g o el n p i h s with
        | ret r0 s0 =>
          simp only [hp, Option.some.injEq, Prod.mk.injEq] at hb
          exact hb.2 ▸ pre_ret_spec g o el n p i h s r0 s0 hg hp
        | pass c h' =>
          simp only [hp] at hb
          exact ih _ _ _ _ _ _ _ hb
        | loop ret s0 =>
          simp only [hp] at hb
          cases hl : loopKids (conv g o f) ret n.kids 0 s0 with
          | none => simp [hl] at hb
          | some s2 =>
            simp only [hl, Option.some.injEq] at hb
            have e2 : (post el n h ret s2).2 = s1 := by rw [hb]
            rw [← e2]
            intro hinv
            obtain ⟨a1, a2, a3⟩ := pre_loop_spec g o el n p i h s ret s0 hg hp hinv
            obtain ⟨b1, b2, b3⟩ := loopKids_step g (conv g o f) ret
              (fun c p i h s r s' a => ih c p i h s r s' a) _ _ _ _ hl a1
            obtain ⟨c1, c2, c3⟩ := post_spec g el n h ret s2 b1
            refine ⟨c1, ?_, fun u hu => c3 u (b3 u (a3 u hu))⟩
            intro u hu
            obtain ⟨hu1, hne⟩ := c2 u hu
            rcases a2 u (b2 u hu1) with hh | hh
            · exact hh
            · exact absurd hh hne

theorem LInv_init (g : Grammar) : LInv g {} :=
  ⟨fun _ _ h => absurd h (by simp), fun _ _ h => absurd h (by simp), fun _ h => absurd h (by simp)⟩

/-! ### the forced extraction of the root, and the output stage -/

/-- what holds of the final state: every NonTerminal names a diagram entry -/
structure Fin (g : Grammar) (s : St) : Prop where
  fdg : ∀ u d, aget s.diagrams u = some d → d.name = customOf g u ∨ d.name = some ""
  fnt : ∀ nd ∈ s.heap, nd.func = .nonTerminal → ∃ u d, aget s.diagrams u = some d ∧ d.name = some nd.text

theorem Fin_of_LInv {g : Grammar} {s : St} (hl : LInv g s) (hp : ∀ u, ¬ Pend s u) : Fin g s := by
  refine ⟨fun u d h => Or.inl (hl.dg u d h).1, ?_⟩
  intro nd hnd hf
  obtain ⟨u, hu, ht⟩ := hl.nt nd hnd hf
  rcases ht with ⟨d, hd⟩ | ht
  · exact ⟨u, d, hd, by rw [(hl.dg u d hd).1]; exact hu⟩
  · exact absurd ht (hp u)

theorem putChild_heap (s : St) (p i : Nat) (v : Slot) :
    ∀ nd ∈ (s.putChild p i v).heap, ∃ n0 ∈ s.heap, nd.func = n0.func ∧ nd.text = n0.text := by
  intro nd hnd
  unfold St.putChild at hnd
  split at hnd
  · exact mem_modify_kw _ _ _ _ hnd
  · exact mem_modify_kw _ _ _ _ hnd
  · exact ⟨nd, hnd, rfl, rfl⟩

theorem exNT_heap (s : St) (pos : EState) :
    ∀ nd ∈ (exNT s pos).heap, (∃ n0 ∈ s.heap, nd.func = n0.func ∧ nd.text = n0.text) ∨
      nd.text = pos.name.getD "" := by
  intro nd hnd
  unfold exNT at hnd
  split at hnd
  · obtain ⟨n0, hn0, e1, e2⟩ := putChild_heap _ _ _ _ nd hnd
    simp only [newNT, St.alloc, List.mem_append, List.mem_singleton] at hn0
    rcases hn0 with hn0 | rfl
    · exact Or.inl ⟨n0, hn0, e1, e2⟩
    · exact Or.inr e2
  · exact Or.inl ⟨nd, hnd, rfl, rfl⟩

theorem exNT_diagrams (s : St) (pos : EState) : (exNT s pos).diagrams = s.diagrams := by
  unfold exNT; split <;> simp

theorem final_extract (g : Grammar) (s0 : St) (idx root : Nat) (st2 : EState) (hl : LInv g s0)
    (hp : ∀ u, ¬ Pend s0 u) (hsome : st2.name.isSome)
    (hn : (st2.name = customOf g root) ∨ (st2.name = some "" ∧ truthy (customOf g root) = false)) :
    Fin g (extractIntoDiagram (setL s0 idx root st2) root) := by
  obtain ⟨c, e⟩ := extract_eq (setL s0 idx root st2) root st2 (by simp only [setL]; exact aget_aset_same _ _ _)
  rw [e]
  have hroot : aget (exFin (exNT (setL s0 idx root st2) st2) root st2 c).diagrams root =
      some { name := st2.name, content := c, index := st2.number } := aget_aset_same _ _ _
  have hother : ∀ u, u ≠ root → aget (exFin (exNT (setL s0 idx root st2) st2) root st2 c).diagrams u =
      aget s0.diagrams u := by
    intro u hu
    simp only [exFin, aget_aset_ne _ _ _ _ hu, exNT_diagrams]
    rfl
  refine ⟨?_, ?_⟩
  · intro u d hd
    by_cases hu : u = root
    · subst hu
      rw [hroot] at hd
      simp only [Option.some.injEq] at hd
      subst hd
      rcases hn with hn | hn
      · exact Or.inl hn
      · exact Or.inr hn.1
    · rw [hother u hu] at hd
      exact Or.inl (hl.dg u d hd).1
  · intro nd hnd hf
    have hnd' : nd ∈ (exNT (setL s0 idx root st2) st2).heap := hnd
    rcases exNT_heap _ _ nd hnd' with ⟨n0, hn0, e1, e2⟩ | e2
    · have hn0' : n0 ∈ s0.heap := hn0
      obtain ⟨u, hu, ht⟩ := hl.nt n0 hn0' (e1 ▸ hf)
      rcases ht with ⟨d, hd⟩ | ht
      · by_cases hur : u = root
        · subst hur
          refine ⟨u, _, hroot, ?_⟩
          show st2.name = some nd.text
          rcases hn with hn | hn
          · rw [hn, e2]; exact hu
          · have := (hl.dg u d hd).2
            rw [hn.2] at this; exact absurd this (by simp)
        · exact ⟨u, d, by rw [hother u hur]; exact hd, by rw [(hl.dg u d hd).1, e2]; exact hu⟩
      · exact absurd ht (hp u)
    · refine ⟨root, _, hroot, ?_⟩
      show st2.name = some nd.text
      rw [e2]
      cases hh : st2.name with
      | none => rw [hh] at hsome; exact absurd hsome (by simp)
      | some x => rfl

theorem convertRoot_fin (g : Grammar) (o : Opts) (fuel root : Nat) (s : St)
    (h : convertRoot g o fuel root = some s) : Fin g s := by
  unfold convertRoot at h
  split at h
  · exact absurd h (by simp)
  · rename_i r s0 hc
    obtain ⟨hl, hp0, _⟩ := conv_step g o fuel root none 0 none {} r s0 hc (LInv_init g)
    have hp : ∀ u, ¬ Pend s0 u := by
      intro u hu
      obtain ⟨st, hst, _⟩ := hp0 u hu
      exact absurd hst (by simp)
    split at h
    · rename_i st hst
      simp only [Option.some.injEq] at h
      subst h
      have hex : st.extract = false := by
        cases he : st.extract with
        | false => rfl
        | true => exact absurd ⟨st, hst, he⟩ (hp root)
      have hname : st.name = none := by
        cases hn : st.name with
        | none => rfl
        | some x =>
          have := (hl.lk root st hst).1 (by rw [hn]; rfl)
          rw [hex] at this; exact absurd this (by simp)
      by_cases ht : truthy ((g[root]?).bind (·.custom)) = true
      · simp only [ht, Bool.not_true, Bool.false_eq_true, if_false]
        rw [mark_eq g s0 root none true st hst]
        simp only [Bool.true_or, if_true]
        refine final_extract g s0 _ root _ hl hp ?_ (Or.inl ?_)
        · simp only [markName, hname, ht, if_true]
          exact truthy_isSome ht
        · simp only [markName, hname, ht, if_true]
          simp [truthy, customOf]
      · have ht' : truthy ((g[root]?).bind (·.custom)) = false := by simpa using ht
        simp only [ht', Bool.not_false, if_true]
        have hl1 : aget (setL s0 s0.index root { st with name := some "" }).lookup root =
            some { st with name := some "" } := aget_aset_same _ _ _
        have e1 : ({ s0 with lookup := aset s0.lookup root { st with name := some "" } } : St) =
            setL s0 s0.index root { st with name := some "" } := rfl
        rw [e1, mark_eq g _ root none true _ hl1]
        simp only [Bool.true_or, if_true]
        rw [setL_setL]
        have t1 : truthy (some "") = false := by decide
        have t2 : truthy none = false := rfl
        have hm : markName g { st with name := some "" } root none = some "" := by
          simp only [markName, t1, t2, ht', Bool.false_eq_true, if_false]
        refine final_extract g s0 _ root _ hl hp ?_ (Or.inr ⟨?_, ht'⟩)
        · simp only [hm]; rfl
        · simp only [hm]
    · simp only [Option.some.injEq] at h
      subst h
      exact Fin_of_LInv hl hp

theorem linksL_mem (ts : List Tree) (t : String) : t ∈ Tree.linksL ts ↔ ∃ tr ∈ ts, t ∈ tr.links := by
  induction ts with
  | nil => simp [Tree.linksL]
  | cons a as ih => simp [Tree.linksL, ih]

theorem resolve_links (heap : List PNode) : ∀ f slot t, t ∈ (resolve heap f slot).links →
    ∃ nd ∈ heap, nd.func = .nonTerminal ∧ nd.text = t := by
  intro f
  induction f with
  | zero =>
    intro slot t ht
    cases slot <;> simp [resolve, Tree.links] at ht
  | succ f ih =>
    intro slot t ht
    cases slot with
    | none => simp [resolve, Tree.links] at ht
    | empty => simp [resolve, Tree.links] at ht
    | ref r =>
      unfold resolve at ht
      split at ht
      · simp [Tree.links] at ht
      · rename_i n hn
        have hmem : n ∈ heap := List.mem_of_getElem? hn
        have key : ∀ ks, t ∈ (Tree.node n.func n.label n.text ks).links →
            (∀ tr ∈ ks, t ∈ tr.links → ∃ nd ∈ heap, nd.func = .nonTerminal ∧ nd.text = t) →
            ∃ nd ∈ heap, nd.func = .nonTerminal ∧ nd.text = t := by
          intro ks hk hks
          simp only [Tree.links, List.mem_append] at hk
          rcases hk with hk | hk
          · split at hk
            · rename_i hf
              simp only [List.mem_singleton] at hk
              exact ⟨n, hmem, hf, hk.symm⟩
            · exact absurd hk (by simp)
          · obtain ⟨tr, htr, htl⟩ := (linksL_mem ks t).mp hk
            exact hks tr htr htl
        split at ht
        · exact key [] ht (fun tr htr => absurd htr (by simp))
        · refine key _ ht ?_
          intro tr htr htl
          simp only [List.mem_singleton] at htr
          subst htr
          exact ih _ _ htl
        · refine key _ ht ?_
          intro tr htr htl
          obtain ⟨v, _, rfl⟩ := List.mem_map.mp htr
          exact ih _ _ htl

theorem dedupe_complete : ∀ (l : List DEntry) (seen : List (Option String)) (d : DEntry), d ∈ l →
    d.name.isSome → d.name ≠ some "..." → d.name ∈ seen ∨ d.name ∈ (dedupe l seen).map (·.name) := by
  intro l
  induction l with
  | nil => intro seen d hd; exact absurd hd (by simp)
  | cons x xs ih =>
    intro seen d hd hs hne
    unfold dedupe
    rcases List.mem_cons.mp hd with rfl | hd
    · split
      · rename_i h1; simp only [beq_iff_eq] at h1; exact absurd h1 hne
      · split
        · right; simp
        · rename_i h2
          left
          simp only [hs, Bool.true_and, Bool.not_eq_true', List.contains_eq_mem, decide_eq_false_iff_not,
            Decidable.not_not] at h2
          exact h2
    · split
      · exact ih seen d hd hs hne
      · split
        · rcases ih (x.name :: seen) d hd hs hne with h | h
          · rcases List.mem_cons.mp h with h | h
            · right; simp [h]
            · left; exact h
          · right; simp only [List.map_cons, List.mem_cons]; right; exact h
        · exact ih seen d hd hs hne

theorem aget_mem {α} (l : List (Nat × α)) (k : Nat) (v : α) (h : aget l k = some v) : v ∈ l.map (·.2) := by
  induction l with
  | nil => exact absurd h (by simp [aget])
  | cons p rest ih =>
    obtain ⟨k', v'⟩ := p
    unfold aget at h
    split at h
    · simp only [Option.some.injEq] at h; subst h; simp
    · simp only [List.map_cons, List.mem_cons]; right; exact ih h

/-- no element carries the custom name `"..."` (the name `_PendingSkip`/`...` gives its SkipTo, whose
    diagram `to_railroad` drops) -/
def noEllipsisName (g : Grammar) : Bool := g.all (fun n => n.custom != some "...")

theorem customOf_ne_ellipsis {g : Grammar} (h : noEllipsisName g = true) (u : Nat) :
    customOf g u ≠ some "..." := by
  unfold customOf
  cases hg : g[u]? with
  | none => simp
  | some n =>
    have hmem : n ∈ g := List.mem_of_getElem? hg
    unfold noEllipsisName at h
    rw [List.all_eq_true] at h
    have := h n hmem
    simpa using this

/-- every entry name that a link can carry is kept by the selection of `to_railroad` -/
theorem selected_names {g : Grammar} {s : St} (hf : Fin g s) (hne : noEllipsisName g = true)
    (u : Nat) (d : DEntry) (hd : aget s.diagrams u = some d) (hs : d.name.isSome) :
    d.name ∈ (selected s).map (·.name) := by
  have hmem := aget_mem _ _ _ hd
  have hne' : d.name ≠ some "..." := by
    rcases hf.fdg u d hd with h | h
    · rw [h]; exact customOf_ne_ellipsis hne u
    · rw [h]; decide
  unfold selected
  simp only
  split
  · rcases dedupe_complete _ [] d hmem hs hne' with h | h
    · exact absurd h (by simp)
    · exact h
  · exact List.mem_map.mpr ⟨d, hmem, rfl⟩

end PP.Diagram
