import PPProofs.Lemmas.DiagramConv
import PPProofs.Lemmas.DiagramOut
/-! Helper lemmas for C20 (links_resolve): the invariant "every NonTerminal in the heap carries the
    custom name of an element that is extracted already or is marked for extraction (pending)", and
    the frame property "a call of `_to_diagram_element` leaves no new pending element behind". -/
namespace PP.Diagram

/-- the element is marked for extraction and still in the lookup table -/
def Pend (s : St) (u : Nat) : Prop := ∃ st, aget s.lookup u = some st ∧ st.extract = true

/-- the element has a diagram, or will get one when its conversion completes -/
def Tgt (s : St) (u : Nat) : Prop := (∃ d, aget s.diagrams u = some d) ∨ Pend s u

structure LInv (g : Grammar) (s : St) : Prop where
  lk : ∀ u st, aget s.lookup u = some st →
    (st.name.isSome → st.extract = true) ∧
    (st.extract = true → st.name = customOf g u ∧ truthy (customOf g u) = true)
  dg : ∀ u d, aget s.diagrams u = some d → d.name = customOf g u ∧ truthy (customOf g u) = true
  nt : ∀ nd ∈ s.heap, nd.func = .nonTerminal → ∃ u, customOf g u = some nd.text ∧ Tgt s u

/-- the relation carried through the recursion -/
def Step (g : Grammar) (s s' : St) : Prop :=
  LInv g s → LInv g s' ∧ (∀ u, Pend s' u → Pend s u) ∧ (∀ u, Tgt s u → Tgt s' u)

theorem Step.refl (g : Grammar) (s : St) : Step g s s := fun h => ⟨h, fun _ h => h, fun _ h => h⟩

theorem Step.trans {g : Grammar} {a b c : St} (h1 : Step g a b) (h2 : Step g b c) : Step g a c := by
  intro ha
  obtain ⟨hb, p1, t1⟩ := h1 ha
  obtain ⟨hc, p2, t2⟩ := h2 hb
  exact ⟨hc, fun u h => p1 u (p2 u h), fun u h => t2 u (t1 u h)⟩

/-! ### heap-only operations -/

theorem mem_modify_kw (heap : List PNode) (r : Nat) (kw : Kw) (nd : PNode)
    (h : nd ∈ heap.modify r (fun n => { n with kw := kw })) :
    ∃ n0 ∈ heap, nd.func = n0.func ∧ nd.text = n0.text := by
  obtain ⟨j, hj, rfl⟩ := List.mem_iff_getElem.mp h
  rw [List.getElem_modify]
  have hj' : j < heap.length := by simpa using hj
  refine ⟨heap[j], List.getElem_mem hj', ?_⟩
  split <;> simp

theorem LInv_heap {g : Grammar} {s s' : St} (hl : s'.lookup = s.lookup) (hd : s'.diagrams = s.diagrams)
    (hh : ∀ nd ∈ s'.heap, nd.func = .nonTerminal →
      (∃ n0 ∈ s.heap, nd.func = n0.func ∧ nd.text = n0.text) ∨ ∃ u, customOf g u = some nd.text ∧ Tgt s u)
    (h : LInv g s) : LInv g s' := by
  have tg : ∀ u, Tgt s u → Tgt s' u := by
    intro u hu
    unfold Tgt Pend at *
    rw [hl, hd]; exact hu
  refine ⟨by rw [hl]; exact h.lk, by rw [hd]; exact h.dg, ?_⟩
  intro nd hnd hf
  rcases hh nd hnd hf with ⟨n0, hn0, e1, e2⟩ | ⟨u, hu, ht⟩
  · obtain ⟨u, hu, ht⟩ := h.nt n0 hn0 (e1 ▸ hf)
    exact ⟨u, e2 ▸ hu, tg u ht⟩
  · exact ⟨u, hu, tg u ht⟩

theorem Step_heap {g : Grammar} {s s' : St} (hl : s'.lookup = s.lookup) (hd : s'.diagrams = s.diagrams)
    (hh : ∀ nd ∈ s'.heap, nd.func = .nonTerminal →
      (∃ n0 ∈ s.heap, nd.func = n0.func ∧ nd.text = n0.text) ∨ ∃ u, customOf g u = some nd.text ∧ Tgt s u) :
    Step g s s' := by
  intro h
  refine ⟨LInv_heap hl hd hh h, ?_, ?_⟩
  · intro u hu; unfold Pend at *; rw [hl] at hu; exact hu
  · intro u hu; unfold Tgt Pend at *; rw [hl, hd]; exact hu

theorem Step_setKw (g : Grammar) (s : St) (r : Nat) (kw : Kw) : Step g s (s.setKw r kw) :=
  Step_heap rfl rfl (fun nd hnd _ => Or.inl (mem_modify_kw _ _ _ _ hnd))

theorem Step_putChild (g : Grammar) (s : St) (p i : Nat) (v : Slot) : Step g s (s.putChild p i v) := by
  unfold St.putChild
  split
  · exact Step_setKw _ _ _ _
  · exact Step_setKw _ _ _ _
  · exact Step.refl _ _

theorem Step_addPlaceholder (g : Grammar) (s : St) (r i : Nat) : Step g s (addPlaceholder s r i) := by
  unfold addPlaceholder
  split
  · exact Step_setKw _ _ _ _
  · exact Step.refl _ _

/-- allocating a partial that is not a NonTerminal, or a NonTerminal whose text is the custom name of
    a target -/
theorem Step_alloc (g : Grammar) (s : St) (pn : PNode)
    (h : pn.func = .nonTerminal → ∃ u, customOf g u = some pn.text ∧ Tgt s u) :
    Step g s (s.alloc pn).2 := by
  refine Step_heap rfl rfl ?_
  intro nd hnd hf
  simp only [St.alloc, List.mem_append, List.mem_singleton] at hnd
  rcases hnd with hnd | rfl
  · exact Or.inl ⟨nd, hnd, rfl, rfl⟩
  · exact Or.inr (h hf)

/-! ### extract_into_diagram -/

def exNT (s : St) (pos : EState) : St :=
  match pos.parent with
  | some p => (newNT s (pos.name.getD "")).2.putChild p pos.parentIndex (.ref (newNT s (pos.name.getD "")).1)
  | none => s

def exFin (s1 : St) (el : Nat) (pos : EState) (c : Slot) : St :=
  { s1 with
    diagrams := aset s1.diagrams el { name := pos.name, content := c, index := pos.number }
    lookup := adel s1.lookup el }

theorem extract_eq (s : St) (el : Nat) (pos : EState) (h : aget s.lookup el = some pos) :
    ∃ c, extractIntoDiagram s el = exFin (exNT s pos) el pos c := by
  unfold extractIntoDiagram exNT
  simp only [h]
  cases pos.parent <;> exact ⟨_, rfl⟩

theorem extract_none (s : St) (el : Nat) (h : aget s.lookup el = none) : extractIntoDiagram s el = s := by
  unfold extractIntoDiagram
  simp only [h]

theorem exNT_lookup (s : St) (pos : EState) : (exNT s pos).lookup = s.lookup := by
  unfold exNT; split <;> simp

theorem Step_exNT (g : Grammar) (s : St) (el : Nat) (pos : EState) (h : aget s.lookup el = some pos)
    (hx : pos.extract = true) : Step g s (exNT s pos) := by
  intro hl
  unfold exNT
  split
  · refine Step.trans (Step_alloc g s _ ?_) (Step_putChild g _ _ _ _) hl
    intro _
    have := ((hl.lk el pos h).2 hx)
    refine ⟨el, ?_, Or.inr ⟨pos, h, hx⟩⟩
    show customOf g el = some (pos.name.getD "")
    rw [← this.1]
    cases hn : pos.name with
    | none => rw [this.1] at hn; rw [hn] at this; simp [truthy] at this
    | some x => rfl
  · exact Step.refl g s hl

theorem exFin_spec (g : Grammar) (s1 : St) (el : Nat) (pos : EState) (c : Slot)
    (h : aget s1.lookup el = some pos) (hx : pos.extract = true) (hl : LInv g s1) :
    LInv g (exFin s1 el pos c) ∧ (∀ u, Pend (exFin s1 el pos c) u → Pend s1 u ∧ u ≠ el) ∧
      (∀ u, Tgt s1 u → Tgt (exFin s1 el pos c) u) := by
  have tg : ∀ u, Tgt s1 u → Tgt (exFin s1 el pos c) u := by
    intro u hu
    by_cases hu' : u = el
    · subst hu'; exact Or.inl ⟨_, aget_aset_same _ _ _⟩
    · unfold Tgt Pend exFin
      simp only [aget_aset_ne _ _ _ _ hu', aget_adel_ne _ _ _ hu']
      exact hu
  refine ⟨⟨?_, ?_, ?_⟩, ?_, tg⟩
  · intro u st hu
    by_cases hu' : u = el
    · subst hu'; simp [exFin, aget_adel_same] at hu
    · simp only [exFin, aget_adel_ne _ _ _ hu'] at hu
      exact hl.lk u st hu
  · intro u d hu
    by_cases hu' : u = el
    · subst hu'
      simp only [exFin, aget_aset_same, Option.some.injEq] at hu
      subst hu
      exact (hl.lk u pos h).2 hx
    · simp only [exFin, aget_aset_ne _ _ _ _ hu'] at hu
      exact hl.dg u d hu
  · intro nd hnd hf
    obtain ⟨u, hu, ht⟩ := hl.nt nd hnd hf
    exact ⟨u, hu, tg u ht⟩
  · intro u ⟨st, hst, he⟩
    by_cases hu' : u = el
    · subst hu'; simp [exFin, aget_adel_same] at hst
    · simp only [exFin, aget_adel_ne _ _ _ hu'] at hst
      exact ⟨⟨st, hst, he⟩, hu'⟩

/-- `extract_into_diagram` of an element that is marked (or absent) -/
theorem extract_spec (g : Grammar) (s : St) (el : Nat)
    (hx : ∀ pos, aget s.lookup el = some pos → pos.extract = true) (hl : LInv g s) :
    LInv g (extractIntoDiagram s el) ∧ (∀ u, Pend (extractIntoDiagram s el) u → Pend s u ∧ u ≠ el) ∧
      (∀ u, Tgt s u → Tgt (extractIntoDiagram s el) u) := by
  cases h : aget s.lookup el with
  | none =>
    rw [extract_none s el h]
    refine ⟨hl, ?_, fun _ h => h⟩
    intro u hu
    refine ⟨hu, ?_⟩
    rintro rfl
    obtain ⟨st, hst, _⟩ := hu
    rw [h] at hst; exact absurd hst (by simp)
  | some pos =>
    obtain ⟨c, e⟩ := extract_eq s el pos h
    rw [e]
    obtain ⟨h1, p1, t1⟩ := Step_exNT g s el pos h (hx pos h) hl
    have h' : aget (exNT s pos).lookup el = some pos := by rw [exNT_lookup]; exact h
    obtain ⟨h2, p2, t2⟩ := exFin_spec g _ el pos c h' (hx pos h) h1
    exact ⟨h2, fun u hu => ⟨p1 u (p2 u hu).1, (p2 u hu).2⟩, fun u hu => t2 u (t1 u hu)⟩

theorem extract_diagrams_same (s : St) (el : Nat) (pos : EState) (h : aget s.lookup el = some pos) :
    ∃ d, aget (extractIntoDiagram s el).diagrams el = some d ∧ d.name = pos.name := by
  obtain ⟨c, e⟩ := extract_eq s el pos h
  rw [e]
  exact ⟨_, aget_aset_same _ _ _, rfl⟩

end PP.Diagram
