import PPProofs.Lemmas.PRHeapDeepMemoRel
/-!
  Third invariant of the memoised deep copy `deepObjN`: the name tables.  Every memoised occurrence-list cell holds
  the original's records (same positions, nested results replaced by their memo images); every *finished* memoised
  object has the original's names in order, bound to the memo images of the original's occurrence lists, and the
  original's list-all names.  An object is unfinished between `__new__` and `__setstate__` (predicate `Open`).
  Consequence: `dumpN` (both views, nested) of the copy is `dumpN` of the original (`DRel.dump`).
-/
namespace PP.PRHeap
open PP.PyDict

variable {α : Type}

def RelO (R : Nat → Nat → Prop) : List (HVal α × Int) → List (HVal α × Int) → Prop
  | [], [] => True
  | (.atom a, p) :: ts, (.atom a', p') :: ts' => a = a' ∧ p = p' ∧ RelO R ts ts'
  | (.ref n, p) :: ts, (.ref n', p') :: ts' => R n n' ∧ p = p' ∧ RelO R ts ts'
  | _, _ => False

def RelD (R : Nat → Nat → Prop) : Dict Nat → Dict Nat → Prop
  | [], [] => True
  | (k, c) :: es, (k', c') :: es' => k = k' ∧ R c c' ∧ RelD R es es'
  | _, _ => False

theorem RelO.mono {R R' : Nat → Nat → Prop} (hm : ∀ n n', R n n' → R' n n') :
    ∀ (ts ts' : List (HVal α × Int)), RelO R ts ts' → RelO R' ts ts' := by
  intro ts
  induction ts with
  | nil => intro ts' hr; cases ts' <;> simp_all [RelO]
  | cons t ts ih =>
    intro ts' hr
    obtain ⟨v, p⟩ := t
    cases ts' with
    | nil => cases v <;> simp [RelO] at hr
    | cons t' ts' =>
      obtain ⟨v', p'⟩ := t'
      cases v <;> cases v' <;> simp only [RelO] at hr ⊢
      · exact ⟨hr.1, hr.2.1, ih ts' hr.2.2⟩
      · exact ⟨hm _ _ hr.1, hr.2.1, ih ts' hr.2.2⟩

theorem RelD.mono {R R' : Nat → Nat → Prop} (hm : ∀ n n', R n n' → R' n n') :
    ∀ (es es' : Dict Nat), RelD R es es' → RelD R' es es' := by
  intro es
  induction es with
  | nil => intro es' hr; cases es' <;> simp_all [RelD]
  | cons e es ih =>
    intro es' hr
    obtain ⟨k, c⟩ := e
    cases es' with
    | nil => simp [RelD] at hr
    | cons e' es' =>
      obtain ⟨k', c'⟩ := e'
      simp only [RelD] at hr ⊢
      exact ⟨hr.1, hm _ _ hr.2.1, ih es' hr.2.2⟩

theorem RelL.flatMapG {R : Nat → Nat → Prop} {γ : Type} (F G : Nat → List γ) (c : α → List γ) :
    ∀ (ts ts' : List (HVal α)), RelL R ts ts' → (∀ n n', R n n' → G n' = F n) →
    ts'.flatMap (fun v => match v with | .atom a => c a | .ref n => G n) =
    ts.flatMap (fun v => match v with | .atom a => c a | .ref n => F n) := by
  intro ts
  induction ts with
  | nil => intro ts' hr _; cases ts' <;> simp_all [RelL]
  | cons t ts ih =>
    intro ts' hr hf
    cases ts' with
    | nil => cases t <;> simp [RelL] at hr
    | cons t' ts' =>
      cases t <;> cases t' <;> simp only [RelL] at hr
      · simp only [List.flatMap_cons]; rw [ih ts' hr.2 hf, hr.1]
      · simp only [List.flatMap_cons]; rw [ih ts' hr.2 hf, hf _ _ hr.1]

theorem RelO.flatMapG {R : Nat → Nat → Prop} {γ : Type} (F G : Nat → List γ) (c : α → List γ) (hd : Int → γ) :
    ∀ (ts ts' : List (HVal α × Int)), RelO R ts ts' → (∀ n n', R n n' → G n' = F n) →
    ts'.flatMap (fun vp => hd vp.2 :: (match vp.1 with | .atom a => c a | .ref n => G n)) =
    ts.flatMap (fun vp => hd vp.2 :: (match vp.1 with | .atom a => c a | .ref n => F n)) := by
  intro ts
  induction ts with
  | nil => intro ts' hr _; cases ts' <;> simp_all [RelO]
  | cons t ts ih =>
    intro ts' hr hf
    obtain ⟨v, p⟩ := t
    cases ts' with
    | nil => cases v <;> simp [RelO] at hr
    | cons t' ts' =>
      obtain ⟨v', p'⟩ := t'
      cases v <;> cases v' <;> simp only [RelO] at hr
      · simp only [List.flatMap_cons]; rw [ih ts' hr.2.2 hf, hr.1, hr.2.1]
      · simp only [List.flatMap_cons]; rw [ih ts' hr.2.2 hf, hf _ _ hr.1, hr.2.1]

theorem RelD.flatMapG {R : Nat → Nat → Prop} {γ : Type} (F G : Nat → List γ) (hd : String → γ) :
    ∀ (es es' : Dict Nat), RelD R es es' → (∀ c c', R c c' → G c' = F c) →
    es'.flatMap (fun e => hd e.1 :: G e.2) = es.flatMap (fun e => hd e.1 :: F e.2) := by
  intro es
  induction es with
  | nil => intro es' hr _; cases es' <;> simp_all [RelD]
  | cons e es ih =>
    intro es' hr hf
    obtain ⟨k, c⟩ := e
    cases es' with
    | nil => simp [RelD] at hr
    | cons e' es' =>
      obtain ⟨k', c'⟩ := e'
      simp only [RelD] at hr
      simp only [List.flatMap_cons]; rw [ih es' hr.2.2 hf, hf _ _ hr.2.1, hr.1]

structure DRel (b : Nat) (h0 : Heap α) (s : DS α) (Open : Nat → Prop) : Prop where
  occ : ∀ c c', (c, c') ∈ s.mc → RelO (fun n n' => (n, n') ∈ s.mo) (h0.occs c) (s.h.occs c')
  obj : ∀ k v, (k, v) ∈ s.mo → ¬ Open v → (s.h.objs v).all = (h0.objs k).all ∧
    RelD (fun c c' => (c, c') ∈ s.mc) (h0.dicts (h0.objs k).dct) (s.h.dicts (s.h.objs v).dct)

theorem DRel.occ_step {b : Nat} {h0 : Heap α} {s s' : DS α} {Open : Nat → Prop} (g : Grow s s') (hI : Inv b s)
    (hD : DRel b h0 s Open) (c c' : Nat) (hc : (c, c') ∈ s.mc) :
    RelO (fun n n' => (n, n') ∈ s'.mo) (h0.occs c) (s'.h.occs c') := by
  have := (hI.occ c' ⟨c, hc⟩).1.2
  rw [g.occs c' this]
  exact RelO.mono (fun n n' h => g.mo _ h) _ _ (hD.occ c c' hc)

theorem DRel.obj_step {b : Nat} {h0 : Heap α} {s s' : DS α} {Open : Nat → Prop} (g : Grow s s') (hI : Inv b s)
    (hD : DRel b h0 s Open) (k v : Nat) (hkv : (k, v) ∈ s.mo) (ho : ¬ Open v) :
    (s'.h.objs v).all = (h0.objs k).all ∧
    RelD (fun c c' => (c, c') ∈ s'.mc) (h0.dicts (h0.objs k).dct) (s'.h.dicts (s'.h.objs v).dct) := by
  obtain ⟨⟨_, a2⟩, _, ⟨_, c2⟩, _⟩ := hI.obj v ⟨k, hkv⟩
  obtain ⟨r1, r2⟩ := hD.obj k v hkv ho
  rw [g.objs v a2, g.dicts _ c2]
  exact ⟨r1, RelD.mono (fun n n' h => g.mc _ h) _ _ r2⟩

/-- a step that keeps both memos -/
theorem DRel.grow {b : Nat} {h0 : Heap α} {s s' : DS α} {Open : Nat → Prop} (g : Grow s s') (hI : Inv b s)
    (hmo : s'.mo = s.mo) (hmc : s'.mc = s.mc) (hD : DRel b h0 s Open) : DRel b h0 s' Open :=
  ⟨fun c c' hc => hD.occ_step g hI c c' (hmc ▸ hc), fun k v hkv ho => hD.obj_step g hI k v (hmo ▸ hkv) ho⟩

def RecSpec3 (b : Nat) (h0 : Heap α) (f : Nat) (rec : DS α → Nat → DS α × Nat) : Prop :=
  ∀ (Open : Nat → Prop) s o, Inv b s → Below b h0 s.h → FD b h0 f o → MRel b h0 s → DRel b h0 s Open →
    DRel b h0 (rec s o).1 Open

theorem dvals_drel {b : Nat} {h0 : Heap α} {f : Nat} {rec : DS α → Nat → DS α × Nat} (h1 : RecSpec b h0 f rec)
    (h2 : RecSpec2 b h0 f rec) (h3 : RecSpec3 b h0 f rec) (Open : Nat → Prop) :
    ∀ (ts : List (HVal α)) (s : DS α), Inv b s → Below b h0 s.h → (∀ n, HVal.ref n ∈ ts → FD b h0 f n) →
      MRel b h0 s → DRel b h0 s Open → DRel b h0 (dvals rec s ts).1 Open := by
  intro ts
  induction ts with
  | nil => intro s _ _ _ _ hD; exact hD
  | cons t ts ih =>
    intro s hI hB hF hM hD
    cases t with
    | atom a => exact ih s hI hB (fun n hn => hF n (List.mem_cons_of_mem _ hn)) hM hD
    | ref n =>
      have hn := hF n (List.mem_cons_self ..)
      obtain ⟨r1, r2, _⟩ := h1 s n hI hB hn
      obtain ⟨m1, _⟩ := h2 s n hI hB hn hM
      exact ih (rec s n).1 r1 (hB.grow r2) (fun m hm => hF m (List.mem_cons_of_mem _ hm)) m1
        (h3 Open s n hI hB hn hM hD)

theorem doccs_drel {b : Nat} {h0 : Heap α} {f : Nat} {rec : DS α → Nat → DS α × Nat} (h1 : RecSpec b h0 f rec)
    (h2 : RecSpec2 b h0 f rec) (h3 : RecSpec3 b h0 f rec) (Open : Nat → Prop) :
    ∀ (ts : List (HVal α × Int)) (s : DS α), Inv b s → Below b h0 s.h →
      (∀ vp ∈ ts, ∀ n, vp.1 = HVal.ref n → FD b h0 f n) → MRel b h0 s → DRel b h0 s Open →
      DRel b h0 (doccs rec s ts).1 Open ∧
      RelO (fun n n' => (n, n') ∈ (doccs rec s ts).1.mo) ts (doccs rec s ts).2 := by
  intro ts
  induction ts with
  | nil => intro s _ _ _ _ hD; exact ⟨hD, trivial⟩
  | cons t ts ih =>
    intro s hI hB hF hM hD
    obtain ⟨v, p⟩ := t
    cases v with
    | atom a =>
      obtain ⟨j1, j2⟩ := ih s hI hB (fun vp hvp => hF vp (List.mem_cons_of_mem _ hvp)) hM hD
      exact ⟨j1, rfl, rfl, j2⟩
    | ref n =>
      have hn := hF _ (List.mem_cons_self ..) n rfl
      obtain ⟨r1, r2, _⟩ := h1 s n hI hB hn
      obtain ⟨m1, m2⟩ := h2 s n hI hB hn hM
      have hF' : ∀ vp ∈ ts, ∀ n, vp.1 = HVal.ref n → FD b h0 f n := fun vp hvp => hF vp (List.mem_cons_of_mem _ hvp)
      obtain ⟨_, i2, _⟩ := doccs_spec h1 ts (rec s n).1 r1 (hB.grow r2) hF'
      obtain ⟨j1, j2⟩ := ih (rec s n).1 r1 (hB.grow r2) hF' m1 (h3 Open s n hI hB hn hM hD)
      exact ⟨j1, i2.mo _ m2, rfl, j2⟩

theorem deepOcc_drel {b : Nat} {h0 : Heap α} {f : Nat} {rec : DS α → Nat → DS α × Nat} (h1 : RecSpec b h0 f rec)
    (h2 : RecSpec2 b h0 f rec) (h3 : RecSpec3 b h0 f rec) (Open : Nat → Prop) (s : DS α) (cell : Nat)
    (hI : Inv b s) (hB : Below b h0 s.h) (hc : cell < b)
    (hF : ∀ vp ∈ h0.occs cell, ∀ n, vp.1 = HVal.ref n → FD b h0 f n) (hM : MRel b h0 s) (hD : DRel b h0 s Open) :
    DRel b h0 (deepOcc rec s cell).1 Open ∧ (cell, (deepOcc rec s cell).2) ∈ (deepOcc rec s cell).1.mc := by
  unfold deepOcc
  split
  · rename_i c hm
    exact ⟨hD, mget_mem hm⟩
  · have eo : s.h.occs cell = h0.occs cell := (hB.2 cell hc).2.2.1
    have R := doccs_spec h1 (s.h.occs cell) s hI hB (by rw [eo]; exact hF)
    have R' := doccs_drel h1 h2 h3 Open (s.h.occs cell) s hI hB (by rw [eo]; exact hF) hM hD
    generalize doccs rec s (s.h.occs cell) = r at R R'
    rw [eo] at R'
    obtain ⟨r1, _, _⟩ := R
    obtain ⟨d1, d2⟩ := R'
    refine ⟨⟨fun c c' hcc => ?_, fun k v hkv ho => ?_⟩, List.mem_cons_self ..⟩
    · rcases List.mem_cons.mp hcc with e | e
      · cases e
        show RelO _ _ (upd r.1.h.occs r.1.h.next r.2 r.1.h.next)
        rw [upd_same]; exact d2
      · have := (r1.occ c' ⟨c, e⟩).1.2
        show RelO _ _ (upd r.1.h.occs r.1.h.next r.2 c')
        rw [upd_ne _ _ (by omega)]; exact d1.occ c c' e
    · obtain ⟨q1, q2⟩ := d1.obj k v hkv ho
      exact ⟨q1, RelD.mono (fun n n' h => List.mem_cons_of_mem _ h) _ _ q2⟩

theorem ddict_drel {b : Nat} {h0 : Heap α} {f : Nat} {rec : DS α → Nat → DS α × Nat} (h1 : RecSpec b h0 f rec)
    (h2 : RecSpec2 b h0 f rec) (h3 : RecSpec3 b h0 f rec) (Open : Nat → Prop) :
    ∀ (es : Dict Nat) (s : DS α), Inv b s → Below b h0 s.h →
      (∀ e ∈ es, e.2 < b ∧ ∀ vp ∈ h0.occs e.2, ∀ n, vp.1 = HVal.ref n → FD b h0 f n) → MRel b h0 s →
      DRel b h0 s Open → DRel b h0 (ddict rec s es).1 Open ∧
      RelD (fun c c' => (c, c') ∈ (ddict rec s es).1.mc) es (ddict rec s es).2 := by
  intro es
  induction es with
  | nil => intro s _ _ _ _ hD; exact ⟨hD, trivial⟩
  | cons e es ih =>
    intro s hI hB hF hM hD
    obtain ⟨k, cell⟩ := e
    obtain ⟨q1, q2⟩ := hF (k, cell) (List.mem_cons_self ..)
    obtain ⟨r1, r2, _⟩ := deepOcc_spec h1 s cell hI hB q1 q2
    have m1 := deepOcc_rel h1 h2 s cell hI hB q1 q2 hM
    obtain ⟨d1, d2⟩ := deepOcc_drel h1 h2 h3 Open s cell hI hB q1 q2 hM hD
    have hF' : ∀ e ∈ es, e.2 < b ∧ ∀ vp ∈ h0.occs e.2, ∀ n, vp.1 = HVal.ref n → FD b h0 f n :=
      fun e he => hF e (List.mem_cons_of_mem _ he)
    obtain ⟨_, i2, _⟩ := ddict_spec h1 es (deepOcc rec s cell).1 r1 (hB.grow r2) hF'
    obtain ⟨j1, j2⟩ := ih (deepOcc rec s cell).1 r1 (hB.grow r2) hF' m1 d1
    exact ⟨j1, rfl, i2.mc _ d2, j2⟩

theorem deepObjN_drel (b : Nat) (h0 : Heap α) : ∀ f, RecSpec3 b h0 f (deepObjN f) := by
  intro f
  induction f with
  | zero => intro _ s o _ _ hF; exact hF.elim
  | succ f ih =>
    intro Open s o hI hB hF hM hD
    have ih1 := deepObjN_spec b h0 f
    have ih2 := deepObjN_rel b h0 f
    obtain ⟨w1, w2, w3, w4, w5⟩ := hF
    have eo : s.h.objs o = h0.objs o := (hB.2 o w1).2.2.2
    simp only [deepObjN]
    split
    · exact hD
    · have el : s.h.lists (s.h.objs o).lst = h0.lists (h0.objs o).lst := by rw [eo, (hB.2 _ w2).1]
      have hFa : ∀ n, HVal.ref n ∈ s.h.lists (s.h.objs o).lst → FD b h0 f n := by rw [el]; exact w4
      have A := dvals_spec ih1 (s.h.lists (s.h.objs o).lst) s hI hB hFa
      have A' := dvals_rel ih1 ih2 (s.h.lists (s.h.objs o).lst) s hI hB hFa hM
      have A'' := dvals_drel ih1 ih2 ih Open (s.h.lists (s.h.objs o).lst) s hI hB hFa hM hD
      generalize dvals (deepObjN f) s (s.h.lists (s.h.objs o).lst) = a at A A' A'' ⊢
      rw [el] at A'
      obtain ⟨a1, a2, a3⟩ := A
      obtain ⟨am, ar⟩ := A'
      have aB := hB.grow a2
      -- __new__ + memo: the new object is open
      have Y := newObj_spec a.1 o a.2 (s.h.objs o).all a1 aB.1 a3
      have Y' := newObj_rel (h0 := h0) a.1 o a.2 (s.h.objs o).all a1 aB.1 am w1 w2 ar a3
      have Ym : (o, (newObj a.1 o a.2 (s.h.objs o).all).2) ∈ (newObj a.1 o a.2 (s.h.objs o).all).1.mo :=
        List.mem_cons_self ..
      have Yd : DRel b h0 (newObj a.1 o a.2 (s.h.objs o).all).1
          (fun v => Open v ∨ v = (newObj a.1 o a.2 (s.h.objs o).all).2) := by
        refine ⟨fun c c' hc => A''.occ_step Y.2.1 a1 c c' hc, fun k v hkv ho => ?_⟩
        rcases List.mem_cons.mp hkv with e | e
        · cases e; exact (ho (Or.inr rfl)).elim
        · exact A''.obj_step Y.2.1 a1 k v e (fun h => ho (Or.inl h))
      generalize newObj a.1 o a.2 (s.h.objs o).all = y at Y Y' Ym Yd ⊢
      obtain ⟨y1, y2, y3, y4, y5⟩ := Y
      have yB := aB.grow y2
      have el2 : y.1.h.lists (s.h.objs o).lst = h0.lists (h0.objs o).lst := by rw [eo, (yB.2 _ w2).1]
      have hFt : ∀ n, HVal.ref n ∈ y.1.h.lists (s.h.objs o).lst → FD b h0 f n := by rw [el2]; exact w4
      have T := dvals_spec ih1 (y.1.h.lists (s.h.objs o).lst) y.1 y1 yB hFt
      have T' := dvals_rel ih1 ih2 (y.1.h.lists (s.h.objs o).lst) y.1 y1 yB hFt Y'
      have T'' := dvals_drel ih1 ih2 ih _ (y.1.h.lists (s.h.objs o).lst) y.1 y1 yB hFt Y' Yd
      generalize dvals (deepObjN f) y.1 (y.1.h.lists (s.h.objs o).lst) = t at T T' T'' ⊢
      obtain ⟨t1, t2, t3⟩ := T
      obtain ⟨tm, _⟩ := T'
      have tB := yB.grow t2
      have ed : t.1.h.dicts (s.h.objs o).dct = h0.dicts (h0.objs o).dct := by rw [eo, (tB.2 _ w3).2.1]
      have hFd : ∀ e ∈ t.1.h.dicts (s.h.objs o).dct,
          e.2 < b ∧ ∀ vp ∈ h0.occs e.2, ∀ n, vp.1 = HVal.ref n → FD b h0 f n := by rw [ed]; exact w5
      have D := ddict_spec ih1 (t.1.h.dicts (s.h.objs o).dct) t.1 t1 tB hFd
      have D' := ddict_rel ih1 ih2 (t.1.h.dicts (s.h.objs o).dct) t.1 t1 tB hFd tm
      have D'' := ddict_drel ih1 ih2 ih _ (t.1.h.dicts (s.h.objs o).dct) t.1 t1 tB hFd tm T''
      generalize ddict (deepObjN f) t.1 (t.1.h.dicts (s.h.objs o).dct) = d at D D' D'' ⊢
      rw [ed] at D''
      obtain ⟨d1, d2, d3⟩ := D
      obtain ⟨dd, dr⟩ := D''
      have hoc : (o, y.2) ∈ d.1.mo := d2.mo _ (t2.mo _ Ym)
      -- __setstate__: the object is finished
      refine ⟨fun c c' hc => dd.occ c c' hc, fun k v hkv ho => ?_⟩
      by_cases e : v = y.2
      · subst e
        have : k = o := D'.inj k o _ hkv hoc
        subst this
        have h1 : (setState d.1 y.2 t.2 d.2 (s.h.objs k).all).h.objs y.2 =
            ⟨d.1.h.next, d.1.h.next + 1, (s.h.objs k).all⟩ := upd_same _ _ _
        rw [h1]
        refine ⟨by rw [eo], ?_⟩
        show RelD _ _ (upd d.1.h.dicts (d.1.h.next + 1) d.2 (d.1.h.next + 1))
        rw [upd_same]; exact dr
      · obtain ⟨q1, q2⟩ := dd.obj k v hkv (fun h => h.elim ho e)
        obtain ⟨_, _, ⟨_, c2⟩, _⟩ := d1.obj v ⟨k, hkv⟩
        have h1 : (setState d.1 y.2 t.2 d.2 (s.h.objs o).all).h.objs v = d.1.h.objs v := upd_ne _ _ e
        rw [h1]
        refine ⟨q1, ?_⟩
        show RelD _ _ (upd d.1.h.dicts (d.1.h.next + 1) d.2 (d.1.h.objs v).dct)
        rw [upd_ne _ _ (by omega)]; exact q2

/-- both views, nested, of every memoised copy are those of its original, once nothing is open -/
theorem DRel.dump {b : Nat} {h0 : Heap α} {s : DS α} (hM : MRel b h0 s) (hD : DRel b h0 s (fun _ => False)) :
    ∀ k o c, (o, c) ∈ s.mo → dumpN k s.h c = dumpN k h0 o := by
  intro k
  induction k with
  | zero => intro o c _; rfl
  | succ k ih =>
    intro o c hoc
    obtain ⟨q1, q2⟩ := hD.obj o c hoc (fun h => h)
    simp only [dumpN]
    have app2 : ∀ {a a' b b' : List (Dk α)}, a = a' → b = b' → a ++ b = a' ++ b' := by
      intro a a' b b' h1 h2; rw [h1, h2]
    refine congrArg (List.cons _) (app2 (app2 ?_ ?_) ?_)
    · exact RelL.flatMapG _ _ _ _ _ (hM.rel o c hoc).2.2 (fun n n' hr => ih n n' hr)
    · refine RelD.flatMapG
        (fun cell => (h0.occs cell).flatMap (fun vp => Dk.pos vp.2 ::
          (match vp.1 with | .atom a => [Dk.a a] | .ref n => dumpN k h0 n)))
        (fun cell => (s.h.occs cell).flatMap (fun vp => Dk.pos vp.2 ::
          (match vp.1 with | .atom a => [Dk.a a] | .ref n => dumpN k s.h n)))
        Dk.key _ _ q2 (fun cell cell' hcc => ?_)
      exact RelO.flatMapG _ _ _ _ _ _ (hD.occ cell cell' hcc) (fun n n' hr => ih n n' hr)
    · rw [q1]

end PP.PRHeap
