import PPModel.Base.PyStr
import PPModel.Mod.Parse
/-!
# `Py.scanWhile` (the translated character-scanning `while` loop) = `runLen` of the parse model

Helper lemmas for `Props/LoopSrc.lean`.
-/
namespace PP.Parse
open PP

theorem item_nat' (s : List Char) (loc : Nat) : Py.item s (loc : Int) = (s[loc]?).map (fun c => [c]) := by
  unfold Py.item
  have : ¬ ((loc : Int) < 0) := by omega
  simp [this]

/-- the fuel of `Py.scanWhile` never cuts a running loop: it is `0` only where the loop condition `loc < B` is false -/
theorem scanGo_zero_exact (loc B : Int) (h : (B - loc).toNat = 0) : ¬ (loc < B) := by omega

/-- more fuel than `(B - loc).toNat` does not change the result (so the fuel is not an observable bound) -/
theorem scanGo_fuel_irrel (s cs : List Char) (neg : Bool) (B : Int) :
    ∀ (n : Nat) (loc : Int), (B - loc).toNat ≤ n → Py.scanGo s cs neg B n loc = Py.scanWhile s cs neg loc B := by
  unfold Py.scanWhile
  intro n
  induction n with
  | zero => intro loc h; have : (B - loc).toNat = 0 := by omega
            rw [this]
  | succ k ih =>
    intro loc h
    by_cases hlt : loc < B
    · obtain ⟨m, hm⟩ : ∃ m, (B - loc).toNat = m + 1 := ⟨(B - loc).toNat - 1, by omega⟩
      rw [hm]
      simp only [Py.scanGo, hlt, if_true]
      have e1 : (B - (loc + 1)).toNat = m := by omega
      cases Py.item s loc with
      | none => rfl
      | some x =>
        by_cases hc : (Py.inChars x cs != neg) = true
        · simp only [hc, if_true]
          rw [ih (loc + 1) (by omega), e1]
        · simp [hc]
    · have : (B - loc).toNat = 0 := by omega
      rw [this]
      simp [Py.scanGo, hlt]

theorem runLen_zero (ok : Char → Bool) (s : List Char) (l : Nat) : runLen ok s l 0 = 0 := by
  simp [runLen]

theorem runLen_succ (ok : Char → Bool) (s : List Char) (l n : Nat) (h : l < s.length) :
    runLen ok s l (n + 1) = if ok s[l] then 1 + runLen ok s (l + 1) n else 0 := by
  unfold runLen
  rw [List.drop_eq_getElem_cons h, List.take_succ_cons, List.takeWhile_cons]
  by_cases hc : ok s[l] = true
  · simp [hc]; omega
  · simp [hc]

/-- the cap of `runLen` beyond the end of the text is immaterial -/
theorem runLen_cap_min (ok : Char → Bool) (s : List Char) (l cap : Nat) :
    runLen ok s l cap = runLen ok s l (min cap (s.length - l)) := by
  unfold runLen
  congr 2
  rw [List.take_eq_take_iff]
  simp

/-- **the loop**: for a start `l` and a bound `b ≤ len(s)`, the translated `while` stops at `l + runLen` -/
theorem scanGo_runLen (s cs : List Char) (neg : Bool) (ok : Char → Bool)
    (hok : ∀ c, ok c = (cs.contains c != neg)) (b : Nat) (hb : b ≤ s.length) :
    ∀ (n l : Nat), b - l = n → Py.scanGo s cs neg (b : Int) n (l : Int) = some ((l + runLen ok s l n : Nat) : Int) := by
  intro n
  induction n with
  | zero => intro l _; simp [Py.scanGo, runLen_zero]
  | succ k ih =>
    intro l h
    have hl : l < s.length := by omega
    have hlt : ((l : Int) < (b : Int)) := by omega
    simp only [Py.scanGo, hlt, if_true]
    rw [item_nat', List.getElem?_eq_getElem hl, runLen_succ ok s l k hl, hok]
    simp only [Option.map_some, Py.inChars]
    by_cases hc : (cs.contains s[l] != neg) = true
    · simp only [hc, if_true]
      have := ih (l + 1) (by omega)
      rw [show ((l : Int) + 1) = ((l + 1 : Nat) : Int) by omega, this]
      congr 1; omega
    · simp only [hc]; simp

theorem scanWhile_runLen (s cs : List Char) (neg : Bool) (ok : Char → Bool)
    (hok : ∀ c, ok c = (cs.contains c != neg)) (b l : Nat) (hb : b ≤ s.length) :
    Py.scanWhile s cs neg (l : Int) (b : Int) = some ((l + runLen ok s l (b - l) : Nat) : Int) := by
  unfold Py.scanWhile
  have : ((b : Int) - (l : Int)).toNat = b - l := by omega
  rw [this]
  exact scanGo_runLen s cs neg ok hok b hb (b - l) l rfl

/-- `s[a:b]` of CPython for natural bounds = the model's `slice` -/
theorem pySlice_nat (s : List Char) (a b : Nat) :
    Py.slice s (some (a : Int)) (some (b : Int)) = slice s a b := by
  unfold Py.slice slice Py.adjO Py.adj
  have ha : ¬ ((a : Int) < 0) := by omega
  have hb : ¬ ((b : Int) < 0) := by omega
  simp only [ha, hb, if_false, Int.toNat_natCast]
  have e1 : s.take (min b s.length) = s.take b := by
    rw [List.take_eq_take_iff]; simp
  rw [e1]
  by_cases h : a ≤ s.length
  · rw [Nat.min_eq_left h]
  · have h1 : min a s.length = s.length := by omega
    rw [h1, List.drop_eq_nil_of_le (by simp; omega), List.drop_eq_nil_of_le (by simp; omega)]

end PP.Parse
