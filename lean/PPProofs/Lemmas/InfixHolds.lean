import PPProofs.Lemmas.InfixGram
/-!
# C16 — `Holds`: outcomes of `parseX` that are stable from some fuel on, and how they compose
-/
namespace PP.Infix
open PP.Parse

section holds
variable (t : Table) (s : List Char)

/-- `parseX` on `infixGrammar t` -/
abbrev PX (f : Nat) : P := parseX (fbIds t) (infixGrammar t) s f

/-- the outcome `o` of node `id` at `loc` is reached for every fuel from some point on -/
def Holds (id loc : Nat) (a c : Bool) (o : Out) : Prop :=
  ∃ F, ∀ f, F ≤ f → PX t s f id loc a c = o

theorem Holds.step {id loc : Nat} {a c : Bool} {o : Out} (F : Nat)
    (h : ∀ f, F ≤ f → parseStepX (fbIds t) (infixGrammar t) s (PX t s f) id loc a c = o) :
    Holds t s id loc a c o := by
  refine ⟨F + 1, fun f hf => ?_⟩
  obtain ⟨f', rfl⟩ : ∃ f', f = f' + 1 := ⟨f - 1, by omega⟩
  exact h f' (by omega)

/-- `andRest` from some fuel on -/
def HRest (a : Bool) (es : List Nat) (loc : Nat) (acc : List Tok) (o : Out) : Prop :=
  ∃ F, ∀ f, F ≤ f → andRest (PX t s f) (fun _ => false) a s.length es false loc acc = o

theorem HRest.nil (a : Bool) (loc : Nat) (acc : List Tok) : HRest t s a [] loc acc (.ok loc acc) :=
  ⟨0, fun _ _ => rfl⟩

theorem HRest.cons_ok {a : Bool} {e loc l : Nat} {ts acc : List Tok} {es : List Nat} {o : Out}
    (h : Holds t s e loc a true (.ok l ts)) (hr : HRest t s a es l (acc ++ ts) o) :
    HRest t s a (e :: es) loc acc o := by
  obtain ⟨F1, h1⟩ := h
  obtain ⟨F2, h2⟩ := hr
  refine ⟨F1 + F2, fun f hf => ?_⟩
  rw [andRest_cons_ok es false acc (h1 f (by omega))]
  exact h2 f (by omega)

theorem HRest.cons_fail {a : Bool} {e loc l : Nat} {acc : List Tok} (es : List Nat)
    (h : Holds t s e loc a true (.fail .parse l)) :
    HRest t s a (e :: es) loc acc (.fail .parse l) := by
  obtain ⟨F1, h1⟩ := h
  exact ⟨F1, fun f hf => andRest_cons_fail es acc (h1 f hf)⟩

/-- the alternatives loop of a MatchFirst from some fuel on, whatever the running maximum -/
def HMf (a : Bool) (es : List Nat) (loc : Nat) (o : Out) : Prop :=
  ∃ F, ∀ f, F ≤ f → ∀ mx, mfGo (PX t s f) a s.length loc es mx = o

theorem HMf.head {a : Bool} {e loc l : Nat} {ts : List Tok} (es : List Nat)
    (h : Holds t s e loc a true (.ok l ts)) : HMf t s a (e :: es) loc (.ok l ts) := by
  obtain ⟨F1, h1⟩ := h
  exact ⟨F1, fun f hf mx => mfGo_head_ok es mx (h1 f hf)⟩

theorem HMf.skip {a : Bool} {e loc l0 : Nat} {es : List Nat} {o : Out}
    (h : Holds t s e loc a true (.fail .parse l0)) (hr : HMf t s a es loc o) : HMf t s a (e :: es) loc o := by
  obtain ⟨F1, h1⟩ := h
  obtain ⟨F2, h2⟩ := hr
  refine ⟨F1 + F2, fun f hf mx => ?_⟩
  obtain ⟨mx', hm⟩ := mfGo_skip (slen := s.length) es mx (h1 f (by omega))
  rw [hm]
  exact h2 f (by omega) mx'

/-- the repetition loop from some fuel on, for every sufficiently large loop counter -/
def HLoop (nd : Node) (a : Bool) (e loc : Nat) (acc : List Tok) (o : Out) : Prop :=
  ∃ F, ∀ f, F ≤ f → ∀ K, s.length + 1 - loc < K → manyLoop (PX t s f) nd a s.length e none K loc acc = o

theorem HLoop.stop {nd : Node} {a : Bool} {e loc l0 : Nat} (acc : List Tok) (hign : nd.ignore = [])
    (h : Holds t s e loc a true (.fail .parse l0)) : HLoop t s nd a e loc acc (.ok loc acc) := by
  obtain ⟨F1, h1⟩ := h
  refine ⟨F1, fun f hf K hK => ?_⟩
  obtain ⟨K', rfl⟩ : ∃ K', K = K' + 1 := ⟨K - 1, by omega⟩
  exact manyLoop_stop acc hign (h1 f hf)

theorem HLoop.step {nd : Node} {a : Bool} {e loc l : Nat} {ts acc : List Tok} {o : Out} (hign : nd.ignore = [])
    (h : Holds t s e loc a true (.ok l ts)) (hl : loc < l) (hls : l ≤ s.length)
    (hr : HLoop t s nd a e l (acc ++ ts) o) : HLoop t s nd a e loc acc o := by
  obtain ⟨F1, h1⟩ := h
  obtain ⟨F2, h2⟩ := hr
  refine ⟨F1 + F2, fun f hf K hK => ?_⟩
  obtain ⟨K', rfl⟩ : ∃ K', K = K' + 1 := ⟨K - 1, by omega⟩
  rw [manyLoop_step acc hign (h1 f (by omega)) hl]
  exact h2 f (by omega) K' (by omega)

end holds

/-! ### nodes of `infixGrammar t` at the `Holds` level -/

section nodes
variable (t : Table) (s : List Char)


theorem H_lit_ok {m rest : List Char} {id loc q : Nat} {a c : Bool}
    (hfb : (fbIds t).elem id = false) (hg : (infixGrammar t)[id]? = some (mkNode t.white (litKind m) false true))
    (hq : preOf t.white s c true loc = q) (hm : m ≠ []) (hs : s.drop q = m ++ rest) :
    Holds t s id loc a c (.ok (q + m.length) [.s m]) :=
  Holds.step t s 0 (fun _ _ => lit_ok _ _ s hfb hg hq hm hs)

theorem H_lit_fail {m : List Char} {id loc q : Nat} {a c : Bool}
    (hfb : (fbIds t).elem id = false) (hg : (infixGrammar t)[id]? = some (mkNode t.white (litKind m) false true))
    (hq : preOf t.white s c true loc = q) (hm : m ≠ []) (hs : ¬ m <+: s.drop q) :
    ∃ l, Holds t s id loc a c (.fail .parse l) := by
  -- the failure location does not depend on the closure
  have key : ∀ p : P, parseStepX (fbIds t) (infixGrammar t) s p id loc a c = parseStepX (fbIds t) (infixGrammar t) s (fun _ _ _ _ => .hang) id loc a c := by
    intro p
    have hk : ∀ w nl, litKind m ≠ .lineStart w nl := by intro w nl; unfold litKind; split <;> simp
    rw [stepX_plain _ _ s hfb hg hk, stepX_plain _ _ s hfb hg hk]
    congr 1
    unfold litKind
    split <;> simp [parseImpl, mkNode]
  obtain ⟨l, hl⟩ := lit_fail (fbIds t) (infixGrammar t) s (p := fun _ _ _ _ => .hang) (a := a) hfb hg hq hm hs
  exact ⟨l, Holds.step t s 0 (fun f _ => by rw [key, hl])⟩

theorem H_word_ok {cs w rest : List Char} {re : Bool} {id loc q : Nat} {a c : Bool}
    (hfb : (fbIds t).elem id = false) (hg : (infixGrammar t)[id]? = some (mkNode t.white (.word cs cs 1 none false false re) false true))
    (hq : preOf t.white s c true loc = q) (hw : w ≠ []) (hs : s.drop q = w ++ rest)
    (hin : ∀ d ∈ w, d ∈ cs) (hout : ∀ d, rest.head? = some d → d ∉ cs) :
    Holds t s id loc a c (.ok (q + w.length) [.s w]) :=
  Holds.step t s 0 (fun _ _ => word_ok _ _ s hfb hg hq hw hs hin hout)

theorem H_word_fail {cs : List Char} {re : Bool} {id loc q : Nat} {a c : Bool}
    (hfb : (fbIds t).elem id = false) (hg : (infixGrammar t)[id]? = some (mkNode t.white (.word cs cs 1 none false false re) false true))
    (hq : preOf t.white s c true loc = q) (hout : ∀ d, (s.drop q).head? = some d → d ∉ cs) :
    ∃ l, Holds t s id loc a c (.fail .parse l) := by
  have key : ∀ p : P, parseStepX (fbIds t) (infixGrammar t) s p id loc a c = parseStepX (fbIds t) (infixGrammar t) s (fun _ _ _ _ => .hang) id loc a c := by
    intro p
    rw [stepX_plain _ _ s hfb hg (by intro w nl; simp), stepX_plain _ _ s hfb hg (by intro w nl; simp)]
    congr 1
  obtain ⟨l, hl⟩ := word_fail (fbIds t) (infixGrammar t) s (p := fun _ _ _ _ => .hang) (a := a) hfb hg hq hout
  exact ⟨l, Holds.step t s 0 (fun f _ => by rw [key, hl])⟩

theorem H_forward_ok {id e loc l : Nat} {a c : Bool} {ts : List Tok}
    (hfb : (fbIds t).elem id = false) (hg : (infixGrammar t)[id]? = some (mkNode t.white (.forward (some e)) true true))
    (h : Holds t s e (preOf t.white s c true loc) a false (.ok l ts)) :
    Holds t s id loc a c (.ok l ts) := by
  obtain ⟨F, hF⟩ := h
  exact Holds.step t s F (fun f hf => forward_ok _ _ s hfb hg (hF f hf))

theorem H_group_ok {id e loc l : Nat} {a c : Bool} {ts : List Tok}
    (hfb : (fbIds t).elem id = false) (hg : (infixGrammar t)[id]? = some (mkNode t.white (.group e) true true))
    (h : Holds t s e (preOf t.white s c true loc) a false (.ok l ts)) :
    Holds t s id loc a c (.ok l [.g ts]) := by
  obtain ⟨F, hF⟩ := h
  exact Holds.step t s F (fun f hf => group_ok _ _ s hfb hg (hF f hf))

theorem H_suppress_ok {id e loc l : Nat} {a c : Bool} {ts : List Tok}
    (hfb : (fbIds t).elem id = false) (hg : (infixGrammar t)[id]? = some (mkNode t.white (.suppress e) false true))
    (h : Holds t s e (preOf t.white s c true loc) a false (.ok l ts)) :
    Holds t s id loc a c (.ok l []) := by
  obtain ⟨F, hF⟩ := h
  exact Holds.step t s F (fun f hf => suppress_ok _ _ s hfb hg (hF f hf))

theorem H_opt_ok {id e loc l : Nat} {a c : Bool} {ts : List Tok}
    (hfb : (fbIds t).elem id = false) (hg : (infixGrammar t)[id]? = some (mkNode t.white (.opt e none) false true))
    (h : Holds t s e (preOf t.white s c true loc) a false (.ok l ts)) :
    Holds t s id loc a c (.ok l ts) := by
  obtain ⟨F, hF⟩ := h
  exact Holds.step t s F (fun f hf => opt_ok _ _ s hfb hg (hF f hf))

theorem H_mf_ok {id loc l : Nat} {a c : Bool} {es : List Nat} {ts : List Tok}
    (hfb : (fbIds t).elem id = false) (hg : (infixGrammar t)[id]? = some (mkNode t.white (.matchFirst es) true false))
    (h : HMf t s a es loc (.ok l ts)) : Holds t s id loc a c (.ok l ts) := by
  obtain ⟨F, hF⟩ := h
  exact Holds.step t s F (fun f hf => mf_ok _ _ s hfb hg (hF f hf none))

theorem H_mf_inv {id loc l : Nat} {a c : Bool} {es : List Nat} {ts : List Tok}
    (hfb : (fbIds t).elem id = false) (hg : (infixGrammar t)[id]? = some (mkNode t.white (.matchFirst es) true false))
    (h : Holds t s id loc a c (.ok l ts)) : HMf t s a es loc (.ok l ts) := by
  obtain ⟨F, hF⟩ := h
  refine ⟨F, fun f hf mx => ?_⟩
  have h1 : parseStepX (fbIds t) (infixGrammar t) s (PX t s f) id loc a c = .ok l ts := hF (f + 1) (by omega)
  exact mfGo_ok_mx _ _ _ _ _ none mx (mf_ok_inv _ _ s hfb hg h1)

theorem H_and {id e0 loc : Nat} {a c : Bool} {es : List Nat} {l0 : Nat} {t0 : List Tok} {o : Out}
    (hfb : (fbIds t).elem id = false) (hg : (infixGrammar t)[id]? = some (mkNode t.white (.and (e0 :: es)) true true))
    (hns : ∀ (i : Nat) (nd : Node), (infixGrammar t)[i]? = some nd → nd.kind ≠ Kind.errorStop)
    (h0 : Holds t s e0 (preOf t.white s c true loc) a false (.ok l0 t0))
    (hr : HRest t s a es l0 t0 o) (ho : (∃ l ts, o = .ok l ts) ∨ ∃ l, o = .fail .parse l) :
    Holds t s id loc a c o := by
  obtain ⟨F1, h1⟩ := h0
  obtain ⟨F2, h2⟩ := hr
  refine Holds.step t s (F1 + F2) (fun f hf => ?_)
  rw [and_eq _ _ s hfb hg hns]
  simp only [andImpl, h1 f (by omega), h2 f (by omega)]
  rcases ho with ⟨l, ts, rfl⟩ | ⟨l, rfl⟩
  · exact fin_and_ok
  · exact fin_and_fail

theorem H_and_fail0 {id e0 loc l : Nat} {a c : Bool} {es : List Nat}
    (hfb : (fbIds t).elem id = false) (hg : (infixGrammar t)[id]? = some (mkNode t.white (.and (e0 :: es)) true true))
    (hns : ∀ (i : Nat) (nd : Node), (infixGrammar t)[i]? = some nd → nd.kind ≠ Kind.errorStop)
    (h0 : Holds t s e0 (preOf t.white s c true loc) a false (.fail .parse l)) :
    Holds t s id loc a c (.fail .parse l) := by
  obtain ⟨F1, h1⟩ := h0
  refine Holds.step t s F1 (fun f hf => ?_)
  rw [and_eq _ _ s hfb hg hns]
  simp only [andImpl, h1 f hf]
  exact fin_and_fail

theorem H_fb_ok {id e loc l : Nat} {a c : Bool} {ts : List Tok}
    (hfb : (fbIds t).elem id = true) (hg : (infixGrammar t)[id]? = some (mkNode t.white (.followedBy e) true true))
    (h : Holds t s e (preOf t.white s c true loc) false true (.ok l ts)) :
    Holds t s id loc a c (.ok (preOf t.white s c true loc) []) := by
  obtain ⟨F, hF⟩ := h
  exact Holds.step t s F (fun f hf => by rw [fb_eq _ _ s hfb hg, hF f hf])

theorem H_fb_fail {id e loc l : Nat} {a c : Bool}
    (hfb : (fbIds t).elem id = true) (hg : (infixGrammar t)[id]? = some (mkNode t.white (.followedBy e) true true))
    (h : Holds t s e (preOf t.white s c true loc) false true (.fail .parse l)) :
    Holds t s id loc a c (.fail .parse l) := by
  obtain ⟨F, hF⟩ := h
  exact Holds.step t s F (fun f hf => by rw [fb_eq _ _ s hfb hg, hF f hf])

theorem H_many {id e loc l : Nat} {a c mi : Bool} {ts : List Tok} {l' : Nat} {ts' : List Tok}
    (hfb : (fbIds t).elem id = false) (hg : (infixGrammar t)[id]? = some (mkNode t.white (.many e none true) mi true))
    (h : Holds t s e (preOf t.white s c true loc) a true (.ok l ts)) (hls : l ≤ s.length)
    (hr : HLoop t s (mkNode t.white (.many e none true) mi true) a e l ts (.ok l' ts')) :
    Holds t s id loc a c (.ok l' ts') := by
  obtain ⟨F1, h1⟩ := h
  obtain ⟨F2, h2⟩ := hr
  refine Holds.step t s (F1 + F2) (fun f hf => ?_)
  rw [many_eq _ _ s hfb hg]
  simp only [manyImpl, h1 f (by omega), h2 f (by omega) (s.length + 2) (by omega)]
  simp [fin, postParse, mkNode]

end nodes
end PP.Infix
