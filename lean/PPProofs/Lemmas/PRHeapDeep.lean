import PPModel.Mod.PRHeapDeep
import PPProofs.Props.C11Heap
/-!
  Helper lemmas for `PPProofs/Props/C11Deep.lean`: heap extension (`Ext`), token trees inside a region (`TIn`), the
  correspondence `Corr` between an object and its `deepcopy()` at every depth, and what follows from it.
-/
namespace PP.PRHeap

variable {α : Type}

/-! ### heap extension: nothing allocated is written to; occurrence lists are not touched at all -/

structure Ext (h h' : Heap α) : Prop where
  next : h.next ≤ h'.next
  lists : ∀ i, i < h.next → h'.lists i = h.lists i
  dicts : ∀ i, i < h.next → h'.dicts i = h.dicts i
  objs : ∀ i, i < h.next → h'.objs i = h.objs i
  occs : h'.occs = h.occs

theorem Ext.refl (h : Heap α) : Ext h h := ⟨Nat.le_refl _, fun _ _ => rfl, fun _ _ => rfl, fun _ _ => rfl, rfl⟩

theorem Ext.trans {h1 h2 h3 : Heap α} (a : Ext h1 h2) (b : Ext h2 h3) : Ext h1 h3 :=
  ⟨Nat.le_trans a.next b.next,
   fun i hi => (b.lists i (Nat.lt_of_lt_of_le hi a.next)).trans (a.lists i hi),
   fun i hi => (b.dicts i (Nat.lt_of_lt_of_le hi a.next)).trans (a.dicts i hi),
   fun i hi => (b.objs i (Nat.lt_of_lt_of_le hi a.next)).trans (a.objs i hi),
   b.occs.trans a.occs⟩

theorem copy_next (h : Heap α) (o : Nat) : (copy h o).1.next = h.next + 3 := rfl
theorem copy_snd (h : Heap α) (o : Nat) : (copy h o).2 = h.next + 2 := rfl

theorem copy_ext (h : Heap α) (o : Nat) : Ext h (copy h o).1 :=
  ⟨by rw [copy_next]; omega,
   fun i hi => upd_ne _ _ (by omega), fun i hi => upd_ne _ _ (by omega), fun i hi => upd_ne _ _ (by omega), rfl⟩

theorem goToks_ext (rec : Heap α → Nat → Heap α × Nat) (hrec : ∀ h n, Ext h (rec h n).1)
    (ts : List (HVal α)) : ∀ h, Ext h (goToks rec h ts).1 := by
  induction ts with
  | nil => intro h; exact Ext.refl h
  | cons t ts ih =>
    intro h
    cases t with
    | atom a => exact ih h
    | ref n => exact (hrec h n).trans (ih _)

/-- `deepcopy()` only allocates: every existing cell and object keeps its content, occurrence lists are untouched -/
theorem deepcopyN_ext (f : Nat) : ∀ (h : Heap α) (o : Nat), Ext h (deepcopyN f h o).1 := by
  induction f with
  | zero => intro h o; exact copy_ext h o
  | succ f ih =>
    intro h o
    have e : Ext h (goToks (deepcopyN f) (copy h o).1 (h.lists (h.objs o).lst)).1 :=
      (copy_ext h o).trans (goToks_ext _ ih _ _)
    exact ⟨e.next, fun i hi => (upd_ne _ _ (by omega)).trans (e.lists i hi), e.dicts, e.objs, e.occs⟩

/-! ### token trees of bounded depth inside a region -/

/-- the token tree of `o` has depth ≤ `d`, its objects satisfy `Q`, their list and dict cells satisfy `S` -/
def TIn (Q S : Nat → Prop) (h : Heap α) : Nat → Nat → Prop
  | 0, o => Q o ∧ S (h.objs o).lst ∧ S (h.objs o).dct ∧ ∀ n, HVal.ref n ∉ h.lists (h.objs o).lst
  | d + 1, o => Q o ∧ S (h.objs o).lst ∧ S (h.objs o).dct ∧
      ∀ n, HVal.ref n ∈ h.lists (h.objs o).lst → TIn Q S h d n

/-- well-formed token tree of depth ≤ `d`: every object and cell of it is allocated -/
abbrev TWF (h : Heap α) (d o : Nat) : Prop := TIn (· < h.next) (· < h.next) h d o

theorem TIn.mono_depth {Q S : Nat → Prop} {h : Heap α} : ∀ {d o}, TIn Q S h d o → TIn Q S h (d + 1) o := by
  intro d
  induction d with
  | zero => intro o hw; exact ⟨hw.1, hw.2.1, hw.2.2.1, fun n hn => absurd hn (hw.2.2.2 n)⟩
  | succ d ih => intro o hw; exact ⟨hw.1, hw.2.1, hw.2.2.1, fun n hn => ih (hw.2.2.2 n hn)⟩

/-- a tree keeps being a tree in any heap that agrees on its objects and cells -/
theorem TIn.agree {Q S Q' S' : Nat → Prop} {h h' : Heap α} (ho : ∀ i, Q i → h'.objs i = h.objs i)
    (hl : ∀ i, S i → h'.lists i = h.lists i) (hq : ∀ i, Q i → Q' i) (hs : ∀ i, S i → S' i) :
    ∀ d o, TIn Q S h d o → TIn Q' S' h' d o := by
  intro d
  induction d with
  | zero =>
    intro o hw
    obtain ⟨a, b, c, e⟩ := hw
    refine ⟨hq _ a, ?_, ?_, ?_⟩
    · rw [ho o a]; exact hs _ b
    · rw [ho o a]; exact hs _ c
    · rw [ho o a, hl _ b]; exact e
  | succ d ih =>
    intro o hw
    obtain ⟨a, b, c, e⟩ := hw
    refine ⟨hq _ a, ?_, ?_, ?_⟩
    · rw [ho o a]; exact hs _ b
    · rw [ho o a]; exact hs _ c
    · rw [ho o a, hl _ b]; intro n hn; exact ih n (e n hn)

theorem TWF.ext {h h' : Heap α} (e : Ext h h') {d o : Nat} (hw : TWF h d o) : TWF h' d o :=
  TIn.agree (fun i hi => e.objs i hi) (fun i hi => e.lists i hi)
    (fun _ hi => Nat.lt_of_lt_of_le hi e.next) (fun _ hi => Nat.lt_of_lt_of_le hi e.next) d o hw

/-- reachability through token lists only -/
inductive TReach (h : Heap α) : Nat → Nat → Prop where
  | refl (o : Nat) : TReach h o o
  | step {o n x : Nat} : HVal.ref n ∈ h.lists (h.objs o).lst → TReach h n x → TReach h o x

theorem TIn.reach {Q S : Nat → Prop} {h : Heap α} {o x : Nat} (hr : TReach h o x) :
    ∀ d, TIn Q S h d o → Q x ∧ S (h.objs x).lst ∧ S (h.objs x).dct := by
  induction hr with
  | refl o => intro d hw; cases d <;> exact ⟨hw.1, hw.2.1, hw.2.2.1⟩
  | step hm _ ih =>
    intro d hw
    cases d with
    | zero => exact absurd hm (hw.2.2.2 _)
    | succ d => exact ih d (hw.2.2.2 _ hm)

/-- `as_list()` only reads the objects and list cells of the token tree -/
theorem asListN_agree {Q S : Nat → Prop} {h h' : Heap α} (ho : ∀ i, Q i → h'.objs i = h.objs i)
    (hl : ∀ i, S i → h'.lists i = h.lists i) :
    ∀ k d o, TIn Q S h d o → asListN k h' o = asListN k h o := by
  intro k
  induction k with
  | zero => intro d o _; rfl
  | succ k ih =>
    intro d o hw
    have hq : Q o := by cases d <;> exact hw.1
    have hs : S (h.objs o).lst := by cases d <;> exact hw.2.1
    simp only [asListN]
    rw [ho o hq, hl _ hs]
    congr 2
    rw [List.flatMap_def, List.flatMap_def]
    congr 1
    apply List.map_congr_left
    intro v hv
    cases v with
    | atom a => rfl
    | ref n =>
      cases d with
      | zero => exact absurd hv (hw.2.2.2 n)
      | succ d => exact ih d n (hw.2.2.2 n hv)

/-! ### own mutations of an object write to its own list cell only, and to no object -/

theorem mutate_objs (h : Heap α) (x : Nat) (m : Mut α) : (mutate h x m).objs = h.objs := by
  cases m <;> simp only [mutate] <;> (try split) <;> rfl

theorem mutate_lists (h : Heap α) (x : Nat) (m : Mut α) (i : Nat) (hi : i ≠ (h.objs x).lst) :
    (mutate h x m).lists i = h.lists i := by
  cases m <;> simp only [mutate] <;> (try split) <;> first | rfl | exact upd_ne _ _ hi

theorem mutateAll_objs_lists (ms : List (Mut α)) : ∀ (h : Heap α) (x : Nat),
    (mutateAll h x ms).objs = h.objs ∧
    ∀ i, i ≠ (h.objs x).lst → (mutateAll h x ms).lists i = h.lists i := by
  induction ms with
  | nil => intro h x; exact ⟨rfl, fun _ _ => rfl⟩
  | cons m ms ih =>
    intro h x
    obtain ⟨a, b⟩ := ih (mutate h x m) x
    simp only [mutateAll]
    refine ⟨a.trans (mutate_objs h x m), fun i hi => ?_⟩
    rw [b i (by rw [mutate_objs]; exact hi), mutate_lists h x m i hi]

/-! ### the correspondence between an object and its deep copy -/

/-- pointwise relation of two token lists: equal scalars, `R`-related nested results -/
def RelL (R : Nat → Nat → Prop) : List (HVal α) → List (HVal α) → Prop
  | [], [] => True
  | .atom a :: ts, .atom a' :: ts' => a = a' ∧ RelL R ts ts'
  | .ref n :: ts, .ref n' :: ts' => R n n' ∧ RelL R ts ts'
  | _, _ => False

theorem RelL.mono_mem {R R' : Nat → Nat → Prop} : ∀ (ts ts' : List (HVal α)),
    (∀ n n', HVal.ref n ∈ ts → R n n' → R' n n') → RelL R ts ts' → RelL R' ts ts' := by
  intro ts
  induction ts with
  | nil => intro ts' _ hr; cases ts' <;> simp_all [RelL]
  | cons t ts ih =>
    intro ts' hm hr
    cases ts' with
    | nil => cases t <;> simp [RelL] at hr
    | cons t' ts' =>
      cases t <;> cases t' <;> simp only [RelL] at hr ⊢
      · exact ⟨hr.1, ih ts' (fun n n' hn => hm n n' (List.mem_cons_of_mem _ hn)) hr.2⟩
      · exact ⟨hm _ _ (List.mem_cons_self ..) hr.1,
          ih ts' (fun n n' hn => hm n n' (List.mem_cons_of_mem _ hn)) hr.2⟩

theorem RelL.mono {R R' : Nat → Nat → Prop} (ts ts' : List (HVal α)) (hm : ∀ n n', R n n' → R' n n')
    (hr : RelL R ts ts') : RelL R' ts ts' := RelL.mono_mem ts ts' (fun n n' _ => hm n n') hr

theorem RelL.refl_atoms (R : Nat → Nat → Prop) : ∀ (ts : List (HVal α)), (∀ n, HVal.ref n ∉ ts) → RelL R ts ts := by
  intro ts
  induction ts with
  | nil => intro _; trivial
  | cons t ts ih =>
    intro hn
    cases t with
    | atom a => exact ⟨rfl, ih (fun n hm => hn n (List.mem_cons_of_mem _ hm))⟩
    | ref n => exact absurd (List.mem_cons_self ..) (hn n)

theorem RelL.mem_right {R : Nat → Nat → Prop} : ∀ (ts ts' : List (HVal α)) (n' : Nat), RelL R ts ts' →
    HVal.ref n' ∈ ts' → ∃ n, HVal.ref n ∈ ts ∧ R n n' := by
  intro ts
  induction ts with
  | nil => intro ts' n' hr hm; cases ts' <;> simp_all [RelL]
  | cons t ts ih =>
    intro ts' n' hr hm
    cases ts' with
    | nil => cases hm
    | cons t' ts' =>
      cases t <;> cases t' <;> simp only [RelL] at hr
      · rcases List.mem_cons.mp hm with e | e
        · cases e
        · obtain ⟨n, a, b⟩ := ih ts' n' hr.2 e
          exact ⟨n, List.mem_cons_of_mem _ a, b⟩
      · rcases List.mem_cons.mp hm with e | e
        · cases e; exact ⟨_, List.mem_cons_self .., hr.1⟩
        · obtain ⟨n, a, b⟩ := ih ts' n' hr.2 e
          exact ⟨n, List.mem_cons_of_mem _ a, b⟩

theorem RelL.mem_left {R : Nat → Nat → Prop} : ∀ (ts ts' : List (HVal α)) (n : Nat), RelL R ts ts' →
    HVal.ref n ∈ ts → ∃ n', HVal.ref n' ∈ ts' ∧ R n n' := by
  intro ts
  induction ts with
  | nil => intro ts' n _ hm; cases hm
  | cons t ts ih =>
    intro ts' n hr hm
    cases ts' with
    | nil => cases t <;> simp [RelL] at hr
    | cons t' ts' =>
      cases t <;> cases t' <;> simp only [RelL] at hr
      · rcases List.mem_cons.mp hm with e | e
        · cases e
        · obtain ⟨n', a, b⟩ := ih ts' n hr.2 e
          exact ⟨n', List.mem_cons_of_mem _ a, b⟩
      · rcases List.mem_cons.mp hm with e | e
        · cases e; exact ⟨_, List.mem_cons_self .., hr.1⟩
        · obtain ⟨n', a, b⟩ := ih ts' n hr.2 e
          exact ⟨n', List.mem_cons_of_mem _ a, b⟩

theorem RelL.flatMap {R : Nat → Nat → Prop} {β : Type} (F G : Nat → List (Tk β)) (c : α → List (Tk β)) :
    ∀ (ts ts' : List (HVal α)), RelL R ts ts' → (∀ n n', R n n' → G n' = F n) →
    ts'.flatMap (fun v => match v with | .atom a => c a | .ref n => G n) =
    ts.flatMap (fun v => match v with | .atom a => c a | .ref n => F n) := by
  intro ts
  induction ts with
  | nil => intro ts' hr _; cases ts' <;> simp_all [RelL]
  | cons t ts ih =>
    intro ts' hr hf
    cases ts' with
    | nil => cases t <;> simp [RelL] at hr
    | cons t' ts' =>
      cases t <;> cases t' <;> simp only [RelL] at hr
      · simp only [List.flatMap_cons]; rw [ih ts' hr.2 hf, hr.1]
      · simp only [List.flatMap_cons]; rw [ih ts' hr.2 hf, hf _ _ hr.1]

/-- the copy `c` is an allocated object at or above `b`, so are its list cell and dict cell; its dict has the
    entries of `o`'s dict (the same occurrence-list cells) and the same list-all names -/
def CorrNode (b : Nat) (h h' : Heap α) (o c : Nat) : Prop :=
  (b ≤ c ∧ c < h'.next) ∧ (b ≤ (h'.objs c).lst ∧ (h'.objs c).lst < h'.next) ∧
  (b ≤ (h'.objs c).dct ∧ (h'.objs c).dct < h'.next) ∧
  h'.dicts (h'.objs c).dct = h.dicts (h.objs o).dct ∧ (h'.objs c).all = (h.objs o).all

/-- `c` (in `h'`) is a deep copy of `o` (in `h`) along the token tree, to depth `d` -/
def Corr (b : Nat) (h h' : Heap α) : Nat → Nat → Nat → Prop
  | 0, o, c => CorrNode b h h' o c ∧
      RelL (fun _ _ => False) (h.lists (h.objs o).lst) (h'.lists (h'.objs c).lst)
  | d + 1, o, c => CorrNode b h h' o c ∧
      RelL (Corr b h h' d) (h.lists (h.objs o).lst) (h'.lists (h'.objs c).lst)

theorem Corr.node {b : Nat} {h h' : Heap α} {d o c : Nat} (hc : Corr b h h' d o c) : CorrNode b h h' o c := by
  cases d <;> exact hc.1

/-- move the copy side to a heap that agrees on the copy's region; lower the bound -/
theorem Corr.transport {b b' : Nat} {h h1 h2 : Heap α} (hb : b' ≤ b) (hn : h1.next ≤ h2.next)
    (hl : ∀ i, b ≤ i → i < h1.next → h2.lists i = h1.lists i)
    (hd : ∀ i, b ≤ i → i < h1.next → h2.dicts i = h1.dicts i)
    (ho : ∀ i, b ≤ i → i < h1.next → h2.objs i = h1.objs i) :
    ∀ d o c, Corr b h h1 d o c → Corr b' h h2 d o c := by
  have node : ∀ o c, CorrNode b h h1 o c → CorrNode b' h h2 o c ∧ h2.objs c = h1.objs c ∧
      h2.lists (h1.objs c).lst = h1.lists (h1.objs c).lst := by
    intro o c ⟨⟨a1, a2⟩, ⟨b1, b2⟩, ⟨c1, c2⟩, e1, e2⟩
    have e := ho c a1 a2
    refine ⟨⟨⟨by omega, by omega⟩, ?_, ?_, ?_, ?_⟩, e, hl _ b1 b2⟩
    · rw [e]; exact ⟨by omega, by omega⟩
    · rw [e]; exact ⟨by omega, by omega⟩
    · rw [e, hd _ c1 c2]; exact e1
    · rw [e]; exact e2
  intro d
  induction d with
  | zero =>
    intro o c hc
    obtain ⟨n1, n2, n3⟩ := node o c hc.1
    refine ⟨n1, ?_⟩
    rw [n2, n3]; exact hc.2
  | succ d ih =>
    intro o c hc
    obtain ⟨n1, n2, n3⟩ := node o c hc.1
    refine ⟨n1, ?_⟩
    rw [n2, n3]; exact RelL.mono _ _ (fun n n' => ih n n') hc.2

/-- move the original side back along a heap extension -/
theorem Corr.orig {b : Nat} {h hi h' : Heap α} (e : Ext h hi) :
    ∀ d o c, TWF h d o → Corr b hi h' d o c → Corr b h h' d o c := by
  have node : ∀ o c, o < h.next → (h.objs o).lst < h.next → (h.objs o).dct < h.next →
      CorrNode b hi h' o c → CorrNode b h h' o c ∧ hi.lists (hi.objs o).lst = h.lists (h.objs o).lst := by
    intro o c w1 w2 w3 ⟨a, b', c', e1, e2⟩
    have eo := e.objs o w1
    refine ⟨⟨a, b', c', ?_, ?_⟩, ?_⟩
    · rw [e1, eo, e.dicts _ w3]
    · rw [e2, eo]
    · rw [eo, e.lists _ w2]
  intro d
  induction d with
  | zero =>
    intro o c hw hc
    obtain ⟨n1, n2⟩ := node o c hw.1 hw.2.1 hw.2.2.1 hc.1
    refine ⟨n1, ?_⟩
    rw [← n2]; exact hc.2
  | succ d ih =>
    intro o c hw hc
    obtain ⟨n1, n2⟩ := node o c hw.1 hw.2.1 hw.2.2.1 hc.1
    refine ⟨n1, ?_⟩
    have := hc.2
    rw [n2] at this
    exact RelL.mono_mem _ _ (fun n n' hn hr => ih n n' (hw.2.2.2 n hn) hr) this

/-- the loop of `deepcopy()` over a token list, given the statement for the recursive calls -/
theorem goToks_corr (f : Nat) (h : Heap α)
    (ih : ∀ (h : Heap α) (o : Nat), TWF h f o → Corr h.next h (deepcopyN f h o).1 f o (deepcopyN f h o).2) :
    ∀ (ts : List (HVal α)) (hi : Heap α), Ext h hi → (∀ n, HVal.ref n ∈ ts → TWF h f n) →
      RelL (Corr hi.next h (goToks (deepcopyN f) hi ts).1 f) ts (goToks (deepcopyN f) hi ts).2 := by
  intro ts
  induction ts with
  | nil => intro hi _ _; trivial
  | cons t ts iht =>
    intro hi e hw
    cases t with
    | atom a => exact ⟨rfl, iht hi e (fun n hn => hw n (List.mem_cons_of_mem _ hn))⟩
    | ref n =>
      have e1 : Ext hi (deepcopyN f hi n).1 := deepcopyN_ext f hi n
      have e2 : Ext (deepcopyN f hi n).1 (goToks (deepcopyN f) (deepcopyN f hi n).1 ts).1 :=
        goToks_ext _ (deepcopyN_ext f) _ _
      have wn : TWF h f n := hw n (List.mem_cons_self ..)
      have c1 := Corr.orig e f n _ wn (ih hi n (TWF.ext e wn))
      have c2 := Corr.transport (b := hi.next) (b' := hi.next) (Nat.le_refl _) e2.next
        (fun i _ hi2 => e2.lists i hi2) (fun i _ hi2 => e2.dicts i hi2) (fun i _ hi2 => e2.objs i hi2) f n _ c1
      refine ⟨c2, ?_⟩
      have t1 := iht (deepcopyN f hi n).1 (e.trans e1) (fun m hm => hw m (List.mem_cons_of_mem _ hm))
      exact RelL.mono _ _ (fun m m' hc =>
        Corr.transport (b := (deepcopyN f hi n).1.next) (b' := hi.next) e1.next (Nat.le_refl _)
          (fun _ _ _ => rfl) (fun _ _ _ => rfl) (fun _ _ _ => rfl) f m m' hc) t1

/-- **the copy made by `deepcopy()` corresponds to the original along the whole token tree**, and is allocated
    at or above the original heap's allocation pointer -/
theorem deepcopyN_corr (f : Nat) : ∀ (h : Heap α) (o : Nat), TWF h f o →
    Corr h.next h (deepcopyN f h o).1 f o (deepcopyN f h o).2 := by
  induction f with
  | zero =>
    intro h o hw
    have hc : (copy h o).1.objs (copy h o).2 = ⟨h.next, h.next + 1, (h.objs o).all⟩ := upd_same _ _ _
    have hl' : (copy h o).1.lists h.next = h.lists (h.objs o).lst := upd_same _ _ _
    have hd' : (copy h o).1.dicts (h.next + 1) = h.dicts (h.objs o).dct := upd_same _ _ _
    refine ⟨⟨?_, ?_, ?_, ?_, ?_⟩, ?_⟩
    · show h.next ≤ h.next + 2 ∧ h.next + 2 < h.next + 3; omega
    · show _ ∧ _ < h.next + 3; rw [show deepcopyN 0 h o = copy h o from rfl, hc]; simp only; omega
    · show _ ∧ _ < h.next + 3; rw [show deepcopyN 0 h o = copy h o from rfl, hc]; simp only; omega
    · rw [show deepcopyN 0 h o = copy h o from rfl, hc]; exact hd'
    · rw [show deepcopyN 0 h o = copy h o from rfl, hc]
    · rw [show deepcopyN 0 h o = copy h o from rfl, hc]; simp only; rw [hl']
      exact RelL.refl_atoms _ _ hw.2.2.2
  | succ f ih =>
    intro h o hw
    -- names for the pieces
    have hg := goToks_corr f h ih (h.lists (h.objs o).lst) (copy h o).1 (copy_ext h o) hw.2.2.2
    have eg : Ext (copy h o).1 (goToks (deepcopyN f) (copy h o).1 (h.lists (h.objs o).lst)).1 :=
      goToks_ext _ (deepcopyN_ext f) _ _
    generalize hG : goToks (deepcopyN f) (copy h o).1 (h.lists (h.objs o).lst) = g at hg eg
    have hF : deepcopyN (f + 1) h o = ({ g.1 with lists := upd g.1.lists h.next g.2 }, h.next + 2) := by
      simp only [deepcopyN, hG]; rfl
    rw [hF]
    have hc : g.1.objs (h.next + 2) = ⟨h.next, h.next + 1, (h.objs o).all⟩ :=
      (eg.objs _ (by rw [copy_next]; omega)).trans (upd_same _ _ _)
    have hd' : g.1.dicts (h.next + 1) = h.dicts (h.objs o).dct :=
      (eg.dicts _ (by rw [copy_next]; omega)).trans (upd_same _ _ _)
    have hn : h.next + 3 ≤ g.1.next := eg.next
    refine ⟨⟨?_, ?_, ?_, ?_, ?_⟩, ?_⟩
    · show h.next ≤ h.next + 2 ∧ h.next + 2 < g.1.next; omega
    · show h.next ≤ (g.1.objs (h.next + 2)).lst ∧ (g.1.objs (h.next + 2)).lst < g.1.next
      rw [hc]; simp only; omega
    · show h.next ≤ (g.1.objs (h.next + 2)).dct ∧ (g.1.objs (h.next + 2)).dct < g.1.next
      rw [hc]; simp only; omega
    · show g.1.dicts (g.1.objs (h.next + 2)).dct = _
      rw [hc]; exact hd'
    · show (g.1.objs (h.next + 2)).all = _
      rw [hc]
    · show RelL _ _ (upd g.1.lists h.next g.2 (g.1.objs (h.next + 2)).lst)
      rw [hc]; simp only; rw [upd_same]
      refine RelL.mono _ _ (fun n n' hcn => ?_) hg
      exact Corr.transport (b := (copy h o).1.next) (b' := h.next) (h1 := g.1)
        (h2 := { g.1 with lists := upd g.1.lists h.next g.2 }) (by rw [copy_next]; omega) (Nat.le_refl _)
        (fun i hi _ => upd_ne _ _ (by rw [copy_next] at hi; omega)) (fun _ _ _ => rfl) (fun _ _ _ => rfl) f n n' hcn

/-! ### what follows from the correspondence -/

/-- every object of the copy's token tree, and its list cell and dict cell, is at or above `b` -/
theorem Corr.fresh {b : Nat} {h h' : Heap α} : ∀ d o c, Corr b h h' d o c →
    TIn (fun i => b ≤ i ∧ i < h'.next) (fun i => b ≤ i ∧ i < h'.next) h' d c := by
  intro d
  induction d with
  | zero =>
    intro o c hc
    obtain ⟨a1, a2, a3, _, _⟩ := hc.1
    exact ⟨a1, a2, a3, fun n hn => (RelL.mem_right _ _ n hc.2 hn).elim (fun _ hx => hx.2)⟩
  | succ d ih =>
    intro o c hc
    obtain ⟨a1, a2, a3, _, _⟩ := hc.1
    refine ⟨a1, a2, a3, fun n hn => ?_⟩
    obtain ⟨m, _, hm⟩ := RelL.mem_right _ _ n hc.2 hn
    exact ih m n hm

/-- the copy's `as_list()` is the original's, to every observation depth -/
theorem Corr.asList {b : Nat} {h h' : Heap α} : ∀ k d o c, Corr b h h' d o c →
    asListN k h' c = asListN k h o := by
  intro k
  induction k with
  | zero => intro d o c _; rfl
  | succ k ih =>
    intro d o c hc
    simp only [asListN]
    congr 2
    cases d with
    | zero => exact RelL.flatMap _ _ _ _ _ hc.2 (fun _ _ hf => hf.elim)
    | succ d => exact RelL.flatMap _ _ _ _ _ hc.2 (fun n n' hr => ih d n n' hr)

/-- every object of the original's token tree has a counterpart in the copy's token tree whose name table has the
    very same entries (the same occurrence-list cells) -/
theorem Corr.dict_shared {b : Nat} {h h' : Heap α} {o x : Nat} (hr : TReach h o x) :
    ∀ d c, Corr b h h' d o c → ∃ x', TReach h' c x' ∧ b ≤ x' ∧
      h'.dicts (h'.objs x').dct = h.dicts (h.objs x).dct := by
  induction hr with
  | refl o =>
    intro d c hc
    have := hc.node
    exact ⟨c, TReach.refl c, this.1.1, this.2.2.2.1⟩
  | step hm _ ih =>
    intro d c hc
    cases d with
    | zero => obtain ⟨_, _, hf⟩ := RelL.mem_left _ _ _ hc.2 hm; exact hf.elim
    | succ d =>
      obtain ⟨n', hn', hcn⟩ := RelL.mem_left _ _ _ hc.2 hm
      obtain ⟨x', r1, r2, r3⟩ := ih d n' hcn
      exact ⟨x', TReach.step hn' r1, r2, r3⟩

end PP.PRHeap
