import PPModel.Mod.Diagram
/-! Helper lemmas for C20: the output stage of `to_railroad` (de-duplication, ordering). -/
namespace PP.Diagram

theorem dedupe_spec : ∀ (l : List DEntry) (seen : List (Option String)),
    ((dedupe l seen).map (·.name)).Nodup ∧ ∀ d ∈ dedupe l seen, d.name ∉ seen := by
  intro l
  induction l with
  | nil => intro seen; simp [dedupe]
  | cons d ds ih =>
    intro seen
    unfold dedupe
    split
    · exact ih seen
    · split
      · rename_i h1 h2
        obtain ⟨hn, hs⟩ := ih (d.name :: seen)
        have hnot : d.name ∉ seen := by
          simp only [Bool.and_eq_true, Bool.not_eq_true', List.contains_eq_mem, decide_eq_false_iff_not] at h2
          exact h2.2
        refine ⟨?_, ?_⟩
        · simp only [List.map_cons, List.nodup_cons]
          refine ⟨?_, hn⟩
          intro hmem
          obtain ⟨e, he, hen⟩ := List.mem_map.mp hmem
          have := hs e he
          rw [hen] at this
          exact this (List.mem_cons_self ..)
        · intro e he
          rcases List.mem_cons.mp he with rfl | he
          · exact hnot
          · intro hm
            exact hs e he (List.mem_cons_of_mem _ hm)
      · exact ih seen

theorem insertByIndex_perm (d : Named) : ∀ l, (insertByIndex d l).Perm (d :: l) := by
  intro l
  induction l with
  | nil => simp [insertByIndex]
  | cons x xs ih =>
    unfold insertByIndex
    split
    · exact List.Perm.refl _
    · exact (List.Perm.cons x ih).trans (List.Perm.swap d x xs)

theorem sortByIndex_perm : ∀ l, (sortByIndex l).Perm l := by
  intro l
  induction l with
  | nil => simp [sortByIndex]
  | cons d ds ih =>
    unfold sortByIndex
    exact (insertByIndex_perm d _).trans (List.Perm.cons d ih)

/-- sortedness of the output (used for `root_first`-style statements) -/
def SortedIdx : List Named → Prop
  | [] => True
  | [_] => True
  | a :: b :: rest => a.index ≤ b.index ∧ SortedIdx (b :: rest)

theorem insertByIndex_sorted (d : Named) : ∀ l, SortedIdx l → SortedIdx (insertByIndex d l) := by
  intro l
  induction l with
  | nil => intro _; simp [insertByIndex, SortedIdx]
  | cons x xs ih =>
    intro h
    unfold insertByIndex
    split
    · rename_i hlt
      exact ⟨Nat.le_of_lt hlt, h⟩
    · rename_i hge
      have hxd : x.index ≤ d.index := Nat.le_of_not_lt hge
      cases xs with
      | nil => simp [insertByIndex, SortedIdx, hxd]
      | cons y ys =>
        have hs := ih h.2
        unfold insertByIndex at hs ⊢
        split
        · rename_i h2
          rw [if_pos h2] at hs
          exact ⟨hxd, hs⟩
        · rename_i h2
          rw [if_neg h2] at hs
          exact ⟨h.1, hs⟩

theorem sortByIndex_sorted : ∀ l, SortedIdx (sortByIndex l) := by
  intro l
  induction l with
  | nil => simp [sortByIndex, SortedIdx]
  | cons d ds ih => unfold sortByIndex; exact insertByIndex_sorted d _ ih

end PP.Diagram
