import PPProofs.Lemmas.LRIterG
/-!
# The iterative grammar with whitespace skipping: `Z` and `R` pre-parse to `skZ e` / `skR e`

Generalises `parse_R_step` … `parse_I_step` (LRIterG.lean): the pre-parse of `Z = ZeroOrMore R` and `R = And (t0 :: rest)`
may move (`skZ`, `skR`: skipping whitespace), provided the first tail element `t0` skips at least as much itself
(`ht0`, `ht0Z`).  The only visible effect: when the repetition matches nothing, `ZeroOrMore` ends at `skZ e0`.
-/
namespace PP.Parse

/-- `base (tail)*` as `And [b, ZeroOrMore …]` computes it: zero repetitions end at the pre-parsed location `z` -/
def iterLoopZ (tail : Bool → Nat → Out) (a : Bool) (k z e0 : Nat) (acc : List Tok) : Out :=
  match tail a e0 with
  | .fail .parse _ => .ok z acc
  | .idx => .ok z acc
  | _ => iterLoop tail a k e0 acc

theorem iterLoopZ_acc (tail : Bool → Nat → Out) (a : Bool) (k z e0 : Nat) (acc : List Tok) :
    iterLoopZ tail a k z e0 acc = (match iterLoopZ tail a k z e0 [] with
      | .ok l ts => .ok l (acc ++ ts)
      | o => o) := by
  unfold iterLoopZ
  cases tail a e0 with
  | ok e' ts' => simp only; exact iterLoop_acc tail a k e0 acc
  | fail c l =>
    cases c with
    | parse => simp
    | fatal => simp only; exact iterLoop_acc tail a k e0 acc
    | «syntax» => simp only; exact iterLoop_acc tail a k e0 acc
  | idx => simp
  | hang => simp only; exact iterLoop_acc tail a k e0 acc

theorem iterLoopZ_ne_idx (tail : Bool → Nat → Out) (a : Bool) (k z e0 : Nat) (acc : List Tok) :
    iterLoopZ tail a k z e0 acc ≠ .idx := by
  unfold iterLoopZ
  cases tail a e0 with
  | ok e' ts' => exact iterLoop_ne_idx _ _ _ _ _
  | fail c l =>
    cases c with
    | parse => simp
    | fatal => exact iterLoop_ne_idx _ _ _ _ _
    | «syntax» => exact iterLoop_ne_idx _ _ _ _ _
  | idx => simp
  | hang => exact iterLoop_ne_idx _ _ _ _ _

section
variable {g : Grammar} {I Z R b t0 : Nat} {rest : List Nat} {nI nZ nR : Node}

theorem parse_R_step_ws (h : IterG g I Z R b t0 rest nI nZ nR) (s : List Char) (n : Nat) (skR : Nat → Nat)
    (hpR : ∀ p e, (if nR.callPre then preParse p nR s e else PreR.at e) = .at (skR e))
    (ht0 : ∀ e a, parse g s n t0 (skR e) a false = parse g s n t0 e a true) (e : Nat) (a : Bool) :
    parse g s (n + 1) R e a true = idxConv nR s.length (skR e) (tailOf g s n (t0 :: rest) a e) := by
  rw [parse]
  rw [parseStep_plain g s _ R nR e (skR e) a true h.hR h.aR (by intro ts; simp [postParse, h.kR])
    (by simpa using hpR _ e)]
  congr 1
  simp only [parseImpl, h.kR, andImpl, ht0]
  rw [tailOf_cons g s n t0 rest a e h.st0]
  cases parse g s n t0 e a true with
  | ok l ts => rfl
  | fail c l => rfl
  | idx => rfl
  | hang => rfl

theorem manyLoop_eq_iterLoop_ws (h : IterG g I Z R b t0 rest nI nZ nR) (s : List Char) (n : Nat) (skR : Nat → Nat)
    (hpR : ∀ p e, (if nR.callPre then preParse p nR s e else PreR.at e) = .at (skR e))
    (ht0 : ∀ e a, parse g s n t0 (skR e) a false = parse g s n t0 e a true) (a : Bool) :
    ∀ k l acc, manyLoop (parse g s (n + 1)) nZ a s.length R none k l acc
      = iterLoop (tailOf g s n (t0 :: rest)) a k l acc := by
  intro k
  induction k with
  | zero => intro l acc; rfl
  | succ k ih =>
    intro l acc
    unfold manyLoop iterLoop
    simp only [stopCheck, manyPre, h.iZ, List.isEmpty_nil, if_true]
    rw [parse_R_step_ws h s n skR hpR ht0 l a]
    cases tailOf g s n (t0 :: rest) a l with
    | ok l' ts =>
      simp only [idxConv]
      by_cases hle : l' ≤ l
      · simp [hle]
      · simp only [hle, if_false]; exact ih l' _
    | fail c l2 => cases c <;> rfl
    | idx =>
      simp only [idxConv]
      by_cases hc : (nR.mayIdx || decide (skR l ≥ s.length)) = true <;> simp [hc]
    | hang => rfl

theorem tailOf_skZ (h : IterG g I Z R b t0 rest nI nZ nR) (s : List Char) (n : Nat) (skZ : Nat → Nat)
    (ht0Z : ∀ e a, parse g s n t0 (skZ e) a true = parse g s n t0 e a true) (e : Nat) (a : Bool) :
    tailOf g s n (t0 :: rest) a (skZ e) = tailOf g s n (t0 :: rest) a e := by
  rw [tailOf_cons g s n t0 rest a (skZ e) h.st0, tailOf_cons g s n t0 rest a e h.st0, ht0Z]

theorem parse_Z_step_ws (h : IterG g I Z R b t0 rest nI nZ nR) (s : List Char) (n : Nat) (skZ skR : Nat → Nat)
    (hpZ : ∀ p e, (if nZ.callPre then preParse p nZ s e else PreR.at e) = .at (skZ e))
    (hpR : ∀ p e, (if nR.callPre then preParse p nR s e else PreR.at e) = .at (skR e))
    (ht0 : ∀ e a, parse g s n t0 (skR e) a false = parse g s n t0 e a true)
    (ht0Z : ∀ e a, parse g s n t0 (skZ e) a true = parse g s n t0 e a true) (e0 : Nat) (a : Bool)
    (hadv : ∀ l ts, tailOf g s n (t0 :: rest) a e0 = .ok l ts → e0 < l) :
    parse g s (n + 2) Z e0 a true = iterLoopZ (tailOf g s n (t0 :: rest)) a (s.length + 3) (skZ e0) e0 [] := by
  rw [parse]
  rw [parseStep_plain g s _ Z nZ e0 (skZ e0) a true h.hZ h.aZ (by intro ts; simp [postParse, h.kZ])
    (by simpa using hpZ _ e0)]
  simp only [parseImpl, h.kZ, manyImpl, Bool.false_eq_true, if_false]
  rw [parse_R_step_ws h s n skR hpR ht0 (skZ e0) a, tailOf_skZ h s n skZ ht0Z e0 a]
  simp only [manyLoop_eq_iterLoop_ws h s n skR hpR ht0 a]
  unfold iterLoopZ
  rw [iterLoop]
  cases ht : tailOf g s n (t0 :: rest) a e0 with
  | ok l ts =>
    have hlt := hadv l ts ht
    have hle : ¬ l ≤ e0 := by omega
    simp only [idxConv, hle, if_false, List.nil_append]
    cases hi : iterLoop (tailOf g s n (t0 :: rest)) a (s.length + 2) l ts with
    | ok l2 t2 => rfl
    | fail c l2 =>
      cases c with
      | parse => exact absurd hi (iterLoop_ne_parse _ _ _ _ _ _)
      | fatal => rfl
      | «syntax» => rfl
    | idx => exact absurd hi (iterLoop_ne_idx _ _ _ _ _)
    | hang => rfl
  | fail c l => cases c <;> rfl
  | idx =>
    simp only [idxConv]
    by_cases hc : (nR.mayIdx || decide (skR (skZ e0) ≥ s.length)) = true <;> simp [hc]
  | hang => rfl

theorem parse_I_step_ws (h : IterG g I Z R b t0 rest nI nZ nR) (s : List Char) (n : Nat) (skZ skR : Nat → Nat)
    (hpZ : ∀ p e, (if nZ.callPre then preParse p nZ s e else PreR.at e) = .at (skZ e))
    (hpR : ∀ p e, (if nR.callPre then preParse p nR s e else PreR.at e) = .at (skR e))
    (ht0 : ∀ e a, parse g s n t0 (skR e) a false = parse g s n t0 e a true)
    (ht0Z : ∀ e a, parse g s n t0 (skZ e) a true = parse g s n t0 e a true) (pre : Nat) (a : Bool)
    (hb0 : parse g s (n + 2) b pre a false = parse g s (n + 2) b pre a true)
    (hadv : ∀ e l ts, tailOf g s n (t0 :: rest) a e = .ok l ts → e < l) :
    parse g s (n + 3) I pre a false =
      (match baseOf g s (n + 2) b pre a with
        | .ok e0 ts0 => iterLoopZ (tailOf g s n (t0 :: rest)) a (s.length + 3) (skZ e0) e0 ts0
        | o => idxConv nI s.length pre o) := by
  have hsZ : isStopOf g Z = false := by simp [isStopOf, h.hZ, h.kZ]
  rw [parse]
  rw [parseStep_plain g s _ I nI pre pre a false h.hI h.aI (by intro ts; simp [postParse, h.kI]) (by simp)]
  simp only [parseImpl, h.kI, andImpl, hb0]
  unfold baseOf
  cases hb : parse g s (n + 2) b pre a true with
  | ok e0 ts0 =>
    simp only
    change idxConv nI s.length pre (andRest (parse g s (n + 2)) (isStopOf g) a s.length [Z] false e0 ts0) = _
    rw [andRest]
    simp only [hsZ, Bool.false_eq_true, if_false]
    rw [parse_Z_step_ws h s n skZ skR hpZ hpR ht0 ht0Z e0 a (hadv e0), iterLoopZ_acc _ _ _ _ e0 ts0]
    cases hi : iterLoopZ (tailOf g s n (t0 :: rest)) a (s.length + 3) (skZ e0) e0 [] with
    | ok l ts => simp [andRest, idxConv]
    | fail c l => simp [idxConv]
    | idx => exact absurd hi (iterLoopZ_ne_idx _ _ _ _ _ _)
    | hang => simp [idxConv]
  | fail c l => rfl
  | idx => rfl
  | hang => rfl

end

/-! ### discharging `ht0` / `ht0Z`: skipping whitespace is idempotent, and an element with `callPreparse` skips itself -/

theorem takeWhile_drop_takeWhile {α : Type} (p : α → Bool) : ∀ l : List α,
    (l.drop (l.takeWhile p).length).takeWhile p = [] := by
  intro l
  induction l with
  | nil => rfl
  | cons x xs ih =>
    by_cases hx : p x = true
    · simp only [List.takeWhile_cons, hx, if_true, List.length_cons, List.drop_succ_cons]
      exact ih
    · simp [hx]

theorem skipWhite_idem (w s : List Char) (loc : Nat) : skipWhite w s (skipWhite w s loc) = skipWhite w s loc := by
  unfold skipWhite
  rw [← List.drop_drop, takeWhile_drop_takeWhile]
  rfl

theorem parseStep_callPre_shift (g : Grammar) (s : List Char) (p : P) (id : Nat) (nd : Node) (loc pre : Nat) (a : Bool)
    (hg : g[id]? = some nd) (hc : nd.callPre = true) (hpre : preParse p nd s loc = .at pre) :
    parseStep g s p id loc a true = parseStep g s p id pre a false := by
  unfold parseStep
  simp [hg, hc, hpre]

/-- pre-parse of an element without ignorables (and not a `LineStart`): skip its whitespace characters, if it skips -/
theorem preParse_plain_ws (p : P) (nd : Node) (s : List Char) (loc : Nat) (hi : nd.ignore = [])
    (hk : ∀ w o, nd.kind ≠ .lineStart w o) :
    preParse p nd s loc = .at (if nd.skipWs then skipWhite nd.white s loc else loc) := by
  unfold preParse
  cases hkk : nd.kind <;> simp [hi]
  exact absurd hkk (hk _ _)

/-- discharges `hpre` of the C04 theorems for the flags of the live objects: the `And` repeats the Forward's own skipping
    (`pre` is already past the whitespace the `And` would skip) -/
theorem sq_pre_of_flags (nsq : Node) (s : List Char) (loc : Nat) (hi : nsq.ignore = [])
    (hk : ∀ w o, nsq.kind ≠ .lineStart w o) :
    ∀ p, (if nsq.callPre then preParse p nsq s (skipWhite nsq.white s loc) else PreR.at (skipWhite nsq.white s loc))
      = .at (skipWhite nsq.white s loc) := by
  intro p
  rw [preParse_plain_ws p nsq s _ hi hk, skipWhite_idem]
  cases nsq.callPre <;> cases nsq.skipWs <;> simp

end PP.Parse
