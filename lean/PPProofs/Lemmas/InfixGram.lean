import PPProofs.Lemmas.InfixKit
/-!
# C16 — looking nodes up in `infixGrammar t`
-/
namespace PP.Infix
open PP.Parse

theorem levelNodes_length (w : List Char) (lv : Level) (b last : Nat) (tail : List Nat) :
    (levelNodes w lv b last tail).length = 14 := by
  simp [levelNodes]

theorem header_length (t : Table) (top : Nat) : (header t top).length = 14 := by
  simp [header]

/-- what `| lastExpr` contributes to the MatchFirst of level `k` after streamlining -/
def tailOf (t : Table) (k : Nat) : List Nat := if k = 1 then [2, nestedId t] else [E (k - 1)]

theorem levelsFrom_get (t : Table) : ∀ (lvs : List Level) (k0 i j : Nat) (lv : Level),
    lvs[i]? = some lv → j < 14 →
    (levelsFrom t k0 lvs)[14 * i + j]?
      = (levelNodes t.white lv (E (k0 + i)) (E (k0 + i - 1)) (tailOf t (k0 + i)))[j]? := by
  intro lvs
  induction lvs with
  | nil => intro k0 i j lv h; simp at h
  | cons lv0 rest ih =>
    intro k0 i j lv h hj
    cases i with
    | zero =>
      simp only [List.getElem?_cons_zero, Option.some.injEq] at h
      subst h
      simp only [levelsFrom, Nat.mul_zero, Nat.zero_add, Nat.add_zero, tailOf]
      rw [List.getElem?_append_left (by rw [levelNodes_length]; exact hj)]
    | succ i =>
      simp only [List.getElem?_cons_succ] at h
      simp only [levelsFrom]
      rw [List.getElem?_append_right (by rw [levelNodes_length]; omega), levelNodes_length]
      have : 14 * (i + 1) + j - 14 = 14 * i + j := by omega
      rw [this, ih (k0 + 1) i j lv h hj]
      have e : k0 + 1 + i = k0 + (i + 1) := by omega
      rw [e]

theorem gram_level (t : Table) {k j : Nat} {lv : Level} (hk : 1 ≤ k) (hlv : t.levels[k - 1]? = some lv)
    (hj : j < 14) :
    (infixGrammar t)[E k + j]? = (levelNodes t.white lv (E k) (E (k - 1)) (tailOf t k))[j]? := by
  unfold infixGrammar
  have he : E k + j = 14 + (14 * (k - 1) + j) := by unfold E lvlSize; omega
  rw [he, List.getElem?_append_right (by rw [header_length]; omega), header_length]
  have : 14 + (14 * (k - 1) + j) - 14 = 14 * (k - 1) + j := by omega
  rw [this, levelsFrom_get t t.levels 1 (k - 1) j lv hlv hj]
  have : 1 + (k - 1) = k := by omega
  rw [this]

theorem gram_header (t : Table) {j : Nat} (hj : j < 14) :
    (infixGrammar t)[j]? = (header t (E t.levels.length))[j]? := by
  unfold infixGrammar
  rw [List.getElem?_append_left (by rw [header_length]; exact hj)]

theorem fb_level (t : Table) {k j : Nat} (hk : 1 ≤ k) (hkn : k ≤ t.levels.length) (hj : j < 14) :
    (fbIds t).elem (E k + j) = decide (j = 3) := by
  unfold fbIds E lvlSize
  by_cases h3 : j = 3
  · subst h3
    simp only [decide_true, List.elem_eq_mem, decide_eq_true_eq, List.mem_map, List.mem_range]
    exact ⟨k - 1, by omega, by congr 1; omega⟩
  · simp only [h3, decide_false, List.elem_eq_mem, decide_eq_false_iff_not, List.mem_map, List.mem_range,
      not_exists, not_and]
    intro i _ h
    omega

theorem fb_header (t : Table) {j : Nat} (hj : j < 14) : (fbIds t).elem j = false := by
  unfold fbIds E lvlSize
  simp only [List.elem_eq_mem, decide_eq_false_iff_not, List.mem_map, List.mem_range, not_exists, not_and]
  intro i _ h
  omega

/-- no `_ErrorStop` in the table: every `And` runs its plain loop -/
theorem noStop (t : Table) (hb : t.base.kind ≠ .errorStop) :
    ∀ (i : Nat) (nd : Node), (infixGrammar t)[i]? = some nd → nd.kind ≠ Kind.errorStop := by
  intro i nd h
  have hm : nd ∈ infixGrammar t := List.mem_of_getElem? h
  unfold infixGrammar at hm
  rw [List.mem_append] at hm
  rcases hm with hm | hm
  · simp only [header, List.mem_cons, List.not_mem_nil, or_false] at hm
    rcases hm with rfl | rfl | rfl | rfl | rfl | rfl | rfl | rfl | rfl | rfl | rfl | rfl | rfl | rfl <;>
      first | exact hb | (simp [mkNode, litKind]; try (split <;> simp))
  · have : ∀ (lvs : List Level) (k0 : Nat), nd ∈ levelsFrom t k0 lvs → nd.kind ≠ Kind.errorStop := by
      intro lvs
      induction lvs with
      | nil => intro k0 h; simp [levelsFrom] at h
      | cons lv rest ih =>
        intro k0 h
        simp only [levelsFrom, List.mem_append] at h
        rcases h with h | h
        · simp only [levelNodes, List.mem_cons, List.not_mem_nil, or_false] at h
          rcases h with rfl | rfl | rfl | rfl | rfl | rfl | rfl | rfl | rfl | rfl | rfl | rfl | rfl | rfl <;>
            (try simp [mkNode, litKind]) <;> (repeat' split) <;> simp [mkNode, litKind] <;> (try (split <;> simp))
        · exact ih _ h
    exact this _ _ hm

end PP.Infix
