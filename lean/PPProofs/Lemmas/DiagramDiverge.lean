import PPProofs.Lemmas.DiagramUnnamed
/-! C20 helper: a cycle of unnamed elements makes `_to_diagram_element` recurse for ever. -/
namespace PP.Diagram

theorem seenOf_fresh_of_unnamed {g : Grammar} {s : St} {u : Nat} (h : UInv g s)
    (hu : truthy (customOf g u) = false) : seenOf g s u = .fresh := by
  obtain ⟨h1, h2⟩ := h u hu
  unfold seenOf
  split
  · cases hl : aget s.lookup u with
    | none => simp [h2]
    | some st => simp [(h1 st hl).1, h2]
  · rfl

theorem dispatch_and_some (g : Grammar) (o : Opts) (n : Node) (name : String)
    (h : n.isA .and_ = true) (hk : n.kids.isEmpty = false) : (dispatch g o n name).isSome = true := by
  unfold dispatch
  rw [if_pos h]
  simp only [hk, Bool.false_eq_true, if_false]
  split
  · rfl
  · split <;> rfl

theorem dispatch_alt_some (g : Grammar) (o : Opts) (n : Node) (name : String)
    (h0 : n.isA .and_ = false) (h : (n.isA .or_ || n.isA .matchFirst) = true)
    (hk : n.kids.isEmpty = false) : (dispatch g o n name).isSome = true := by
  unfold dispatch
  rw [if_neg (by simp [h0]), if_pos h]
  simp only [hk, Bool.false_eq_true, if_false]
  split <;> rfl

/-- if some child never returns, the loop over the children never returns -/
theorem loopKids_none (g : Grammar) (rec : Rec) (ret : Nat) (k : Nat)
    (hk : ∀ p i h s, UInv g s → rec k p i h s = none)
    (hrec : ∀ c p i h s r s', UInv g s → rec c p i h s = some (r, s') → UInv g s') :
    ∀ kids, k ∈ kids → ∀ i s, UInv g s → loopKids rec ret kids i s = none := by
  intro kids
  induction kids with
  | nil => intro hm; exact absurd hm (by simp)
  | cons c cs ih =>
    intro hm i s hI
    unfold loopKids
    cases hs : stepKid rec ret c i s with
    | none => rfl
    | some r =>
      obtain ⟨i', s'⟩ := r
      simp only
      have hI' : UInv g s' :=
        stepKid_inv (UInv g) rec ret (fun s r kw h => UInv_setKw s r kw h) hrec _ _ _ _ _ hI hs
      have hck : c ≠ k := by
        intro e
        subst e
        unfold stepKid at hs
        have hI1 : UInv g (addPlaceholder s ret i) := by
          unfold addPlaceholder
          split
          · exact UInv_setKw _ _ _ hI
          · exact hI
        rw [hk _ _ _ _ hI1] at hs
        exact absurd hs (by simp)
      have : k ∈ cs := by
        rcases List.mem_cons.mp hm with e | e
        · exact absurd e.symm hck
        · exact e
      exact ih this _ _ hI'

/-- `U` is a set of elements without custom names, each of which hands the conversion on to another
    member: an unnamed Forward/Located to its expression, any other element (drawn, with children
    that have children) to one of its children. Every cycle of such elements is an instance. -/
structure UnnamedLoop (g : Grammar) (o : Opts) (U : Nat → Prop) : Prop where
  step : ∀ u, U u → ∃ n, g[u]? = some n ∧ truthy n.custom = false ∧
    ((isPass n = true ∧ U (n.kids.headD 0)) ∨
     (isPass n = false ∧ worth g u = true ∧ (n.shown = true ∨ o.showHidden = true) ∧
       (∀ name, (dispatch g o n name).isSome = true) ∧ ∃ k, k ∈ n.kids ∧ U k))

theorem conv_diverges (g : Grammar) (o : Opts) (U : Nat → Prop) (hU : UnnamedLoop g o U) :
    ∀ fuel u, U u → ∀ p i h s, UInv g s → conv g o fuel u p i h s = none := by
  intro fuel
  induction fuel with
  | zero => intro u _ p i h s _; rfl
  | succ f ih =>
    intro u hu p i h s hI
    obtain ⟨n, hg, hcust, hcase⟩ := hU.step u hu
    have hcu : truthy (customOf g u) = false := by unfold customOf; rw [hg]; exact hcust
    unfold conv
    simp only [hg]
    unfold convBody
    rcases hcase with ⟨hpass, hkid⟩ | ⟨hpass, hw, hshown, hdisp, k, hk, hUk⟩
    · have hp : pre g o u n p i h s = .pass (n.kids.headD 0)
          (if !truthy ((g[n.kids.headD 0]?).bind (·.custom)) then some (nameOf n h) else none) := by
        unfold pre; simp [hpass]
      simp only [hp, ih _ hkid _ _ _ _ hI]
    · have hs := seenOf_fresh_of_unnamed hI hcu
      have hd := hdisp (nameOf n h)
      cases hdd : dispatch g o n (nameOf n h) with
      | none => rw [hdd] at hd; exact absurd hd (by simp)
      | some pn =>
        have hnh : (!n.shown && !o.showHidden) = false := by
          rcases hshown with e | e <;> simp [e]
        have hp : pre g o u n p i h s = .loop (register g s u n p i pn).1 (register g s u n p i pn).2 := by
          unfold pre; simp only [hpass, hs]; unfold preFresh; simp [hnh, hdd]
        simp only [hp]
        have hI' : UInv g (register g s u n p i pn).2 := UInv_register p i pn hg hI
        rw [loopKids_none g (conv g o f) _ k (fun p i h s hs => ih k hUk p i h s hs)
          (fun c p i h s r s' a b => conv_UInv g o f c p i h s r s' a b) n.kids hk 0 _ hI']

end PP.Diagram
