import PPModel.Mod.Threads
/-! helper lemmas for C15 (modes off / packrat): dict facts, per-thread step specification -/
namespace PP.Threads

namespace Dict
variable {κ : Type} [DecidableEq κ]

theorem lookup_mem {d : Dict κ} {k : κ} {v : Val} (h : lookup d k = some v) : (k, v) ∈ d := by
  induction d with
  | nil => simp [lookup] at h
  | cons p r ih =>
    obtain ⟨k', v'⟩ := p
    simp only [lookup] at h
    split at h
    · simp_all
    · exact List.mem_cons_of_mem _ (ih h)

theorem mem_insert {d : Dict κ} {k : κ} {v : Val} {p : κ × Val} (h : p ∈ insert d k v) :
    p ∈ d ∨ p = (k, v) := by
  induction d with
  | nil => simp [insert] at h; exact Or.inr h
  | cons q r ih =>
    obtain ⟨k', v'⟩ := q
    simp only [insert] at h
    split at h
    · rcases List.mem_cons.mp h with h | h
      · exact Or.inr h
      · exact Or.inl (List.mem_cons_of_mem _ h)
    · rcases List.mem_cons.mp h with h | h
      · exact Or.inl (h ▸ List.mem_cons_self)
      · rcases ih h with h | h
        · exact Or.inl (List.mem_cons_of_mem _ h)
        · exact Or.inr h

theorem mem_erase {d : Dict κ} {k : κ} {p : κ × Val} (h : p ∈ erase d k) : p ∈ d :=
  (List.mem_filter.mp h).1

theorem has_head {k : κ} {v : Val} {r : Dict κ} : has ((k, v) :: r) k = true := by
  simp [has, lookup]

end Dict

/-- shape facts about a thread's local state that the code guarantees -/
structure WF (g : Grammar) (th : Thread) : Prop where
  nonempty : finished th.pc = false → th.stack ≠ []
  topCached : ∀ f r, th.stack = f :: r →
    (th.pc = .lookup ∨ (∃ v, th.pc = .put v) ∨ (∃ v, th.pc = .chk v) ∨ (∃ v, th.pc = .pick v) ∨
      (∃ v k, th.pc = .pop v k) ∨ (∃ v, th.pc = .rel v)) → g.cached f.k = true
  doneEmpty : ∀ v, th.pc = .done v → th.stack = []

theorem WF_init (g : Grammar) (root : Key) : WF g (Thread.init root) := by
  constructor <;> simp [Thread.init, finished]

/-- effect of one thread step on the lock, the thread's hold count and the cache -/
inductive LockRel (g : Grammar) (t : Tid) (sh : Shared) (th : Thread) (sh' : Shared) (th' : Thread) : Prop where
  | acq : (sh.pOwner = none ∨ sh.pOwner = some t) → sh'.pOwner = some t → sh'.pCount = sh.pCount + 1 →
      held g th' = held g th + 1 → sh'.cache = sh.cache → LockRel g t sh th sh' th'
  | rel : held g th = held g th' + 1 → sh'.pOwner = (if sh.pCount ≤ 1 then none else sh.pOwner) →
      sh'.pCount = sh.pCount - 1 → sh'.cache = sh.cache → LockRel g t sh th sh' th'
  | same : sh'.pOwner = sh.pOwner → sh'.pCount = sh.pCount → held g th' = held g th →
      (sh'.cache ≠ sh.cache → touching th.pc = true) → LockRel g t sh th sh' th'


theorem tstep_size {g sh t th sh' th'} (h : tstep g sh t th = some (sh', th')) :
    sh'.size = sh.size ∧ th'.root = th.root := by
  obtain ⟨root, pc, stack⟩ := th
  unfold tstep at h
  simp only at h
  split at h
  all_goals grind [acquireP, releaseP]

theorem tstep_wf {g sh t th sh' th'} (h : tstep g sh t th = some (sh', th')) (wf : WF g th) : WF g th' := by
  obtain ⟨root, pc, stack⟩ := th
  obtain ⟨w1, w2, w3⟩ := wf
  unfold tstep at h
  simp only at h w1 w2 w3
  split at h
  all_goals (constructor <;> grind [acquireP, releaseP, finished])


theorem tstep_lock {g sh t th sh' th'} (h : tstep g sh t th = some (sh', th')) (wf : WF g th) : LockRel g t sh th sh' th' := by
  obtain ⟨root, pc, stack⟩ := th
  obtain ⟨w1, w2, w3⟩ := wf
  unfold tstep at h
  simp only at h w1 w2 w3
  split at h
  · apply LockRel.acq <;> grind [acquireP, held, resetHeld, insidePC, cachedCount]
  · apply LockRel.same <;> grind [held, resetHeld, insidePC, cachedCount, touching]
  · apply LockRel.same <;> grind [held, resetHeld, insidePC, cachedCount, touching]
  · apply LockRel.rel <;> grind [releaseP, held, resetHeld, insidePC, cachedCount]
  · split at h
    · apply LockRel.acq <;> grind [acquireP, held, resetHeld, insidePC, cachedCount]
    · apply LockRel.same <;> grind [held, resetHeld, insidePC, cachedCount, touching]
  · apply LockRel.same <;> grind [held, resetHeld, insidePC, cachedCount, touching]
  · apply LockRel.same <;> grind [held, resetHeld, insidePC, cachedCount, touching]
  · apply LockRel.same <;> grind [held, resetHeld, insidePC, cachedCount, touching]
  · apply LockRel.same <;> grind [held, resetHeld, insidePC, cachedCount, touching]
  · apply LockRel.same <;> grind [held, resetHeld, insidePC, cachedCount, touching]
  · apply LockRel.same <;> grind [held, resetHeld, insidePC, cachedCount, touching]
  · apply LockRel.rel <;> grind [releaseP, held, resetHeld, insidePC, cachedCount]
  · apply LockRel.same <;> grind [held, resetHeld, insidePC, cachedCount, touching]
  · simp at h




/-- what a thread in the middle of `_FifoCache.set` relies on -/
def pcData (sh : Shared) (th : Thread) : Prop :=
  match th.pc with
  | .pick _ => ∃ n, sh.size = some n ∧ sh.cache.length > n
  | .pop _ k => sh.cache.has k = true
  | .crash => False
  | _ => True

theorem tstep_data {g sh t th sh' th'} (h : tstep g sh t th = some (sh', th')) (d : pcData sh th) :
    pcData sh' th' := by
  obtain ⟨root, pc, stack⟩ := th
  unfold tstep at h
  simp only at h
  unfold pcData at d ⊢
  simp only at d
  split at h
  all_goals (first | grind [acquireP, releaseP, Dict.has_head] | skip)

theorem pcData_frame {sh sh' : Shared} {th : Thread} (hc : sh'.cache = sh.cache) (hs : sh'.size = sh.size)
    (d : pcData sh th) : pcData sh' th := by
  unfold pcData at d ⊢
  rw [hc, hs]; exact d

theorem pcData_untouching {sh sh' : Shared} {th : Thread} (ht : touching th.pc = false)
    (d : pcData sh th) : pcData sh' th := by
  unfold pcData at d ⊢
  cases hpc : th.pc <;> simp_all [touching]




theorem touching_held {g th} (wf : WF g th) (ht : touching th.pc = true) : 0 < held g th := by
  obtain ⟨root, pc, stack⟩ := th
  obtain ⟨w1, w2, w3⟩ := wf
  simp only at w1 w2 w3 ht
  unfold held
  cases pc <;> simp [touching] at ht <;> simp [resetHeld, insidePC, finished] at w1 ⊢
  all_goals
    cases stack with
    | nil => simp at w1
    | cons f r => simp [w2 f r rfl]; omega

@[simp] theorem upd_same {α} (f : Tid → α) (t : Tid) (x : α) : upd f t x t = x := by simp [upd]
theorem upd_other {α} (f : Tid → α) {t u : Tid} (x : α) (h : u ≠ t) : upd f t x u = f u := by simp [upd, h]

structure Inv (g : Grammar) (s : State) : Prop where
  wf : ∀ t, WF g (s.thr t)
  own : ∀ t, s.sh.pOwner = some t → s.sh.pCount = held g (s.thr t) ∧ 0 < s.sh.pCount
  notOwn : ∀ t, s.sh.pOwner ≠ some t → held g (s.thr t) = 0
  free : s.sh.pOwner = none → s.sh.pCount = 0
  data : ∀ t, pcData s.sh (s.thr t)

theorem step_inv {g s t s'} (h : step g s t = some s') (inv : Inv g s) : Inv g s' := by
  unfold step at h
  cases hts : tstep g s.sh t (s.thr t) with
  | none => simp [hts] at h
  | some p =>
    obtain ⟨sh', th'⟩ := p
    simp [hts] at h
    subst h
    have hwf := tstep_wf hts (inv.wf t)
    have hlk := tstep_lock hts (inv.wf t)
    have hsz := (tstep_size hts).1
    have hdt := tstep_data hts (inv.data t)
    have thr_eq : ∀ u, u ≠ t → upd s.thr t th' u = s.thr u := fun u hu => upd_other _ _ hu
    have hheld : ∀ u, u ≠ t → held g (upd s.thr t th' u) = held g (s.thr u) := fun u hu => by rw [thr_eq u hu]
    refine ⟨?_, ?_, ?_, ?_, ?_⟩
    · intro u
      by_cases hu : u = t
      · subst hu; simpa using hwf
      · simpa [thr_eq u hu] using inv.wf u
    · intro u ho
      simp only at ho ⊢
      cases hlk with
      | acq h1 h2 h3 h4 h5 =>
        have : u = t := by rw [h2] at ho; exact (Option.some.inj ho).symm
        subst this
        simp only [upd_same]
        rcases h1 with h1 | h1
        · have := inv.free h1; have := inv.notOwn u (by simp [h1]); omega
        · have := inv.own u h1; omega
      | rel h1 h2 h3 h4 =>
        have hot : s.sh.pOwner = some t := by
          apply Classical.byContradiction; intro hn
          have := inv.notOwn t hn; omega
        have hc := inv.own t hot
        by_cases hle : s.sh.pCount ≤ 1
        · simp [h2, hle] at ho
        · simp only [h2, hle, if_false] at ho
          have : u = t := by rw [hot] at ho; exact (Option.some.inj ho).symm
          subst this
          simp only [upd_same]; omega
      | same h1 h2 h3 h4 =>
        rw [h1] at ho
        by_cases hu : u = t
        · subst hu; simp only [upd_same]; have := inv.own u ho; omega
        · rw [hheld u hu, h2]; exact inv.own u ho
    · intro u ho
      simp only at ho ⊢
      cases hlk with
      | acq h1 h2 h3 h4 h5 =>
        have hu : u ≠ t := by intro e; subst e; exact ho h2
        rw [hheld u hu]
        apply inv.notOwn
        rcases h1 with h1 | h1 <;> simp [h1]
        exact fun e => hu e.symm
      | rel h1 h2 h3 h4 =>
        have hot : s.sh.pOwner = some t := by
          apply Classical.byContradiction; intro hn
          have := inv.notOwn t hn; omega
        have hc := inv.own t hot
        by_cases hu : u = t
        · subst hu
          simp only [upd_same]
          by_cases hle : s.sh.pCount ≤ 1
          · omega
          · simp only [h2, hle, if_false] at ho; exact absurd hot ho
        · rw [hheld u hu]; apply inv.notOwn; rw [hot]; simp; exact fun e => hu e.symm
      | same h1 h2 h3 h4 =>
        rw [h1] at ho
        by_cases hu : u = t
        · subst hu; simp only [upd_same]; rw [h3]; exact inv.notOwn u ho
        · rw [hheld u hu]; exact inv.notOwn u ho
    · intro ho
      simp only at ho ⊢
      cases hlk with
      | acq h1 h2 h3 h4 h5 => simp [h2] at ho
      | rel h1 h2 h3 h4 =>
        by_cases hle : s.sh.pCount ≤ 1
        · omega
        · simp only [h2, hle, if_false] at ho; have := inv.free ho; omega
      | same h1 h2 h3 h4 => rw [h2]; exact inv.free (h1 ▸ ho)
    · intro u
      simp only
      by_cases hu : u = t
      · subst hu; simpa using hdt
      · rw [thr_eq u hu]
        by_cases hc : sh'.cache = s.sh.cache
        · exact pcData_frame hc hsz (inv.data u)
        · have htouch : touching (s.thr t).pc = true := by
            cases hlk with
            | acq h1 h2 h3 h4 h5 => exact absurd h5 hc
            | rel h1 h2 h3 h4 => exact absurd h4 hc
            | same h1 h2 h3 h4 => exact h4 hc
          have hpos := touching_held (inv.wf t) htouch
          have hot : s.sh.pOwner = some t := by
            apply Classical.byContradiction; intro hn
            have := inv.notOwn t hn; omega
          have hu0 : held g (s.thr u) = 0 := inv.notOwn u (by rw [hot]; simp; exact fun e => hu e.symm)
          have hnt : touching (s.thr u).pc = false := by
            cases htt : touching (s.thr u).pc with
            | false => rfl
            | true => have := touching_held (inv.wf u) htt; omega
          exact pcData_untouching hnt (inv.data u)




def PrefixOk (g : Grammar) (f : Frame) : Prop := ∀ v, Run g f.k f.rs v → Eval g f.k v

def Chain (g : Grammar) (root : Key) : List Frame → Prop
  | [] => True
  | [f] => f.k = root ∧ PrefixOk g f
  | f :: f' :: rest => PrefixOk g f ∧ (g.body f'.k f'.rs = .call f.k ∨ g.body f'.k f'.rs = .entry f.k) ∧
      Chain g root (f' :: rest)

def pcVal : PC → Option Val
  | .put v | .chk v | .pick v | .pop v _ | .rel v | .retn v => some v
  | _ => none

structure ThreadOk (g : Grammar) (th : Thread) : Prop where
  done : ∀ v, th.pc = .done v → Eval g th.root v
  chain : Chain g th.root th.stack
  val : ∀ v f r, pcVal th.pc = some v → th.stack = f :: r → Eval g f.k v

def CacheOk (g : Grammar) (sh : Shared) : Prop := ∀ p ∈ sh.cache, Eval g p.1 p.2

theorem prefixOk_nil (g : Grammar) (k : Key) : PrefixOk g ⟨k, []⟩ := fun _ h => h

theorem ThreadOk_init (g : Grammar) (root : Key) : ThreadOk g (Thread.init root) := by
  constructor <;> simp [Thread.init, Chain, pcVal, prefixOk_nil]

theorem chain_top {g root f r} (h : Chain g root (f :: r)) : PrefixOk g f := by
  cases r with
  | nil => exact h.2
  | cons f' r' => exact h.1

theorem chain_ret {g root f f' r v} (h : Chain g root (f :: f' :: r)) (hv : Eval g f.k v) :
    Chain g root ({ f' with rs := f'.rs ++ [v] } :: r) := by
  obtain ⟨_, hb, hc⟩ := h
  have hp : PrefixOk g { f' with rs := f'.rs ++ [v] } := fun w hw =>
    chain_top hc w (hb.elim (fun hb => Run.call hb hv hw) (fun hb => Run.entry hb hv hw))
  cases r with
  | nil => exact ⟨hc.1, hp⟩
  | cons f2 r2 => exact ⟨hp, hc.2.1, hc.2.2⟩

theorem tstep_val {g sh t th sh' th'} (h : tstep g sh t th = some (sh', th'))
    (co : CacheOk g sh) (ok : ThreadOk g th) : CacheOk g sh' ∧ ThreadOk g th' := by
  obtain ⟨root, pc, stack⟩ := th
  obtain ⟨o1, o2, o3⟩ := ok
  unfold tstep at h
  simp only at h o1 o2 o3
  unfold CacheOk at co ⊢
  split at h
  all_goals (first | (refine ⟨?_, ?_, ?_, ?_⟩ <;> grind [acquireP, releaseP, pcVal, Chain]) | skip)
  case h_6 =>
    rename_i f tl
    cases hl : sh.cache.lookup f.k with
    | some v =>
      simp [hl] at h; obtain ⟨rfl, rfl⟩ := h
      refine ⟨co, ?_, o2, ?_⟩
      · simp
      · intro v' f' r' hv hs
        simp [pcVal] at hv; simp at hs; subst hv; rw [← hs.1]
        exact co _ (Dict.lookup_mem hl)
    | none =>
      simp [hl] at h; obtain ⟨rfl, rfl⟩ := h
      exact ⟨co, by simp, o2, by simp [pcVal]⟩
  case h_7 =>
    rename_i f rest
    cases hb : g.body f.k f.rs with
    | call k' =>
      simp [hb] at h; obtain ⟨rfl, rfl⟩ := h
      exact ⟨co, by simp, ⟨prefixOk_nil g k', Or.inl hb, o2⟩, by simp [pcVal]⟩
    | entry k' =>
      simp [hb] at h; obtain ⟨rfl, rfl⟩ := h
      exact ⟨co, by simp, ⟨prefixOk_nil g k', Or.inr hb, o2⟩, by simp [pcVal]⟩
    | ret v =>
      simp [hb] at h; obtain ⟨rfl, rfl⟩ := h
      refine ⟨co, ?_, o2, ?_⟩
      · intro w; split <;> simp
      · intro v' f' r' hv hs
        simp at hs
        have : v' = v := by
          revert hv; split <;> simp [pcVal] <;> exact fun e => e.symm
        subst this; rw [← hs.1]
        exact chain_top o2 _ (Run.ret hb)
  case h_8 =>
    rename_i v f tl
    simp at h; obtain ⟨rfl, rfl⟩ := h
    have hv : Eval g f.k v := o3 v f tl (by simp [pcVal]) rfl
    refine ⟨?_, ?_, o2, ?_⟩
    · intro p hp
      rcases Dict.mem_insert hp with hp | hp
      · exact co p hp
      · subst hp; exact hv
    · intro w; split <;> simp
    · intro v' f' r' hv' hs
      simp at hs
      have : v' = v := by
        revert hv'; split <;> simp [pcVal] <;> exact fun e => e.symm
      subst this; rw [← hs.1]; exact hv
  case h_11 =>
    rename_i v k' f tl
    have hv : Eval g f.k v := o3 v f tl (by simp [pcVal]) rfl
    split at h
    · simp at h; obtain ⟨rfl, rfl⟩ := h
      refine ⟨fun p hp => co p (Dict.mem_erase hp), by simp, o2, ?_⟩
      intro v' f' r' hv' hs
      simp [pcVal] at hv'; simp at hs; subst hv'; rw [← hs.1]; exact hv
    · simp at h; obtain ⟨rfl, rfl⟩ := h
      exact ⟨co, by simp, o2, by simp [pcVal]⟩
  case h_13 =>
    rename_i v f rest
    have hv : Eval g f.k v := o3 v f rest (by simp [pcVal]) rfl
    cases rest with
    | nil =>
      simp at h; obtain ⟨rfl, rfl⟩ := h
      refine ⟨co, ?_, by simp [Chain], by simp [pcVal]⟩
      intro w hw; simp at hw; subst hw
      have := o2.1; rw [← this]; exact hv
    | cons f' rest' =>
      simp at h; obtain ⟨rfl, rfl⟩ := h
      exact ⟨co, by simp, chain_ret o2 hv, by simp [pcVal]⟩



set_option linter.unusedSimpArgs false in

theorem tstep_enabled {g sh t th} (wf : WF g th) (nf : finished th.pc = false)
    (hfree : sh.pOwner = none ∨ sh.pOwner = some t) : (tstep g sh t th).isSome = true := by
  obtain ⟨root, pc, stack⟩ := th
  obtain ⟨w1, w2, w3⟩ := wf
  simp only at w1 w2 w3 nf
  have hne := w1 nf
  cases stack with
  | nil => exact absurd rfl hne
  | cons f r =>
    unfold tstep
    cases pc <;> simp [finished] at nf <;> simp [acquireP, hfree] <;> (try split) <;> simp [acquireP, hfree]
    all_goals (try split) <;> simp

theorem run_det {g k rs v v'} (h : Run g k rs v) (h' : Run g k rs v') : v = v' := by
  induction h generalizing v' with
  | ret hb =>
    cases h' with
    | ret hb' => rw [hb] at hb'; exact Act.ret.inj hb'
    | call hb' _ _ => rw [hb] at hb'; cases hb'
    | entry hb' _ _ => rw [hb] at hb'; cases hb'
  | call hb _ _ ih1 ih2 =>
    cases h' with
    | ret hb' => rw [hb] at hb'; cases hb'
    | call hb' h1 h2 =>
      rw [hb] at hb'; cases hb'
      have := ih1 h1; subst this
      exact ih2 h2
    | entry hb' _ _ => rw [hb] at hb'; cases hb'
  | entry hb _ _ ih1 ih2 =>
    cases h' with
    | ret hb' => rw [hb] at hb'; cases hb'
    | call hb' _ _ => rw [hb] at hb'; cases hb'
    | entry hb' h1 h2 =>
      rw [hb] at hb'; cases hb'
      have := ih1 h1; subst this
      exact ih2 h2


end PP.Threads
