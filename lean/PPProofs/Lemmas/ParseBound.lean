import PPModel.Mod.Parse
import PPProofs.Lemmas.ParseFwd
/-
  Every location the parser reports — the end of a match, the `loc` of a raised ParseBaseException — lies inside the
  parsed string: `≤ len + 1` (the `+ 1` is what StringEnd / LineEnd return when they match at the very end, and where
  a later element then fails).  For every element of the model, by induction over the fuel, one lemma per helper.
-/
namespace PP.Parse

/-- the outcome's location is at most `N` -/
def Out.inB (N : Nat) : Out → Prop
  | .ok e _ => e ≤ N
  | .fail _ l => l ≤ N
  | _ => True

/-- called at a location `≤ N`, `p` answers with a location `≤ N` -/
def Bnd (N : Nat) (p : P) : Prop := ∀ id loc a c, loc ≤ N → (p id loc a c).inB N

theorem tryParse_bnd {N : Nat} {p : P} (hp : Bnd N p) (e loc : Nat) (rf da : Bool) (hl : loc ≤ N) :
    (tryParse p e loc rf da).inB N := by
  unfold tryParse
  have h0 := hp e loc da true hl
  cases h : p e loc da true with
  | ok l ts => rw [h] at h0; exact h0
  | fail c l => rw [h] at h0; simp only; split <;> simp_all [Out.inB]
  | idx => simp [Out.inB]
  | hang => simp [Out.inB]

/-! ### pre-parsing -/

theorem skipWhite_le (w s : List Char) (loc N : Nat) (hN : s.length ≤ N) (hl : loc ≤ N) : skipWhite w s loc ≤ N := by
  unfold skipWhite
  have h1 : ((s.drop loc).takeWhile (mem · w)).length ≤ (s.drop loc).length :=
    (List.takeWhile_sublist _).length_le
  simp only [List.length_drop] at h1
  omega

def PreR.inB (N : Nat) : PreR → Prop
  | .at l => l ≤ N
  | .abort o => o.inB N

theorem ignoreOne_bnd {N : Nat} {p : P} (hp : Bnd N p) (e : Nat) :
    ∀ k loc found, loc ≤ N → (ignoreOne p e k loc found).1.inB N := by
  intro k
  induction k with
  | zero => intro loc found _; simp [ignoreOne, PreR.inB, Out.inB]
  | succ k ih =>
    intro loc found hl
    unfold ignoreOne
    have h0 := hp e loc true true hl
    cases h : p e loc true true with
    | ok l ts =>
      rw [h] at h0
      simp only
      split
      · simp [PreR.inB, Out.inB]
      · exact ih _ _ h0
    | fail c l => rw [h] at h0; cases c <;> simp_all [PreR.inB, Out.inB]
    | idx => simp [PreR.inB, Out.inB]
    | hang => simp [PreR.inB, Out.inB]

theorem ignorePass_bnd {N : Nat} {p : P} (hp : Bnd N p) (slen : Nat) :
    ∀ es loc found, loc ≤ N → (ignorePass p slen es loc found).1.inB N := by
  intro es
  induction es with
  | nil => intro loc found hl; simpa [ignorePass, PreR.inB] using hl
  | cons e es ih =>
    intro loc found hl
    unfold ignorePass
    have h1 := ignoreOne_bnd hp e (slen + 2) loc found hl
    generalize ignoreOne p e (slen + 2) loc found = r at h1
    rcases r with ⟨r, f⟩
    cases r with
    | «at» l => exact ih _ _ h1
    | abort o => exact h1

theorem skipIgnorables_bnd {N : Nat} {p : P} (hp : Bnd N p) (slen : Nat) (ign : List Nat) :
    ∀ k loc, loc ≤ N → (skipIgnorables p slen ign k loc).inB N := by
  intro k
  induction k with
  | zero => intro loc _; simp [skipIgnorables, PreR.inB, Out.inB]
  | succ k ih =>
    intro loc hl
    unfold skipIgnorables
    have h1 := ignorePass_bnd hp slen ign loc false hl
    generalize ignorePass p slen ign loc false = r at h1
    rcases r with ⟨r, f⟩
    cases r with
    | «at» l =>
      simp only
      split
      · exact h1
      · exact ih _ h1
    | abort o => exact h1

theorem lineStartPre_go_le (w s : List Char) (N : Nat) (hN : s.length ≤ N) :
    ∀ k r, r ≤ N → lineStartPre.go w s k r ≤ N := by
  intro k
  induction k with
  | zero => intro r hr; simpa [lineStartPre.go] using hr
  | succ k ih =>
    intro r hr
    unfold lineStartPre.go
    split
    · rename_i hs
      have hlt : r < s.length := by
        by_cases h : r < s.length
        · exact h
        · have : s[r]? = none := by simp; omega
          rw [this] at hs; simp at hs
      exact ih _ (skipWhite_le _ _ _ _ hN (by omega))
    · exact hr

theorem lineStartPre_le (w : List Char) (nl : Bool) (s : List Char) (loc N : Nat) (hN : s.length ≤ N) (hl : loc ≤ N) :
    lineStartPre w nl s loc ≤ N := by
  unfold lineStartPre
  split
  · omega
  · simp only
    split
    · exact lineStartPre_go_le _ _ _ hN _ _ (skipWhite_le _ _ _ _ hN hl)
    · exact skipWhite_le _ _ _ _ hN hl

theorem preParse_bnd {N : Nat} {p : P} (hp : Bnd N p) (nd : Node) (s : List Char) (loc : Nat) (hN : s.length ≤ N)
    (hl : loc ≤ N) : (preParse p nd s loc).inB N := by
  unfold preParse
  split
  · exact lineStartPre_le _ _ _ _ _ hN hl
  · simp only
    have h1 : (if nd.ignore.isEmpty then PreR.at loc else skipIgnorables p s.length nd.ignore (s.length + 2) loc).inB N := by
      split
      · exact hl
      · exact skipIgnorables_bnd hp _ _ _ _ hl
    generalize (if nd.ignore.isEmpty then PreR.at loc else skipIgnorables p s.length nd.ignore (s.length + 2) loc) = r at h1
    cases r with
    | «at» l =>
      simp only [PreR.inB]
      split
      · exact skipWhite_le _ _ _ _ hN h1
      · exact h1
    | abort o => exact h1

/-! ### combinators -/

theorem andRest_bnd {N : Nat} {p : P} (hp : Bnd N p) (isStop : Nat → Bool) (acts : Bool) (slen : Nat) (hs : slen ≤ N) :
    ∀ es stop loc acc, loc ≤ N → (andRest p isStop acts slen es stop loc acc).inB N := by
  intro es
  induction es with
  | nil => intro _ loc acc hl; simpa [andRest, Out.inB] using hl
  | cons x es ih =>
    intro stop loc acc hl
    unfold andRest
    split
    · exact ih _ _ _ hl
    · have h0 := hp x loc acts true hl
      cases h : p x loc acts true with
      | ok l ts => rw [h] at h0; exact ih _ _ _ h0
      | fail c l => rw [h] at h0; simp only; split <;> simpa [Out.inB] using h0
      | idx => simp only; split <;> simp [Out.inB]; exact hs
      | hang => simp [Out.inB]

theorem andImpl_bnd {N : Nat} {p : P} (hp : Bnd N p) (isStop : Nat → Bool) (acts : Bool) (slen : Nat) (hs : slen ≤ N)
    (es : List Nat) (loc : Nat) (hl : loc ≤ N) : (andImpl p isStop acts slen es loc).inB N := by
  unfold andImpl
  cases es with
  | nil => simp [Out.inB]
  | cons e0 rest =>
    simp only
    have h0 := hp e0 loc acts false hl
    cases h : p e0 loc acts false with
    | ok l ts => rw [h] at h0; exact andRest_bnd hp _ _ _ hs _ _ _ _ h0
    | fail c l => rw [h] at h0; exact h0
    | idx => simp [Out.inB]
    | hang => simp [Out.inB]

theorem mfGo_bnd {N : Nat} {p : P} (hp : Bnd N p) (acts : Bool) (slen loc : Nat) (hs : slen ≤ N) (hl : loc ≤ N) :
    ∀ es mx, (∀ m, mx = some m → m ≤ N) → (mfGo p acts slen loc es mx).inB N := by
  intro es
  induction es with
  | nil => intro mx hm; cases mx with
    | none => simpa [mfGo, Out.inB] using hl
    | some m => simpa [mfGo, Out.inB] using hm m rfl
  | cons x es ih =>
    intro mx hm
    unfold mfGo
    have h0 := hp x loc acts true hl
    cases h : p x loc acts true with
    | ok l ts => rw [h] at h0; exact h0
    | fail c l =>
      rw [h] at h0
      cases c
      · apply ih
        intro m hm'
        cases mx with
        | none => simp at hm'; subst hm'; exact h0
        | some m0 =>
          simp only at hm'
          split at hm' <;> simp at hm' <;> subst hm'
          · exact h0
          · exact hm _ rfl
      · exact h0
      · exact h0
    | idx =>
      apply ih
      intro m hm'
      cases mx with
      | none => simp at hm'; subst hm'; exact hs
      | some m0 =>
        simp only at hm'
        split at hm' <;> simp at hm' <;> subst hm'
        · exact hs
        · exact hm _ rfl
    | hang => simp [Out.inB]

theorem pickFatal_mem : ∀ (fs : List Fatal) (f : Fatal), pickFatal fs = some f → f ∈ fs := by
  intro fs
  induction fs with
  | nil => intro f h; simp [pickFatal] at h
  | cons x xs ih =>
    intro f h
    unfold pickFatal at h
    cases hp : pickFatal xs with
    | none => rw [hp] at h; simp at h; subst h; simp
    | some b =>
      rw [hp] at h
      simp only at h
      split at h <;> simp at h <;> subst h
      · exact List.mem_cons_of_mem _ (ih _ hp)
      · simp

/-- the accumulator of Or's first pass only holds locations `≤ N` -/
structure OrAcc.B (N : Nat) (a : OrAcc) : Prop where
  cands : ∀ c ∈ a.cands, c.1 ≤ N
  fatals : ∀ f ∈ a.fatals, f.loc ≤ N
  mx : ∀ m, a.mx = some m → m ≤ N

theorem orPass1_bnd {N : Nat} {p : P} (hp : Bnd N p) (nameLen : Nat → Nat) (slen loc : Nat) (hs : slen ≤ N)
    (hl : loc ≤ N) : ∀ es a a', OrAcc.B N a → orPass1 p nameLen slen loc es a = some a' → OrAcc.B N a' := by
  intro es
  induction es with
  | nil => intro a a' ha h; simp [orPass1] at h; subst h; exact ha
  | cons x es ih =>
    intro a a' ha h
    unfold orPass1 at h
    have h0 := tryParse_bnd hp x loc true false hl
    have hmx : ∀ l, l ≤ N → ∀ m, (match a.mx with
        | none => some l
        | some m => if l > m then some l else some m) = some m → m ≤ N := by
      intro l hlN m hm
      cases hq : a.mx with
      | none => rw [hq] at hm; simp at hm; omega
      | some m0 =>
        rw [hq] at hm
        simp only at hm
        have := ha.mx _ hq
        split at hm <;> simp at hm <;> omega
    cases ht : tryParse p x loc true false with
    | ok l ts =>
      rw [ht] at h h0
      simp only at h
      refine ih _ _ ?_ h
      refine ⟨?_, ha.fatals, ha.mx⟩
      intro c hc
      simp only [List.mem_append, List.mem_singleton] at hc
      rcases hc with hc | hc
      · exact ha.cands _ hc
      · subst hc; exact h0
    | fail c l =>
      rw [ht] at h h0
      simp only at h
      split at h
      · refine ih _ _ ?_ h
        refine ⟨ha.cands, ?_, by simp⟩
        intro f hf
        simp only [List.mem_append, List.mem_singleton] at hf
        rcases hf with hf | hf
        · exact ha.fatals _ hf
        · subst hf; exact h0
      · split at h
        · exact ih _ _ ha h
        · refine ih _ _ ?_ h
          exact ⟨ha.cands, ha.fatals, hmx l h0⟩
    | idx =>
      rw [ht] at h
      simp only at h
      refine ih _ _ ?_ h
      exact ⟨ha.cands, ha.fatals, hmx slen hs⟩
    | hang => rw [ht] at h; simp at h

theorem orAfter_bnd {N : Nat} (fatals : List Fatal) (mx : Option Nat) (loc : Nat) (hf : ∀ f ∈ fatals, f.loc ≤ N)
    (hm : ∀ m, mx = some m → m ≤ N) (hl : loc ≤ N) : (orAfter fatals mx loc).inB N := by
  unfold orAfter
  cases hp : pickFatal fatals with
  | some f => simpa [Out.inB] using hf f (pickFatal_mem _ _ hp)
  | none =>
    cases mx with
    | some l => simpa [Out.inB] using hm l rfl
    | none => simpa [Out.inB] using hl

/-- what `orPass2` hands back is bounded: a decided outcome, or the best shorter re-parse and the farthest failure -/
def Pass2B (N : Nat) : Sum Out (Option (Nat × List Tok) × Option Nat) → Prop
  | .inl o => o.inB N
  | .inr (lg, mx) => (∀ ll lt, lg = some (ll, lt) → ll ≤ N) ∧ (∀ m, mx = some m → m ≤ N)

theorem orPass2_bnd {N : Nat} {p : P} (hp : Bnd N p) (loc : Nat) (hl : loc ≤ N) :
    ∀ ms longest mx, (∀ ll lt, longest = some (ll, lt) → ll ≤ N) → (∀ m, mx = some m → m ≤ N) →
      Pass2B N (orPass2 p loc ms longest mx) := by
  intro ms
  induction ms with
  | nil => intro longest mx hlg hmx; unfold orPass2; exact ⟨hlg, hmx⟩
  | cons m ms ih =>
    intro longest mx hlg hmx
    rcases m with ⟨loc1, x⟩
    have step : Pass2B N (orPass2.orStep p loc loc1 x ms longest mx) := by
      unfold orPass2.orStep
      have h0 := hp x loc true true hl
      cases h : p x loc true true with
      | ok l2 ts2 =>
        rw [h] at h0
        simp only
        by_cases hge : l2 ≥ loc1
        · simp only [hge, if_true]; exact h0
        · simp only [hge, if_false]
          apply ih _ _ _ hmx
          intro ll lt hq
          cases longest with
          | none => simp at hq; exact hq.1 ▸ h0
          | some q =>
            rcases q with ⟨ll0, lt0⟩
            simp only at hq
            split at hq
            · simp at hq; exact hq.1 ▸ h0
            · exact hlg _ _ hq
      | fail c l =>
        rw [h] at h0
        cases c
        · apply ih _ _ hlg
          intro m hm
          cases mx with
          | none => simp at hm; subst hm; exact h0
          | some m0 =>
            simp only at hm
            split at hm <;> simp at hm <;> subst hm
            · exact h0
            · exact hmx _ rfl
        · exact h0
        · exact h0
      | idx => simp [Pass2B, Out.inB]
      | hang => simp [Pass2B, Out.inB]
    unfold orPass2
    cases longest with
    | none => exact step
    | some q =>
      rcases q with ⟨ll0, lt0⟩
      simp only
      split
      · simpa [Pass2B, Out.inB] using hlg _ _ rfl
      · exact step

theorem mem_insDesc {x y : Nat × Nat} : ∀ {l : List (Nat × Nat)}, y ∈ insDesc x l → y = x ∨ y ∈ l := by
  intro l
  induction l with
  | nil => intro h; simp [insDesc] at h; exact Or.inl h
  | cons z zs ih =>
    intro h
    unfold insDesc at h
    split at h
    · simp at h
      rcases h with h | h
      · exact Or.inr (by simp [h])
      · rcases ih h with h | h
        · exact Or.inl h
        · exact Or.inr (by simp [h])
    · simp at h
      rcases h with h | h | h
      · exact Or.inl h
      · exact Or.inr (by simp [h])
      · exact Or.inr (by simp [h])

theorem mem_sortDesc {y : Nat × Nat} : ∀ {l : List (Nat × Nat)}, y ∈ sortDesc l → y ∈ l := by
  intro l
  induction l with
  | nil => intro h; simp [sortDesc] at h
  | cons x xs ih =>
    intro h
    unfold sortDesc at h
    rcases mem_insDesc h with h | h
    · simp [h]
    · exact List.mem_cons_of_mem _ (ih h)

theorem orAt_bnd {N : Nat} {p : P} (hp : Bnd N p) (nameLen : Nat → Nat) (slen : Nat) (hs : slen ≤ N) (acts : Bool)
    (es : List Nat) (loc : Nat) (hl : loc ≤ N) : (orAt p nameLen slen acts es loc).inB N := by
  unfold orAt
  cases h1 : orPass1 p nameLen slen loc es {} with
  | none => simp [Out.inB]
  | some a =>
    have ha := orPass1_bnd hp nameLen slen loc hs hl es {} a ⟨by simp, by simp, by simp⟩ h1
    simp only
    split
    · exact orAfter_bnd _ _ _ ha.fatals ha.mx hl
    · split
      · split
        · exact hp _ _ _ _ hl
        · simp [Out.inB]
      · have h2 := orPass2_bnd hp loc hl (sortDesc a.cands) none a.mx (by intro _ _ h; simp at h) ha.mx
        generalize orPass2 p loc (sortDesc a.cands) none a.mx = r at h2
        cases r with
        | inl o => exact h2
        | inr q =>
          rcases q with ⟨lg, mx'⟩
          cases lg with
          | none => exact orAfter_bnd _ _ _ ha.fatals h2.2 hl
          | some llt => rcases llt with ⟨ll, lt⟩; simpa [Out.inB] using h2.1 _ _ rfl

theorem orImpl_bnd {N : Nat} {p : P} (hp : Bnd N p) (g : Grammar) (nd : Node) (s : List Char) (hN : s.length ≤ N)
    (acts : Bool) (es : List Nat) (loc : Nat) (hl : loc ≤ N) : (orImpl p g nd s acts es loc).inB N := by
  unfold orImpl
  have h1 : (if es.all (callPreOf g) then preParse p nd s loc else PreR.at loc).inB N := by
    split
    · exact preParse_bnd hp nd s loc hN hl
    · exact hl
  generalize (if es.all (callPreOf g) then preParse p nd s loc else PreR.at loc) = r at h1
  cases r with
  | abort o => exact h1
  | «at» l => exact orAt_bnd hp _ _ hN _ _ _ h1

theorem manyPre_bnd {N : Nat} {p : P} (hp : Bnd N p) (nd : Node) (slen loc : Nat) (hl : loc ≤ N) :
    (manyPre p nd slen loc).inB N := by
  unfold manyPre
  split
  · exact hl
  · exact skipIgnorables_bnd hp _ _ _ _ hl

theorem manyLoop_bnd {N : Nat} {p : P} (hp : Bnd N p) (nd : Node) (acts : Bool) (slen x : Nat) (ne : Option Nat) :
    ∀ k loc acc, loc ≤ N → (manyLoop p nd acts slen x ne k loc acc).inB N := by
  intro k
  induction k with
  | zero => intro loc acc _; simp [manyLoop, Out.inB]
  | succ k ih =>
    intro loc acc hl
    unfold manyLoop
    cases stopCheck p ne loc with
    | none => simp [Out.inB]
    | some b =>
      cases b with
      | true => simpa [Out.inB] using hl
      | false =>
        simp only
        have hm := manyPre_bnd hp nd slen loc hl
        cases hmm : manyPre p nd slen loc with
        | abort o =>
          rw [hmm] at hm
          cases o with
          | ok e' ts' => exact hm
          | fail c l => cases c <;> first | (simpa [Out.inB] using hl) | exact hm
          | idx => simpa [Out.inB] using hl
          | hang => simp [Out.inB]
        | «at» preloc =>
          rw [hmm] at hm
          simp only
          have h0 := hp x preloc acts true hm
          cases h : p x preloc acts true with
          | ok l ts =>
            rw [h] at h0; simp only
            split
            · simp [Out.inB]
            · exact ih _ _ h0
          | fail c l => rw [h] at h0; cases c <;> first | (simpa [Out.inB] using hl) | exact h0
          | idx => simpa [Out.inB] using hl
          | hang => simp [Out.inB]

theorem manyImpl_bnd {N : Nat} {p : P} (hp : Bnd N p) (nd : Node) (acts : Bool) (slen x : Nat) (ne : Option Nat)
    (loc : Nat) (hl : loc ≤ N) : (manyImpl p nd acts slen x ne loc).inB N := by
  have hbody : (match p x loc acts true with
      | .ok l ts => manyLoop p nd acts slen x ne (slen + 2) l ts
      | o => o).inB N := by
    have h0 := hp x loc acts true hl
    cases h : p x loc acts true with
    | ok l' ts' => rw [h] at h0; exact manyLoop_bnd hp _ _ _ _ _ _ _ _ h0
    | fail c l' => rw [h] at h0; exact h0
    | idx => simp [Out.inB]
    | hang => simp [Out.inB]
  unfold manyImpl
  cases ne with
  | none => exact hbody
  | some n =>
    simp only
    have hf := tryParse_bnd hp n loc false false hl
    cases ht : tryParse p n loc false false with
    | ok l ts => exact hbody
    | fail c l => rw [ht] at hf; exact hf
    | idx => simp [Out.inB]
    | hang => simp [Out.inB]

def SumB (N : Nat) : Sum Out Nat → Prop
  | .inl o => o.inB N
  | .inr t => t ≤ N

theorem ignLoop_bnd {N : Nat} {p : P} (hp : Bnd N p) (i : Nat) : ∀ k t, t ≤ N → SumB N (ignLoop p i k t) := by
  intro k
  induction k with
  | zero => intro t _; simp [ignLoop, SumB, Out.inB]
  | succ k ih =>
    intro t ht
    unfold ignLoop
    have h0 := tryParse_bnd hp i t false false ht
    cases h : tryParse p i t false false with
    | ok l ts =>
      rw [h] at h0; simp only
      split
      · exact h0
      · exact ih _ h0
    | fail c l => exact ht
    | idx => simp [SumB, Out.inB]
    | hang => simp [SumB, Out.inB]

theorem ignStep_bnd {N : Nat} {p : P} (hp : Bnd N p) (slen : Nat) (ig : Option Nat) (t : Nat) (ht : t ≤ N) :
    SumB N (ignStep p slen ig t) := by
  unfold ignStep
  cases ig with
  | none => exact ht
  | some i => exact ignLoop_bnd hp _ _ _ ht

theorem skipScan_bnd {N : Nat} {p : P} (hp : Bnd N p) (slen x : Nat) (hs : slen + 1 ≤ N) (fo ig : Option Nat)
    (loc0 : Nat) (hl0 : loc0 ≤ N) : ∀ k t, SumB N (skipScan p slen x fo ig loc0 k t) := by
  intro k
  induction k with
  | zero => intro t; simpa [skipScan, SumB, Out.inB] using hl0
  | succ k ih =>
    intro t
    unfold skipScan
    split
    · simpa [SumB, Out.inB] using hl0
    · rename_i hts
      have ht : t ≤ N := by omega
      cases failOnCheck p fo t with
      | none => simp [SumB, Out.inB]
      | some b =>
        cases b with
        | true => simpa [SumB, Out.inB] using hl0
        | false =>
          simp only
          have hi := ignStep_bnd hp slen ig t ht
          cases hii : ignStep p slen ig t with
          | inl o => rw [hii] at hi; exact hi
          | inr t' =>
            rw [hii] at hi
            simp only
            have h0 := hp x t' false false hi
            cases h : p x t' false false with
            | ok l ts => exact hi
            | fail c l => rw [h] at h0; cases c <;> first | exact ih _ | exact h0
            | idx => exact ih _
            | hang => simp [SumB, Out.inB]

theorem skipToImpl_bnd {N : Nat} {p : P} (hp : Bnd N p) (s : List Char) (hN : s.length + 1 ≤ N) (acts : Bool) (x : Nat)
    (incl : Bool) (fo ig : Option Nat) (loc : Nat) (hl : loc ≤ N) : (skipToImpl p s acts x incl fo ig loc).inB N := by
  unfold skipToImpl
  have hs := skipScan_bnd hp s.length x hN fo ig loc hl (s.length + 2) loc
  generalize skipScan p s.length x fo ig loc (s.length + 2) loc = r at hs
  cases r with
  | inl o => exact hs
  | inr t =>
    simp only
    split
    · have h0 := hp x t acts false hs
      cases h : p x t acts false with
      | ok l ts => rw [h] at h0; exact h0
      | fail c l => rw [h] at h0; exact h0
      | idx => simp [Out.inB]
      | hang => simp [Out.inB]
    · exact hs

theorem enhanceImpl_bnd {N : Nat} {p : P} (hp : Bnd N p) (acts : Bool) (x : Option Nat) (loc : Nat) (hl : loc ≤ N) :
    (enhanceImpl p acts x loc).inB N := by
  unfold enhanceImpl
  cases x with
  | none => simpa [Out.inB] using hl
  | some x =>
    simp only
    have h0 := hp x loc acts false hl
    cases h : p x loc acts false with
    | ok l ts => rw [h] at h0; exact h0
    | fail c l =>
      rw [h] at h0
      cases c <;> simp only [Out.inB] <;> first | exact h0 | (split <;> first | exact hl | exact h0)
    | idx => simp [Out.inB]
    | hang => simp [Out.inB]

theorem runActs_bnd {N : Nat} : ∀ (as : List Act) (start e : Nat) (ts : List Tok), start ≤ N → e ≤ N →
    (runActs as start e ts).inB N := by
  intro as
  induction as with
  | nil => intro _ e _ _ he; simpa [runActs, Out.inB] using he
  | cons a as ih =>
    intro start e ts hs he
    unfold runActs
    cases a <;> first | exact ih _ _ _ hs he | (simpa [Out.inB] using hs)

/-! ### leaves: everything is arithmetic on `List.length` once the run lengths are bounded -/

theorem runLen_le (ok : Char → Bool) (s : List Char) (loc cap : Nat) : runLen ok s loc cap ≤ s.length - loc := by
  unfold runLen
  have h1 := (List.takeWhile_sublist ok (l := (s.drop loc).take cap)).length_le
  have h2 : ((s.drop loc).take cap).length ≤ (s.drop loc).length := by simp [List.length_take]; omega
  simp only [List.length_drop] at h2
  omega

theorem startsWithAt_len {s m : List Char} {loc : Nat} (h : startsWithAt s m loc = true) : loc + m.length ≤ s.length ∨ m = [] := by
  unfold startsWithAt at h
  have h1 : ((s.drop loc).take m.length).length = m.length := by
    have := congrArg List.length (beq_iff_eq.mp h); simpa using this
  simp only [List.length_take, List.length_drop] at h1
  by_cases hm : m = []
  · exact Or.inr hm
  · left
    have : m.length > 0 := List.length_pos_iff.mpr hm
    omega

theorem slice_len (s : List Char) (a b : Nat) : (slice s a b).length = min b s.length - a := by
  unfold slice; simp [List.length_drop, List.length_take]

theorem upper_len (s : List Char) : (upper s).length = s.length := by simp [upper]

theorem getElem?_some_lt {s : List Char} {i : Nat} {c : Char} (h : s[i]? = some c) : i < s.length := by
  by_cases hl : i < s.length
  · exact hl
  · have : s[i]? = none := by simp; omega
    rw [this] at h; simp at h

theorem litImpl_bnd (m s : List Char) (loc N : Nat) (hN : s.length + 1 ≤ N) (hl : loc ≤ N) : (litImpl m s loc).inB N := by
  unfold litImpl
  split
  · simp [Out.inB]
  · rename_i c hc
    have := getElem?_some_lt hc
    split
    · rename_i hcond
      simp only [Bool.and_eq_true] at hcond
      rcases startsWithAt_len hcond.2 with h | h
      · simp [Out.inB]; omega
      · subst h; simp [Out.inB]; omega
    · simpa [Out.inB] using hl

theorem lit1Impl_bnd (ch : Char) (s : List Char) (loc N : Nat) (hN : s.length + 1 ≤ N) (hl : loc ≤ N) :
    (lit1Impl ch s loc).inB N := by
  unfold lit1Impl
  split
  · simp [Out.inB]
  · rename_i c hc
    have := getElem?_some_lt hc
    split
    · simp [Out.inB]; omega
    · simpa [Out.inB] using hl

theorem caselessLitImpl_bnd (mU ret s : List Char) (loc N : Nat) (hN : s.length + 1 ≤ N) (hl : loc ≤ N) :
    (caselessLitImpl mU ret s loc).inB N := by
  unfold caselessLitImpl
  split
  · rename_i h
    have h1 := congrArg List.length (beq_iff_eq.mp h)
    rw [upper_len, slice_len] at h1
    simp [Out.inB]; omega
  · simpa [Out.inB] using hl

theorem kwAfter_bnd (m ident : List Char) (up : Char → Char) (s : List Char) (loc N : Nat) (hN : s.length + 1 ≤ N)
    (hm : loc + m.length ≤ N) : (kwAfter m ident up s loc).inB N := by
  unfold kwAfter
  split
  · simpa [Out.inB] using hm
  · split
    · simp [Out.inB]
    · split <;> simpa [Out.inB] using hm

theorem kwTail_bnd (m ident : List Char) (up : Char → Char) (s : List Char) (loc N : Nat) (hN : s.length + 1 ≤ N)
    (hm : loc + m.length ≤ N) : (kwTail m ident up s loc).inB N := by
  unfold kwTail
  split
  · exact kwAfter_bnd _ _ _ _ _ _ hN hm
  · split
    · simp [Out.inB]
    · split
      · simp [Out.inB]; omega
      · exact kwAfter_bnd _ _ _ _ _ _ hN hm

theorem keywordImpl_bnd (m ident : List Char) (cl : Bool) (s : List Char) (loc N : Nat) (hN : s.length + 1 ≤ N)
    (hl : loc ≤ N) : (keywordImpl m ident cl s loc).inB N := by
  unfold keywordImpl
  split
  · split
    · rename_i h
      have h1 := congrArg List.length (beq_iff_eq.mp h)
      rw [upper_len, upper_len, slice_len] at h1
      exact kwTail_bnd _ _ _ _ _ _ hN (by omega)
    · simpa [Out.inB] using hl
  · split
    · simp [Out.inB]
    · rename_i c hc
      have := getElem?_some_lt hc
      split
      · rename_i hcond
        simp only [Bool.or_eq_true, Bool.and_eq_true] at hcond
        apply kwTail_bnd _ _ _ _ _ _ hN
        rcases hcond with h | h
        · have : m.length = 1 := by simpa using h.2
          omega
        · rcases startsWithAt_len h with h | h
          · omega
          · subst h; simp; omega
      · simpa [Out.inB] using hl

theorem wordSlowImpl_bnd (init body : List Char) (mn : Nat) (mx : Option Nat) (ms kw : Bool) (s : List Char)
    (loc N : Nat) (hN : s.length + 1 ≤ N) (hl : loc ≤ N) : (wordSlowImpl init body mn mx ms kw s loc).inB N := by
  have hr := fun cap => runLen_le (mem · body) s (loc + 1) cap
  unfold wordSlowImpl
  grind [Out.inB]

theorem backtrackB_le (s : List Char) (start lo : Nat) : ∀ k j, backtrackB s start lo k = some j → j ≤ k := by
  intro k
  induction k with
  | zero => intro j h; unfold backtrackB at h; grind
  | succ k ih =>
    intro j h
    unfold backtrackB at h
    grind

theorem wordReImpl_bnd (init body : List Char) (mn : Nat) (mx : Option Nat) (kw : Bool) (s : List Char)
    (loc N : Nat) (hN : s.length + 1 ≤ N) (hl : loc ≤ N) : (wordReImpl init body mn mx kw s loc).inB N := by
  have hr := fun cap => runLen_le (mem · body) s (loc + 1) cap
  have hb := backtrackB_le s loc (mn - 1)
  unfold wordReImpl
  grind [Out.inB]

theorem charsNotInImpl_bnd (notc : List Char) (mn : Nat) (mx : Option Nat) (s : List Char) (loc N : Nat)
    (hN : s.length + 1 ≤ N) (hl : loc ≤ N) : (charsNotInImpl notc mn mx s loc).inB N := by
  have hr := fun cap => runLen_le (fun d => !mem d notc) s (loc + 1) cap
  unfold charsNotInImpl
  grind [Out.inB]

theorem stringEndImpl_bnd (s : List Char) (loc N : Nat) (hN : s.length + 1 ≤ N) (hl : loc ≤ N) :
    (stringEndImpl s loc).inB N := by
  unfold stringEndImpl
  split
  · simpa [Out.inB] using hl
  · split
    · rename_i h; simp at h; simp [Out.inB]; omega
    · simpa [Out.inB] using hl

theorem lineEndImpl_bnd (s : List Char) (loc N : Nat) (hN : s.length + 1 ≤ N) (hl : loc ≤ N) :
    (lineEndImpl s loc).inB N := by
  unfold lineEndImpl
  split
  · split
    · simp [Out.inB]; omega
    · simpa [Out.inB] using hl
  · split
    · rename_i h; simp at h; simp [Out.inB]; omega
    · simpa [Out.inB] using hl

theorem wordStartImpl_bnd (cs s : List Char) (loc N : Nat) (hl : loc ≤ N) : (wordStartImpl cs s loc).inB N := by
  unfold wordStartImpl
  split
  · simpa [Out.inB] using hl
  · split
    · simp [Out.inB]
    · split
      · simpa [Out.inB] using hl
      · split
        · simp [Out.inB]
        · split <;> simpa [Out.inB] using hl

theorem wordEndImpl_bnd (cs s : List Char) (loc N : Nat) (hl : loc ≤ N) : (wordEndImpl cs s loc).inB N := by
  unfold wordEndImpl
  split
  · split
    · simp [Out.inB]
    · split
      · simpa [Out.inB] using hl
      · simp only
        split
        · simp [Out.inB]
        · split <;> simpa [Out.inB] using hl
  · simpa [Out.inB] using hl

/-- every `parseImpl`, called inside the string, answers inside the string -/
theorem parseImpl_bnd {N : Nat} {p : P} (hp : Bnd N p) (g : Grammar) (nd : Node) (s : List Char) (hN : s.length + 1 ≤ N)
    (loc : Nat) (acts : Bool) (hl : loc ≤ N) : (parseImpl g p nd s loc acts).inB N := by
  have hN' : s.length ≤ N := by omega
  unfold parseImpl
  cases hk : nd.kind <;> simp only
  case lit m => exact litImpl_bnd _ _ _ _ hN hl
  case lit1 c => exact lit1Impl_bnd _ _ _ _ hN hl
  case empty => simpa [Out.inB] using hl
  case errorStop => simpa [Out.inB] using hl
  case noMatch => simpa [Out.inB] using hl
  case caselessLit mU ret => exact caselessLitImpl_bnd _ _ _ _ _ hN hl
  case keyword m i c => exact keywordImpl_bnd _ _ _ _ _ _ hN hl
  case word i b mn mx ms kw re =>
    split
    · exact wordReImpl_bnd _ _ _ _ _ _ _ _ hN hl
    · exact wordSlowImpl_bnd _ _ _ _ _ _ _ _ _ hN hl
  case charsNotIn n mn mx => exact charsNotInImpl_bnd _ _ _ _ _ _ hN hl
  case stringStart =>
    split
    · simpa [Out.inB] using hl
    · have h1 := preParse_bnd hp nd s 0 hN' (by omega)
      generalize preParse p nd s 0 = r at h1
      cases r with
      | «at» l => simp only; split <;> simpa [Out.inB] using hl
      | abort o => exact h1
  case stringEnd => exact stringEndImpl_bnd _ _ _ hN hl
  case lineStart w nl => split <;> simpa [Out.inB] using hl
  case lineEnd => exact lineEndImpl_bnd _ _ _ hN hl
  case wordStart cs => exact wordStartImpl_bnd _ _ _ _ hl
  case wordEnd cs => exact wordEndImpl_bnd _ _ _ _ hl
  case and es => exact andImpl_bnd hp _ _ _ hN' _ _ hl
  case matchFirst es => exact mfGo_bnd hp _ _ _ hN' hl _ _ (by intro _ h; simp at h)
  case or es => exact orImpl_bnd hp _ _ _ hN' _ _ _ hl
  case opt x d =>
    have h0 := hp x loc acts false hl
    cases h : p x loc acts false with
    | ok l ts => rw [h] at h0; exact h0
    | fail c l => rw [h] at h0; cases c <;> first | (simpa [Out.inB] using hl) | exact h0
    | idx => simpa [Out.inB] using hl
    | hang => simp [Out.inB]
  case many x ne one =>
    have hm := manyImpl_bnd hp nd acts s.length x ne loc hl
    split
    · exact hm
    · cases h : manyImpl p nd acts s.length x ne loc with
      | ok l ts => rw [h] at hm; exact hm
      | fail c l => rw [h] at hm; cases c <;> first | (simpa [Out.inB] using hl) | exact hm
      | idx => simpa [Out.inB] using hl
      | hang => simp [Out.inB]
  case notAny x =>
    cases canParseNext p x loc acts with
    | none => simp [Out.inB]
    | some b => cases b <;> simpa [Out.inB] using hl
  case followedBy x =>
    have h0 := hp x loc acts true hl
    cases h : p x loc acts true with
    | ok l ts => simpa [Out.inB] using hl
    | fail c l => rw [h] at h0; exact h0
    | idx => simp [Out.inB]
    | hang => simp [Out.inB]
  case located x =>
    have h0 := hp x loc acts false hl
    cases h : p x loc acts false with
    | ok l ts => rw [h] at h0; exact h0
    | fail c l => rw [h] at h0; exact h0
    | idx => simp [Out.inB]
    | hang => simp [Out.inB]
  case group x => exact enhanceImpl_bnd hp _ _ _ hl
  case suppress x => exact enhanceImpl_bnd hp _ _ _ hl
  case combine x j => exact enhanceImpl_bnd hp _ _ _ hl
  case enhance x => exact enhanceImpl_bnd hp _ _ _ hl
  case forward x => exact enhanceImpl_bnd hp _ _ _ hl
  case skipTo x incl fo ig => exact skipToImpl_bnd hp _ hN _ _ _ _ _ _ hl

theorem parseStep_bnd (g : Grammar) (s : List Char) {N : Nat} (hN : s.length + 1 ≤ N) {p : P} (hp : Bnd N p) :
    Bnd N (parseStep g s p) := by
  intro id loc a c hl
  unfold parseStep
  cases hg : g[id]? with
  | none => simp [Out.inB]
  | some nd =>
    simp only
    have h1 : (if (c && nd.callPre) = true then preParse p nd s loc else PreR.at loc).inB N := by
      split
      · exact preParse_bnd hp nd s loc (by omega) hl
      · exact hl
    generalize (if (c && nd.callPre) = true then preParse p nd s loc else PreR.at loc) = pr at h1
    cases pr with
    | abort o => exact h1
    | «at» pre =>
      simp only
      have hi := parseImpl_bnd hp g nd s hN pre a h1
      cases h : parseImpl g p nd s pre a with
      | ok e ts =>
        rw [h] at hi
        simp only
        split
        · exact runActs_bnd _ _ _ _ h1 hi
        · exact hi
      | fail c' l => rw [h] at hi; exact hi
      | idx =>
        simp only
        by_cases hc : (nd.mayIdx || decide (pre ≥ s.length)) = true
        · simp only [hc, if_true]
          show s.length ≤ N
          omega
        · simp only [hc]
          trivial
      | hang => simp [Out.inB]

/-- **every reported location lies inside the string** (`≤ len + 1`): for every grammar, input, fuel and call begun
    inside the string -/
theorem parse_bnd (g : Grammar) (s : List Char) : ∀ f, Bnd (s.length + 1) (parse g s f) := by
  intro f
  induction f with
  | zero => intro _ _ _ _ _; simp [parse, Out.inB]
  | succ f ih => exact parseStep_bnd g s (Nat.le_refl _) ih

end PP.Parse
