import PPProofs.Lemmas.ParseTerm
/-
  Termination on RECURSIVE grammars (Props/C06Rec.lean): the `…_nohang` lemmas with the location-restricted hypothesis
  `NHge p e L` — the nested call does not hang at locations `≥ L` — which is what a lexicographic induction on
  (remaining input, rank) can supply.  Covers try_parse / can_parse_next, pre-parsing, `And` (with the sharper statement:
  operands after one that consumed are needed from `loc + 1` on only, and only while `loc ≤ len`), `MatchFirst`, `Or`,
  repetition, `SkipTo`, plain enhancement, `parseImpl`, `parseStep`.
-/
namespace PP.Parse

/-- `p` does not hang on element `e` at any location `≥ L` -/
def NHge (p : P) (e L : Nat) : Prop := ∀ loc, L ≤ loc → ∀ a c, p e loc a c ≠ .hang

theorem NHge.mono {p : P} {e L L' : Nat} (h : NHge p e L) (hl : L ≤ L') : NHge p e L' :=
  fun loc hloc a c => h loc (Nat.le_trans hl hloc) a c

theorem NH.ge {p : P} {e : Nat} (h : NH p e) (L : Nat) : NHge p e L := fun loc _ a c => h loc a c

theorem tryParse_nohang_ge {p : P} {e L : Nat} (hp : NHge p e L) (loc : Nat) (hl : L ≤ loc) (rf da : Bool) :
    tryParse p e loc rf da ≠ .hang := by
  unfold tryParse
  cases h0 : p e loc da true with
  | ok l ts => simp
  | fail c l => simp only; split <;> simp
  | idx => simp
  | hang => exact absurd h0 (hp _ hl _ _)

theorem canParseNext_nohang_ge {p : P} {e L : Nat} (hp : NHge p e L) (loc : Nat) (hl : L ≤ loc) (da : Bool) :
    canParseNext p e loc da ≠ none := by
  unfold canParseNext
  have := tryParse_nohang_ge hp loc hl false da
  cases h0 : tryParse p e loc false da with
  | ok l ts => simp
  | fail c l => simp
  | idx => simp
  | hang => exact absurd h0 this

theorem stopCheck_nohang_ge {p : P} {ne : Option Nat} {L : Nat} (hp : ∀ n, ne = some n → NHge p n L) (loc : Nat)
    (hl : L ≤ loc) : stopCheck p ne loc ≠ none := by
  unfold stopCheck
  cases ne with
  | none => simp
  | some n =>
    simp only
    have := tryParse_nohang_ge (hp n rfl) loc hl false false
    cases h0 : tryParse p n loc false false with
    | ok l ts => simp
    | fail c l => simp
    | idx => simp
    | hang => exact absurd h0 this

/-! ### pre-parsing -/

theorem ignoreOne_nohang_ge {slen : Nat} {p : P} {e L : Nat} (hp : NHge p e L) (hb : BndAll slen p) (ha : IgnAdv p e) :
    ∀ k loc found, L ≤ loc → 1 ≤ k → slen + 2 ≤ k + loc → (ignoreOne p e k loc found).1 ≠ .abort .hang := by
  intro k
  induction k with
  | zero => intro loc found _ h1; omega
  | succ k ih =>
    intro loc found hL _ h2
    unfold ignoreOne
    cases h0 : p e loc true true with
    | ok l ts =>
      have hl := ha _ _ _ h0
      have hu := hb.ok_le h0
      simp only
      rw [if_neg (by omega)]
      exact ih _ _ (by omega) (by omega) (by omega)
    | fail c l => cases c <;> simp
    | idx => simp
    | hang => exact absurd h0 (hp _ hL _ _)

theorem ignorePass_nohang_ge {slen : Nat} {p : P} {L : Nat} (hb : BndAll slen p) :
    ∀ es, (∀ e ∈ es, NHge p e L ∧ IgnAdv p e) → ∀ loc found, L ≤ loc →
      (ignorePass p slen es loc found).1 ≠ .abort .hang := by
  intro es
  induction es with
  | nil => intro _ loc found _; simp [ignorePass]
  | cons e es ih =>
    intro hes loc found hL
    unfold ignorePass
    have h1 := ignoreOne_nohang_ge (hes e (by simp)).1 hb (hes e (by simp)).2 (slen + 2) loc found hL (by omega) (by omega)
    have h2 := ignoreOne_ge p e (slen + 2) loc found
    generalize ignoreOne p e (slen + 2) loc found = r at h1 h2
    rcases r with ⟨r, f⟩
    cases r with
    | «at» l =>
      have := h2 l f rfl
      exact ih (fun x hx => hes x (List.mem_cons_of_mem _ hx)) _ _ (by omega)
    | abort o => exact h1

theorem skipIgnorables_nohang_ge {slen : Nat} {p : P} {L : Nat} (hb : BndAll slen p) (ign : List Nat)
    (hes : ∀ e ∈ ign, NHge p e L ∧ IgnAdv p e) :
    ∀ k loc, L ≤ loc → 1 ≤ k → slen + 2 ≤ k + loc → skipIgnorables p slen ign k loc ≠ .abort .hang := by
  intro k
  induction k with
  | zero => intro loc _ h1; omega
  | succ k ih =>
    intro loc hL _ h2
    unfold skipIgnorables
    have h1 := ignorePass_nohang_ge hb ign hes loc false hL
    have h3 := ignorePass_bnd (hb (max loc (slen + 1)) (by omega)) slen ign loc false (by omega)
    have h4 := ignorePass_ge p slen ign loc false
    generalize ignorePass p slen ign loc false = r at h1 h3 h4
    rcases r with ⟨r, f⟩
    cases r with
    | «at» l =>
      simp only
      have h5 := h4 l f rfl
      have h6 : l ≤ max loc (slen + 1) := h3
      split
      · simp
      · rename_i hc
        have hne : l ≠ loc := by
          intro heq; apply hc; simp [heq]
        exact ih _ (by omega) (by omega) (by omega)
    | abort o => exact h1

theorem preParse_nohang_ge {p : P} {L : Nat} (nd : Node) (s : List Char) (hb : BndAll s.length p)
    (hes : ∀ e ∈ nd.ignore, NHge p e L ∧ IgnAdv p e) (loc : Nat) (hL : L ≤ loc) : preParse p nd s loc ≠ .abort .hang := by
  unfold preParse
  split
  · simp
  · simp only
    have h1 : (if nd.ignore.isEmpty then PreR.at loc else skipIgnorables p s.length nd.ignore (s.length + 2) loc)
        ≠ .abort .hang := by
      split
      · simp
      · exact skipIgnorables_nohang_ge hb _ hes _ _ hL (by omega) (by omega)
    generalize (if nd.ignore.isEmpty then PreR.at loc else skipIgnorables p s.length nd.ignore (s.length + 2) loc) = r at h1
    cases r with
    | «at» l => simp
    | abort o => exact h1

/-! ### And: operands after one that consumed are only needed strictly later -/

/-- what `andRest` needs of its operands, at location `loc`: while nothing has been consumed, each operand must not hang
    from `loc` on; once an operand that always consumes (`SAdv`) has been passed, the rest only from `loc + 1` on -/
def AndOk (p : P) (isStop : Nat → Bool) (slen : Nat) : List Nat → Nat → Prop
  | [], _ => True
  | e :: es, loc =>
    if isStop e then AndOk p isStop slen es loc
    else NHge p e loc ∧ ((SAdv p e → loc ≤ slen → ∀ x ∈ es, NHge p x (loc + 1)) ∧ (¬ SAdv p e → AndOk p isStop slen es loc))

theorem andRest_nohang_ge' {p : P} (hadv : Adv p) (isStop : Nat → Bool) (acts : Bool) (slen : Nat) :
    ∀ es L, (∀ x ∈ es, NHge p x L) → ∀ stop loc acc, L ≤ loc → andRest p isStop acts slen es stop loc acc ≠ .hang := by
  intro es
  induction es with
  | nil => intro _ _ stop loc acc _; simp [andRest]
  | cons x es ih =>
    intro L hes stop loc acc hL
    have ih' := ih L (fun e he => hes e (List.mem_cons_of_mem _ he))
    unfold andRest
    split
    · exact ih' _ _ _ hL
    · cases h0 : p x loc acts true with
      | ok l ts => exact ih' _ _ _ (by have := hadv _ _ _ _ _ _ h0; omega)
      | fail c l => simp only; split <;> simp
      | idx => simp only; split <;> simp
      | hang => exact absurd h0 (hes x (by simp) _ hL _ _)

theorem AndOk.mono {p : P} {isStop : Nat → Bool} {slen : Nat} : ∀ {es : List Nat} {loc loc' : Nat},
    AndOk p isStop slen es loc → loc ≤ loc' → AndOk p isStop slen es loc' := by
  intro es
  induction es with
  | nil => intro _ _ _ _; trivial
  | cons x es ih =>
    intro loc loc' h hl
    unfold AndOk at h ⊢
    split
    · rename_i hs; simp only [hs, if_true] at h; exact ih h hl
    · rename_i hs
      simp only [hs] at h
      have h' : NHge p x loc ∧ ((SAdv p x → loc ≤ slen → ∀ y ∈ es, NHge p y (loc + 1)) ∧
          (¬ SAdv p x → AndOk p isStop slen es loc)) := by
        simpa using h
      exact ⟨h'.1.mono hl, fun hs' hle y hy => (h'.2.1 hs' (by omega) y hy).mono (by omega), fun hs' => ih (h'.2.2 hs') hl⟩

theorem andRest_nohang_ge {p : P} (hadv : Adv p) (isStop : Nat → Bool) (acts : Bool) (slen : Nat) (hb : BndAll slen p) :
    ∀ es loc, AndOk p isStop slen es loc → ∀ stop acc, andRest p isStop acts slen es stop loc acc ≠ .hang := by
  intro es
  induction es with
  | nil => intro _ _ stop acc; simp [andRest]
  | cons x es ih =>
    intro loc hok stop acc
    unfold AndOk at hok
    unfold andRest
    split
    · rename_i hs
      simp only [hs, if_true] at hok
      exact ih loc hok _ _
    · rename_i hs
      simp only [hs] at hok
      have hok' : NHge p x loc ∧ ((SAdv p x → loc ≤ slen → ∀ y ∈ es, NHge p y (loc + 1)) ∧
          (¬ SAdv p x → AndOk p isStop slen es loc)) := by
        simpa using hok
      cases h0 : p x loc acts true with
      | ok l' ts =>
        simp only
        have hge := hadv _ _ _ _ _ _ h0
        by_cases hs' : SAdv p x
        · have hl' := hs' _ _ _ _ _ h0
          have hu := hb.ok_le h0
          exact andRest_nohang_ge' hadv isStop acts slen es (loc + 1) (hok'.2.1 hs' (by omega)) _ _ _ (by omega)
        · exact ih l' ((hok'.2.2 hs').mono hge) _ _
      | fail c l' => simp only; split <;> simp
      | idx => simp only; split <;> simp
      | hang => exact absurd h0 (hok'.1 _ (Nat.le_refl _) _ _)

/-- `And`: the first operand is parsed unconditionally (never skipped as an `_ErrorStop`) -/
theorem andImpl_nohang_ge {p : P} (hadv : Adv p) (isStop : Nat → Bool) (acts : Bool) (slen : Nat) (e0 : Nat)
    (rest : List Nat) (loc : Nat) (hb : BndAll slen p) (h0 : NHge p e0 loc)
    (hs : SAdv p e0 → loc ≤ slen → ∀ y ∈ rest, NHge p y (loc + 1)) (hn : ¬ SAdv p e0 → AndOk p isStop slen rest loc) :
    andImpl p isStop acts slen (e0 :: rest) loc ≠ .hang := by
  unfold andImpl
  simp only
  cases h1 : p e0 loc acts false with
  | ok l ts =>
    simp only
    have hge := hadv _ _ _ _ _ _ h1
    by_cases hs' : SAdv p e0
    · have := hs' _ _ _ _ _ h1
      have hu := hb.ok_le h1
      exact andRest_nohang_ge' hadv isStop acts slen rest (loc + 1) (hs hs' (by omega)) _ _ _ (by omega)
    · exact andRest_nohang_ge hadv isStop acts slen hb rest l ((hn hs').mono hge) _ _
  | fail c l => simp
  | idx => simp
  | hang => exact absurd h1 (h0 _ (Nat.le_refl _) _ _)

theorem mfGo_nohang_ge {p : P} (acts : Bool) (slen loc : Nat) :
    ∀ es, (∀ e ∈ es, NHge p e loc) → ∀ mx, mfGo p acts slen loc es mx ≠ .hang := by
  intro es
  induction es with
  | nil => intro _ mx; cases mx <;> simp [mfGo]
  | cons x es ih =>
    intro hes mx
    have ih' := ih (fun e he => hes e (List.mem_cons_of_mem _ he))
    unfold mfGo
    cases h0 : p x loc acts true with
    | ok l ts => simp
    | fail c l => cases c <;> first | exact ih' _ | simp
    | idx => exact ih' _
    | hang => exact absurd h0 (hes x (by simp) _ (Nat.le_refl _) _ _)

theorem enhanceImpl_nohang_ge {p : P} (acts : Bool) (x : Option Nat) (loc : Nat) (hx : ∀ e, x = some e → NHge p e loc) :
    enhanceImpl p acts x loc ≠ .hang := by
  unfold enhanceImpl
  cases x with
  | none => simp
  | some x =>
    simp only
    cases h0 : p x loc acts false with
    | ok l ts' => simp
    | fail c l => cases c <;> simp
    | idx => simp
    | hang => exact absurd h0 (hx x rfl _ (Nat.le_refl _) _ _)

/-! ### Or -/

theorem orPass1_nohang_ge {p : P} (nameLen : Nat → Nat) (slen loc : Nat) :
    ∀ es, (∀ e ∈ es, NHge p e loc) → ∀ a, orPass1 p nameLen slen loc es a ≠ none := by
  intro es
  induction es with
  | nil => intro _ a; simp [orPass1]
  | cons x es ih =>
    intro hes a
    have ih' := ih (fun e he => hes e (List.mem_cons_of_mem _ he))
    unfold orPass1
    have := tryParse_nohang_ge (hes x (by simp)) loc (Nat.le_refl _) true false
    cases h0 : tryParse p x loc true false with
    | ok l ts => exact ih' _
    | fail c l =>
      simp only
      split
      · exact ih' _
      · split
        · exact ih' _
        · exact ih' _
    | idx => exact ih' _
    | hang => exact absurd h0 this

theorem orPass2_nohang_ge {p : P} (loc : Nat) :
    ∀ ms, (∀ m ∈ ms, NHge p m.2 loc) → ∀ longest mx, orPass2 p loc ms longest mx ≠ .inl .hang := by
  intro ms
  induction ms with
  | nil => intro _ longest mx; simp [orPass2]
  | cons m ms ih =>
    intro hms longest mx
    have ih' := ih (fun e he => hms e (List.mem_cons_of_mem _ he))
    rcases m with ⟨loc1, x⟩
    have hx : NHge p x loc := hms (loc1, x) (by simp)
    have step : orPass2.orStep p loc loc1 x ms longest mx ≠ .inl .hang := by
      unfold orPass2.orStep
      cases h0 : p x loc true true with
      | ok l2 ts2 =>
        simp only
        split
        · simp
        · exact ih' _ _
      | fail c l =>
        cases c
        · exact ih' _ _
        · simp
        · simp
      | idx => simp
      | hang => exact absurd h0 (hx _ (Nat.le_refl _) _ _)
    unfold orPass2
    cases longest with
    | none => exact step
    | some llt =>
      rcases llt with ⟨ll0, lt0⟩
      simp only
      split
      · simp
      · exact step

theorem orAt_nohang_ge {p : P} (nameLen : Nat → Nat) (slen : Nat) (acts : Bool) (es : List Nat) (loc : Nat)
    (hes : ∀ e ∈ es, NHge p e loc) : orAt p nameLen slen acts es loc ≠ .hang := by
  unfold orAt
  cases h1 : orPass1 p nameLen slen loc es {} with
  | none => exact absurd h1 (orPass1_nohang_ge _ _ _ _ hes _)
  | some a =>
    have hc : ∀ m ∈ sortDesc a.cands, NHge p m.2 loc := by
      intro m hm
      rcases orPass1_cands _ _ _ _ _ _ h1 m (mem_sortDesc hm) with h | h
      · simp at h
      · exact hes _ h
    simp only
    split
    · exact orAfter_nohang _ _ _
    · rename_i hne
      split
      · split
        · rename_i l0 e0 rest heq
          exact hc (l0, e0) (by rw [heq]; simp) _ (Nat.le_refl _) _ _
        · rename_i heq
          have := sortDesc_eq_nil heq
          simp [this] at hne
      · have h2 := orPass2_nohang_ge loc (sortDesc a.cands) hc none a.mx
        generalize orPass2 p loc (sortDesc a.cands) none a.mx = r at h2
        cases r with
        | inl o => simp only; intro ho; subst ho; exact h2 rfl
        | inr q =>
          rcases q with ⟨lg, mx'⟩
          cases lg with
          | none => exact orAfter_nohang _ _ _
          | some llt => rcases llt with ⟨ll, lt⟩; simp

theorem orImpl_nohang_ge {p : P} (g : Grammar) (nd : Node) (s : List Char) (acts : Bool) (es : List Nat) (loc : Nat)
    (hb : BndAll s.length p) (hig : ∀ e ∈ nd.ignore, NHge p e loc ∧ IgnAdv p e) (hes : ∀ e ∈ es, NHge p e loc) :
    orImpl p g nd s acts es loc ≠ .hang := by
  unfold orImpl
  have h1 : (if es.all (callPreOf g) then preParse p nd s loc else PreR.at loc) ≠ .abort .hang ∧
      ∀ l, (if es.all (callPreOf g) then preParse p nd s loc else PreR.at loc) = .at l → loc ≤ l := by
    split
    · exact ⟨preParse_nohang_ge nd s hb hig loc (Nat.le_refl _), fun l h => preParse_ge p nd s loc l h⟩
    · exact ⟨by simp, fun l h => by simp at h; omega⟩
  generalize (if es.all (callPreOf g) then preParse p nd s loc else PreR.at loc) = r at h1
  cases r with
  | abort o => simp only; intro ho; subst ho; exact h1.1 rfl
  | «at» l => exact orAt_nohang_ge _ _ _ _ _ (fun e he => (hes e he).mono (h1.2 l rfl))

/-! ### repetition -/

theorem manyPre_nohang_ge {p : P} (nd : Node) (slen : Nat) {L : Nat} (hb : BndAll slen p)
    (hig : ∀ e ∈ nd.ignore, NHge p e L ∧ IgnAdv p e) (loc : Nat) (hL : L ≤ loc) : manyPre p nd slen loc ≠ .abort .hang := by
  unfold manyPre
  split
  · simp
  · exact skipIgnorables_nohang_ge hb _ hig _ _ hL (by omega) (by omega)

theorem manyPre_ge (p : P) (nd : Node) (slen loc preloc : Nat) (h : manyPre p nd slen loc = .at preloc) : loc ≤ preloc := by
  unfold manyPre at h
  split at h
  · simp at h; omega
  · exact skipIgnorables_ge _ _ _ _ _ _ h

theorem manyLoop_nohang_ge {p : P} (nd : Node) (acts : Bool) (slen x : Nat) (ne : Option Nat) {L : Nat}
    (hb : BndAll slen p) (hig : ∀ e ∈ nd.ignore, NHge p e L ∧ IgnAdv p e) (hx : NHge p x L)
    (hne : ∀ n, ne = some n → NHge p n L) (ha : ManyAdv p nd slen x) :
    ∀ k loc acc, L ≤ loc → 1 ≤ k → slen + 2 ≤ k + loc → manyLoop p nd acts slen x ne k loc acc ≠ .hang := by
  intro k
  induction k with
  | zero => intro loc acc _ h1; omega
  | succ k ih =>
    intro loc acc hL _ h2
    unfold manyLoop
    cases hs : stopCheck p ne loc with
    | none => exact absurd hs (stopCheck_nohang_ge hne _ hL)
    | some b =>
      cases b with
      | true => simp
      | false =>
        simp only
        have hmb := manyPre_bnd (hb (max loc (slen + 1)) (by omega)) nd slen loc (by omega)
        cases hm : manyPre p nd slen loc with
        | abort o =>
          cases o with
          | ok e' ts' => simp
          | fail c l => cases c <;> simp
          | idx => simp
          | hang => exact absurd hm (manyPre_nohang_ge nd slen hb hig _ hL)
        | «at» preloc =>
          rw [hm] at hmb
          have hpl : preloc ≤ max loc (slen + 1) := hmb
          have hpg := manyPre_ge p nd slen loc preloc hm
          simp only
          cases h0 : p x preloc acts true with
          | ok l ts =>
            have hl := ha _ _ _ _ _ hm h0
            have hu := hb.ok_le h0
            simp only
            rw [if_neg (by omega)]
            exact ih _ _ (by omega) (by omega) (by omega)
          | fail c l => cases c <;> simp
          | idx => simp
          | hang => exact absurd h0 (hx _ (by omega) _ _)

theorem manyImpl_nohang_ge {p : P} (hadv : Adv p) (nd : Node) (acts : Bool) (slen x : Nat) (ne : Option Nat) (loc : Nat)
    (hb : BndAll slen p) (hig : ∀ e ∈ nd.ignore, NHge p e loc ∧ IgnAdv p e) (hx : NHge p x loc)
    (hne : ∀ n, ne = some n → NHge p n loc) (ha : ManyAdv p nd slen x) :
    manyImpl p nd acts slen x ne loc ≠ .hang := by
  have hbody : (match p x loc acts true with
      | .ok l ts => manyLoop p nd acts slen x ne (slen + 2) l ts
      | o => o) ≠ .hang := by
    cases h : p x loc acts true with
    | ok l' ts' =>
      have := hadv _ _ _ _ _ _ h
      exact manyLoop_nohang_ge nd acts slen x ne hb hig hx hne ha _ _ _ this (by omega) (by omega)
    | fail c l' => simp
    | idx => simp
    | hang => exact absurd h (hx _ (Nat.le_refl _) _ _)
  unfold manyImpl
  cases ne with
  | none => exact hbody
  | some n =>
    simp only
    have := tryParse_nohang_ge (hne n rfl) loc (Nat.le_refl _) false false
    cases ht : tryParse p n loc false false with
    | ok l ts => exact hbody
    | fail c l => simp
    | idx => simp
    | hang => exact absurd ht this

/-! ### SkipTo -/

theorem ignLoop_nohang_ge {slen : Nat} {p : P} (hadv : Adv p) (hb : BndAll slen p) {i L : Nat} (hi : NHge p i L) :
    ∀ k t, L ≤ t → 1 ≤ k → slen + 2 ≤ k + t → ignLoop p i k t ≠ .inl .hang := by
  intro k
  induction k with
  | zero => intro t _ h1; omega
  | succ k ih =>
    intro t hL _ h2
    unfold ignLoop
    have hnh := tryParse_nohang_ge hi t hL false false
    have hbd := tryParse_bnd (hb (max t (slen + 1)) (by omega)) i t false false (by omega)
    cases h0 : tryParse p i t false false with
    | ok l ts =>
      rw [h0] at hbd
      have hu : l ≤ max t (slen + 1) := hbd
      have hge := tryParse_adv hadv h0
      simp only
      split
      · simp
      · rename_i hc
        have hne : l ≠ t := by intro heq; apply hc; simp [heq]
        exact ih _ (by omega) (by omega) (by omega)
    | fail c l => simp
    | idx => simp
    | hang => exact absurd h0 hnh

theorem failOnCheck_nohang_ge {p : P} {fo : Option Nat} {L : Nat} (hp : ∀ n, fo = some n → NHge p n L) (t : Nat)
    (hL : L ≤ t) : failOnCheck p fo t ≠ none := by
  unfold failOnCheck
  cases fo with
  | none => simp
  | some n => exact canParseNext_nohang_ge (hp n rfl) _ hL _

theorem ignStep_nohang_ge {slen : Nat} {p : P} (hadv : Adv p) (hb : BndAll slen p) {ig : Option Nat} {L : Nat}
    (hi : ∀ n, ig = some n → NHge p n L) (t : Nat) (hL : L ≤ t) : ignStep p slen ig t ≠ .inl .hang := by
  unfold ignStep
  cases ig with
  | none => simp
  | some i => exact ignLoop_nohang_ge hadv hb (hi i rfl) _ _ hL (by omega) (by omega)

theorem skipScan_nohang_ge {p : P} (slen x : Nat) (fo ig : Option Nat) (loc0 : Nat) {L : Nat} (hadv : Adv p)
    (hb : BndAll slen p) (hx : NHge p x L) (hfo : ∀ n, fo = some n → NHge p n L) (hig : ∀ n, ig = some n → NHge p n L) :
    ∀ k t, L ≤ t → skipScan p slen x fo ig loc0 k t ≠ .inl .hang := by
  intro k
  induction k with
  | zero => intro t _; simp [skipScan]
  | succ k ih =>
    intro t hL
    unfold skipScan
    split
    · simp
    · cases hf : failOnCheck p fo t with
      | none => exact absurd hf (failOnCheck_nohang_ge hfo _ hL)
      | some b =>
        cases b with
        | true => simp
        | false =>
          simp only
          cases hi : ignStep p slen ig t with
          | inl o => simp only; intro ho; simp at ho; subst ho; exact ignStep_nohang_ge hadv hb hig _ hL hi
          | inr t' =>
            have ht' := ignStep_adv hadv _ _ _ _ hi
            simp only
            cases h0 : p x t' false false with
            | ok l ts' => simp
            | fail c l =>
              cases c
              · exact ih _ (by omega)
              · simp
              · simp
            | idx => exact ih _ (by omega)
            | hang => exact absurd h0 (hx _ (by omega) _ _)

theorem skipToImpl_nohang_ge {p : P} (s : List Char) (acts : Bool) (x : Nat) (incl : Bool) (fo ig : Option Nat) (loc : Nat)
    (hadv : Adv p) (hb : BndAll s.length p) (hx : NHge p x loc) (hfo : ∀ n, fo = some n → NHge p n loc)
    (hig : ∀ n, ig = some n → NHge p n loc) : skipToImpl p s acts x incl fo ig loc ≠ .hang := by
  unfold skipToImpl
  have hs := skipScan_nohang_ge s.length x fo ig loc hadv hb hx hfo hig (s.length + 2) loc (Nat.le_refl _)
  have hge := (skipScan_adv hadv s.length x fo ig loc (s.length + 2) loc).1
  generalize skipScan p s.length x fo ig loc (s.length + 2) loc = r at hs hge
  cases r with
  | inl o => simp only; intro ho; subst ho; exact hs rfl
  | inr t =>
    have := hge t rfl
    simp only
    split
    · cases h0 : p x t acts false with
      | ok l ts' => simp
      | fail c l => simp
      | idx => simp
      | hang => exact absurd h0 (hx _ this _ _)
    · simp

/-! ### `parseImpl`, `_parseNoCache` -/

/-- what one node needs of the recursive call when it is entered at a location `≥ L` -/
structure NodeOkGe (p : P) (g : Grammar) (nd : Node) (slen L : Nat) : Prop where
  ign : ∀ e ∈ nd.ignore, NHge p e L ∧ IgnAdv p e
  kids : (∀ es, nd.kind ≠ .and es) → ∀ c ∈ nd.kind.children, NHge p c L
  and : ∀ e0 rest, nd.kind = .and (e0 :: rest) →
    NHge p e0 L ∧ (SAdv p e0 → ∀ l, L ≤ l → l ≤ slen → ∀ y ∈ rest, NHge p y (l + 1)) ∧
      (¬ SAdv p e0 → AndOk p (stopFn g) slen rest L)
  many : ∀ x ne one, nd.kind = .many x ne one → ManyAdv p nd slen x
  ss : nd.kind = .stringStart → nd.ignore = []

theorem NodeOkGe.mono {p : P} {g : Grammar} {nd : Node} {slen L L' : Nat} (h : NodeOkGe p g nd slen L) (hl : L ≤ L') :
    NodeOkGe p g nd slen L' :=
  ⟨fun e he => ⟨(h.ign e he).1.mono hl, (h.ign e he).2⟩,
   fun hk c hc => (h.kids hk c hc).mono hl,
   fun e0 rest hk => ⟨(h.and e0 rest hk).1.mono hl,
     fun hs l hLl hls y hy => (h.and e0 rest hk).2.1 hs l (by omega) hls y hy,
     fun hs => ((h.and e0 rest hk).2.2 hs).mono hl⟩,
   h.many, h.ss⟩

theorem parseImpl_nohang_ge {p : P} (g : Grammar) (nd : Node) (s : List Char) (hadv : Adv p) (hb : BndAll s.length p)
    (loc : Nat) (hn : NodeOkGe p g nd s.length loc) (acts : Bool) : parseImpl g p nd s loc acts ≠ .hang := by
  have hig := hn.ign
  have hkids := hn.kids
  have hand := hn.and
  have hss := hn.ss
  unfold parseImpl
  cases hkd : nd.kind <;> simp only [hkd] at hkids hand hss ⊢
  case lit m => exact litImpl_nohang _ _ _
  case lit1 c => exact lit1Impl_nohang _ _ _
  case empty => simp
  case errorStop => simp
  case noMatch => simp
  case caselessLit mU ret => exact caselessLitImpl_nohang _ _ _ _
  case keyword m i c => exact keywordImpl_nohang _ _ _ _ _
  case word i b mn mx ms kw re =>
    split
    · exact wordReImpl_nohang _ _ _ _ _ _ _
    · exact wordSlowImpl_nohang _ _ _ _ _ _ _ _
  case charsNotIn n mn mx => exact charsNotInImpl_nohang _ _ _ _ _
  case stringStart =>
    split
    · simp
    · have hign : nd.ignore = [] := hss trivial
      have := preParse_nohang_ge (L := 0) nd s hb (by intro e he; rw [hign] at he; simp at he) 0 (Nat.le_refl _)
      cases hpre : preParse p nd s 0 with
      | «at» l => simp only; split <;> simp
      | abort o => simp only; intro ho; subst ho; exact this hpre
  case stringEnd => exact stringEndImpl_nohang _ _
  case lineStart w nl => split <;> simp
  case lineEnd => exact lineEndImpl_nohang _ _
  case wordStart cs => exact wordStartImpl_nohang _ _ _
  case wordEnd cs => exact wordEndImpl_nohang _ _ _
  case and es =>
    cases es with
    | nil => simp [andImpl]
    | cons e0 rest =>
      have h := hand e0 rest rfl
      exact andImpl_nohang_ge hadv (stopFn g) acts s.length e0 rest loc hb h.1
        (fun hs hle y hy => h.2.1 hs loc (Nat.le_refl _) hle y hy) h.2.2
  case matchFirst es =>
    exact mfGo_nohang_ge _ _ _ _ (fun e he => hkids (by intro es' h; cases h) e (by simpa [Kind.children] using he)) _
  case or es =>
    exact orImpl_nohang_ge _ _ _ _ _ _ hb hig
      (fun e he => hkids (by intro es' h; cases h) e (by simpa [Kind.children] using he))
  case opt x d =>
    have hx : NHge p x loc := hkids (by intro es' h; cases h) x (by simp [Kind.children])
    cases h0 : p x loc acts false with
    | ok l ts' => simp
    | fail c l => cases c <;> simp
    | idx => simp
    | hang => exact absurd h0 (hx _ (Nat.le_refl _) _ _)
  case many x ne one =>
    have hx : NHge p x loc := hkids (by intro es' h; cases h) x (by simp [Kind.children])
    have hne : ∀ n, ne = some n → NHge p n loc := by
      intro n h; subst h; exact hkids (by intro es' h; cases h) n (by simp [Kind.children])
    have hm := manyImpl_nohang_ge hadv nd acts s.length x ne loc hb hig hx hne (hn.many x ne one hkd)
    split
    · exact hm
    · cases h1 : manyImpl p nd acts s.length x ne loc with
      | ok l ts' => simp
      | fail c l => cases c <;> simp
      | idx => simp
      | hang => exact absurd h1 hm
  case notAny x =>
    have hx : NHge p x loc := hkids (by intro es' h; cases h) x (by simp [Kind.children])
    have := canParseNext_nohang_ge hx loc (Nat.le_refl _) acts
    cases hc : canParseNext p x loc acts with
    | none => exact absurd hc this
    | some b => cases b <;> simp
  case followedBy x =>
    have hx : NHge p x loc := hkids (by intro es' h; cases h) x (by simp [Kind.children])
    cases h0 : p x loc acts true with
    | ok l ts' => simp
    | fail c l => simp
    | idx => simp
    | hang => exact absurd h0 (hx _ (Nat.le_refl _) _ _)
  case located x =>
    have hx : NHge p x loc := hkids (by intro es' h; cases h) x (by simp [Kind.children])
    cases h0 : p x loc acts false with
    | ok l ts' => simp
    | fail c l => simp
    | idx => simp
    | hang => exact absurd h0 (hx _ (Nat.le_refl _) _ _)
  case group x =>
    exact enhanceImpl_nohang_ge _ _ _ (by intro e h; simp at h; subst h; exact hkids (by intro es' h; cases h) _ (by simp [Kind.children]))
  case suppress x =>
    exact enhanceImpl_nohang_ge _ _ _ (by intro e h; simp at h; subst h; exact hkids (by intro es' h; cases h) _ (by simp [Kind.children]))
  case combine x j =>
    exact enhanceImpl_nohang_ge _ _ _ (by intro e h; simp at h; subst h; exact hkids (by intro es' h; cases h) _ (by simp [Kind.children]))
  case enhance x =>
    exact enhanceImpl_nohang_ge _ _ _ (by intro e h; simp at h; subst h; exact hkids (by intro es' h; cases h) _ (by simp [Kind.children]))
  case forward x =>
    exact enhanceImpl_nohang_ge _ _ _ (by intro e h; subst h; exact hkids (by intro es' h; cases h) _ (by simp [Kind.children]))
  case skipTo x incl fo ig =>
    refine skipToImpl_nohang_ge _ _ _ _ _ _ _ hadv hb (hkids (by intro es' h; cases h) x (by simp [Kind.children])) ?_ ?_
    · intro n h; subst h; exact hkids (by intro es' h; cases h) n (by simp [Kind.children])
    · intro n h; subst h; exact hkids (by intro es' h; cases h) n (by simp [Kind.children])

/-- one level of `_parseNoCache`, entered at `loc` -/
theorem parseStep_nohang_ge {p : P} (g : Grammar) (s : List Char) (hadv : Adv p) (hb : BndAll s.length p)
    {id : Nat} {nd : Node} (hg : g[id]? = some nd) (loc : Nat) (hn : NodeOkGe p g nd s.length loc) (a c : Bool) :
    parseStep g s p id loc a c ≠ .hang := by
  unfold parseStep
  rw [hg]
  simp only
  have h1 : (if (c && nd.callPre) = true then preParse p nd s loc else PreR.at loc) ≠ .abort .hang ∧
      ∀ l, (if (c && nd.callPre) = true then preParse p nd s loc else PreR.at loc) = .at l → loc ≤ l := by
    split
    · exact ⟨preParse_nohang_ge nd s hb hn.ign loc (Nat.le_refl _), fun l h => preParse_ge p nd s loc l h⟩
    · exact ⟨by simp, fun l h => by simp at h; omega⟩
  generalize (if (c && nd.callPre) = true then preParse p nd s loc else PreR.at loc) = pr at h1
  cases pr with
  | abort o => simp only; intro ho; subst ho; exact h1.1 rfl
  | «at» pre =>
    simp only
    have hi := parseImpl_nohang_ge g nd s hadv hb pre (hn.mono (h1.2 pre rfl)) a
    cases h : parseImpl g p nd s pre a with
    | ok e ts =>
      simp only
      split
      · exact runActs_nohang _ _ _ _
      · simp
    | fail c' l => simp
    | idx =>
      by_cases hc : (nd.mayIdx || decide (pre ≥ s.length)) = true <;> simp [hc]
    | hang => exact absurd h hi

end PP.Parse
