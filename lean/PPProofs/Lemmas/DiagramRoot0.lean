import PPProofs.Lemmas.DiagramRoot
/-! Helper lemmas for C20 (root_first, roots that are not visited again): the variant of `RInv` without
    the name requirement, and an induction over the calls below a set of elements closed under
    `recurse()`. -/
namespace PP.Diagram

structure RInv0 (root : Nat) (s : St) : Prop where
  lk : ∀ u st, aget s.lookup u = some st →
    (u = root → st.number = 1) ∧ (u ≠ root → 2 ≤ st.number)
  dg : ∀ u d, aget s.diagrams u = some d → (u = root → d.index = 1) ∧ (u ≠ root → 2 ≤ d.index)
  known : (∃ st, aget s.lookup root = some st) ∨ (∃ d, aget s.diagrams root = some d)
  idx : 1 ≤ s.index
  dk : (s.diagrams.map (·.1)).Nodup

theorem RInv0_tables {root : Nat} {s s' : St} (h : RInv0 root s) (h1 : s'.lookup = s.lookup)
    (h2 : s'.diagrams = s.diagrams) (h3 : s'.index = s.index) : RInv0 root s' :=
  ⟨by rw [h1]; exact h.lk, by rw [h2]; exact h.dg, by rw [h1, h2]; exact h.known, by rw [h3]; exact h.idx,
   by rw [h2]; exact h.dk⟩

theorem RInv0_setL' {root : Nat} (s : St) (idx el : Nat) (st' : EState)
    (hlk : ∀ u st, aget s.lookup u = some st →
      (u = root → st.number = 1) ∧ (u ≠ root → 2 ≤ st.number))
    (hdg : ∀ u d, aget s.diagrams u = some d → (u = root → d.index = 1) ∧ (u ≠ root → 2 ≤ d.index))
    (hk : el = root ∨ (∃ st, aget s.lookup root = some st) ∨ (∃ d, aget s.diagrams root = some d))
    (hdk : (s.diagrams.map (·.1)).Nodup)
    (hi : 1 ≤ idx)
    (hst : (el = root → st'.number = 1) ∧ (el ≠ root → 2 ≤ st'.number)) :
    RInv0 root (setL s idx el st') := by
  refine ⟨?_, hdg, ?_, hi, hdk⟩
  · intro u st hu
    by_cases hu' : u = el
    · subst hu'
      simp only [setL, aget_aset_same, Option.some.injEq] at hu
      subst hu; exact hst
    · simp only [setL, aget_aset_ne _ _ _ _ hu'] at hu
      exact hlk u st hu
  · by_cases he : el = root
    · subst he; exact Or.inl ⟨st', aget_aset_same _ _ _⟩
    · rcases hk with hk | hk | hk
      · exact absurd hk he
      · left
        simp only [setL, aget_aset_ne _ _ _ _ (Ne.symm he)]
        exact hk
      · exact Or.inr hk

theorem RInv0_setL {root : Nat} (s : St) (idx el : Nat) (st' : EState) (h : RInv0 root s) (hi : 1 ≤ idx)
    (hst : (el = root → st'.number = 1) ∧ (el ≠ root → 2 ≤ st'.number)) :
    RInv0 root (setL s idx el st') :=
  RInv0_setL' s idx el st' h.lk h.dg (Or.inr h.known) h.dk hi hst

theorem RInv0_exFin {root : Nat} (s1 : St) (el : Nat) (pos : EState) (c : Slot) (h : RInv0 root s1)
    (hpos : aget s1.lookup el = some pos) : RInv0 root (exFin s1 el pos c) := by
  refine ⟨?_, ?_, ?_, h.idx, aset_keys_nodup _ _ _ h.dk⟩
  · intro u st hu
    by_cases hu' : u = el
    · subst hu'; simp [exFin, aget_adel_same] at hu
    · simp only [exFin, aget_adel_ne _ _ _ hu'] at hu
      exact h.lk u st hu
  · intro u d hu
    by_cases hu' : u = el
    · subst hu'
      simp only [exFin, aget_aset_same, Option.some.injEq] at hu
      subst hu
      exact ⟨fun e => (h.lk u pos hpos).1 e, (h.lk u pos hpos).2⟩
    · simp only [exFin, aget_aset_ne _ _ _ _ hu'] at hu
      exact h.dg u d hu
  · by_cases he : el = root
    · subst he; exact Or.inr ⟨_, aget_aset_same _ _ _⟩
    · have he' : root ≠ el := Ne.symm he
      simp only [exFin, aget_aset_ne _ _ _ _ he', aget_adel_ne _ _ _ he']
      exact h.known

theorem RInv0_extract {root : Nat} (s : St) (el : Nat) (h : RInv0 root s) :
    RInv0 root (extractIntoDiagram s el) := by
  cases hl : aget s.lookup el with
  | none => rw [extract_none s el hl]; exact h
  | some pos =>
    obtain ⟨c, e⟩ := extract_eq s el pos hl
    rw [e]
    exact RInv0_exFin _ el pos c (RInv0_tables h (exNT_lookup s pos) (exNT_diagrams s pos) (exNT_index s pos))
      (by rw [exNT_lookup]; exact hl)

theorem RInv0_mark {root : Nat} (g : Grammar) (s : St) (el : Nat) (name : Option String) (f : Bool)
    (h : RInv0 root s) : RInv0 root (markForExtraction g s el name f) := by
  cases hl : aget s.lookup el with
  | none =>
    have e : markForExtraction g s el name f = s := by
      unfold markForExtraction; simp only [hl]
    rw [e]; exact h
  | some st =>
    rw [mark_eq g s el name f st hl]
    have h1 : RInv0 root (setL s s.index el { st with extract := true, name := markName g st el name }) :=
      RInv0_setL s s.index el _ h h.idx
        ⟨fun e => (h.lk el st hl).1 e, (h.lk el st hl).2⟩
    split
    · exact RInv0_extract _ el h1
    · exact h1

theorem RInv0_register {root : Nat} (g : Grammar) (s : St) (el : Nat) (n : Node) (parent : Option Nat)
    (index : Nat) (pn : PNode) (h : RInv0 root s) (hne : el ≠ root) :
    RInv0 root (register g s el n parent index pn).2 := by
  have h1 : RInv0 root (setL (s.alloc pn).2 (s.index + 1) el
      { converted := s.heap.length, parent := parent, parentIndex := index, number := s.index + 1 }) :=
    RInv0_setL _ _ el _ (RInv0_tables h rfl rfl rfl) (by omega)
      ⟨fun e => absurd e hne, fun _ => by have := h.idx; show 2 ≤ s.index + 1; omega⟩
  unfold register
  simp only
  split
  · exact RInv0_mark g _ el _ false h1
  · exact h1

theorem RInv0_pre_ret {root : Nat} (g : Grammar) (o : Opts) (el : Nat) (n : Node) (p : Option Nat) (i : Nat)
    (h : Option String) (s : St) (r : Option Nat) (s' : St) (hI : RInv0 root s)
    (hp : pre g o el n p i h s = .ret r s') : RInv0 root s' := by
  unfold pre at hp
  split at hp
  · exact absurd hp (by simp)
  · split at hp
    · simp only [newNT, Pre.ret.injEq] at hp
      obtain ⟨_, rfl⟩ := hp
      exact RInv0_tables (RInv0_mark g s el h false hI) rfl rfl rfl
    · simp only [newNT, Pre.ret.injEq] at hp
      obtain ⟨_, rfl⟩ := hp
      exact RInv0_tables hI rfl rfl rfl
    · unfold preFresh at hp
      split at hp
      · simp only [Pre.ret.injEq] at hp
        obtain ⟨_, rfl⟩ := hp
        exact hI
      · split at hp
        · simp only [Pre.ret.injEq] at hp
          obtain ⟨_, rfl⟩ := hp
          exact hI
        · exact absurd hp (by simp)

theorem RInv0_pre_loop {root : Nat} (g : Grammar) (o : Opts) (el : Nat) (n : Node) (p : Option Nat) (i : Nat)
    (h : Option String) (s : St) (r : Nat) (s' : St) (hne : el ≠ root) (hI : RInv0 root s)
    (hp : pre g o el n p i h s = .loop r s') : RInv0 root s' := by
  unfold pre at hp
  split at hp
  · exact absurd hp (by simp)
  · split at hp
    · exact absurd hp (by simp)
    · exact absurd hp (by simp)
    · unfold preFresh at hp
      split at hp
      · exact absurd hp (by simp)
      · split at hp
        · exact absurd hp (by simp)
        · rename_i pn hd
          simp only [Pre.loop.injEq] at hp
          obtain ⟨_, rfl⟩ := hp
          exact RInv0_register g s el n p i pn hI hne

theorem RInv0_setComplete {root : Nat} (s : St) (el : Nat) (h : RInv0 root s) : RInv0 root (setComplete s el) := by
  unfold setComplete
  cases hl : aget s.lookup el with
  | none => exact h
  | some st =>
    exact RInv0_setL s s.index el { st with complete := true } h h.idx (h.lk el st hl)

theorem RInv0_post {root : Nat} (el : Nat) (n : Node) (hint : Option String) (ret : Nat) (s : St)
    (h : RInv0 root s) : RInv0 root (post el n hint ret s).2 := by
  have h1 : RInv0 root (post1 n hint ret s).2 := by
    unfold post1
    split
    · exact RInv0_tables h rfl rfl rfl
    · exact h
  have h2 := RInv0_setComplete _ el h1
  unfold post
  simp only
  split
  · split
    · exact RInv0_tables (RInv0_extract _ el h2) rfl rfl rfl
    · exact h2
  · exact h2

theorem RInv0_annotate {root : Nat} (o : Opts) (n : Node) (r : Option Nat) (s : St) (h : RInv0 root s) :
    RInv0 root (annotate o n r s).2 := by
  unfold annotate
  split
  · exact h
  · split
    · exact RInv0_tables h rfl rfl rfl
    · exact h


end PP.Diagram
