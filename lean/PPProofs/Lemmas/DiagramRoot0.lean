import PPProofs.Lemmas.DiagramRoot
/-! Helper lemmas for C20 (root_first, roots that are not visited again): the variant of `RInv` without
    the name requirement, and an induction over the calls below a set of elements closed under
    `recurse()`. -/
namespace PP.Diagram

structure RInv0 (root : Nat) (s : St) : Prop where
  lk : ∀ u st, aget s.lookup u = some st →
    (u = root → st.number = 1) ∧ (u ≠ root → 2 ≤ st.number)
  dg : ∀ u d, aget s.diagrams u = some d → (u = root → d.index = 1) ∧ (u ≠ root → 2 ≤ d.index)
  known : (∃ st, aget s.lookup root = some st) ∨ (∃ d, aget s.diagrams root = some d)
  idx : 1 ≤ s.index
  dk : (s.diagrams.map (·.1)).Nodup

theorem RInv0_tables {root : Nat} {s s' : St} (h : RInv0 root s) (h1 : s'.lookup = s.lookup)
    (h2 : s'.diagrams = s.diagrams) (h3 : s'.index = s.index) : RInv0 root s' :=
  ⟨by rw [h1]; exact h.lk, by rw [h2]; exact h.dg, by rw [h1, h2]; exact h.known, by rw [h3]; exact h.idx,
   by rw [h2]; exact h.dk⟩

theorem RInv0_setL' {root : Nat} (s : St) (idx el : Nat) (st' : EState)
    (hlk : ∀ u st, aget s.lookup u = some st →
      (u = root → st.number = 1) ∧ (u ≠ root → 2 ≤ st.number))
    (hdg : ∀ u d, aget s.diagrams u = some d → (u = root → d.index = 1) ∧ (u ≠ root → 2 ≤ d.index))
    (hk : el = root ∨ (∃ st, aget s.lookup root = some st) ∨ (∃ d, aget s.diagrams root = some d))
    (hdk : (s.diagrams.map (·.1)).Nodup)
    (hi : 1 ≤ idx)
    (hst : (el = root → st'.number = 1) ∧ (el ≠ root → 2 ≤ st'.number)) :
    RInv0 root (setL s idx el st') := by
  refine ⟨?_, hdg, ?_, hi, hdk⟩
  · intro u st hu
    by_cases hu' : u = el
    · subst hu'
      simp only [setL, aget_aset_same, Option.some.injEq] at hu
      subst hu; exact hst
    · simp only [setL, aget_aset_ne _ _ _ _ hu'] at hu
      exact hlk u st hu
  · by_cases he : el = root
    · subst he; exact Or.inl ⟨st', aget_aset_same _ _ _⟩
    · rcases hk with hk | hk | hk
      · exact absurd hk he
      · left
        simp only [setL, aget_aset_ne _ _ _ _ (Ne.symm he)]
        exact hk
      · exact Or.inr hk

theorem RInv0_setL {root : Nat} (s : St) (idx el : Nat) (st' : EState) (h : RInv0 root s) (hi : 1 ≤ idx)
    (hst : (el = root → st'.number = 1) ∧ (el ≠ root → 2 ≤ st'.number)) :
    RInv0 root (setL s idx el st') :=
  RInv0_setL' s idx el st' h.lk h.dg (Or.inr h.known) h.dk hi hst

theorem RInv0_exFin {root : Nat} (s1 : St) (el : Nat) (pos : EState) (c : Slot) (h : RInv0 root s1)
    (hpos : aget s1.lookup el = some pos) : RInv0 root (exFin s1 el pos c) := by
  refine ⟨?_, ?_, ?_, h.idx, aset_keys_nodup _ _ _ h.dk⟩
  · intro u st hu
    by_cases hu' : u = el
    · subst hu'; simp [exFin, aget_adel_same] at hu
    · simp only [exFin, aget_adel_ne _ _ _ hu'] at hu
      exact h.lk u st hu
  · intro u d hu
    by_cases hu' : u = el
    · subst hu'
      simp only [exFin, aget_aset_same, Option.some.injEq] at hu
      subst hu
      exact ⟨fun e => (h.lk u pos hpos).1 e, (h.lk u pos hpos).2⟩
    · simp only [exFin, aget_aset_ne _ _ _ _ hu'] at hu
      exact h.dg u d hu
  · by_cases he : el = root
    · subst he; exact Or.inr ⟨_, aget_aset_same _ _ _⟩
    · have he' : root ≠ el := Ne.symm he
      simp only [exFin, aget_aset_ne _ _ _ _ he', aget_adel_ne _ _ _ he']
      exact h.known

theorem RInv0_extract {root : Nat} (s : St) (el : Nat) (h : RInv0 root s) :
    RInv0 root (extractIntoDiagram s el) := by
  cases hl : aget s.lookup el with
  | none => rw [extract_none s el hl]; exact h
  | some pos =>
    obtain ⟨c, e⟩ := extract_eq s el pos hl
    rw [e]
    exact RInv0_exFin _ el pos c (RInv0_tables h (exNT_lookup s pos) (exNT_diagrams s pos) (exNT_index s pos))
      (by rw [exNT_lookup]; exact hl)

theorem RInv0_mark {root : Nat} (g : Grammar) (s : St) (el : Nat) (name : Option String) (f : Bool)
    (h : RInv0 root s) : RInv0 root (markForExtraction g s el name f) := by
  cases hl : aget s.lookup el with
  | none =>
    have e : markForExtraction g s el name f = s := by
      unfold markForExtraction; simp only [hl]
    rw [e]; exact h
  | some st =>
    rw [mark_eq g s el name f st hl]
    have h1 : RInv0 root (setL s s.index el { st with extract := true, name := markName g st el name }) :=
      RInv0_setL s s.index el _ h h.idx
        ⟨fun e => (h.lk el st hl).1 e, (h.lk el st hl).2⟩
    split
    · exact RInv0_extract _ el h1
    · exact h1

theorem RInv0_register {root : Nat} (g : Grammar) (s : St) (el : Nat) (n : Node) (parent : Option Nat)
    (index : Nat) (pn : PNode) (h : RInv0 root s) (hne : el ≠ root) :
    RInv0 root (register g s el n parent index pn).2 := by
  have h1 : RInv0 root (setL (s.alloc pn).2 (s.index + 1) el
      { converted := s.heap.length, parent := parent, parentIndex := index, number := s.index + 1 }) :=
    RInv0_setL _ _ el _ (RInv0_tables h rfl rfl rfl) (by omega)
      ⟨fun e => absurd e hne, fun _ => by have := h.idx; show 2 ≤ s.index + 1; omega⟩
  unfold register
  simp only
  split
  · exact RInv0_mark g _ el _ false h1
  · exact h1

theorem RInv0_pre_ret {root : Nat} (g : Grammar) (o : Opts) (el : Nat) (n : Node) (p : Option Nat) (i : Nat)
    (h : Option String) (s : St) (r : Option Nat) (s' : St) (hI : RInv0 root s)
    (hp : pre g o el n p i h s = .ret r s') : RInv0 root s' := by
  unfold pre at hp
  split at hp
  · exact absurd hp (by simp)
  · split at hp
    · simp only [newNT, Pre.ret.injEq] at hp
      obtain ⟨_, rfl⟩ := hp
      exact RInv0_tables (RInv0_mark g s el h false hI) rfl rfl rfl
    · simp only [newNT, Pre.ret.injEq] at hp
      obtain ⟨_, rfl⟩ := hp
      exact RInv0_tables hI rfl rfl rfl
    · unfold preFresh at hp
      split at hp
      · simp only [Pre.ret.injEq] at hp
        obtain ⟨_, rfl⟩ := hp
        exact hI
      · split at hp
        · simp only [Pre.ret.injEq] at hp
          obtain ⟨_, rfl⟩ := hp
          exact hI
        · exact absurd hp (by simp)

theorem RInv0_pre_loop {root : Nat} (g : Grammar) (o : Opts) (el : Nat) (n : Node) (p : Option Nat) (i : Nat)
    (h : Option String) (s : St) (r : Nat) (s' : St) (hne : el ≠ root) (hI : RInv0 root s)
    (hp : pre g o el n p i h s = .loop r s') : RInv0 root s' := by
  unfold pre at hp
  split at hp
  · exact absurd hp (by simp)
  · split at hp
    · exact absurd hp (by simp)
    · exact absurd hp (by simp)
    · unfold preFresh at hp
      split at hp
      · exact absurd hp (by simp)
      · split at hp
        · exact absurd hp (by simp)
        · rename_i pn hd
          simp only [Pre.loop.injEq] at hp
          obtain ⟨_, rfl⟩ := hp
          exact RInv0_register g s el n p i pn hI hne

theorem RInv0_setComplete {root : Nat} (s : St) (el : Nat) (h : RInv0 root s) : RInv0 root (setComplete s el) := by
  unfold setComplete
  cases hl : aget s.lookup el with
  | none => exact h
  | some st =>
    exact RInv0_setL s s.index el { st with complete := true } h h.idx (h.lk el st hl)

theorem RInv0_post {root : Nat} (el : Nat) (n : Node) (hint : Option String) (ret : Nat) (s : St)
    (h : RInv0 root s) : RInv0 root (post el n hint ret s).2 := by
  have h1 : RInv0 root (post1 n hint ret s).2 := by
    unfold post1
    split
    · exact RInv0_tables h rfl rfl rfl
    · exact h
  have h2 := RInv0_setComplete _ el h1
  unfold post
  simp only
  split
  · split
    · exact RInv0_tables (RInv0_extract _ el h2) rfl rfl rfl
    · exact h2
  · exact h2

theorem RInv0_annotate {root : Nat} (o : Opts) (n : Node) (r : Option Nat) (s : St) (h : RInv0 root s) :
    RInv0 root (annotate o n r s).2 := by
  unfold annotate
  split
  · exact h
  · split
    · exact RInv0_tables h rfl rfl rfl
    · exact h


/-! ### induction over the calls below a set closed under `recurse()` -/

def ClosedUnder (g : Grammar) (D : Nat → Prop) : Prop :=
  ∀ u n, D u → g[u]? = some n → ∀ c ∈ n.kids, D c

theorem stepKid_inv_on (I : St → Prop) (rec : Rec) (ret c : Nat)
    (hkw : ∀ s r kw, I s → I (s.setKw r kw))
    (hrec : ∀ p i h s r s', I s → rec c p i h s = some (r, s') → I s') :
    ∀ i s i' s', I s → stepKid rec ret c i s = some (i', s') → I s' := by
  intro i s i' s' hI h
  unfold stepKid at h
  split at h
  · exact absurd h (by simp)
  · rename_i item s2 hr
    have hI1 : I (addPlaceholder s ret i) := by
      unfold addPlaceholder
      split
      · exact hkw _ _ _ hI
      · exact hI
    have hI2 : I s2 := hrec _ _ _ _ _ _ hI1 hr
    split at h <;> simp only [Option.some.injEq, Prod.mk.injEq] at h <;> obtain ⟨_, rfl⟩ := h
    · exact hkw _ _ _ hI2
    · exact hkw _ _ _ hI2
    · exact hI2
    · exact hkw _ _ _ hI2
    · exact hI2

theorem loopKids_inv_on (I : St → Prop) (rec : Rec) (ret : Nat)
    (hkw : ∀ s r kw, I s → I (s.setKw r kw)) :
    ∀ kids, (∀ c ∈ kids, ∀ p i h s r s', I s → rec c p i h s = some (r, s') → I s') →
      ∀ i s s', I s → loopKids rec ret kids i s = some s' → I s' := by
  intro kids
  induction kids with
  | nil => intro _ i s s' hI h; simp [loopKids] at h; exact h ▸ hI
  | cons c cs ih =>
    intro hrec i s s' hI h
    unfold loopKids at h
    split at h
    · exact absurd h (by simp)
    · rename_i i' s1 hs
      exact ih (fun c' hc' => hrec c' (List.mem_cons_of_mem _ hc')) _ _ _
        (stepKid_inv_on I rec ret c hkw (hrec c (List.mem_cons_self ..)) _ _ _ _ hI hs) h

theorem pre_pass_mem (g : Grammar) (o : Opts) (el : Nat) (n : Node) (p : Option Nat) (i : Nat)
    (h : Option String) (s : St) (c : Nat) (h' : Option String)
    (hp : pre g o el n p i h s = .pass c h') : c ∈ n.kids := by
  unfold pre at hp
  split at hp
  · rename_i hpass
    simp only [Pre.pass.injEq] at hp
    obtain ⟨hc1, _⟩ := hp
    rw [← hc1]
    cases hkk : n.kids with
    | nil => simp [isPass, hkk] at hpass
    | cons a as => simp
  · split at hp
    · exact absurd hp (by simp)
    · exact absurd hp (by simp)
    · unfold preFresh at hp
      split at hp
      · exact absurd hp (by simp)
      · split at hp <;> exact absurd hp (by simp)

theorem conv_inv_on (g : Grammar) (o : Opts) (I : St → Prop) (D : Nat → Prop) (hD : ClosedUnder g D)
    (hkw : ∀ s r kw, I s → I (s.setKw r kw))
    (hret : ∀ el n p i h s r s', D el → g[el]? = some n → I s → pre g o el n p i h s = .ret r s' → I s')
    (hloop : ∀ el n p i h s r s', D el → g[el]? = some n → I s → pre g o el n p i h s = .loop r s' → I s')
    (hpost : ∀ el n h ret s, g[el]? = some n → I s → I (post el n h ret s).2)
    (hann : ∀ n r s, I s → I (annotate o n r s).2) :
    ∀ fuel el p i h s r s', D el → I s → conv g o fuel el p i h s = some (r, s') → I s' := by
  intro fuel
  induction fuel with
  | zero => intro el p i h s r s' _ _ hc; simp [conv] at hc
  | succ f ih =>
    intro el p i h s r s' hDel hI hc
    unfold conv at hc
    cases hg : g[el]? with
    | none => simp [hg] at hc; exact hc.2 ▸ hI
    | some n =>
      simp only [hg] at hc
      cases hb : convBody g o (conv g o f) el n p i h s with
      | none => simp [hb] at hc
      | some rs =>
        obtain ⟨r1, s1⟩ := rs
        simp only [hb, Option.some.injEq] at hc
        have e : (annotate o n r1 s1).2 = s' := by rw [hc]
        refine e ▸ hann n r1 s1 ?_
        unfold convBody at hb
        cases hp : pre g o el n p i h s with
        | ret r0 s0 =>
          simp only [hp, Option.some.injEq, Prod.mk.injEq] at hb
          exact hb.2 ▸ hret _ _ _ _ _ _ _ _ hDel hg hI hp
        | pass c h' =>
          simp only [hp] at hb
          exact ih _ _ _ _ _ _ _ (hD el n hDel hg c (pre_pass_mem g o el n p i h s c h' hp)) hI hb
        | loop ret s0 =>
          simp only [hp] at hb
          have hI0 := hloop _ _ _ _ _ _ _ _ hDel hg hI hp
          cases hl : loopKids (conv g o f) ret n.kids 0 s0 with
          | none => simp [hl] at hb
          | some s2 =>
            simp only [hl, Option.some.injEq] at hb
            have hI1 := loopKids_inv_on I (conv g o f) ret hkw n.kids
              (fun c hc p i h s r s' a b => ih c p i h s r s' (hD el n hDel hg c hc) a b) _ _ _ hI0 hl
            have := hpost el n h ret s2 hg hI1
            have e2 : (post el n h ret s2).2 = s1 := by rw [hb]
            exact e2 ▸ this

/-- below a closed set that does not contain the root, `RInv0` is kept -/
theorem conv_RInv0_on (g : Grammar) (o : Opts) (root : Nat) (D : Nat → Prop) (hD : ClosedUnder g D)
    (hroot : ¬ D root) :
    ∀ fuel el p i h s r s', D el → RInv0 root s → conv g o fuel el p i h s = some (r, s') → RInv0 root s' :=
  conv_inv_on g o (RInv0 root) D hD
    (fun s r kw h => RInv0_tables h rfl rfl rfl)
    (fun el n p i h s r s' _ _ hI hp => RInv0_pre_ret g o el n p i h s r s' hI hp)
    (fun el n p i h s r s' hDel _ hI hp =>
      RInv0_pre_loop g o el n p i h s r s' (fun e => hroot (e ▸ hDel)) hI hp)
    (fun el n h ret s _ hI => RInv0_post el n h ret s hI)
    (fun n r s hI => RInv0_annotate o n r s hI)

/-- the first call, at a root that is registered and whose descendants do not contain it -/
theorem conv_root_RInv0 (g : Grammar) (o : Opts) (fuel root : Nat) (n : Node) (pn : PNode)
    (D : Nat → Prop) (hD : ClosedUnder g D) (hroot : ¬ D root)
    (hg : g[root]? = some n) (hkids : ∀ c ∈ n.kids, D c) (hpass : isPass n = false)
    (hv : (!n.shown && !o.showHidden) = false) (hd : dispatch g o n (nameOf n none) = some pn)
    (r : Option Nat) (s' : St) (hc : conv g o fuel root none 0 none {} = some (r, s')) : RInv0 root s' := by
  cases fuel with
  | zero => simp [conv] at hc
  | succ f =>
    unfold conv at hc
    have hp : ∃ r0, pre g o root n none 0 none {} = .loop r0 (register g {} root n none 0 pn).2 := by
      have h2 : seenOf g {} root = .fresh := by
        unfold seenOf
        split <;> simp
      unfold pre
      simp only [hpass, h2, Bool.false_eq_true, if_false]
      unfold preFresh
      simp only [hv, hd, Bool.false_eq_true, if_false]
      exact ⟨_, rfl⟩
    obtain ⟨r0, hp⟩ := hp
    have hI0 : RInv0 root (register g {} root n none 0 pn).2 := by
      have hbase : RInv0 root (setL (({} : St).alloc pn).2 (({} : St).index + 1) root
          { converted := ({} : St).heap.length, parent := none, parentIndex := 0, number := ({} : St).index + 1 }) := by
        refine RInv0_setL' _ _ root _ ?_ ?_ (Or.inl rfl) ?_ (by omega) ⟨fun _ => rfl, fun h => absurd rfl h⟩
        · intro u st hu; exact absurd hu (by simp [St.alloc])
        · intro u d hu; exact absurd hu (by simp [St.alloc])
        · simp [St.alloc]
      unfold register
      simp only
      split
      · exact RInv0_mark g _ root _ false hbase
      · exact hbase
    simp only [hg] at hc
    cases hb : convBody g o (conv g o f) root n none 0 none {} with
    | none => simp [hb] at hc
    | some rs =>
      obtain ⟨r1, s1⟩ := rs
      simp only [hb, Option.some.injEq] at hc
      have e : (annotate o n r1 s1).2 = s' := by rw [hc]
      refine e ▸ RInv0_annotate o n r1 s1 ?_
      unfold convBody at hb
      simp only [hp] at hb
      cases hl : loopKids (conv g o f) r0 n.kids 0 (register g {} root n none 0 pn).2 with
      | none => simp [hl] at hb
      | some s2 =>
        simp only [hl, Option.some.injEq] at hb
        have hI1 := loopKids_inv_on (RInv0 root) (conv g o f) r0 (fun s r kw h => RInv0_tables h rfl rfl rfl)
          n.kids (fun c hc p i h s r s' a b => conv_RInv0_on g o root D hD hroot f c p i h s r s' (hkids c hc) a b)
          _ _ _ hI0 hl
        have e2 : (post root n none r0 s2).2 = s1 := by rw [hb]
        exact e2 ▸ RInv0_post root n none r0 s2 hI1

/-- the entry with index 1 and a name no other entry has comes first in the output -/
theorem head_of_index_one (s : St) (root : Nat) (d : DEntry) (hdk : (s.diagrams.map (·.1)).Nodup)
    (hd : aget s.diagrams root = some d) (hidx : d.index = 1)
    (hothers : ∀ u e, aget s.diagrams u = some e → u ≠ root → 2 ≤ e.index)
    (hsome : d.name.isSome) (hne : d.name ≠ some "...")
    (huniq : ∀ u e, aget s.diagrams u = some e → e.name = d.name → u = root) :
    (names (sortByIndex ((selected s).map (entryTree s)))).head? = some d.name := by
  have hmem : d ∈ s.diagrams.map (·.2) := aget_mem _ _ _ hd
  have hkey : ∀ e ∈ s.diagrams.map (·.2), ∃ u, aget s.diagrams u = some e := by
    intro e he
    obtain ⟨⟨u, e'⟩, hp, rfl⟩ := List.mem_map.mp he
    exact ⟨u, mem_aget _ _ _ hdk hp⟩
  have hroot_of_idx : ∀ e ∈ s.diagrams.map (·.2), e.index ≤ 1 → e = d := by
    intro e he hle
    obtain ⟨u, hu⟩ := hkey e he
    by_cases hur : u = root
    · subst hur; rw [hd] at hu; simp only [Option.some.injEq] at hu; exact hu.symm
    · have := hothers u e hu hur; omega
  have huniq' : ∀ e ∈ s.diagrams.map (·.2), e.name = d.name → e = d := by
    intro e he hn
    obtain ⟨u, hu⟩ := hkey e he
    have hur := huniq u e hu hn
    subst hur
    rw [hd] at hu; simp only [Option.some.injEq] at hu; exact hu.symm
  have hsel : d ∈ selected s := by
    unfold selected
    simp only
    split
    · exact dedupe_keeps _ [] d hmem hsome hne (by simp) huniq'
    · exact hmem
  have hsub : ∀ e ∈ selected s, e ∈ s.diagrams.map (·.2) := by
    intro e he
    unfold selected at he
    simp only at he
    split at he
    · exact dedupe_sub _ _ _ he
    · exact he
  have hperm := sortByIndex_perm ((selected s).map (entryTree s))
  have hsorted := sortByIndex_sorted ((selected s).map (entryTree s))
  have hin : entryTree s d ∈ sortByIndex ((selected s).map (entryTree s)) :=
    hperm.mem_iff.mpr (List.mem_map.mpr ⟨d, hsel, rfl⟩)
  cases hds : sortByIndex ((selected s).map (entryTree s)) with
  | nil => rw [hds] at hin; exact absurd hin (by simp)
  | cons a rest =>
    rw [hds] at hin hsorted
    have ha_mem : a ∈ (selected s).map (entryTree s) := hperm.mem_iff.mp (by rw [hds]; exact List.mem_cons_self ..)
    obtain ⟨e, he, rfl⟩ := List.mem_map.mp ha_mem
    have hle : (entryTree s e).index ≤ 1 := by
      rcases List.mem_cons.mp hin with h1 | h1
      · rw [← h1]; show d.index ≤ 1; omega
      · have := sorted_head_min rest _ hsorted _ h1
        have h2 : (entryTree s d).index = 1 := hidx
        omega
    have hed : e = d := hroot_of_idx e (hsub e he) hle
    subst hed
    simp only [names, List.map_cons, List.head?_cons, Option.some.injEq]
    rfl

end PP.Diagram
