import PPModel.Mod.Sugar
/-!
# Soundness of the executable checks of `PPModel/Mod/Sugar.lean`

`simCheck g1 g2 pairs = true` (evaluated by the driver on the node tables extracted from the live objects)
establishes the hypothesis `Sim` of `parse_rename`; `closedCheck` establishes `Closed`.
-/
namespace PP.Parse

theorem closedCheck_sound (g : Grammar) (h : closedCheck g = true) : Closed g := by
  intro i nd hi c hc
  unfold closedCheck at h
  rw [List.all_eq_true] at h
  have hm : nd ∈ g := List.mem_of_getElem? hi
  have := h nd hm
  rw [List.all_eq_true] at this
  simpa using this c hc

theorem simCheck_sound (g1 g2 : Grammar) (pairs : List (Nat × Nat)) (h : simCheck g1 g2 pairs = true) :
    Sim g1 g2 (rhoOf pairs) (fun i => i ∈ pairs.map Prod.fst) := by
  unfold simCheck at h
  rw [List.all_eq_true] at h
  -- facts for every key
  have key : ∀ i, i ∈ pairs.map Prod.fst → ∃ n1 n2, g1[i]? = some n1 ∧ g2[rhoOf pairs i]? = some n2 ∧
      n2.eraseNL = (n1.mapIds (rhoOf pairs)).eraseNL ∧ (∀ c ∈ n1.children, c ∈ pairs.map Prod.fst) ∧
      orKidsOk g1 g2 (rhoOf pairs) n1 = true := by
    intro i hi
    obtain ⟨ij, hij, rfl⟩ := List.mem_map.mp hi
    have h1 := h ij hij
    unfold simCheckOne at h1
    rw [Bool.and_eq_true] at h1
    obtain ⟨hρ, h2⟩ := h1
    have hρ' : rhoOf pairs ij.1 = ij.2 := by simpa using hρ
    rw [hρ']
    cases hg1 : g1[ij.1]? with
    | none => simp [hg1] at h2
    | some n1 =>
      cases hg2 : g2[ij.2]? with
      | none => simp [hg1, hg2] at h2
      | some n2 =>
        simp only [hg1, hg2, Bool.and_eq_true, decide_eq_true_eq, List.all_eq_true, List.elem_eq_mem] at h2
        exact ⟨n1, n2, rfl, rfl, h2.1.1, fun c hc => by simpa using h2.1.2 c hc, h2.2⟩
  refine ⟨?_, ?_, ?_⟩
  · intro i hi
    obtain ⟨n1, n2, a, b, c, _, _⟩ := key i hi
    exact ⟨n1, n2, a, b, c⟩
  · intro i n1 hi hg c hc
    obtain ⟨n1', n2, a, _, _, d, _⟩ := key i hi
    rw [hg] at a
    cases a
    exact d c hc
  · intro i n1 es hi hg hk e he
    obtain ⟨n1', n2, a, _, _, _, o⟩ := key i hi
    rw [hg] at a
    cases a
    unfold orKidsOk at o
    rw [hk] at o
    simp only [List.all_eq_true, beq_iff_eq] at o
    exact o e he

end PP.Parse
