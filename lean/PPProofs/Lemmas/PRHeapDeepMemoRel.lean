import PPProofs.Lemmas.PRHeapDeep
import PPProofs.Lemmas.PRHeapDeepMemo
/-!
  Second invariant of the memoised deep copy `deepObjN`: the memo is value-injective and relates every original
  object to a copy whose token list is the original's, nested results replaced by their memo images.  Consequence:
  `as_list()` of the copy is `as_list()` of the original at every depth (`MRel.asList`).
-/
namespace PP.PRHeap
open PP.PyDict

variable {α : Type}

theorem mget_mem {m : List (Nat × Nat)} {k v : Nat} (h : mget m k = some v) : (k, v) ∈ m := by
  induction m with
  | nil => simp [mget] at h
  | cons p m ih =>
    obtain ⟨k', v'⟩ := p
    simp only [mget] at h
    split at h
    · rename_i e; cases h; subst e; exact List.mem_cons_self ..
    · exact List.mem_cons_of_mem _ (ih h)

structure MRel (b : Nat) (h0 : Heap α) (s : DS α) : Prop where
  inj : ∀ k k' v, (k, v) ∈ s.mo → (k', v) ∈ s.mo → k = k'
  rel : ∀ k v, (k, v) ∈ s.mo → k < b ∧ (h0.objs k).lst < b ∧
    RelL (fun n n' => (n, n') ∈ s.mo) (h0.lists (h0.objs k).lst) (s.h.lists (s.h.objs v).lst)

theorem MRel.step {b : Nat} {h0 : Heap α} {s s' : DS α} (g : Grow s s') (hI : Inv b s) (hM : MRel b h0 s)
    (k v : Nat) (hkv : (k, v) ∈ s.mo) : k < b ∧ (h0.objs k).lst < b ∧
    RelL (fun n n' => (n, n') ∈ s'.mo) (h0.lists (h0.objs k).lst) (s'.h.lists (s'.h.objs v).lst) := by
  obtain ⟨⟨_, a2⟩, ⟨_, b2⟩, _⟩ := hI.obj v ⟨k, hkv⟩
  obtain ⟨r1, r2, r3⟩ := hM.rel k v hkv
  refine ⟨r1, r2, ?_⟩
  rw [g.objs v a2, g.lists _ b2]
  exact RelL.mono _ _ (fun n n' h => g.mo _ h) r3

def RecSpec2 (b : Nat) (h0 : Heap α) (f : Nat) (rec : DS α → Nat → DS α × Nat) : Prop :=
  ∀ s o, Inv b s → Below b h0 s.h → FD b h0 f o → MRel b h0 s →
    MRel b h0 (rec s o).1 ∧ (o, (rec s o).2) ∈ (rec s o).1.mo

theorem dvals_rel {b : Nat} {h0 : Heap α} {f : Nat} {rec : DS α → Nat → DS α × Nat} (h1 : RecSpec b h0 f rec)
    (h2 : RecSpec2 b h0 f rec) :
    ∀ (ts : List (HVal α)) (s : DS α), Inv b s → Below b h0 s.h → (∀ n, HVal.ref n ∈ ts → FD b h0 f n) →
      MRel b h0 s → MRel b h0 (dvals rec s ts).1 ∧
      RelL (fun n n' => (n, n') ∈ (dvals rec s ts).1.mo) ts (dvals rec s ts).2 := by
  intro ts
  induction ts with
  | nil => intro s _ _ _ hM; exact ⟨hM, trivial⟩
  | cons t ts ih =>
    intro s hI hB hF hM
    cases t with
    | atom a =>
      obtain ⟨j1, j2⟩ := ih s hI hB (fun n hn => hF n (List.mem_cons_of_mem _ hn)) hM
      exact ⟨j1, rfl, j2⟩
    | ref n =>
      obtain ⟨r1, r2, _⟩ := h1 s n hI hB (hF n (List.mem_cons_self ..))
      obtain ⟨m1, m2⟩ := h2 s n hI hB (hF n (List.mem_cons_self ..)) hM
      have hF' : ∀ m, HVal.ref m ∈ ts → FD b h0 f m := fun m hm => hF m (List.mem_cons_of_mem _ hm)
      obtain ⟨_, i2, _⟩ := dvals_spec h1 ts (rec s n).1 r1 (hB.grow r2) hF'
      obtain ⟨j1, j2⟩ := ih (rec s n).1 r1 (hB.grow r2) hF' m1
      exact ⟨j1, i2.mo _ m2, j2⟩

theorem doccs_rel {b : Nat} {h0 : Heap α} {f : Nat} {rec : DS α → Nat → DS α × Nat} (h1 : RecSpec b h0 f rec)
    (h2 : RecSpec2 b h0 f rec) :
    ∀ (ts : List (HVal α × Int)) (s : DS α), Inv b s → Below b h0 s.h →
      (∀ vp ∈ ts, ∀ n, vp.1 = HVal.ref n → FD b h0 f n) → MRel b h0 s → MRel b h0 (doccs rec s ts).1 := by
  intro ts
  induction ts with
  | nil => intro s _ _ _ hM; exact hM
  | cons t ts ih =>
    intro s hI hB hF hM
    obtain ⟨v, p⟩ := t
    cases v with
    | atom a => exact ih s hI hB (fun vp hvp => hF vp (List.mem_cons_of_mem _ hvp)) hM
    | ref n =>
      have hn := hF _ (List.mem_cons_self ..) n rfl
      obtain ⟨r1, r2, _⟩ := h1 s n hI hB hn
      obtain ⟨m1, _⟩ := h2 s n hI hB hn hM
      exact ih (rec s n).1 r1 (hB.grow r2) (fun vp hvp => hF vp (List.mem_cons_of_mem _ hvp)) m1

theorem deepOcc_rel {b : Nat} {h0 : Heap α} {f : Nat} {rec : DS α → Nat → DS α × Nat} (h1 : RecSpec b h0 f rec)
    (h2 : RecSpec2 b h0 f rec) (s : DS α) (cell : Nat) (hI : Inv b s) (hB : Below b h0 s.h) (hc : cell < b)
    (hF : ∀ vp ∈ h0.occs cell, ∀ n, vp.1 = HVal.ref n → FD b h0 f n) (hM : MRel b h0 s) :
    MRel b h0 (deepOcc rec s cell).1 := by
  unfold deepOcc
  split
  · exact hM
  · have eo : s.h.occs cell = h0.occs cell := (hB.2 cell hc).2.2.1
    have R := doccs_rel h1 h2 (s.h.occs cell) s hI hB (by rw [eo]; exact hF) hM
    generalize doccs rec s (s.h.occs cell) = r at R
    exact ⟨R.inj, R.rel⟩

theorem ddict_rel {b : Nat} {h0 : Heap α} {f : Nat} {rec : DS α → Nat → DS α × Nat} (h1 : RecSpec b h0 f rec)
    (h2 : RecSpec2 b h0 f rec) :
    ∀ (es : Dict Nat) (s : DS α), Inv b s → Below b h0 s.h →
      (∀ e ∈ es, e.2 < b ∧ ∀ vp ∈ h0.occs e.2, ∀ n, vp.1 = HVal.ref n → FD b h0 f n) → MRel b h0 s →
      MRel b h0 (ddict rec s es).1 := by
  intro es
  induction es with
  | nil => intro s _ _ _ hM; exact hM
  | cons e es ih =>
    intro s hI hB hF hM
    obtain ⟨k, cell⟩ := e
    obtain ⟨q1, q2⟩ := hF (k, cell) (List.mem_cons_self ..)
    obtain ⟨r1, r2, _⟩ := deepOcc_spec h1 s cell hI hB q1 q2
    have m1 := deepOcc_rel h1 h2 s cell hI hB q1 q2 hM
    exact ih (deepOcc rec s cell).1 r1 (hB.grow r2) (fun e he => hF e (List.mem_cons_of_mem _ he)) m1

theorem newObj_rel {b : Nat} {h0 : Heap α} (s : DS α) (o : Nat) (toks : List (HVal α)) (all : List String)
    (hI : Inv b s) (hb : b ≤ s.h.next) (hM : MRel b h0 s) (ho : o < b) (hl : (h0.objs o).lst < b)
    (ht : RelL (fun n n' => (n, n') ∈ s.mo) (h0.lists (h0.objs o).lst) toks)
    (hv : ∀ v ∈ toks, VOk s.mo v) :
    MRel b h0 (newObj s o toks all).1 := by
  obtain ⟨_, g, _, _, _⟩ := newObj_spec s o toks all hI hb hv
  have old : ∀ k, (k, s.h.next + 2) ∈ s.mo → False := fun k hk => by
    have := (hI.obj _ ⟨k, hk⟩).1.2; omega
  refine ⟨fun k k' v h1 h2 => ?_, fun k v hkv => ?_⟩
  · rcases List.mem_cons.mp h1 with e1 | e1 <;> rcases List.mem_cons.mp h2 with e2 | e2
    · cases e1; cases e2; rfl
    · cases e1; exact (old k' e2).elim
    · cases e2; exact (old k e1).elim
    · exact hM.inj k k' v e1 e2
  · rcases List.mem_cons.mp hkv with e | e
    · cases e
      refine ⟨ho, hl, ?_⟩
      have hoc : (newObj s o toks all).1.h.objs (s.h.next + 2) = ⟨s.h.next, s.h.next + 1, all⟩ := upd_same _ _ _
      rw [hoc]
      show RelL _ _ (upd s.h.lists s.h.next toks s.h.next)
      rw [upd_same]
      exact RelL.mono _ _ (fun n n' h => List.mem_cons_of_mem _ h) ht
    · exact MRel.step g hI hM k v e

theorem setState_rel {b : Nat} {h0 : Heap α} (s : DS α) (o c : Nat) (toks : List (HVal α)) (dict : Dict Nat)
    (all : List String) (hI : Inv b s) (hM : MRel b h0 s) (hoc : (o, c) ∈ s.mo)
    (ht : RelL (fun n n' => (n, n') ∈ s.mo) (h0.lists (h0.objs o).lst) toks) :
    MRel b h0 (setState s c toks dict all) := by
  refine ⟨hM.inj, fun k v hkv => ?_⟩
  by_cases e : v = c
  · subst e
    have : k = o := hM.inj k o v hkv hoc
    subst this
    obtain ⟨r1, r2, _⟩ := hM.rel k v hkv
    refine ⟨r1, r2, ?_⟩
    have h1 : (setState s v toks dict all).h.objs v = ⟨s.h.next, s.h.next + 1, all⟩ := upd_same _ _ _
    rw [h1]
    show RelL _ _ (upd s.h.lists s.h.next toks s.h.next)
    rw [upd_same]; exact ht
  · obtain ⟨r1, r2, r3⟩ := hM.rel k v hkv
    obtain ⟨_, ⟨_, b2⟩, _⟩ := hI.obj v ⟨k, hkv⟩
    refine ⟨r1, r2, ?_⟩
    have h1 : (setState s c toks dict all).h.objs v = s.h.objs v := upd_ne _ _ e
    rw [h1]
    show RelL _ _ (upd s.h.lists s.h.next toks (s.h.objs v).lst)
    rw [upd_ne _ _ (by omega)]; exact r3

theorem deepObjN_rel (b : Nat) (h0 : Heap α) : ∀ f, RecSpec2 b h0 f (deepObjN f) := by
  intro f
  induction f with
  | zero => intro s o _ _ hF; exact hF.elim
  | succ f ih =>
    intro s o hI hB hF hM
    have ih1 := deepObjN_spec b h0 f
    obtain ⟨w1, w2, w3, w4, w5⟩ := hF
    have eo : s.h.objs o = h0.objs o := (hB.2 o w1).2.2.2
    simp only [deepObjN]
    split
    · rename_i c hm
      exact ⟨hM, mget_mem hm⟩
    · have el : s.h.lists (s.h.objs o).lst = h0.lists (h0.objs o).lst := by rw [eo, (hB.2 _ w2).1]
      have A := dvals_spec ih1 (s.h.lists (s.h.objs o).lst) s hI hB (by rw [el]; exact w4)
      have A' := dvals_rel ih1 ih (s.h.lists (s.h.objs o).lst) s hI hB (by rw [el]; exact w4) hM
      generalize dvals (deepObjN f) s (s.h.lists (s.h.objs o).lst) = a at A A' ⊢
      rw [el] at A'
      obtain ⟨a1, a2, a3⟩ := A
      obtain ⟨am, ar⟩ := A'
      have aB := hB.grow a2
      have Y := newObj_spec a.1 o a.2 (s.h.objs o).all a1 aB.1 a3
      have Y' := newObj_rel (h0 := h0) a.1 o a.2 (s.h.objs o).all a1 aB.1 am w1 w2 ar a3
      have Ym : (o, (newObj a.1 o a.2 (s.h.objs o).all).2) ∈ (newObj a.1 o a.2 (s.h.objs o).all).1.mo :=
        List.mem_cons_self ..
      generalize newObj a.1 o a.2 (s.h.objs o).all = y at Y Y' Ym ⊢
      obtain ⟨y1, y2, y3, y4, y5⟩ := Y
      have yB := aB.grow y2
      have el2 : y.1.h.lists (s.h.objs o).lst = h0.lists (h0.objs o).lst := by rw [eo, (yB.2 _ w2).1]
      have T := dvals_spec ih1 (y.1.h.lists (s.h.objs o).lst) y.1 y1 yB (by rw [el2]; exact w4)
      have T' := dvals_rel ih1 ih (y.1.h.lists (s.h.objs o).lst) y.1 y1 yB (by rw [el2]; exact w4) Y'
      generalize dvals (deepObjN f) y.1 (y.1.h.lists (s.h.objs o).lst) = t at T T' ⊢
      rw [el2] at T'
      obtain ⟨t1, t2, t3⟩ := T
      obtain ⟨tm, tr⟩ := T'
      have tB := yB.grow t2
      have hFd : ∀ e ∈ t.1.h.dicts (s.h.objs o).dct,
          e.2 < b ∧ ∀ vp ∈ h0.occs e.2, ∀ n, vp.1 = HVal.ref n → FD b h0 f n := by
        rw [eo, (tB.2 _ w3).2.1]; exact w5
      have D := ddict_spec ih1 (t.1.h.dicts (s.h.objs o).dct) t.1 t1 tB hFd
      have D' := ddict_rel ih1 ih (t.1.h.dicts (s.h.objs o).dct) t.1 t1 tB hFd tm
      generalize ddict (deepObjN f) t.1 (t.1.h.dicts (s.h.objs o).dct) = d at D D' ⊢
      obtain ⟨d1, d2, d3⟩ := D
      have hoc : (o, y.2) ∈ d.1.mo := d2.mo _ (t2.mo _ Ym)
      exact ⟨setState_rel d.1 o y.2 t.2 d.2 _ d1 D' hoc (RelL.mono _ _ (fun n n' h => d2.mo _ h) tr), hoc⟩

/-- `as_list()` of every memoised copy is `as_list()` of its original, to every observation depth -/
theorem MRel.asList {b : Nat} {h0 : Heap α} {s : DS α} (hM : MRel b h0 s) :
    ∀ k o c, (o, c) ∈ s.mo → asListN k s.h c = asListN k h0 o := by
  intro k
  induction k with
  | zero => intro o c _; rfl
  | succ k ih =>
    intro o c hoc
    simp only [asListN]
    congr 2
    exact RelL.flatMap _ _ _ _ _ (hM.rel o c hoc).2.2 (fun n n' hr => ih n n' hr)

end PP.PRHeap
