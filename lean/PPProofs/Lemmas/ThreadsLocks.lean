import PPProofs.Lemmas.Threads
/-! helper lemmas for C15, Part 5 of the model (`PP.Threads.Locks`): the lock-order invariant and its consequences -/
namespace PP.Threads.Locks

/-- hold counts of thread `t`, read off the lock table -/
def heldOf (s : LState) (t : Tid) : Held := fun l => if s.owner l = some t then s.count l else 0

structure LInv (n : Nat) (rank : Nat → Nat) (s : LState) : Prop where
  ord : ∀ t, ordered n rank (heldOf s t) (s.prog t) = true
  pos : ∀ l t, s.owner l = some t → 0 < s.count l
  free : ∀ l, s.owner l = none → s.count l = 0
  bound : ∀ l, n ≤ l → s.owner l = none

theorem Held.dec_inc (h : Held) (l : Nat) : (h.inc l).dec l = h := by
  funext l'; simp only [Held.inc, Held.dec]; split <;> simp

theorem lowerHeld_spec {n rank h l} (hl : lowerHeld n rank h l = true) {l' : Nat} (hn : l' < n)
    (hh : 0 < h l') : rank l' < rank l := by
  simp only [lowerHeld, List.all_eq_true, List.mem_range, Bool.or_eq_true, beq_iff_eq, decide_eq_true_eq] at hl
  rcases hl l' hn with h0 | h1
  · omega
  · exact h1

theorem lowerHeld_of {n rank h l} (hl : ∀ l' : Nat, l' < n → h l' = 0 ∨ rank l' < rank l) :
    lowerHeld n rank h l = true := by
  simp only [lowerHeld, List.all_eq_true, List.mem_range, Bool.or_eq_true, beq_iff_eq, decide_eq_true_eq]
  exact hl

theorem noneHeld_spec {n h} (hz : noneHeld n h = true) {l' : Nat} (hn : l' < n) : h l' = 0 := by
  simp only [noneHeld, List.all_eq_true, List.mem_range, beq_iff_eq] at hz
  exact hz l' hn

theorem noneHeld_of {n h} (hz : ∀ l' : Nat, l' < n → h l' = 0) : noneHeld n h = true := by
  simp only [noneHeld, List.all_eq_true, List.mem_range, beq_iff_eq]
  exact hz

theorem linit_inv {n rank prog} (h0 : ∀ t, ordered n rank Held.zero (prog t) = true) :
    LInv n rank (linit prog) := by
  refine ⟨fun t => ?_, fun l t h => ?_, fun _ _ => rfl, fun _ _ => rfl⟩
  · have : heldOf (linit prog) t = Held.zero := by funext l; simp [heldOf, linit, Held.zero]
    rw [this]; exact h0 t
  · simp [linit] at h

set_option linter.unusedSimpArgs false in
theorem lstep_inv {n rank s t s'} (h : lstep s t = some s') (inv : LInv n rank s) : LInv n rank s' := by
  have ho := inv.ord t
  unfold lstep at h
  split at h
  · cases h
  · -- tau
    rename_i r hp
    cases h
    have hh : ∀ u, heldOf { s with prog := upd s.prog t r } u = heldOf s u := fun u => rfl
    refine ⟨fun u => ?_, inv.pos, inv.free, inv.bound⟩
    rw [hh u]
    by_cases hu : u = t
    · subst hu; rw [hp] at ho; simpa [ordered] using ho
    · simpa [upd_other _ _ hu] using inv.ord u
  · -- acq
    rename_i l r hp
    split at h
    · rename_i hc
      cases h
      rw [hp] at ho
      simp only [ordered, Bool.and_eq_true, decide_eq_true_eq] at ho
      have hln : l < n := ho.1.1
      refine ⟨fun u => ?_, fun l' u hu => ?_, fun l' hl' => ?_, fun l' hl' => ?_⟩
      · by_cases hu : u = t
        · subst hu
          have : heldOf ⟨setL s.owner l (some u), setL s.count l (s.count l + 1), upd s.prog u r⟩ u =
              (heldOf s u).inc l := by
            funext l'
            by_cases hl : l' = l
            · subst hl
              simp only [heldOf, setL, Held.inc, if_true]
              rcases hc with hc | hc
              · simp [hc, inv.free _ hc]
              · simp [hc]
            · simp [heldOf, setL, Held.inc, hl]
          simp only [upd_same]; rw [this]; exact ho.2
        · have : heldOf ⟨setL s.owner l (some t), setL s.count l (s.count l + 1), upd s.prog t r⟩ u =
              heldOf s u := by
            funext l'
            by_cases hl : l' = l
            · subst hl
              have h1 : some t ≠ some u := fun e => hu (Option.some.inj e).symm
              have h2 : s.owner l' ≠ some u := by
                rcases hc with hc | hc <;> rw [hc] <;> simp
                exact fun e => hu e.symm
              simp [heldOf, setL, h1, h2]
            · simp [heldOf, setL, hl]
          simp only [upd_other _ _ hu]; rw [this]; exact inv.ord u
      · simp only [setL] at hu ⊢
        split
        · omega
        · rename_i hl; simp only [hl, if_false] at hu; exact inv.pos l' u hu
      · simp only [setL] at hl' ⊢
        split
        · rename_i hl; simp [hl] at hl'
        · rename_i hl; simp only [hl, if_false] at hl'; exact inv.free l' hl'
      · have hne : l' ≠ l := by omega
        simp only [setL, hne, if_false]; exact inv.bound l' hl'
    · cases h
  · -- rel
    rename_i l r hp
    split at h
    · rename_i hc
      cases h
      rw [hp] at ho
      simp only [ordered, Bool.and_eq_true, decide_eq_true_eq] at ho
      have hpos := inv.pos l t hc
      have hln : l < n := by
        apply Classical.byContradiction; intro hge
        have := inv.bound l (by omega); rw [this] at hc; cases hc
      refine ⟨fun u => ?_, fun l' u hu => ?_, fun l' hl' => ?_, fun l' hl' => ?_⟩
      · by_cases hu : u = t
        · subst hu
          have : heldOf ⟨setL s.owner l (if s.count l ≤ 1 then none else some u),
              setL s.count l (s.count l - 1), upd s.prog u r⟩ u = (heldOf s u).dec l := by
            funext l'
            by_cases hl : l' = l
            · subst hl
              simp only [heldOf, setL, Held.dec, if_true, hc]
              split <;> simp_all <;> omega
            · simp [heldOf, setL, Held.dec, hl]
          simp only [upd_same]; rw [this]; exact ho.2
        · have : heldOf ⟨setL s.owner l (if s.count l ≤ 1 then none else some t),
              setL s.count l (s.count l - 1), upd s.prog t r⟩ u = heldOf s u := by
            funext l'
            by_cases hl : l' = l
            · subst hl
              have h1 : some t ≠ some u := fun e => hu (Option.some.inj e).symm
              have h2 : s.owner l' ≠ some u := by rw [hc]; exact h1
              simp only [heldOf, setL, if_true, h2, if_false]
              split <;> simp [h1]
            · simp [heldOf, setL, hl]
          simp only [upd_other _ _ hu]; rw [this]; exact inv.ord u
      · simp only [setL] at hu ⊢
        split
        · rename_i hl
          simp only [hl, if_true] at hu
          split at hu
          · cases hu
          · omega
        · rename_i hl; simp only [hl, if_false] at hu; exact inv.pos l' u hu
      · simp only [setL] at hl' ⊢
        split
        · rename_i hl
          simp only [hl, if_true] at hl'
          split at hl'
          · omega
          · cases hl'
        · rename_i hl; simp only [hl, if_false] at hl'; exact inv.free l' hl'
      · have hne : l' ≠ l := by omega
        simp only [setL, hne, if_false]; exact inv.bound l' hl'
    · cases h

theorem lreach_inv {n rank s s'} (r : LReach s s') (inv : LInv n rank s) : LInv n rank s' := by
  induction r with
  | refl => exact inv
  | tail t _ hs ih => exact lstep_inv hs ih

/-- thread `t` waits in `acquire(l)` for a lock another thread owns -/
def BlockedOn (s : LState) (t : Tid) (l : Nat) : Prop :=
  (∃ r, s.prog t = .acq l :: r) ∧ ∃ u, s.owner l = some u ∧ u ≠ t

theorem stuck_blocked {n rank s t} (inv : LInv n rank s) (hne : s.prog t ≠ []) (hst : lstep s t = none) :
    ∃ l, BlockedOn s t l := by
  have ho := inv.ord t
  unfold lstep at hst
  split at hst
  · rename_i hp; exact absurd hp hne
  · cases hst
  · rename_i l r hp
    split at hst
    · cases hst
    · rename_i hc
      refine ⟨l, ⟨r, hp⟩, ?_⟩
      cases hol : s.owner l with
      | none => exact absurd (Or.inl hol) hc
      | some u => exact ⟨u, rfl, fun e => hc (Or.inr (by rw [hol, e]))⟩
  · rename_i l r hp
    split at hst
    · cases hst
    · rename_i hc
      rw [hp] at ho
      simp only [ordered, Bool.and_eq_true, decide_eq_true_eq] at ho
      have : heldOf s t l = 0 := by simp [heldOf, hc]
      omega

theorem blocked_lt {n rank s t l} (inv : LInv n rank s) (hb : BlockedOn s t l) : l < n := by
  obtain ⟨_, u, hou, _⟩ := hb
  apply Classical.byContradiction; intro hge
  have := inv.bound l (by omega); rw [this] at hou; cases hou

/-- if nobody can step, whoever is waited for is itself waiting for a lock of strictly higher rank -/
theorem blocked_chain {n rank s} (inv : LInv n rank s) (hall : ∀ t, lstep s t = none) {t l}
    (hb : BlockedOn s t l) : ∃ t' l', BlockedOn s t' l' ∧ rank l < rank l' := by
  have hln := blocked_lt inv hb
  obtain ⟨_, u, hou, _⟩ := hb
  have hpos := inv.pos l u hou
  have hheld : 0 < heldOf s u l := by simp [heldOf, hou, hpos]
  have hne : s.prog u ≠ [] := by
    intro hn
    have ho := inv.ord u
    rw [hn] at ho
    simp only [ordered] at ho
    have := noneHeld_spec ho hln
    omega
  obtain ⟨l', hb'⟩ := stuck_blocked inv hne (hall u)
  refine ⟨u, l', hb', ?_⟩
  obtain ⟨⟨r, hp⟩, w, how, hwu⟩ := hb'
  have ho := inv.ord u
  rw [hp] at ho
  have h0 : heldOf s u l' = 0 := by
    have : s.owner l' ≠ some u := by rw [how]; exact fun e => hwu (Option.some.inj e)
    simp [heldOf, this]
  simp only [ordered, Bool.and_eq_true, Bool.or_eq_true, decide_eq_true_eq] at ho
  rcases ho.1.2 with h | h
  · omega
  · exact lowerHeld_spec h hln hheld

theorem rank_bound (rank : Nat → Nat) : ∀ n : Nat, ∃ B, ∀ l : Nat, l < n → rank l < B
  | 0 => ⟨0, fun _ h => absurd h (Nat.not_lt_zero _)⟩
  | n + 1 => by
    obtain ⟨B, hB⟩ := rank_bound rank n
    refine ⟨max B (rank n + 1), fun l hl => ?_⟩
    by_cases h : l < n
    · have := hB l h; omega
    · have : l = n := by omega
      subst this; omega

theorem no_stuck_state {n rank s} (inv : LInv n rank s) (hu : ∃ t, s.prog t ≠ []) :
    ∃ t, (lstep s t).isSome = true := by
  apply Classical.byContradiction
  intro hn
  have hall : ∀ t, lstep s t = none := by
    intro t
    cases h : lstep s t with
    | none => rfl
    | some _ => exact absurd ⟨t, by simp [h]⟩ hn
  obtain ⟨t, ht⟩ := hu
  obtain ⟨l0, b0⟩ := stuck_blocked inv ht (hall t)
  have climb : ∀ k : Nat, ∃ t l, BlockedOn s t l ∧ k ≤ rank l := by
    intro k
    induction k with
    | zero => exact ⟨t, l0, b0, Nat.zero_le _⟩
    | succ k ih =>
      obtain ⟨t1, l1, b1, h1⟩ := ih
      obtain ⟨t2, l2, b2, h2⟩ := blocked_chain inv hall b1
      exact ⟨t2, l2, b2, by omega⟩
  obtain ⟨B, hB⟩ := rank_bound rank n
  obtain ⟨t', l', b', hk⟩ := climb B
  have := hB l' (blocked_lt inv b')
  omega

theorem packrat_ordered {n rank p} (hn : 2 ≤ n) (hp : PackratProg p) :
    ∀ (h : Held) (q : List Op), (∀ l' : Nat, l' ≠ P → h l' = 0) → ordered n rank h q = true →
      ordered n rank h (p ++ q) = true := by
  have hPn : P < n := by simp [P]; omega
  have acqP : ∀ h : Held, (∀ l' : Nat, l' ≠ P → h l' = 0) → (0 < h P ∨ lowerHeld n rank h P = true) := by
    intro h hr
    by_cases hP : h P = 0
    · refine Or.inr (lowerHeld_of fun l' _ => ?_)
      by_cases e : l' = P
      · subst e; exact Or.inl hP
      · exact Or.inl (hr l' e)
    · exact Or.inl (by omega)
  have incP : ∀ h : Held, (∀ l' : Nat, l' ≠ P → h l' = 0) → ∀ l' : Nat, l' ≠ P → (h.inc P) l' = 0 := by
    intro h hr l' e; simp [Held.inc, e, hr l' e]
  induction hp with
  | nil => intro h q _ hq; simpa using hq
  | tau _ ih => intro h q hr hq; simpa [ordered] using ih h q hr hq
  | @cached a b _ _ iha ihb =>
    intro h q hr hq
    have e : (Op.acq P :: (a ++ Op.rel P :: b)) ++ q = .acq P :: (a ++ (.rel P :: (b ++ q))) := by simp
    rw [e]
    simp only [ordered, Bool.and_eq_true, Bool.or_eq_true, decide_eq_true_eq]
    refine ⟨⟨hPn, acqP h hr⟩, ?_⟩
    apply iha _ _ (incP h hr)
    simp only [ordered, Bool.and_eq_true, decide_eq_true_eq]
    refine ⟨by simp [Held.inc], ?_⟩
    rw [Held.dec_inc]; exact ihb h q hr hq
  | @entry p _ ih =>
    intro h q hr hq
    have e : (reset ++ p) ++ q = .acq P :: .tau :: .tau :: .rel P :: (p ++ q) := by simp [reset]
    rw [e]
    simp only [ordered, Bool.and_eq_true, Bool.or_eq_true, decide_eq_true_eq]
    refine ⟨⟨hPn, acqP h hr⟩, by simp [Held.inc], ?_⟩
    rw [Held.dec_inc]; exact ih h q hr hq

theorem lr_ordered {n p} (hn : 2 ≤ n) (hp : LRProg p) :
    ∀ (h : Held) (q : List Op), (∀ l' : Nat, l' ≠ R → h l' = 0) → ordered n codeRank h q = true →
      ordered n codeRank h (p ++ q) = true := by
  have hPn : P < n := by simp [P]; omega
  have hRn : R < n := by simp [R]; omega
  have hPR : P ≠ R := by simp [P, R]
  have incR : ∀ h : Held, (∀ l' : Nat, l' ≠ R → h l' = 0) → ∀ l' : Nat, l' ≠ R → (h.inc R) l' = 0 := by
    intro h hr l' e; simp [Held.inc, e, hr l' e]
  induction hp with
  | nil => intro h q _ hq; simpa using hq
  | tau _ ih => intro h q hr hq; simpa [ordered] using ih h q hr hq
  | @forward a b _ _ iha ihb =>
    intro h q hr hq
    have e : (Op.acq R :: (a ++ Op.rel R :: b)) ++ q = .acq R :: (a ++ (.rel R :: (b ++ q))) := by simp
    rw [e]
    simp only [ordered, Bool.and_eq_true, Bool.or_eq_true, decide_eq_true_eq]
    refine ⟨⟨hRn, ?_⟩, ?_⟩
    · by_cases hR : h R = 0
      · refine Or.inr (lowerHeld_of fun l' _ => ?_)
        by_cases e : l' = R
        · subst e; exact Or.inl hR
        · exact Or.inl (hr l' e)
      · exact Or.inl (by omega)
    · apply iha _ _ (incR h hr)
      simp only [ordered, Bool.and_eq_true, decide_eq_true_eq]
      refine ⟨by simp [Held.inc], ?_⟩
      rw [Held.dec_inc]; exact ihb h q hr hq
  | @entry p _ ih =>
    intro h q hr hq
    have e : (reset ++ p) ++ q = .acq P :: .tau :: .tau :: .rel P :: (p ++ q) := by simp [reset]
    rw [e]
    simp only [ordered, Bool.and_eq_true, Bool.or_eq_true, decide_eq_true_eq]
    refine ⟨⟨hPn, Or.inr (lowerHeld_of fun l' _ => ?_)⟩, by simp [Held.inc], ?_⟩
    · by_cases e : l' = R
      · subst e; exact Or.inr (by simp [codeRank, R, P])
      · exact Or.inl (hr l' e)
    · rw [Held.dec_inc]; exact ih h q hr hq

theorem lrun_reach : ∀ (sched : List Tid) (a s s' : LState), LReach a s → lrun s sched = some s' → LReach a s'
  | [], a, s, s', r, h => by simp [lrun] at h; exact h ▸ r
  | t :: rest, a, s, s', r, h => by
    simp only [lrun] at h
    cases hs : lstep s t with
    | none => simp [hs] at h
    | some s1 => simp [hs] at h; exact lrun_reach rest a s1 s' (.tail t r hs) h

theorem lstep_prog_nil {s u s'} (h : lstep s u = some s') {t} (ht : s.prog t = []) : s'.prog t = [] := by
  have hut : t ≠ u := by
    intro e; subst e
    unfold lstep at h; rw [ht] at h; cases h
  unfold lstep at h
  split at h
  · cases h
  · cases h; simpa [upd_other _ _ hut] using ht
  · split at h
    · cases h; simpa [upd_other _ _ hut] using ht
    · cases h
  · split at h
    · cases h; simpa [upd_other _ _ hut] using ht
    · cases h

theorem lrun_prog_nil : ∀ (sched : List Tid) (s s' : LState), lrun s sched = some s' → ∀ t, s.prog t = [] →
    s'.prog t = []
  | [], s, s', h, t, ht => by simp [lrun] at h; exact h ▸ ht
  | u :: rest, s, s', h, t, ht => by
    simp only [lrun] at h
    cases hs : lstep s u with
    | none => simp [hs] at h
    | some s1 => simp [hs] at h; exact lrun_prog_nil rest s1 s' h t (lstep_prog_nil hs ht)

end PP.Threads.Locks
