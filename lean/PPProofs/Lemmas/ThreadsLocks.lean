import PPProofs.Lemmas.Threads
/-! helper lemmas for C15, Part 5 of the model (`PP.Threads.Locks`): the lock-order invariant and its consequences -/
namespace PP.Threads.Locks

/-- hold counts of thread `t`, read off the lock table -/
def heldOf (s : LState) (t : Tid) : Held := fun l => if s.owner l = some t then s.count l else 0

structure LInv (rank : Lock → Nat) (s : LState) : Prop where
  ord : ∀ t, ordered rank (heldOf s t) (s.prog t) = true
  pos : ∀ l t, s.owner l = some t → 0 < s.count l
  free : ∀ l, s.owner l = none → s.count l = 0

theorem Held.dec_inc (h : Held) (l : Lock) : (h.inc l).dec l = h := by
  funext l'; simp only [Held.inc, Held.dec]; split <;> simp

theorem linit_inv {rank prog} (h0 : ∀ t, ordered rank Held.zero (prog t) = true) : LInv rank (linit prog) := by
  refine ⟨fun t => ?_, fun l t h => ?_, fun _ _ => rfl⟩
  · have : heldOf (linit prog) t = Held.zero := by funext l; simp [heldOf, linit, Held.zero]
    rw [this]; exact h0 t
  · simp [linit] at h

set_option linter.unusedSimpArgs false in
theorem lstep_inv {rank s t s'} (h : lstep s t = some s') (inv : LInv rank s) : LInv rank s' := by
  have ho := inv.ord t
  unfold lstep at h
  split at h
  · cases h
  · -- tau
    rename_i r hp
    cases h
    have hh : ∀ u, heldOf { s with prog := upd s.prog t r } u = heldOf s u := fun u => rfl
    refine ⟨fun u => ?_, inv.pos, inv.free⟩
    rw [hh u]
    by_cases hu : u = t
    · subst hu; rw [hp] at ho; simpa [ordered] using ho
    · simpa [upd_other _ _ hu] using inv.ord u
  · -- acq
    rename_i l r hp
    split at h
    · rename_i hc
      cases h
      rw [hp] at ho
      simp only [ordered, Bool.and_eq_true] at ho
      refine ⟨fun u => ?_, fun l' u hu => ?_, fun l' hl' => ?_⟩
      · by_cases hu : u = t
        · subst hu
          have : heldOf ⟨setL s.owner l (some u), setL s.count l (s.count l + 1), upd s.prog u r⟩ u =
              (heldOf s u).inc l := by
            funext l'
            by_cases hl : l' = l
            · subst hl
              simp only [heldOf, setL, Held.inc, if_true]
              rcases hc with hc | hc
              · simp [hc, inv.free _ hc]
              · simp [hc]
            · simp [heldOf, setL, Held.inc, hl]
          simp only [upd_same]; rw [this]; exact ho.2
        · have : heldOf ⟨setL s.owner l (some t), setL s.count l (s.count l + 1), upd s.prog t r⟩ u =
              heldOf s u := by
            funext l'
            by_cases hl : l' = l
            · subst hl
              have h1 : some t ≠ some u := fun e => hu (Option.some.inj e).symm
              have h2 : s.owner l' ≠ some u := by
                rcases hc with hc | hc <;> rw [hc] <;> simp
                exact fun e => hu e.symm
              simp [heldOf, setL, h1, h2]
            · simp [heldOf, setL, hl]
          simp only [upd_other _ _ hu]; rw [this]; exact inv.ord u
      · simp only [setL] at hu ⊢
        split
        · omega
        · rename_i hl; simp only [hl, if_false] at hu; exact inv.pos l' u hu
      · simp only [setL] at hl' ⊢
        split
        · rename_i hl; simp [hl] at hl'
        · rename_i hl; simp only [hl, if_false] at hl'; exact inv.free l' hl'
    · cases h
  · -- rel
    rename_i l r hp
    split at h
    · rename_i hc
      cases h
      rw [hp] at ho
      simp only [ordered, Bool.and_eq_true, decide_eq_true_eq] at ho
      have hpos := inv.pos l t hc
      refine ⟨fun u => ?_, fun l' u hu => ?_, fun l' hl' => ?_⟩
      · by_cases hu : u = t
        · subst hu
          have : heldOf ⟨setL s.owner l (if s.count l ≤ 1 then none else some u),
              setL s.count l (s.count l - 1), upd s.prog u r⟩ u = (heldOf s u).dec l := by
            funext l'
            by_cases hl : l' = l
            · subst hl
              simp only [heldOf, setL, Held.dec, if_true, hc]
              split <;> simp_all <;> omega
            · simp [heldOf, setL, Held.dec, hl]
          simp only [upd_same]; rw [this]; exact ho.2
        · have : heldOf ⟨setL s.owner l (if s.count l ≤ 1 then none else some t),
              setL s.count l (s.count l - 1), upd s.prog t r⟩ u = heldOf s u := by
            funext l'
            by_cases hl : l' = l
            · subst hl
              have h1 : some t ≠ some u := fun e => hu (Option.some.inj e).symm
              have h2 : s.owner l' ≠ some u := by rw [hc]; exact h1
              simp only [heldOf, setL, if_true, h2, if_false]
              split <;> simp [h1]
            · simp [heldOf, setL, hl]
          simp only [upd_other _ _ hu]; rw [this]; exact inv.ord u
      · simp only [setL] at hu ⊢
        split
        · rename_i hl
          simp only [hl, if_true] at hu
          split at hu
          · cases hu
          · omega
        · rename_i hl; simp only [hl, if_false] at hu; exact inv.pos l' u hu
      · simp only [setL] at hl' ⊢
        split
        · rename_i hl
          simp only [hl, if_true] at hl'
          split at hl'
          · omega
          · cases hl'
        · rename_i hl; simp only [hl, if_false] at hl'; exact inv.free l' hl'
    · cases h

theorem lreach_inv {rank s s'} (r : LReach s s') (inv : LInv rank s) : LInv rank s' := by
  induction r with
  | refl => exact inv
  | tail t _ hs ih => exact lstep_inv hs ih

/-- thread `t` waits in `acquire(l)` for a lock another thread owns -/
def BlockedOn (s : LState) (t : Tid) (l : Lock) : Prop :=
  (∃ r, s.prog t = .acq l :: r) ∧ ∃ u, s.owner l = some u ∧ u ≠ t

theorem stuck_blocked {rank s t} (inv : LInv rank s) (hne : s.prog t ≠ []) (hst : lstep s t = none) :
    ∃ l, BlockedOn s t l := by
  have ho := inv.ord t
  unfold lstep at hst
  split at hst
  · rename_i hp; exact absurd hp hne
  · cases hst
  · rename_i l r hp
    split at hst
    · cases hst
    · rename_i hc
      refine ⟨l, ⟨r, hp⟩, ?_⟩
      cases hol : s.owner l with
      | none => exact absurd (Or.inl hol) hc
      | some u => exact ⟨u, rfl, fun e => hc (Or.inr (by rw [hol, e]))⟩
  · rename_i l r hp
    split at hst
    · cases hst
    · rename_i hc
      rw [hp] at ho
      simp only [ordered, Bool.and_eq_true, decide_eq_true_eq] at ho
      have : heldOf s t l = 0 := by simp [heldOf, hc]
      omega

/-- if nobody can step, whoever is waited for is itself waiting for a lock of strictly higher rank -/
theorem blocked_chain {rank s} (inv : LInv rank s) (hall : ∀ t, lstep s t = none) {t l}
    (hb : BlockedOn s t l) : ∃ t' l', BlockedOn s t' l' ∧ rank l < rank l' := by
  obtain ⟨_, u, hou, _⟩ := hb
  have hpos := inv.pos l u hou
  have hheld : 0 < heldOf s u l := by simp [heldOf, hou, hpos]
  have hne : s.prog u ≠ [] := by
    intro hn
    have ho := inv.ord u
    rw [hn] at ho
    simp only [ordered, Bool.and_eq_true, beq_iff_eq] at ho
    cases l <;> omega
  obtain ⟨l', hb'⟩ := stuck_blocked inv hne (hall u)
  refine ⟨u, l', hb', ?_⟩
  obtain ⟨⟨r, hp⟩, w, how, hwu⟩ := hb'
  have ho := inv.ord u
  rw [hp] at ho
  have h0 : heldOf s u l' = 0 := by
    have : s.owner l' ≠ some u := by rw [how]; exact fun e => hwu (Option.some.inj e)
    simp [heldOf, this]
  simp only [ordered, Bool.and_eq_true, Bool.or_eq_true, decide_eq_true_eq, lowerHeld, beq_iff_eq] at ho
  rcases ho.1 with h | h
  · omega
  · cases l
    · rcases h.1 with h | h
      · omega
      · exact h
    · rcases h.2 with h | h
      · omega
      · exact h

theorem no_stuck_state {rank s} (inv : LInv rank s) (hu : ∃ t, s.prog t ≠ []) :
    ∃ t, (lstep s t).isSome = true := by
  apply Classical.byContradiction
  intro hn
  have hall : ∀ t, lstep s t = none := by
    intro t
    cases h : lstep s t with
    | none => rfl
    | some _ => exact absurd ⟨t, by simp [h]⟩ hn
  obtain ⟨t, ht⟩ := hu
  obtain ⟨l0, b0⟩ := stuck_blocked inv ht (hall t)
  obtain ⟨_, l1, b1, h01⟩ := blocked_chain inv hall b0
  obtain ⟨_, l2, b2, h12⟩ := blocked_chain inv hall b1
  obtain ⟨_, l3, _, h23⟩ := blocked_chain inv hall b2
  cases l0 <;> cases l1 <;> cases l2 <;> cases l3 <;> omega

theorem packrat_ordered {rank p} (hp : PackratProg p) :
    ∀ (h : Held) (q : List Op), h .R = 0 → ordered rank h q = true → ordered rank h (p ++ q) = true := by
  induction hp with
  | nil => intro h q _ hq; simpa using hq
  | tau _ ih => intro h q hr hq; simpa [ordered] using ih h q hr hq
  | @cached a b _ _ iha ihb =>
    intro h q hr hq
    have e : (Op.acq Lock.P :: (a ++ Op.rel Lock.P :: b)) ++ q = .acq .P :: (a ++ (.rel .P :: (b ++ q))) := by simp
    rw [e]
    simp only [ordered, Bool.and_eq_true, Bool.or_eq_true, decide_eq_true_eq, lowerHeld, beq_iff_eq]
    refine ⟨?_, ?_⟩
    · by_cases hP : h .P = 0
      · exact Or.inr ⟨Or.inl hr, Or.inl hP⟩
      · exact Or.inl (by omega)
    · apply iha
      · simp [Held.inc, hr]
      · simp only [ordered, Bool.and_eq_true, decide_eq_true_eq]
        refine ⟨by simp [Held.inc], ?_⟩
        rw [Held.dec_inc]; exact ihb h q hr hq
  | @entry p _ ih =>
    intro h q hr hq
    have e : (reset ++ p) ++ q = .acq .P :: .tau :: .tau :: .rel .P :: (p ++ q) := by simp [reset]
    rw [e]
    simp only [ordered, Bool.and_eq_true, Bool.or_eq_true, decide_eq_true_eq, lowerHeld, beq_iff_eq]
    refine ⟨?_, by simp [Held.inc], ?_⟩
    · by_cases hP : h .P = 0
      · exact Or.inr ⟨Or.inl hr, Or.inl hP⟩
      · exact Or.inl (by omega)
    · rw [Held.dec_inc]; exact ih h q hr hq

theorem lr_ordered {p} (hp : LRProg p) :
    ∀ (h : Held) (q : List Op), h .P = 0 → ordered codeRank h q = true → ordered codeRank h (p ++ q) = true := by
  induction hp with
  | nil => intro h q _ hq; simpa using hq
  | tau _ ih => intro h q hr hq; simpa [ordered] using ih h q hr hq
  | @forward a b _ _ iha ihb =>
    intro h q hP hq
    have e : (Op.acq Lock.R :: (a ++ Op.rel Lock.R :: b)) ++ q = .acq .R :: (a ++ (.rel .R :: (b ++ q))) := by simp
    rw [e]
    simp only [ordered, Bool.and_eq_true, Bool.or_eq_true, decide_eq_true_eq, lowerHeld, beq_iff_eq]
    refine ⟨?_, ?_⟩
    · by_cases hR : h .R = 0
      · exact Or.inr ⟨Or.inl hR, Or.inl hP⟩
      · exact Or.inl (by omega)
    · apply iha
      · simp [Held.inc, hP]
      · simp only [ordered, Bool.and_eq_true, decide_eq_true_eq]
        refine ⟨by simp [Held.inc], ?_⟩
        rw [Held.dec_inc]; exact ihb h q hP hq
  | @entry p _ ih =>
    intro h q hP hq
    have e : (reset ++ p) ++ q = .acq .P :: .tau :: .tau :: .rel .P :: (p ++ q) := by simp [reset]
    rw [e]
    simp only [ordered, Bool.and_eq_true, Bool.or_eq_true, decide_eq_true_eq, lowerHeld, beq_iff_eq]
    refine ⟨?_, by simp [Held.inc], ?_⟩
    · exact Or.inr ⟨Or.inr (by simp [codeRank]), Or.inl hP⟩
    · rw [Held.dec_inc]; exact ih h q hP hq

theorem lrun_reach : ∀ (sched : List Tid) (a s s' : LState), LReach a s → lrun s sched = some s' → LReach a s'
  | [], a, s, s', r, h => by simp [lrun] at h; exact h ▸ r
  | t :: rest, a, s, s', r, h => by
    simp only [lrun] at h
    cases hs : lstep s t with
    | none => simp [hs] at h
    | some s1 => simp [hs] at h; exact lrun_reach rest a s1 s' (.tail t r hs) h

theorem lstep_prog_nil {s u s'} (h : lstep s u = some s') {t} (ht : s.prog t = []) : s'.prog t = [] := by
  have hut : t ≠ u := by
    intro e; subst e
    unfold lstep at h; rw [ht] at h; cases h
  unfold lstep at h
  split at h
  · cases h
  · cases h; simpa [upd_other _ _ hut] using ht
  · split at h
    · cases h; simpa [upd_other _ _ hut] using ht
    · cases h
  · split at h
    · cases h; simpa [upd_other _ _ hut] using ht
    · cases h

theorem lrun_prog_nil : ∀ (sched : List Tid) (s s' : LState), lrun s sched = some s' → ∀ t, s.prog t = [] →
    s'.prog t = []
  | [], s, s', h, t, ht => by simp [lrun] at h; exact h ▸ ht
  | u :: rest, s, s', h, t, ht => by
    simp only [lrun] at h
    cases hs : lstep s u with
    | none => simp [hs] at h
    | some s1 => simp [hs] at h; exact lrun_prog_nil rest s1 s' h t (lstep_prog_nil hs ht)

end PP.Threads.Locks
