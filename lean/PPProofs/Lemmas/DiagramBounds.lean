import PPProofs.Lemmas.DiagramContent
/-! Helper lemmas for C20: referential integrity of the heap of partials - every reference stored in a
    partial, in a lookup entry or in a diagram entry points into the heap (no dangling reference), for
    ALL grammars. -/
namespace PP.Diagram

def Slot.inB (n : Nat) : Slot → Bool
  | .ref r => decide (r < n)
  | _ => true

def Kw.inB (n : Nat) : Kw → Bool
  | .leaf => true
  | .item v => v.inB n
  | .items l => l.all (Slot.inB n)

theorem Slot.inB_mono {n m : Nat} (h : n ≤ m) (v : Slot) (hv : v.inB n = true) : v.inB m = true := by
  cases v <;> simp only [Slot.inB, decide_eq_true_eq] at hv ⊢
  omega

theorem Kw.inB_mono {n m : Nat} (h : n ≤ m) (k : Kw) (hk : k.inB n = true) : k.inB m = true := by
  cases k with
  | leaf => rfl
  | item v => exact Slot.inB_mono h v hk
  | items l =>
    simp only [Kw.inB, List.all_eq_true] at hk ⊢
    exact fun x hx => Slot.inB_mono h x (hk x hx)

structure BInv (s : St) : Prop where
  hp : ∀ nd ∈ s.heap, nd.kw.inB s.heap.length = true
  lk : ∀ u st, aget s.lookup u = some st → st.converted < s.heap.length
  dg : ∀ p ∈ s.diagrams, p.2.content.inB s.heap.length = true

theorem mem_modify_cases (heap : List PNode) (r : Nat) (f : PNode → PNode) (nd : PNode)
    (h : nd ∈ heap.modify r f) : nd ∈ heap ∨ ∃ a ∈ heap, nd = f a := by
  obtain ⟨j, hj, rfl⟩ := List.mem_iff_getElem.mp h
  rw [List.getElem_modify]
  have hj' : j < heap.length := by simpa using hj
  split
  · exact Or.inr ⟨heap[j], List.getElem_mem hj', rfl⟩
  · exact Or.inl (List.getElem_mem hj')

theorem BInv_alloc (s : St) (pn : PNode) (h : BInv s) (hk : pn.kw.inB (s.heap.length + 1) = true) :
    BInv (s.alloc pn).2 := by
  have hlen : (s.alloc pn).2.heap.length = s.heap.length + 1 := by simp [St.alloc]
  refine ⟨?_, ?_, ?_⟩
  · intro nd hnd
    rw [hlen]
    simp only [St.alloc, List.mem_append, List.mem_singleton] at hnd
    rcases hnd with hnd | rfl
    · exact Kw.inB_mono (by omega) _ (h.hp nd hnd)
    · exact hk
  · intro u st hu; rw [hlen]; have := h.lk u st hu; omega
  · intro p hp; rw [hlen]; exact Slot.inB_mono (by omega) _ (h.dg p hp)

theorem BInv_setKw (s : St) (r : Nat) (kw : Kw) (h : BInv s) (hk : kw.inB s.heap.length = true) :
    BInv (s.setKw r kw) := by
  refine ⟨?_, ?_, ?_⟩
  · intro nd hnd
    rw [setKw_len]
    rcases mem_modify_cases _ _ _ nd hnd with hnd | ⟨a, _, rfl⟩
    · exact h.hp nd hnd
    · exact hk
  · intro u st hu; rw [setKw_len]; exact h.lk u st hu
  · intro p hp; rw [setKw_len]; exact h.dg p hp

theorem node_inB {s : St} (h : BInv s) (r : Nat) : (s.node r).kw.inB s.heap.length = true := by
  cases hr : s.heap[r]? with
  | none => rw [node_kw_absent hr]; rfl
  | some a => rw [node_of_get hr]; exact h.hp a (List.mem_of_getElem? hr)

theorem BInv_putChild (s : St) (p i r : Nat) (h : BInv s) (hr : r < s.heap.length) :
    BInv (s.putChild p i (.ref r)) := by
  unfold St.putChild
  have hn := node_inB h p
  split
  · exact BInv_setKw s p _ h (by simp [Kw.inB, Slot.inB, hr])
  · rename_i l hl
    rw [hl] at hn
    refine BInv_setKw s p _ h ?_
    simp only [Kw.inB, List.all_eq_true] at hn ⊢
    intro x hx
    rcases List.mem_or_eq_of_mem_set hx with hx | rfl
    · exact hn x hx
    · simp [Slot.inB, hr]
  · exact h

theorem BInv_tables {s s' : St} (h : BInv s) (hh : s'.heap = s.heap)
    (hl : ∀ u st, aget s'.lookup u = some st → st.converted < s.heap.length)
    (hd : ∀ p ∈ s'.diagrams, p.2.content.inB s.heap.length = true) : BInv s' :=
  ⟨by rw [hh]; exact h.hp, by rw [hh]; exact hl, by rw [hh]; exact hd⟩

theorem BInv_setL (s : St) (idx el : Nat) (st' : EState) (h : BInv s) (hc : st'.converted < s.heap.length) :
    BInv (setL s idx el st') := by
  refine BInv_tables h rfl ?_ h.dg
  intro u st hu
  by_cases hu' : u = el
  · subst hu'
    simp only [setL, aget_aset_same, Option.some.injEq] at hu
    subst hu; exact hc
  · simp only [setL, aget_aset_ne _ _ _ _ hu'] at hu
    exact h.lk u st hu

theorem BInv_exNT (s : St) (pos : EState) (h : BInv s) : BInv (exNT s pos) := by
  unfold exNT
  split
  · exact BInv_putChild _ _ _ _ (BInv_alloc s _ h rfl) (by simp [newNT, St.alloc])
  · exact h

theorem exNT_len (s : St) (pos : EState) : s.heap.length ≤ (exNT s pos).heap.length := (HS_exNT s pos).1

theorem BInv_extract (s : St) (el : Nat) (h : BInv s) : BInv (extractIntoDiagram s el) := by
  cases hl : aget s.lookup el with
  | none => rw [extract_none s el hl]; exact h
  | some pos =>
    rw [extract_eq' s el pos hl]
    have h1 := BInv_exNT s pos h
    have hl1 : aget (exNT s pos).lookup el = some pos := by rw [exNT_lookup]; exact hl
    refine BInv_tables h1 rfl ?_ ?_
    · intro u st hu
      by_cases hu' : u = el
      · subst hu'; simp [exFin, aget_adel_same] at hu
      · simp only [exFin, aget_adel_ne _ _ _ hu'] at hu
        exact h1.lk u st hu
    · intro p hp
      have hp' : p ∈ aset (exNT s pos).diagrams el
          { name := pos.name, content := contentOf (exNT s pos) pos.converted, index := pos.number } := hp
      rcases mem_aset _ _ _ p hp' with hp1 | hp1
      · exact h1.dg p hp1
      · rw [hp1]
        show (contentOf (exNT s pos) pos.converted).inB _ = true
        have hn := node_inB h1 pos.converted
        have hc := h1.lk el pos hl1
        unfold contentOf
        split
        · split
          · rename_i v hv; rw [hv] at hn; exact hn
          · simp [Slot.inB, hc]
        · simp [Slot.inB, hc]

theorem BInv_mark (g : Grammar) (s : St) (el : Nat) (name : Option String) (f : Bool) (h : BInv s) :
    BInv (markForExtraction g s el name f) := by
  cases hl : aget s.lookup el with
  | none =>
    have e : markForExtraction g s el name f = s := by
      unfold markForExtraction; simp only [hl]
    rw [e]; exact h
  | some st =>
    rw [mark_eq g s el name f st hl]
    have h1 : BInv (setL s s.index el { st with extract := true, name := markName g st el name }) :=
      BInv_setL s s.index el _ h (h.lk el st hl)
    split
    · exact BInv_extract _ el h1
    · exact h1

def noRefKw : Option PNode → Bool
  | none => true
  | some pn => pn.kw.inB 0

theorem dispatch_noRef (g : Grammar) (o : Opts) (n : Node) (name : String) :
    noRefKw (dispatch g o n name) = true := by
  unfold dispatch
  simp only [apply_ite noRefKw]
  simp [noRefKw, Kw.inB, Slot.inB]

theorem BInv_register (g : Grammar) (s : St) (el : Nat) (n : Node) (parent : Option Nat) (index : Nat)
    (pn : PNode) (h : BInv s) (hk : pn.kw.inB 0 = true) : BInv (register g s el n parent index pn).2 := by
  have hA := BInv_alloc s pn h (Kw.inB_mono (by omega) _ hk)
  have h2 : BInv (setL (s.alloc pn).2 (s.index + 1) el
      { converted := s.heap.length, parent := parent, parentIndex := index, number := s.index + 1 }) :=
    BInv_setL _ _ el _ hA (by simp [St.alloc])
  unfold register
  simp only
  split
  · exact BInv_mark g _ el _ false h2
  · exact h2

end PP.Diagram
