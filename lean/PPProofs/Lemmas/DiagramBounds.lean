import PPProofs.Lemmas.DiagramContent
/-! Helper lemmas for C20: referential integrity of the heap of partials - every reference stored in a
    partial, in a lookup entry or in a diagram entry points into the heap (no dangling reference), for
    ALL grammars. -/
namespace PP.Diagram

def Slot.inB (n : Nat) : Slot → Bool
  | .ref r => decide (r < n)
  | _ => true

def Kw.inB (n : Nat) : Kw → Bool
  | .leaf => true
  | .item v => v.inB n
  | .items l => l.all (Slot.inB n)

theorem Slot.inB_mono {n m : Nat} (h : n ≤ m) (v : Slot) (hv : v.inB n = true) : v.inB m = true := by
  cases v <;> simp only [Slot.inB, decide_eq_true_eq] at hv ⊢
  omega

theorem Kw.inB_mono {n m : Nat} (h : n ≤ m) (k : Kw) (hk : k.inB n = true) : k.inB m = true := by
  cases k with
  | leaf => rfl
  | item v => exact Slot.inB_mono h v hk
  | items l =>
    simp only [Kw.inB, List.all_eq_true] at hk ⊢
    exact fun x hx => Slot.inB_mono h x (hk x hx)

structure BdInv (s : St) : Prop where
  hp : ∀ nd ∈ s.heap, nd.kw.inB s.heap.length = true
  lk : ∀ u st, aget s.lookup u = some st → st.converted < s.heap.length
  dg : ∀ p ∈ s.diagrams, p.2.content.inB s.heap.length = true

theorem mem_modify_cases (heap : List PNode) (r : Nat) (f : PNode → PNode) (nd : PNode)
    (h : nd ∈ heap.modify r f) : nd ∈ heap ∨ ∃ a ∈ heap, nd = f a := by
  obtain ⟨j, hj, rfl⟩ := List.mem_iff_getElem.mp h
  rw [List.getElem_modify]
  have hj' : j < heap.length := by simpa using hj
  split
  · exact Or.inr ⟨heap[j], List.getElem_mem hj', rfl⟩
  · exact Or.inl (List.getElem_mem hj')

theorem BdInv_alloc (s : St) (pn : PNode) (h : BdInv s) (hk : pn.kw.inB (s.heap.length + 1) = true) :
    BdInv (s.alloc pn).2 := by
  have hlen : (s.alloc pn).2.heap.length = s.heap.length + 1 := by simp [St.alloc]
  refine ⟨?_, ?_, ?_⟩
  · intro nd hnd
    rw [hlen]
    simp only [St.alloc, List.mem_append, List.mem_singleton] at hnd
    rcases hnd with hnd | rfl
    · exact Kw.inB_mono (by omega) _ (h.hp nd hnd)
    · exact hk
  · intro u st hu; rw [hlen]; have := h.lk u st hu; omega
  · intro p hp; rw [hlen]; exact Slot.inB_mono (by omega) _ (h.dg p hp)

theorem BdInv_setKw (s : St) (r : Nat) (kw : Kw) (h : BdInv s) (hk : kw.inB s.heap.length = true) :
    BdInv (s.setKw r kw) := by
  refine ⟨?_, ?_, ?_⟩
  · intro nd hnd
    rw [setKw_len]
    rcases mem_modify_cases _ _ _ nd hnd with hnd | ⟨a, _, rfl⟩
    · exact h.hp nd hnd
    · exact hk
  · intro u st hu; rw [setKw_len]; exact h.lk u st hu
  · intro p hp; rw [setKw_len]; exact h.dg p hp

theorem node_inB {s : St} (h : BdInv s) (r : Nat) : (s.node r).kw.inB s.heap.length = true := by
  cases hr : s.heap[r]? with
  | none => rw [node_kw_absent hr]; rfl
  | some a => rw [node_of_get hr]; exact h.hp a (List.mem_of_getElem? hr)

theorem BdInv_putChild (s : St) (p i r : Nat) (h : BdInv s) (hr : r < s.heap.length) :
    BdInv (s.putChild p i (.ref r)) := by
  unfold St.putChild
  have hn := node_inB h p
  split
  · exact BdInv_setKw s p _ h (by simp [Kw.inB, Slot.inB, hr])
  · rename_i l hl
    rw [hl] at hn
    refine BdInv_setKw s p _ h ?_
    simp only [Kw.inB, List.all_eq_true] at hn ⊢
    intro x hx
    rcases List.mem_or_eq_of_mem_set hx with hx | rfl
    · exact hn x hx
    · simp [Slot.inB, hr]
  · exact h

theorem BdInv_tables {s s' : St} (h : BdInv s) (hh : s'.heap = s.heap)
    (hl : ∀ u st, aget s'.lookup u = some st → st.converted < s.heap.length)
    (hd : ∀ p ∈ s'.diagrams, p.2.content.inB s.heap.length = true) : BdInv s' :=
  ⟨by rw [hh]; exact h.hp, by rw [hh]; exact hl, by rw [hh]; exact hd⟩

theorem BdInv_setL (s : St) (idx el : Nat) (st' : EState) (h : BdInv s) (hc : st'.converted < s.heap.length) :
    BdInv (setL s idx el st') := by
  refine BdInv_tables h rfl ?_ h.dg
  intro u st hu
  by_cases hu' : u = el
  · subst hu'
    simp only [setL, aget_aset_same, Option.some.injEq] at hu
    subst hu; exact hc
  · simp only [setL, aget_aset_ne _ _ _ _ hu'] at hu
    exact h.lk u st hu

theorem BdInv_exNT (s : St) (pos : EState) (h : BdInv s) : BdInv (exNT s pos) := by
  unfold exNT
  split
  · exact BdInv_putChild _ _ _ _ (BdInv_alloc s _ h rfl) (by simp [newNT, St.alloc])
  · exact h

theorem exNT_len (s : St) (pos : EState) : s.heap.length ≤ (exNT s pos).heap.length := (HS_exNT s pos).1

theorem BdInv_extract (s : St) (el : Nat) (h : BdInv s) : BdInv (extractIntoDiagram s el) := by
  cases hl : aget s.lookup el with
  | none => rw [extract_none s el hl]; exact h
  | some pos =>
    rw [extract_eq' s el pos hl]
    have h1 := BdInv_exNT s pos h
    have hl1 : aget (exNT s pos).lookup el = some pos := by rw [exNT_lookup]; exact hl
    refine BdInv_tables h1 rfl ?_ ?_
    · intro u st hu
      by_cases hu' : u = el
      · subst hu'; simp [exFin, aget_adel_same] at hu
      · simp only [exFin, aget_adel_ne _ _ _ hu'] at hu
        exact h1.lk u st hu
    · intro p hp
      have hp' : p ∈ aset (exNT s pos).diagrams el
          { name := pos.name, content := contentOf (exNT s pos) pos.converted, index := pos.number } := hp
      rcases mem_aset _ _ _ p hp' with hp1 | hp1
      · exact h1.dg p hp1
      · rw [hp1]
        show (contentOf (exNT s pos) pos.converted).inB _ = true
        have hn := node_inB h1 pos.converted
        have hc := h1.lk el pos hl1
        unfold contentOf
        split
        · split
          · rename_i v hv; rw [hv] at hn; exact hn
          · simp [Slot.inB, hc]
        · simp [Slot.inB, hc]

theorem BdInv_mark (g : Grammar) (s : St) (el : Nat) (name : Option String) (f : Bool) (h : BdInv s) :
    BdInv (markForExtraction g s el name f) := by
  cases hl : aget s.lookup el with
  | none =>
    have e : markForExtraction g s el name f = s := by
      unfold markForExtraction; simp only [hl]
    rw [e]; exact h
  | some st =>
    rw [mark_eq g s el name f st hl]
    have h1 : BdInv (setL s s.index el { st with extract := true, name := markName g st el name }) :=
      BdInv_setL s s.index el _ h (h.lk el st hl)
    split
    · exact BdInv_extract _ el h1
    · exact h1

def noRefKw : Option PNode → Bool
  | none => true
  | some pn => pn.kw.inB 0

theorem dispatch_noRef (g : Grammar) (o : Opts) (n : Node) (name : String) :
    noRefKw (dispatch g o n name) = true := by
  unfold dispatch
  simp only [apply_ite noRefKw]
  simp [noRefKw, Kw.inB, Slot.inB]

theorem BdInv_register (g : Grammar) (s : St) (el : Nat) (n : Node) (parent : Option Nat) (index : Nat)
    (pn : PNode) (h : BdInv s) (hk : pn.kw.inB 0 = true) : BdInv (register g s el n parent index pn).2 := by
  have hA := BdInv_alloc s pn h (Kw.inB_mono (by omega) _ hk)
  have h2 : BdInv (setL (s.alloc pn).2 (s.index + 1) el
      { converted := s.heap.length, parent := parent, parentIndex := index, number := s.index + 1 }) :=
    BdInv_setL _ _ el _ hA (by simp [St.alloc])
  unfold register
  simp only
  split
  · exact BdInv_mark g _ el _ false h2
  · exact h2

/-! ### the recursion -/

abbrev RecB (rec : Rec) : Prop :=
  ∀ c p i h s r s', BdInv s → rec c p i h s = some (r, s') →
    BdInv s' ∧ s.heap.length ≤ s'.heap.length ∧ (∀ r0, r = some r0 → r0 < s'.heap.length)

theorem mem_insertAt (l : List Slot) (i : Nat) (v x : Slot) (h : x ∈ insertAt l i v) : x ∈ l ∨ x = v := by
  simp only [insertAt, List.mem_append, List.mem_cons] at h
  rcases h with h | h | h
  · exact Or.inl (List.mem_of_mem_take h)
  · exact Or.inr h
  · exact Or.inl (List.mem_of_mem_drop h)

theorem stepKid_B (rec : Rec) (ret : Nat) (hrec : RecB rec) :
    ∀ c i s i' s', BdInv s → stepKid rec ret c i s = some (i', s') →
      BdInv s' ∧ s.heap.length ≤ s'.heap.length := by
  intro c i s i' s' hB h
  unfold stepKid at h
  have hB1 : BdInv (addPlaceholder s ret i) ∧ (addPlaceholder s ret i).heap.length = s.heap.length := by
    unfold addPlaceholder
    have hn := node_inB hB ret
    split
    · rename_i l hl
      rw [hl] at hn
      refine ⟨BdInv_setKw s ret _ hB ?_, setKw_len _ _ _⟩
      simp only [Kw.inB, List.all_eq_true] at hn ⊢
      intro x hx
      rcases mem_insertAt _ _ _ _ hx with hx | rfl
      · exact hn x hx
      · rfl
    · exact ⟨hB, rfl⟩
  split at h
  · exact absurd h (by simp)
  · rename_i item s2 hr
    obtain ⟨hB2, hlen2, hres⟩ := hrec _ _ _ _ _ _ _ hB1.1 hr
    have hlen : s.heap.length ≤ s2.heap.length := by rw [← hB1.2]; exact hlen2
    have hn2 := node_inB hB2 ret
    split at h <;> simp only [Option.some.injEq, Prod.mk.injEq] at h <;> obtain ⟨_, rfl⟩ := h
    · rename_i r _ _ _
      exact ⟨BdInv_setKw s2 ret _ hB2 (by simp [Kw.inB, Slot.inB, hres r rfl]), by rw [setKw_len]; exact hlen⟩
    · rename_i r l hl _
      rw [hl] at hn2
      refine ⟨BdInv_setKw s2 ret _ hB2 ?_, by rw [setKw_len]; exact hlen⟩
      simp only [Kw.inB, List.all_eq_true] at hn2 ⊢
      intro x hx
      rcases List.mem_or_eq_of_mem_set hx with hx | rfl
      · exact hn2 x hx
      · simp [Slot.inB, hres r rfl]
    · exact ⟨hB2, hlen⟩
    · rename_i l hl _
      rw [hl] at hn2
      refine ⟨BdInv_setKw s2 ret _ hB2 ?_, by rw [setKw_len]; exact hlen⟩
      simp only [Kw.inB, List.all_eq_true] at hn2 ⊢
      intro x hx
      exact hn2 x (List.mem_of_mem_eraseIdx hx)
    · exact ⟨hB2, hlen⟩

theorem loopKids_B (rec : Rec) (ret : Nat) (hrec : RecB rec) :
    ∀ kids i s s', BdInv s → loopKids rec ret kids i s = some s' → BdInv s' ∧ s.heap.length ≤ s'.heap.length := by
  intro kids
  induction kids with
  | nil => intro i s s' hB h; simp [loopKids] at h; exact h ▸ ⟨hB, Nat.le_refl _⟩
  | cons c cs ih =>
    intro i s s' hB h
    unfold loopKids at h
    split at h
    · exact absurd h (by simp)
    · rename_i i' s1 hs
      obtain ⟨a, b⟩ := stepKid_B rec ret hrec _ _ _ _ _ hB hs
      obtain ⟨c1, c2⟩ := ih _ _ _ a h
      exact ⟨c1, Nat.le_trans b c2⟩

theorem setComplete_B (s : St) (el : Nat) (h : BdInv s) : BdInv (setComplete s el) := by
  unfold setComplete
  cases hl : aget s.lookup el with
  | none => exact h
  | some st => exact BdInv_setL s s.index el { st with complete := true } h (h.lk el st hl)

theorem post_B (el : Nat) (n : Node) (hint : Option String) (ret : Nat) (s : St) (h : BdInv s)
    (hret : ret < s.heap.length) :
    BdInv (post el n hint ret s).2 ∧ s.heap.length ≤ (post el n hint ret s).2.heap.length ∧
      (∀ r0, (post el n hint ret s).1 = some r0 → r0 < (post el n hint ret s).2.heap.length) := by
  have h1 : BdInv (post1 n hint ret s).2 ∧ s.heap.length ≤ (post1 n hint ret s).2.heap.length ∧
      (post1 n hint ret s).1 < (post1 n hint ret s).2.heap.length := by
    unfold post1
    split
    · exact ⟨BdInv_alloc s _ h rfl, by simp [St.alloc], by simp [St.alloc]⟩
    · exact ⟨h, Nat.le_refl _, hret⟩
  obtain ⟨a1, a2, a3⟩ := h1
  have h2 := setComplete_B _ el a1
  have hlen2 : (setComplete (post1 n hint ret s).2 el).heap.length = (post1 n hint ret s).2.heap.length := by
    rw [setComplete_heap]
  unfold post
  simp only
  split
  · split
    · have h3 := BdInv_extract _ el h2
      have hlen3 := (HS_extract (setComplete (post1 n hint ret s).2 el) el).1
      refine ⟨BdInv_alloc _ _ h3 rfl, ?_, ?_⟩
      · simp only [newNT, St.alloc, List.length_append, List.length_singleton]; omega
      · intro r0 hr0
        simp only [newNT, St.alloc, Option.some.injEq] at hr0
        simp only [newNT, St.alloc, List.length_append, List.length_singleton]
        omega
    · refine ⟨h2, by dsimp only; omega, ?_⟩
      intro r0 hr0
      dsimp only at hr0 ⊢
      simp only [Option.some.injEq] at hr0
      omega
  · refine ⟨h2, by dsimp only; omega, ?_⟩
    intro r0 hr0
    dsimp only at hr0 ⊢
    simp only [Option.some.injEq] at hr0
    omega

theorem annotate_B (o : Opts) (n : Node) (r : Option Nat) (s : St) (h : BdInv s)
    (hr : ∀ r0, r = some r0 → r0 < s.heap.length) :
    BdInv (annotate o n r s).2 ∧ s.heap.length ≤ (annotate o n r s).2.heap.length ∧
      (∀ r0, (annotate o n r s).1 = some r0 → r0 < (annotate o n r s).2.heap.length) := by
  unfold annotate
  split
  · exact ⟨h, Nat.le_refl _, fun r0 hr0 => absurd hr0 (by simp)⟩
  · rename_i ref
    split
    · refine ⟨BdInv_alloc s _ h ?_, by simp [St.alloc], ?_⟩
      · have := hr ref rfl
        simp only [Kw.inB, Slot.inB, decide_eq_true_eq]; omega
      · intro r0 hr0
        simp only [St.alloc, Option.some.injEq] at hr0
        simp only [St.alloc, List.length_append, List.length_singleton]
        omega
    · exact ⟨h, Nat.le_refl _, hr⟩

/-- **referential integrity**: for ALL grammars, a returning call of `_to_diagram_element` keeps every
    stored reference inside the heap and returns a reference into the heap -/
theorem conv_B (g : Grammar) (o : Opts) : ∀ fuel, RecB (conv g o fuel) := by
  intro fuel
  induction fuel with
  | zero => intro el p i h s r s' _ hc; simp [conv] at hc
  | succ f ih =>
    intro el p i h s r s' hB hc
    unfold conv at hc
    cases hg : g[el]? with
    | none =>
      simp only [hg, Option.some.injEq, Prod.mk.injEq] at hc
      obtain ⟨rfl, rfl⟩ := hc
      exact ⟨hB, Nat.le_refl _, fun r0 hr0 => absurd hr0 (by simp)⟩
    | some n =>
      simp only [hg] at hc
      cases hb : convBody g o (conv g o f) el n p i h s with
      | none => simp [hb] at hc
      | some rs =>
        obtain ⟨r1, s1⟩ := rs
        simp only [hb, Option.some.injEq] at hc
        suffices hh : BdInv s1 ∧ s.heap.length ≤ s1.heap.length ∧ (∀ r0, r1 = some r0 → r0 < s1.heap.length) by
          obtain ⟨a1, a2, a3⟩ := annotate_B o n r1 s1 hh.1 hh.2.2
          rw [hc] at a1 a2 a3
          exact ⟨a1, Nat.le_trans hh.2.1 a2, a3⟩
        unfold convBody at hb
        cases hp : pre g o el n p i h s with
        | pass c h' =>
          simp only [hp] at hb
          exact ih _ _ _ _ _ _ _ hB hb
        | ret r0 s0 =>
          simp only [hp, Option.some.injEq, Prod.mk.injEq] at hb
          obtain ⟨rfl, rfl⟩ := hb
          unfold pre at hp
          split at hp
          · exact absurd hp (by simp)
          · split at hp
            · simp only [Pre.ret.injEq] at hp
              obtain ⟨rfl, rfl⟩ := hp
              have hm := BdInv_mark g s el h false hB
              have hlm := (HS_mark g s el h false).1
              refine ⟨BdInv_alloc _ _ hm rfl, ?_, ?_⟩
              · simp only [newNT, St.alloc, List.length_append, List.length_singleton]; omega
              · intro r0 hr0
                simp only [newNT, St.alloc, Option.some.injEq] at hr0
                simp only [newNT, St.alloc, List.length_append, List.length_singleton]
                omega
            · simp only [Pre.ret.injEq] at hp
              obtain ⟨rfl, rfl⟩ := hp
              refine ⟨BdInv_alloc _ _ hB rfl, by simp [newNT, St.alloc], ?_⟩
              intro r0 hr0
              simp only [newNT, St.alloc, Option.some.injEq] at hr0
              simp only [newNT, St.alloc, List.length_append, List.length_singleton]
              omega
            · unfold preFresh at hp
              split at hp
              · simp only [Pre.ret.injEq] at hp
                obtain ⟨rfl, rfl⟩ := hp
                exact ⟨hB, Nat.le_refl _, fun r0 hr0 => absurd hr0 (by simp)⟩
              · split at hp
                · simp only [Pre.ret.injEq] at hp
                  obtain ⟨rfl, rfl⟩ := hp
                  exact ⟨hB, Nat.le_refl _, fun r0 hr0 => absurd hr0 (by simp)⟩
                · exact absurd hp (by simp)
        | loop ret s0 =>
          simp only [hp] at hb
          have hreg : BdInv s0 ∧ ret < s0.heap.length ∧ s.heap.length ≤ s0.heap.length := by
            unfold pre at hp
            split at hp
            · exact absurd hp (by simp)
            · split at hp
              · exact absurd hp (by simp)
              · exact absurd hp (by simp)
              · unfold preFresh at hp
                split at hp
                · exact absurd hp (by simp)
                · split at hp
                  · exact absurd hp (by simp)
                  · rename_i pn hd
                    simp only [Pre.loop.injEq] at hp
                    obtain ⟨rfl, rfl⟩ := hp
                    have hk : pn.kw.inB 0 = true := by
                      have := dispatch_noRef g o n (nameOf n h)
                      rw [hd] at this; exact this
                    have hl := (register_LS g s el n p i pn (by
                      have := dispatch_shape g o n (nameOf n h)
                      rw [hd] at this
                      simp only [kwShapeOK] at this
                      cases hkw : pn.kw with
                      | leaf => exact Or.inr (Or.inr rfl)
                      | item v => exact Or.inr (Or.inl ⟨v, rfl⟩)
                      | items l =>
                        rw [hkw] at this
                        simp only [List.isEmpty_iff] at this
                        exact Or.inl (by rw [this])) false (fun _ _ => rfl))
                    obtain ⟨e1, e2, a, ha, _⟩ := hl
                    refine ⟨BdInv_register g s el n p i pn hB hk, ?_, e2.hlen⟩
                    rw [e1]
                    exact (List.getElem?_eq_some_iff.mp ha).1
          obtain ⟨hB0, hret0, hlen0⟩ := hreg
          cases hl : loopKids (conv g o f) ret n.kids 0 s0 with
          | none => simp [hl] at hb
          | some s2 =>
            simp only [hl, Option.some.injEq] at hb
            obtain ⟨hB2, hlen2⟩ := loopKids_B (conv g o f) ret ih _ _ _ _ hB0 hl
            obtain ⟨q1, q2, q3⟩ := post_B el n h ret s2 hB2 (by omega)
            rw [hb] at q1 q2 q3
            dsimp only at q1 q2 q3
            exact ⟨q1, by omega, q3⟩

theorem BdInv_init : BdInv {} :=
  ⟨fun _ h => absurd h (by simp), fun _ _ h => absurd h (by simp), fun _ h => absurd h (by simp)⟩

theorem convertRoot_B (g : Grammar) (o : Opts) (fuel root : Nat) (s : St)
    (h : convertRoot g o fuel root = some s) : BdInv s := by
  unfold convertRoot at h
  split at h
  · exact absurd h (by simp)
  · rename_i r s0 hc
    obtain ⟨hB, _, _⟩ := conv_B g o fuel root none 0 none {} r s0 BdInv_init hc
    split at h
    · rename_i st hst
      simp only [Option.some.injEq] at h
      subst h
      split
      · exact BdInv_mark g _ root none true
          (BdInv_setL s0 s0.index root { st with name := some "" } hB (hB.lk root st hst))
      · exact BdInv_mark g s0 root none true hB
    · simp only [Option.some.injEq] at h
      subst h
      exact hB

end PP.Diagram
