import PPProofs.Lemmas.WordPaths
import PPProofs.Lemmas.Ranges
/-!
  C17 (Word), the regex path when `as_keyword` is on: `\b core \b`.

  * `repGo_all`            every end of the greedy repetition of a one-character step (not only the head)
  * `ends_wordReCore`      every candidate end of the regex built by `Word.__init__` (without `\b`)
  * `ends_catApp`          `ends` of the re-associating concatenation
  * `wordRe_keyword_spec`  the keyword regex: `\b` at the start, then the longest capped run length ≥ min
                           whose end is a `\b` position (backtracking to shorter runs)
  * corollaries stating how this differs from the character loop
-/
namespace PP.WordPaths
open PP.ReLite PP.Ranges

/-- `[pos + k, pos + k - 1, ..., pos + m]` (empty if `k < m`) -/
def descFrom (pos k m : Nat) : List Nat :=
  (List.range (k + 1 - m)).map (fun i => pos + k - i)

theorem descFrom_of_lt {pos k m : Nat} (h : k < m) : descFrom pos k m = [] := by
  unfold descFrom
  have : k + 1 - m = 0 := by omega
  rw [this]; rfl

theorem descFrom_self (pos k : Nat) : descFrom pos k k = [pos + k] := by
  unfold descFrom
  have : k + 1 - k = 1 := by omega
  rw [this]; simp [List.range_succ]

/-- moving the origin one to the right -/
theorem descFrom_shift (pos k m : Nat) : descFrom (pos + 1) k m = descFrom pos (k + 1) (m + 1) := by
  unfold descFrom
  have : k + 1 + 1 - (m + 1) = k + 1 - m := by omega
  rw [this]
  apply List.map_congr_left
  intro i _; omega

/-- the last element when the lower bound is `0` -/
theorem descFrom_zero (pos k : Nat) : descFrom pos (k + 1) 0 = descFrom pos (k + 1) 1 ++ [pos] := by
  unfold descFrom
  have : k + 1 + 1 - 0 = (k + 1 + 1 - 1) + 1 := by omega
  rw [this, List.range_succ, List.map_append]
  simp

/-- peel the last (shortest) element -/
theorem descFrom_snoc (pos k m : Nat) (h : m ≤ k) :
    descFrom pos k m = descFrom pos k (m + 1) ++ [pos + m] := by
  unfold descFrom
  have : k + 1 - m = (k + 1 - (m + 1)) + 1 := by omega
  rw [this, List.range_succ, List.map_append]
  simp only [List.map_cons, List.map_nil]
  congr 2; omega

/-- peel the first (longest) element -/
theorem descFrom_cons (pos k m : Nat) (h : m ≤ k + 1) :
    descFrom pos (k + 1) m = (pos + (k + 1)) :: descFrom pos k m := by
  by_cases hm : m = k + 1
  · subst hm
    rw [descFrom_self, descFrom_of_lt (by omega)]
  · unfold descFrom
    have : k + 1 + 1 - m = (k + 1 - m) + 1 := by omega
    rw [this, List.range_succ_eq_map]
    simp only [List.map_cons, List.map_map]
    congr 1
    apply List.map_congr_left
    intro i hi
    simp only [Function.comp]
    have := List.mem_range.mp hi
    omega

theorem mem_descFrom {pos k m e : Nat} : e ∈ descFrom pos k m ↔ pos + m ≤ e ∧ e ≤ pos + k := by
  unfold descFrom
  simp only [List.mem_map, List.mem_range]
  constructor
  · rintro ⟨i, hi, rfl⟩; omega
  · intro ⟨h1, h2⟩; exact ⟨pos + k - e, by omega, by omega⟩

/-! ### every end of the greedy repetition of a one-character step -/

theorem capMin_some_zero (k : Nat) : capMin (some 0) k = 0 := by
  simp [capMin]

/-- the last position appended by `repGo` when the minimum is reached -/
theorem descFrom_zero_tail (pos m : Nat) :
    descFrom pos 0 m = if m = 0 then [pos] else [] := by
  by_cases hm : m = 0
  · subst hm; simp [descFrom_self]
  · rw [descFrom_of_lt (by omega)]; simp [hm]

theorem repGo_all (p : Char → Bool) (s : List Char) (f m : Nat) (n : Option Nat) (pos : Nat)
    (hf : s.length + 1 ≤ f + pos) :
    repGo (oneStep p s) f m n pos = descFrom pos (capMin n (runAll p (s.drop pos))) m := by
  induction f generalizing m n pos with
  | zero =>
    have h0 : runAll p (s.drop pos) = 0 := runAll_drop_of_ge p s pos (by omega)
    simp only [repGo, h0, capMin_zero, descFrom_zero_tail]
  | succ f ih =>
    simp only [repGo]
    by_cases hn : n = some 0
    · subst hn
      simp only [capMin_some_zero, if_true, List.nil_append, descFrom_zero_tail]
    · simp only [hn, if_false]
      rw [runAll_drop_step]
      cases hs : s[pos]? with
      | none =>
        simp only [oneStep, hs, capMin_zero, descFrom_zero_tail]
        simp
      | some d =>
        by_cases hp : p d = true
        · have hstep : (oneStep p s pos).filter (fun e => decide (pos < e)) = [pos + 1] := by
            simp [oneStep, hs, hp]
          rw [hstep]
          simp only [List.flatMap_cons, List.flatMap_nil, List.append_nil, hp, if_true]
          rw [ih (m - 1) (n.map (· - 1)) (pos + 1) (by omega)]
          have hcap : capMin n (runAll p (s.drop (pos + 1)) + 1)
              = capMin (n.map (· - 1)) (runAll p (s.drop (pos + 1))) + 1 := by
            cases n with
            | none => simp [capMin]
            | some c =>
              have : c ≠ 0 := by intro h0; exact hn (by simp [h0])
              simp only [capMin, Option.map, Nat.min_def]
              split <;> split <;> omega
          rw [hcap]
          generalize capMin (n.map (· - 1)) (runAll p (s.drop (pos + 1))) = k
          by_cases hm : m = 0
          · subst hm
            simp only [if_true]
            rw [descFrom_zero, descFrom_shift]
          · simp only [hm, if_false, List.append_nil]
            rw [descFrom_shift]
            have : m - 1 + 1 = m := by omega
            rw [this]
        · have hstep : (oneStep p s pos).filter (fun e => decide (pos < e)) = [] := by
            simp [oneStep, hs, hp]
          rw [hstep]
          have hp' : p d = false := by simpa using hp
          simp only [hp', Bool.false_eq_true, if_false, capMin_zero, descFrom_zero_tail,
            List.flatMap_nil, List.nil_append]

/-- the same with the fuel that `ends` supplies, at any position (also beyond the end of the text) -/
theorem ends_rep_all (s : List Char) (L : Re) (p : Char → Bool) (hL : ends false s L = oneStep p s)
    (m : Nat) (n : Option Nat) (pos : Nat) :
    repGo (ends false s L) (s.length + 1 - pos) m n pos =
      descFrom pos (capMin n (runAll p (s.drop pos))) m := by
  rw [hL]
  by_cases hp : pos ≤ s.length + 1
  · exact repGo_all p s _ m n pos (by omega)
  · have h0 : s.length + 1 - pos = 0 := by omega
    have hr : runAll p (s.drop pos) = 0 := runAll_drop_of_ge p s pos (by omega)
    rw [h0, hr, capMin_zero]
    simp only [repGo, descFrom_zero_tail]

/-! ### `ends` of the re-associating concatenation -/

theorem ends_catApp (ci : Bool) (s : List Char) (a b : Re) (pos : Nat) :
    ends ci s (catApp a b) pos = (ends ci s a pos).flatMap (ends ci s b) := by
  induction a generalizing pos with
  | cat a1 a2 _ ih2 =>
    simp only [catApp, ends]
    rw [List.flatMap_assoc]
    congr 1
    funext e
    exact ih2 e
  | eps => simp [catApp, ends]
  | _ => simp only [catApp, ends]

/-! ### the candidate ends of the core regex -/

/-- every run length from the capped longest one down to `mn`, longest first -/
def wordCands (pI pB : Char → Bool) (mn : Nat) (ml : Option Nat) (s : List Char) (loc : Nat) :
    List Nat :=
  match s[loc]? with
  | some c =>
    if pI c then descFrom loc (capMin ml (1 + runAll pB (s.drop (loc + 1)))) mn else []
  | none => []

/-- candidates when the body set is the initial set: a capped run from `loc` -/
theorem wordCands_same (p : Char → Bool) (mn : Nat) (ml : Option Nat) (hmn : 1 ≤ mn)
    (s : List Char) (loc : Nat) :
    descFrom loc (capMin ml (runAll p (s.drop loc))) mn = wordCands p p mn ml s loc := by
  unfold wordCands
  rw [runAll_drop_step p s loc]
  cases hs : s[loc]? with
  | none => simp only [capMin_zero]; exact descFrom_of_lt (by omega)
  | some c =>
    by_cases hp : p c = true
    · simp only [hp, if_true]
      have e : 1 + runAll p (s.drop (loc + 1)) = runAll p (s.drop (loc + 1)) + 1 := by omega
      rw [e]
    · have hp' : p c = false := by simpa using hp
      simp only [hp', Bool.false_eq_true, if_false, capMin_zero]
      exact descFrom_of_lt (by omega)

theorem ends_cat_lead_cands (s : List Char) (L X : Re) (pI pB : Char → Bool) (mn : Nat)
    (ml : Option Nat) (loc : Nat) (hL : ends false s L = oneStep pI s)
    (hX : ends false s X (loc + 1) =
      descFrom loc (capMin ml (1 + runAll pB (s.drop (loc + 1)))) mn) :
    ends false s (.cat L X) loc = wordCands pI pB mn ml s loc := by
  simp only [ends, hL, oneStep, wordCands]
  cases s[loc]? with
  | none => simp
  | some c =>
    by_cases hp : pI c = true
    · simp [hp, hX]
    · simp [hp]

theorem ends_lead_cands (s : List Char) (L : Re) (pI pB : Char → Bool) (loc : Nat)
    (hL : ends false s L = oneStep pI s) :
    ends false s L loc = wordCands pI pB 1 (some 1) s loc := by
  simp only [hL, oneStep, wordCands]
  cases s[loc]? with
  | none => rfl
  | some c =>
    have hk : capMin (some 1) (1 + runAll pB (s.drop (loc + 1))) = 1 := by
      simp only [capMin, Nat.min_def]; split <;> omega
    by_cases hp : pI c = true
    · simp only [hp, if_true, hk, descFrom_self]
    · simp only [hp]; rfl

theorem descFrom_two_one (loc : Nat) : descFrom loc 2 1 = [loc + 2, loc + 1] := by
  rw [descFrom_cons loc 1 1 (by omega), descFrom_self]

/-- **every candidate end of the regex built by `Word.__init__`** (no `\b`): all run lengths from the
    capped longest one down to `mn`, longest first -/
theorem ends_wordReCore (I B : List Char) (mn mx : Nat) (hmn : 1 ≤ mn) (hmx : 0 < mx → mn ≤ mx)
    (s : List Char) (loc : Nat) :
    ends false s (wordReCore I B mn mx mn (if mx > 0 then some mx else none)) loc =
      wordCands I.contains B.contains mn (if mx > 0 then some mx else none) s loc := by
  have hden := ranges_denote
  have hL := ends_lead hden s I
  have hBd := ends_clsOf hden s B
  unfold wordReCore
  simp only []
  generalize leadRe I = L at hL ⊢
  by_cases hBI : (B == I) = true
  · have hEq : B = I := by simpa using hBI
    subst hEq
    rw [if_pos hBI]
    by_cases h1 : (mx == 0 && mn == 1) = true
    · -- `+`
      rw [if_pos h1, ← wordCands_same _ mn _ hmn]
      have hmx0 : mx = 0 := by simp at h1; exact h1.1
      have hmn1 : mn = 1 := by simp at h1; exact h1.2
      subst hmx0; subst hmn1
      simp only [ends]
      rw [ends_rep_all s L _ hL]
      simp
    · rw [if_neg h1]
      by_cases h2 : (mx == 1) = true
      · -- no repeat
        rw [if_pos h2]
        have hmx1 : mx = 1 := by simpa using h2
        subst hmx1
        have hmn1 : mn = 1 := by have := hmx (by omega); omega
        subst hmn1
        exact ends_lead_cands s L _ _ loc hL
      · rw [if_neg h2, ← wordCands_same _ mn _ hmn]
        by_cases h3 : (some mn != (if mx > 0 then some mx else none)) = true
        · rw [if_pos h3]
          simp only [ends]
          rw [ends_rep_all s L _ hL]
        · rw [if_neg h3]
          have h3' : (if mx > 0 then some mx else none) = some mn := by
            have : ¬ (some mn ≠ (if mx > 0 then some mx else none)) := by simpa using h3
            exact (Classical.not_not.mp this).symm
          simp only [ends]
          rw [ends_rep_all s L _ hL, h3']
  · rw [if_neg hBI]
    by_cases h2 : (mx == 1) = true
    · rw [if_pos h2]
      have hmx1 : mx = 1 := by simpa using h2
      subst hmx1
      have hmn1 : mn = 1 := by have := hmx (by omega); omega
      subst hmn1
      exact ends_lead_cands s L _ _ loc hL
    · rw [if_neg h2]
      have hmx1 : mx ≠ 1 := by simpa using h2
      by_cases h1 : (mx == 0 && mn == 1) = true
      · -- lead body*
        rw [if_pos h1]
        have hmx0 : mx = 0 := by simp at h1; exact h1.1
        have hmn1 : mn = 1 := by simp at h1; exact h1.2
        subst hmx0; subst hmn1
        apply ends_cat_lead_cands s L _ _ _ _ _ loc hL
        simp only [ends]
        rw [ends_rep_all s _ _ hBd, descFrom_shift]
        generalize runAll B.contains (s.drop (loc + 1)) = R
        simp only [Nat.lt_irrefl, if_false, capMin]
        congr 1; omega
      · rw [if_neg h1]
        by_cases h22 : (mx == 2) = true
        · rw [if_pos h22]
          have hmx2 : mx = 2 := by simpa using h22
          subst hmx2
          have hmn2 : mn ≤ 2 := hmx (by omega)
          have hR : runAll B.contains (s.drop (loc + 1)) =
              match s[loc + 1]? with
              | some d => if B.contains d then runAll B.contains (s.drop (loc + 1 + 1)) + 1 else 0
              | none => 0 := runAll_drop_step _ s (loc + 1)
          have h20 : (if 2 > 0 then some 2 else none) = (some 2 : Option Nat) := rfl
          rw [h20]
          have hk0 : capMin (some 2) (1 + 0) = 1 := by simp [capMin]
          have hk1 : ∀ R', capMin (some 2) (1 + (R' + 1)) = 2 := by
            intro R'; simp only [capMin, Nat.min_def]; split <;> omega
          by_cases hle : mn ≤ 1
          · rw [if_pos hle]
            have hmn1 : mn = 1 := by omega
            subst hmn1
            apply ends_cat_lead_cands s L _ _ _ _ _ loc hL
            simp only [ends, hBd]
            cases hs1 : s[loc + 1]? with
            | none =>
              have hR0 : runAll B.contains (s.drop (loc + 1)) = 0 := by rw [hR, hs1]
              have e : oneStep B.contains s (loc + 1) = [] := by simp [oneStep, hs1]
              rw [hR0, e, hk0, descFrom_self]; rfl
            | some d =>
              by_cases hb : B.contains d = true
              · have hR1 : runAll B.contains (s.drop (loc + 1)) =
                    runAll B.contains (s.drop (loc + 1 + 1)) + 1 := by
                  rw [hR, hs1]; simp only [hb, if_true]
                have e : oneStep B.contains s (loc + 1) = [loc + 1 + 1] := by
                  simp only [oneStep, hs1, hb, if_true]
                rw [hR1, e, hk1, descFrom_two_one]; rfl
              · have hR0 : runAll B.contains (s.drop (loc + 1)) = 0 := by
                  rw [hR, hs1]; simp only [hb]; rfl
                have e : oneStep B.contains s (loc + 1) = [] := by
                  simp only [oneStep, hs1, hb]; rfl
                rw [hR0, e, hk0, descFrom_self]; rfl
          · rw [if_neg hle]
            have hmn1 : mn = 2 := by omega
            subst hmn1
            apply ends_cat_lead_cands s L _ _ _ _ _ loc hL
            simp only [hBd]
            cases hs1 : s[loc + 1]? with
            | none =>
              have hR0 : runAll B.contains (s.drop (loc + 1)) = 0 := by rw [hR, hs1]
              have e : oneStep B.contains s (loc + 1) = [] := by simp [oneStep, hs1]
              rw [hR0, e, hk0, descFrom_of_lt (by omega)]
            | some d =>
              by_cases hb : B.contains d = true
              · have hR1 : runAll B.contains (s.drop (loc + 1)) =
                    runAll B.contains (s.drop (loc + 1 + 1)) + 1 := by
                  rw [hR, hs1]; simp only [hb, if_true]
                have e : oneStep B.contains s (loc + 1) = [loc + 1 + 1] := by
                  simp only [oneStep, hs1, hb, if_true]
                rw [hR1, e, hk1, descFrom_self]
              · have hR0 : runAll B.contains (s.drop (loc + 1)) = 0 := by
                  rw [hR, hs1]; simp only [hb]; rfl
                have e : oneStep B.contains s (loc + 1) = [] := by
                  simp only [oneStep, hs1, hb]; rfl
                rw [hR0, e, hk0, descFrom_of_lt (by omega)]
        · rw [if_neg h22]
          have hmx2 : mx ≠ 2 := by simpa using h22
          have hshift : ∀ k, descFrom (loc + 1) k (mn - 1) = descFrom loc (k + 1) mn := by
            intro k
            rw [descFrom_shift]
            have : mn - 1 + 1 = mn := by omega
            rw [this]
          by_cases h4 : (mn != mx) = true
          · rw [if_pos h4]
            have hne : mn ≠ mx := by simpa using h4
            apply ends_cat_lead_cands s L _ _ _ _ _ loc hL
            simp only [ends]
            rw [ends_rep_all s _ _ hBd, hshift]
            generalize runAll B.contains (s.drop (loc + 1)) = R
            congr 1
            by_cases h0 : mx > 0
            · simp only [h0, if_true, capMin, Nat.min_def]
              split <;> split <;> omega
            · have : mx = 0 := by omega
              subst this
              simp only [Nat.lt_irrefl, if_false, capMin]
              omega
          · rw [if_neg h4]
            have heq : mn = mx := by simpa using h4
            subst heq
            apply ends_cat_lead_cands s L _ _ _ _ _ loc hL
            simp only [ends]
            rw [ends_rep_all s _ _ hBd, hshift]
            generalize runAll B.contains (s.drop (loc + 1)) = R
            congr 1
            have h0 : mn > 0 := by omega
            simp only [h0, if_true, capMin, Nat.min_def]
            split <;> split <;> omega

/-- `ends_wordReCore` with the candidate list written out -/
theorem ends_wordReCore_match (I B : List Char) (mn mx : Nat) (hmn : 1 ≤ mn)
    (hmx : 0 < mx → mn ≤ mx) (s : List Char) (loc : Nat) :
    ends false s (wordReCore I B mn mx mn (if mx > 0 then some mx else none)) loc =
      match s[loc]? with
      | some c =>
        if I.contains c then
          descFrom loc (capMin (if mx > 0 then some mx else none)
            (1 + runAll B.contains (s.drop (loc + 1)))) mn
        else []
      | none => [] :=
  ends_wordReCore I B mn mx hmn hmx s loc

/-! ### the keyword regex `\b core \b` -/

theorem flatMap_wb (s : List Char) (l : List Nat) :
    l.flatMap (ends false s .wb) = l.filter (fun e => isBoundary s e) := by
  induction l with
  | nil => rfl
  | cons x xs ih =>
    rw [List.flatMap_cons, List.filter_cons, ih]
    simp only [ends]
    by_cases hx : isBoundary s x = true <;> simp [hx]

/-- `\b r \b` for any `r`: `\b` at the start, then the ends of `r` that are `\b` positions, in order -/
theorem ends_wb_catApp_wb (s : List Char) (r : Re) (loc : Nat) :
    ends false s (.cat .wb (catApp r .wb)) loc =
      if isBoundary s loc then (ends false s r loc).filter (fun e => isBoundary s e) else [] := by
  simp only [ends]
  by_cases hb : isBoundary s loc = true
  · simp only [hb, if_true, List.flatMap_cons, List.flatMap_nil, List.append_nil]
    rw [ends_catApp, flatMap_wb]
  · simp [hb]

/-- all ends of the keyword regex, best first -/
theorem ends_wordRe_keyword (I B : List Char) (mn mx : Nat) (hmn : 1 ≤ mn) (hmx : 0 < mx → mn ≤ mx)
    (s : List Char) (loc : Nat) :
    ends false s (wordRe I B mn mx mn (if mx > 0 then some mx else none) true) loc =
      if isBoundary s loc then
        (wordCands I.contains B.contains mn (if mx > 0 then some mx else none) s loc).filter
          (fun e => isBoundary s e)
      else [] := by
  unfold wordRe
  simp only [if_true]
  rw [ends_wb_catApp_wb, ends_wordReCore I B mn mx hmn hmx]

/-- **the regex path with `as_keyword`**: `\b` at the start, then the LONGEST capped run length `≥ mn`
    whose end is a `\b` position (the regex engine backtracks to shorter runs) -/
theorem wordRe_keyword_spec (I B : List Char) (mn mx : Nat) (hmn : 1 ≤ mn) (hmx : 0 < mx → mn ≤ mx)
    (s : List Char) (loc : Nat) :
    matchAt false (wordRe I B mn mx mn (if mx > 0 then some mx else none) true) s loc =
      if isBoundary s loc then
        (wordCands I.contains B.contains mn (if mx > 0 then some mx else none) s loc).find?
          (fun e => isBoundary s e)
      else none := by
  unfold matchAt
  rw [ends_wordRe_keyword I B mn mx hmn hmx]
  by_cases hb : isBoundary s loc = true
  · simp only [hb, if_true, List.head?_filter]
  · simp [hb]

/-- without `as_keyword` the regex is the core (`wordReCore_spec` / `ends_wordReCore` apply) -/
theorem wordRe_nokeyword (I B : List Char) (mn mx mnl : Nat) (mxl : Option Nat) :
    wordRe I B mn mx mnl mxl false = wordReCore I B mn mx mnl mxl := by
  simp [wordRe]

/-! ### consequences: how the keyword regex differs from the character loop -/

/-- first hit of a predicate in a descending interval -/
theorem find?_descFrom (q : Nat → Bool) (pos m : Nat) (k : Nat) (e : Nat) :
    (descFrom pos k m).find? q = some e ↔
      pos + m ≤ e ∧ e ≤ pos + k ∧ q e = true ∧ ∀ e', e < e' → e' ≤ pos + k → q e' = false := by
  induction k with
  | zero =>
    rw [descFrom_zero_tail]
    by_cases hm : m = 0
    · subst hm
      simp only [if_true, List.find?_cons, List.find?_nil]
      by_cases hq : q pos = true
      · simp only [hq, Option.some.injEq]
        constructor
        · intro h; subst h; exact ⟨by omega, by omega, hq, fun e' h1 h2 => by omega⟩
        · intro ⟨h1, h2, _, _⟩; omega
      · have hq' : q pos = false := by simpa using hq
        simp only [hq']
        constructor
        · intro h; cases h
        · intro ⟨h1, h2, h3, _⟩
          have : e = pos := by omega
          subst this; rw [hq'] at h3; cases h3
    · simp only [hm, if_false, List.find?_nil]
      constructor
      · intro h; cases h
      · intro ⟨h1, h2, _, _⟩; omega
  | succ k ih =>
    by_cases hmk : m ≤ k + 1
    · rw [descFrom_cons pos k m hmk, List.find?_cons]
      by_cases hq : q (pos + (k + 1)) = true
      · simp only [hq, Option.some.injEq]
        constructor
        · intro h; subst h; exact ⟨by omega, by omega, hq, fun e' h1 h2 => by omega⟩
        · intro ⟨h1, h2, h3, h4⟩
          rcases Nat.lt_or_ge e (pos + (k + 1)) with hlt | hge
          · have := h4 _ hlt (Nat.le_refl _); rw [hq] at this; cases this
          · omega
      · have hq' : q (pos + (k + 1)) = false := by simpa using hq
        simp only [hq']
        rw [ih]
        constructor
        · intro ⟨h1, h2, h3, h4⟩
          refine ⟨h1, by omega, h3, fun e' he1 he2 => ?_⟩
          rcases Nat.lt_or_ge e' (pos + (k + 1)) with hlt | hge
          · exact h4 e' he1 (by omega)
          · have : e' = pos + (k + 1) := by omega
            subst this; exact hq'
        · intro ⟨h1, h2, h3, h4⟩
          have hne : e ≠ pos + (k + 1) := by
            intro h; subst h; rw [hq'] at h3; cases h3
          exact ⟨h1, by omega, h3, fun e' he1 he2 => h4 e' he1 (by omega)⟩
    · rw [descFrom_of_lt (by omega)]
      simp only [List.find?_nil]
      constructor
      · intro h; cases h
      · intro ⟨h1, h2, _, _⟩; omega

/-- **no `\b` at the start: the regex path fails whatever the initial / body characters are**
    (the character loop only looks at `bodyChars` on both sides) -/
theorem wordRe_keyword_not_boundary (I B : List Char) (mn mx : Nat) (hmn : 1 ≤ mn)
    (hmx : 0 < mx → mn ≤ mx) (s : List Char) (loc : Nat) (hb : isBoundary s loc = false) :
    matchAt false (wordRe I B mn mx mn (if mx > 0 then some mx else none) true) s loc = none := by
  rw [wordRe_keyword_spec I B mn mx hmn hmx, hb]; rfl

/-- **exact characterisation of a success of the keyword regex**: `\b` at `loc`, an initial character,
    and `e` is the largest position in `[loc + mn, runEnd]` that is a `\b` position -/
theorem wordRe_keyword_eq_some_iff (I B : List Char) (mn mx : Nat) (hmn : 1 ≤ mn)
    (hmx : 0 < mx → mn ≤ mx) (s : List Char) (loc e : Nat) :
    matchAt false (wordRe I B mn mx mn (if mx > 0 then some mx else none) true) s loc = some e ↔
      isBoundary s loc = true ∧ (∃ c, s[loc]? = some c ∧ I.contains c = true) ∧
      loc + mn ≤ e ∧ e ≤ runEnd B.contains (if mx > 0 then some mx else none) s loc ∧
      isBoundary s e = true ∧
      ∀ e', e < e' → e' ≤ runEnd B.contains (if mx > 0 then some mx else none) s loc →
        isBoundary s e' = false := by
  rw [wordRe_keyword_spec I B mn mx hmn hmx]
  unfold wordCands runEnd
  by_cases hb : isBoundary s loc = true
  · simp only [hb, if_true, true_and]
    cases hs : s[loc]? with
    | none => simp
    | some c =>
      by_cases hI : I.contains c = true
      · simp only [hI, if_true]
        rw [find?_descFrom]
        constructor
        · intro h; exact ⟨⟨c, rfl, hI⟩, h⟩
        · intro h; exact h.2
      · have hI' : I.contains c = false := by simpa using hI
        simp only [hI', Bool.false_eq_true, if_false, List.find?_nil]
        constructor
        · intro h; cases h
        · intro ⟨⟨c', hc', hIc'⟩, _⟩
          injection hc' with hc'; subst hc'; rw [hI'] at hIc'; cases hIc'
  · have hb' : isBoundary s loc = false := by simpa using hb
    simp [hb']

/-- a failure: no `\b` at `loc`, no initial character, or no `\b` position in `[loc + mn, runEnd]` -/
theorem wordRe_keyword_eq_none_iff (I B : List Char) (mn mx : Nat) (hmn : 1 ≤ mn)
    (hmx : 0 < mx → mn ≤ mx) (s : List Char) (loc : Nat) :
    matchAt false (wordRe I B mn mx mn (if mx > 0 then some mx else none) true) s loc = none ↔
      isBoundary s loc = false ∨ (∀ c, s[loc]? = some c → I.contains c = false) ∨
      ∀ e, loc + mn ≤ e → e ≤ runEnd B.contains (if mx > 0 then some mx else none) s loc →
        isBoundary s e = false := by
  rw [wordRe_keyword_spec I B mn mx hmn hmx]
  unfold wordCands runEnd
  by_cases hb : isBoundary s loc = true
  · simp only [hb, if_true, Bool.true_eq_false, false_or]
    cases hs : s[loc]? with
    | none => simp
    | some c =>
      by_cases hI : I.contains c = true
      · simp only [hI, if_true, List.find?_eq_none, mem_descFrom]
        constructor
        · intro h; right; intro e h1 h2
          have := h e ⟨h1, h2⟩; simpa using this
        · intro h
          rcases h with h | h
          · have := h c rfl; rw [hI] at this; cases this
          · intro e ⟨h1, h2⟩; simp [h e h1 h2]
      · have hI' : I.contains c = false := by simpa using hI
        simp only [hI', Bool.false_eq_true, if_false, List.find?_nil, true_iff]
        left; intro c' hc'; injection hc' with hc'; subst hc'; exact hI'
  · have hb' : isBoundary s loc = false := by simpa using hb
    simp [hb']

/-- when both `\b` tests hold at the two ends of the capped longest run, the keyword regex is the
    declarative spec -/
theorem wordRe_keyword_longest (I B : List Char) (mn mx : Nat) (hmn : 1 ≤ mn)
    (hmx : 0 < mx → mn ≤ mx) (s : List Char) (loc : Nat) (hb : isBoundary s loc = true)
    (he : isBoundary s (runEnd B.contains (if mx > 0 then some mx else none) s loc) = true) :
    matchAt false (wordRe I B mn mx mn (if mx > 0 then some mx else none) true) s loc =
      wordSpec I.contains B.contains mn (if mx > 0 then some mx else none) s loc := by
  unfold wordSpec
  cases hs : s[loc]? with
  | none =>
    rw [wordRe_keyword_spec I B mn mx hmn hmx]
    simp [wordCands, hs]
  | some c =>
    by_cases hI : I.contains c = true
    · simp only [hI, if_true]
      by_cases hk : capMin (if mx > 0 then some mx else none)
          (1 + runAll B.contains (s.drop (loc + 1))) < mn
      · rw [if_pos hk, wordRe_keyword_spec I B mn mx hmn hmx]
        simp [wordCands, hs, descFrom_of_lt hk]
      · rw [if_neg hk]
        apply (wordRe_keyword_eq_some_iff I B mn mx hmn hmx s loc _).mpr
        refine ⟨hb, ⟨c, hs, hI⟩, by omega, Nat.le_refl _, he, ?_⟩
        intro e' h1 h2; unfold runEnd at h2; omega
    · have hI' : I.contains c = false := by simpa using hI
      rw [wordRe_keyword_spec I B mn mx hmn hmx]
      simp only [wordCands, hs, hI', Bool.false_eq_true, if_false, List.find?_nil]
      split <;> rfl

/-- the keyword regex never goes beyond the spec: a success is a success of the spec at an end that is
    at least as far -/
theorem wordRe_keyword_le_spec (I B : List Char) (mn mx : Nat) (hmn : 1 ≤ mn)
    (hmx : 0 < mx → mn ≤ mx) (s : List Char) (loc e : Nat)
    (h : matchAt false (wordRe I B mn mx mn (if mx > 0 then some mx else none) true) s loc = some e) :
    wordSpec I.contains B.contains mn (if mx > 0 then some mx else none) s loc =
        some (runEnd B.contains (if mx > 0 then some mx else none) s loc) ∧
      e ≤ runEnd B.contains (if mx > 0 then some mx else none) s loc := by
  obtain ⟨_, ⟨c, hs, hI⟩, h1, h2, _, _⟩ :=
    (wordRe_keyword_eq_some_iff I B mn mx hmn hmx s loc e).mp h
  refine ⟨?_, h2⟩
  unfold wordSpec
  unfold runEnd at h2 ⊢
  simp only [hs, hI, if_true]
  rw [if_neg (by omega)]

theorem wordSpec_some_runEnd (pI pB : Char → Bool) (mn : Nat) (ml : Option Nat) (s : List Char)
    (loc e : Nat) (h : wordSpec pI pB mn ml s loc = some e) : e = runEnd pB ml s loc := by
  unfold wordSpec at h
  unfold runEnd
  cases hs : s[loc]? with
  | none => rw [hs] at h; cases h
  | some c =>
    rw [hs] at h
    by_cases hI : pI c = true
    · simp only [hI, if_true] at h
      split at h
      · cases h
      · injection h with h; exact h.symm
    · have hI' : pI c = false := by simpa using hI
      simp only [hI', Bool.false_eq_true, if_false] at h
      cases h

/-- the character loop never backtracks: whatever the flags, a success ends at the capped longest run -/
theorem slowPath_some_runEnd (w : Word) (s : List Char) (loc e : Nat)
    (hmax : ∀ m, w.maxLen = some m → 0 < m) (h : slowPath w s loc = some e) :
    e = runEnd w.bodySet.contains w.maxLen s loc := by
  rw [slowPath_full w s loc hmax] at h
  cases hsp : wordSpec w.initSet.contains w.bodySet.contains w.minLen w.maxLen s loc with
  | none => rw [hsp] at h; cases h
  | some e' =>
    rw [hsp] at h
    have he' := wordSpec_some_runEnd _ _ _ _ _ _ _ hsp
    simp only [] at h
    split at h
    · cases h
    · split at h
      · cases h
      · injection h with h; rw [← h]; exact he'

/-! ### at the level of the constructed object -/

/-- **the installed regex path of any `Word(..., as_keyword=True)`** for which the regex is built -/
theorem word_re_keyword_spec (a : WordArgs) (w : Word) (r : Re) (h : mkWord a = some w)
    (hr : w.re = some r) (hkw : a.asKeyword = true) (s : List Char) (loc : Nat) :
    rePath r s loc =
      if isBoundary s loc then
        (wordCands w.initSet.contains w.bodySet.contains w.minLen w.maxLen s loc).find?
          (fun e => isBoundary s e)
      else none := by
  obtain ⟨hi, hb, hmn, hml, h1, h2, -, -, hre⟩ := mkWord_facts a w h
  rw [hre] at hr
  unfold reOf at hr
  split at hr
  · cases hr
  · split at hr
    · cases hr
    · injection hr with hr
      subst hr
      unfold rePath
      rw [hkw, hi, hb, hmn, hml]
      exact wordRe_keyword_spec _ _ _ _ h1 h2 s loc

/-- general divergence (1): where there is no `\b` at `loc` (e.g. `s[loc]` is punctuation and so is
    `s[loc-1]` or `loc = 0`; or both are word characters), the installed regex path fails whatever the
    character sets are; the character loop only tests `s[loc-1] in bodyChars` -/
theorem word_keyword_not_boundary (a : WordArgs) (w : Word) (r : Re) (h : mkWord a = some w)
    (hr : w.re = some r) (hkw : a.asKeyword = true) (s : List Char) (loc : Nat)
    (hb : isBoundary s loc = false) : parseWord w s loc = none := by
  unfold parseWord
  rw [hr]
  simp only []
  rw [word_re_keyword_spec a w r h hr hkw, hb]; rfl

/-- general divergence (2): the installed regex path may succeed at a shorter end than the capped
    longest run (backtracking to a `\b`); the character loop never returns such an end -/
theorem word_keyword_backtrack_differs (a : WordArgs) (w : Word) (r : Re) (h : mkWord a = some w)
    (s : List Char) (loc e : Nat)
    (hre : rePath r s loc = some e) (hlt : e < runEnd w.bodySet.contains w.maxLen s loc) :
    slowPath w s loc ≠ rePath r s loc := by
  obtain ⟨-, -, -, hml, -, -, -, -, -⟩ := mkWord_facts a w h
  have hmax : ∀ m, w.maxLen = some m → 0 < m := by
    intro m hm
    rw [hml] at hm
    unfold maxLenOf at hm
    split at hm
    · injection hm with hm; omega
    · cases hm
  intro heq
  rw [hre] at heq
  have := slowPath_some_runEnd w s loc e hmax heq
  omega

/-- witness of (1): `Word('+', as_keyword=True)` on `'+'`: the regex `\b\+\b` fails, the character loop
    returns 1 -/
theorem word_askeyword_symbol_witness :
    ∃ w, mkWord { init := ['+'], asKeyword := true } = some w ∧
      parseWord w "+".toList 0 = none ∧ slowPath w "+".toList 0 = some 1 := by
  refine ⟨_, rfl, ?_, ?_⟩ <;> decide

/-- witness of (2): `Word('a', 'a-', as_keyword=True)` on `'a-'`: the regex `\ba[\-a]*\b` backtracks
    to 1, the character loop returns 2 -/
theorem word_askeyword_backtrack_witness :
    ∃ w, mkWord { init := ['a'], body := ['a', '-'], asKeyword := true } = some w ∧
      parseWord w "a-".toList 0 = some 1 ∧ slowPath w "a-".toList 0 = some 2 := by
  refine ⟨_, rfl, ?_, ?_⟩ <;> decide

end PP.WordPaths
