import PPProofs.Props.C07
/-!
# Propagating positions of the transcribed parser (helper definitions and lemmas for `Props/C07Depth.lean`)

`ImplStep g s p nd pre acts t e l' cp'` : the body `parseImpl g p nd s pre acts` of node `nd` makes the call
`p e l' acts cp'` in a **propagating position** (a position from which a fatal exception of the callee leaves the
body un-caught), and `t : Tag` records what the body does to the exception on the way out:

* `.plain`      – re-raised unchanged (class and location),
* `.afterStop`  – the callee is an element of an `And` behind an `_ErrorStop`: whatever fails there is re-raised as
                  `ParseSyntaxException` at the same location (core.py And.parseImpl 4192-4200),
* `.enh loc`    – ParseElementEnhance.parseImpl: class unchanged; `pbe.loc = pbe.loc or loc` replaces a location 0
                  of a non-syntax exception by `loc` (core.py 4709-4716).
-/
namespace PP.Parse

inductive Tag where
  | plain
  | afterStop
  | enh (loc : Nat)

/-- what a propagating container does to the exception `(class, location)` passing through it -/
def Tag.app : Tag → Exc × Nat → Exc × Nat
  | .plain, x => x
  | .afterStop, (_, l) => (.syntax, l)
  | .enh _, (.syntax, l) => (.syntax, l)
  | .enh loc, (c, l) => (c, if l == 0 then loc else l)

/-- the `isinstance(e, And._ErrorStop)` test of And.parseImpl, as `parseImpl` instantiates it -/
def isStopOf (g : Grammar) : Nat → Bool := fun i =>
  match g[i]? with
  | some n => (match n.kind with
    | .errorStop => true
    | _ => false)
  | none => false

/-- state `(stop, loc, acc)` of the loop of And.parseImpl after the elements `es` **all succeeded**
    (`none` if one of them did not) -/
def andPrefix (p : P) (isStop : Nat → Bool) (acts : Bool) :
    List Nat → Bool → Nat → List Tok → Option (Bool × Nat × List Tok)
  | [], stop, loc, acc => some (stop, loc, acc)
  | e :: es, stop, loc, acc =>
    if isStop e then andPrefix p isStop acts es true loc acc else
    match p e loc acts true with
    | .ok l ts => andPrefix p isStop acts es stop l (acc ++ ts)
    | _ => none

theorem andRest_append (p : P) (isStop : Nat → Bool) (acts : Bool) (slen : Nat) (rest : List Nat) :
    ∀ (pfx : List Nat) (stop : Bool) (loc : Nat) (acc : List Tok) (st' : Bool) (l' : Nat) (a' : List Tok),
      andPrefix p isStop acts pfx stop loc acc = some (st', l', a') →
      andRest p isStop acts slen (pfx ++ rest) stop loc acc = andRest p isStop acts slen rest st' l' a' := by
  intro pfx
  induction pfx with
  | nil => intro stop loc acc st' l' a' h; simp [andPrefix] at h; obtain ⟨rfl, rfl, rfl⟩ := h; rfl
  | cons e es ih =>
    intro stop loc acc st' l' a' h
    unfold andPrefix at h
    simp only [List.cons_append]
    conv => lhs; unfold andRest
    split at h
    · rename_i hs; simp only [hs, if_true]; exact ih _ _ _ _ _ _ h
    · rename_i hs
      simp only [hs]
      cases hp : p e loc acts true with
      | ok l ts => rw [hp] at h; simp only at h ⊢; exact ih _ _ _ _ _ _ h
      | fail c l => rw [hp] at h; simp at h
      | idx => rw [hp] at h; simp at h
      | hang => rw [hp] at h; simp at h

/-- the repetition loop of `_MultipleMatch.parseImpl` gets from the state `(k, loc, acc)` to the state
    `(k', loc', acc')` by iterations that all **matched** (and advanced) -/
inductive LoopReach (p : P) (nd : Node) (acts : Bool) (slen e : Nat) (ne : Option Nat) :
    Nat → Nat → List Tok → Nat → Nat → List Tok → Prop
  | refl (k loc acc) : LoopReach p nd acts slen e ne k loc acc k loc acc
  | iter {k loc acc preloc l ts k' loc' acc'} :
      stopCheck p ne loc = some false → manyPre p nd slen loc = .at preloc →
      p e preloc acts true = .ok l ts → loc < l →
      LoopReach p nd acts slen e ne k l (acc ++ ts) k' loc' acc' →
      LoopReach p nd acts slen e ne (k + 1) loc acc k' loc' acc'

theorem manyLoop_reach {p : P} {nd : Node} {acts : Bool} {slen e : Nat} {ne : Option Nat}
    {k loc acc k' loc' acc'} (h : LoopReach p nd acts slen e ne k loc acc k' loc' acc') :
    manyLoop p nd acts slen e ne k loc acc = manyLoop p nd acts slen e ne k' loc' acc' := by
  induction h with
  | refl => rfl
  | iter hs hpre hp hlt _ ih =>
    rw [← ih]
    simp only [manyLoop, hs, hpre, hp]
    rw [if_neg (by omega)]

/-- the mandatory first `try_not_ender` of _MultipleMatch.parseImpl (5135-5143) let the repetition start -/
def firstOk (p : P) (ne : Option Nat) (loc : Nat) : Prop :=
  match ne with
  | none => True
  | some n => ∃ l ts, tryParse p n loc false false = .ok l ts

/-! ### ignore-expressions (`_skipIgnorables`, core.py 773-793) -/

/-- the inner `while 1` of _skipIgnorables for the ignore-expression `e` gets from `(k, loc)` to `(k', loc')` by
    matches that advanced -/
inductive OneReach (p : P) (e : Nat) : Nat → Nat → Nat → Nat → Prop
  | refl (k loc) : OneReach p e k loc k loc
  | iter {k loc l ts k' loc'} : p e loc true true = .ok l ts → loc < l → OneReach p e k l k' loc' →
      OneReach p e (k + 1) loc k' loc'

/-- the outer `while more` of _skipIgnorables gets from `(k, loc)` to `(k', loc')` by complete passes over all
    ignore-expressions that skipped something -/
inductive SkipReach (p : P) (slen : Nat) (ign : List Nat) : Nat → Nat → Nat → Nat → Prop
  | refl (k loc) : SkipReach p slen ign k loc k loc
  | round {k loc l k' loc'} : ignorePass p slen ign loc false = (.at l, true) → l ≠ loc →
      SkipReach p slen ign k l k' loc' → SkipReach p slen ign (k + 1) loc k' loc'

/-- `self._skipIgnorables(instring, loc)` calls the ignore-expression `e` at `l'` (`p e l' true true`): after some
    complete rounds, after the ignore-expressions `pfx` listed before `e` are done in the current round, and after
    `e` itself matched some number of times -/
inductive IgnCall (p : P) (slen : Nat) (ign : List Nat) (loc : Nat) : Nat → Nat → Prop
  | mk {k loc1 pfx e post l1 f1 j l'} :
      SkipReach p slen ign (slen + 2) loc (k + 1) loc1 → ign = pfx ++ e :: post →
      ignorePass p slen pfx loc1 false = (.at l1, f1) →
      OneReach p e (slen + 2) l1 (j + 1) l' → IgnCall p slen ign loc e l'

theorem ignoreOne_fatal {p : P} {e k loc k' l' : Nat} (h : OneReach p e k loc k' l') (j : Nat) (hk : k' = j + 1)
    (c : Exc) (l : Nat) (hf : p e l' true true = .fail c l) (hc : c.isFatal = true) :
    ∀ found, ∃ f', ignoreOne p e k loc found = (.abort (.fail c l), f') := by
  induction h with
  | refl k loc =>
    intro found; subst hk
    cases c <;> simp [Exc.isFatal] at hc <;> exact ⟨found, by simp [ignoreOne, hf]⟩
  | iter hp hlt _ ih =>
    intro found
    obtain ⟨f', h'⟩ := ih hk hf true
    exact ⟨f', by simp only [ignoreOne, hp]; rw [if_neg (by omega)]; exact h'⟩

theorem ignorePass_append (p : P) (slen : Nat) (rest : List Nat) :
    ∀ (pfx : List Nat) (loc : Nat) (found : Bool) (l1 : Nat) (f1 : Bool),
      ignorePass p slen pfx loc found = (.at l1, f1) →
      ignorePass p slen (pfx ++ rest) loc found = ignorePass p slen rest l1 f1 := by
  intro pfx
  induction pfx with
  | nil => intro loc found l1 f1 h; simp [ignorePass] at h; obtain ⟨rfl, rfl⟩ := h; rfl
  | cons x pfx ih =>
    intro loc found l1 f1 h
    simp only [List.cons_append, ignorePass] at h ⊢
    rcases hio : ignoreOne p x (slen + 2) loc found with ⟨r, f⟩
    cases r with
    | «at» l => rw [hio] at h; simp only at h ⊢; exact ih _ _ _ _ h
    | abort o => rw [hio] at h; simp at h

theorem skipIgnorables_reach {p : P} {slen : Nat} {ign : List Nat} {k loc k' loc' : Nat}
    (h : SkipReach p slen ign k loc k' loc') :
    skipIgnorables p slen ign k loc = skipIgnorables p slen ign k' loc' := by
  induction h with
  | refl => rfl
  | round hp hne _ ih =>
    rw [← ih]; simp only [skipIgnorables, hp]
    rw [if_neg (by simpa using hne)]

theorem skipIgnorables_fatal {p : P} {slen : Nat} {ign : List Nat} {loc e l' : Nat}
    (h : IgnCall p slen ign loc e l') (c : Exc) (l : Nat) (hf : p e l' true true = .fail c l)
    (hc : c.isFatal = true) : skipIgnorables p slen ign (slen + 2) loc = .abort (.fail c l) := by
  cases h with
  | @mk k loc1 pfx e post l1 f1 j l' hreach hign hpfx hone =>
    rw [skipIgnorables_reach hreach]
    obtain ⟨f', h1⟩ := ignoreOne_fatal hone j rfl c l hf hc f1
    have : ignorePass p slen ign loc1 false = (.abort (.fail c l), f') := by
      rw [hign, ignorePass_append p slen _ pfx loc1 false l1 f1 hpfx]
      simp only [ignorePass, h1]
    simp only [skipIgnorables, this]

/-- ParserElement.preParse re-raises a fatal exception of an ignore-expression -/
theorem preParse_fatal {p : P} {nd : Node} {s : List Char} {loc e l' : Nat}
    (hk : ∀ a b, nd.kind ≠ .lineStart a b) (hne : nd.ignore.isEmpty = false)
    (h : IgnCall p s.length nd.ignore loc e l') (c : Exc) (l : Nat) (hf : p e l' true true = .fail c l)
    (hc : c.isFatal = true) : preParse p nd s loc = .abort (.fail c l) := by
  have := skipIgnorables_fatal h c l hf hc
  unfold preParse
  cases hkind : nd.kind <;> first
    | (exfalso; exact hk _ _ hkind)
    | simp only [hne, this, Bool.false_eq_true, if_false]

/-! ### the scanning loop of SkipTo (core.py 5505-5536) -/

/-- the scanning loop gets from `(k, tmploc)` to `(k', tmploc')` by positions at which `fail_on` did not match and
    the target failed softly -/
inductive ScanReach (p : P) (slen e : Nat) (failOn ignorer : Option Nat) : Nat → Nat → Nat → Nat → Prop
  | refl (k t) : ScanReach p slen e failOn ignorer k t k t
  | iter {k tmploc t k' t'} : tmploc ≤ slen → failOnCheck p failOn tmploc = some false →
      ignStep p slen ignorer tmploc = .inr t → (p e t false false).soft = true →
      ScanReach p slen e failOn ignorer k (t + 1) k' t' → ScanReach p slen e failOn ignorer (k + 1) tmploc k' t'

theorem skipScan_reach {p : P} {slen e : Nat} {failOn ignorer : Option Nat} (loc0 : Nat) {k t k' t' : Nat}
    (h : ScanReach p slen e failOn ignorer k t k' t') :
    skipScan p slen e failOn ignorer loc0 k t = skipScan p slen e failOn ignorer loc0 k' t' := by
  induction h with
  | refl => rfl
  | @iter k tmploc t k' t' hle hfo hig hsoft _ ih =>
    rw [← ih]
    simp only [skipScan, hfo, hig]
    rw [if_neg (by omega)]
    cases hp : p e t false false with
    | ok l ts => rw [hp] at hsoft; simp [Out.soft] at hsoft
    | hang => rw [hp] at hsoft; simp [Out.soft] at hsoft
    | idx => rfl
    | fail c l => cases c <;> first | rfl | (rw [hp] at hsoft; simp [Out.soft] at hsoft)

/-! ### the second pass of Or (re-parse with actions, core.py 4313-4331) -/

/-- `if longest[0] >= loc1: return longest` does not fire -/
def p2Guard (longest : Option (Nat × List Tok)) (loc1 : Nat) : Bool :=
  match longest with
  | some (ll, _) => decide (loc1 ≤ ll)
  | none => false

def mxUpd (mx : Option Nat) (l : Nat) : Option Nat :=
  match mx with
  | none => some l
  | some m => if l > m then some l else some m

/-- the second pass of Or gets from the state `(candidates, longest, mx)` to another one by re-parses that came
    out shorter than their trial match, or failed softly -/
inductive Pass2Reach (p : P) (loc : Nat) :
    List (Nat × Nat) → Option (Nat × List Tok) → Option Nat →
    List (Nat × Nat) → Option (Nat × List Tok) → Option Nat → Prop
  | refl (cs lg mx) : Pass2Reach p loc cs lg mx cs lg mx
  | shorter {loc1 e rest lg mx l2 ts cs' lg' mx'} : p2Guard lg loc1 = false → p e loc true true = .ok l2 ts →
      l2 < loc1 →
      Pass2Reach p loc rest (if (match lg with
          | some (ll, _) => decide (l2 > ll)
          | none => true) then some (l2, ts) else lg) mx cs' lg' mx' →
      Pass2Reach p loc ((loc1, e) :: rest) lg mx cs' lg' mx'
  | soft {loc1 e rest lg mx l cs' lg' mx'} : p2Guard lg loc1 = false → p e loc true true = .fail .parse l →
      Pass2Reach p loc rest lg (mxUpd mx l) cs' lg' mx' →
      Pass2Reach p loc ((loc1, e) :: rest) lg mx cs' lg' mx'

theorem orPass2_guard (p : P) (loc loc1 e : Nat) (rest : List (Nat × Nat)) (lg : Option (Nat × List Tok))
    (mx : Option Nat) (h : p2Guard lg loc1 = false) :
    orPass2 p loc ((loc1, e) :: rest) lg mx = orPass2.orStep p loc loc1 e rest lg mx := by
  unfold orPass2
  cases lg with
  | none => rfl
  | some x => obtain ⟨ll, lt⟩ := x; simp [p2Guard] at h; simp; omega

theorem orPass2_reach {p : P} {loc : Nat} {cs lg mx cs' lg' mx'} (h : Pass2Reach p loc cs lg mx cs' lg' mx') :
    orPass2 p loc cs lg mx = orPass2 p loc cs' lg' mx' := by
  induction h with
  | refl => rfl
  | shorter hg hp hlt _ ih =>
    rw [orPass2_guard _ _ _ _ _ _ _ hg, ← ih]
    simp only [orPass2.orStep, hp]
    rw [if_neg (by omega)]
    rfl
  | soft hg hp _ ih =>
    rw [orPass2_guard _ _ _ _ _ _ _ hg, ← ih]
    simp only [orPass2.orStep, hp, mxUpd]
    rfl

/-- one propagating call position inside `parseImpl g p nd s pre acts`; see the module comment -/
inductive ImplStep (g : Grammar) (s : List Char) (p : P) (nd : Node) (pre : Nat) (acts : Bool) :
    Tag → Nat → Nat → Bool → Bool → Prop
  /-- And: the first element -/
  | andFirst {e0 rest} : nd.kind = .and (e0 :: rest) → ImplStep g s p nd pre acts .plain e0 pre acts false
  /-- And: a later element `e`, reached after the first element and the elements `pfx` in between all succeeded;
      `stop` = an `_ErrorStop` was passed on the way -/
  | andLater {e0 pfx e post l0 ts0 stop l' acc} : nd.kind = .and (e0 :: (pfx ++ e :: post)) →
      p e0 pre acts false = .ok l0 ts0 →
      andPrefix p (isStopOf g) acts pfx false l0 ts0 = some (stop, l', acc) → isStopOf g e = false →
      ImplStep g s p nd pre acts (if stop then .afterStop else .plain) e l' acts true
  /-- MatchFirst: an alternative reached after all earlier ones failed softly (ParseException / IndexError) -/
  | matchFirst {pfx e post} : nd.kind = .matchFirst (pfx ++ e :: post) →
      (∀ x ∈ pfx, (p x pre acts true).soft = true) → ImplStep g s p nd pre acts .plain e pre acts true
  | opt {e d} : nd.kind = .opt e d → ImplStep g s p nd pre acts .plain e pre acts false
  /-- OneOrMore / ZeroOrMore: the first iteration -/
  | manyFirst {e ne one} : nd.kind = .many e ne one → firstOk p ne pre →
      ImplStep g s p nd pre acts .plain e pre acts true
  /-- OneOrMore / ZeroOrMore: a later iteration, reached after the preceding ones matched, the stop_on sentinel
      did not match and the ignorables were skipped -/
  | manyLater {e ne one l0 ts0 k l' acc preloc} : nd.kind = .many e ne one → firstOk p ne pre →
      p e pre acts true = .ok l0 ts0 →
      LoopReach p nd acts s.length e ne (s.length + 2) l0 ts0 (k + 1) l' acc →
      stopCheck p ne l' = some false → manyPre p nd s.length l' = .at preloc →
      ImplStep g s p nd pre acts .plain e preloc acts true
  | group {e} : nd.kind = .group e → ImplStep g s p nd pre acts (.enh pre) e pre acts false
  | suppress {e} : nd.kind = .suppress e → ImplStep g s p nd pre acts (.enh pre) e pre acts false
  | combine {e j} : nd.kind = .combine e j → ImplStep g s p nd pre acts (.enh pre) e pre acts false
  | enhance {e} : nd.kind = .enhance e → ImplStep g s p nd pre acts (.enh pre) e pre acts false
  | forward {e} : nd.kind = .forward (some e) → ImplStep g s p nd pre acts (.enh pre) e pre acts false
  | followedBy {e} : nd.kind = .followedBy e → ImplStep g s p nd pre acts .plain e pre acts true
  | located {e} : nd.kind = .located e → ImplStep g s p nd pre acts .plain e pre acts false
  /-- OneOrMore / ZeroOrMore: an ignore-expression skipped in front of a later iteration (`self._skipIgnorables`) -/
  | manyIgnore {e ne one l0 ts0 k l' acc ie il} : nd.kind = .many e ne one → firstOk p ne pre →
      p e pre acts true = .ok l0 ts0 →
      LoopReach p nd acts s.length e ne (s.length + 2) l0 ts0 (k + 1) l' acc →
      stopCheck p ne l' = some false → nd.ignore.isEmpty = false → IgnCall p s.length nd.ignore l' ie il →
      ImplStep g s p nd pre acts .plain ie il true true
  /-- SkipTo: the target expression tried (without actions, without pre-parse) at a scanning position; the real
      code catches only `(ParseException, IndexError)` there -/
  | skipScan {e incl failOn ignorer k tmploc t} : nd.kind = .skipTo e incl failOn ignorer →
      ScanReach p s.length e failOn ignorer (s.length + 2) pre (k + 1) tmploc → tmploc ≤ s.length →
      failOnCheck p failOn tmploc = some false → ignStep p s.length ignorer tmploc = .inr t →
      ImplStep g s p nd pre acts .plain e t false false
  /-- Or: the alternative with the longest trial match, parsed again for real after the trial pass -/
  | orBest {es loc2 a l1 e rest} : nd.kind = .or es →
      (if es.all (callPreOf g) then preParse p nd s pre else PreR.at pre) = .at loc2 →
      orPass1 p (nameLenOf g) s.length loc2 es {} = some a → sortDesc a.cands = (l1, e) :: rest →
      ImplStep g s p nd pre acts .plain e loc2 acts true
  /-- Or, actions on: a shorter trial match parsed again, after the re-parses of the longer ones came out short or
      failed softly -/
  | orLater {es loc2 a loc1 e rest lg mx} : nd.kind = .or es → acts = true →
      (if es.all (callPreOf g) then preParse p nd s pre else PreR.at pre) = .at loc2 →
      orPass1 p (nameLenOf g) s.length loc2 es {} = some a →
      Pass2Reach p loc2 (sortDesc a.cands) none a.mx ((loc1, e) :: rest) lg mx → p2Guard lg loc1 = false →
      ImplStep g s p nd pre acts .plain e loc2 true true
  /-- Or: an ignore-expression run by the pre-parse Or.parseImpl does itself (4268-4274) -/
  | orIgnore {es ie il} : nd.kind = .or es → es.all (callPreOf g) = true → nd.ignore.isEmpty = false →
      IgnCall p s.length nd.ignore pre ie il → ImplStep g s p nd pre acts .plain ie il true true
  /-- StringStart: an ignore-expression run by `self.preParse(instring, 0)` (3759-3764) -/
  | stringStartIgnore {ie il} : nd.kind = .stringStart → pre ≠ 0 → nd.ignore.isEmpty = false →
      IgnCall p s.length nd.ignore 0 ie il → ImplStep g s p nd pre acts .plain ie il true true
  /-- SkipTo(include=True): the target parsed again, with actions, where the scan found it -/
  | skipInclude {e failOn ignorer t} : nd.kind = .skipTo e true failOn ignorer →
      PP.Parse.skipScan p s.length e failOn ignorer pre (s.length + 2) pre = .inr t →
      ImplStep g s p nd pre acts .plain e t acts false

theorem Tag.app_enh_eq (loc : Nat) (c : Exc) (l : Nat) :
    Tag.app (.enh loc) (c, l) = (c, if c = .syntax then l else if l == 0 then loc else l) := by
  cases c <;> simp [Tag.app]

theorem enhanceImpl_fail (p : P) (acts : Bool) (e loc : Nat) (c : Exc) (l : Nat)
    (hf : p e loc acts false = .fail c l) :
    enhanceImpl p acts (some e) loc = .fail (Tag.app (.enh loc) (c, l)).1 (Tag.app (.enh loc) (c, l)).2 := by
  cases c <;> simp [enhanceImpl, hf, Tag.app]

/-- **single step**: a failure of the callee in a propagating position leaves `parseImpl` as the failure `t.app`
    of it — provided it is fatal, or the position is behind an error stop -/
theorem implStep_fail {g : Grammar} {s : List Char} {p : P} {nd : Node} {pre : Nat} {acts : Bool}
    {t : Tag} {e l' : Nat} {acts' cp' : Bool} (h : ImplStep g s p nd pre acts t e l' acts' cp') (c : Exc) (l : Nat)
    (hf : p e l' acts' cp' = .fail c l) (hc : c.isFatal = true ∨ t = .afterStop) :
    parseImpl g p nd s pre acts = .fail (t.app (c, l)).1 (t.app (c, l)).2 := by
  have hcf : t ≠ .afterStop → c.isFatal = true := fun hn => hc.resolve_right hn
  cases h with
  | andFirst hk =>
    unfold parseImpl; simp [hk, andImpl, hf, Tag.app]
  | @andLater e0 pfx e post l0 ts0 stop l' acc hk h0 hpfx he =>
    have hrest := andRest_append p (isStopOf g) acts s.length (e :: post) pfx false l0 ts0 stop l' acc hpfx
    have : parseImpl g p nd s pre acts
        = andRest p (isStopOf g) acts s.length (pfx ++ e :: post) false l0 ts0 := by
      unfold parseImpl; simp only [hk, andImpl, h0]; rfl
    rw [this, hrest]
    cases stop with
    | true => simp [andRest, he, hf, Tag.app]
    | false => simp [andRest, he, hf, Tag.app]
  | @matchFirst pfx e post hk hsoft =>
    have hfat := hcf (by simp)
    have := matchfirst_never_swallows_fatal p acts s.length pre pfx e post none c l hsoft hf hfat
    unfold parseImpl; simp only [hk, this, Tag.app]
  | opt hk =>
    have hfat := hcf (by simp)
    simpa [Tag.app] using opt_never_swallows_fatal g p nd s pre acts _ _ c l hk hf hfat
  | @manyFirst e ne one hk hfirst =>
    have hfat := hcf (by simp)
    have hm : manyImpl p nd acts s.length e ne pre = .fail c l := by
      cases ne with
      | none => simp [manyImpl, hf]
      | some n =>
        obtain ⟨l1, ts1, h1⟩ := hfirst
        simp [manyImpl, h1, hf]
    cases one with
    | true => unfold parseImpl; simp [hk, hm, Tag.app]
    | false => simpa [Tag.app] using zeroOrMore_never_swallows_fatal g p nd s pre acts e ne c l hk hm hfat
  | @manyLater e ne one l0 ts0 k lq acc l' hk hfirst h0 hreach hs hpre =>
    have hfat := hcf (by simp)
    have hl := repetition_never_swallows_fatal p nd acts s.length e ne k lq l' acc c l hs hpre hf hfat
    have hm : manyImpl p nd acts s.length e ne pre = .fail c l := by
      rw [← hl, ← manyLoop_reach hreach]
      cases ne with
      | none => simp [manyImpl, h0]
      | some n =>
        obtain ⟨l1, ts1, h1⟩ := hfirst
        simp [manyImpl, h1, h0]
    cases one with
    | true => unfold parseImpl; simp [hk, hm, Tag.app]
    | false => simpa [Tag.app] using zeroOrMore_never_swallows_fatal g p nd s pre acts e ne c l hk hm hfat
  | group hk => unfold parseImpl; simp only [hk]; exact enhanceImpl_fail p acts _ pre c l hf
  | suppress hk => unfold parseImpl; simp only [hk]; exact enhanceImpl_fail p acts _ pre c l hf
  | combine hk => unfold parseImpl; simp only [hk]; exact enhanceImpl_fail p acts _ pre c l hf
  | enhance hk => unfold parseImpl; simp only [hk]; exact enhanceImpl_fail p acts _ pre c l hf
  | forward hk => unfold parseImpl; simp only [hk]; exact enhanceImpl_fail p acts _ pre c l hf
  | followedBy hk =>
    simpa [Tag.app] using followedBy_never_swallows g p nd s pre acts _ c l hk hf
  | located hk => unfold parseImpl; simp [hk, hf, Tag.app]
  | @manyIgnore e ne one l0 ts0 k lq acc ie il hk hfirst h0 hreach hs hne hig =>
    have hfat := hcf (by simp)
    have hpre : manyPre p nd s.length lq = .abort (.fail c l) := by
      simp only [manyPre, hne, Bool.false_eq_true, if_false]; exact skipIgnorables_fatal hig c l hf hfat
    have hl : manyLoop p nd acts s.length e ne (k + 1) lq acc = .fail c l := by
      cases c <;> simp [Exc.isFatal] at hfat <;> simp [manyLoop, hs, hpre]
    have hm : manyImpl p nd acts s.length e ne pre = .fail c l := by
      rw [← hl, ← manyLoop_reach hreach]
      cases ne with
      | none => simp [manyImpl, h0]
      | some n =>
        obtain ⟨l1, ts1, h1⟩ := hfirst
        simp [manyImpl, h1, h0]
    cases one with
    | true => unfold parseImpl; simp [hk, hm, Tag.app]
    | false => simpa [Tag.app] using zeroOrMore_never_swallows_fatal g p nd s pre acts e ne c l hk hm hfat
  | @skipScan e incl failOn ignorer k tmploc t hk hreach hle hfo hig =>
    have hfat := hcf (by simp)
    have hsc : PP.Parse.skipScan p s.length e failOn ignorer pre (s.length + 2) pre = .inl (.fail c l) := by
      rw [skipScan_reach pre hreach]
      simp only [PP.Parse.skipScan, hfo, hig, hf]
      rw [if_neg (by omega)]
      cases c <;> simp [Exc.isFatal] at hfat <;> rfl
    unfold parseImpl; simp [hk, skipToImpl, hsc, Tag.app]
  | @orBest es l' a l1 e rest hk hpre h1 hsort =>
    have hfat := hcf (by simp)
    have hne : a.cands.isEmpty = false := by
      cases hc' : a.cands with
      | nil => rw [hc'] at hsort; simp [sortDesc] at hsort
      | cons x xs => rfl
    have hor : orAt p (nameLenOf g) s.length acts es l' = .fail c l := by
      cases acts with
      | false => simp [orAt, h1, hne, hsort, hf]
      | true =>
        have : orPass2 p l' ((l1, e) :: rest) none a.mx = .inl (.fail c l) := by
          cases c <;> simp [Exc.isFatal] at hfat <;> simp [orPass2, orPass2.orStep, hf]
        simp [orAt, h1, hne, hsort, this]
    unfold parseImpl; simp only [hk, orImpl, hpre, hor, Tag.app]
  | @orLater es l' a loc1 e rest lg mx hk hacts hpre h1 hreach hg =>
    have hfat := hcf (by simp)
    subst hacts
    have hne : a.cands.isEmpty = false := by
      cases hc' : a.cands with
      | nil =>
        rw [hc'] at hreach; simp only [sortDesc] at hreach
        generalize hcs : ([] : List (Nat × Nat)) = cs at hreach
        cases hreach <;> cases hcs
      | cons x xs => rfl
    have h2 : orPass2 p l' (sortDesc a.cands) none a.mx = .inl (.fail c l) := by
      rw [orPass2_reach hreach, orPass2_guard _ _ _ _ _ _ _ hg]
      cases c <;> simp [Exc.isFatal] at hfat <;> simp [orPass2.orStep, hf]
    have hor : orAt p (nameLenOf g) s.length true es l' = .fail c l := by
      simp [orAt, h1, hne, h2]
    unfold parseImpl; simp only [hk, orImpl, hpre, hor, Tag.app]
  | @orIgnore es ie il hk hall hne hig =>
    have hfat := hcf (by simp)
    have := preParse_fatal (by intro x y h; rw [hk] at h; cases h) hne hig c l hf hfat
    unfold parseImpl; simp only [hk, orImpl, hall, if_true, this, Tag.app]
  | @stringStartIgnore ie il hk hp0 hne hig =>
    have hfat := hcf (by simp)
    have := preParse_fatal (by intro x y h; rw [hk] at h; cases h) hne hig c l hf hfat
    unfold parseImpl; simp [hk, hp0, this, Tag.app]
  | @skipInclude e failOn ignorer t hk hsc =>
    unfold parseImpl; simp [hk, skipToImpl, hsc, hf, Tag.app]

/-! ### algebra of `Tag.app` along a path (outermost container first) -/

theorem Tag.app_fatal (t : Tag) (c : Exc) (l : Nat) (hc : c.isFatal = true) :
    (t.app (c, l)).1.isFatal = true := by
  cases t <;> cases c <;> simp_all [Tag.app, Exc.isFatal]

theorem Tag.app_syntax (t : Tag) (l : Nat) : t.app (.syntax, l) = (.syntax, l) := by
  cases t <;> simp [Tag.app]

theorem Tag.app_class (t : Tag) (c : Exc) (l : Nat) :
    (t.app (c, l)).1 = c ∨ ((t.app (c, l)).1 = .syntax ∧ t = .afterStop) := by
  cases t <;> cases c <;> simp [Tag.app]

theorem Tag.app_loc (t : Tag) (c : Exc) (l : Nat) (h : c = .syntax ∨ l ≠ 0) : (t.app (c, l)).2 = l := by
  cases t <;> cases c <;> simp_all [Tag.app]

theorem Tag.foldr_syntax (ts : List Tag) (l : Nat) : ts.foldr Tag.app (.syntax, l) = (.syntax, l) := by
  induction ts with
  | nil => rfl
  | cons t ts ih => simp [List.foldr, ih, Tag.app_syntax]

theorem Tag.foldr_fatal (ts : List Tag) (c : Exc) (l : Nat) (hc : c.isFatal = true) :
    (ts.foldr Tag.app (c, l)).1.isFatal = true := by
  induction ts with
  | nil => exact hc
  | cons t ts ih => simp only [List.foldr]; exact Tag.app_fatal t _ _ ih

theorem Tag.foldr_class (ts : List Tag) (c : Exc) (l : Nat) :
    (ts.foldr Tag.app (c, l)).1 = c ∨ ((ts.foldr Tag.app (c, l)).1 = .syntax ∧ Tag.afterStop ∈ ts) := by
  induction ts with
  | nil => exact .inl rfl
  | cons t ts ih =>
    simp only [List.foldr]
    rcases Tag.app_class t (ts.foldr Tag.app (c, l)).1 (ts.foldr Tag.app (c, l)).2 with h | ⟨h, ht⟩
    · rcases ih with ih | ⟨ih, hm⟩
      · exact .inl (h.trans ih)
      · exact .inr ⟨h.trans ih, List.mem_cons_of_mem _ hm⟩
    · exact .inr ⟨h, ht ▸ List.mem_cons_self⟩

theorem Tag.foldr_loc (ts : List Tag) (c : Exc) (l : Nat) (h : c = .syntax ∨ l ≠ 0) :
    (ts.foldr Tag.app (c, l)).2 = l := by
  induction ts with
  | nil => rfl
  | cons t ts ih =>
    simp only [List.foldr]
    have := Tag.app_loc t (ts.foldr Tag.app (c, l)).1 (ts.foldr Tag.app (c, l)).2 (by
      rcases h with h | h
      · subst h; rw [Tag.foldr_syntax]; exact .inl rfl
      · exact .inr (by rw [ih]; exact h))
    rw [this, ih]

end PP.Parse
