import PPModel.Mod.ActionGate
/-!
Helper definitions and lemmas for C13 part 2 (model: `PPModel/Mod/ActionGate.lean`).
-/
namespace PP.ActionGate

mutual
/-- ids of the actions that are *allowed* to fire when `e` is parsed with `do_actions = da`:
    an action may fire when `da` or its element's `call_during_try`; the trial-matching positions (first pass of
    Or / Each, SkipTo's scan and fail_on, stop_on) count with `da = false` whatever the caller's `da`. -/
def firable : Bool → E → List Nat
  | _, .lit _ => []
  | da, .act as cdt e => (if da || cdt then as.map (·.id) else []) ++ firable da e
  | da, .seq a b => firable da a ++ firable da b
  | da, .alt a b => firable da a ++ firable da b
  | da, .or es => firableL false es ++ firableL da es
  | da, .each es => firableL false es ++ firableL da es
  | da, .skipTo t fo incl => firable false t ++ firableO false fo ++ (if incl then firable da t else [])
  | da, .many e st => firable da e ++ firableO false st
  | da, .star e st => firable da e ++ firableO false st
  | da, .opt e => firable da e
  | da, .followedBy e => firable da e
  | da, .notAny e => firable da e
def firableL : Bool → List E → List Nat
  | _, [] => []
  | da, e :: es => firable da e ++ firableL da es
def firableO : Bool → Option E → List Nat
  | _, none => []
  | da, some e => firable da e
end

mutual
/-- does some element inside `e` have `call_during_try` set? -/
def hasCdt : E → Bool
  | .lit _ => false
  | .act _ cdt e => cdt || hasCdt e
  | .seq a b => hasCdt a || hasCdt b
  | .alt a b => hasCdt a || hasCdt b
  | .or es => hasCdtL es
  | .each es => hasCdtL es
  | .skipTo t fo _ => hasCdt t || hasCdtO fo
  | .many e st => hasCdt e || hasCdtO st
  | .star e st => hasCdt e || hasCdtO st
  | .opt e => hasCdt e
  | .followedBy e => hasCdt e
  | .notAny e => hasCdt e
def hasCdtL : List E → Bool
  | [] => false
  | e :: es => hasCdt e || hasCdtL es
def hasCdtO : Option E → Bool
  | none => false
  | some e => hasCdt e
end

mutual
theorem firable_false_of_noCdt : ∀ e, hasCdt e = false → firable false e = []
  | .lit _, _ => by simp [firable]
  | .act _ cdt e, h => by
      simp [hasCdt] at h
      simp [firable, h.1, firable_false_of_noCdt e h.2]
  | .seq a b, h => by
      simp [hasCdt] at h
      simp [firable, firable_false_of_noCdt a h.1, firable_false_of_noCdt b h.2]
  | .alt a b, h => by
      simp [hasCdt] at h
      simp [firable, firable_false_of_noCdt a h.1, firable_false_of_noCdt b h.2]
  | .or es, h => by
      simp [hasCdt] at h
      simp [firable, firableL_false_of_noCdt es h]
  | .each es, h => by
      simp [hasCdt] at h
      simp [firable, firableL_false_of_noCdt es h]
  | .skipTo t fo incl, h => by
      simp [hasCdt] at h
      cases incl <;> simp [firable, firable_false_of_noCdt t h.1, firableO_false_of_noCdt fo h.2]
  | .many e st, h => by
      simp [hasCdt] at h
      simp [firable, firable_false_of_noCdt e h.1, firableO_false_of_noCdt st h.2]
  | .star e st, h => by
      simp [hasCdt] at h
      simp [firable, firable_false_of_noCdt e h.1, firableO_false_of_noCdt st h.2]
  | .opt e, h => by simp [hasCdt] at h; simp [firable, firable_false_of_noCdt e h]
  | .followedBy e, h => by simp [hasCdt] at h; simp [firable, firable_false_of_noCdt e h]
  | .notAny e, h => by simp [hasCdt] at h; simp [firable, firable_false_of_noCdt e h]
theorem firableL_false_of_noCdt : ∀ es, hasCdtL es = false → firableL false es = []
  | [], _ => by simp [firableL]
  | e :: es, h => by
      simp [hasCdtL] at h
      simp [firableL, firable_false_of_noCdt e h.1, firableL_false_of_noCdt es h.2]
theorem firableO_false_of_noCdt : ∀ o, hasCdtO o = false → firableO false o = []
  | none, _ => by simp [firableO]
  | some e, h => by simp [hasCdtO] at h; simp [firableO, firable_false_of_noCdt e h]
end

/-- every fired action of the trace has its id in `S` -/
def AllIn (tr : List Ev) (S : List Nat) : Prop := ∀ ev ∈ tr, ev.1 ∈ S

theorem AllIn.nil (S : List Nat) : AllIn [] S := fun _ h => by cases h
theorem AllIn.append {a b : List Ev} {S : List Nat} (ha : AllIn a S) (hb : AllIn b S) : AllIn (a ++ b) S :=
  fun ev h => by rcases List.mem_append.mp h with h | h; exact ha ev h; exact hb ev h
theorem AllIn.mono {a : List Ev} {S S' : List Nat} (ha : AllIn a S) (hs : ∀ x ∈ S, x ∈ S') : AllIn a S' :=
  fun ev h => hs _ (ha ev h)

/-- a parse function only fires what is firable -/
def Sound (p : P) : Prop := ∀ e loc da cp, AllIn (p e loc da cp).2 (firable da e)

/-- close goals `AllIn (a ++ b ++ …) S` from hypotheses about the pieces -/
macro "allin" : tactic =>
  `(tactic| repeat' (first | exact AllIn.nil _ | assumption | apply AllIn.append))

theorem mem_firableL {da : Bool} {e : E} {es : List E} {x : Nat} (he : e ∈ es) (hx : x ∈ firable da e) :
    x ∈ firableL da es := by
  induction es with
  | nil => cases he
  | cons a as ih =>
    simp only [firableL, List.mem_append]
    rcases List.mem_cons.mp he with h | h
    · subst h; exact Or.inl hx
    · exact Or.inr (ih h)

theorem firableL_mono {da : Bool} {xs es : List E} (hsub : ∀ e ∈ xs, e ∈ es) {x : Nat}
    (hx : x ∈ firableL da xs) : x ∈ firableL da es := by
  induction xs with
  | nil => simp [firableL] at hx
  | cons a as ih =>
    simp only [firableL, List.mem_append] at hx
    rcases hx with h | h
    · exact mem_firableL (hsub a (List.mem_cons_self ..)) h
    · exact ih (fun e he => hsub e (List.mem_cons_of_mem _ he)) h

theorem fireActs_ids (st en : Nat) (as : List Act) : AllIn (fireActs st en as).2 (as.map (·.id)) := by
  induction as with
  | nil => exact AllIn.nil _
  | cons a as ih =>
    intro ev h
    simp only [fireActs] at h
    cases hk : a.kind <;> simp only [hk] at h
    · simp only [List.mem_cons] at h
      rcases h with h | h
      · subst h; simp
      · simp only [List.map_cons, List.mem_cons]; exact Or.inr (ih ev h)
    all_goals
      simp only [List.mem_singleton] at h
      subst h; simp

theorem tryParse_sound {p : P} (hp : Sound p) (e : E) (loc : Nat) (rf : Bool) :
    AllIn (tryParse p e loc rf).2 (firable false e) := by
  have := hp e loc false true
  simp only [tryParse]
  repeat' split
  all_goals allin

theorem canParseNext_sound {p : P} (hp : Sound p) (e : E) (loc : Nat) (da : Bool) :
    AllIn (canParseNext p e loc da).2 (firable da e) := by
  have := hp e loc da true
  simp only [canParseNext]
  repeat' split
  all_goals allin

/-! ### Or -/

theorem orFirst_sound {p : P} (hp : Sound p) (loc : Nat) (es : List E) :
    AllIn (orFirst p loc es).tr (firableL false es) ∧ (∀ m ∈ (orFirst p loc es).ms, m.2 ∈ es) := by
  induction es with
  | nil => exact ⟨AllIn.nil _, by simp [orFirst]⟩
  | cons e es ih =>
    have ht : AllIn (tryParse p e loc true).2 (firableL false (e :: es)) :=
      (tryParse_sound hp e loc true).mono (fun x hx => by simp only [firableL, List.mem_append]; exact Or.inl hx)
    have hi : AllIn (orFirst p loc es).tr (firableL false (e :: es)) :=
      ih.1.mono (fun x hx => by simp only [firableL, List.mem_append]; exact Or.inr hx)
    have hm : ∀ m ∈ (orFirst p loc es).ms, m.2 ∈ e :: es := fun m h => List.mem_cons_of_mem _ (ih.2 m h)
    simp only [orFirst]
    split
    · refine ⟨by allin, fun m h => ?_⟩
      simp only [List.mem_cons] at h
      rcases h with h | h
      · subst h; simp
      · exact hm m h
    · exact ⟨by allin, hm⟩
    · exact ⟨by allin, hm⟩
    · exact ⟨by allin, fun m h => by cases h⟩

theorem mem_insertDesc {x y : Nat × E} {l : List (Nat × E)} (h : y ∈ insertDesc x l) : y = x ∨ y ∈ l := by
  induction l with
  | nil => simp [insertDesc] at h; exact Or.inl h
  | cons a as ih =>
    simp only [insertDesc] at h
    split at h
    · simp only [List.mem_cons] at h ⊢
      rcases h with h | h
      · exact Or.inr (Or.inl h)
      · rcases ih h with h | h
        · exact Or.inl h
        · exact Or.inr (Or.inr h)
    · simp only [List.mem_cons] at h ⊢
      exact h

theorem mem_sortDesc {y : Nat × E} {l : List (Nat × E)} (h : y ∈ sortDesc l) : y ∈ l := by
  induction l with
  | nil => simp [sortDesc] at h
  | cons a as ih =>
    simp only [sortDesc] at h
    rcases mem_insertDesc h with h | h
    · subst h; simp
    · exact List.mem_cons_of_mem _ (ih h)

theorem orSecond_sound {p : P} (hp : Sound p) (loc : Nat) (es : List E) (ms : List (Nat × E))
    (hms : ∀ m ∈ ms, m.2 ∈ es) (lg : Option Nat) :
    AllIn (orSecond p loc ms lg).2 (firableL true es) := by
  induction ms generalizing lg with
  | nil => simp only [orSecond]; exact AllIn.nil _
  | cons m rest ih =>
    obtain ⟨l1, e1⟩ := m
    have he1 : e1 ∈ es := hms (l1, e1) (List.mem_cons_self ..)
    have hrest : ∀ m ∈ rest, m.2 ∈ es := fun m h => hms m (List.mem_cons_of_mem _ h)
    have h1 : AllIn (p e1 loc true true).2 (firableL true es) :=
      (hp e1 loc true true).mono (fun x hx => mem_firableL he1 hx)
    have ih' := ih hrest
    simp only [orSecond]
    repeat' split
    all_goals first | (allin; done) | (apply AllIn.append h1; exact ih' _)

theorem orParse_sound {p : P} (hp : Sound p) (es : List E) (loc : Nat) (da : Bool) :
    AllIn (orParse p es loc da).2 (firableL false es ++ firableL da es) := by
  have hf := orFirst_sound hp loc es
  have hsorted : ∀ m ∈ sortDesc (orFirst p loc es).ms, m.2 ∈ es := fun m h => hf.2 m (mem_sortDesc h)
  have h0 : AllIn (orFirst p loc es).tr (firableL false es ++ firableL da es) :=
    hf.1.mono (fun x hx => List.mem_append.mpr (Or.inl hx))
  simp only [orParse]
  split
  · exact h0
  · split
    · rename_i l0 best tl heq
      have hbest : best ∈ es := hsorted (l0, best) (by rw [heq]; exact List.mem_cons_self ..)
      cases da with
      | false =>
        have hb : AllIn (p best loc false true).2 (firableL false es ++ firableL false es) :=
          (hp best loc false true).mono (fun x hx => List.mem_append.mpr (Or.inl (mem_firableL hbest hx)))
        simp only [Bool.not_false, if_true]
        allin
      | true =>
        have hsec : AllIn (orSecond p loc ((l0, best) :: tl) none).2 (firableL false es ++ firableL true es) :=
          (orSecond_sound hp loc es _ (by rw [← heq]; exact hsorted) none).mono
            (fun x hx => List.mem_append.mpr (Or.inr hx))
        simp only [Bool.not_true, Bool.false_eq_true, if_false]
        split
        · rename_i r tr heq2
          have : tr = (orSecond p loc ((l0, best) :: tl) none).2 := by rw [← heq, heq2]
          subst this; allin
        · rename_i tr heq2
          have : tr = (orSecond p loc ((l0, best) :: tl) none).2 := by rw [← heq, heq2]
          subst this; allin
    · exact h0

/-! ### Each -/

theorem eachSweep_sound {p : P} (hp : Sound p) (es : List E) (loc : Nat) :
    AllIn (eachSweep p es loc).tr (firableL false es) ∧
    (∀ e ∈ (eachSweep p es loc).matched, e ∈ es) ∧ (∀ e ∈ (eachSweep p es loc).remaining, e ∈ es) := by
  induction es generalizing loc with
  | nil => exact ⟨AllIn.nil _, by simp [eachSweep], by simp [eachSweep]⟩
  | cons e es ih =>
    have ht : AllIn (tryParse p e loc true).2 (firableL false (e :: es)) :=
      (tryParse_sound hp e loc true).mono (fun x hx => by simp only [firableL, List.mem_append]; exact Or.inl hx)
    have hi : ∀ l, AllIn (eachSweep p es l).tr (firableL false (e :: es)) := fun l =>
      (ih l).1.mono (fun x hx => by simp only [firableL, List.mem_append]; exact Or.inr hx)
    have hm : ∀ l, ∀ x ∈ (eachSweep p es l).matched, x ∈ e :: es :=
      fun l x h => List.mem_cons_of_mem _ ((ih l).2.1 x h)
    have hr : ∀ l, ∀ x ∈ (eachSweep p es l).remaining, x ∈ e :: es :=
      fun l x h => List.mem_cons_of_mem _ ((ih l).2.2 x h)
    simp only [eachSweep]
    split
    · refine ⟨AllIn.append ht (hi _), fun x h => ?_, hr _⟩
      rcases List.mem_cons.mp h with h | h
      · subst h; simp
      · exact hm _ x h
    · refine ⟨AllIn.append ht (hi _), hm _, fun x h => ?_⟩
      rcases List.mem_cons.mp h with h | h
      · subst h; simp
      · exact hr _ x h
    · refine ⟨AllIn.append ht (hi _), hm _, fun x h => ?_⟩
      rcases List.mem_cons.mp h with h | h
      · subst h; simp
      · exact hr _ x h
    · exact ⟨ht, (fun x h => by cases h), (fun x h => h)⟩

theorem eachLoop_sound {p : P} (hp : Sound p) (es0 : List E) (n : Nat) :
    ∀ (rem : List E) (loc : Nat) (order : List E), (∀ e ∈ rem, e ∈ es0) → (∀ e ∈ order, e ∈ es0) →
      AllIn (eachLoop p n rem loc order).2 (firableL false es0) ∧
      (∀ e ∈ (eachLoop p n rem loc order).1.2.1, e ∈ es0) := by
  induction n with
  | zero => intro rem loc order _ ho; exact ⟨AllIn.nil _, ho⟩
  | succ n ih =>
    intro rem loc order hr ho
    have hs := eachSweep_sound hp rem loc
    have htr : AllIn (eachSweep p rem loc).tr (firableL false es0) :=
      hs.1.mono (fun x hx => firableL_mono hr hx)
    have hord : ∀ e ∈ order ++ (eachSweep p rem loc).matched, e ∈ es0 := fun e h => by
      rcases List.mem_append.mp h with h | h
      · exact ho e h
      · exact hr e (hs.2.1 e h)
    have hrem : ∀ e ∈ (eachSweep p rem loc).remaining, e ∈ es0 := fun e h => hr e (hs.2.2 e h)
    have ih' := ih (eachSweep p rem loc).remaining (eachSweep p rem loc).loc _ hrem hord
    simp only [eachLoop]
    split
    · exact ⟨htr, ho⟩
    · split
      · exact ⟨htr, hord⟩
      · exact ⟨AllIn.append htr ih'.1, ih'.2⟩

theorem seqAll_sound {p : P} (hp : Sound p) (da : Bool) (es0 es : List E) (hsub : ∀ e ∈ es, e ∈ es0) (loc : Nat) :
    AllIn (seqAll p da es loc).2 (firableL da es0) := by
  induction es generalizing loc with
  | nil => exact AllIn.nil _
  | cons e es ih =>
    have h1 : AllIn (p e loc da true).2 (firableL da es0) :=
      (hp e loc da true).mono (fun x hx => mem_firableL (hsub e (List.mem_cons_self ..)) hx)
    have ih' := fun l => ih (fun x h => hsub x (List.mem_cons_of_mem _ h)) l
    simp only [seqAll]
    split
    · exact AllIn.append h1 (ih' _)
    · exact h1

theorem eachParse_sound {p : P} (hp : Sound p) (es : List E) (loc : Nat) (da : Bool) :
    AllIn (eachParse p es loc da).2 (firableL false es ++ firableL da es) := by
  have hl := eachLoop_sound hp es (es.length + 1) es loc [] (fun _ h => h) (fun _ h => by cases h)
  simp only [eachParse]
  split
  · rename_i x a b c tr heq
    rw [heq] at hl
    exact hl.1.mono (fun x hx => List.mem_append.mpr (Or.inl hx))
  · rename_i order rem fatals tr heq
    rw [heq] at hl
    have h0 : AllIn tr (firableL false es ++ firableL da es) :=
      hl.1.mono (fun x hx => List.mem_append.mpr (Or.inl hx))
    have h2 : AllIn (seqAll p da order loc).2 (firableL false es ++ firableL da es) :=
      (seqAll_sound hp da es order hl.2 loc).mono (fun x hx => List.mem_append.mpr (Or.inr hx))
    repeat' split
    all_goals allin

/-! ### SkipTo -/

theorem skipScan_sound {p : P} (hp : Sound p) (t : E) (fo : Option E) (n : Nat) :
    ∀ tmploc, AllIn (skipScan p t fo n tmploc).2 (firable false t ++ firableO false fo) := by
  induction n with
  | zero => intro _; exact AllIn.nil _
  | succ n ih =>
    intro tmploc
    have ht : AllIn (p t tmploc false false).2 (firable false t ++ firableO false fo) :=
      (hp t tmploc false false).mono (fun x hx => List.mem_append.mpr (Or.inl hx))
    have hfo : ∀ f, fo = some f → AllIn (canParseNext p f tmploc false).2 (firable false t ++ firableO false fo) :=
      fun f hf => (canParseNext_sound hp f tmploc false).mono
        (fun x hx => List.mem_append.mpr (Or.inr (by subst hf; exact hx)))
    have ih' := ih (tmploc + 1)
    simp only [skipScan]
    cases fo with
    | none =>
      simp only
      repeat' split
      all_goals allin
    | some f =>
      have hf := hfo f rfl
      simp only
      rcases hc : canParseNext p f tmploc false with ⟨⟨ob, rr⟩, trc⟩
      rw [hc] at hf
      cases ob with
      | none => simp only; exact hf
      | some b =>
        cases b with
        | true => simp only; exact hf
        | false =>
          simp only
          repeat' split
          all_goals allin

theorem skipToParse_sound {p : P} (hp : Sound p) (slen : Nat) (t : E) (fo : Option E) (incl : Bool)
    (loc : Nat) (da : Bool) :
    AllIn (skipToParse p slen t fo incl loc da).2
      (firable false t ++ firableO false fo ++ (if incl then firable da t else [])) := by
  have hs := skipScan_sound hp t fo (slen + 1 - loc) loc
  simp only [skipToParse]
  split
  · rename_i x l tr heq
    rw [heq] at hs
    exact hs.mono (fun x hx => List.mem_append.mpr (Or.inl hx))
  · rename_i tmploc tr heq
    rw [heq] at hs
    have h0 : AllIn tr (firable false t ++ firableO false fo ++ (if incl then firable da t else [])) :=
      hs.mono (fun x hx => List.mem_append.mpr (Or.inl hx))
    cases incl with
    | false => simpa using h0
    | true =>
      have h1 : AllIn (p t tmploc da false).2 (firable false t ++ firableO false fo ++ (if true then firable da t else [])) :=
        (hp t tmploc da false).mono (fun x hx => List.mem_append.mpr (Or.inr (by simpa using hx)))
      simp only [if_true] at h0 h1 ⊢
      allin

/-! ### OneOrMore / ZeroOrMore -/

theorem enderCheck_sound {p : P} (hp : Sound p) (st : Option E) (loc : Nat) :
    AllIn (enderCheck p st loc).2 (firableO false st) := by
  cases st with
  | none => exact AllIn.nil _
  | some en => exact canParseNext_sound hp en loc false

theorem manyLoop_sound {p : P} (hp : Sound p) (e : E) (st : Option E) (da : Bool) (n : Nat) :
    ∀ loc, AllIn (manyLoop p e st da n loc).2 (firable da e ++ firableO false st) := by
  induction n with
  | zero => intro _; exact AllIn.nil _
  | succ n ih =>
    intro loc
    have he : AllIn (p e loc da true).2 (firable da e ++ firableO false st) :=
      (hp e loc da true).mono (fun x hx => List.mem_append.mpr (Or.inl hx))
    have hc : AllIn (enderCheck p st loc).2 (firable da e ++ firableO false st) :=
      (enderCheck_sound hp st loc).mono (fun x hx => List.mem_append.mpr (Or.inr hx))
    simp only [manyLoop]
    rcases hq : enderCheck p st loc with ⟨⟨ob, rr⟩, trc⟩
    rw [hq] at hc
    cases ob with
    | none => simp only; exact hc
    | some b =>
      cases b with
      | true => simp only; exact hc
      | false =>
        simp only
        repeat' split
        all_goals first | (allin; done) | (apply AllIn.append (AllIn.append hc he); exact ih _)

theorem manyParse_sound {p : P} (hp : Sound p) (slen : Nat) (e : E) (st : Option E) (loc : Nat) (da : Bool) :
    AllIn (manyParse p slen e st loc da).2 (firable da e ++ firableO false st) := by
  have he : AllIn (p e loc da true).2 (firable da e ++ firableO false st) :=
    (hp e loc da true).mono (fun x hx => List.mem_append.mpr (Or.inl hx))
  have hc : AllIn (enderCheck p st loc).2 (firable da e ++ firableO false st) :=
    (enderCheck_sound hp st loc).mono (fun x hx => List.mem_append.mpr (Or.inr hx))
  have hl := manyLoop_sound hp e st da
  simp only [manyParse]
  rcases hq : enderCheck p st loc with ⟨⟨ob, rr⟩, trc⟩
  rw [hq] at hc
  cases ob with
  | none => simp only; exact hc
  | some b =>
    cases b with
    | true => simp only; exact hc
    | false =>
      simp only
      repeat' split
      all_goals first | (allin; done) | (apply AllIn.append (AllIn.append hc he); exact hl _ _)

/-! ### the whole parser -/

theorem parse_sound (s : List Char) : ∀ fuel, Sound (parse s fuel) := by
  intro fuel
  induction fuel with
  | zero => intro e loc da cp; exact AllIn.nil _
  | succ fuel ih =>
    intro e loc da cp
    cases e with
    | lit c => simp only [parse]; split <;> exact AllIn.nil _
    | act as cdt e' =>
      have h1 : AllIn (parse s fuel e' loc da cp).2 (firable da (.act as cdt e')) :=
        (ih e' loc da cp).mono (fun x hx => by simp only [firable, List.mem_append]; exact Or.inr hx)
      simp only [parse]
      split
      · split
        · rename_i hcond
          have hc : (da || cdt) = true := by
            simp only [Bool.and_eq_true] at hcond; exact hcond.2
          have h2 : ∀ a b, AllIn (fireActs a b as).2 (firable da (.act as cdt e')) := fun a b =>
            (fireActs_ids a b as).mono (fun x hx => by
              simp only [firable, hc, if_true, List.mem_append]; exact Or.inl hx)
          exact AllIn.append h1 (h2 _ _)
        · exact h1
      · exact h1
    | seq a b =>
      have ha : ∀ l c, AllIn (parse s fuel a l da c).2 (firable da (.seq a b)) := fun l c =>
        (ih a l da c).mono (fun x hx => by simp only [firable, List.mem_append]; exact Or.inl hx)
      have hb : ∀ l c, AllIn (parse s fuel b l da c).2 (firable da (.seq a b)) := fun l c =>
        (ih b l da c).mono (fun x hx => by simp only [firable, List.mem_append]; exact Or.inr hx)
      simp only [parse]
      split
      · exact AllIn.append (ha _ _) (hb _ _)
      · exact ha _ _
    | alt a b =>
      have ha : ∀ l c, AllIn (parse s fuel a l da c).2 (firable da (.alt a b)) := fun l c =>
        (ih a l da c).mono (fun x hx => by simp only [firable, List.mem_append]; exact Or.inl hx)
      have hb : ∀ l c, AllIn (parse s fuel b l da c).2 (firable da (.alt a b)) := fun l c =>
        (ih b l da c).mono (fun x hx => by simp only [firable, List.mem_append]; exact Or.inr hx)
      simp only [parse]
      split
      · exact AllIn.append (ha _ _) (hb _ _)
      · exact ha _ _
    | or es => simp only [parse, firable]; exact orParse_sound ih es _ da
    | each es => simp only [parse, firable]; exact eachParse_sound ih es _ da
    | skipTo t fo incl => simp only [parse, firable]; exact skipToParse_sound ih _ t fo incl _ da
    | many e' st => simp only [parse, firable]; exact manyParse_sound ih _ e' st _ da
    | star e' st =>
      have := manyParse_sound ih s.length e' st (preLoc s (.star e' st) loc cp) da
      simp only [parse, firable]
      split <;> exact this
    | opt e' =>
      have := ih e' (preLoc s (.opt e') loc cp) da false
      simp only [parse, firable]
      split <;> exact this
    | followedBy e' =>
      have := ih e' (preLoc s (.followedBy e') loc cp) da true
      simp only [parse, firable]
      split <;> exact this
    | notAny e' =>
      have := canParseNext_sound ih e' (preLoc s (.notAny e') loc cp) da
      simp only [parse, firable]
      repeat' split
      all_goals (rename_i heq; rw [heq] at this; exact this)

end PP.ActionGate
