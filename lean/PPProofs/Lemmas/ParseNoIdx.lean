import PPModel.Mod.Entry
/-!
# A raw `IndexError` never escapes `_parseNoCache`

`NoIdx p`: the sub-expression calls never let an IndexError out.  Every combinator then either converts an
IndexError (MatchFirst, Or, Opt, repetition, SkipTo, lookaheads) or has none to propagate; leaves raise one only by
indexing at `loc ≥ len(instring)`, which `_parseNoCache` converts (`pre_loc >= len_instring`, core.py:851-857).
-/
namespace PP.Parse

def NoIdx (p : P) : Prop := ∀ e loc a c, p e loc a c ≠ .idx

theorem tryParse_noIdx {p : P} (hp : NoIdx p) (e loc : Nat) (rf da : Bool) : tryParse p e loc rf da ≠ .idx := by
  unfold tryParse
  cases h : p e loc da true with
  | idx => exact absurd h (hp _ _ _ _)
  | ok l ts => simp
  | fail c l => simp only; split <;> simp
  | hang => simp

theorem ignoreOne_noIdx {p : P} (hp : NoIdx p) (e : Nat) :
    ∀ k loc found, (ignoreOne p e k loc found).1 ≠ .abort .idx := by
  intro k
  induction k with
  | zero => intro loc found; simp [ignoreOne]
  | succ k ih =>
    intro loc found
    unfold ignoreOne
    cases h : p e loc true true with
    | idx => exact absurd h (hp _ _ _ _)
    | ok l ts => simp only; split; simp; exact ih _ _
    | fail c l => cases c <;> simp
    | hang => simp

theorem ignorePass_noIdx {p : P} (hp : NoIdx p) (slen : Nat) :
    ∀ es loc found, (ignorePass p slen es loc found).1 ≠ .abort .idx := by
  intro es
  induction es with
  | nil => intro loc found; simp [ignorePass]
  | cons e es ih =>
    intro loc found
    unfold ignorePass
    have h1 := ignoreOne_noIdx hp e (slen + 2) loc found
    generalize ignoreOne p e (slen + 2) loc found = r at h1
    rcases r with ⟨r, f⟩
    cases r with
    | «at» l => exact ih _ _
    | abort o => exact h1

theorem skipIgnorables_noIdx {p : P} (hp : NoIdx p) (slen : Nat) (ign : List Nat) :
    ∀ k loc, skipIgnorables p slen ign k loc ≠ .abort .idx := by
  intro k
  induction k with
  | zero => intro loc; simp [skipIgnorables]
  | succ k ih =>
    intro loc
    unfold skipIgnorables
    have h1 := ignorePass_noIdx hp slen ign loc false
    generalize ignorePass p slen ign loc false = r at h1
    rcases r with ⟨r, f⟩
    cases r with
    | «at» l => simp only; split; simp; exact ih _
    | abort o => exact h1

theorem preParse_noIdx {p : P} (hp : NoIdx p) (nd : Node) (s : List Char) (loc : Nat) :
    preParse p nd s loc ≠ .abort .idx := by
  unfold preParse
  split
  · simp
  · by_cases hi : nd.ignore.isEmpty = true
    · simp [hi]
    · simp only [hi]
      have h1 := skipIgnorables_noIdx hp s.length nd.ignore (s.length + 2) loc
      generalize skipIgnorables p s.length nd.ignore (s.length + 2) loc = r at h1
      cases r with
      | «at» l => simp
      | abort o => exact h1

theorem andRest_noIdx {p : P} (hp : NoIdx p) (isStop : Nat → Bool) (acts : Bool) (slen : Nat) :
    ∀ es stop loc acc, andRest p isStop acts slen es stop loc acc ≠ .idx := by
  intro es
  induction es with
  | nil => intro _ _ _; simp [andRest]
  | cons e es ih =>
    intro stop loc acc
    unfold andRest
    split
    · exact ih _ _ _
    · cases h : p e loc acts true with
      | idx => exact absurd h (hp _ _ _ _)
      | ok l ts => exact ih _ _ _
      | fail c l => simp only; split <;> simp
      | hang => simp

theorem mfGo_noIdx (p : P) (acts : Bool) (slen loc : Nat) : ∀ es mx, mfGo p acts slen loc es mx ≠ .idx := by
  intro es
  induction es with
  | nil => intro mx; cases mx <;> simp [mfGo]
  | cons e es ih =>
    intro mx
    unfold mfGo
    cases h : p e loc acts true with
    | idx => exact ih _
    | ok l ts => simp
    | fail c l => cases c <;> first | exact ih _ | simp
    | hang => simp

theorem orPass2_noIdx {p : P} (hp : NoIdx p) (loc : Nat) :
    ∀ ms longest mx, orPass2 p loc ms longest mx ≠ .inl .idx := by
  intro ms
  induction ms with
  | nil => intro _ _; unfold orPass2; simp
  | cons m ms ih =>
    intro longest mx
    rcases m with ⟨loc1, e⟩
    have step : orPass2.orStep p loc loc1 e ms longest mx ≠ .inl .idx := by
      unfold orPass2.orStep
      cases h : p e loc true true with
      | idx => exact absurd h (hp _ _ _ _)
      | ok l2 ts => simp only; split; simp; exact ih _ _
      | fail c l => cases c <;> first | exact ih _ _ | simp
      | hang => simp
    unfold orPass2
    cases longest with
    | none => exact step
    | some ll => rcases ll with ⟨ll, lt⟩; simp only; split; simp; exact step

theorem orAt_noIdx {p : P} (hp : NoIdx p) (nameLen : Nat → Nat) (slen : Nat) (acts : Bool) (es : List Nat)
    (loc : Nat) : orAt p nameLen slen acts es loc ≠ .idx := by
  unfold orAt
  cases orPass1 p nameLen slen loc es {} with
  | none => simp
  | some a =>
    simp only
    split
    · unfold orAfter; split; simp; split <;> simp
    · split
      · split
        · exact hp _ _ _ _
        · simp
      · have h2 := orPass2_noIdx hp loc (sortDesc a.cands) none a.mx
        generalize orPass2 p loc (sortDesc a.cands) none a.mx = r at h2
        rcases r with o | ⟨lg, mx⟩
        · intro h; apply h2; simp at h; rw [h]
        · cases lg with
          | none => simp only; unfold orAfter; split; simp; split <;> simp
          | some ll => simp

theorem orImpl_noIdx {p : P} (hp : NoIdx p) (g : Grammar) (nd : Node) (s : List Char) (acts : Bool)
    (es : List Nat) (loc : Nat) : orImpl p g nd s acts es loc ≠ .idx := by
  unfold orImpl
  by_cases hall : es.all (callPreOf g) = true
  · simp only [hall, if_true]
    have h1 := preParse_noIdx hp nd s loc
    generalize preParse p nd s loc = r at h1
    cases r with
    | «at» l => exact orAt_noIdx hp _ _ _ _ _
    | abort o => intro h; apply h1; simp at h; rw [h]
  · simp only [hall]
    exact orAt_noIdx hp _ _ _ _ _

theorem manyLoop_noIdx {p : P} (hp : NoIdx p) (nd : Node) (acts : Bool) (slen e : Nat) (ne : Option Nat) :
    ∀ k loc acc, manyLoop p nd acts slen e ne k loc acc ≠ .idx := by
  intro k
  induction k with
  | zero => intro _ _; simp [manyLoop]
  | succ k ih =>
    intro loc acc
    unfold manyLoop
    cases stopCheck p ne loc with
    | none => simp
    | some b =>
      cases b with
      | true => simp
      | false =>
        simp only
        cases hm : manyPre p nd slen loc with
        | abort o => cases o <;> (try (rename_i c l; cases c)) <;> simp
        | «at» preloc =>
          simp only
          cases h : p e preloc acts true with
          | idx => exact absurd h (hp _ _ _ _)
          | ok l ts => simp only; split; simp; exact ih _ _
          | fail c l => cases c <;> simp
          | hang => simp

theorem manyImpl_noIdx {p : P} (hp : NoIdx p) (nd : Node) (acts : Bool) (slen e : Nat) (ne : Option Nat)
    (loc : Nat) : manyImpl p nd acts slen e ne loc ≠ .idx := by
  unfold manyImpl
  have body : (match p e loc acts true with
      | .ok l ts => manyLoop p nd acts slen e ne (slen + 2) l ts
      | o => o) ≠ .idx := by
    cases h : p e loc acts true with
    | idx => exact absurd h (hp _ _ _ _)
    | ok l ts => exact manyLoop_noIdx hp _ _ _ _ _ _ _ _
    | fail c l => simp
    | hang => simp
  cases ne with
  | none => exact body
  | some n =>
    simp only
    have ht := tryParse_noIdx hp n loc false false
    generalize tryParse p n loc false false = r at ht
    cases r with
    | ok l ts => exact body
    | fail c l => simp
    | idx => exact absurd rfl ht
    | hang => simp

theorem ignLoop_noIdx {p : P} (hp : NoIdx p) (i : Nat) : ∀ k t, ignLoop p i k t ≠ .inl .idx := by
  intro k
  induction k with
  | zero => intro t; simp [ignLoop]
  | succ k ih =>
    intro t
    unfold ignLoop
    have ht := tryParse_noIdx hp i t false false
    generalize tryParse p i t false false = r at ht
    cases r with
    | ok l ts => simp only; split; simp; exact ih _
    | fail c l => simp
    | idx => exact absurd rfl ht
    | hang => simp

theorem skipScan_noIdx {p : P} (hp : NoIdx p) (slen e : Nat) (fo ig : Option Nat) (loc0 : Nat) :
    ∀ k t, skipScan p slen e fo ig loc0 k t ≠ .inl .idx := by
  intro k
  induction k with
  | zero => intro t; simp [skipScan]
  | succ k ih =>
    intro t
    unfold skipScan
    split
    · simp
    · cases failOnCheck p fo t with
      | none => simp
      | some b =>
        cases b with
        | true => simp
        | false =>
          simp only
          have hi : ignStep p slen ig t ≠ .inl .idx := by
            unfold ignStep
            cases ig with
            | none => simp
            | some i => exact ignLoop_noIdx hp _ _ _
          generalize ignStep p slen ig t = r at hi
          cases r with
          | inl o => intro h; apply hi; simp at h; rw [h]
          | inr t' =>
            simp only
            cases h : p e t' false false with
            | idx => exact absurd h (hp _ _ _ _)
            | ok l ts => simp
            | fail c l => cases c <;> first | exact ih _ | simp
            | hang => simp

theorem skipToImpl_noIdx {p : P} (hp : NoIdx p) (s : List Char) (acts : Bool) (e : Nat) (incl : Bool)
    (fo ig : Option Nat) (loc : Nat) : skipToImpl p s acts e incl fo ig loc ≠ .idx := by
  unfold skipToImpl
  have hs := skipScan_noIdx hp s.length e fo ig loc (s.length + 2) loc
  generalize skipScan p s.length e fo ig loc (s.length + 2) loc = r at hs
  cases r with
  | inl o => intro h; apply hs; simp at h; rw [h]
  | inr t =>
    simp only
    split
    · cases h : p e t acts false with
      | idx => exact absurd h (hp _ _ _ _)
      | ok l ts => simp
      | fail c l => simp
      | hang => simp
    · simp

theorem enhanceImpl_noIdx {p : P} (hp : NoIdx p) (acts : Bool) (e : Option Nat) (loc : Nat) :
    enhanceImpl p acts e loc ≠ .idx := by
  unfold enhanceImpl
  cases e with
  | none => simp
  | some e =>
    simp only
    cases h : p e loc acts false with
    | idx => exact absurd h (hp _ _ _ _)
    | ok l ts => simp
    | fail c l => cases c <;> simp
    | hang => simp

end PP.Parse

namespace PP.Parse

theorem getElem?_none_ge {α} {l : List α} {i : Nat} (h : l[i]? = none) : i ≥ l.length := by
  simpa using h

theorem litImpl_idx {m s : List Char} {loc : Nat} (h : litImpl m s loc = .idx) : loc ≥ s.length := by
  unfold litImpl at h
  cases hs : s[loc]? with
  | none => exact getElem?_none_ge hs
  | some c => rw [hs] at h; simp only at h; split at h <;> simp at h

theorem lit1Impl_idx {ch : Char} {s : List Char} {loc : Nat} (h : lit1Impl ch s loc = .idx) : loc ≥ s.length := by
  unfold lit1Impl at h
  cases hs : s[loc]? with
  | none => exact getElem?_none_ge hs
  | some c => rw [hs] at h; simp only at h; split at h <;> simp at h

theorem caselessLitImpl_noIdx (mU ret s : List Char) (loc : Nat) : caselessLitImpl mU ret s loc ≠ .idx := by
  unfold caselessLitImpl; split <;> simp

theorem kwAfter_idx {m ident : List Char} {up : Char → Char} {s : List Char} {loc : Nat}
    (h : kwAfter m ident up s loc = .idx) : False := by
  unfold kwAfter at h
  split at h
  · simp at h
  · rename_i hlt
    cases hs : s[loc + m.length]? with
    | none => have := getElem?_none_ge hs; omega
    | some c => rw [hs] at h; simp only at h; split at h <;> simp at h

theorem kwTail_idx {m ident : List Char} {up : Char → Char} {s : List Char} {loc : Nat}
    (h : kwTail m ident up s loc = .idx) : loc ≥ s.length := by
  unfold kwTail at h
  split at h
  · exact (kwAfter_idx h).elim
  · rename_i h0
    cases hs : s[loc - 1]? with
    | none => have := getElem?_none_ge hs; omega
    | some c =>
      rw [hs] at h
      simp only at h
      split at h
      · simp at h
      · exact (kwAfter_idx h).elim

theorem keywordImpl_idx {m ident : List Char} {cl : Bool} {s : List Char} {loc : Nat}
    (h : keywordImpl m ident cl s loc = .idx) : loc ≥ s.length := by
  unfold keywordImpl at h
  split at h
  · split at h
    · exact kwTail_idx h
    · simp at h
  · cases hs : s[loc]? with
    | none => exact getElem?_none_ge hs
    | some c =>
      rw [hs] at h
      simp only at h
      split at h
      · exact kwTail_idx h
      · simp at h

theorem wordSlowImpl_idx {init body : List Char} {mn : Nat} {mx : Option Nat} {ms kw : Bool} {s : List Char}
    {loc : Nat} (h : wordSlowImpl init body mn mx ms kw s loc = .idx) : loc ≥ s.length := by
  unfold wordSlowImpl at h
  cases hs : s[loc]? with
  | none => exact getElem?_none_ge hs
  | some c =>
    rw [hs] at h
    exfalso
    revert h
    simp only
    repeat' split
    all_goals simp

theorem wordReImpl_noIdx (init body : List Char) (mn : Nat) (mx : Option Nat) (kw : Bool) (s : List Char)
    (loc : Nat) : wordReImpl init body mn mx kw s loc ≠ .idx := by
  unfold wordReImpl
  cases s[loc]? with
  | none => simp
  | some c =>
    simp only
    repeat' split
    all_goals simp

theorem charsNotInImpl_idx {notc : List Char} {mn : Nat} {mx : Option Nat} {s : List Char} {loc : Nat}
    (h : charsNotInImpl notc mn mx s loc = .idx) : loc ≥ s.length := by
  unfold charsNotInImpl at h
  cases hs : s[loc]? with
  | none => exact getElem?_none_ge hs
  | some c =>
    rw [hs] at h
    exfalso
    revert h
    simp only
    repeat' split
    all_goals simp

theorem stringEndImpl_noIdx (s : List Char) (loc : Nat) : stringEndImpl s loc ≠ .idx := by
  unfold stringEndImpl; split; simp; split <;> simp

theorem lineEndImpl_noIdx (s : List Char) (loc : Nat) : lineEndImpl s loc ≠ .idx := by
  unfold lineEndImpl
  split
  · split <;> simp
  · split <;> simp

theorem wordStartImpl_idx {cs s : List Char} {loc : Nat} (h : wordStartImpl cs s loc = .idx) :
    loc ≥ s.length := by
  unfold wordStartImpl at h
  split at h
  · simp at h
  · cases hs : s[loc - 1]? with
    | none => have := getElem?_none_ge hs; omega
    | some a =>
      rw [hs] at h
      simp only at h
      split at h
      · simp at h
      · cases hs2 : s[loc]? with
        | none => exact getElem?_none_ge hs2
        | some b => rw [hs2] at h; simp only at h; split at h <;> simp at h

theorem wordEndImpl_noIdx (cs s : List Char) (loc : Nat) : wordEndImpl cs s loc ≠ .idx := by
  unfold wordEndImpl
  split
  · rename_i hc
    simp at hc
    cases hs : s[loc]? with
    | none => have := getElem?_none_ge hs; omega
    | some a =>
      simp only
      split
      · simp
      · have : (if loc == 0 then s[s.length - 1]? else s[loc - 1]?) ≠ none := by
          split
          · simp; omega
          · simp; omega
        generalize (if loc == 0 then s[s.length - 1]? else s[loc - 1]?) = pr at this
        cases pr with
        | none => exact absurd rfl this
        | some b => simp only; split <;> simp
  · simp

end PP.Parse

namespace PP.Parse

/-- a raw IndexError leaves `parseImpl` only from a leaf indexing at or beyond the end of the string,
    or from an `And` with no elements (`self.exprs[0]`) -/
theorem parseImpl_idx {p : P} (hp : NoIdx p) (g : Grammar) (nd : Node) (s : List Char) (loc : Nat) (acts : Bool)
    (h : parseImpl g p nd s loc acts = .idx) : loc ≥ s.length ∨ nd.kind = .and [] := by
  unfold parseImpl at h
  cases hk : nd.kind <;> simp only [hk] at h
  case lit m => exact Or.inl (litImpl_idx h)
  case lit1 c => exact Or.inl (lit1Impl_idx h)
  case empty => simp at h
  case errorStop => simp at h
  case noMatch => simp at h
  case caselessLit mU ret => exact absurd h (caselessLitImpl_noIdx _ _ _ _)
  case keyword m i c => exact Or.inl (keywordImpl_idx h)
  case word i b mn mx ms kw re =>
    split at h
    · exact absurd h (wordReImpl_noIdx _ _ _ _ _ _ _)
    · exact Or.inl (wordSlowImpl_idx h)
  case charsNotIn n mn mx => exact Or.inl (charsNotInImpl_idx h)
  case stringStart =>
    split at h
    · simp at h
    · have h1 := preParse_noIdx hp nd s 0
      generalize preParse p nd s 0 = r at h h1
      cases r with
      | «at» l => simp only at h; split at h <;> simp at h
      | abort o => simp only at h; subst h; exact absurd rfl h1
  case stringEnd => exact absurd h (stringEndImpl_noIdx _ _)
  case lineStart w nl => split at h <;> simp at h
  case lineEnd => exact absurd h (lineEndImpl_noIdx _ _)
  case wordStart cs => exact Or.inl (wordStartImpl_idx h)
  case wordEnd cs => exact absurd h (wordEndImpl_noIdx _ _ _)
  case and es =>
    cases es with
    | nil => exact Or.inr rfl
    | cons e0 rest =>
      unfold andImpl at h
      simp only at h
      cases h0 : p e0 loc acts false with
      | idx => exact absurd h0 (hp _ _ _ _)
      | ok l ts => rw [h0] at h; exact absurd h (andRest_noIdx hp _ _ _ _ _ _ _)
      | fail c l => rw [h0] at h; simp at h
      | hang => rw [h0] at h; simp at h
  case matchFirst es => exact absurd h (mfGo_noIdx _ _ _ _ _ _)
  case or es => exact absurd h (orImpl_noIdx hp _ _ _ _ _ _)
  case opt e d =>
    cases h0 : p e loc acts false with
    | idx => exact absurd h0 (hp _ _ _ _)
    | ok l ts => rw [h0] at h; simp at h
    | fail c l => rw [h0] at h; cases c <;> simp at h
    | hang => rw [h0] at h; simp at h
  case many e ne one =>
    split at h
    · exact absurd h (manyImpl_noIdx hp _ _ _ _ _ _)
    · have hm := manyImpl_noIdx hp nd acts s.length e ne loc
      generalize manyImpl p nd acts s.length e ne loc = r at h hm
      cases r with
      | idx => exact absurd rfl hm
      | ok l ts => simp at h
      | fail c l => cases c <;> simp at h
      | hang => simp at h
  case notAny e =>
    cases hc : canParseNext p e loc acts with
    | none => rw [hc] at h; simp at h
    | some b => rw [hc] at h; cases b <;> simp at h
  case followedBy e =>
    cases h0 : p e loc acts true with
    | idx => exact absurd h0 (hp _ _ _ _)
    | ok l ts => rw [h0] at h; simp at h
    | fail c l => rw [h0] at h; simp at h
    | hang => rw [h0] at h; simp at h
  case located e =>
    cases h0 : p e loc acts false with
    | idx => exact absurd h0 (hp _ _ _ _)
    | ok l ts => rw [h0] at h; simp at h
    | fail c l => rw [h0] at h; simp at h
    | hang => rw [h0] at h; simp at h
  case group e => exact absurd h (enhanceImpl_noIdx hp _ _ _)
  case suppress e => exact absurd h (enhanceImpl_noIdx hp _ _ _)
  case combine e j => exact absurd h (enhanceImpl_noIdx hp _ _ _)
  case enhance e => exact absurd h (enhanceImpl_noIdx hp _ _ _)
  case forward e => exact absurd h (enhanceImpl_noIdx hp _ _ _)
  case skipTo e incl fo ig => exact absurd h (skipToImpl_noIdx hp _ _ _ _ _ _ _)

theorem runActs_noIdx : ∀ (as : List Act) (start e : Nat) (ts : List Tok), runActs as start e ts ≠ .idx := by
  intro as
  induction as with
  | nil => intro _ _ _; simp [runActs]
  | cons a as ih =>
    intro start e ts
    unfold runActs
    cases a <;> first | exact ih _ _ _ | simp

/-- grammars in which every (possibly empty) `And` has `mayIndexError` set — true of every And the constructor
    builds (`ParserElement.__init__` sets it, And never clears it for an empty list) -/
def WFIdx (g : Grammar) : Prop :=
  ∀ (id : Nat) (nd : Node), g[id]? = some nd → nd.kind = Kind.and [] → nd.mayIdx = true

theorem parseStep_noIdx (g : Grammar) (s : List Char) (hw : WFIdx g) {p : P} (hp : NoIdx p) :
    NoIdx (parseStep g s p) := by
  intro id loc a c
  unfold parseStep
  cases hg : g[id]? with
  | none => simp
  | some nd =>
    simp only
    have h1 : (if (c && nd.callPre) = true then preParse p nd s loc else PreR.at loc) ≠ .abort .idx := by
      split
      · exact preParse_noIdx hp _ _ _
      · simp
    generalize (if (c && nd.callPre) = true then preParse p nd s loc else PreR.at loc) = pr at h1
    cases pr with
    | abort o => intro h; apply h1; simp at h; rw [h]
    | «at» pre =>
      simp only
      cases hi : parseImpl g p nd s pre a with
      | idx =>
        simp only
        rcases parseImpl_idx hp g nd s pre a hi with hge | hand
        · have : (nd.mayIdx || decide (pre ≥ s.length)) = true := by simp [hge]
          simp [this]
        · have : (nd.mayIdx || decide (pre ≥ s.length)) = true := by simp [hw id nd hg hand]
          simp [this]
      | ok e ts =>
        simp only
        split
        · exact runActs_noIdx _ _ _ _
        · simp
      | fail c' l => simp
      | hang => simp

/-- **no IndexError escapes**: for every grammar (with the And-flag invariant), input, fuel and call -/
theorem parse_noIdx (g : Grammar) (s : List Char) (hw : WFIdx g) : ∀ f, NoIdx (parse g s f) := by
  intro f
  induction f with
  | zero => intro _ _ _ _; simp [parse]
  | succ f ih => exact parseStep_noIdx g s hw ih

end PP.Parse
