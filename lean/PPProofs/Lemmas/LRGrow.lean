import PPProofs.Lemmas.LRBody
import PPProofs.Lemmas.ParseAdv
/-!
# Generic facts about the growth loop: congruence on the values it ever stores, and commuting with a location fix-up
-/
namespace PP.Parse

/-- the loop only ever calls its body with the failure seed / earlier matches, and with `do_actions` only when it runs
    with actions itself -/
theorem growLoop_congr (body body' : Bool → Out → Out → Out) (acts : Bool) (loc : Nat)
    (h : ∀ a' pk ak, (a' = true → acts = true) → LRVal pk → LRVal ak → body a' pk ak = body' a' pk ak) :
    ∀ k pk ak, LRVal pk → LRVal ak → growLoop body acts loc k pk ak = growLoop body' acts loc k pk ak := by
  intro k
  induction k with
  | zero => intro pk ak _ _; rfl
  | succ k ih =>
    intro pk ak hpk hak
    unfold growLoop
    rw [h false pk ak (by intro h; cases h) hpk hak]
    cases body' false pk ak with
    | ok nl nt =>
      simp only
      by_cases hnb : notBetter nl loc pk = true
      · simp only [hnb, if_true]
      · simp only [hnb, if_false, Bool.false_eq_true]
        cases acts with
        | false => simp only [Bool.false_eq_true, if_false]; exact ih _ _ trivial hak
        | true =>
          simp only [if_true]
          rw [h true pk ak (fun _ => rfl) hpk hak]
          cases body' true pk ak with
          | ok al at' => exact ih _ _ trivial trivial
          | fail c l => rfl
          | idx => rfl
          | hang => rfl
    | fail c l => cases c <;> rfl
    | idx => rfl
    | hang => rfl

theorem enhFix_ok (pre e : Nat) (ts : List Tok) : enhFix pre (.ok e ts) = .ok e ts := rfl

theorem enhFix_seed (pre : Nat) : enhFix pre (.fail .parse pre) = .fail .parse pre := by
  by_cases h : pre = 0 <;> simp [enhFix, h]

/-- the fix-up of failure locations commutes with the loop (matches pass through it unchanged) -/
theorem growLoop_enhFix (body : Bool → Out → Out → Out) (acts : Bool) (loc pre : Nat) :
    ∀ k pk ak, enhFix pre pk = pk → enhFix pre ak = ak →
      growLoop (fun a pk ak => enhFix pre (body a pk ak)) acts loc k pk ak
        = enhFix pre (growLoop body acts loc k pk ak) := by
  intro k
  induction k with
  | zero => intro pk ak _ _; rfl
  | succ k ih =>
    intro pk ak hpk hak
    unfold growLoop
    cases hb : body false pk ak with
    | ok nl nt =>
      simp only [enhFix_ok]
      by_cases hnb : notBetter nl loc pk = true
      · simp only [hnb, if_true]
        cases acts
        · simpa using hpk.symm
        · simpa using hak.symm
      · simp only [hnb, if_false, Bool.false_eq_true]
        cases acts with
        | false => simp only [Bool.false_eq_true, if_false]; exact ih _ _ rfl hak
        | true =>
          simp only [if_true]
          cases hb2 : body true pk ak with
          | ok al at' => simp only [enhFix_ok]; exact ih _ _ rfl rfl
          | fail c l => cases c <;> rfl
          | idx => rfl
          | hang => rfl
    | fail c l =>
      cases c with
      | parse =>
        have e1 : enhFix pre (.fail .parse l) = .fail .parse (if l == 0 then pre else l) := rfl
        simp only [e1]
        cases pk with
        | ok pl pt =>
          simp only
          cases acts
          · rfl
          · simpa using hak.symm
        | fail c2 l2 => rfl
        | idx => rfl
        | hang => rfl
      | fatal => rfl
      | «syntax» => rfl
    | idx => rfl
    | hang => rfl

theorem iterLoop_ne_idx (tail : Bool → Nat → Out) (a : Bool) : ∀ k e acc, iterLoop tail a k e acc ≠ .idx := by
  intro k
  induction k with
  | zero => intro e acc h; cases h
  | succ k ih =>
    intro e acc
    unfold iterLoop
    cases tail a e with
    | ok e' ts' =>
      simp only
      by_cases hle : e' ≤ e
      · simp [hle]
      · simp only [hle, if_false]; exact ih _ _
    | fail c l => cases c <;> simp
    | idx => simp
    | hang => simp

theorem mfSecond_ne_idx (slen m : Nat) (o : Out) : mfSecond slen m o ≠ .idx := by
  cases o with
  | ok e ts => simp [mfSecond]
  | fail c l => cases c <;> simp [mfSecond]
  | idx => simp [mfSecond]
  | hang => simp [mfSecond]

theorem enhFix_ne_idx (pre : Nat) (o : Out) (h : o ≠ .idx) : enhFix pre o ≠ .idx := by
  cases o with
  | ok e ts => simp [enhFix]
  | fail c l => cases c <;> simp [enhFix]
  | idx => exact absurd rfl h
  | hang => simp [enhFix]

/-! ### discharging "a successful tail strictly advances": the tail starts with a single-character literal (the operator) -/

theorem lit1Impl_strict {c : Char} {s : List Char} {loc e : Nat} {ts : List Tok} (h : lit1Impl c s loc = .ok e ts) :
    loc < e := by
  unfold lit1Impl at h
  split at h
  · simp at h
  · split at h <;> simp at h; omega

theorem parse_lit1_strict (g : Grammar) (s : List Char) (f t : Nat) (nd : Node) (ch : Char)
    (hg : g[t]? = some nd) (hk : nd.kind = .lit1 ch) :
    ∀ loc a c e ts, parse g s (f + 1) t loc a c = .ok e ts → loc < e := by
  intro loc a c e ts h
  simp only [parse] at h
  unfold parseStep at h
  rw [hg] at h
  simp only at h
  split at h
  · rename_i o hpre; subst h
    split at hpre
    · have := preParse_abort (parse g s f) nd s loc _ hpre; simp [Out.isOk] at this
    · simp at hpre
  · rename_i pre hpre
    have hpl : loc ≤ pre := by
      split at hpre
      · exact preParse_ge (parse g s f) nd s loc pre hpre
      · simp at hpre; omega
    have hpi : parseImpl g (parse g s f) nd s pre a = lit1Impl ch s pre := by
      unfold parseImpl; rw [hk]
    rw [hpi] at h
    cases hi : lit1Impl ch s pre with
    | ok e' ts' =>
      rw [hi] at h
      simp only at h
      have he := lit1Impl_strict hi
      split at h
      · have := runActs_end _ _ _ _ _ _ h; omega
      · simp at h; omega
    | fail c' l => rw [hi] at h; simp at h
    | idx =>
      rw [hi] at h
      by_cases hc : (nd.mayIdx || decide (pre ≥ s.length)) = true <;> simp [hc] at h
    | hang => rw [hi] at h; simp at h

/-- if the first element of the tail strictly advances, so does the tail -/
theorem tailOf_strict (g : Grammar) (s : List Char) (f t0 : Nat) (rest : List Nat) (hns : isStopOf g t0 = false)
    (hfirst : ∀ loc a c e ts, parse g s f t0 loc a c = .ok e ts → loc < e) :
    ∀ a e e' ts', tailOf g s f (t0 :: rest) a e = .ok e' ts' → e < e' := by
  intro a e e' ts' h
  unfold tailOf andRest at h
  simp only [hns, Bool.false_eq_true, if_false] at h
  cases hp : parse g s f t0 e a true with
  | ok l tk =>
    rw [hp] at h
    have h1 := hfirst _ _ _ _ _ hp
    have h2 := andRest_adv (parse_adv g s f) _ _ _ _ _ _ _ _ _ h
    omega
  | fail c l => rw [hp] at h; simp at h
  | idx => rw [hp] at h; simp at h
  | hang => rw [hp] at h; simp at h

end PP.Parse
