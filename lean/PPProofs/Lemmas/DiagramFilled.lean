import PPProofs.Lemmas.DiagramLinks
/-! Helper lemmas for C20 (no_empty_placeholder): slots of partials only ever change from a placeholder
    to a reference once the partial's own conversion is over; a returning call leaves every partial it
    created filled. -/
namespace PP.Diagram

def Slot.isRef : Slot → Bool
  | .ref _ => true
  | _ => false

/-- no `None` / `""` placeholder in the keyword arguments of the partial -/
def Kw.filled : Kw → Bool
  | .leaf => true
  | .item v => v.isRef
  | .items l => l.all Slot.isRef

def SlotsLe (l m : List Slot) : Prop :=
  l.length = m.length ∧
    ∀ (j : Nat) (v : Slot), l[j]? = some v → v.isRef = true → ∃ w : Slot, m[j]? = some w ∧ w.isRef = true

def KwLe : Kw → Kw → Prop
  | .leaf, .leaf => True
  | .item v, .item w => v.isRef = true → w.isRef = true
  | .items l, .items m => SlotsLe l m
  | _, _ => False

theorem SlotsLe.refl (l : List Slot) : SlotsLe l l := ⟨rfl, fun _ v h hv => ⟨v, h, hv⟩⟩

theorem SlotsLe.trans {a b c : List Slot} (h1 : SlotsLe a b) (h2 : SlotsLe b c) : SlotsLe a c := by
  refine ⟨h1.1.trans h2.1, ?_⟩
  intro j v hv hr
  obtain ⟨w, hw, hwr⟩ := h1.2 j v hv hr
  exact h2.2 j w hw hwr

theorem KwLe.refl (a : Kw) : KwLe a a := by
  cases a with
  | leaf => trivial
  | item v => exact fun h => h
  | items l => exact SlotsLe.refl l

theorem KwLe.trans {a b c : Kw} (h1 : KwLe a b) (h2 : KwLe b c) : KwLe a c := by
  cases a <;> cases b <;> cases c <;> simp only [KwLe] at h1 h2 ⊢
  · exact fun h => h2 (h1 h)
  · exact h1.trans h2

theorem SlotsLe_all {l m : List Slot} (h : SlotsLe l m) (hl : l.all Slot.isRef = true) :
    m.all Slot.isRef = true := by
  rw [List.all_eq_true] at hl ⊢
  intro x hx
  obtain ⟨j, hj, rfl⟩ := List.mem_iff_getElem.mp hx
  have hj' : j < l.length := by rw [h.1]; exact hj
  obtain ⟨w, hw, hwr⟩ := h.2 j l[j] (List.getElem?_eq_getElem hj') (hl _ (List.getElem_mem hj'))
  rw [List.getElem?_eq_getElem hj] at hw
  simp only [Option.some.injEq] at hw
  rw [hw]; exact hwr

theorem KwLe_filled {a b : Kw} (h : KwLe a b) (ha : a.filled = true) : b.filled = true := by
  cases a <;> cases b <;> simp only [KwLe] at h
  · rfl
  · exact h ha
  · exact SlotsLe_all h ha

/-- every partial of `s` is still there in `s'`, with the same shape and no reference lost -/
def Mono (s s' : St) : Prop :=
  ∀ (i : Nat) (a : PNode), s.heap[i]? = some a → ∃ b : PNode, s'.heap[i]? = some b ∧ KwLe a.kw b.kw

/-- every partial of `s'` at position ≥ n is filled -/
def NewFilled (n : Nat) (s' : St) : Prop :=
  ∀ (j : Nat) (b : PNode), n ≤ j → s'.heap[j]? = some b → b.kw.filled = true

/-- heap step: no partial is lost or un-filled, every new partial is filled -/
def HS (s s' : St) : Prop := s.heap.length ≤ s'.heap.length ∧ Mono s s' ∧ NewFilled s.heap.length s'

theorem Mono.refl (s : St) : Mono s s := fun _ a h => ⟨a, h, KwLe.refl _⟩

theorem Mono.trans {a b c : St} (h1 : Mono a b) (h2 : Mono b c) : Mono a c := by
  intro i x hx
  obtain ⟨y, hy, hxy⟩ := h1 i x hx
  obtain ⟨z, hz, hyz⟩ := h2 i y hy
  exact ⟨z, hz, hxy.trans hyz⟩

theorem Mono_heap_eq {s s' : St} (h : s'.heap = s.heap) : Mono s s' := by
  intro i a ha; exact ⟨a, by rw [h]; exact ha, KwLe.refl _⟩

theorem HS.refl (s : St) : HS s s :=
  ⟨Nat.le_refl _, Mono.refl s, fun j b hj hb => by
    have := (List.getElem?_eq_some_iff.mp hb).1
    omega⟩

theorem HS_heap_eq {s s' : St} (h : s'.heap = s.heap) : HS s s' := by
  refine ⟨by rw [h]; exact Nat.le_refl _, Mono_heap_eq h, fun j b hj hb => ?_⟩
  rw [h] at hb
  have := (List.getElem?_eq_some_iff.mp hb).1
  omega

theorem HS.trans {a b c : St} (h1 : HS a b) (h2 : HS b c) : HS a c := by
  refine ⟨Nat.le_trans h1.1 h2.1, h1.2.1.trans h2.2.1, ?_⟩
  intro j x hj hx
  by_cases hjb : j < b.heap.length
  · obtain ⟨y, hy, hyx⟩ := h2.2.1 j b.heap[j] (List.getElem?_eq_getElem hjb)
    rw [hx] at hy
    simp only [Option.some.injEq] at hy
    subst hy
    exact KwLe_filled hyx (h1.2.2 j _ hj (List.getElem?_eq_getElem hjb))
  · exact h2.2.2 j x (by omega) hx

theorem HS_alloc (s : St) (pn : PNode) (hf : pn.kw.filled = true) : HS s (s.alloc pn).2 := by
  refine ⟨by simp [St.alloc], ?_, ?_⟩
  · intro i a ha
    refine ⟨a, ?_, KwLe.refl _⟩
    simp only [St.alloc]
    rw [List.getElem?_append_left (List.getElem?_eq_some_iff.mp ha).1]; exact ha
  · intro j b hj hb
    simp only [St.alloc] at hb
    rw [List.getElem?_append_right hj] at hb
    have : j - s.heap.length = 0 := by
      have := (List.getElem?_eq_some_iff.mp hb).1
      simp at this; omega
    rw [this] at hb
    simp only [List.getElem?_cons_zero, Option.some.injEq] at hb
    rw [← hb]; exact hf

theorem Mono_alloc (s : St) (pn : PNode) : Mono s (s.alloc pn).2 := by
  intro i a ha
  refine ⟨a, ?_, KwLe.refl _⟩
  simp only [St.alloc]
  rw [List.getElem?_append_left (List.getElem?_eq_some_iff.mp ha).1]; exact ha

theorem setKw_get (s : St) (r : Nat) (kw : Kw) (i : Nat) :
    (s.setKw r kw).heap[i]? = if r = i then (s.heap[i]?).map (fun n => { n with kw := kw }) else s.heap[i]? := by
  by_cases h : r = i <;> simp [St.setKw, List.getElem?_modify, h]

/-- a monotone update of one partial -/
theorem HS_setKw (s : St) (r : Nat) (kw : Kw) (h : ∀ a, s.heap[r]? = some a → KwLe a.kw kw) :
    HS s (s.setKw r kw) := by
  refine ⟨by simp [St.setKw], ?_, ?_⟩
  · intro i a ha
    rw [setKw_get]
    by_cases hr : r = i
    · subst hr
      simp only [if_true, ha, Option.map_some]
      exact ⟨_, rfl, h a ha⟩
    · simp only [hr, if_false]
      exact ⟨a, ha, KwLe.refl _⟩
  · intro j b hj hb
    have := (List.getElem?_eq_some_iff.mp hb).1
    simp [St.setKw] at this
    omega

theorem node_of_get {s : St} {r : Nat} {a : PNode} (h : s.heap[r]? = some a) : s.node r = a := by
  simp [St.node, List.getD_eq_getElem?_getD, h]

theorem node_kw_absent {s : St} {r : Nat} (h : s.heap[r]? = none) : (s.node r).kw = .leaf := by
  simp [St.node, List.getD_eq_getElem?_getD, h]

theorem SlotsLe_set (l : List Slot) (i r : Nat) : SlotsLe l (l.set i (.ref r)) := by
  refine ⟨by simp, ?_⟩
  intro j v hv hr
  rw [List.getElem?_set]
  split
  · split
    · exact ⟨_, rfl, rfl⟩
    · rename_i h1 h2
      have := (List.getElem?_eq_some_iff.mp hv).1
      omega
  · exact ⟨v, hv, hr⟩

theorem HS_putChild (s : St) (p i r : Nat) : HS s (s.putChild p i (.ref r)) := by
  unfold St.putChild
  cases hp : s.heap[p]? with
  | none =>
    rw [node_kw_absent hp]
    exact HS.refl s
  | some a =>
    rw [node_of_get hp]
    cases hk : a.kw with
    | leaf => exact HS.refl s
    | item v =>
      refine HS_setKw s p _ ?_
      intro a' ha'
      rw [hp] at ha'; simp only [Option.some.injEq] at ha'; subst ha'
      rw [hk]; exact fun _ => rfl
    | items l =>
      refine HS_setKw s p _ ?_
      intro a' ha'
      rw [hp] at ha'; simp only [Option.some.injEq] at ha'; subst ha'
      rw [hk]; exact SlotsLe_set l i r

theorem HS_newNT (s : St) (t : String) : HS s (newNT s t).2 := HS_alloc s _ rfl

theorem HS_exNT (s : St) (pos : EState) : HS s (exNT s pos) := by
  unfold exNT
  split
  · exact (HS_newNT s _).trans (HS_putChild _ _ _ _)
  · exact HS.refl s

theorem HS_extract (s : St) (el : Nat) : HS s (extractIntoDiagram s el) := by
  cases hl : aget s.lookup el with
  | none => rw [extract_none s el hl]; exact HS.refl s
  | some pos =>
    obtain ⟨c, e⟩ := extract_eq s el pos hl
    rw [e]
    exact (HS_exNT s pos).trans (HS_heap_eq rfl)

theorem HS_mark (g : Grammar) (s : St) (el : Nat) (name : Option String) (f : Bool) :
    HS s (markForExtraction g s el name f) := by
  cases hl : aget s.lookup el with
  | none =>
    have e : markForExtraction g s el name f = s := by
      unfold markForExtraction; simp only [hl]
    rw [e]; exact HS.refl s
  | some st =>
    rw [mark_eq g s el name f st hl]
    split
    · exact HS.trans (b := setL s s.index el { st with extract := true, name := markName g st el name })
        (HS_heap_eq rfl) (HS_extract _ el)
    · exact HS_heap_eq rfl

end PP.Diagram
