import PPProofs.Lemmas.DiagramLinks
/-! Helper lemmas for C20 (no_empty_placeholder): slots of partials only ever change from a placeholder
    to a reference once the partial's own conversion is over; a returning call leaves every partial it
    created filled. -/
namespace PP.Diagram

def Slot.isRef : Slot → Bool
  | .ref _ => true
  | _ => false

/-- no `None` / `""` placeholder in the keyword arguments of the partial -/
def Kw.filled : Kw → Bool
  | .leaf => true
  | .item v => v.isRef
  | .items l => l.all Slot.isRef

def SlotsLe (l m : List Slot) : Prop :=
  l.length = m.length ∧
    ∀ (j : Nat) (v : Slot), l[j]? = some v → v.isRef = true → ∃ w : Slot, m[j]? = some w ∧ w.isRef = true

def KwLe : Kw → Kw → Prop
  | .leaf, .leaf => True
  | .item v, .item w => v.isRef = true → w.isRef = true
  | .items l, .items m => SlotsLe l m
  | _, _ => False

theorem SlotsLe.refl (l : List Slot) : SlotsLe l l := ⟨rfl, fun _ v h hv => ⟨v, h, hv⟩⟩

theorem SlotsLe.trans {a b c : List Slot} (h1 : SlotsLe a b) (h2 : SlotsLe b c) : SlotsLe a c := by
  refine ⟨h1.1.trans h2.1, ?_⟩
  intro j v hv hr
  obtain ⟨w, hw, hwr⟩ := h1.2 j v hv hr
  exact h2.2 j w hw hwr

theorem KwLe.refl (a : Kw) : KwLe a a := by
  cases a with
  | leaf => trivial
  | item v => exact fun h => h
  | items l => exact SlotsLe.refl l

theorem KwLe.trans {a b c : Kw} (h1 : KwLe a b) (h2 : KwLe b c) : KwLe a c := by
  cases a <;> cases b <;> cases c <;> simp only [KwLe] at h1 h2 ⊢
  · exact fun h => h2 (h1 h)
  · exact h1.trans h2

theorem SlotsLe_all {l m : List Slot} (h : SlotsLe l m) (hl : l.all Slot.isRef = true) :
    m.all Slot.isRef = true := by
  rw [List.all_eq_true] at hl ⊢
  intro x hx
  obtain ⟨j, hj, rfl⟩ := List.mem_iff_getElem.mp hx
  have hj' : j < l.length := by rw [h.1]; exact hj
  obtain ⟨w, hw, hwr⟩ := h.2 j l[j] (List.getElem?_eq_getElem hj') (hl _ (List.getElem_mem hj'))
  rw [List.getElem?_eq_getElem hj] at hw
  simp only [Option.some.injEq] at hw
  rw [hw]; exact hwr

theorem KwLe_filled {a b : Kw} (h : KwLe a b) (ha : a.filled = true) : b.filled = true := by
  cases a <;> cases b <;> simp only [KwLe] at h
  · rfl
  · exact h ha
  · exact SlotsLe_all h ha

/-- every partial of `s` is still there in `s'`, with the same shape and no reference lost -/
def Mono (s s' : St) : Prop :=
  ∀ (i : Nat) (a : PNode), s.heap[i]? = some a → ∃ b : PNode, s'.heap[i]? = some b ∧ KwLe a.kw b.kw

/-- every partial of `s'` at position ≥ n is filled -/
def NewFilled (n : Nat) (s' : St) : Prop :=
  ∀ (j : Nat) (b : PNode), n ≤ j → s'.heap[j]? = some b → b.kw.filled = true

/-- heap step: no partial is lost or un-filled, every new partial is filled -/
def HS (s s' : St) : Prop := s.heap.length ≤ s'.heap.length ∧ Mono s s' ∧ NewFilled s.heap.length s'

theorem Mono.refl (s : St) : Mono s s := fun _ a h => ⟨a, h, KwLe.refl _⟩

theorem Mono.trans {a b c : St} (h1 : Mono a b) (h2 : Mono b c) : Mono a c := by
  intro i x hx
  obtain ⟨y, hy, hxy⟩ := h1 i x hx
  obtain ⟨z, hz, hyz⟩ := h2 i y hy
  exact ⟨z, hz, hxy.trans hyz⟩

theorem Mono_heap_eq {s s' : St} (h : s'.heap = s.heap) : Mono s s' := by
  intro i a ha; exact ⟨a, by rw [h]; exact ha, KwLe.refl _⟩

theorem HS.refl (s : St) : HS s s :=
  ⟨Nat.le_refl _, Mono.refl s, fun j b hj hb => by
    have := (List.getElem?_eq_some_iff.mp hb).1
    omega⟩

theorem HS_heap_eq {s s' : St} (h : s'.heap = s.heap) : HS s s' := by
  refine ⟨by rw [h]; exact Nat.le_refl _, Mono_heap_eq h, fun j b hj hb => ?_⟩
  rw [h] at hb
  have := (List.getElem?_eq_some_iff.mp hb).1
  omega

theorem HS.trans {a b c : St} (h1 : HS a b) (h2 : HS b c) : HS a c := by
  refine ⟨Nat.le_trans h1.1 h2.1, h1.2.1.trans h2.2.1, ?_⟩
  intro j x hj hx
  by_cases hjb : j < b.heap.length
  · obtain ⟨y, hy, hyx⟩ := h2.2.1 j b.heap[j] (List.getElem?_eq_getElem hjb)
    rw [hx] at hy
    simp only [Option.some.injEq] at hy
    subst hy
    exact KwLe_filled hyx (h1.2.2 j _ hj (List.getElem?_eq_getElem hjb))
  · exact h2.2.2 j x (by omega) hx

theorem HS_alloc (s : St) (pn : PNode) (hf : pn.kw.filled = true) : HS s (s.alloc pn).2 := by
  refine ⟨by simp [St.alloc], ?_, ?_⟩
  · intro i a ha
    refine ⟨a, ?_, KwLe.refl _⟩
    simp only [St.alloc]
    rw [List.getElem?_append_left (List.getElem?_eq_some_iff.mp ha).1]; exact ha
  · intro j b hj hb
    simp only [St.alloc] at hb
    rw [List.getElem?_append_right hj] at hb
    have : j - s.heap.length = 0 := by
      have := (List.getElem?_eq_some_iff.mp hb).1
      simp at this; omega
    rw [this] at hb
    simp only [List.getElem?_cons_zero, Option.some.injEq] at hb
    rw [← hb]; exact hf

theorem Mono_alloc (s : St) (pn : PNode) : Mono s (s.alloc pn).2 := by
  intro i a ha
  refine ⟨a, ?_, KwLe.refl _⟩
  simp only [St.alloc]
  rw [List.getElem?_append_left (List.getElem?_eq_some_iff.mp ha).1]; exact ha

theorem setKw_get (s : St) (r : Nat) (kw : Kw) (i : Nat) :
    (s.setKw r kw).heap[i]? = if r = i then (s.heap[i]?).map (fun n => { n with kw := kw }) else s.heap[i]? := by
  by_cases h : r = i <;> simp [St.setKw, List.getElem?_modify, h]

/-- a monotone update of one partial -/
theorem HS_setKw (s : St) (r : Nat) (kw : Kw) (h : ∀ a, s.heap[r]? = some a → KwLe a.kw kw) :
    HS s (s.setKw r kw) := by
  refine ⟨by simp [St.setKw], ?_, ?_⟩
  · intro i a ha
    rw [setKw_get]
    by_cases hr : r = i
    · subst hr
      simp only [if_true, ha, Option.map_some]
      exact ⟨_, rfl, h a ha⟩
    · simp only [hr, if_false]
      exact ⟨a, ha, KwLe.refl _⟩
  · intro j b hj hb
    have := (List.getElem?_eq_some_iff.mp hb).1
    simp [St.setKw] at this
    omega

theorem node_of_get {s : St} {r : Nat} {a : PNode} (h : s.heap[r]? = some a) : s.node r = a := by
  simp [St.node, List.getD_eq_getElem?_getD, h]

theorem node_kw_absent {s : St} {r : Nat} (h : s.heap[r]? = none) : (s.node r).kw = .leaf := by
  simp [St.node, List.getD_eq_getElem?_getD, h]

theorem SlotsLe_set (l : List Slot) (i r : Nat) : SlotsLe l (l.set i (.ref r)) := by
  refine ⟨by simp, ?_⟩
  intro j v hv hr
  rw [List.getElem?_set]
  split
  · split
    · exact ⟨_, rfl, rfl⟩
    · rename_i h1 h2
      have := (List.getElem?_eq_some_iff.mp hv).1
      omega
  · exact ⟨v, hv, hr⟩

theorem HS_putChild (s : St) (p i r : Nat) : HS s (s.putChild p i (.ref r)) := by
  unfold St.putChild
  cases hp : s.heap[p]? with
  | none =>
    rw [node_kw_absent hp]
    exact HS.refl s
  | some a =>
    rw [node_of_get hp]
    cases hk : a.kw with
    | leaf => exact HS.refl s
    | item v =>
      refine HS_setKw s p _ ?_
      intro a' ha'
      rw [hp] at ha'; simp only [Option.some.injEq] at ha'; subst ha'
      rw [hk]; exact fun _ => rfl
    | items l =>
      refine HS_setKw s p _ ?_
      intro a' ha'
      rw [hp] at ha'; simp only [Option.some.injEq] at ha'; subst ha'
      rw [hk]; exact SlotsLe_set l i r

theorem HS_newNT (s : St) (t : String) : HS s (newNT s t).2 := HS_alloc s _ rfl

theorem HS_exNT (s : St) (pos : EState) : HS s (exNT s pos) := by
  unfold exNT
  split
  · exact (HS_newNT s _).trans (HS_putChild _ _ _ _)
  · exact HS.refl s

theorem HS_extract (s : St) (el : Nat) : HS s (extractIntoDiagram s el) := by
  cases hl : aget s.lookup el with
  | none => rw [extract_none s el hl]; exact HS.refl s
  | some pos =>
    obtain ⟨c, e⟩ := extract_eq s el pos hl
    rw [e]
    exact (HS_exNT s pos).trans (HS_heap_eq rfl)

theorem HS_mark (g : Grammar) (s : St) (el : Nat) (name : Option String) (f : Bool) :
    HS s (markForExtraction g s el name f) := by
  cases hl : aget s.lookup el with
  | none =>
    have e : markForExtraction g s el name f = s := by
      unfold markForExtraction; simp only [hl]
    rw [e]; exact HS.refl s
  | some st =>
    rw [mark_eq g s el name f st hl]
    split
    · exact HS.trans (b := setL s s.index el { st with extract := true, name := markName g st el name })
        (HS_heap_eq rfl) (HS_extract _ el)
    · exact HS_heap_eq rfl

/-! ### the hypothesis: every element draws something -/

/-- the element is shown, its children exist, `dispatch` creates a partial for it, and a one-item
    wrapper has a child to put into the item -/
def drawOK (g : Grammar) (o : Opts) (n : Node) : Bool :=
  (n.shown || o.showHidden) && n.kids.all (fun c => decide (c < g.length)) &&
  (match dispatch g o n "" with
   | none => false
   | some pn => match pn.kw with
     | .item _ => !n.kids.isEmpty
     | _ => true)

def drawsAll (g : Grammar) (o : Opts) : Bool := g.all (drawOK g o)

theorem dispatch_kw_name (g : Grammar) (o : Opts) (n : Node) (name : String) :
    (dispatch g o n name).map (·.kw) = (dispatch g o n "").map (·.kw) := by
  unfold dispatch
  simp only [apply_ite (Option.map (fun (p : PNode) => p.kw))]
  simp

def kwShapeOK : Option PNode → Bool
  | none => true
  | some pn => match pn.kw with
    | .items l => l.isEmpty
    | _ => true

theorem dispatch_shape (g : Grammar) (o : Opts) (n : Node) (name : String) :
    kwShapeOK (dispatch g o n name) = true := by
  unfold dispatch
  simp only [apply_ite kwShapeOK]
  simp [kwShapeOK]

/-- what `drawOK` gives for the actual name -/
theorem drawOK_dispatch {g : Grammar} {o : Opts} {n : Node} (h : drawOK g o n = true) (name : String) :
    ∃ pn, dispatch g o n name = some pn ∧
      (pn.kw = .items [] ∨ (∃ v, pn.kw = .item v ∧ n.kids.isEmpty = false) ∨ pn.kw = .leaf) := by
  unfold drawOK at h
  simp only [Bool.and_eq_true] at h
  obtain ⟨_, h3⟩ := h
  have hk := dispatch_kw_name g o n name
  have hs := dispatch_shape g o n name
  cases hd0 : dispatch g o n "" with
  | none => rw [hd0] at h3; simp at h3
  | some pn0 =>
    rw [hd0] at h3 hk
    cases hd : dispatch g o n name with
    | none => rw [hd] at hk; simp at hk
    | some pn =>
      rw [hd] at hk hs
      simp only [Option.map_some, Option.some.injEq] at hk
      refine ⟨pn, rfl, ?_⟩
      simp only [kwShapeOK] at hs
      have hk' : pn0.kw = pn.kw := hk.symm
      simp only at h3
      rw [hk'] at h3
      cases hkw : pn.kw with
      | leaf => exact Or.inr (Or.inr rfl)
      | item v =>
        rw [hkw] at h3
        simp only [Bool.not_eq_true'] at h3
        exact Or.inr (Or.inl ⟨v, rfl, h3⟩)
      | items l =>
        rw [hkw] at hs
        simp only [List.isEmpty_iff] at hs
        exact Or.inl (by rw [hs])

/-! ### the loop over the children -/

/-- state inside the loop of the call that entered at `s` and registered the partial `ret` -/
structure LS (s sk : St) (ret : Nat) : Prop where
  hret : s.heap.length ≤ ret
  hlen : s.heap.length ≤ sk.heap.length
  mono : Mono s sk
  others : ∀ (j : Nat) (b : PNode), s.heap.length ≤ j → j ≠ ret → sk.heap[j]? = some b → b.kw.filled = true

/-- the partial `ret` after `i` items were appended (`k`: at least one child was converted) -/
def RS (sk : St) (ret i : Nat) (k : Bool) : Prop :=
  ∃ a, sk.heap[ret]? = some a ∧
    (match a.kw with
     | .items l => l.length = i ∧ l.all Slot.isRef = true
     | .item v => k = true → v.isRef = true
     | .leaf => True)

theorem setKw_len (s : St) (r : Nat) (kw : Kw) : (s.setKw r kw).heap.length = s.heap.length := by
  simp [St.setKw]

theorem LS_setKw {s sk : St} {ret : Nat} (h : LS s sk ret) (kw : Kw) : LS s (sk.setKw ret kw) ret := by
  refine ⟨h.hret, by rw [setKw_len]; exact h.hlen, ?_, ?_⟩
  · intro i a ha
    have hi := (List.getElem?_eq_some_iff.mp ha).1
    have hne : ret ≠ i := by have := h.hret; omega
    rw [setKw_get]
    simp only [hne, if_false]
    exact h.mono i a ha
  · intro j b hj hne hb
    rw [setKw_get] at hb
    simp only [Ne.symm hne, if_false] at hb
    exact h.others j b hj hne hb

theorem LS_HS {s sk sk2 : St} {ret : Nat} (h : LS s sk ret) (h2 : HS sk sk2) : LS s sk2 ret := by
  refine ⟨h.hret, Nat.le_trans h.hlen h2.1, h.mono.trans h2.2.1, ?_⟩
  intro j b hj hne hb
  by_cases hjk : j < sk.heap.length
  · obtain ⟨y, hy, hyb⟩ := h2.2.1 j sk.heap[j] (List.getElem?_eq_getElem hjk)
    rw [hb] at hy
    simp only [Option.some.injEq] at hy
    subst hy
    exact KwLe_filled hyb (h.others j _ hj hne (List.getElem?_eq_getElem hjk))
  · exact h2.2.2 j b (by omega) hb

theorem RS_HS {sk sk2 : St} {ret i : Nat} {k : Bool} (h : RS sk ret i k) (h2 : HS sk sk2) : RS sk2 ret i k := by
  obtain ⟨a, ha, hk⟩ := h
  obtain ⟨b, hb, hab⟩ := h2.2.1 ret a ha
  refine ⟨b, hb, ?_⟩
  cases hka : a.kw <;> cases hkb : b.kw <;> rw [hka, hkb] at hab <;> simp only [KwLe] at hab <;> rw [hka] at hk
    <;> simp only at hk ⊢
  · exact fun hh => hab (hk hh)
  · exact ⟨hab.1 ▸ hk.1, SlotsLe_all hab hk.2⟩

theorem insertAt_end (l : List Slot) (i : Nat) (h : l.length = i) : insertAt l i .none = l ++ [.none] := by
  subst h
  simp [insertAt]

theorem set_all_ref (l l2 : List Slot) (i r : Nat) (hl : l.length = i) (hall : l.all Slot.isRef = true)
    (hle : SlotsLe (l ++ [.none]) l2) :
    (l2.set i (.ref r)).length = i + 1 ∧ (l2.set i (.ref r)).all Slot.isRef = true := by
  have hlen : l2.length = i + 1 := by rw [← hle.1]; simp [hl]
  refine ⟨by simp [hlen], ?_⟩
  rw [List.all_eq_true] at hall ⊢
  intro x hx
  obtain ⟨j, hj, rfl⟩ := List.mem_iff_getElem.mp hx
  rw [List.getElem_set]
  split
  · rfl
  · rename_i hne
    have hj2 : j < l2.length := by simpa using hj
    have hjl : j < l.length := by omega
    obtain ⟨w, hw, hwr⟩ := hle.2 j l[j] (by rw [List.getElem?_append_left hjl]; exact List.getElem?_eq_getElem hjl)
      (hall _ (List.getElem_mem hjl))
    rw [List.getElem?_eq_getElem hj2] at hw
    simp only [Option.some.injEq] at hw
    rw [hw]; exact hwr

theorem setKw_get_same (s : St) (r : Nat) (kw : Kw) (a : PNode) (h : s.heap[r]? = some a) :
    (s.setKw r kw).heap[r]? = some { a with kw := kw } := by
  rw [setKw_get]; simp [h]

theorem stepKid_spec (g : Grammar) (rec : Rec) (s : St) (ret : Nat)
    (hrec : ∀ c p i h s r s', c < g.length → rec c p i h s = some (r, s') → HS s s' ∧ r.isSome = true)
    (c i : Nat) (sk : St) (k : Bool) (i' : Nat) (sk' : St) (hc : c < g.length)
    (h : stepKid rec ret c i sk = some (i', sk')) (hL : LS s sk ret) (hR : RS sk ret i k) :
    LS s sk' ret ∧ RS sk' ret i' true := by
  obtain ⟨a, ha, hk⟩ := hR
  have hnode := node_of_get ha
  unfold stepKid at h
  split at h
  · exact absurd h (by simp)
  · rename_i item s2 hr
    obtain ⟨hHS, hsome⟩ := hrec _ _ _ _ _ _ _ hc hr
    obtain ⟨r, rfl⟩ := Option.isSome_iff_exists.mp hsome
    cases hka : a.kw with
    | items l =>
      rw [hka] at hk
      simp only at hk
      have e1 : addPlaceholder sk ret i = sk.setKw ret (.items (l ++ [.none])) := by
        unfold addPlaceholder
        rw [hnode, hka]
        simp only [insertAt_end l i hk.1]
      rw [e1] at hHS
      have hL1 : LS s (sk.setKw ret (.items (l ++ [.none]))) ret := LS_setKw hL _
      have hL2 := LS_HS hL1 hHS
      obtain ⟨b, hb, hab⟩ := hHS.2.1 ret _ (setKw_get_same sk ret _ a ha)
      have hnode2 := node_of_get hb
      cases hkb : b.kw with
      | leaf => rw [hkb] at hab; simp [KwLe] at hab
      | item w => rw [hkb] at hab; simp [KwLe] at hab
      | items l2 =>
        rw [hkb] at hab
        simp only [KwLe] at hab
        rw [hnode2, hkb] at h
        simp only [Option.some.injEq, Prod.mk.injEq] at h
        obtain ⟨rfl, rfl⟩ := h
        refine ⟨LS_setKw hL2 _, ⟨_, setKw_get_same s2 ret _ b hb, ?_⟩⟩
        simp only
        exact set_all_ref l l2 i r hk.1 hk.2 hab
    | item v =>
      have e1 : addPlaceholder sk ret i = sk := by
        unfold addPlaceholder
        rw [hnode, hka]
      rw [e1] at hHS
      have hL2 := LS_HS hL hHS
      obtain ⟨b, hb, hab⟩ := hHS.2.1 ret a ha
      have hnode2 := node_of_get hb
      rw [hka] at hab
      cases hkb : b.kw with
      | leaf => rw [hkb] at hab; simp [KwLe] at hab
      | items l2 => rw [hkb] at hab; simp [KwLe] at hab
      | item w =>
        rw [hnode2, hkb] at h
        simp only [Option.some.injEq, Prod.mk.injEq] at h
        obtain ⟨rfl, rfl⟩ := h
        refine ⟨LS_setKw hL2 _, ⟨_, setKw_get_same s2 ret _ b hb, ?_⟩⟩
        simp only
        exact fun _ => rfl
    | leaf =>
      have e1 : addPlaceholder sk ret i = sk := by
        unfold addPlaceholder
        rw [hnode, hka]
      rw [e1] at hHS
      have hL2 := LS_HS hL hHS
      obtain ⟨b, hb, hab⟩ := hHS.2.1 ret a ha
      have hnode2 := node_of_get hb
      rw [hka] at hab
      cases hkb : b.kw with
      | item w => rw [hkb] at hab; simp [KwLe] at hab
      | items l2 => rw [hkb] at hab; simp [KwLe] at hab
      | leaf =>
        rw [hnode2, hkb] at h
        simp only [Option.some.injEq, Prod.mk.injEq] at h
        obtain ⟨rfl, rfl⟩ := h
        refine ⟨hL2, ⟨b, hb, ?_⟩⟩
        rw [hkb]
        trivial

theorem loopKids_spec (g : Grammar) (rec : Rec) (s : St) (ret : Nat)
    (hrec : ∀ c p i h s r s', c < g.length → rec c p i h s = some (r, s') → HS s s' ∧ r.isSome = true) :
    ∀ (kids : List Nat) (i : Nat) (sk : St) (k : Bool) (sk' : St), (∀ c ∈ kids, c < g.length) →
      loopKids rec ret kids i sk = some sk' → LS s sk ret → RS sk ret i k →
      LS s sk' ret ∧ ∃ i', RS sk' ret i' (k || !kids.isEmpty) := by
  intro kids
  induction kids with
  | nil =>
    intro i sk k sk' _ h hL hR
    simp only [loopKids, Option.some.injEq] at h
    subst h
    exact ⟨hL, i, by simpa using hR⟩
  | cons c cs ih =>
    intro i sk k sk' hin h hL hR
    unfold loopKids at h
    split at h
    · exact absurd h (by simp)
    · rename_i i1 s1 hs
      obtain ⟨hL1, hR1⟩ := stepKid_spec g rec s ret hrec c i sk k i1 s1 (hin c (List.mem_cons_self ..)) hs hL hR
      obtain ⟨hL2, i2, hR2⟩ := ih i1 s1 true sk' (fun c' hc' => hin c' (List.mem_cons_of_mem _ hc')) h hL1 hR1
      exact ⟨hL2, i2, by simpa using hR2⟩

/-! ### register / post / annotate / the recursion -/

theorem register_LS (g : Grammar) (s : St) (el : Nat) (n : Node) (parent : Option Nat) (index : Nat)
    (pn : PNode) (hshape : pn.kw = .items [] ∨ (∃ v, pn.kw = .item v) ∨ pn.kw = .leaf) (k0 : Bool)
    (hk0 : ∀ v, pn.kw = .item v → k0 = false) :
    (register g s el n parent index pn).1 = s.heap.length ∧
      LS s (register g s el n parent index pn).2 s.heap.length ∧
      RS (register g s el n parent index pn).2 s.heap.length 0 k0 := by
  have hget : (s.alloc pn).2.heap[s.heap.length]? = some pn := by simp [St.alloc]
  have hL : LS s (s.alloc pn).2 s.heap.length := by
    refine ⟨Nat.le_refl _, by simp [St.alloc], Mono_alloc s pn, ?_⟩
    intro j b hj hne hb
    have := (List.getElem?_eq_some_iff.mp hb).1
    simp [St.alloc] at this
    omega
  have hR : RS (s.alloc pn).2 s.heap.length 0 k0 := by
    refine ⟨pn, hget, ?_⟩
    rcases hshape with h | ⟨v, h⟩ | h
    · rw [h]; simp
    · rw [h]; simp [hk0 v h]
    · rw [h]; simp
  have hHS : HS (s.alloc pn).2 (register g s el n parent index pn).2 := by
    unfold register
    simp only
    split
    · exact HS.trans (b := setL (s.alloc pn).2 ((s.alloc pn).2.index + 1) el
          { converted := (s.alloc pn).1, parent := parent, parentIndex := index,
            number := (s.alloc pn).2.index + 1 })
        (HS_heap_eq rfl) (HS_mark g _ el _ false)
    · exact HS_heap_eq rfl
  exact ⟨rfl, LS_HS hL hHS, RS_HS hR hHS⟩

theorem setComplete_heap (s : St) (el : Nat) : (setComplete s el).heap = s.heap := by
  unfold setComplete; split <;> rfl

theorem post_HS (el : Nat) (n : Node) (hint : Option String) (ret : Nat) (s : St) :
    HS s (post el n hint ret s).2 ∧ (post el n hint ret s).1.isSome = true := by
  have h1 : HS s (post1 n hint ret s).2 := by
    unfold post1
    split
    · exact HS_alloc s _ rfl
    · exact HS.refl s
  have h2 : HS s (setComplete (post1 n hint ret s).2 el) := h1.trans (HS_heap_eq (setComplete_heap _ _))
  unfold post
  simp only
  split
  · split
    · exact ⟨h2.trans ((HS_extract _ el).trans (HS_newNT _ _)), rfl⟩
    · exact ⟨h2, rfl⟩
  · exact ⟨h2, rfl⟩

theorem annotate_HS (o : Opts) (n : Node) (r : Option Nat) (s : St) :
    HS s (annotate o n r s).2 ∧ (annotate o n r s).1.isSome = r.isSome := by
  unfold annotate
  split
  · exact ⟨HS.refl s, rfl⟩
  · split
    · exact ⟨HS_alloc s _ rfl, rfl⟩
    · exact ⟨HS.refl s, rfl⟩

theorem drawsAll_node {g : Grammar} {o : Opts} (hd : drawsAll g o = true) {el : Nat} {n : Node}
    (hg : g[el]? = some n) : drawOK g o n = true := by
  unfold drawsAll at hd
  rw [List.all_eq_true] at hd
  exact hd n (List.mem_of_getElem? hg)

theorem drawOK_kids {g : Grammar} {o : Opts} {n : Node} (h : drawOK g o n = true) :
    ∀ c ∈ n.kids, c < g.length := by
  unfold drawOK at h
  simp only [Bool.and_eq_true, List.all_eq_true, decide_eq_true_eq] at h
  exact h.1.2

theorem drawOK_shown {g : Grammar} {o : Opts} {n : Node} (h : drawOK g o n = true) :
    (!n.shown && !o.showHidden) = false := by
  unfold drawOK at h
  simp only [Bool.and_eq_true, Bool.or_eq_true] at h
  rcases h.1.1 with h1 | h1 <;> simp [h1]

/-- **every returning call of `_to_diagram_element` on an existing element returns an item, keeps all
    older partials (references are never lost) and leaves every partial it created filled** - for
    grammars in which every element draws something -/
theorem conv_HS (g : Grammar) (o : Opts) (hd : drawsAll g o = true) :
    ∀ fuel el p i h s r s', el < g.length → conv g o fuel el p i h s = some (r, s') →
      HS s s' ∧ r.isSome = true := by
  intro fuel
  induction fuel with
  | zero => intro el p i h s r s' _ hc; simp [conv] at hc
  | succ f ih =>
    intro el p i h s r s' hel hc
    unfold conv at hc
    have hg : g[el]? = some g[el] := List.getElem?_eq_getElem hel
    generalize g[el] = n at hg
    have hn := drawsAll_node hd hg
    simp only [hg] at hc
    cases hb : convBody g o (conv g o f) el n p i h s with
    | none => simp [hb] at hc
    | some rs =>
      obtain ⟨r1, s1⟩ := rs
      simp only [hb, Option.some.injEq] at hc
      obtain ⟨ha1, ha2⟩ := annotate_HS o n r1 s1
      have e : annotate o n r1 s1 = (r, s') := hc
      rw [e] at ha1 ha2
      simp only at ha1 ha2
      suffices hh : HS s s1 ∧ r1.isSome = true from ⟨hh.1.trans ha1, by rw [ha2]; exact hh.2⟩
      unfold convBody at hb
      cases hp : pre g o el n p i h s with
      | pass c h' =>
        simp only [hp] at hb
        have hc' : c < g.length := by
          unfold pre at hp
          split at hp
          · rename_i hpass
            simp only [Pre.pass.injEq] at hp
            have hk : n.kids ≠ [] := by
              intro hk
              simp [isPass, hk] at hpass
            obtain ⟨hc1, _⟩ := hp
            rw [← hc1]
            cases hkk : n.kids with
            | nil => exact absurd hkk hk
            | cons a as =>
              exact drawOK_kids hn a (by rw [hkk]; exact List.mem_cons_self ..)
          · split at hp
            · exact absurd hp (by simp)
            · exact absurd hp (by simp)
            · unfold preFresh at hp
              split at hp
              · exact absurd hp (by simp)
              · split at hp <;> exact absurd hp (by simp)
        exact ih _ _ _ _ _ _ _ hc' hb
      | ret r0 s0 =>
        simp only [hp, Option.some.injEq, Prod.mk.injEq] at hb
        obtain ⟨rfl, rfl⟩ := hb
        unfold pre at hp
        split at hp
        · exact absurd hp (by simp)
        · split at hp
          · simp only [Pre.ret.injEq] at hp
            obtain ⟨rfl, rfl⟩ := hp
            exact ⟨(HS_mark g s el h false).trans (HS_newNT _ _), rfl⟩
          · simp only [Pre.ret.injEq] at hp
            obtain ⟨rfl, rfl⟩ := hp
            exact ⟨HS_newNT _ _, rfl⟩
          · unfold preFresh at hp
            rw [drawOK_shown hn] at hp
            obtain ⟨pn, hpn, _⟩ := drawOK_dispatch hn (nameOf n h)
            simp only [hpn, Bool.false_eq_true, if_false] at hp
            exact absurd hp (by simp)
      | loop ret s0 =>
        simp only [hp] at hb
        have hreg : ∃ k0, ret = s.heap.length ∧ LS s s0 s.heap.length ∧ RS s0 s.heap.length 0 k0 ∧
            (k0 || !n.kids.isEmpty) = true := by
          unfold pre at hp
          split at hp
          · exact absurd hp (by simp)
          · split at hp
            · exact absurd hp (by simp)
            · exact absurd hp (by simp)
            · unfold preFresh at hp
              rw [drawOK_shown hn] at hp
              obtain ⟨pn, hpn, hshape⟩ := drawOK_dispatch hn (nameOf n h)
              simp only [hpn, Bool.false_eq_true, if_false, Pre.loop.injEq] at hp
              obtain ⟨rfl, rfl⟩ := hp
              rcases hshape with h1 | ⟨v, h1, hk⟩ | h1
              · obtain ⟨e1, e2, e3⟩ := register_LS g s el n p i pn (Or.inl h1) true
                  (fun v hv => by rw [h1] at hv; exact absurd hv (by simp))
                exact ⟨true, e1, e2, e3, rfl⟩
              · obtain ⟨e1, e2, e3⟩ := register_LS g s el n p i pn (Or.inr (Or.inl ⟨v, h1⟩)) false
                  (fun _ _ => rfl)
                exact ⟨false, e1, e2, e3, by simp [hk]⟩
              · obtain ⟨e1, e2, e3⟩ := register_LS g s el n p i pn (Or.inr (Or.inr h1)) true
                  (fun v hv => by rw [h1] at hv; exact absurd hv (by simp))
                exact ⟨true, e1, e2, e3, rfl⟩
        obtain ⟨k0, rfl, hL0, hR0, hk0⟩ := hreg
        cases hl : loopKids (conv g o f) s.heap.length n.kids 0 s0 with
        | none => simp [hl] at hb
        | some s2 =>
          simp only [hl, Option.some.injEq] at hb
          obtain ⟨hL2, i2, hR2⟩ := loopKids_spec g (conv g o f) s s.heap.length
            (fun c p i h s r s' hc hcv => ih c p i h s r s' hc hcv) n.kids 0 s0 k0 s2 (drawOK_kids hn) hl hL0 hR0
          rw [hk0] at hR2
          have hHS2 : HS s s2 := by
            refine ⟨hL2.hlen, hL2.mono, ?_⟩
            intro j b hj hb'
            by_cases hjr : j = s.heap.length
            · subst hjr
              obtain ⟨a, ha, hka⟩ := hR2
              rw [hb'] at ha
              simp only [Option.some.injEq] at ha
              subst ha
              cases hkw : b.kw with
              | leaf => rfl
              | item v => rw [hkw] at hka; exact hka rfl
              | items l => rw [hkw] at hka; exact hka.2
            · exact hL2.others j b hj hjr hb'
          obtain ⟨p1, p2⟩ := post_HS el n h s.heap.length s2
          rw [hb] at p1 p2
          exact ⟨hHS2.trans p1, p2⟩

/-! ### the final state -/

def AllFilled (s : St) : Prop := ∀ nd ∈ s.heap, nd.kw.filled = true

theorem AllFilled_HS {s s' : St} (h : AllFilled s) (h2 : HS s s') : AllFilled s' := by
  intro nd hnd
  obtain ⟨j, hj, rfl⟩ := List.mem_iff_getElem.mp hnd
  by_cases hjs : j < s.heap.length
  · obtain ⟨b, hb, hab⟩ := h2.2.1 j s.heap[j] (List.getElem?_eq_getElem hjs)
    rw [List.getElem?_eq_getElem hj] at hb
    simp only [Option.some.injEq] at hb
    rw [hb]
    exact KwLe_filled hab (h _ (List.getElem_mem hjs))
  · exact h2.2.2 j _ (by omega) (List.getElem?_eq_getElem hj)

theorem convertRoot_filled (g : Grammar) (o : Opts) (fuel root : Nat) (s : St)
    (hd : drawsAll g o = true) (hroot : root < g.length)
    (h : convertRoot g o fuel root = some s) : AllFilled s := by
  unfold convertRoot at h
  split at h
  · exact absurd h (by simp)
  · rename_i r s0 hc
    obtain ⟨hHS, _⟩ := conv_HS g o hd fuel root none 0 none {} r s0 hroot hc
    have h0 : AllFilled s0 := AllFilled_HS (fun nd hnd => absurd hnd (by simp)) hHS
    split at h
    · rename_i st hst
      simp only [Option.some.injEq] at h
      subst h
      split
      · exact AllFilled_HS h0 (HS.trans (b := { s0 with lookup := aset s0.lookup root { st with name := some "" } })
          (HS_heap_eq rfl) (HS_mark g _ root none true))
      · exact AllFilled_HS h0 (HS_mark g s0 root none true)
    · simp only [Option.some.injEq] at h
      subst h
      exact h0

end PP.Diagram
