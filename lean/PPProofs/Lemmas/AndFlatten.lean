import PPProofs.Lemmas.ParseNoIdx
import PPProofs.Lemmas.ParseFwd
import PPModel.Mod.Sugar
/-!
# Flattening a nested `And` (the in-place rewrite of `ParseExpression.streamline`)

`And[pre…, N, post…]` with `N = And[b, ns…]` against `And[pre…, b, ns…, post…]`, for a parse function `P` that satisfies
the recursive equation of `_parseNoCache` at the two nodes concerned (`N` and `b`).
-/
namespace PP.Parse

/-- what an enclosing `And` (error-stop flag `st`) makes of the outcome `X` of a sub-sequence -/
def conv (st : Bool) (slen : Nat) (X : Out) (k : Nat → List Tok → Out) : Out :=
  match X with
  | .ok l ts => k l ts
  | .fail c l => if st then .fail .syntax l else .fail c l
  | .idx => if st then .fail .syntax slen else .idx
  | .hang => .hang

/-- running `ns ++ post` in one loop == running `ns` as a unit (own error-stop flag `si`) and then `post` -/
theorem andRest_splice (P : P) (isStop : Nat → Bool) (a : Bool) (slen : Nat) (post : List Nat) (st : Bool)
    (acc : List Tok) :
    ∀ ns si l1 ts1, (post = [] ∨ (si = false ∧ ∀ e ∈ ns, isStop e = false)) →
      andRest P isStop a slen (ns ++ post) (st || si) l1 (acc ++ ts1)
        = conv st slen (andRest P isStop a slen ns si l1 ts1)
            (fun l2 ts2 => andRest P isStop a slen post st l2 (acc ++ ts2)) := by
  intro ns
  induction ns with
  | nil =>
    intro si l1 ts1 h
    simp only [List.nil_append, andRest, conv]
    rcases h with h | ⟨h, _⟩
    · subst h; simp [andRest]
    · subst h; simp
  | cons e es ih =>
    intro si l1 ts1 h
    simp only [List.cons_append, andRest]
    by_cases hs : isStop e = true
    · simp only [hs, if_true]
      have hp : post = [] := by
        rcases h with h | ⟨_, h2⟩
        · exact h
        · have := h2 e (by simp); rw [hs] at this; cases this
      have := ih true l1 ts1 (Or.inl hp)
      simpa using this
    · simp only [hs]
      have h' : post = [] ∨ (si = false ∧ ∀ x ∈ es, isStop x = false) := by
        rcases h with h | ⟨h1, h2⟩
        · exact Or.inl h
        · exact Or.inr ⟨h1, fun x hx => h2 x (by simp [hx])⟩
      cases hp : P e l1 a true with
      | ok l ts =>
        simp only []
        have := ih si l (ts1 ++ ts) h'
        rw [← List.append_assoc] at this
        exact this
      | fail c l => cases st <;> cases si <;> simp [conv]
      | idx => cases st <;> cases si <;> simp [conv]
      | hang => simp [conv]

/-- two continuations that agree make the whole loop agree -/
theorem andRest_congr_tail (P : P) (isStop : Nat → Bool) (a : Bool) (slen : Nat) (ys zs : List Nat)
    (h : ∀ stop loc acc, andRest P isStop a slen ys stop loc acc = andRest P isStop a slen zs stop loc acc) :
    ∀ xs stop loc acc, andRest P isStop a slen (xs ++ ys) stop loc acc = andRest P isStop a slen (xs ++ zs) stop loc acc := by
  intro xs
  induction xs with
  | nil => intro stop loc acc; exact h stop loc acc
  | cons x xs ih =>
    intro stop loc acc
    simp only [List.cons_append, andRest]
    split
    · exact ih true loc acc
    · cases hp : P x loc a true with
      | ok l ts => exact ih stop l (acc ++ ts)
      | fail c l => rfl
      | idx => rfl
      | hang => rfl

theorem andImpl_cons_noIdx {P : P} (hni : NoIdx P) (isStop : Nat → Bool) (a : Bool) (slen : Nat) (b : Nat)
    (ns : List Nat) (loc : Nat) : andImpl P isStop a slen (b :: ns) loc ≠ .idx := by
  unfold andImpl
  simp only
  cases hp : P b loc a false with
  | ok l ts => exact andRest_noIdx hni _ _ _ _ _ _ _
  | fail c l => simp
  | idx => exact absurd hp (hni _ _ _ _)
  | hang => simp

/-- ParserElement.preParse of a node that does not override it -/
def preGeneric (p : P) (nd : Node) (s : List Char) (loc : Nat) : PreR :=
  match (if nd.ignore.isEmpty then PreR.at loc else skipIgnorables p s.length nd.ignore (s.length + 2) loc) with
  | .at l => .at (if nd.skipWs then skipWhite nd.white s l else l)
  | r => r

theorem preParse_generic (p : P) (nd : Node) (s : List Char) (loc : Nat)
    (h : ∀ w nl, nd.kind ≠ .lineStart w nl) : preParse p nd s loc = preGeneric p nd s loc := by
  unfold preParse preGeneric
  split
  · rename_i w nl hk; exact absurd hk (h w nl)
  · rfl

theorem preGeneric_congr (p : P) (n1 n2 : Node) (s : List Char) (loc : Nat)
    (h1 : n1.ignore = n2.ignore) (h2 : n1.skipWs = n2.skipWs) (h3 : n1.white = n2.white) :
    preGeneric p n1 s loc = preGeneric p n2 s loc := by
  unfold preGeneric; rw [h1, h2, h3]

/-- `_parseNoCache` with pre-parsing == pre-parse, then `_parseNoCache` without -/
theorem parseStep_pre_split (g : Grammar) (s : List Char) (p : P) (id : Nat) (nd : Node) (hg : g[id]? = some nd)
    (hc : nd.callPre = true) (loc : Nat) (a : Bool) :
    parseStep g s p id loc a true = (match preParse p nd s loc with
      | .abort o => o
      | .at l => parseStep g s p id l a false) := by
  unfold parseStep
  simp only [hg, hc, Bool.and_self, if_true, Bool.false_and, Bool.false_eq_true, if_false]
  cases preParse p nd s loc <;> rfl

/-- an action-free `And` node evaluated without pre-parse is its `parseImpl` -/
theorem parseStep_and_nopre (g : Grammar) (s : List Char) {p : P} (hni : NoIdx p) (n : Nat) (N : Node)
    (hN : g[n]? = some N) (b : Nat) (ns : List Nat) (hk : N.kind = .and (b :: ns)) (hacts : N.acts = [])
    (loc : Nat) (a : Bool) :
    parseStep g s p n loc a false = andImpl p (isStopOf g) a s.length (b :: ns) loc := by
  unfold parseStep
  simp only [hN, Bool.false_and, Bool.false_eq_true, if_false]
  have hi : parseImpl g p N s loc a = andImpl p (isStopOf g) a s.length (b :: ns) loc := by
    unfold parseImpl; rw [hk]; rfl
  rw [hi]
  have hne := andImpl_cons_noIdx hni (isStopOf g) a s.length b ns loc
  generalize andImpl p (isStopOf g) a s.length (b :: ns) loc = r at hne
  cases r with
  | ok e ts => simp [postParse, hk, hacts]
  | fail c l => rfl
  | idx => exact absurd rfl hne
  | hang => rfl

theorem conv_false (slen : Nat) (X : Out) (k : Nat → List Tok → Out) :
    conv false slen X k = (match X with
      | .ok l ts => k l ts
      | o => o) := by
  cases X <;> simp [conv]

/-- hypotheses shared by the two positions -/
structure FlatCtx (g : Grammar) (s : List Char) (P : P) (n b : Nat) (N : Node) (ns post : List Nat) : Prop where
  noIdx : NoIdx P
  hN : g[n]? = some N
  hk : N.kind = .and (b :: ns)
  hacts : N.acts = []
  stops : post = [] ∨ ∀ e ∈ ns, isStopOf g e = false
  eqN : ∀ loc a c, P n loc a c = parseStep g s P n loc a c

/-- head position: the outer And calls `N` (resp. `b`) without pre-parse -/
theorem and_flatten_head_impl (g : Grammar) (s : List Char) (P : P) (n b : Nat) (N : Node) (ns post : List Nat)
    (h : FlatCtx g s P n b N ns post) (loc : Nat) (a : Bool) :
    andImpl P (isStopOf g) a s.length (n :: post) loc = andImpl P (isStopOf g) a s.length (b :: ns ++ post) loc := by
  unfold andImpl
  simp only [List.cons_append]
  rw [h.eqN, parseStep_and_nopre g s h.noIdx n N h.hN b ns h.hk h.hacts]
  unfold andImpl
  simp only
  cases hp : P b loc a false with
  | ok l1 ts1 =>
    simp only
    have hs := andRest_splice P (isStopOf g) a s.length post false [] ns false l1 ts1
      (by rcases h.stops with h1 | h1
          · exact Or.inl h1
          · exact Or.inr ⟨rfl, h1⟩)
    simp only [Bool.or_false, List.nil_append] at hs
    rw [hs, conv_false]
    cases andRest P (isStopOf g) a s.length ns false l1 ts1 <;> rfl
  | fail c l => rfl
  | idx => rfl
  | hang => rfl

theorem isStopOf_and (g : Grammar) (n : Nat) (N : Node) (hN : g[n]? = some N) (es : List Nat) (hk : N.kind = .and es) :
    isStopOf g n = false := by
  unfold isStopOf; rw [hN]; simp [hk]

/-- inner position: `N` is called with pre-parse (its own flags), `b` with `b`'s -/
theorem and_flatten_inner_step (g : Grammar) (s : List Char) (P : P) (n b : Nat) (N B : Node) (ns post : List Nat)
    (h : FlatCtx g s P n b N ns post) (hB : g[b]? = some B) (hNc : N.callPre = true) (hsb : isStopOf g b = false)
    (hf : headFlagsOk N B = true) (eqB : ∀ loc a c, P b loc a c = parseStep g s P b loc a c) (a : Bool) :
    ∀ stop loc acc, andRest P (isStopOf g) a s.length (n :: post) stop loc acc
      = andRest P (isStopOf g) a s.length (b :: ns ++ post) stop loc acc := by
  intro stop loc acc
  unfold headFlagsOk at hf
  simp only [Bool.and_eq_true, beq_iff_eq] at hf
  obtain ⟨⟨⟨⟨hBc, hws⟩, hwh⟩, hig⟩, hls⟩ := hf
  have hBk : ∀ w nl, B.kind ≠ .lineStart w nl := by
    intro w nl hk; rw [hk] at hls; simp at hls
  have hNk : ∀ w nl, N.kind ≠ .lineStart w nl := by
    intro w nl hk; rw [h.hk] at hk; cases hk
  have hpre : preParse P B s loc = preParse P N s loc := by
    rw [preParse_generic P B s loc hBk, preParse_generic P N s loc hNk]
    exact preGeneric_congr P B N s loc hig.symm hws.symm hwh.symm
  simp only [List.cons_append, andRest, isStopOf_and g n N h.hN _ h.hk, hsb, Bool.false_eq_true, if_false]
  rw [h.eqN, eqB, parseStep_pre_split g s P n N h.hN hNc, parseStep_pre_split g s P b B hB hBc, hpre]
  cases hr : preParse P N s loc with
  | abort o =>
    have := preParse_abort P N s loc o hr
    cases o with
    | ok l ts => simp [Out.isOk] at this
    | fail c l => rfl
    | idx => rfl
    | hang => rfl
  | «at» l =>
    simp only
    rw [← eqB, parseStep_and_nopre g s h.noIdx n N h.hN b ns h.hk h.hacts]
    unfold andImpl
    simp only
    cases hp : P b l a false with
    | ok l1 ts1 =>
      simp only
      have hs := andRest_splice P (isStopOf g) a s.length post stop acc ns false l1 ts1
        (by rcases h.stops with h1 | h1
            · exact Or.inl h1
            · exact Or.inr ⟨rfl, h1⟩)
      simp only [Bool.or_false] at hs
      rw [hs]
      cases andRest P (isStopOf g) a s.length ns false l1 ts1 <;> simp [conv]
    | fail c l' => rfl
    | idx => rfl
    | hang => rfl

end PP.Parse
