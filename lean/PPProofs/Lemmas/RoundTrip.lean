import PPModel.Mod.CompressedRe
import PPProofs.Lemmas.Ranges
import PPProofs.Lemmas.CompressedRe
import PPProofs.Lemmas.WordPaths
/-
  Round trip `parse (render r) = some r` for the canonical ASTs (the shapes `parse` returns), and
  canonicity of the ASTs built by `wordRe`, `oneOfRe`, `makeCompressedRe`.
-/
namespace PP.ReLite
open PP.Ranges

/-! ## 1. decimal numbers -/

def digStep (a : Nat) (c : Char) : Nat := a * 10 + (c.toNat - '0'.toNat)

theorem readNat_none_of_head (t : List Char) (acc : Nat)
    (ht : ∀ c, t.head? = some c → c.isDigit = false) : readNat t acc = none := by
  cases t with
  | nil => simp [readNat]
  | cons c t =>
    have := ht c (by simp)
    simp [readNat, this]

theorem readNat_digits (ds : List Char) (hne : ds ≠ []) (hd : ∀ c ∈ ds, c.isDigit = true)
    (t : List Char) (ht : ∀ c, t.head? = some c → c.isDigit = false) :
    ∀ acc, readNat (ds ++ t) acc = some (ds.foldl digStep acc, t) := by
  induction ds with
  | nil => exact absurd rfl hne
  | cons c ds ih =>
    intro acc
    have hc : c.isDigit = true := hd c (by simp)
    by_cases hds : ds = []
    · subst hds
      simp only [List.nil_append, List.cons_append, readNat, hc, if_true, List.foldl_cons,
        List.foldl_nil]
      rw [readNat_none_of_head t _ ht]
      rfl
    · have := ih hds (fun x hx => hd x (List.mem_cons_of_mem _ hx)) (digStep acc c)
      simp only [List.cons_append, readNat, hc, if_true, List.foldl_cons]
      simp only [digStep] at this ⊢
      rw [this]

theorem digitChar_val (n : Nat) (h : n < 10) : (Nat.digitChar n).toNat - '0'.toNat = n := by
  have : n = 0 ∨ n = 1 ∨ n = 2 ∨ n = 3 ∨ n = 4 ∨ n = 5 ∨ n = 6 ∨ n = 7 ∨ n = 8 ∨ n = 9 := by omega
  rcases this with rfl | rfl | rfl | rfl | rfl | rfl | rfl | rfl | rfl | rfl <;> decide

theorem foldl_toDigits (n : Nat) : (Nat.toDigits 10 n).foldl digStep 0 = n := by
  induction n using Nat.strongRecOn with
  | _ n ih =>
    rw [Nat.toDigits_eq_if (by omega)]
    split
    · rename_i h
      have := digitChar_val n h
      simp only [List.foldl_cons, List.foldl_nil, digStep]
      omega
    · rename_i h
      rw [List.foldl_append, ih (n / 10) (by omega)]
      simp only [List.foldl_cons, List.foldl_nil, digStep]
      rw [digitChar_val _ (Nat.mod_lt n (by omega))]
      omega

theorem natDigits_eq (n : Nat) : natDigits n = Nat.toDigits 10 n := by
  simp [natDigits]

theorem natDigits_ne_nil (n : Nat) : natDigits n ≠ [] := by
  rw [natDigits_eq]; exact Nat.toDigits_ne_nil

theorem natDigits_isDigit (n : Nat) : ∀ c ∈ natDigits n, c.isDigit = true := by
  intro c hc
  rw [natDigits_eq] at hc
  exact Nat.isDigit_of_mem_toDigits (by decide) (by decide) hc

theorem readNat_natDigits (n : Nat) (t : List Char)
    (ht : ∀ c, t.head? = some c → c.isDigit = false) :
    readNat (natDigits n ++ t) 0 = some (n, t) := by
  rw [readNat_digits _ (natDigits_ne_nil n) (natDigits_isDigit n) t ht 0, natDigits_eq,
    foldl_toDigits]

/-! ## 2. characters -/

theorem special_not_alnum (c : Char) (h : c ∈ reSpecial) : c.isAlphanum = false := by
  simp only [reSpecial, List.mem_cons, List.not_mem_nil, or_false] at h
  rcases h with rfl | rfl | rfl | rfl | rfl | rfl | rfl | rfl | rfl | rfl | rfl | rfl | rfl | rfl |
    rfl | rfl | rfl | rfl | rfl | rfl | rfl | rfl | rfl | rfl <;> decide

theorem special_ne_b (c : Char) (h : c ∈ reSpecial) : c ≠ 'b' := by
  intro hb; subst hb; revert h; decide

theorem atomStop_special (c : Char) (h : atomStop c = true) : c ∈ reSpecial := by
  simp only [atomStop, Bool.or_eq_true, beq_iff_eq] at h
  rcases h with ((((((((((((( rfl | rfl) | rfl) | rfl) | rfl) | rfl) | rfl) | rfl) | rfl) | rfl) | rfl) | rfl) | rfl) | rfl) <;> decide

/-- every character round-trips through `reEscapeChar` / `parseAtom`: no side condition -/
theorem chr_roundtrip_cond (c : Char) :
    (c ∈ reSpecial ∧ c.isAlphanum = false) ∨ (c ∉ reSpecial ∧ atomStop c = false) := by
  by_cases h : c ∈ reSpecial
  · exact .inl ⟨h, special_not_alnum c h⟩
  · refine .inr ⟨h, ?_⟩
    cases hs : atomStop c with
    | false => rfl
    | true => exact absurd (atomStop_special c hs) h

theorem parseAtom_chr (c : Char) (f : Nat) (rest : List Char) :
    parseAtom (f+1) (reEscapeChar c ++ rest) = some (.chr c, rest) := by
  simp only [reEscapeChar]
  split
  · rename_i h
    have h1 := special_not_alnum c h
    have h2 := special_ne_b c h
    simp only [List.cons_append, List.nil_append]
    unfold parseAtom
    split <;> try (simp_all; done)
    rename_i hx heq
    obtain ⟨rfl, rfl⟩ : _ ∧ _ := by simpa using heq
    exact absurd rfl (hx _ _ rfl)
  · rename_i h
    have h1 : atomStop c = false := by
      cases hs : atomStop c with
      | false => rfl
      | true => exact absurd (atomStop_special c hs) h
    have hp : c ≠ '(' := by intro e; subst e; exact h (by decide)
    have hb : c ≠ '[' := by intro e; subst e; exact h (by decide)
    have hs : c ≠ '\\' := by intro e; subst e; exact h (by decide)
    simp only [List.cons_append, List.nil_append]
    unfold parseAtom
    split <;> simp_all

/-! ## 3. what may follow a piece / a concatenation / an alternation -/

/-- the text does not start with a quantifier character -/
def NoQ (t : List Char) : Prop :=
  ∀ c, t.head? = some c → c ≠ '?' ∧ c ≠ '*' ∧ c ≠ '+' ∧ c ≠ '{'

/-- end of a concatenation: end of text, `|` or `)` -/
def CatEnd (t : List Char) : Prop := t = [] ∨ t.head? = some '|' ∨ t.head? = some ')'

/-- end of an alternation: end of text or `)` -/
def AltEnd (t : List Char) : Prop := t = [] ∨ t.head? = some ')'

/-- the text starts with a character that can begin an atom's rendering -/
def AtomHead (t : List Char) : Prop :=
  ∃ c t', t = c :: t' ∧ c ≠ '?' ∧ c ≠ '*' ∧ c ≠ '+' ∧ c ≠ '{' ∧ c ≠ '|' ∧ c ≠ ')'

theorem CatEnd.noQ {t : List Char} (h : CatEnd t) : NoQ t := by
  intro c hc
  rcases h with rfl | h | h
  · simp at hc
  · rw [h] at hc; cases hc; decide
  · rw [h] at hc; cases hc; decide

theorem AltEnd.catEnd {t : List Char} (h : AltEnd t) : CatEnd t := by
  rcases h with h | h
  · exact .inl h
  · exact .inr (.inr h)

theorem AtomHead.noQ {t : List Char} (h : AtomHead t) : NoQ t := by
  obtain ⟨c, t', rfl, h1, h2, h3, h4, _, _⟩ := h
  intro d hd
  simp only [List.head?_cons, Option.some.injEq] at hd
  subst hd
  exact ⟨h1, h2, h3, h4⟩

theorem parseQuant_none (a : Re) (t : List Char) (h : NoQ t) : parseQuant a t = some (a, t) := by
  unfold parseQuant
  split
  · exact absurd rfl (h '?' (by simp)).1
  · exact absurd rfl (h '*' (by simp)).2.1
  · exact absurd rfl (h '+' (by simp)).2.2.1
  · exact absurd rfl (h '{' (by simp)).2.2.2
  · rfl

theorem head_brace_notDigit (t : List Char) :
    ∀ c, ('}' :: t).head? = some c → c.isDigit = false := by
  intro c hc; simp at hc; subst hc; decide

theorem head_comma_notDigit (t : List Char) :
    ∀ c, (',' :: t).head? = some c → c.isDigit = false := by
  intro c hc; simp at hc; subst hc; decide

theorem parseQuant_repN (a : Re) (m : Nat) (t : List Char) :
    parseQuant a ('{' :: (natDigits m ++ '}' :: t)) = some (.repN a m, t) := by
  simp only [parseQuant, readNat_natDigits m _ (head_brace_notDigit t)]

theorem parseQuant_repMN_none (a : Re) (m : Nat) (t : List Char) :
    parseQuant a ('{' :: (natDigits m ++ ',' :: '}' :: t)) = some (.repMN a m none, t) := by
  simp only [parseQuant, readNat_natDigits m _ (head_comma_notDigit _)]

theorem parseQuant_repMN_some (a : Re) (m n : Nat) (hmn : m ≤ n) (t : List Char) :
    parseQuant a ('{' :: (natDigits m ++ ',' :: (natDigits n ++ '}' :: t))) =
      some (.repMN a m (some n), t) := by
  obtain ⟨d, ds, hd⟩ : ∃ d ds, natDigits n = d :: ds := by
    cases h : natDigits n with
    | nil => exact absurd h (natDigits_ne_nil n)
    | cons d ds => exact ⟨d, ds, rfl⟩
  have hdd : d.isDigit = true := natDigits_isDigit n d (by rw [hd]; simp)
  have hne : d ≠ '}' := by intro e; subst e; revert hdd; decide
  have h2 := readNat_natDigits n _ (head_brace_notDigit t)
  simp only [parseQuant, readNat_natDigits m _ (head_comma_notDigit _)]
  rw [hd] at h2 ⊢
  simp only [List.cons_append] at h2 ⊢
  split
  · rename_i heq; simp at heq
  · rename_i heq; simp at heq; exact absurd heq.1 hne
  · rename_i heq
    simp only [List.cons.injEq, true_and] at heq
    subst heq
    rw [h2]
    simp only [if_neg (Nat.not_lt.2 hmn)]
  · rename_i hx; exact (hx _ rfl).elim

/-! ## 4. one step of `parseCat` / `parseAlt` -/

theorem parseCat_eps (f : Nat) (t : List Char) (h : CatEnd t) : parseCat (f+1) t = some (.eps, t) := by
  unfold parseCat
  rcases h with rfl | h | h
  · rfl
  · cases t with
    | nil => simp at h
    | cons c t => simp at h; subst h; rfl
  · cases t with
    | nil => simp at h
    | cons c t => simp at h; subst h; rfl

theorem parseCat_last (f : Nat) (txt t rest : List Char) (a p : Re) (hh : AtomHead txt)
    (ha : parseAtom f txt = some (a, t)) (hq : parseQuant a t = some (p, rest)) (he : CatEnd rest) :
    parseCat (f+1) txt = some (p, rest) := by
  obtain ⟨c, t', rfl, _, _, _, _, h5, h6⟩ := hh
  unfold parseCat
  split
  · rename_i heq; cases heq
  · rename_i heq; simp at heq; exact absurd heq.1 h5
  · rename_i heq; simp at heq; exact absurd heq.1 h6
  · simp only [ha, hq]
    rcases he with rfl | he | he
    · rfl
    · cases rest with
      | nil => simp at he
      | cons d rest => simp at he; subst he; rfl
    · cases rest with
      | nil => simp at he
      | cons d rest => simp at he; subst he; rfl

theorem parseCat_more (f : Nat) (txt t rest rest3 : List Char) (a p q : Re) (hh : AtomHead txt)
    (ha : parseAtom f txt = some (a, t)) (hq : parseQuant a t = some (p, rest)) (hh2 : AtomHead rest)
    (hc : parseCat f rest = some (q, rest3)) :
    parseCat (f+1) txt = some (.cat p q, rest3) := by
  obtain ⟨c, t', rfl, _, _, _, _, h5, h6⟩ := hh
  obtain ⟨d, r', rfl, _, _, _, _, g5, g6⟩ := hh2
  unfold parseCat
  split
  · rename_i heq; cases heq
  · rename_i heq; simp at heq; exact absurd heq.1 h5
  · rename_i heq; simp at heq; exact absurd heq.1 h6
  · simp only [ha, hq]
    split
    · rename_i heq; cases heq
    · rename_i heq; simp at heq; exact absurd heq.1 g5
    · rename_i heq; simp at heq; exact absurd heq.1 g6
    · rw [hc]

theorem parseAlt_last (f : Nat) (txt rest : List Char) (a : Re)
    (hc : parseCat f txt = some (a, rest)) (he : AltEnd rest) :
    parseAlt (f+1) txt = some (a, rest) := by
  unfold parseAlt
  rw [hc]
  rcases he with rfl | he
  · rfl
  · cases rest with
    | nil => simp at he
    | cons d rest => simp at he; subst he; rfl

theorem parseAlt_more (f : Nat) (txt rest rest2 : List Char) (a b : Re)
    (hc : parseCat f txt = some (a, '|' :: rest)) (ha : parseAlt f rest = some (b, rest2)) :
    parseAlt (f+1) txt = some (.alt a b, rest2) := by
  unfold parseAlt
  rw [hc]
  simp only [ha]

/-! ## 5. canonical ASTs -/

/-- syntactic level of a canonical AST -/
inductive Lvl where
  | atom | piece | cat | alt
  deriving DecidableEq, Repr

/-- `Canon l r`: `r` is in the canonical form that `parseAtom` (`l = atom`), `parseAtom` followed by
    `parseQuant` (`piece`), `parseCat` on a non-empty concatenation (`cat`) or `parseAlt` (`alt`)
    returns.  `eps` is canonical only as a whole alternative (empty pattern / group body / branch). -/
inductive Canon : Lvl → Re → Prop where
  | chr (c : Char) : Canon .atom (.chr c)
  | wb : Canon .atom .wb
  | cls (its : List CItem) (hne : its ≠ []) (hwf : ∀ it ∈ its, WF it) : Canon .atom (.cls its)
  | grp (cap : Bool) (r : Re) (h : Canon .alt r) : Canon .atom (.grp cap r)
  | ofAtom (a : Re) (h : Canon .atom a) : Canon .piece a
  | opt (a : Re) (h : Canon .atom a) : Canon .piece (.opt a)
  | star (a : Re) (h : Canon .atom a) : Canon .piece (.star a)
  | plus (a : Re) (h : Canon .atom a) : Canon .piece (.plus a)
  | repN (a : Re) (m : Nat) (h : Canon .atom a) : Canon .piece (.repN a m)
  | repMN (a : Re) (m : Nat) (n : Option Nat) (h : Canon .atom a) (hmn : ∀ k, n = some k → m ≤ k) :
      Canon .piece (.repMN a m n)
  | ofPiece (p : Re) (h : Canon .piece p) : Canon .cat p
  | cat (p q : Re) (hp : Canon .piece p) (hq : Canon .cat q) : Canon .cat (.cat p q)
  | eps : Canon .alt .eps
  | ofCat (c : Re) (h : Canon .cat c) : Canon .alt c
  | altEps (r : Re) (h : Canon .alt r) : Canon .alt (.alt .eps r)
  | alt (c r : Re) (hc : Canon .cat c) (hr : Canon .alt r) : Canon .alt (.alt c r)

/-- fuel measure: `parseAtom` needs `sz r`, `parseCat` `sz r + 1`, `parseAlt` `sz r + 2` -/
def sz : Re → Nat
  | .eps => 0
  | .chr _ => 1
  | .cls _ => 1
  | .wb => 1
  | .grp _ r => sz r + 3
  | .opt r => sz r
  | .star r => sz r
  | .plus r => sz r
  | .repN r _ => sz r
  | .repMN r _ _ => sz r
  | .cat a b => sz a + sz b + 1
  | .alt a b => sz a + sz b + 1

/-- the rendering of a canonical atom / piece / concatenation starts with an atom-start character -/
theorem Canon.atomHead {l : Lvl} {r : Re} (h : Canon l r) :
    l ≠ .alt → ∀ rest, AtomHead (render r ++ rest) := by
  induction h with
  | chr c =>
    intro _ rest
    simp only [render, reEscapeChar]
    split
    · exact ⟨'\\', c :: rest, rfl, by decide, by decide, by decide, by decide, by decide, by decide⟩
    · rename_i h
      refine ⟨c, rest, rfl, ?_, ?_, ?_, ?_, ?_, ?_⟩ <;> (intro e; subst e; exact h (by decide))
  | wb => intro _ rest; exact ⟨'\\', 'b' :: rest, rfl, by decide, by decide, by decide, by decide, by decide, by decide⟩
  | cls its hne hwf =>
    intro _ rest
    exact ⟨'[', _, by simp only [render, List.cons_append, List.nil_append, List.append_assoc]; rfl,
      by decide, by decide, by decide, by decide, by decide, by decide⟩
  | grp cap r h ih =>
    intro _ rest
    cases cap
    · exact ⟨'(', _, by simp only [render, List.cons_append, List.nil_append, List.append_assoc]; rfl,
        by decide, by decide, by decide, by decide, by decide, by decide⟩
    · exact ⟨'(', _, by simp only [render, List.cons_append, List.nil_append, List.append_assoc]; rfl,
        by decide, by decide, by decide, by decide, by decide, by decide⟩
  | ofAtom a h ih => intro _ rest; exact ih (by decide) rest
  | opt a h ih => intro _ rest; simpa only [render, List.append_assoc] using ih (by decide) _
  | star a h ih => intro _ rest; simpa only [render, List.append_assoc] using ih (by decide) _
  | plus a h ih => intro _ rest; simpa only [render, List.append_assoc] using ih (by decide) _
  | repN a m h ih => intro _ rest; simpa only [render, List.append_assoc] using ih (by decide) _
  | repMN a m n h hmn ih => intro _ rest; simpa only [render, List.append_assoc] using ih (by decide) _
  | ofPiece p h ih => intro _ rest; exact ih (by decide) rest
  | cat p q hp hq ihp ihq => intro _ rest; simpa only [render, List.append_assoc] using ihp (by decide) _
  | eps => intro h; exact absurd rfl h
  | ofCat c h ih => intro h; exact absurd rfl h
  | altEps r h ih => intro h; exact absurd rfl h
  | alt c r hc hr ihc ihr => intro h; exact absurd rfl h

theorem Canon.alt_head {r : Re} (h : Canon .alt r) (rest : List Char)
    (hr : rest.head? ≠ some '?') : (render r ++ rest).head? ≠ some '?' := by
  have key : ∀ t, AtomHead t → t.head? ≠ some '?' := by
    intro t ⟨c, t', e, h1, _⟩
    subst e
    simp only [List.head?_cons, ne_eq, Option.some.injEq]
    exact h1
  cases h with
  | eps => simpa only [render, List.nil_append] using hr
  | ofCat c h => exact key _ (h.atomHead (by decide) rest)
  | altEps r h => simp [render]
  | alt c r hc hr' =>
    simp only [render, List.append_assoc]
    exact key _ (hc.atomHead (by decide) _)

/-! ## 6. the fuel-generalised round trip -/

def RT : Lvl → Re → Prop
  | .atom, a => ∀ f rest, sz a ≤ f → parseAtom f (render a ++ rest) = some (a, rest)
  | .piece, p => ∀ f rest, sz p ≤ f → NoQ rest →
      ∃ a t, parseAtom f (render p ++ rest) = some (a, t) ∧ parseQuant a t = some (p, rest)
  | .cat, c => ∀ f rest, sz c + 1 ≤ f → CatEnd rest → parseCat f (render c ++ rest) = some (c, rest)
  | .alt, r => ∀ f rest, sz r + 2 ≤ f → AltEnd rest → parseAlt f (render r ++ rest) = some (r, rest)

theorem Canon.rt {l : Lvl} {r : Re} (h : Canon l r) : RT l r := by
  induction h with
  | chr c =>
    intro f rest hf
    obtain ⟨f', rfl⟩ : ∃ f', f = f' + 1 := ⟨f - 1, by simp only [sz] at hf; omega⟩
    exact parseAtom_chr c f' rest
  | wb =>
    intro f rest hf
    obtain ⟨f', rfl⟩ : ∃ f', f = f' + 1 := ⟨f - 1, by simp only [sz] at hf; omega⟩
    show parseAtom (f'+1) ('\\' :: 'b' :: rest) = _
    unfold parseAtom
    rfl
  | cls its hne hwf =>
    intro f rest hf
    obtain ⟨f', rfl⟩ : ∃ f', f = f' + 1 := ⟨f - 1, by simp only [sz] at hf; omega⟩
    simp only [render, List.cons_append, List.nil_append, List.append_assoc]
    unfold parseAtom
    simp only [parseCls_render its rest hne hwf]
  | grp cap r h ih =>
    intro f rest hf
    obtain ⟨f', rfl⟩ : ∃ f', f = f' + 1 := ⟨f - 1, by simp only [sz] at hf; omega⟩
    have hp := ih f' (')' :: rest) (by simp only [sz] at hf; omega) (.inr rfl)
    cases cap
    · simp only [render, List.cons_append, List.nil_append, List.append_assoc, Bool.false_eq_true,
        if_false]
      unfold parseAtom
      simp only [hp]
    · simp only [render, List.cons_append, List.nil_append, List.append_assoc, if_true]
      have hq := h.alt_head (')' :: rest) (by simp)
      unfold parseAtom
      split
      · rename_i heq
        simp only [List.cons.injEq, true_and] at heq
        rw [heq] at hq; simp at hq
      · rename_i heq
        simp only [List.cons.injEq, true_and] at heq
        rw [heq] at hq; simp at hq
      · rename_i heq
        simp only [List.cons.injEq, true_and] at heq
        subst heq
        simp only [hp]
      all_goals first
        | (rename_i heq; simp at heq; done)
        | (rename_i hx _ _ _ heq; simp only [List.cons.injEq] at heq; exact (hx heq.1.symm).elim)
  | ofAtom a h ih =>
    intro f rest hf hn
    exact ⟨a, rest, ih f rest hf, parseQuant_none a rest hn⟩
  | opt a h ih =>
    intro f rest hf hn
    refine ⟨a, '?' :: rest, ?_, rfl⟩
    simpa only [render, List.append_assoc, List.cons_append, List.nil_append] using ih f _ hf
  | star a h ih =>
    intro f rest hf hn
    refine ⟨a, '*' :: rest, ?_, rfl⟩
    simpa only [render, List.append_assoc, List.cons_append, List.nil_append] using ih f _ hf
  | plus a h ih =>
    intro f rest hf hn
    refine ⟨a, '+' :: rest, ?_, rfl⟩
    simpa only [render, List.append_assoc, List.cons_append, List.nil_append] using ih f _ hf
  | repN a m h ih =>
    intro f rest hf hn
    refine ⟨a, '{' :: (natDigits m ++ '}' :: rest), ?_, parseQuant_repN a m rest⟩
    simpa only [render, List.append_assoc, List.cons_append, List.nil_append] using ih f _ hf
  | repMN a m n h hmn ih =>
    intro f rest hf hn
    cases n with
    | none =>
      refine ⟨a, '{' :: (natDigits m ++ ',' :: '}' :: rest), ?_, parseQuant_repMN_none a m rest⟩
      simpa only [render, List.append_assoc, List.cons_append, List.nil_append] using ih f _ hf
    | some k =>
      refine ⟨a, '{' :: (natDigits m ++ ',' :: (natDigits k ++ '}' :: rest)), ?_,
        parseQuant_repMN_some a m k (hmn k rfl) rest⟩
      simpa only [render, List.append_assoc, List.cons_append, List.nil_append] using ih f _ hf
  | ofPiece p h ih =>
    intro f rest hf he
    obtain ⟨f', rfl⟩ : ∃ f', f = f' + 1 := ⟨f - 1, by omega⟩
    obtain ⟨a, t, ha, hq⟩ := ih f' rest (by omega) he.noQ
    exact parseCat_last f' _ t rest a p (h.atomHead (by decide) rest) ha hq he
  | cat p q hp hq ihp ihq =>
    intro f rest hf he
    obtain ⟨f', rfl⟩ : ∃ f', f = f' + 1 := ⟨f - 1, by omega⟩
    simp only [sz] at hf
    have hh2 := hq.atomHead (by decide) rest
    obtain ⟨a, t, ha, hqq⟩ := ihp f' (render q ++ rest) (by omega) hh2.noQ
    have hc := ihq f' rest (by omega) he
    simp only [render, List.append_assoc]
    exact parseCat_more f' _ t _ rest a p q (hp.atomHead (by decide) _) ha hqq hh2 hc
  | eps =>
    intro f rest hf he
    obtain ⟨f', rfl⟩ : ∃ f', f = f' + 2 := ⟨f - 2, by omega⟩
    simp only [render, List.nil_append]
    exact parseAlt_last (f'+1) rest rest .eps (parseCat_eps f' rest he.catEnd) he
  | ofCat c h ih =>
    intro f rest hf he
    obtain ⟨f', rfl⟩ : ∃ f', f = f' + 1 := ⟨f - 1, by omega⟩
    exact parseAlt_last f' _ rest c (ih f' rest (by omega) he.catEnd) he
  | altEps r h ih =>
    intro f rest hf he
    simp only [sz] at hf
    obtain ⟨f', rfl⟩ : ∃ f', f = f' + 2 := ⟨f - 2, by omega⟩
    simp only [render, List.nil_append, List.cons_append]
    exact parseAlt_more (f'+1) _ (render r ++ rest) rest .eps r
      (parseCat_eps f' _ (.inr (.inl rfl))) (ih (f'+1) rest (by omega) he)
  | alt c r hc hr ihc ihr =>
    intro f rest hf he
    simp only [sz] at hf
    obtain ⟨f', rfl⟩ : ∃ f', f = f' + 1 := ⟨f - 1, by omega⟩
    simp only [render, List.append_assoc, List.cons_append, List.nil_append]
    exact parseAlt_more f' _ (render r ++ rest) rest c r
      (ihc f' _ (by omega) (.inr (.inl rfl))) (ihr f' rest (by omega) he)

/-! ## 7. fuel bound and the main theorem -/

theorem reEscapeChar_length_pos (c : Char) : 1 ≤ (reEscapeChar c).length := by
  simp only [reEscapeChar]; split <;> simp

theorem Canon.sz_le {l : Lvl} {r : Re} (h : Canon l r) :
    sz r ≤ 2 * (render r).length ∧ (l ≠ .alt → sz r + 1 ≤ 2 * (render r).length) := by
  induction h with
  | chr c =>
    have := reEscapeChar_length_pos c
    simp only [sz, render]; omega
  | wb => simp [sz, render]
  | cls its hne hwf => simp only [sz, render, List.length_append, List.length_cons, List.length_nil]; omega
  | grp cap r h ih =>
    cases cap <;>
      simp only [sz, render, List.length_append, List.length_cons, List.length_nil, if_true,
        Bool.false_eq_true, if_false] <;> omega
  | ofAtom a h ih => have := ih.2 (by decide); omega
  | opt a h ih => have := ih.2 (by decide); simp only [sz, render, List.length_append]; omega
  | star a h ih => have := ih.2 (by decide); simp only [sz, render, List.length_append]; omega
  | plus a h ih => have := ih.2 (by decide); simp only [sz, render, List.length_append]; omega
  | repN a m h ih => have := ih.2 (by decide); simp only [sz, render, List.length_append]; omega
  | repMN a m n h hmn ih => have := ih.2 (by decide); simp only [sz, render, List.length_append]; omega
  | ofPiece p h ih => exact ⟨ih.1, fun _ => ih.2 (by decide)⟩
  | cat p q hp hq ihp ihq =>
    have := ihp.2 (by decide); have := ihq.2 (by decide)
    simp only [sz, render, List.length_append]; omega
  | eps => simp [sz, render]
  | ofCat c h ih => exact ⟨ih.1, fun h => absurd rfl h⟩
  | altEps r h ih =>
    refine ⟨?_, fun h => absurd rfl h⟩
    simp only [sz, render, List.length_append, List.length_cons, List.length_nil]; omega
  | alt c r hc hr ihc ihr =>
    refine ⟨?_, fun h => absurd rfl h⟩
    simp only [sz, render, List.length_append, List.length_cons, List.length_nil]; omega

/-- every canonical AST (of any level) is a canonical alternation, i.e. a canonical pattern -/
theorem Canon.toAlt {l : Lvl} {r : Re} (h : Canon l r) : Canon .alt r := by
  cases l with
  | atom => exact .ofCat _ (.ofPiece _ (.ofAtom _ h))
  | piece => exact .ofCat _ (.ofPiece _ h)
  | cat => exact .ofCat _ h
  | alt => exact h

/-- fuel-generalised statement for whole patterns -/
theorem parseAlt_render {r : Re} (h : Canon .alt r) (f : Nat) (rest : List Char)
    (hf : sz r + 2 ≤ f) (he : rest = [] ∨ rest.head? = some ')') :
    parseAlt f (render r ++ rest) = some (r, rest) :=
  h.rt f rest hf he

/-- **the parser inverts the renderer on canonical ASTs** -/
theorem parse_render {l : Lvl} (r : Re) (h : Canon l r) : parse (render r) = some r := by
  have ha := h.toAlt
  have hb := ha.sz_le.1
  have := ha.rt (2 * (render r).length + 4) [] (by omega) (.inl rfl)
  simp only [List.append_nil] at this
  simp only [parse, this]

/-- consequently `render` is injective on canonical ASTs: facts about the AST are facts about the text -/
theorem render_injective {l₁ l₂ : Lvl} {r₁ r₂ : Re} (h₁ : Canon l₁ r₁) (h₂ : Canon l₂ r₂)
    (h : render r₁ = render r₂) : r₁ = r₂ := by
  have e₁ := parse_render r₁ h₁
  have e₂ := parse_render r₂ h₂
  rw [h, e₂] at e₁
  exact (Option.some.inj e₁).symm

end PP.ReLite

/-! ## 8. the builders produce canonical ASTs -/

namespace PP.ReLite
open PP.Ranges

theorem canon_catL (rs : List Re) (hne : rs ≠ []) (h : ∀ r ∈ rs, Canon .piece r) :
    Canon .cat (catL rs) := by
  induction rs with
  | nil => exact absurd rfl hne
  | cons r rs ih =>
    cases rs with
    | nil => exact .ofPiece _ (h r (by simp))
    | cons r2 rs =>
      exact .cat _ _ (h r (by simp)) (ih (by simp) (fun x hx => h x (List.mem_cons_of_mem _ hx)))

theorem canon_altL (rs : List Re) (hne : rs ≠ []) (h : ∀ r ∈ rs, Canon .cat r) :
    Canon .alt (altL rs) := by
  induction rs with
  | nil => exact absurd rfl hne
  | cons r rs ih =>
    cases rs with
    | nil => exact .ofCat _ (h r (by simp))
    | cons r2 rs =>
      exact .alt _ _ (h r (by simp)) (ih (by simp) (fun x hx => h x (List.mem_cons_of_mem _ hx)))

theorem wf_escItem (c : Char) : WF (escItem c) := by
  simp only [escItem]
  split
  · trivial
  · split <;> trivial

theorem canon_cls_escItems (cs : List Char) (hne : cs ≠ []) : Canon .atom (.cls (cs.map escItem)) := by
  refine .cls _ (by simpa using hne) ?_
  intro it hit
  obtain ⟨c, _, rfl⟩ := List.mem_map.1 hit
  exact wf_escItem c

end PP.ReLite

namespace PP.OneOf
open PP.ReLite PP.Ranges

theorem canon_litRe (y : Sym) (hne : y ≠ []) : Canon .cat (litRe y) := by
  apply canon_catL
  · simpa using hne
  · intro r hr
    obtain ⟨c, _, rfl⟩ := List.mem_map.1 hr
    exact .ofAtom _ (.chr c)

theorem canon_altL_litRe (l : List Sym) (hne : l ≠ []) (hs : ∀ y ∈ l, y ≠ []) :
    Canon .alt (altL (l.map litRe)) := by
  apply canon_altL
  · simpa using hne
  · intro r hr
    obtain ⟨y, hy, rfl⟩ := List.mem_map.1 hr
    exact canon_litRe y (hs y hy)

theorem canon_oneOfRe (syms : List Sym) (hne : syms ≠ []) (hs : ∀ y ∈ syms, y ≠ []) :
    Canon .alt (oneOfRe syms) := by
  unfold oneOfRe
  split
  · have : syms.map (fun s => escItem (s.headD ' ')) = (syms.map (fun s => s.headD ' ')).map escItem := by
      simp
    rw [this]
    exact (canon_cls_escItems _ (by simpa using hne)).toAlt
  · exact canon_altL_litRe syms hne hs

/-- the text `one_of` hands to `re.compile` parses back to the AST it was rendered from -/
theorem parse_render_oneOfRe (syms : List Sym) (hne : syms ≠ []) (hs : ∀ y ∈ syms, y ≠ []) :
    parse (render (oneOfRe syms)) = some (oneOfRe syms) :=
  parse_render _ (canon_oneOfRe syms hne hs)

end PP.OneOf

namespace PP.CompressedRe
open PP.ReLite PP.Ranges PP.OneOf

theorem canon_clsOfSingles (ws : List W) (hne : ws ≠ []) : Canon .atom (clsOfSingles ws) := by
  unfold clsOfSingles
  have : ws.map (fun s => escItem (s.headD ' ')) = (ws.map (fun s => s.headD ' ')).map escItem := by
    simp
  rw [this]
  exact canon_cls_escItems _ (by simpa using hne)

/-- the recursive call returns a canonical pattern on non-empty lists of non-empty words -/
def CRecOK : Option (List W → Re) → Prop
  | none => True
  | some f => ∀ ws : List W, ws ≠ [] → (∀ w ∈ ws, w ≠ []) → Canon .alt (f ws)

theorem canon_q (tr : Bool) (a : Re) (h : Canon .atom a) :
    Canon .cat (if tr then .opt a else a) := by
  cases tr
  · exact .ofPiece _ (.ofAtom _ h)
  · exact .ofPiece _ (.opt _ h)

theorem canon_groupReBody (rec : Option (List W → Re)) (hrec : CRecOK rec) (c : Char) (tr : Bool)
    (sfx : List W) (hne : ∀ t ∈ sfx, t ≠ []) : Canon .cat (groupReBody rec c tr sfx) := by
  have hc : Canon .piece (.chr c) := .ofAtom _ (.chr c)
  unfold groupReBody
  simp only []
  split
  · exact .ofPiece _ hc
  · rename_i suf
    have hs : suf ≠ [] := hne suf (by simp)
    split
    · exact .cat _ _ hc (.ofPiece _ (.opt _ (.grp _ _ (canon_litRe suf hs).toAlt)))
    · split
      · exact .cat _ _ hc (canon_q tr _ (.chr _))
      · apply canon_catL
        · simp
        · intro r hr
          rcases List.mem_cons.1 hr with rfl | hr
          · exact hc
          · obtain ⟨d, _, rfl⟩ := List.mem_map.1 hr
            exact .ofAtom _ (.chr d)
  · rename_i hn1 _
    have hsne : sfx ≠ [] := hn1
    split
    · exact .cat _ _ hc (canon_q tr _ (canon_clsOfSingles sfx hsne))
    · split
      · rename_i f
        refine .cat _ _ hc (canon_q tr _ (.grp _ _ (hrec (sortStr sfx) ?_ ?_)))
        · obtain ⟨x, hx⟩ := List.exists_mem_of_ne_nil _ hsne
          exact mem_ne_nil_of_mem ((mem_sortBy _ x sfx).2 hx)
        · intro w hw
          exact hne w ((mem_sortBy _ w sfx).1 hw)
      · refine .cat _ _ hc (canon_q tr _ (.grp _ _ (canon_altL_litRe _ ?_ ?_)))
        · obtain ⟨x, hx⟩ := List.exists_mem_of_ne_nil _ hsne
          exact mem_ne_nil_of_mem ((mem_sortBy _ x sfx).2 hx)
        · intro w hw
          exact hne w ((mem_sortBy _ w sfx).1 hw)

theorem canon_groupRe (rec : Option (List W → Re)) (hrec : CRecOK rec) (c : Char) (sufs : List W) :
    Canon .cat (groupRe rec c sufs) := by
  rw [groupRe_eq]
  apply canon_groupReBody rec hrec
  intro t ht
  simp only [List.mem_filter] at ht
  intro e; subst e; simp at ht

theorem canon_level (rec : Option (List W → Re)) (hrec : CRecOK rec) (ws : List W) (hne : ws ≠ [])
    (hw : ∀ w ∈ ws, w ≠ []) :
    Canon .alt (altL ((groups (sortStr (dedupe ws))).map (fun g => groupRe rec g.1 g.2))) := by
  have hL : ∀ x, x ∈ sortStr (dedupe ws) ↔ x ∈ ws := by
    intro x; simp only [sortStr, mem_sortBy, mem_dedupe]
  generalize sortStr (dedupe ws) = L at hL
  apply canon_altL
  · obtain ⟨x, hx⟩ := List.exists_mem_of_ne_nil _ hne
    cases x with
    | nil => exact absurd rfl (hw _ hx)
    | cons y ys =>
      obtain ⟨g, hg, _⟩ := (mem_groups L y ys).2 ((hL _).2 hx)
      exact mem_ne_nil_of_mem (List.mem_map.2 ⟨g, hg, rfl⟩)
  · intro r hr
    obtain ⟨g, _, rfl⟩ := List.mem_map.1 hr
    exact canon_groupRe rec hrec g.1 g.2

theorem canon_mcrGo (rem : Nat) : ∀ (ws : List W), ws ≠ [] → (∀ w ∈ ws, w ≠ []) →
    Canon .alt (mcrGo rem ws) := by
  induction rem with
  | zero =>
    intro ws hne hw
    rw [mcrGo_eq, dedupe_isEmpty ws hne]
    exact canon_level none trivial ws hne hw
  | succ r ih =>
    intro ws hne hw
    rw [mcrGo_eq, dedupe_isEmpty ws hne]
    exact canon_level (some (mcrGo r)) ih ws hne hw

theorem canon_makeCompressedRe (words : List W) (maxLevel : Nat) (r : Re)
    (h : makeCompressedRe words maxLevel = some r) : Canon .alt r := by
  unfold makeCompressedRe at h
  split at h
  · simp at h
  · rename_i hc
    simp only [Bool.or_eq_true, not_or, Bool.not_eq_true] at hc
    have hne : words ≠ [] := by
      intro h'; subst h'; simp at hc
    have hw : ∀ w ∈ words, w ≠ [] := by
      intro w hw h'; subst h'
      have h1 : words.contains [] = true := List.contains_iff_mem.2 hw
      rw [hc.2] at h1
      exact Bool.noConfusion h1
    obtain ⟨x, hx⟩ := List.exists_mem_of_ne_nil _ hne
    simp only [] at h
    split at h
    · split at h
      · simp only [Option.some.injEq] at h
        subst h
        apply canon_altL_litRe
        · exact mem_ne_nil_of_mem ((mem_sortBy _ x _).2 ((mem_dedupe x words).2 hx))
        · intro y hy
          exact hw y ((mem_dedupe y words).1 ((mem_sortBy _ y _).1 hy))
      · simp only [Option.some.injEq] at h
        subst h
        exact (canon_clsOfSingles _ (mem_ne_nil_of_mem ((mem_dedupe x words).2 hx))).toAlt
    · simp only [Option.some.injEq] at h
      subst h
      exact canon_mcrGo _ words hne hw

/-- the text `make_compressed_re` returns parses back to the AST it was rendered from -/
theorem parse_render_makeCompressedRe (words : List W) (maxLevel : Nat) (r : Re)
    (h : makeCompressedRe words maxLevel = some r) : parse (render r) = some r :=
  parse_render r (canon_makeCompressedRe words maxLevel r h)

end PP.CompressedRe

namespace PP.WordPaths
open PP.ReLite PP.Ranges

theorem canon_clsOf (set : List Char) (hne : set ≠ []) : Canon .atom (clsOf set) :=
  .cls _ (collapseItems_ne_nil set hne) (collapseItems_wf set)

theorem canon_leadRe (I : List Char) (hne : I ≠ []) : Canon .atom (leadRe I) := by
  unfold leadRe
  split
  · exact .chr _
  · exact canon_clsOf I hne

theorem catApp_piece {p : Re} (h : Canon .piece p) (d : Re) : catApp p d = .cat p d := by
  cases h with
  | ofAtom a h => cases h <;> rfl
  | opt a h => rfl
  | star a h => rfl
  | plus a h => rfl
  | repN a m h => rfl
  | repMN a m n h hmn => rfl

theorem canon_catApp {c : Re} (h : Canon .cat c) (d : Re) (hd : Canon .cat d) :
    Canon .cat (catApp c d) := by
  generalize hl : Lvl.cat = l at h
  induction h with
  | ofPiece p h ih => rw [catApp_piece h d]; exact .cat _ _ h hd
  | cat p q hp hq ihp ihq => exact .cat _ _ hp (ihq rfl)
  | _ => cases hl

theorem canon_wordReCore (I B : List Char) (mn mx mnl : Nat) (mxl : Option Nat)
    (hI : I ≠ []) (hB : B ≠ []) (hmx : 0 < mx → mn ≤ mx) (hml : ∀ n, mxl = some n → mnl ≤ n) :
    Canon .cat (wordReCore I B mn mx mnl mxl) := by
  have hL := canon_leadRe I hI
  have hBd := canon_clsOf B hB
  unfold wordReCore
  simp only []
  generalize leadRe I = L at hL ⊢
  split
  · split
    · exact .ofPiece _ (.plus _ hL)
    · split
      · exact .ofPiece _ (.ofAtom _ hL)
      · split
        · exact .ofPiece _ (.repMN _ _ _ hL hml)
        · exact .ofPiece _ (.repN _ _ hL)
  · split
    · exact .ofPiece _ (.ofAtom _ hL)
    · split
      · exact .cat _ _ (.ofAtom _ hL) (.ofPiece _ (.star _ hBd))
      · split
        · split
          · exact .cat _ _ (.ofAtom _ hL) (.ofPiece _ (.opt _ hBd))
          · exact .cat _ _ (.ofAtom _ hL) (.ofPiece _ (.ofAtom _ hBd))
        · split
          · refine .cat _ _ (.ofAtom _ hL) (.ofPiece _ (.repMN _ _ _ hBd ?_))
            intro k hk
            split at hk
            · rename_i hpos
              have := hmx (by simpa using hpos)
              simp only [Option.some.injEq] at hk
              omega
            · cases hk
          · exact .cat _ _ (.ofAtom _ hL) (.ofPiece _ (.repN _ _ hBd))

theorem canon_wordRe (I B : List Char) (mn mx mnl : Nat) (mxl : Option Nat) (kw : Bool)
    (hI : I ≠ []) (hB : B ≠ []) (hmx : 0 < mx → mn ≤ mx) (hml : ∀ n, mxl = some n → mnl ≤ n) :
    Canon .cat (wordRe I B mn mx mnl mxl kw) := by
  have hc := canon_wordReCore I B mn mx mnl mxl hI hB hmx hml
  unfold wordRe
  simp only []
  split
  · exact .cat _ _ (.ofAtom _ .wb) (canon_catApp hc _ (.ofPiece _ (.ofAtom _ .wb)))
  · exact hc

/-- the `reString` built by `Word.__init__` parses back to the AST it was rendered from -/
theorem parse_render_wordRe (I B : List Char) (mn mx mnl : Nat) (mxl : Option Nat) (kw : Bool)
    (hI : I ≠ []) (hB : B ≠ []) (hmx : 0 < mx → mn ≤ mx) (hml : ∀ n, mxl = some n → mnl ≤ n) :
    parse (render (wordRe I B mn mx mnl mxl kw)) = some (wordRe I B mn mx mnl mxl kw) :=
  parse_render _ (canon_wordRe I B mn mx mnl mxl kw hI hB hmx hml)

/-- instance with the arguments `Word.__init__` passes (`minLen = min`, `maxLen` from `max`) -/
theorem parse_render_wordRe' (I B : List Char) (mn mx : Nat) (kw : Bool)
    (hI : I ≠ []) (hB : B ≠ []) (hmx : 0 < mx → mn ≤ mx) :
    parse (render (wordRe I B mn mx mn (if mx > 0 then some mx else none) kw)) =
      some (wordRe I B mn mx mn (if mx > 0 then some mx else none) kw) := by
  apply parse_render_wordRe I B mn mx mn _ kw hI hB hmx
  intro n hn
  split at hn
  · rename_i hpos
    simp only [Option.some.injEq] at hn
    have := hmx hpos; omega
  · cases hn

/-- every regex a successfully constructed `Word` carries is canonical, hence round-trips -/
theorem canon_reOf (a : WordArgs) (w : Word) (h : mkWord a = some w) (r : Re)
    (hr : reOf a = some r) : Canon .cat r := by
  obtain ⟨_, _, _, _, _, hmx, _, _, _⟩ := mkWord_facts a w h
  unfold reOf at hr
  split at hr
  · cases hr
  · split at hr
    · cases hr
    · rename_i _ hI
      simp only [Option.some.injEq] at hr
      subst hr
      have hI' : initSetOf a ≠ [] := by
        intro e; rw [e] at hI; simp at hI
      apply canon_wordRe _ _ _ _ _ _ _ hI' _ hmx
      · intro n hn
        unfold maxLenOf at hn
        split at hn
        · rename_i hpos
          simp only [Option.some.injEq] at hn
          have := hmx hpos; omega
        · cases hn
      · unfold bodySetOf
        split
        · exact hI'
        · rename_i hb
          apply sortU_ne_nil
          intro e; rw [e] at hb; simp at hb

theorem parse_render_reOf (a : WordArgs) (w : Word) (h : mkWord a = some w) (r : Re)
    (hr : reOf a = some r) : parse (render r) = some r :=
  parse_render r (canon_reOf a w h r hr)

end PP.WordPaths
