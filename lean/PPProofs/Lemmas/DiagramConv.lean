import PPProofs.Lemmas.DiagramState
/-! Helper lemmas for C20: an induction principle for state invariants of `conv`, and the general
    invariant "an element without a custom name is never named, marked or extracted". -/
namespace PP.Diagram

abbrev Rec := Nat → Option Nat → Nat → Option String → St → Option (Option Nat × St)

theorem stepKid_inv (I : St → Prop) (rec : Rec) (ret : Nat)
    (hkw : ∀ s r kw, I s → I (s.setKw r kw))
    (hrec : ∀ c p i h s r s', I s → rec c p i h s = some (r, s') → I s') :
    ∀ c i s i' s', I s → stepKid rec ret c i s = some (i', s') → I s' := by
  intro c i s i' s' hI h
  unfold stepKid at h
  split at h
  · exact absurd h (by simp)
  · rename_i item s2 hr
    have hI1 : I (addPlaceholder s ret i) := by
      unfold addPlaceholder
      split
      · exact hkw _ _ _ hI
      · exact hI
    have hI2 : I s2 := hrec _ _ _ _ _ _ _ hI1 hr
    split at h <;> simp only [Option.some.injEq, Prod.mk.injEq] at h <;> obtain ⟨_, rfl⟩ := h
    · exact hkw _ _ _ hI2
    · exact hkw _ _ _ hI2
    · exact hI2
    · exact hkw _ _ _ hI2
    · exact hI2

theorem loopKids_inv (I : St → Prop) (rec : Rec) (ret : Nat)
    (hkw : ∀ s r kw, I s → I (s.setKw r kw))
    (hrec : ∀ c p i h s r s', I s → rec c p i h s = some (r, s') → I s') :
    ∀ kids i s s', I s → loopKids rec ret kids i s = some s' → I s' := by
  intro kids
  induction kids with
  | nil => intro i s s' hI h; simp [loopKids] at h; exact h ▸ hI
  | cons c cs ih =>
    intro i s s' hI h
    unfold loopKids at h
    split at h
    · exact absurd h (by simp)
    · rename_i i' s1 hs
      exact ih _ _ _ (stepKid_inv I rec ret hkw hrec _ _ _ _ _ hI hs) h

/-- induction principle: a state predicate preserved by the non-recursive parts of
    `_to_diagram_element` is preserved by every terminating call -/
theorem conv_inv (g : Grammar) (o : Opts) (I : St → Prop)
    (hkw : ∀ s r kw, I s → I (s.setKw r kw))
    (hret : ∀ el n p i h s r s', g[el]? = some n → I s → pre g o el n p i h s = .ret r s' → I s')
    (hloop : ∀ el n p i h s r s', g[el]? = some n → I s → pre g o el n p i h s = .loop r s' → I s')
    (hpost : ∀ el n h ret s, g[el]? = some n → I s → I (post el n h ret s).2)
    (hann : ∀ n r s, I s → I (annotate o n r s).2) :
    ∀ fuel el p i h s r s', I s → conv g o fuel el p i h s = some (r, s') → I s' := by
  intro fuel
  induction fuel with
  | zero => intro el p i h s r s' _ hc; simp [conv] at hc
  | succ f ih =>
    intro el p i h s r s' hI hc
    unfold conv at hc
    cases hg : g[el]? with
    | none => simp [hg] at hc; exact hc.2 ▸ hI
    | some n =>
      simp only [hg] at hc
      cases hb : convBody g o (conv g o f) el n p i h s with
      | none => simp [hb] at hc
      | some rs =>
        obtain ⟨r1, s1⟩ := rs
        simp only [hb, Option.some.injEq] at hc
        have e : (annotate o n r1 s1).2 = s' := by rw [hc]
        refine e ▸ hann n r1 s1 ?_
        unfold convBody at hb
        cases hp : pre g o el n p i h s with
        | ret r0 s0 =>
          simp only [hp, Option.some.injEq, Prod.mk.injEq] at hb
          exact hb.2 ▸ hret _ _ _ _ _ _ _ _ hg hI hp
        | pass c h' =>
          simp only [hp] at hb
          exact ih _ _ _ _ _ _ _ hI hb
        | loop ret s0 =>
          simp only [hp] at hb
          have hI0 := hloop _ _ _ _ _ _ _ _ hg hI hp
          cases hl : loopKids (conv g o f) ret n.kids 0 s0 with
          | none => simp [hl] at hb
          | some s2 =>
            simp only [hl, Option.some.injEq] at hb
            have hI1 := loopKids_inv I (conv g o f) ret hkw
              (fun c p i h s r s' a b => ih c p i h s r s' a b) _ _ _ _ hI0 hl
            have := hpost el n h ret s2 hg hI1
            have e2 : (post el n h ret s2).2 = s1 := by rw [hb]
            exact e2 ▸ this

end PP.Diagram
