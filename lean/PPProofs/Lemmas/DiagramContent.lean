import PPProofs.Lemmas.DiagramFilled
/-! Helper lemmas for C20 (no_empty_placeholder, the `content` of a diagram entry): an element is
    extracted only after its own conversion is complete, when its partial is filled. -/
namespace PP.Diagram

/-- lookup entries point into the heap; a complete entry points to a filled partial -/
structure KInv (s : St) : Prop where
  bound : ∀ u st, aget s.lookup u = some st → st.converted < s.heap.length
  fill : ∀ u st, aget s.lookup u = some st → st.complete = true → (s.node st.converted).kw.filled = true

def DInv (s : St) : Prop := ∀ p ∈ s.diagrams, p.2.content.isRef = true

theorem mem_aset {α} (l : List (Nat × α)) (k : Nat) (v : α) (p : Nat × α) (h : p ∈ aset l k v) :
    p ∈ l ∨ p = (k, v) := by
  induction l with
  | nil => simp only [aset, List.mem_singleton] at h; exact Or.inr h
  | cons q rest ih =>
    obtain ⟨k', v'⟩ := q
    unfold aset at h
    split at h
    · rcases List.mem_cons.mp h with h | h
      · exact Or.inr h
      · exact Or.inl (List.mem_cons_of_mem _ h)
    · rcases List.mem_cons.mp h with h | h
      · exact Or.inl (h ▸ List.mem_cons_self ..)
      · rcases ih h with h | h
        · exact Or.inl (List.mem_cons_of_mem _ h)
        · exact Or.inr h

/-- entries that point below `n` are old entries (same partial, not completed in between) -/
def Fr (n : Nat) (s s' : St) : Prop :=
  ∀ u st', aget s'.lookup u = some st' → st'.converted < n →
    ∃ st, aget s.lookup u = some st ∧ st.converted = st'.converted ∧ (st'.complete = true → st.complete = true)

theorem Fr.refl (n : Nat) (s : St) : Fr n s s := fun _ st' h _ => ⟨st', h, rfl, fun h => h⟩

theorem Fr.trans {n : Nat} {a b c : St} (h1 : Fr n a b) (h2 : Fr n b c) : Fr n a c := by
  intro u st' h hlt
  obtain ⟨st1, e1, e2, e3⟩ := h2 u st' h hlt
  obtain ⟨st0, f1, f2, f3⟩ := h1 u st1 e1 (by omega)
  exact ⟨st0, f1, by omega, fun hc => f3 (e3 hc)⟩

theorem Fr.weaken {n m : Nat} {a b : St} (h : Fr n a b) (hm : m ≤ n) : Fr m a b :=
  fun u st' h1 h2 => h u st' h1 (by omega)

theorem Fr_lookup_eq {n : Nat} {s s' : St} (h : s'.lookup = s.lookup) : Fr n s s' := by
  intro u st' h1 _
  rw [h] at h1
  exact ⟨st', h1, rfl, fun h => h⟩

theorem node_filled_mono {s s' : St} (hm : Mono s s') (c : Nat) (hc : c < s.heap.length)
    (hf : (s.node c).kw.filled = true) : (s'.node c).kw.filled = true := by
  have ha := List.getElem?_eq_getElem hc
  obtain ⟨b, hb, hab⟩ := hm c _ ha
  rw [node_of_get hb]
  rw [node_of_get ha] at hf
  exact KwLe_filled hab hf

/-- (S1) a heap step that leaves the tables alone -/
theorem KInv_heap {s s' : St} (hl : s'.lookup = s.lookup) (hlen : s.heap.length ≤ s'.heap.length)
    (hm : Mono s s') (h : KInv s) : KInv s' := by
  refine ⟨?_, ?_⟩
  · intro u st hu; rw [hl] at hu; have := h.bound u st hu; omega
  · intro u st hu hc; rw [hl] at hu
    exact node_filled_mono hm _ (h.bound u st hu) (h.fill u st hu hc)

theorem KInv_HS {s s' : St} (h : KInv s) (hs : HS s s') (hl : s'.lookup = s.lookup) : KInv s' :=
  KInv_heap hl hs.1 hs.2.1 h

/-- (S2) writing an entry -/
theorem KInv_setL (s : St) (idx el : Nat) (st' : EState) (h : KInv s)
    (h1 : st'.converted < s.heap.length) (h2 : st'.complete = true → (s.node st'.converted).kw.filled = true) :
    KInv (setL s idx el st') := by
  refine ⟨?_, ?_⟩
  · intro u st hu
    by_cases hu' : u = el
    · subst hu'
      simp only [setL, aget_aset_same, Option.some.injEq] at hu
      subst hu; exact h1
    · simp only [setL, aget_aset_ne _ _ _ _ hu'] at hu
      exact h.bound u st hu
  · intro u st hu hc
    by_cases hu' : u = el
    · subst hu'
      simp only [setL, aget_aset_same, Option.some.injEq] at hu
      subst hu; exact h2 hc
    · simp only [setL, aget_aset_ne _ _ _ _ hu'] at hu
      exact h.fill u st hu hc

theorem Fr_setL (n : Nat) (s : St) (idx el : Nat) (st' : EState)
    (h : st'.converted < n → ∃ st, aget s.lookup el = some st ∧ st.converted = st'.converted ∧
      (st'.complete = true → st.complete = true)) : Fr n s (setL s idx el st') := by
  intro u st hu hlt
  by_cases hu' : u = el
  · subst hu'
    simp only [setL, aget_aset_same, Option.some.injEq] at hu
    subst hu; exact h hlt
  · simp only [setL, aget_aset_ne _ _ _ _ hu'] at hu
    exact ⟨st, hu, rfl, fun h => h⟩

/-! ### extract_into_diagram with its content made explicit -/

def contentOf (s : St) (r : Nat) : Slot :=
  if (s.node r).func = .group then
    match (s.node r).kw with
    | .item v => v
    | _ => .ref r
  else .ref r

theorem extract_eq' (s : St) (el : Nat) (pos : EState) (h : aget s.lookup el = some pos) :
    extractIntoDiagram s el = exFin (exNT s pos) el pos (contentOf (exNT s pos) pos.converted) := by
  unfold extractIntoDiagram exNT contentOf
  simp only [h]
  cases pos.parent <;> rfl

theorem contentOf_isRef (s : St) (r : Nat) (h : (s.node r).kw.filled = true) : (contentOf s r).isRef = true := by
  unfold contentOf
  split
  · split
    · rename_i v hv; rw [hv] at h; exact h
    · rfl
  · rfl

theorem exFin_KD (s1 : St) (el : Nat) (pos : EState) (c : Slot) (hk : KInv s1) (hd : DInv s1)
    (hc : c.isRef = true) : KInv (exFin s1 el pos c) ∧ DInv (exFin s1 el pos c) ∧ ∀ n, Fr n s1 (exFin s1 el pos c) := by
  refine ⟨⟨?_, ?_⟩, ?_, ?_⟩
  · intro u st hu
    by_cases hu' : u = el
    · subst hu'; simp [exFin, aget_adel_same] at hu
    · simp only [exFin, aget_adel_ne _ _ _ hu'] at hu
      exact hk.bound u st hu
  · intro u st hu hcc
    by_cases hu' : u = el
    · subst hu'; simp [exFin, aget_adel_same] at hu
    · simp only [exFin, aget_adel_ne _ _ _ hu'] at hu
      exact hk.fill u st hu hcc
  · intro p hp
    rcases mem_aset _ _ _ p hp with h | h
    · exact hd p h
    · rw [h]; exact hc
  · intro n u st hu _
    by_cases hu' : u = el
    · subst hu'; simp [exFin, aget_adel_same] at hu
    · simp only [exFin, aget_adel_ne _ _ _ hu'] at hu
      exact ⟨st, hu, rfl, fun h => h⟩

/-- (S3) extraction of a complete (or absent) element -/
theorem extract_KD (s : St) (el : Nat) (hk : KInv s) (hd : DInv s)
    (hc : ∀ pos, aget s.lookup el = some pos → pos.complete = true) :
    KInv (extractIntoDiagram s el) ∧ DInv (extractIntoDiagram s el) ∧ ∀ n, Fr n s (extractIntoDiagram s el) := by
  cases hl : aget s.lookup el with
  | none => rw [extract_none s el hl]; exact ⟨hk, hd, fun n => Fr.refl n s⟩
  | some pos =>
    rw [extract_eq' s el pos hl]
    have hk1 : KInv (exNT s pos) := KInv_HS hk (HS_exNT s pos) (exNT_lookup s pos)
    have hd1 : DInv (exNT s pos) := by unfold DInv; rw [exNT_diagrams]; exact hd
    have hl1 : aget (exNT s pos).lookup el = some pos := by rw [exNT_lookup]; exact hl
    obtain ⟨a, b, c⟩ := exFin_KD (exNT s pos) el pos _ hk1 hd1
      (contentOf_isRef _ _ (hk1.fill el pos hl1 (hc pos hl)))
    exact ⟨a, b, fun n => (Fr_lookup_eq (exNT_lookup s pos)).trans (c n)⟩

/-- (S4) mark_for_extraction, not forced -/
theorem mark_KD (g : Grammar) (s : St) (el : Nat) (name : Option String) (hk : KInv s) (hd : DInv s) :
    KInv (markForExtraction g s el name false) ∧ DInv (markForExtraction g s el name false) ∧
      ∀ n, Fr n s (markForExtraction g s el name false) := by
  cases hl : aget s.lookup el with
  | none =>
    have e : markForExtraction g s el name false = s := by
      unfold markForExtraction; simp only [hl]
    rw [e]; exact ⟨hk, hd, fun n => Fr.refl n s⟩
  | some st =>
    rw [mark_eq g s el name false st hl]
    have hk1 : KInv (setL s s.index el { st with extract := true, name := markName g st el name }) :=
      KInv_setL s s.index el _ hk (hk.bound el st hl) (hk.fill el st hl)
    have hf1 : ∀ n, Fr n s (setL s s.index el { st with extract := true, name := markName g st el name }) :=
      fun n => Fr_setL n s s.index el _ (fun _ => ⟨st, hl, rfl, fun h => h⟩)
    have hd1 : DInv (setL s s.index el { st with extract := true, name := markName g st el name }) := hd
    split
    · rename_i hc
      obtain ⟨a, b, c⟩ := extract_KD _ el hk1 hd1 (fun pos hp => by
        simp only [setL, aget_aset_same, Option.some.injEq] at hp
        subst hp
        simp only [Bool.false_or, Bool.and_eq_true] at hc
        exact hc.1)
      exact ⟨a, b, fun n => (hf1 n).trans (c n)⟩
    · exact ⟨hk1, hd1, hf1⟩

/-- (S7) a non-monotone update of a partial that no complete entry points to -/
theorem KInv_setKw (s : St) (ret : Nat) (kw : Kw) (h : KInv s)
    (hL : ∀ u st, aget s.lookup u = some st → st.converted = ret → st.complete = false) :
    KInv (s.setKw ret kw) := by
  refine ⟨?_, ?_⟩
  · intro u st hu; rw [setKw_len]; exact h.bound u st hu
  · intro u st hu hc
    have hne : st.converted ≠ ret := by
      intro e; have := hL u st hu e; rw [hc] at this; exact absurd this (by simp)
    have := h.fill u st hu hc
    have hb := h.bound u st hu
    have ha := List.getElem?_eq_getElem hb
    have e : (s.setKw ret kw).heap[st.converted]? = some s.heap[st.converted] := by
      rw [setKw_get]; simp only [Ne.symm hne, if_false]; exact ha
    rw [node_of_get e]
    rw [node_of_get ha] at this
    exact this

/-! ### the loop over the children -/

structure LK (s0 sk : St) (ret : Nat) : Prop where
  k : KInv sk
  d : DInv sk
  fr : Fr (ret + 1) s0 sk
  hlt : ret < sk.heap.length

/-- in the state after `register`, the entries pointing to `ret` are incomplete -/
def H0 (s0 : St) (ret : Nat) : Prop :=
  ∀ u st, aget s0.lookup u = some st → st.converted = ret → st.complete = false

theorem LK_incomplete {s0 sk : St} {ret : Nat} (h : LK s0 sk ret) (h0 : H0 s0 ret) :
    ∀ u st, aget sk.lookup u = some st → st.converted = ret → st.complete = false := by
  intro u st hu hc
  obtain ⟨st0, e1, e2, e3⟩ := h.fr u st hu (by omega)
  have := h0 u st0 e1 (by omega)
  cases hcc : st.complete with
  | false => rfl
  | true => rw [e3 hcc] at this; exact absurd this (by simp)

theorem LK_setKw {s0 sk : St} {ret : Nat} (h : LK s0 sk ret) (h0 : H0 s0 ret) (kw : Kw) :
    LK s0 (sk.setKw ret kw) ret :=
  ⟨KInv_setKw sk ret kw h.k (LK_incomplete h h0), h.d, h.fr.trans (Fr_lookup_eq rfl), by rw [setKw_len]; exact h.hlt⟩

abbrev RecKD (g : Grammar) (rec : Rec) : Prop :=
  ∀ c p i h s r s', c < g.length → rec c p i h s = some (r, s') →
    HS s s' ∧ (KInv s → DInv s → KInv s' ∧ DInv s' ∧ Fr s.heap.length s s')

theorem stepKid_KD (g : Grammar) (rec : Rec) (s0 : St) (ret : Nat) (hrec : RecKD g rec) (h0 : H0 s0 ret)
    (c i : Nat) (sk : St) (i' : Nat) (sk' : St) (hc : c < g.length)
    (h : stepKid rec ret c i sk = some (i', sk')) (hL : LK s0 sk ret) : LK s0 sk' ret := by
  unfold stepKid at h
  have hL1 : LK s0 (addPlaceholder sk ret i) ret := by
    unfold addPlaceholder
    split
    · exact LK_setKw hL h0 _
    · exact hL
  split at h
  · exact absurd h (by simp)
  · rename_i item s2 hr
    obtain ⟨hHS, hkd⟩ := hrec _ _ _ _ _ _ _ hc hr
    obtain ⟨a, b, cfr⟩ := hkd hL1.k hL1.d
    have hL2 : LK s0 s2 ret :=
      ⟨a, b, hL1.fr.trans (cfr.weaken (by have := hL1.hlt; omega)), by have := hL1.hlt; have := hHS.1; omega⟩
    split at h <;> simp only [Option.some.injEq, Prod.mk.injEq] at h <;> obtain ⟨_, rfl⟩ := h
    · exact LK_setKw hL2 h0 _
    · exact LK_setKw hL2 h0 _
    · exact hL2
    · exact LK_setKw hL2 h0 _
    · exact hL2

theorem loopKids_KD (g : Grammar) (rec : Rec) (s0 : St) (ret : Nat) (hrec : RecKD g rec) (h0 : H0 s0 ret) :
    ∀ (kids : List Nat) (i : Nat) (sk sk' : St), (∀ c ∈ kids, c < g.length) →
      loopKids rec ret kids i sk = some sk' → LK s0 sk ret → LK s0 sk' ret := by
  intro kids
  induction kids with
  | nil => intro i sk sk' _ h hL; simp only [loopKids, Option.some.injEq] at h; exact h ▸ hL
  | cons c cs ih =>
    intro i sk sk' hin h hL
    unfold loopKids at h
    split at h
    · exact absurd h (by simp)
    · rename_i i1 s1 hs
      exact ih i1 s1 sk' (fun c' hc' => hin c' (List.mem_cons_of_mem _ hc')) h
        (stepKid_KD g rec s0 ret hrec h0 c i sk i1 s1 (hin c (List.mem_cons_self ..)) hs hL)

/-! ### register / post / annotate -/

theorem register_KD (g : Grammar) (s : St) (el : Nat) (n : Node) (parent : Option Nat) (index : Nat)
    (pn : PNode) (hk : KInv s) (hd : DInv s) :
    KInv (register g s el n parent index pn).2 ∧ DInv (register g s el n parent index pn).2 ∧
      Fr s.heap.length s (register g s el n parent index pn).2 ∧
      H0 (register g s el n parent index pn).2 s.heap.length ∧
      (∀ st, aget (register g s el n parent index pn).2.lookup el = some st →
        st.converted = s.heap.length) := by
  let es : EState := { converted := s.heap.length, parent := parent, parentIndex := index, number := s.index + 1 }
  have hkA : KInv (s.alloc pn).2 := KInv_heap (s := s) rfl (by simp [St.alloc]) (Mono_alloc s pn) hk
  have hk2 : KInv (setL (s.alloc pn).2 (s.index + 1) el es) :=
    KInv_setL _ _ el es hkA (by simp [St.alloc, es]) (fun h => absurd h (by simp [es]))
  have hd2 : DInv (setL (s.alloc pn).2 (s.index + 1) el es) := hd
  have hf2 : Fr s.heap.length s (setL (s.alloc pn).2 (s.index + 1) el es) :=
    (Fr_lookup_eq (s' := (s.alloc pn).2) rfl).trans
      (Fr_setL _ _ _ el es (fun h => absurd h (by simp [es])))
  have h02 : H0 (setL (s.alloc pn).2 (s.index + 1) el es) s.heap.length := by
    intro u st hu hc
    by_cases hu' : u = el
    · subst hu'
      simp only [setL, aget_aset_same, Option.some.injEq] at hu
      subst hu; rfl
    · simp only [setL, aget_aset_ne _ _ _ _ hu'] at hu
      have := hk.bound u st hu
      omega
  have h22 : ∀ st, aget (setL (s.alloc pn).2 (s.index + 1) el es).lookup el = some st →
      st.converted = s.heap.length := by
    intro st hst
    simp only [setL, aget_aset_same, Option.some.injEq] at hst
    subst hst; rfl
  unfold register
  simp only
  split
  · obtain ⟨a, b, c⟩ := mark_KD g (setL (s.alloc pn).2 (s.index + 1) el es) el n.custom hk2 hd2
    refine ⟨a, b, hf2.trans (c _), ?_, ?_⟩
    · intro u st hu hc
      obtain ⟨st0, e1, e2, e3⟩ := c (s.heap.length + 1) u st hu (by omega)
      have := h02 u st0 e1 (by omega)
      cases hcc : st.complete with
      | false => rfl
      | true => rw [e3 hcc] at this; exact absurd this (by simp)
    · intro st hst
      obtain ⟨st0, e1, e2, _⟩ := c (st.converted + 1) el st hst (by omega)
      have := h22 st0 e1
      omega
  · exact ⟨hk2, hd2, hf2, h02, h22⟩

theorem setComplete_KD (sP : St) (el m : Nat) (hk1 : KInv sP) (hd1 : DInv sP)
    (hfill1 : ∀ st, aget sP.lookup el = some st → (sP.node st.converted).kw.filled = true)
    (hL21 : ∀ st, aget sP.lookup el = some st → m ≤ st.converted) :
    KInv (setComplete sP el) ∧ DInv (setComplete sP el) ∧ Fr m sP (setComplete sP el) ∧
      (∀ st, aget (setComplete sP el).lookup el = some st → st.complete = true) := by
  unfold setComplete
  cases hl : aget sP.lookup el with
  | none =>
    simp only
    exact ⟨hk1, hd1, Fr.refl m sP, fun st hst => by rw [hl] at hst; exact absurd hst (by simp)⟩
  | some st =>
    simp only
    refine ⟨KInv_setL sP sP.index el { st with complete := true } hk1 (hk1.bound el st hl) (fun _ => hfill1 st hl),
      hd1, Fr_setL m sP sP.index el _ (fun hlt => ?_), ?_⟩
    · have := hL21 st hl
      exact absurd hlt (by simp only; omega)
    · intro st2 hst2
      have : aget (aset sP.lookup el { st with complete := true }) el = some st2 := hst2
      rw [aget_aset_same] at this
      simp only [Option.some.injEq] at this
      subst this; rfl

theorem post_KD (el : Nat) (n : Node) (hint : Option String) (ret : Nat) (s2 : St) (m : Nat)
    (hk : KInv s2) (hd : DInv s2) (hnew : NewFilled m s2)
    (hL2 : ∀ st, aget s2.lookup el = some st → m ≤ st.converted) :
    KInv (post el n hint ret s2).2 ∧ DInv (post el n hint ret s2).2 ∧ Fr m s2 (post el n hint ret s2).2 := by
  have hfill : ∀ st, aget s2.lookup el = some st → (s2.node st.converted).kw.filled = true := by
    intro st hst
    have hb := hk.bound el st hst
    have ha := List.getElem?_eq_getElem hb
    rw [node_of_get ha]
    exact hnew _ _ (hL2 st hst) ha
  have hHS1 : HS s2 (post1 n hint ret s2).2 := by
    unfold post1
    split
    · exact HS_alloc s2 _ rfl
    · exact HS.refl s2
  have hl1 : (post1 n hint ret s2).2.lookup = s2.lookup := by
    unfold post1; split <;> rfl
  have hd1e : (post1 n hint ret s2).2.diagrams = s2.diagrams := by
    unfold post1; split <;> rfl
  have hk1 : KInv (post1 n hint ret s2).2 := KInv_HS hk hHS1 hl1
  have hd1 : DInv (post1 n hint ret s2).2 := by unfold DInv; rw [hd1e]; exact hd
  have hfill1 : ∀ st, aget (post1 n hint ret s2).2.lookup el = some st →
      ((post1 n hint ret s2).2.node st.converted).kw.filled = true := by
    intro st hst
    rw [hl1] at hst
    exact node_filled_mono hHS1.2.1 _ (hk.bound el st hst) (hfill st hst)
  have hL21 : ∀ st, aget (post1 n hint ret s2).2.lookup el = some st → m ≤ st.converted := by
    intro st hst; rw [hl1] at hst; exact hL2 st hst
  obtain ⟨c1, c2, c3, c4⟩ := setComplete_KD (post1 n hint ret s2).2 el m hk1 hd1 hfill1 hL21
  have hfr0 : Fr m s2 (post1 n hint ret s2).2 := Fr_lookup_eq hl1
  unfold post
  simp only
  split
  · split
    · obtain ⟨e1, e2, e3⟩ := extract_KD _ el c1 c2 (fun pos hp => c4 pos hp)
      exact ⟨KInv_HS e1 (HS_newNT _ _) rfl, e2, hfr0.trans (c3.trans ((e3 m).trans (Fr_lookup_eq rfl)))⟩
    · exact ⟨c1, c2, hfr0.trans c3⟩
  · exact ⟨c1, c2, hfr0.trans c3⟩

theorem annotate_KD (o : Opts) (n : Node) (r : Option Nat) (s : St) (hk : KInv s) (hd : DInv s) (m : Nat) :
    KInv (annotate o n r s).2 ∧ DInv (annotate o n r s).2 ∧ Fr m s (annotate o n r s).2 := by
  unfold annotate
  split
  · exact ⟨hk, hd, Fr.refl m s⟩
  · split
    · exact ⟨KInv_HS hk (HS_alloc s _ rfl) rfl, hd, Fr_lookup_eq rfl⟩
    · exact ⟨hk, hd, Fr.refl m s⟩

/-- **the link between the lookup table and the heap is kept by every returning call**: complete
    entries point to filled partials, every diagram content is a reference -/
theorem conv_KD (g : Grammar) (o : Opts) (hd : drawsAll g o = true) :
    ∀ fuel el p i h s r s', el < g.length → conv g o fuel el p i h s = some (r, s') →
      KInv s → DInv s → KInv s' ∧ DInv s' ∧ Fr s.heap.length s s' := by
  intro fuel
  induction fuel with
  | zero => intro el p i h s r s' _ hc; simp [conv] at hc
  | succ f ih =>
    intro el p i h s r s' hel hc hK hD
    unfold conv at hc
    have hg : g[el]? = some g[el] := List.getElem?_eq_getElem hel
    generalize g[el] = n at hg
    have hn := drawsAll_node hd hg
    simp only [hg] at hc
    cases hb : convBody g o (conv g o f) el n p i h s with
    | none => simp [hb] at hc
    | some rs =>
      obtain ⟨r1, s1⟩ := rs
      simp only [hb, Option.some.injEq] at hc
      suffices hh : KInv s1 ∧ DInv s1 ∧ Fr s.heap.length s s1 by
        obtain ⟨a1, a2, a3⟩ := annotate_KD o n r1 s1 hh.1 hh.2.1 s.heap.length
        rw [hc] at a1 a2 a3
        exact ⟨a1, a2, hh.2.2.trans a3⟩
      have hrecKD : RecKD g (conv g o f) := fun c p i h s r s' hcl hcv =>
        ⟨(conv_HS g o hd f c p i h s r s' hcl hcv).1, fun k d => ih c p i h s r s' hcl hcv k d⟩
      unfold convBody at hb
      cases hp : pre g o el n p i h s with
      | pass c h' =>
        simp only [hp] at hb
        have hc' : c < g.length := by
          unfold pre at hp
          split at hp
          · rename_i hpass
            simp only [Pre.pass.injEq] at hp
            have hk : n.kids ≠ [] := by
              intro hk
              simp [isPass, hk] at hpass
            obtain ⟨hc1, _⟩ := hp
            rw [← hc1]
            cases hkk : n.kids with
            | nil => exact absurd hkk hk
            | cons a as =>
              exact drawOK_kids hn a (by rw [hkk]; exact List.mem_cons_self ..)
          · split at hp
            · exact absurd hp (by simp)
            · exact absurd hp (by simp)
            · unfold preFresh at hp
              split at hp
              · exact absurd hp (by simp)
              · split at hp <;> exact absurd hp (by simp)
        exact ih _ _ _ _ _ _ _ hc' hb hK hD
      | ret r0 s0 =>
        simp only [hp, Option.some.injEq, Prod.mk.injEq] at hb
        obtain ⟨rfl, rfl⟩ := hb
        unfold pre at hp
        split at hp
        · exact absurd hp (by simp)
        · split at hp
          · simp only [Pre.ret.injEq] at hp
            obtain ⟨rfl, rfl⟩ := hp
            obtain ⟨a, b, c⟩ := mark_KD g s el h hK hD
            exact ⟨KInv_HS a (HS_newNT _ _) rfl, b, (c _).trans (Fr_lookup_eq rfl)⟩
          · simp only [Pre.ret.injEq] at hp
            obtain ⟨rfl, rfl⟩ := hp
            exact ⟨KInv_HS hK (HS_newNT _ _) rfl, hD, Fr_lookup_eq rfl⟩
          · unfold preFresh at hp
            rw [drawOK_shown hn] at hp
            obtain ⟨pn, hpn, _⟩ := drawOK_dispatch hn (nameOf n h)
            simp only [hpn, Bool.false_eq_true, if_false] at hp
            exact absurd hp (by simp)
      | loop ret s0 =>
        simp only [hp] at hb
        have hreg : ∃ k0, ret = s.heap.length ∧ LS s s0 s.heap.length ∧ RS s0 s.heap.length 0 k0 ∧
            (k0 || !n.kids.isEmpty) = true ∧
            (KInv s0 ∧ DInv s0 ∧ Fr s.heap.length s s0 ∧ H0 s0 s.heap.length ∧
              (∀ st, aget s0.lookup el = some st → st.converted = s.heap.length)) := by
          unfold pre at hp
          split at hp
          · exact absurd hp (by simp)
          · split at hp
            · exact absurd hp (by simp)
            · exact absurd hp (by simp)
            · unfold preFresh at hp
              rw [drawOK_shown hn] at hp
              obtain ⟨pn, hpn, hshape⟩ := drawOK_dispatch hn (nameOf n h)
              simp only [hpn, Bool.false_eq_true, if_false, Pre.loop.injEq] at hp
              obtain ⟨rfl, rfl⟩ := hp
              have hkd := register_KD g s el n p i pn hK hD
              rcases hshape with h1 | ⟨v, h1, hk⟩ | h1
              · obtain ⟨e1, e2, e3⟩ := register_LS g s el n p i pn (Or.inl h1) true
                  (fun v hv => by rw [h1] at hv; exact absurd hv (by simp))
                exact ⟨true, e1, e2, e3, rfl, hkd⟩
              · obtain ⟨e1, e2, e3⟩ := register_LS g s el n p i pn (Or.inr (Or.inl ⟨v, h1⟩)) false
                  (fun _ _ => rfl)
                exact ⟨false, e1, e2, e3, by simp [hk], hkd⟩
              · obtain ⟨e1, e2, e3⟩ := register_LS g s el n p i pn (Or.inr (Or.inr h1)) true
                  (fun v hv => by rw [h1] at hv; exact absurd hv (by simp))
                exact ⟨true, e1, e2, e3, rfl, hkd⟩
        obtain ⟨k0, rfl, hL0, hR0, hk0, hK0, hD0, hF0, hH0, hC0⟩ := hreg
        cases hl : loopKids (conv g o f) s.heap.length n.kids 0 s0 with
        | none => simp [hl] at hb
        | some s2 =>
          simp only [hl, Option.some.injEq] at hb
          obtain ⟨hL2, i2, hR2⟩ := loopKids_spec g (conv g o f) s s.heap.length
            (fun c p i h s r s' hc hcv => conv_HS g o hd f c p i h s r s' hc hcv) n.kids 0 s0 k0 s2
            (drawOK_kids hn) hl hL0 hR0
          rw [hk0] at hR2
          have hnew : NewFilled s.heap.length s2 := by
            intro j b hj hb'
            by_cases hjr : j = s.heap.length
            · subst hjr
              obtain ⟨a, ha, hka⟩ := hR2
              rw [hb'] at ha
              simp only [Option.some.injEq] at ha
              subst ha
              cases hkw : b.kw with
              | leaf => rfl
              | item v => rw [hkw] at hka; exact hka rfl
              | items l => rw [hkw] at hka; exact hka.2
            · exact hL2.others j b hj hjr hb'
          have hlt0 : s.heap.length < s0.heap.length := by
            obtain ⟨a, ha, _⟩ := hR0
            exact (List.getElem?_eq_some_iff.mp ha).1
          have hLK := loopKids_KD g (conv g o f) s0 s.heap.length hrecKD hH0 n.kids 0 s0 s2 (drawOK_kids hn) hl
            ⟨hK0, hD0, Fr.refl _ _, hlt0⟩
          have hL2' : ∀ st, aget s2.lookup el = some st → s.heap.length ≤ st.converted := by
            intro st hst
            by_cases hlt : st.converted < s.heap.length
            · obtain ⟨st0, e1, e2, _⟩ := hLK.fr el st hst (by omega)
              have := hC0 st0 e1
              omega
            · omega
          obtain ⟨q1, q2, q3⟩ := post_KD el n h s.heap.length s2 s.heap.length hLK.k hLK.d hnew hL2'
          rw [hb] at q1 q2 q3
          exact ⟨q1, q2, hF0.trans ((hLK.fr.weaken (by omega)).trans q3)⟩

/-! ### the final state and the resolved trees -/

theorem node_filled_of_all {s : St} (h : AllFilled s) (r : Nat) : (s.node r).kw.filled = true := by
  cases hr : s.heap[r]? with
  | none => rw [node_kw_absent hr]; rfl
  | some a => rw [node_of_get hr]; exact h a (List.mem_of_getElem? hr)

theorem extract_AD (s : St) (el : Nat) (ha : AllFilled s) (hd : DInv s) :
    AllFilled (extractIntoDiagram s el) ∧ DInv (extractIntoDiagram s el) := by
  refine ⟨AllFilled_HS ha (HS_extract s el), ?_⟩
  cases hl : aget s.lookup el with
  | none => rw [extract_none s el hl]; exact hd
  | some pos =>
    rw [extract_eq' s el pos hl]
    have ha1 : AllFilled (exNT s pos) := AllFilled_HS ha (HS_exNT s pos)
    intro p hp
    have hp' : p ∈ aset (exNT s pos).diagrams el
        { name := pos.name, content := contentOf (exNT s pos) pos.converted, index := pos.number } := hp
    rcases mem_aset _ _ _ p hp' with h | h
    · rw [exNT_diagrams] at h; exact hd p h
    · rw [h]; exact contentOf_isRef _ _ (node_filled_of_all ha1 _)

theorem mark_force_AD (g : Grammar) (s : St) (el : Nat) (name : Option String) (ha : AllFilled s) (hd : DInv s) :
    AllFilled (markForExtraction g s el name true) ∧ DInv (markForExtraction g s el name true) := by
  cases hl : aget s.lookup el with
  | none =>
    have e : markForExtraction g s el name true = s := by
      unfold markForExtraction; simp only [hl]
    rw [e]; exact ⟨ha, hd⟩
  | some st =>
    rw [mark_eq g s el name true st hl]
    simp only [Bool.true_or, if_true]
    exact extract_AD _ el ha hd

theorem convertRoot_AD (g : Grammar) (o : Opts) (fuel root : Nat) (s : St)
    (hd : drawsAll g o = true) (hroot : root < g.length)
    (h : convertRoot g o fuel root = some s) : AllFilled s ∧ DInv s := by
  unfold convertRoot at h
  split at h
  · exact absurd h (by simp)
  · rename_i r s0 hc
    obtain ⟨hHS, _⟩ := conv_HS g o hd fuel root none 0 none {} r s0 hroot hc
    have h0 : AllFilled s0 := AllFilled_HS (fun nd hnd => absurd hnd (by simp)) hHS
    obtain ⟨_, hD0, _⟩ := conv_KD g o hd fuel root none 0 none {} r s0 hroot hc
      ⟨fun _ _ h => absurd h (by simp), fun _ _ h => absurd h (by simp)⟩ (fun _ h => absurd h (by simp))
    split at h
    · rename_i st hst
      simp only [Option.some.injEq] at h
      subst h
      split
      · exact mark_force_AD g { s0 with lookup := aset s0.lookup root { st with name := some "" } } root none h0 hD0
      · exact mark_force_AD g s0 root none h0 hD0
    · simp only [Option.some.injEq] at h
      subst h
      exact ⟨h0, hD0⟩

mutual
/-- does the tree contain the `""` placeholder -/
def Tree.hasEmptyStr : Tree → Bool
  | .rawNone => false
  | .rawEmpty => true
  | .node _ _ _ ks => Tree.hasEmptyStrL ks
def Tree.hasEmptyStrL : List Tree → Bool
  | [] => false
  | t :: ts => t.hasEmptyStr || Tree.hasEmptyStrL ts
end

theorem hasEmptyStrL_false (ts : List Tree) (h : ∀ t ∈ ts, t.hasEmptyStr = false) :
    Tree.hasEmptyStrL ts = false := by
  induction ts with
  | nil => simp [Tree.hasEmptyStrL]
  | cons a as ih =>
    simp only [Tree.hasEmptyStrL, Bool.or_eq_false_iff]
    exact ⟨h a (List.mem_cons_self ..), ih (fun t ht => h t (List.mem_cons_of_mem _ ht))⟩

theorem resolve_noEmptyStr (heap : List PNode) (hall : ∀ nd ∈ heap, nd.kw.filled = true) :
    ∀ f slot, slot ≠ .empty → (resolve heap f slot).hasEmptyStr = false := by
  intro f
  induction f with
  | zero =>
    intro slot hs
    cases slot with
    | none => simp [resolve, Tree.hasEmptyStr]
    | empty => exact absurd rfl hs
    | ref r => simp [resolve, Tree.hasEmptyStr]
  | succ f ih =>
    intro slot hs
    cases slot with
    | none => simp [resolve, Tree.hasEmptyStr]
    | empty => exact absurd rfl hs
    | ref r =>
      unfold resolve
      split
      · simp [Tree.hasEmptyStr]
      · rename_i n hn
        have hf := hall n (List.mem_of_getElem? hn)
        split
        · simp [Tree.hasEmptyStr, Tree.hasEmptyStrL]
        · rename_i v hv
          rw [hv] at hf
          simp only [Tree.hasEmptyStr]
          refine hasEmptyStrL_false _ ?_
          intro t ht
          simp only [List.mem_singleton] at ht
          subst ht
          refine ih v ?_
          intro e; rw [e] at hf; exact absurd hf (by simp [Kw.filled, Slot.isRef])
        · rename_i l hl
          rw [hl] at hf
          simp only [Tree.hasEmptyStr]
          refine hasEmptyStrL_false _ ?_
          intro t ht
          obtain ⟨v, hv, rfl⟩ := List.mem_map.mp ht
          refine ih v ?_
          intro e
          simp only [Kw.filled, List.all_eq_true] at hf
          have := hf v hv
          rw [e] at this; exact absurd this (by simp [Slot.isRef])

end PP.Diagram
