import PPProofs.Lemmas.DiagramFilled
/-! Helper lemmas for C20 (no_empty_placeholder, the `content` of a diagram entry): an element is
    extracted only after its own conversion is complete, when its partial is filled. -/
namespace PP.Diagram

/-- lookup entries point into the heap; a complete entry points to a filled partial -/
structure KInv (s : St) : Prop where
  bound : ∀ u st, aget s.lookup u = some st → st.converted < s.heap.length
  fill : ∀ u st, aget s.lookup u = some st → st.complete = true → (s.node st.converted).kw.filled = true

def DInv (s : St) : Prop := ∀ u d, aget s.diagrams u = some d → d.content.isRef = true

/-- entries that point below `n` are old entries (same partial, not completed in between) -/
def Fr (n : Nat) (s s' : St) : Prop :=
  ∀ u st', aget s'.lookup u = some st' → st'.converted < n →
    ∃ st, aget s.lookup u = some st ∧ st.converted = st'.converted ∧ (st'.complete = true → st.complete = true)

theorem Fr.refl (n : Nat) (s : St) : Fr n s s := fun _ st' h _ => ⟨st', h, rfl, fun h => h⟩

theorem Fr.trans {n : Nat} {a b c : St} (h1 : Fr n a b) (h2 : Fr n b c) : Fr n a c := by
  intro u st' h hlt
  obtain ⟨st1, e1, e2, e3⟩ := h2 u st' h hlt
  obtain ⟨st0, f1, f2, f3⟩ := h1 u st1 e1 (by omega)
  exact ⟨st0, f1, by omega, fun hc => f3 (e3 hc)⟩

theorem Fr.weaken {n m : Nat} {a b : St} (h : Fr n a b) (hm : m ≤ n) : Fr m a b :=
  fun u st' h1 h2 => h u st' h1 (by omega)

theorem Fr_lookup_eq {n : Nat} {s s' : St} (h : s'.lookup = s.lookup) : Fr n s s' := by
  intro u st' h1 _
  rw [h] at h1
  exact ⟨st', h1, rfl, fun h => h⟩

theorem node_filled_mono {s s' : St} (hm : Mono s s') (c : Nat) (hc : c < s.heap.length)
    (hf : (s.node c).kw.filled = true) : (s'.node c).kw.filled = true := by
  have ha := List.getElem?_eq_getElem hc
  obtain ⟨b, hb, hab⟩ := hm c _ ha
  rw [node_of_get hb]
  rw [node_of_get ha] at hf
  exact KwLe_filled hab hf

/-- (S1) a heap step that leaves the tables alone -/
theorem KInv_heap {s s' : St} (hl : s'.lookup = s.lookup) (hlen : s.heap.length ≤ s'.heap.length)
    (hm : Mono s s') (h : KInv s) : KInv s' := by
  refine ⟨?_, ?_⟩
  · intro u st hu; rw [hl] at hu; have := h.bound u st hu; omega
  · intro u st hu hc; rw [hl] at hu
    exact node_filled_mono hm _ (h.bound u st hu) (h.fill u st hu hc)

theorem KInv_HS {s s' : St} (hl : s'.lookup = s.lookup) (hs : HS s s') (h : KInv s) : KInv s' :=
  KInv_heap hl hs.1 hs.2.1 h

/-- (S2) writing an entry -/
theorem KInv_setL (s : St) (idx el : Nat) (st' : EState) (h : KInv s)
    (h1 : st'.converted < s.heap.length) (h2 : st'.complete = true → (s.node st'.converted).kw.filled = true) :
    KInv (setL s idx el st') := by
  refine ⟨?_, ?_⟩
  · intro u st hu
    by_cases hu' : u = el
    · subst hu'
      simp only [setL, aget_aset_same, Option.some.injEq] at hu
      subst hu; exact h1
    · simp only [setL, aget_aset_ne _ _ _ _ hu'] at hu
      exact h.bound u st hu
  · intro u st hu hc
    by_cases hu' : u = el
    · subst hu'
      simp only [setL, aget_aset_same, Option.some.injEq] at hu
      subst hu; exact h2 hc
    · simp only [setL, aget_aset_ne _ _ _ _ hu'] at hu
      exact h.fill u st hu hc

theorem Fr_setL (n : Nat) (s : St) (idx el : Nat) (st' : EState)
    (h : st'.converted < n → ∃ st, aget s.lookup el = some st ∧ st.converted = st'.converted ∧
      (st'.complete = true → st.complete = true)) : Fr n s (setL s idx el st') := by
  intro u st hu hlt
  by_cases hu' : u = el
  · subst hu'
    simp only [setL, aget_aset_same, Option.some.injEq] at hu
    subst hu; exact h hlt
  · simp only [setL, aget_aset_ne _ _ _ _ hu'] at hu
    exact ⟨st, hu, rfl, fun h => h⟩

/-! ### extract_into_diagram with its content made explicit -/

def contentOf (s : St) (r : Nat) : Slot :=
  if (s.node r).func = .group then
    match (s.node r).kw with
    | .item v => v
    | _ => .ref r
  else .ref r

theorem extract_eq' (s : St) (el : Nat) (pos : EState) (h : aget s.lookup el = some pos) :
    extractIntoDiagram s el = exFin (exNT s pos) el pos (contentOf (exNT s pos) pos.converted) := by
  unfold extractIntoDiagram exNT contentOf
  simp only [h]
  cases pos.parent <;> rfl

theorem contentOf_isRef (s : St) (r : Nat) (h : (s.node r).kw.filled = true) : (contentOf s r).isRef = true := by
  unfold contentOf
  split
  · split
    · rename_i v hv; rw [hv] at h; exact h
    · rfl
  · rfl

theorem exFin_KD (s1 : St) (el : Nat) (pos : EState) (c : Slot) (hk : KInv s1) (hd : DInv s1)
    (hc : c.isRef = true) : KInv (exFin s1 el pos c) ∧ DInv (exFin s1 el pos c) ∧ ∀ n, Fr n s1 (exFin s1 el pos c) := by
  refine ⟨⟨?_, ?_⟩, ?_, ?_⟩
  · intro u st hu
    by_cases hu' : u = el
    · subst hu'; simp [exFin, aget_adel_same] at hu
    · simp only [exFin, aget_adel_ne _ _ _ hu'] at hu
      exact hk.bound u st hu
  · intro u st hu hcc
    by_cases hu' : u = el
    · subst hu'; simp [exFin, aget_adel_same] at hu
    · simp only [exFin, aget_adel_ne _ _ _ hu'] at hu
      exact hk.fill u st hu hcc
  · intro u d hu
    by_cases hu' : u = el
    · subst hu'
      simp only [exFin, aget_aset_same, Option.some.injEq] at hu
      subst hu; exact hc
    · simp only [exFin, aget_aset_ne _ _ _ _ hu'] at hu
      exact hd u d hu
  · intro n u st hu _
    by_cases hu' : u = el
    · subst hu'; simp [exFin, aget_adel_same] at hu
    · simp only [exFin, aget_adel_ne _ _ _ hu'] at hu
      exact ⟨st, hu, rfl, fun h => h⟩

/-- (S3) extraction of a complete (or absent) element -/
theorem extract_KD (s : St) (el : Nat) (hk : KInv s) (hd : DInv s)
    (hc : ∀ pos, aget s.lookup el = some pos → pos.complete = true) :
    KInv (extractIntoDiagram s el) ∧ DInv (extractIntoDiagram s el) ∧ ∀ n, Fr n s (extractIntoDiagram s el) := by
  cases hl : aget s.lookup el with
  | none => rw [extract_none s el hl]; exact ⟨hk, hd, fun n => Fr.refl n s⟩
  | some pos =>
    rw [extract_eq' s el pos hl]
    have hk1 : KInv (exNT s pos) := KInv_HS (exNT_lookup s pos) (HS_exNT s pos) hk
    have hd1 : DInv (exNT s pos) := by unfold DInv; rw [exNT_diagrams]; exact hd
    have hl1 : aget (exNT s pos).lookup el = some pos := by rw [exNT_lookup]; exact hl
    obtain ⟨a, b, c⟩ := exFin_KD (exNT s pos) el pos _ hk1 hd1
      (contentOf_isRef _ _ (hk1.fill el pos hl1 (hc pos hl)))
    exact ⟨a, b, fun n => (Fr_lookup_eq (exNT_lookup s pos)).trans (c n)⟩

/-- (S4) mark_for_extraction, not forced -/
theorem mark_KD (g : Grammar) (s : St) (el : Nat) (name : Option String) (hk : KInv s) (hd : DInv s) :
    KInv (markForExtraction g s el name false) ∧ DInv (markForExtraction g s el name false) ∧
      ∀ n, Fr n s (markForExtraction g s el name false) := by
  cases hl : aget s.lookup el with
  | none =>
    have e : markForExtraction g s el name false = s := by
      unfold markForExtraction; simp only [hl]
    rw [e]; exact ⟨hk, hd, fun n => Fr.refl n s⟩
  | some st =>
    rw [mark_eq g s el name false st hl]
    have hk1 : KInv (setL s s.index el { st with extract := true, name := markName g st el name }) :=
      KInv_setL s s.index el _ hk (hk.bound el st hl) (hk.fill el st hl)
    have hf1 : ∀ n, Fr n s (setL s s.index el { st with extract := true, name := markName g st el name }) :=
      fun n => Fr_setL n s s.index el _ (fun _ => ⟨st, hl, rfl, fun h => h⟩)
    have hd1 : DInv (setL s s.index el { st with extract := true, name := markName g st el name }) := hd
    split
    · rename_i hc
      obtain ⟨a, b, c⟩ := extract_KD _ el hk1 hd1 (fun pos hp => by
        simp only [setL, aget_aset_same, Option.some.injEq] at hp
        subst hp
        simp only [Bool.false_or, Bool.and_eq_true] at hc
        exact hc.1)
      exact ⟨a, b, fun n => (hf1 n).trans (c n)⟩
    · exact ⟨hk1, hd1, hf1⟩

/-- (S7) a non-monotone update of a partial that no complete entry points to -/
theorem KInv_setKw (s : St) (ret : Nat) (kw : Kw) (h : KInv s)
    (hL : ∀ u st, aget s.lookup u = some st → st.converted = ret → st.complete = false) :
    KInv (s.setKw ret kw) := by
  refine ⟨?_, ?_⟩
  · intro u st hu; rw [setKw_len]; exact h.bound u st hu
  · intro u st hu hc
    have hne : st.converted ≠ ret := by
      intro e; have := hL u st hu e; rw [hc] at this; exact absurd this (by simp)
    have := h.fill u st hu hc
    have hb := h.bound u st hu
    have ha := List.getElem?_eq_getElem hb
    have e : (s.setKw ret kw).heap[st.converted]? = some s.heap[st.converted] := by
      rw [setKw_get]; simp only [Ne.symm hne, if_false]; exact ha
    rw [node_of_get e]
    rw [node_of_get ha] at this
    exact this

end PP.Diagram
