import PPProofs.Lemmas.OneOf
/-! Caseless (`caseless=True`) agreement of the regex and `MatchFirst` strategies of the `one_of`
    model: ASCII case folding facts, `ends`/`matchAt` of the generated regex under IGNORECASE, and the
    `symbol_map[t.lower()]` token lookup on a re-ordered (`NoMask true`) symbol list. -/
namespace PP.OneOf
open PP.ReLite PP.Ranges PP.WordPaths

theorem toNat_ofNat_small (n : Nat) (h : n < 0xd800) : (Char.ofNat n).toNat = n := by
  have hv : n.isValidChar := Or.inl h
  rw [Char.ofNat, dif_pos hv]
  simp [Char.ofNatAux, Char.toNat, UInt32.toNat_ofNatLT]

theorem asciiLower_toNat (c : Char) :
    (asciiLower c).toNat = if 65 ≤ c.toNat ∧ c.toNat ≤ 90 then c.toNat + 32 else c.toNat := by
  unfold asciiLower
  have h1 : 'A'.toNat = 65 := by decide
  have h2 : 'Z'.toNat = 90 := by decide
  rw [h1, h2]
  split
  · rw [toNat_ofNat_small]; omega
  · rfl

theorem asciiUpper_toNat (c : Char) :
    (asciiUpper c).toNat = if 97 ≤ c.toNat ∧ c.toNat ≤ 122 then c.toNat - 32 else c.toNat := by
  unfold asciiUpper
  have h1 : 'a'.toNat = 97 := by decide
  have h2 : 'z'.toNat = 122 := by decide
  rw [h1, h2]
  split
  · rw [toNat_ofNat_small]; omega
  · rfl

theorem lower_eq_iff_upper_eq (a b : Char) :
    asciiLower a = asciiLower b ↔ asciiUpper a = asciiUpper b := by
  rw [← Char.toNat_inj, ← Char.toNat_inj (c := asciiUpper a), asciiLower_toNat, asciiLower_toNat,
    asciiUpper_toNat, asciiUpper_toNat]
  split <;> split <;> split <;> split <;> omega

theorem map_lower_eq_iff_map_upper_eq (a b : List Char) :
    a.map asciiLower = b.map asciiLower ↔ a.map asciiUpper = b.map asciiUpper := by
  induction a generalizing b with
  | nil => cases b <;> simp
  | cons x a ih =>
    cases b with
    | nil => simp
    | cons y b => simp [lower_eq_iff_upper_eq, ih]

theorem map_lower_eq_iff_key (a b : List Char) :
    a.map asciiLower = b.map asciiLower ↔ key true a = key true b := by
  simp [key, map_lower_eq_iff_map_upper_eq]

/-- caseless membership of `d` in the class written for single character `c` -/
theorem cls_single_ci (c d : Char) :
    (d == c || asciiLower d == c || asciiUpper d == c) = (asciiUpper d == asciiUpper c) := by
  rw [Bool.eq_iff_iff]
  simp only [Bool.or_eq_true, beq_iff_eq]
  rw [← Char.toNat_inj, ← Char.toNat_inj (c := asciiLower d), ← Char.toNat_inj (c := asciiUpper d),
    ← Char.toNat_inj (c := asciiUpper d), asciiLower_toNat, asciiUpper_toNat, asciiUpper_toNat]
  split <;> split <;> split <;> omega

/-! ## the regex strategy (caseless) -/

theorem ends_litRe_lower (s : List Char) (y : Sym) (pos : Nat) :
    ends true s (litRe y) pos =
      if ((slice s pos (pos + y.length)).map asciiLower == y.map asciiLower)
      then [pos + y.length] else [] := by
  induction y generalizing pos with
  | nil => simp [litRe, catL, ends, slice]
  | cons c r ih =>
    have hl : litRe (c :: r) = catL (.chr c :: r.map .chr) := rfl
    rw [hl, ends_catL_cons]
    have ih' := ih (pos + 1)
    unfold litRe at ih'
    rw [slice_add] at ih' ⊢
    rw [List.length_cons, take_succ_drop]
    simp only [ends]
    cases hs : s[pos]? with
    | none => simp
    | some d =>
      simp only [chrEq, if_true]
      by_cases hcd : asciiLower c = asciiLower d
      · simp only [hcd, beq_self_eq_true, if_true, List.flatMap_cons, List.flatMap_nil,
          List.append_nil, ih', List.map_cons]
        generalize (List.take r.length (List.drop (pos + 1) s)).map asciiLower = u
        by_cases hr : u = r.map asciiLower
        · simp [hr]; omega
        · simp [hr]
      · have : (asciiLower c == asciiLower d) = false := by simpa using hcd
        simp only [this, Bool.false_eq_true, if_false, List.flatMap_nil]
        have hdc : ¬ asciiLower d = asciiLower c := fun h => hcd h.symm
        simp [hdc]

theorem litMatch_true_eq (y : Sym) (s : List Char) (pos : Nat) :
    litMatch true y s pos =
      ((slice s pos (pos + y.length)).map asciiLower == y.map asciiLower) := by
  rw [Bool.eq_iff_iff, litMatch_iff_key, beq_iff_eq, map_lower_eq_iff_key]

theorem ends_litRe_ci (s : List Char) (y : Sym) (pos : Nat) :
    ends true s (litRe y) pos = if litMatch true y s pos = true then [pos + y.length] else [] := by
  rw [ends_litRe_lower, litMatch_true_eq]

theorem litMatch_true_single (c d : Char) (s : List Char) (loc : Nat) (h : s[loc]? = some d) :
    litMatch true [c] s loc = (asciiUpper d == asciiUpper c) := by
  simp [litMatch, slice_add, take_succ_drop, h]

theorem litMatch_true_single_none (c : Char) (s : List Char) (loc : Nat) (h : s[loc]? = none) :
    litMatch true [c] s loc = false := by
  simp [litMatch, slice_add, take_succ_drop, h]

theorem any_or3 {α : Type} (l : List α) (f g h : α → Bool) :
    (l.any f || l.any g || l.any h) = l.any (fun y => f y || g y || h y) := by
  induction l with
  | nil => simp
  | cons y l ih =>
    simp only [List.any_cons, ← ih]
    cases f y <;> cases g y <;> cases h y <;> cases l.any f <;> cases l.any g <;> simp

/-- the character-class branch: one class item per single-character symbol -/
theorem clsMemCi_singles (l : List Sym) (d : Char) :
    clsMemCi true (l.map (fun y => escItem (y.headD ' '))) d =
      l.any (fun y => asciiUpper d == asciiUpper (y.headD ' ')) := by
  simp only [clsMemCi, if_true, clsMem, List.any_map]
  rw [any_or3]
  congr 1
  funext y
  simp only [Function.comp, CItem_mem_escItem]
  exact cls_single_ci _ _

theorem find_map_singles (p : Sym → Bool) (l : List Sym) (hall : ∀ y ∈ l, y.length = 1)
    (loc : Nat) :
    (l.find? p).map (fun y => loc + y.length) = if l.any p then some (loc + 1) else none := by
  induction l with
  | nil => simp
  | cons y l' ih =>
    have ih' := ih (fun y hy => hall y (List.mem_cons_of_mem _ hy))
    have hy := hall y (by simp)
    cases hp : p y with
    | true => simp [hp, hy]
    | false => simpa [List.find?_cons, hp] using ih'

theorem any_litMatch_singles (l : List Sym) (hall : ∀ y ∈ l, y.length = 1) (s : List Char)
    (loc : Nat) (d : Char) (h : s[loc]? = some d) :
    l.any (fun y => litMatch true y s loc) =
      l.any (fun y => asciiUpper d == asciiUpper (y.headD ' ')) := by
  induction l with
  | nil => simp
  | cons y l' ih =>
    have ih' := ih (fun y hy => hall y (List.mem_cons_of_mem _ hy))
    have hy := hall y (by simp)
    match y, hy with
    | [c], _ =>
      simp only [List.any_cons, ih', litMatch_true_single c d s loc h, List.headD_cons]

theorem matchAt_oneOfRe_ci (l : List Sym) (s : List Char) (loc : Nat) :
    matchAt true (oneOfRe l) s loc =
      (l.find? (fun y => litMatch true y s loc)).map (fun y => loc + y.length) := by
  unfold matchAt oneOfRe
  split
  · rename_i hall
    have hall' : ∀ y ∈ l, y.length = 1 := by
      intro y hy
      have := List.all_eq_true.1 hall y hy
      simpa using this
    simp only [ends]
    rw [find_map_singles _ l hall']
    cases hs : s[loc]? with
    | none =>
      have : l.any (fun y => litMatch true y s loc) = false := by
        rw [List.any_eq_false]
        intro y hy hm
        have hm' := (litMatch_iff true y s loc).1 hm
        have hne : y ≠ [] := by
          intro h0; have := hall' y hy; rw [h0] at this; simp at this
        have hlt := hm'.2.2 hne
        rw [List.getElem?_eq_none_iff] at hs
        omega
      rw [this]; rfl
    | some d =>
      rw [any_litMatch_singles l hall' s loc d hs]
      simp only [clsMemCi_singles]
      cases l.any (fun y => asciiUpper d == asciiUpper (y.headD ' ')) <;> simp
  · rename_i hall
    have hne : l ≠ [] := by
      intro h0; subst h0; simp at hall
    rw [ends_altL_map true s litRe l hne loc]
    simp only [ends_litRe_ci]
    exact head?_flatMap_find _ _ l

/-! ## the token returned by the caseless regex strategy -/

/-- in a `NoMask true` list, caseless-equal members are identical -/
theorem noMask_isEqual_unique (l : List Sym) (hpost : NoMask true l) :
    ∀ ⦃x⦄, x ∈ l → ∀ ⦃y⦄, y ∈ l → isEqual true x y = true → x = y := by
  have h2 : l.Pairwise (fun a b => isEqual true a b = true → a = b) := by
    refine List.Pairwise.imp ?_ hpost
    intro a b hnb he
    exact absurd (Or.inl (isEqual_symm he)) hnb
  have h3 : l.Pairwise (flip (fun a b => isEqual true a b = true → a = b)) := by
    refine List.Pairwise.imp ?_ hpost
    intro a b hnb he
    exact absurd (Or.inl he) hnb
  exact List.Pairwise.forall_of_forall_of_flip (fun x _ _ => rfl) h2 h3

theorem find_unique (l : List Sym) (p : Sym → Bool) (y : Sym) (hy : y ∈ l) (hp : p y = true)
    (hu : ∀ z ∈ l, p z = true → z = y) : l.find? p = some y := by
  cases hf : l.find? p with
  | none =>
    have := List.find?_eq_none.1 hf y hy
    exact absurd hp this
  | some z =>
    have hz := List.mem_of_find?_eq_some hf
    have hpz := List.find?_some hf
    rw [hu z hz hpz]

/-- the regex and the MatchFirst strategies agree (caseless) on a re-ordered symbol list -/
theorem regexPath_eq_matchFirst_ci (l : List Sym) (hpost : NoMask true l) (s : List Char)
    (loc : Nat) : regexPath true l s loc = matchFirstPath true l s loc := by
  unfold regexPath matchFirstPath
  rw [matchAt_oneOfRe_ci]
  cases hf : l.find? (fun y => litMatch true y s loc) with
  | none => rfl
  | some y =>
    have hym := List.mem_of_find?_eq_some hf
    have hy := List.find?_some hf
    rw [litMatch_true_eq, beq_iff_eq] at hy
    simp only [Option.map_some, if_true, hy]
    have hfind : l.reverse.find? (fun z => z.map asciiLower == y.map asciiLower) = some y := by
      apply find_unique
      · simpa using hym
      · simp
      · intro z hz hzy
        rw [beq_iff_eq, map_lower_eq_iff_key, ← isEqual_iff] at hzy
        exact noMask_isEqual_unique l hpost (by simpa using hz) hym hzy
    rw [hfind]

/-- `one_of(..., caseless=True)`: `use_regex` does not change the outcome -/
theorem oneOf_regex_eq_matchFirst_ci (syms : List Sym) (s : List Char) (loc : Nat) :
    oneOf true true syms s loc = oneOf true false syms s loc := by
  unfold oneOf
  cases hr : reorder true syms with
  | none => rfl
  | some out =>
    have hnm := (reorder_post true syms out hr).1
    cases out with
    | nil => rfl
    | cons o os => simp [regexPath_eq_matchFirst_ci _ hnm]

/-- longest match also for the regex strategy (caseless) -/
theorem oneOf_regex_longest_ci (syms : List Sym) (s : List Char) (loc : Nat) :
    match oneOf true true syms s loc with
    | some (e, y) => y ∈ syms ∧ litMatch true y s loc = true ∧ e = loc + y.length ∧
        ∀ z ∈ syms, litMatch true z s loc = true → z.length ≤ y.length
    | none => ∀ z ∈ syms, litMatch true z s loc = false := by
  rw [oneOf_regex_eq_matchFirst_ci]
  exact oneOf_matchFirst_longest true syms s loc

end PP.OneOf
