import PPModel.Mod.OneOf
/-! Kernel-checked facts about the `one_of` model (`PPModel/Mod/OneOf.lean`):
    termination of the reordering loop, its postcondition, longest-match of the `MatchFirst`
    strategy and agreement of the regex strategy (case-sensitive). -/
namespace PP.OneOf
open PP.ReLite PP.Ranges PP.WordPaths

/-- `b` (later) is equal to, or a longer symbol masked by, `a` (earlier) -/
def Bad (ci : Bool) (a b : Sym) : Prop :=
  isEqual ci b a = true ∨ (b.length > a.length ∧ masks ci a b = true)

def NoMask (ci : Bool) (l : List Sym) : Prop := l.Pairwise (fun a b => ¬ Bad ci a b)

/-! ## `scan` -/

theorem scan_dup (ci : Bool) (cur : Sym) : ∀ (l : List Sym) (j0 j : Nat),
    scan ci cur l j0 = .dup j →
    ∃ a x b, l = a ++ x :: b ∧ j = j0 + a.length ∧ isEqual ci x cur = true ∧
      ∀ y ∈ a, ¬ Bad ci cur y := by
  intro l
  induction l with
  | nil => intro j0 j h; simp [scan] at h
  | cons o rest ih =>
    intro j0 j h
    simp only [scan] at h
    split at h
    · rename_i heq
      injection h with h
      exact ⟨[], o, rest, rfl, by simp [h], heq, by simp⟩
    · rename_i hne
      split at h
      · cases h
      · rename_i hnl
        obtain ⟨a, x, b, hl, hj, hx, ha⟩ := ih (j0 + 1) j h
        refine ⟨o :: a, x, b, by simp [hl], by simp [hj]; omega, hx, ?_⟩
        intro y hy
        rcases List.mem_cons.1 hy with rfl | hy
        · intro hb
          rcases hb with hb | ⟨h1, h2⟩
          · exact hne hb
          · exact hnl (by simp [h1, h2])
        · exact ha y hy

theorem scan_longer (ci : Bool) (cur : Sym) : ∀ (l : List Sym) (j0 j : Nat) (other : Sym),
    scan ci cur l j0 = .longer j other →
    ∃ a b, l = a ++ other :: b ∧ j = j0 + a.length ∧ other.length > cur.length ∧
      masks ci cur other = true ∧ isEqual ci other cur = false ∧ ∀ y ∈ a, ¬ Bad ci cur y := by
  intro l
  induction l with
  | nil => intro j0 j other h; simp [scan] at h
  | cons o rest ih =>
    intro j0 j other h
    simp only [scan] at h
    split at h
    · cases h
    · rename_i hne
      split at h
      · rename_i hl
        injection h with h1 h2
        subst h2
        simp only [Bool.and_eq_true, decide_eq_true_eq] at hl
        exact ⟨[], rest, rfl, by simp [h1], hl.1, hl.2, by simpa using hne, by simp⟩
      · rename_i hnl
        obtain ⟨a, b, hl, hj, h1, h2, h3, ha⟩ := ih (j0 + 1) j other h
        refine ⟨o :: a, b, by simp [hl], by simp [hj]; omega, h1, h2, h3, ?_⟩
        intro y hy
        rcases List.mem_cons.1 hy with rfl | hy
        · intro hb
          rcases hb with hb | ⟨h1, h2⟩
          · exact hne hb
          · exact hnl (by simp [h1, h2])
        · exact ha y hy

theorem scan_none (ci : Bool) (cur : Sym) : ∀ (l : List Sym) (j0 : Nat),
    scan ci cur l j0 = .none → ∀ y ∈ l, ¬ Bad ci cur y := by
  intro l
  induction l with
  | nil => intro j0 _ y hy; simp at hy
  | cons o rest ih =>
    intro j0 h
    simp only [scan] at h
    split at h
    · cases h
    · rename_i hne
      split at h
      · cases h
      · rename_i hnl
        intro y hy
        rcases List.mem_cons.1 hy with rfl | hy
        · intro hb
          rcases hb with hb | ⟨h1, h2⟩
          · exact hne hb
          · exact hnl (by simp [h1, h2])
        · exact ih (j0 + 1) h y hy

/-! ## termination -/

theorem lenSum_append (a b : List Sym) : lenSum (a ++ b) = lenSum a + lenSum b := by
  induction a with
  | nil => simp [lenSum]
  | cons x a ih => simp [lenSum, ih]; omega

theorem eraseIdx_mid (a : List Sym) (x : Sym) (b : List Sym) :
    (a ++ x :: b).eraseIdx a.length = a ++ b := by
  rw [List.eraseIdx_append_of_length_le (Nat.le_refl _)]
  simp

theorem reorderGo_some (ci : Bool) (f : Nat) (done : List Sym) (cur : Sym) (rest : List Sym)
    (h : rest.length + lenSum rest < f) : ∃ out, reorderGo ci f done cur rest = some out := by
  induction f generalizing done cur rest with
  | zero => omega
  | succ f ih =>
    cases rest with
    | nil => exact ⟨_, rfl⟩
    | cons r rs =>
      simp only [reorderGo]
      cases hs : scan ci cur (r :: rs) 0 with
      | dup j =>
        obtain ⟨a, x, b, hl, hj, _, _⟩ := scan_dup ci cur _ _ _ hs
        simp only [Nat.zero_add] at hj
        subst hj
        simp only
        rw [hl, eraseIdx_mid]
        apply ih
        rw [hl] at h
        simp only [List.length_append, List.length_cons, lenSum_append, lenSum] at h ⊢
        omega
      | longer j other =>
        obtain ⟨a, b, hl, hj, hlen, _, _, _⟩ := scan_longer ci cur _ _ _ _ hs
        simp only [Nat.zero_add] at hj
        subst hj
        simp only
        rw [hl, eraseIdx_mid]
        apply ih
        rw [hl] at h
        simp only [List.length_append, List.length_cons, lenSum_append, lenSum] at h ⊢
        omega
      | none =>
        simp only
        apply ih
        simp only [List.length_cons, lenSum] at h
        omega

theorem reorder_terminates (ci : Bool) (syms : List Sym) : ∃ out, reorder ci syms = some out := by
  cases syms with
  | nil => exact ⟨[], rfl⟩
  | cons c rest =>
    simp only [reorder]
    exact reorderGo_some ci _ [] c rest (by simp [reorderFuel])

/-! ## postcondition of the reordering loop -/

theorem isEqual_iff (ci : Bool) (a b : Sym) : isEqual ci a b = true ↔ key ci a = key ci b := by
  simp [isEqual]

theorem isEqual_refl (ci : Bool) (a : Sym) : isEqual ci a a = true := by simp [isEqual]

theorem isEqual_symm {ci : Bool} {a b : Sym} (h : isEqual ci a b = true) : isEqual ci b a = true := by
  rw [isEqual_iff] at *; exact h.symm

theorem isEqual_trans {ci : Bool} {a b c : Sym} (h1 : isEqual ci a b = true)
    (h2 : isEqual ci b c = true) : isEqual ci a c = true := by
  rw [isEqual_iff] at *; exact h1.trans h2

/-- `out` is a permutation of a sub-list of `m` -/
def SubPerm (out m : List Sym) : Prop := ∃ l, l.Sublist m ∧ out.Perm l

theorem SubPerm.refl (m : List Sym) : SubPerm m m := ⟨m, List.Sublist.refl _, List.Perm.refl _⟩

theorem SubPerm.trans_perm {out m n : List Sym} (h : SubPerm out m) (p : m.Perm n) :
    SubPerm out n := by
  obtain ⟨l, hl, ho⟩ := h
  obtain ⟨l', hp, hs⟩ := List.exists_perm_sublist hl p
  exact ⟨l', hs, ho.trans hp.symm⟩

theorem SubPerm.trans_sublist {out m n : List Sym} (h : SubPerm out m) (p : m.Sublist n) :
    SubPerm out n := by
  obtain ⟨l, hl, ho⟩ := h
  exact ⟨l, hl.trans p, ho⟩

theorem SubPerm.mem {out m : List Sym} (h : SubPerm out m) {y : Sym} (hy : y ∈ out) : y ∈ m := by
  obtain ⟨l, hl, ho⟩ := h
  exact hl.subset (ho.subset hy)

theorem reorderGo_post (ci : Bool) (f : Nat) (done : List Sym) (cur : Sym) (rest out : List Sym)
    (h : reorderGo ci f done cur rest = some out)
    (hd : NoMask ci done.reverse) (hdr : ∀ d ∈ done, ∀ x ∈ cur :: rest, ¬ Bad ci d x) :
    NoMask ci out ∧ SubPerm out (done.reverse ++ cur :: rest) ∧
      ∀ y ∈ done.reverse ++ cur :: rest, ∃ z ∈ out, isEqual ci z y = true := by
  induction f generalizing done cur rest with
  | zero => simp [reorderGo] at h
  | succ f ih =>
    cases rest with
    | nil =>
      simp only [reorderGo, Option.some.injEq] at h
      subst h
      refine ⟨?_, SubPerm.refl _, fun y hy => ⟨y, hy, isEqual_refl ci y⟩⟩
      unfold NoMask at *
      rw [List.pairwise_append]
      refine ⟨hd, by simp, ?_⟩
      intro a ha b hb
      simp only [List.mem_singleton] at hb
      subst hb
      exact hdr a (by simpa using ha) b (by simp)
    | cons r rs =>
      simp only [reorderGo] at h
      cases hs : scan ci cur (r :: rs) 0 with
      | dup j =>
        obtain ⟨a, x, b, hl, hj, hx, _⟩ := scan_dup ci cur _ _ _ hs
        simp only [Nat.zero_add] at hj
        subst hj
        rw [hs] at h
        simp only at h
        rw [hl, eraseIdx_mid] at h
        rw [hl] at hdr ⊢
        obtain ⟨h1, h2, h3⟩ := ih done cur (a ++ b) h hd (by
          intro d hd' y hy
          apply hdr d hd' y
          simp only [List.mem_cons, List.mem_append] at hy ⊢
          grind)
        refine ⟨h1, h2.trans_sublist (by simp), ?_⟩
        intro y hy
        by_cases hyx : y = x
        · subst hyx
          obtain ⟨z, hz, hzc⟩ := h3 cur (by simp)
          exact ⟨z, hz, isEqual_trans hzc (isEqual_symm hx)⟩
        · apply h3
          simp only [List.mem_cons, List.mem_append, List.mem_reverse] at hy ⊢
          grind
      | longer j other =>
        obtain ⟨a, b, hl, hj, _, _, _, _⟩ := scan_longer ci cur _ _ _ _ hs
        simp only [Nat.zero_add] at hj
        subst hj
        rw [hs] at h
        simp only at h
        rw [hl, eraseIdx_mid] at h
        rw [hl] at hdr ⊢
        obtain ⟨h1, h2, h3⟩ := ih done other (cur :: (a ++ b)) h hd (by
          intro d hd' y hy
          apply hdr d hd' y
          simp only [List.mem_cons, List.mem_append] at hy ⊢
          grind)
        refine ⟨h1, h2.trans_perm ?_, ?_⟩
        · apply List.Perm.append_left
          exact (List.Perm.swap cur other (a ++ b)).trans
            (List.Perm.cons cur List.perm_middle.symm)
        · intro y hy
          apply h3
          simp only [List.mem_cons, List.mem_append, List.mem_reverse] at hy ⊢
          grind
      | none =>
        have hn := scan_none ci cur _ _ hs
        rw [hs] at h
        simp only at h
        have hlist : (cur :: done).reverse ++ r :: rs = done.reverse ++ cur :: r :: rs := by simp
        have := ih (cur :: done) r rs h (by
          unfold NoMask at *
          rw [List.reverse_cons, List.pairwise_append]
          refine ⟨hd, by simp, ?_⟩
          intro a ha b hb
          simp only [List.mem_singleton] at hb
          subst hb
          exact hdr a (by simpa using ha) b (by simp)) (by
          intro d hd' y hy
          rcases List.mem_cons.1 hd' with rfl | hd'
          · exact hn y hy
          · exact hdr d hd' y (List.mem_cons_of_mem _ hy))
        rw [hlist] at this
        exact this

theorem reorder_post (ci : Bool) (syms out : List Sym) (h : reorder ci syms = some out) :
    NoMask ci out ∧ (∃ l, l.Sublist syms ∧ out.Perm l) ∧
      (∀ y ∈ syms, ∃ z ∈ out, isEqual ci z y = true) := by
  cases syms with
  | nil =>
    simp only [reorder, Option.some.injEq] at h
    subst h
    exact ⟨List.Pairwise.nil, ⟨[], List.Sublist.refl _, List.Perm.refl _⟩, by simp⟩
  | cons c rest =>
    simp only [reorder] at h
    have := reorderGo_post ci _ [] c rest out h List.Pairwise.nil (by simp)
    simpa [SubPerm] using this

/-! ## `litMatch` and the MatchFirst strategy -/

theorem key_length (ci : Bool) (a : Sym) : (key ci a).length = a.length := by
  unfold key; split <;> simp

theorem key_prefix (ci : Bool) {a b : Sym} (h : a <+: b) : key ci a <+: key ci b := by
  unfold key; split
  · exact h.map _
  · exact h

theorem slice_add (s : List Char) (loc n : Nat) : slice s loc (loc + n) = (s.drop loc).take n := by
  simp [slice]

def MatchesAt (ci : Bool) (y : Sym) (s : List Char) (loc : Nat) : Prop :=
  key ci (slice s loc (loc + y.length)) = key ci y ∧
  (slice s loc (loc + y.length)).length = y.length ∧ (y ≠ [] → loc < s.length)

/-- the first conjunct of `MatchesAt` implies the other two -/
theorem matchesAt_of_key (ci : Bool) (y : Sym) (s : List Char) (loc : Nat)
    (h : key ci (slice s loc (loc + y.length)) = key ci y) : MatchesAt ci y s loc := by
  have hlen : (slice s loc (loc + y.length)).length = y.length := by
    have := congrArg List.length h
    simpa [key_length] using this
  refine ⟨h, hlen, ?_⟩
  intro hne
  rw [slice_add, List.length_take, List.length_drop] at hlen
  have : 0 < y.length := List.length_pos_iff.2 hne
  omega

theorem matchesAt_iff_key (ci : Bool) (y : Sym) (s : List Char) (loc : Nat) :
    MatchesAt ci y s loc ↔ key ci (slice s loc (loc + y.length)) = key ci y :=
  ⟨fun h => h.1, matchesAt_of_key ci y s loc⟩

theorem take_drop_eq_cons (s m : List Char) (loc : Nat) (h : (s.drop loc).take m.length = m)
    (hne : m ≠ []) : loc < s.length ∧ s[loc]? = m.head? := by
  cases m with
  | nil => exact absurd rfl hne
  | cons c m' =>
    by_cases hlt : loc < s.length
    · rw [List.drop_eq_getElem_cons hlt] at h
      simp only [List.length_cons, List.take_succ_cons, List.cons.injEq] at h
      refine ⟨hlt, ?_⟩
      rw [List.getElem?_eq_getElem hlt, h.1]
      rfl
    · rw [List.drop_of_length_le (by omega)] at h
      simp at h

theorem literal_isSome_iff (y : Sym) (s : List Char) (loc : Nat) :
    (literal y s loc).isSome = true ↔ (s.drop loc).take y.length = y := by
  match y with
  | [] => simp [literal]
  | [c] =>
    simp only [literal, literalSingle, List.length_cons, List.length_nil, Nat.zero_add,
      List.take_one, List.head?_drop]
    cases s[loc]? with
    | none => simp
    | some d => simp
  | c :: c' :: r =>
    simp only [literal, literalLong]
    constructor
    · intro h
      split at h
      · rename_i hc
        simp only [Bool.and_eq_true, isPrefixAt, beq_iff_eq] at hc
        exact hc.2
      · simp at h
    · intro h
      obtain ⟨h1, h2⟩ := take_drop_eq_cons s (c :: c' :: r) loc h (by simp)
      have hc : (decide (loc < s.length) && s[loc]? == (c :: c' :: r).head? &&
          isPrefixAt (c :: c' :: r) s loc) = true := by
        simp only [Bool.and_eq_true, isPrefixAt, beq_iff_eq, decide_eq_true_eq]
        exact ⟨⟨h1, h2⟩, h⟩
      rw [if_pos hc]
      rfl

theorem litMatch_iff_key (ci : Bool) (y : Sym) (s : List Char) (loc : Nat) :
    litMatch ci y s loc = true ↔ key ci (slice s loc (loc + y.length)) = key ci y := by
  cases ci with
  | true => simp [litMatch, key]
  | false =>
    simp only [litMatch, key, Bool.false_eq_true, if_false]
    rw [literal_isSome_iff, slice_add]

theorem litMatch_iff (ci : Bool) (y : Sym) (s : List Char) (loc : Nat) :
    litMatch ci y s loc = true ↔ MatchesAt ci y s loc := by
  rw [litMatch_iff_key, matchesAt_iff_key]

/-- two symbols matching at the same place: the shorter one masks the longer one -/
theorem masks_of_litMatch (ci : Bool) (y z : Sym) (s : List Char) (loc : Nat)
    (hy : litMatch ci y s loc = true) (hz : litMatch ci z s loc = true)
    (hlen : y.length ≤ z.length) : masks ci y z = true := by
  rw [litMatch_iff_key] at hy hz
  unfold masks
  rw [List.isPrefixOf_iff_prefix, ← hy, ← hz]
  apply key_prefix
  rw [slice_add, slice_add]
  exact List.take_prefix_take_left hlen

/-- a case-folded-equal symbol has the same length and matches at the same places -/
theorem isEqual_length {ci : Bool} {a b : Sym} (h : isEqual ci a b = true) : a.length = b.length := by
  rw [isEqual_iff] at h
  have := congrArg List.length h
  simpa [key_length] using this

theorem litMatch_congr {ci : Bool} {a b : Sym} (h : isEqual ci a b = true) (s : List Char)
    (loc : Nat) : litMatch ci a s loc = litMatch ci b s loc := by
  have hl := isEqual_length h
  rw [isEqual_iff] at h
  rw [Bool.eq_iff_iff, litMatch_iff_key, litMatch_iff_key, hl, h]

theorem matchFirst_longest (ci : Bool) (l : List Sym) (hpost : NoMask ci l) (s : List Char)
    (loc : Nat) :
    match matchFirstPath ci l s loc with
    | some (e, y) => y ∈ l ∧ litMatch ci y s loc = true ∧ e = loc + y.length ∧
        ∀ z ∈ l, litMatch ci z s loc = true → z.length ≤ y.length
    | none => ∀ z ∈ l, litMatch ci z s loc = false := by
  unfold matchFirstPath
  cases hf : l.find? (fun y => litMatch ci y s loc) with
  | none =>
    simp only
    intro z hz
    have := List.find?_eq_none.1 hf z hz
    simpa using this
  | some y =>
    simp only
    obtain ⟨hy, as, bs, hl, has⟩ := List.find?_eq_some_iff_append.1 hf
    refine ⟨by simp [hl], hy, by simp, ?_⟩
    intro z hz hzm
    rw [hl] at hz hpost
    rcases List.mem_append.1 hz with hz | hz
    · have := has z hz
      simp [hzm] at this
    · rcases List.mem_cons.1 hz with rfl | hz
      · exact Nat.le_refl _
      · unfold NoMask at hpost
        rw [List.pairwise_append] at hpost
        have hnb := List.rel_of_pairwise_cons hpost.2.1 hz
        apply Nat.le_of_not_gt
        intro hgt
        exact hnb (Or.inr ⟨hgt, masks_of_litMatch ci y z s loc hy hzm (Nat.le_of_lt hgt)⟩)

theorem oneOf_matchFirst_longest (ci : Bool) (syms : List Sym) (s : List Char) (loc : Nat) :
    match oneOf ci false syms s loc with
    | some (e, y) => y ∈ syms ∧ litMatch ci y s loc = true ∧ e = loc + y.length ∧
        ∀ z ∈ syms, litMatch ci z s loc = true → z.length ≤ y.length
    | none => ∀ z ∈ syms, litMatch ci z s loc = false := by
  obtain ⟨out, hout⟩ := reorder_terminates ci syms
  obtain ⟨hnm, ⟨l, hsub, hperm⟩, hrep⟩ := reorder_post ci syms out hout
  have hmf := matchFirst_longest ci out hnm s loc
  have hoo : oneOf ci false syms s loc = matchFirstPath ci out s loc := by
    unfold oneOf
    rw [hout]
    cases out with
    | nil => simp [matchFirstPath]
    | cons o os => simp
  rw [hoo]
  cases hm : matchFirstPath ci out s loc with
  | none =>
    rw [hm] at hmf
    simp only at hmf ⊢
    intro z hz
    obtain ⟨z', hz', he⟩ := hrep z hz
    rw [← litMatch_congr he]
    exact hmf z' hz'
  | some p =>
    obtain ⟨e, y⟩ := p
    rw [hm] at hmf
    simp only at hmf ⊢
    obtain ⟨h1, h2, h3, h4⟩ := hmf
    refine ⟨hsub.subset (hperm.subset h1), h2, h3, ?_⟩
    intro z hz hzm
    obtain ⟨z', hz', he⟩ := hrep z hz
    rw [← litMatch_congr he] at hzm
    rw [← isEqual_length he]
    exact h4 z' hz' hzm

/-! ## the regex strategy (case-sensitive) -/

theorem ends_catL_cons (ci : Bool) (s : List Char) (r : Re) (rs : List Re) (pos : Nat) :
    ends ci s (catL (r :: rs)) pos = (ends ci s r pos).flatMap (ends ci s (catL rs)) := by
  cases rs with
  | nil =>
    show ends ci s r pos = (ends ci s r pos).flatMap (fun p => ends ci s .eps p)
    simp [ends]
  | cons r' rs' => simp [catL, ends]

theorem take_succ_drop (s : List Char) (pos n : Nat) :
    (s.drop pos).take (n + 1) =
      match s[pos]? with
      | some d => d :: (s.drop (pos + 1)).take n
      | none => [] := by
  by_cases hlt : pos < s.length
  · rw [List.getElem?_eq_getElem hlt, List.drop_eq_getElem_cons hlt]
    rfl
  · rw [List.getElem?_eq_none (by omega), List.drop_of_length_le (by omega)]
    simp

theorem ends_litRe (s : List Char) (y : Sym) (pos : Nat) :
    ends false s (litRe y) pos =
      if (slice s pos (pos + y.length) == y) then [pos + y.length] else [] := by
  induction y generalizing pos with
  | nil => simp [litRe, catL, ends, slice]
  | cons c r ih =>
    have hl : litRe (c :: r) = catL (.chr c :: r.map .chr) := rfl
    rw [hl, ends_catL_cons]
    have ih' := ih (pos + 1)
    unfold litRe at ih'
    rw [slice_add] at ih' ⊢
    rw [List.length_cons, take_succ_drop]
    simp only [ends]
    cases hs : s[pos]? with
    | none => simp
    | some d =>
      simp only [chrEq, Bool.false_eq_true, if_false]
      by_cases hcd : c = d
      · subst hcd
        simp only [beq_self_eq_true, if_true, List.flatMap_cons, List.flatMap_nil,
          List.append_nil, ih']
        by_cases hr : List.take r.length (List.drop (pos + 1) s) = r
        · simp [hr]; omega
        · simp [hr]
      · have : (c == d) = false := by simpa using hcd
        simp only [this, Bool.false_eq_true, if_false, List.flatMap_nil]
        have hdc : ¬ d = c := fun h => hcd h.symm
        simp [hdc]

theorem ends_litRe_litMatch (s : List Char) (y : Sym) (pos : Nat) :
    ends false s (litRe y) pos = if litMatch false y s pos = true then [pos + y.length] else [] := by
  rw [ends_litRe]
  have : litMatch false y s pos = (slice s pos (pos + y.length) == y) := by
    rw [Bool.eq_iff_iff, litMatch_iff_key]
    simp [key]
  rw [this]

theorem ends_altL_map (ci : Bool) (s : List Char) (f : Sym → Re) (l : List Sym) (hl : l ≠ [])
    (pos : Nat) : ends ci s (altL (l.map f)) pos = l.flatMap (fun y => ends ci s (f y) pos) := by
  induction l with
  | nil => exact absurd rfl hl
  | cons y l' ih =>
    cases l' with
    | nil => simp [altL]
    | cons y' l'' =>
      have := ih (by simp)
      simp only [List.map_cons, altL, ends, List.flatMap_cons] at this ⊢
      rw [this]

theorem head?_flatMap_find (p : Sym → Bool) (g : Sym → Nat) (l : List Sym) :
    (l.flatMap (fun y => if p y = true then [g y] else [])).head? = (l.find? p).map g := by
  induction l with
  | nil => simp
  | cons y l' ih =>
    simp only [List.flatMap_cons, List.find?_cons]
    cases hp : p y with
    | true => simp
    | false => simpa using ih

theorem CItem_mem_escItem (d c : Char) : CItem.mem d (escItem c) = (d == c) := by
  unfold escItem
  split
  · rename_i h; simp only [beq_iff_eq] at h; subst h; rfl
  · split
    · rename_i h; simp only [beq_iff_eq] at h; subst h; rfl
    · rfl

theorem litMatch_false_single (c d : Char) (s : List Char) (loc : Nat) (h : s[loc]? = some d) :
    litMatch false [c] s loc = (d == c) := by
  by_cases hdc : d = c <;> simp [litMatch, literal, literalSingle, h, hdc]

theorem find_singles (l : List Sym) (hall : ∀ y ∈ l, y.length = 1) (s : List Char) (loc : Nat)
    (d : Char) (h : s[loc]? = some d) :
    l.find? (fun y => litMatch false y s loc) =
      if l.any (fun y => d == y.headD ' ') then some [d] else none := by
  induction l with
  | nil => simp
  | cons y l' ih =>
    have ih' := ih (fun y hy => hall y (List.mem_cons_of_mem _ hy))
    have hy := hall y (by simp)
    match y, hy with
    | [c], _ =>
      simp only [List.find?_cons, List.any_cons, List.headD_cons, litMatch_false_single c d s loc h]
      by_cases hdc : d = c
      · subst hdc; simp
      · have : (d == c) = false := by simpa using hdc
        simp only [this, Bool.false_or]
        exact ih'

theorem matchAt_oneOfRe (l : List Sym) (s : List Char) (loc : Nat) :
    matchAt false (oneOfRe l) s loc =
      (l.find? (fun y => litMatch false y s loc)).map (fun y => loc + y.length) := by
  unfold matchAt oneOfRe
  split
  · rename_i hall
    have hall' : ∀ y ∈ l, y.length = 1 := by
      intro y hy
      have := List.all_eq_true.1 hall y hy
      simpa using this
    simp only [ends]
    cases hs : s[loc]? with
    | none =>
      have : l.find? (fun y => litMatch false y s loc) = none := by
        rw [List.find?_eq_none]
        intro y hy hm
        have hm' := (litMatch_iff false y s loc).1 hm
        have hne : y ≠ [] := by
          intro h0; have := hall' y hy; rw [h0] at this; simp at this
        have hlt := hm'.2.2 hne
        rw [List.getElem?_eq_none_iff] at hs
        omega
      rw [this]; rfl
    | some d =>
      rw [find_singles l hall' s loc d hs]
      have hc : clsMemCi false (l.map (fun s => escItem (s.headD ' '))) d =
          l.any (fun y => d == y.headD ' ') := by
        simp only [clsMemCi, Bool.false_eq_true, if_false, clsMem, List.any_map]
        congr 1
        funext y
        exact CItem_mem_escItem d _
      simp only [hc]
      cases l.any (fun y => d == y.headD ' ') <;> simp
  · rename_i hall
    have hne : l ≠ [] := by
      intro h0; subst h0; simp at hall
    rw [ends_altL_map false s litRe l hne loc]
    simp only [ends_litRe_litMatch]
    exact head?_flatMap_find _ _ l

/-- the regex and the MatchFirst strategies agree (case-sensitive), for any symbol order -/
theorem regexPath_eq_matchFirst' (l : List Sym) (s : List Char) (loc : Nat) :
    regexPath false l s loc = matchFirstPath false l s loc := by
  unfold regexPath matchFirstPath
  rw [matchAt_oneOfRe]
  cases hf : l.find? (fun y => litMatch false y s loc) with
  | none => rfl
  | some y =>
    have hy := (List.find?_eq_some_iff_append.1 hf).1
    rw [litMatch_iff_key] at hy
    simp only [key, Bool.false_eq_true, if_false] at hy
    simp [hy]

theorem regexPath_eq_matchFirst (l : List Sym) (_hne : ∀ y ∈ l, y ≠ []) (s : List Char)
    (loc : Nat) : regexPath false l s loc = matchFirstPath false l s loc :=
  regexPath_eq_matchFirst' l s loc

/-- `one_of(..., caseless=False)`: `use_regex` does not change the outcome -/
theorem oneOf_regex_eq_matchFirst (syms : List Sym) (s : List Char) (loc : Nat) :
    oneOf false true syms s loc = oneOf false false syms s loc := by
  unfold oneOf
  cases reorder false syms with
  | none => rfl
  | some out =>
    cases out with
    | nil => rfl
    | cons o os => simp [regexPath_eq_matchFirst']

/-- longest match also for the regex strategy (case-sensitive) -/
theorem oneOf_regex_longest (syms : List Sym) (s : List Char) (loc : Nat) :
    match oneOf false true syms s loc with
    | some (e, y) => y ∈ syms ∧ litMatch false y s loc = true ∧ e = loc + y.length ∧
        ∀ z ∈ syms, litMatch false z s loc = true → z.length ≤ y.length
    | none => ∀ z ∈ syms, litMatch false z s loc = false := by
  rw [oneOf_regex_eq_matchFirst]
  exact oneOf_matchFirst_longest false syms s loc

end PP.OneOf
