import PPModel.Mod.Entry
/-! Locations only move forward: pre-parsing never goes back. -/
namespace PP.Parse

theorem skipWhite_ge (w s : List Char) (loc : Nat) : loc ≤ skipWhite w s loc := by
  unfold skipWhite; omega

theorem ignoreOne_ge (p : P) (e : Nat) : ∀ k loc found l f, ignoreOne p e k loc found = (.at l, f) → loc ≤ l := by
  intro k
  induction k with
  | zero => intro loc found l f h; simp [ignoreOne] at h
  | succ k ih =>
    intro loc found l f h
    unfold ignoreOne at h
    cases hp : p e loc true true with
    | ok l' ts =>
      rw [hp] at h
      simp only at h
      split at h
      · simp at h
      · have := ih _ _ _ _ h; omega
    | fail c l' =>
      rw [hp] at h
      cases c <;> simp at h
      omega
    | idx => rw [hp] at h; simp at h
    | hang => rw [hp] at h; simp at h

theorem ignorePass_ge (p : P) (slen : Nat) : ∀ es loc found l f, ignorePass p slen es loc found = (.at l, f) → loc ≤ l := by
  intro es
  induction es with
  | nil => intro loc found l f h; simp [ignorePass] at h; omega
  | cons e es ih =>
    intro loc found l f h
    unfold ignorePass at h
    cases h1 : ignoreOne p e (slen + 2) loc found with
    | mk r f1 =>
      rw [h1] at h
      cases r with
      | «at» l1 =>
        simp only at h
        have a := ignoreOne_ge p e _ _ _ _ _ h1
        have b := ih _ _ _ _ h
        omega
      | abort o => simp at h

theorem skipIgnorables_ge (p : P) (slen : Nat) (ign : List Nat) : ∀ k loc l, skipIgnorables p slen ign k loc = .at l → loc ≤ l := by
  intro k
  induction k with
  | zero => intro loc l h; simp [skipIgnorables] at h
  | succ k ih =>
    intro loc l h
    unfold skipIgnorables at h
    cases h1 : ignorePass p slen ign loc false with
    | mk r f1 =>
      rw [h1] at h
      cases r with
      | «at» l1 =>
        simp only at h
        have a := ignorePass_ge p slen _ _ _ _ _ h1
        split at h
        · simp at h; omega
        · have b := ih _ _ h; omega
      | abort o => simp at h

theorem lineStartPre_ge (w : List Char) (nl : Bool) (s : List Char) (loc : Nat) : loc ≤ lineStartPre w nl s loc := by
  unfold lineStartPre
  split
  · rename_i h; simp at h; omega
  · have hgo : ∀ k r, r ≤ lineStartPre.go w s k r := by
      intro k
      induction k with
      | zero => intro r; simp [lineStartPre.go]
      | succ k ih =>
        intro r
        unfold lineStartPre.go
        split
        · have a := ih (skipWhite w s (r + 1)); have b := skipWhite_ge w s (r + 1); omega
        · omega
    have a := skipWhite_ge w s loc
    simp only
    split
    · have b := hgo (s.length + 1) (skipWhite w s loc); omega
    · exact a

/-- ParserElement.preParse never moves backwards (for any behaviour of the ignorable expressions) -/
theorem preParse_ge (p : P) (nd : Node) (s : List Char) (loc l : Nat) (h : preParse p nd s loc = .at l) : loc ≤ l := by
  unfold preParse at h
  split at h
  · simp at h; have := lineStartPre_ge ‹_› ‹_› s loc; omega
  · by_cases hi : nd.ignore.isEmpty = true
    · simp only [hi, if_true] at h
      simp at h
      split at h
      · have := skipWhite_ge nd.white s loc; omega
      · omega
    · simp only [hi] at h
      cases h1 : skipIgnorables p s.length nd.ignore (s.length + 2) loc with
      | «at» l1 =>
        rw [h1] at h
        simp at h
        have a := skipIgnorables_ge p _ _ _ _ _ h1
        split at h
        · have := skipWhite_ge nd.white s l1; omega
        · omega
      | abort o => rw [h1] at h; simp at h

end PP.Parse

namespace PP.Parse

/-- a soft (backtrackable) failure: `ParseException` or a raw `IndexError` -/
def Out.soft : Out → Bool
  | .fail .parse _ => true
  | .idx => true
  | _ => false

def Out.isOk : Out → Bool
  | .ok _ _ => true
  | _ => false

theorem ignoreOne_abort (p : P) (e : Nat) : ∀ k loc found o f, ignoreOne p e k loc found = (.abort o, f) → o.isOk = false := by
  intro k
  induction k with
  | zero => intro loc found o f h; simp [ignoreOne] at h; rw [← h.1]; rfl
  | succ k ih =>
    intro loc found o f h
    unfold ignoreOne at h
    cases hp : p e loc true true with
    | ok l' ts =>
      rw [hp] at h
      simp only at h
      split at h
      · simp at h; rw [← h.1]; rfl
      · exact ih _ _ _ _ h
    | fail c l' =>
      rw [hp] at h
      cases c <;> simp at h <;> (rw [← h.1]; rfl)
    | idx => rw [hp] at h; simp at h; rw [← h.1]; rfl
    | hang => rw [hp] at h; simp at h; rw [← h.1]; rfl

theorem ignorePass_abort (p : P) (slen : Nat) : ∀ es loc found o f, ignorePass p slen es loc found = (.abort o, f) → o.isOk = false := by
  intro es
  induction es with
  | nil => intro loc found o f h; simp [ignorePass] at h
  | cons e es ih =>
    intro loc found o f h
    unfold ignorePass at h
    cases h1 : ignoreOne p e (slen + 2) loc found with
    | mk r f1 =>
      rw [h1] at h
      cases r with
      | «at» l1 => exact ih _ _ _ _ h
      | abort o1 => simp at h; rw [← h.1]; exact ignoreOne_abort p e _ _ _ _ _ h1

theorem skipIgnorables_abort (p : P) (slen : Nat) (ign : List Nat) : ∀ k loc o, skipIgnorables p slen ign k loc = .abort o → o.isOk = false := by
  intro k
  induction k with
  | zero => intro loc o h; simp [skipIgnorables] at h; rw [← h]; rfl
  | succ k ih =>
    intro loc o h
    unfold skipIgnorables at h
    cases h1 : ignorePass p slen ign loc false with
    | mk r f1 =>
      rw [h1] at h
      cases r with
      | «at» l1 =>
        simp only at h
        split at h
        · simp at h
        · exact ih _ _ h
      | abort o1 => simp at h; rw [← h]; exact ignorePass_abort p slen _ _ _ _ _ h1

/-- pre-parsing never "aborts with a success" -/
theorem preParse_abort (p : P) (nd : Node) (s : List Char) (loc : Nat) (o : Out) (h : preParse p nd s loc = .abort o) :
    o.isOk = false := by
  unfold preParse at h
  split at h
  · simp at h
  · by_cases hi : nd.ignore.isEmpty = true
    · simp [hi] at h
    · simp only [hi] at h
      cases h1 : skipIgnorables p s.length nd.ignore (s.length + 2) loc with
      | «at» l1 => rw [h1] at h; simp at h
      | abort o1 => rw [h1] at h; simp at h; rw [← h]; exact skipIgnorables_abort p _ _ _ _ _ h1

end PP.Parse
