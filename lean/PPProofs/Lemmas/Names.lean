import PPModel.Mod.Names
import PPProofs.Lemmas.PR
import PPProofs.Props.C10
import PPProofs.Props.C11
/-! Helper lemmas for C05: how the declarative reading (`bindsL`, `occs`, `listAll`, `specKeys`) behaves under list
    concatenation and under one more binding, and the refinement `abs (resultOf ts) = specAbs ts`. -/
namespace PP.Names
open PP.Parse PP.PR PP.PyDict

/-! ### list-level facts about the annotated tree -/

theorem stripTopL_append (a b : List Tok) : stripTopL (a ++ b) = stripTopL a ++ stripTopL b := by
  induction a with
  | nil => simp [stripTopL]
  | cons t a ih => simp [stripTopL, ih, List.append_assoc]

theorem bindsL_append (a b : List Tok) : bindsL (a ++ b) = bindsL a ++ bindsL b := by
  induction a with
  | nil => simp [bindsL]
  | cons t a ih => simp [bindsL, ih, List.append_assoc]

theorem bindsL_singleton (t : Tok) : bindsL [t] = bindsT t := by simp [bindsL]

theorem occs_append (k : String) (a b : List Tok) : occs k (a ++ b) = occs k a ++ occs k b := by
  simp [occs, bindsL_append, List.filterMap_append]

theorem listAll_append (k : String) (a b : List Tok) : listAll k (a ++ b) = (listAll k a || listAll k b) := by
  simp [listAll, bindsL_append, List.any_append]

/-! ### `dedup` -/

theorem mem_dedup {x : String} {xs : List String} : x ∈ dedup xs ↔ x ∈ xs := by
  induction xs with
  | nil => simp [dedup]
  | cons y ys ih =>
    simp only [dedup, List.mem_cons, List.mem_filter, ih, bne_iff_ne, ne_eq]
    by_cases h : x = y <;> simp [h]

theorem dedup_append (xs ys : List String) :
    dedup (xs ++ ys) = dedup xs ++ (dedup ys).filter (fun k => k ∉ dedup xs) := by
  induction xs with
  | nil =>
    show dedup ys = [] ++ (dedup ys).filter (fun k => k ∉ ([] : List String))
    rw [List.nil_append]
    exact (List.filter_eq_self.mpr (by simp)).symm
  | cons x xs ih =>
    simp only [List.cons_append, dedup, ih, List.filter_append, List.cons.injEq, true_and, List.append_cancel_left_eq,
      List.filter_filter]
    apply List.filter_congr
    intro y _
    simp only [List.mem_cons, List.mem_filter, mem_dedup, bne_iff_ne, ne_eq, not_or, not_and, Decidable.not_not,
      Bool.and_eq_true, decide_eq_true_eq, Bool.decide_and, decide_not]
    by_cases h1 : y = x <;> by_cases h2 : y ∈ xs <;> simp [h1, h2]

theorem dedup_singleton (x : String) : dedup [x] = [x] := by simp [dedup]

theorem dedup_snoc (xs : List String) (x : String) :
    dedup (xs ++ [x]) = if x ∈ dedup xs then dedup xs else dedup xs ++ [x] := by
  rw [dedup_append, dedup_singleton]
  by_cases h : x ∈ dedup xs <;> simp [h]

theorem boundNames_append (a b : List Tok) : boundNames (a ++ b) = boundNames a ++ boundNames b := by
  simp [boundNames, bindsL_append, List.filterMap_append]

/-! ### `specAbs` is compositional -/

theorem specKeys_append (a b : List Tok) :
    specKeys (a ++ b) = specKeys a ++ (specKeys b).filter (fun k => k ∉ specKeys a) := by
  simp only [specKeys, boundNames_append]
  exact dedup_append _ _

theorem specAbs_append (a b : List Tok) : specAbs (a ++ b) = (specAbs a).merge (specAbs b) := by
  apply Abs.ext'
  · simp [specAbs, specItems, Abs.merge, stripTopL_append]
  · exact specKeys_append a b
  · intro k; simp [specAbs, Abs.merge, occs_append]
  · intro k; simp [specAbs, Abs.merge, listAll_append]

theorem specAbs_nil : specAbs [] = abs (emptyPR : NPR) := by
  apply Abs.ext' <;>
    simp [specAbs, specItems, specKeys, boundNames, occs, listAll, bindsL, stripTopL, dedup, abs, emptyPR, dkeys, dget]

theorem specAbs_plain (t : Tok) (hb : bindsT t = []) (hs : Tok.stripTop t = [t]) : specAbs [t] = abs (single t) := by
  apply Abs.ext' <;>
    simp [specAbs, specItems, specKeys, boundNames, occs, listAll, bindsL, hb, stripTopL, hs, dedup, abs, single, dkeys, dget]

theorem merge_empty_left (a : Abs Tok) : (abs (emptyPR : NPR)).merge a = a := by
  apply Abs.ext' <;> simp [Abs.merge, abs, emptyPR, dkeys, dget]

/-- one more binding around `ts`, declaratively = `Abs.reinit` (PRSpec.lean) of the level of `ts` -/
theorem specAbs_nm (n : List Char) (m al : Bool) (ts : List Tok) :
    specAbs [.nm n m al ts] = (specAbs ts).reinit Tok.g (some (key n)) al m := by
  have hb : bindsL [.nm n m al ts] = bindsL ts ++ [⟨key n, m, al, ts⟩] := by simp [bindsL, bindsT]
  have hst : stripTopL [.nm n m al ts] = stripTopL ts := by simp [stripTopL, Tok.stripTop]
  unfold Abs.reinit
  simp only
  by_cases hn : key n = ""
  · -- the empty name: no binding at all
    simp only [hn, if_true]
    apply Abs.ext'
    · simp [specAbs, specItems, hst]
    · simp [specAbs, specKeys, boundNames, hb, List.filterMap_append, hn]
    · intro k; simp [specAbs, occs, hb, List.filterMap_append, Bind.is, hn]
    · intro k; simp [specAbs, listAll, hb, List.any_append, Bind.is, hn]
  · simp only [hn, if_false]
    have hla : ∀ k, listAll k [.nm n m al ts] = (listAll k ts || (!m && decide (k = key n))) := by
      intro k
      simp only [listAll, hb, List.any_append, List.any_cons, List.any_nil, Bool.or_false, Bind.is]
      congr 1
      by_cases hk : k = key n
      · subst hk; simp [hn]
      · have : ¬ key n = k := fun e => hk e.symm
        simp [hk, this]
    cases al
    · -- first item, or nothing
      simp only [Bool.false_eq_true, if_false]
      cases hts : stripTopL ts with
      | nil =>
        have hv : (⟨key n, m, false, ts⟩ : Bind).value = none := by simp [Bind.value, hts]
        have : (specAbs ts).toks = [] := hts
        simp only [this]
        apply Abs.ext'
        · simp [specAbs, specItems, hst, hts]
        · simp [specAbs, specKeys, boundNames, hb, List.filterMap_append, hv]
        · intro k; simp [specAbs, occs, hb, List.filterMap_append, hv]
        · intro k; simp [specAbs, hla]
      | cons v vs =>
        have hv : (⟨key n, m, false, ts⟩ : Bind).value = some v := by simp [Bind.value, hts]
        have : (specAbs ts).toks = v :: vs := hts
        simp only [this]
        apply Abs.ext'
        · simp [specAbs, specItems, hst, Abs.add, hts]
        · have hbn : boundNames [.nm n m false ts] = boundNames ts ++ [key n] := by
            simp [boundNames, hb, List.filterMap_append, hv, hn]
          simp only [specAbs, specKeys, hbn, dedup_snoc, Abs.add]
          by_cases hm : key n ∈ dedup (boundNames ts) <;> simp [hm]
        · intro k
          simp only [specAbs, occs, hb, List.filterMap_append, Abs.add, List.filterMap_cons, List.filterMap_nil, Bind.is]
          by_cases hk : k = key n
          · subst hk; simp [hn, hv]
          · have : ¬ key n = k := fun e => hk e.symm
            simp [hk, this]
        · intro k; simp [specAbs, hla, Abs.add]
    · -- the whole item list as a fresh nested result
      have hv : (⟨key n, m, true, ts⟩ : Bind).value = some (.g (stripTopL ts)) := by simp [Bind.value]
      simp only [if_true]
      apply Abs.ext'
      · simp [specAbs, specItems, hst, Abs.add]
      · have hbn : boundNames [.nm n m true ts] = boundNames ts ++ [key n] := by
          simp [boundNames, hb, List.filterMap_append, hv, hn]
        simp only [specAbs, specKeys, hbn, dedup_snoc, Abs.add]
        by_cases hm : key n ∈ dedup (boundNames ts) <;> simp [hm]
      · intro k
        simp only [specAbs, occs, hb, List.filterMap_append, Abs.add, List.filterMap_cons, List.filterMap_nil, Bind.is,
          specItems]
        by_cases hk : k = key n
        · subst hk; simp [hn, hv]
        · have : ¬ key n = k := fun e => hk e.symm
          simp [hk, this]
      · intro k; simp [specAbs, hla, Abs.add]

/-- a hidden part, declaratively: no items, the bindings of `ts` -/
theorem specAbs_hid (ts : List Tok) : specAbs [.hid ts] = { specAbs ts with toks := [] } := by
  have hb : bindsL [.hid ts] = bindsL ts := by simp [bindsL, bindsT]
  apply Abs.ext'
  · simp [specAbs, specItems, stripTopL, Tok.stripTop]
  · simp [specAbs, specKeys, boundNames, hb]
  · intro k; simp [specAbs, occs, hb]
  · intro k; simp [specAbs, listAll, hb]

/-! ### the refinement, one level -/

theorem prinv_empty : PRInv (emptyPR : NPR) := ⟨by simp [emptyPR, dkeys], by simp [emptyPR]⟩

theorem prinv_single (t : Tok) : PRInv (single t) := ⟨by simp [single, dkeys], by simp [single]⟩

mutual
/-- every element's result object is well formed and abstracts to its declarative level -/
theorem tokRes_ok : (t : Tok) → PRInv (tokRes t) ∧ abs (tokRes t) = specAbs [t]
  | .s v => ⟨by rw [tokRes]; exact prinv_single _, by rw [tokRes, specAbs_plain _ (by simp [bindsT]) (by simp [Tok.stripTop])]⟩
  | .n v => ⟨by rw [tokRes]; exact prinv_single _, by rw [tokRes, specAbs_plain _ (by simp [bindsT]) (by simp [Tok.stripTop])]⟩
  | .g ts => ⟨by rw [tokRes]; exact prinv_single _, by rw [tokRes, specAbs_plain _ (by simp [bindsT]) (by simp [Tok.stripTop])]⟩
  | .nm n m al ts => by
    have h := resGo_ok ts emptyPR prinv_empty
    rw [tokRes]
    refine ⟨prinv_of_reinit _ _ _ _ _ h.1, ?_⟩
    rw [reinit_refines, h.2, merge_empty_left, specAbs_nm]
  | .hid ts => by
    have h := resGo_ok ts emptyPR prinv_empty
    rw [tokRes]
    unfold hide
    refine ⟨prinv_fixDel h.1 _ _, ?_⟩
    rw [abs_fixDel, h.2, merge_empty_left, specAbs_hid]
/-- continuing a `+=` chain over `ts` = ONE merge with the declarative level of `ts` -/
theorem resGo_ok : (ts : List Tok) → (acc : NPR) → PRInv acc →
    PRInv (resGo acc ts) ∧ abs (resGo acc ts) = (abs acc).merge (specAbs ts)
  | [], acc, h => by
    rw [resGo]
    refine ⟨h, ?_⟩
    rw [specAbs_nil]
    apply Abs.ext' <;> simp [Abs.merge, abs, emptyPR, dkeys, dget]
  | t :: ts, acc, h => by
    have ht := tokRes_ok t
    have hr := resGo_ok ts (iadd acc (tokRes t)) (prinv_iadd h)
    rw [resGo]
    refine ⟨hr.1, ?_⟩
    rw [hr.2, abs_iadd _ _ ht.1, ht.2, Abs.merge_assoc, ← specAbs_append]
    rfl
end

theorem resultOf_inv (ts : List Tok) : PRInv (resultOf ts) := (resGo_ok ts emptyPR prinv_empty).1

theorem resultOf_abs (ts : List Tok) : abs (resultOf ts) = specAbs ts := by
  have := (resGo_ok ts emptyPR prinv_empty).2
  rw [merge_empty_left] at this
  exact this

end PP.Names
