import PPModel.Mod.Diagram
/-! Helper lemmas for C20: association lists and the effect of the converter's primitive
    operations on the two id-keyed tables (`lookup`, `diagrams`). -/
namespace PP.Diagram

variable {α : Type}

@[simp] theorem aget_nil (k : Nat) : aget ([] : List (Nat × α)) k = none := rfl

theorem aget_aset_same (l : List (Nat × α)) (k : Nat) (v : α) : aget (aset l k v) k = some v := by
  induction l with
  | nil => simp [aset, aget]
  | cons p rest ih =>
    obtain ⟨k', v'⟩ := p
    unfold aset
    by_cases h : k' = k
    · simp [h, aget]
    · simp [h, aget, ih]

theorem aget_aset_ne (l : List (Nat × α)) (k k' : Nat) (v : α) (h : k' ≠ k) :
    aget (aset l k v) k' = aget l k' := by
  induction l with
  | nil => simp [aset, aget]; intro h'; exact absurd h'.symm h
  | cons p rest ih =>
    obtain ⟨k2, v2⟩ := p
    unfold aset
    by_cases h2 : k2 = k
    · subst h2
      have : ¬ k2 = k' := fun e => h e.symm
      simp [aget, this]
    · simp only [h2, if_false]
      unfold aget
      by_cases h3 : k2 = k'
      · simp [h3]
      · simp [h3, ih]

theorem aget_adel_same (l : List (Nat × α)) (k : Nat) : aget (adel l k) k = none := by
  induction l with
  | nil => rfl
  | cons p rest ih =>
    obtain ⟨k2, v2⟩ := p
    unfold adel
    by_cases h2 : k2 = k
    · simp [h2, ih]
    · simp [h2, aget, ih]

theorem aget_adel_ne (l : List (Nat × α)) (k k' : Nat) (h : k' ≠ k) :
    aget (adel l k) k' = aget l k' := by
  induction l with
  | nil => rfl
  | cons p rest ih =>
    obtain ⟨k2, v2⟩ := p
    unfold adel
    by_cases h2 : k2 = k
    · subst h2
      have : ¬ k2 = k' := fun e => h e.symm
      simp [aget, this, ih]
    · by_cases h3 : k2 = k'
      · subst h3; simp [h2, aget]
      · simp [h2, aget, h3, ih]

theorem adel_absent (l : List (Nat × α)) (k : Nat) (h : aget l k = none) : adel l k = l := by
  induction l with
  | nil => rfl
  | cons p rest ih =>
    obtain ⟨k2, v2⟩ := p
    unfold aget at h
    by_cases h2 : k2 = k
    · simp [h2] at h
    · simp only [h2, if_false] at h
      unfold adel
      simp [h2, ih h]

/-! ### heap-only operations leave the tables alone -/

@[simp] theorem alloc_lookup (s : St) (n : PNode) : (s.alloc n).2.lookup = s.lookup := rfl
@[simp] theorem alloc_diagrams (s : St) (n : PNode) : (s.alloc n).2.diagrams = s.diagrams := rfl
@[simp] theorem alloc_index (s : St) (n : PNode) : (s.alloc n).2.index = s.index := rfl
@[simp] theorem setKw_lookup (s : St) (r : Nat) (kw : Kw) : (s.setKw r kw).lookup = s.lookup := rfl
@[simp] theorem setKw_diagrams (s : St) (r : Nat) (kw : Kw) : (s.setKw r kw).diagrams = s.diagrams := rfl
@[simp] theorem setKw_index (s : St) (r : Nat) (kw : Kw) : (s.setKw r kw).index = s.index := rfl
@[simp] theorem newNT_lookup (s : St) (t : String) : (newNT s t).2.lookup = s.lookup := rfl
@[simp] theorem newNT_diagrams (s : St) (t : String) : (newNT s t).2.diagrams = s.diagrams := rfl

@[simp] theorem putChild_lookup (s : St) (p i : Nat) (v : Slot) : (s.putChild p i v).lookup = s.lookup := by
  unfold St.putChild; split <;> rfl
@[simp] theorem putChild_diagrams (s : St) (p i : Nat) (v : Slot) :
    (s.putChild p i v).diagrams = s.diagrams := by
  unfold St.putChild; split <;> rfl

/-! ### extract_into_diagram / mark_for_extraction: effect on the tables -/

theorem extract_lookup (s : St) (el : Nat) :
    (extractIntoDiagram s el).lookup = adel s.lookup el := by
  unfold extractIntoDiagram
  cases h : aget s.lookup el with
  | none =>
    simp only
    exact (adel_absent _ _ h).symm
  | some pos =>
    simp only
    cases pos.parent <;> simp

theorem extract_diagrams_ne (s : St) (el k : Nat) (h : k ≠ el) :
    aget (extractIntoDiagram s el).diagrams k = aget s.diagrams k := by
  unfold extractIntoDiagram
  cases hl : aget s.lookup el with
  | none => rfl
  | some pos =>
    simp only
    cases pos.parent <;> simp [aget_aset_ne _ _ _ _ h]

theorem extract_lookup_ne (s : St) (el k : Nat) (h : k ≠ el) :
    aget (extractIntoDiagram s el).lookup k = aget s.lookup k := by
  rw [extract_lookup, aget_adel_ne _ _ _ h]

theorem extract_lookup_same (s : St) (el : Nat) : aget (extractIntoDiagram s el).lookup el = none := by
  rw [extract_lookup, aget_adel_same]

theorem mark_lookup_ne (g : Grammar) (s : St) (el k : Nat) (nm : Option String) (f : Bool) (h : k ≠ el) :
    aget (markForExtraction g s el nm f).lookup k = aget s.lookup k := by
  unfold markForExtraction
  cases hl : aget s.lookup el with
  | none => rfl
  | some st =>
    simp only
    split
    · rw [extract_lookup_ne _ _ _ h]; exact aget_aset_ne _ _ _ _ h
    · exact aget_aset_ne _ _ _ _ h

theorem mark_diagrams_ne (g : Grammar) (s : St) (el k : Nat) (nm : Option String) (f : Bool) (h : k ≠ el) :
    aget (markForExtraction g s el nm f).diagrams k = aget s.diagrams k := by
  unfold markForExtraction
  cases hl : aget s.lookup el with
  | none => rfl
  | some st =>
    simp only
    split
    · rw [extract_diagrams_ne _ _ _ h]
    · rfl

/-- after `mark_for_extraction` the element's own entry is gone, or it is the old one with
    `extract = True`, a name that is not None, and the same `complete` flag -/
theorem mark_lookup_same (g : Grammar) (s : St) (el : Nat) (nm : Option String) (f : Bool) :
    aget (markForExtraction g s el nm f).lookup el = none ∨
    ∃ st st', aget s.lookup el = some st ∧ aget (markForExtraction g s el nm f).lookup el = some st' ∧
      st'.name.isSome ∧ st'.extract = true ∧ st'.complete = st.complete ∧
      (f || (st.complete && worth g el)) = false := by
  unfold markForExtraction
  cases hl : aget s.lookup el with
  | none => left; simp [hl]
  | some st =>
    simp only
    split
    · left; exact extract_lookup_same _ _
    · rename_i hc
      right
      refine ⟨st, _, rfl, aget_aset_same _ _ _, ?_, rfl, rfl, ?_⟩
      · simp only
        split
        · rename_i ht
          cases hn : st.name with
          | none => simp [hn, truthy] at ht
          | some x => rfl
        · split
          · rename_i ht
            cases hn : nm with
            | none => simp [hn, truthy] at ht
            | some x => rfl
          · split
            · rename_i ht
              cases hn : (g[el]?).bind (·.custom) with
              | none => simp [hn, truthy] at ht
              | some x => rfl
            · rfl
      · simpa using hc

end PP.Diagram
