import PPProofs.Lemmas.LRGrow
/-!
# The model's parse of the iterative grammar `I = And [b, Z]`, `Z = ZeroOrMore R`, `R = And (t0 :: rest)` is `iterLoop`

Same table, same `b`, `t0 :: rest` as the left-recursive rule.  Where the pre-parse of `Z` / `R` does not move (no
whitespace / ignorables at the positions visited) and the first elements do not care about their `callPreParse` flag.
-/
namespace PP.Parse

theorem parseStep_plain (g : Grammar) (s : List Char) (p : P) (id : Nat)
    (nd : Node) (loc pre : Nat) (a c : Bool) (h : g[id]? = some nd) (hacts : nd.acts = [])
    (hpost : ∀ ts, postParse nd ts = ts)
    (hpre : (if c && nd.callPre then preParse p nd s loc else PreR.at loc) = .at pre) :
    parseStep g s p id loc a c = idxConv nd s.length pre (parseImpl g p nd s pre a) := by
  unfold parseStep
  simp only [h, hpre]
  generalize parseImpl g p nd s pre a = r
  cases r with
  | ok e ts => simp [idxConv, hacts, hpost]
  | fail c l => simp [idxConv]
  | idx =>
    simp only [idxConv]
    by_cases hc : (nd.mayIdx || decide (pre ≥ s.length)) = true <;> simp [hc]
  | hang => simp [idxConv]

theorem iterLoop_acc (tail : Bool → Nat → Out) (a : Bool) : ∀ k e acc,
    iterLoop tail a k e acc = (match iterLoop tail a k e [] with
      | .ok l ts => .ok l (acc ++ ts)
      | o => o) := by
  intro k
  induction k with
  | zero => intro e acc; rfl
  | succ k ih =>
    intro e acc
    unfold iterLoop
    cases tail a e with
    | ok e' ts' =>
      simp only
      by_cases hle : e' ≤ e
      · simp [hle]
      · simp only [hle, if_false]
        rw [ih e' (acc ++ ts'), ih e' ([] ++ ts')]
        cases iterLoop tail a k e' [] <;> simp
    | fail c l => cases c <;> simp
    | idx => simp
    | hang => rfl

structure IterG (g : Grammar) (I Z R b t0 : Nat) (rest : List Nat) (nI nZ nR : Node) : Prop where
  hI : g[I]? = some nI
  kI : nI.kind = .and [b, Z]
  aI : nI.acts = []
  hZ : g[Z]? = some nZ
  kZ : nZ.kind = .many R none false
  aZ : nZ.acts = []
  iZ : nZ.ignore = []
  hR : g[R]? = some nR
  kR : nR.kind = .and (t0 :: rest)
  aR : nR.acts = []
  st0 : isStopOf g t0 = false

theorem tailOf_cons (g : Grammar) (s : List Char) (n t0 : Nat) (rest : List Nat) (a : Bool) (e : Nat)
    (hst : isStopOf g t0 = false) :
    tailOf g s n (t0 :: rest) a e = (match parse g s n t0 e a true with
      | .ok l ts => andRest (parse g s n) (isStopOf g) a s.length rest false l ts
      | .fail c l => .fail c l
      | .idx => .idx
      | .hang => .hang) := by
  unfold tailOf
  rw [andRest]
  simp only [hst, Bool.false_eq_true, if_false]
  cases parse g s n t0 e a true <;> simp

section
variable {g : Grammar} {I Z R b t0 : Nat} {rest : List Nat} {nI nZ nR : Node}

/-- one repetition body `R = And (t0 :: rest)` is `tailOf` -/
theorem parse_R_step (h : IterG g I Z R b t0 rest nI nZ nR) (s : List Char) (n : Nat)
    (hpR : ∀ p e, (if nR.callPre then preParse p nR s e else PreR.at e) = .at e)
    (ht0 : ∀ e a, parse g s n t0 e a false = parse g s n t0 e a true) (e : Nat) (a : Bool) :
    parse g s (n + 1) R e a true = idxConv nR s.length e (tailOf g s n (t0 :: rest) a e) := by
  rw [parse]
  rw [parseStep_plain g s _ R nR e e a true h.hR h.aR (by intro ts; simp [postParse, h.kR]) (by simpa using hpR _ e)]
  congr 1
  simp only [parseImpl, h.kR, andImpl, ht0]
  rw [tailOf_cons g s n t0 rest a e h.st0]
  cases parse g s n t0 e a true with
  | ok l ts => rfl
  | fail c l => rfl
  | idx => rfl
  | hang => rfl

/-- the repetition loop of `Z` is `iterLoop`, round by round -/
theorem manyLoop_eq_iterLoop (h : IterG g I Z R b t0 rest nI nZ nR) (s : List Char) (n : Nat)
    (hpR : ∀ p e, (if nR.callPre then preParse p nR s e else PreR.at e) = .at e)
    (ht0 : ∀ e a, parse g s n t0 e a false = parse g s n t0 e a true) (a : Bool) :
    ∀ k l acc, manyLoop (parse g s (n + 1)) nZ a s.length R none k l acc
      = iterLoop (tailOf g s n (t0 :: rest)) a k l acc := by
  intro k
  induction k with
  | zero => intro l acc; rfl
  | succ k ih =>
    intro l acc
    unfold manyLoop iterLoop
    simp only [stopCheck, manyPre, h.iZ, List.isEmpty_nil, if_true]
    rw [parse_R_step h s n hpR ht0 l a]
    cases tailOf g s n (t0 :: rest) a l with
    | ok l' ts =>
      simp only [idxConv]
      by_cases hle : l' ≤ l
      · simp [hle]
      · simp only [hle, if_false]; exact ih l' _
    | fail c l2 => cases c <;> rfl
    | idx =>
      simp only [idxConv]
      by_cases hc : (nR.mayIdx || decide (l ≥ s.length)) = true <;> simp [hc]
    | hang => rfl

end

end PP.Parse
