import PPProofs.Lemmas.LRGrow
/-!
# The model's parse of the iterative grammar `I = And [b, Z]`, `Z = ZeroOrMore R`, `R = And (t0 :: rest)` is `iterLoop`

Same table, same `b`, `t0 :: rest` as the left-recursive rule.  Where the pre-parse of `Z` / `R` does not move (no
whitespace / ignorables at the positions visited) and the first elements do not care about their `callPreParse` flag.
-/
namespace PP.Parse

theorem parseStep_plain (g : Grammar) (s : List Char) (p : P) (id : Nat)
    (nd : Node) (loc pre : Nat) (a c : Bool) (h : g[id]? = some nd) (hacts : nd.acts = [])
    (hpost : ∀ ts, postParse nd ts = ts)
    (hpre : (if c && nd.callPre then preParse p nd s loc else PreR.at loc) = .at pre) :
    parseStep g s p id loc a c = idxConv nd s.length pre (parseImpl g p nd s pre a) := by
  unfold parseStep
  simp only [h, hpre]
  generalize parseImpl g p nd s pre a = r
  cases r with
  | ok e ts => simp [idxConv, hacts, hpost]
  | fail c l => simp [idxConv]
  | idx =>
    simp only [idxConv]
    by_cases hc : (nd.mayIdx || decide (pre ≥ s.length)) = true <;> simp [hc]
  | hang => simp [idxConv]

theorem idxConv_of_ne' (nd : Node) (slen pre : Nat) (o : Out) (h : o ≠ .idx) : idxConv nd slen pre o = o := by
  cases o with
  | idx => exact absurd rfl h
  | ok e ts => rfl
  | fail c l => rfl
  | hang => rfl

theorem iterLoop_ne_parse (tail : Bool → Nat → Out) (a : Bool) : ∀ k e acc l, iterLoop tail a k e acc ≠ .fail .parse l := by
  intro k
  induction k with
  | zero => intro e acc l h; cases h
  | succ k ih =>
    intro e acc l
    unfold iterLoop
    cases tail a e with
    | ok e' ts' =>
      simp only
      by_cases hle : e' ≤ e
      · simp [hle]
      · simp only [hle, if_false]; exact ih _ _ _
    | fail c l => cases c <;> simp
    | idx => simp
    | hang => simp

theorem iterLoop_acc (tail : Bool → Nat → Out) (a : Bool) : ∀ k e acc,
    iterLoop tail a k e acc = (match iterLoop tail a k e [] with
      | .ok l ts => .ok l (acc ++ ts)
      | o => o) := by
  intro k
  induction k with
  | zero => intro e acc; rfl
  | succ k ih =>
    intro e acc
    unfold iterLoop
    cases tail a e with
    | ok e' ts' =>
      simp only
      by_cases hle : e' ≤ e
      · simp [hle]
      · simp only [hle, if_false]
        rw [ih e' (acc ++ ts'), ih e' ([] ++ ts')]
        cases iterLoop tail a k e' [] <;> simp
    | fail c l => cases c <;> simp
    | idx => simp
    | hang => rfl

structure IterG (g : Grammar) (I Z R b t0 : Nat) (rest : List Nat) (nI nZ nR : Node) : Prop where
  hI : g[I]? = some nI
  kI : nI.kind = .and [b, Z]
  aI : nI.acts = []
  hZ : g[Z]? = some nZ
  kZ : nZ.kind = .many R none false
  aZ : nZ.acts = []
  iZ : nZ.ignore = []
  hR : g[R]? = some nR
  kR : nR.kind = .and (t0 :: rest)
  aR : nR.acts = []
  st0 : isStopOf g t0 = false

theorem tailOf_cons (g : Grammar) (s : List Char) (n t0 : Nat) (rest : List Nat) (a : Bool) (e : Nat)
    (hst : isStopOf g t0 = false) :
    tailOf g s n (t0 :: rest) a e = (match parse g s n t0 e a true with
      | .ok l ts => andRest (parse g s n) (isStopOf g) a s.length rest false l ts
      | .fail c l => .fail c l
      | .idx => .idx
      | .hang => .hang) := by
  unfold tailOf
  rw [andRest]
  simp only [hst, Bool.false_eq_true, if_false]
  cases parse g s n t0 e a true <;> simp

section
variable {g : Grammar} {I Z R b t0 : Nat} {rest : List Nat} {nI nZ nR : Node}

/-- one repetition body `R = And (t0 :: rest)` is `tailOf` -/
theorem parse_R_step (h : IterG g I Z R b t0 rest nI nZ nR) (s : List Char) (n : Nat)
    (hpR : ∀ p e, (if nR.callPre then preParse p nR s e else PreR.at e) = .at e)
    (ht0 : ∀ e a, parse g s n t0 e a false = parse g s n t0 e a true) (e : Nat) (a : Bool) :
    parse g s (n + 1) R e a true = idxConv nR s.length e (tailOf g s n (t0 :: rest) a e) := by
  rw [parse]
  rw [parseStep_plain g s _ R nR e e a true h.hR h.aR (by intro ts; simp [postParse, h.kR]) (by simpa using hpR _ e)]
  congr 1
  simp only [parseImpl, h.kR, andImpl, ht0]
  rw [tailOf_cons g s n t0 rest a e h.st0]
  cases parse g s n t0 e a true with
  | ok l ts => rfl
  | fail c l => rfl
  | idx => rfl
  | hang => rfl

/-- the repetition loop of `Z` is `iterLoop`, round by round -/
theorem manyLoop_eq_iterLoop (h : IterG g I Z R b t0 rest nI nZ nR) (s : List Char) (n : Nat)
    (hpR : ∀ p e, (if nR.callPre then preParse p nR s e else PreR.at e) = .at e)
    (ht0 : ∀ e a, parse g s n t0 e a false = parse g s n t0 e a true) (a : Bool) :
    ∀ k l acc, manyLoop (parse g s (n + 1)) nZ a s.length R none k l acc
      = iterLoop (tailOf g s n (t0 :: rest)) a k l acc := by
  intro k
  induction k with
  | zero => intro l acc; rfl
  | succ k ih =>
    intro l acc
    unfold manyLoop iterLoop
    simp only [stopCheck, manyPre, h.iZ, List.isEmpty_nil, if_true]
    rw [parse_R_step h s n hpR ht0 l a]
    cases tailOf g s n (t0 :: rest) a l with
    | ok l' ts =>
      simp only [idxConv]
      by_cases hle : l' ≤ l
      · simp [hle]
      · simp only [hle, if_false]; exact ih l' _
    | fail c l2 => cases c <;> rfl
    | idx =>
      simp only [idxConv]
      by_cases hc : (nR.mayIdx || decide (l ≥ s.length)) = true <;> simp [hc]
    | hang => rfl

/-- `Z = ZeroOrMore R` started at `e0` (no tokens yet) -/
theorem parse_Z_step (h : IterG g I Z R b t0 rest nI nZ nR) (s : List Char) (n : Nat)
    (hpZ : ∀ p e, (if nZ.callPre then preParse p nZ s e else PreR.at e) = .at e)
    (hpR : ∀ p e, (if nR.callPre then preParse p nR s e else PreR.at e) = .at e)
    (ht0 : ∀ e a, parse g s n t0 e a false = parse g s n t0 e a true) (e0 : Nat) (a : Bool)
    (hadv : ∀ l ts, tailOf g s n (t0 :: rest) a e0 = .ok l ts → e0 < l) :
    parse g s (n + 2) Z e0 a true = iterLoop (tailOf g s n (t0 :: rest)) a (s.length + 3) e0 [] := by
  rw [parse]
  rw [parseStep_plain g s _ Z nZ e0 e0 a true h.hZ h.aZ (by intro ts; simp [postParse, h.kZ]) (by simpa using hpZ _ e0)]
  simp only [parseImpl, h.kZ, manyImpl, Bool.false_eq_true, if_false]
  rw [parse_R_step h s n hpR ht0 e0 a]
  simp only [manyLoop_eq_iterLoop h s n hpR ht0 a]
  rw [iterLoop]
  cases ht : tailOf g s n (t0 :: rest) a e0 with
  | ok l ts =>
    have hlt := hadv l ts ht
    have hle : ¬ l ≤ e0 := by omega
    simp only [idxConv, hle, if_false, List.nil_append]
    cases hi : iterLoop (tailOf g s n (t0 :: rest)) a (s.length + 2) l ts with
    | ok l2 t2 => rfl
    | fail c l2 =>
      cases c with
      | parse => exact absurd hi (iterLoop_ne_parse _ _ _ _ _ _)
      | fatal => rfl
      | «syntax» => rfl
    | idx => exact absurd hi (iterLoop_ne_idx _ _ _ _ _)
    | hang => rfl
  | fail c l => cases c <;> rfl
  | idx =>
    simp only [idxConv]
    by_cases hc : (nR.mayIdx || decide (e0 ≥ s.length)) = true <;> simp [hc]
  | hang => rfl

/-- **the model's parse of the iterative grammar `And [b, ZeroOrMore (And (t0 :: rest))]`** -/
theorem parse_I_step (h : IterG g I Z R b t0 rest nI nZ nR) (s : List Char) (n : Nat)
    (hpZ : ∀ p e, (if nZ.callPre then preParse p nZ s e else PreR.at e) = .at e)
    (hpR : ∀ p e, (if nR.callPre then preParse p nR s e else PreR.at e) = .at e)
    (ht0 : ∀ e a, parse g s n t0 e a false = parse g s n t0 e a true) (pre : Nat) (a : Bool)
    (hb0 : parse g s (n + 2) b pre a false = parse g s (n + 2) b pre a true)
    (hadv : ∀ e l ts, tailOf g s n (t0 :: rest) a e = .ok l ts → e < l) :
    parse g s (n + 3) I pre a false =
      (match baseOf g s (n + 2) b pre a with
        | .ok e0 ts0 => iterLoop (tailOf g s n (t0 :: rest)) a (s.length + 3) e0 ts0
        | o => idxConv nI s.length pre o) := by
  have hsZ : isStopOf g Z = false := by simp [isStopOf, h.hZ, h.kZ]
  rw [parse]
  rw [parseStep_plain g s _ I nI pre pre a false h.hI h.aI (by intro ts; simp [postParse, h.kI]) (by simp)]
  simp only [parseImpl, h.kI, andImpl, hb0]
  unfold baseOf
  cases hb : parse g s (n + 2) b pre a true with
  | ok e0 ts0 =>
    simp only
    change idxConv nI s.length pre (andRest (parse g s (n + 2)) (isStopOf g) a s.length [Z] false e0 ts0) = _
    rw [andRest]
    simp only [hsZ, Bool.false_eq_true, if_false]
    rw [parse_Z_step h s n hpZ hpR ht0 e0 a (hadv e0), iterLoop_acc _ _ _ e0 ts0]
    cases hi : iterLoop (tailOf g s n (t0 :: rest)) a (s.length + 3) e0 [] with
    | ok l ts => simp [andRest, idxConv]
    | fail c l => simp [idxConv]
    | idx => exact absurd hi (iterLoop_ne_idx _ _ _ _ _)
    | hang => simp [idxConv]
  | fail c l => rfl
  | idx => rfl
  | hang => rfl

end

/-! ### discharging the pre-parse hypotheses: an input without whitespace characters -/

theorem skipWhite_none (w s : List Char) (h : ∀ c ∈ s, mem c w = false) (e : Nat) : skipWhite w s e = e := by
  unfold skipWhite
  have : (s.drop e).takeWhile (mem · w) = [] := by
    have hd : ∀ c ∈ s.drop e, mem c w = false := fun c hc => h c (List.mem_of_mem_drop hc)
    cases hl : s.drop e with
    | nil => rfl
    | cons x xs =>
      have := hd x (by rw [hl]; simp)
      simp [List.takeWhile, this]
  rw [this]; rfl

theorem parseStep_callPre_irrel (g : Grammar) (s : List Char) (p : P) (id : Nat) (nd : Node) (loc : Nat) (a : Bool)
    (hg : g[id]? = some nd) (hpre : preParse p nd s loc = .at loc) :
    parseStep g s p id loc a false = parseStep g s p id loc a true := by
  unfold parseStep
  simp only [hg]
  cases nd.callPre <;> simp [hpre]

theorem lit1Impl_le {c : Char} {s : List Char} {loc e : Nat} {ts : List Tok} (h : lit1Impl c s loc = .ok e ts) :
    e ≤ s.length := by
  unfold lit1Impl at h
  cases hs : s[loc]? with
  | none => rw [hs] at h; simp at h
  | some ch =>
    rw [hs] at h
    have hlt : loc < s.length := by
      rcases List.getElem?_eq_some_iff.mp hs with ⟨hl, _⟩
      exact hl
    simp only at h
    split at h <;> simp at h
    omega

theorem parse_lit1_end_le (g : Grammar) (s : List Char) (f t : Nat) (nd : Node) (ch : Char)
    (hg : g[t]? = some nd) (hk : nd.kind = .lit1 ch) :
    ∀ loc a c e ts, parse g s (f + 1) t loc a c = .ok e ts → e ≤ s.length := by
  intro loc a c e ts h
  simp only [parse] at h
  unfold parseStep at h
  rw [hg] at h
  simp only at h
  split at h
  · rename_i o hpre; subst h
    split at hpre
    · have := preParse_abort (parse g s f) nd s loc _ hpre; simp [Out.isOk] at this
    · simp at hpre
  · rename_i pre hpre
    have hpi : parseImpl g (parse g s f) nd s pre a = lit1Impl ch s pre := by
      unfold parseImpl; rw [hk]
    rw [hpi] at h
    cases hi : lit1Impl ch s pre with
    | ok e' ts' =>
      rw [hi] at h
      simp only at h
      have he := lit1Impl_le hi
      split at h
      · have := runActs_end _ _ _ _ _ _ h; omega
      · simp at h; omega
    | fail c' l => rw [hi] at h; simp at h
    | idx =>
      rw [hi] at h
      by_cases hc : (nd.mayIdx || decide (pre ≥ s.length)) = true <;> simp [hc] at h
    | hang => rw [hi] at h; simp at h

end PP.Parse
