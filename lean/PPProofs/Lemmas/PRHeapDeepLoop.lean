import PPProofs.Lemmas.PRHeapDeep
/-!
  `deepcopyLoop` (store after every recursive call, as results.py:593-595 is written) = `deepcopyN` (store once after
  the loop) on well-formed token trees: a recursive `deepcopy()` neither reads nor writes a list cell outside the
  token tree it copies.
-/
namespace PP.PRHeap

variable {α : Type}

/-- overwrite list cell `L` -/
def setL (h : Heap α) (L : Nat) (v : List (HVal α)) : Heap α := { h with lists := upd h.lists L v }

theorem upd_comm {β : Type} (f : Nat → β) {a b : Nat} (x y : β) (h : a ≠ b) :
    upd (upd f a x) b y = upd (upd f b y) a x := by
  funext j
  simp only [upd]
  by_cases h1 : j = b
  · subst h1
    have : ¬ j = a := fun e => h e.symm
    simp [this]
  · by_cases h2 : j = a
    · subst h2; simp [h1]
    · simp [h1, h2]

theorem upd_upd {β : Type} (f : Nat → β) (a : Nat) (x y : β) : upd (upd f a x) a y = upd f a y := by
  funext j
  simp only [upd]
  by_cases h1 : j = a <;> simp [h1]

theorem setL_setL (h : Heap α) (L : Nat) (v w : List (HVal α)) : setL (setL h L v) L w = setL h L w := by
  simp only [setL, upd_upd]

theorem copy_setL (h : Heap α) (o L : Nat) (v : List (HVal α)) (hL : L < h.next) (hne : (h.objs o).lst ≠ L) :
    copy (setL h L v) o = (setL (copy h o).1 L v, (copy h o).2) := by
  have e1 : upd h.lists L v (h.objs o).lst = h.lists (h.objs o).lst := upd_ne _ _ hne
  have e2 : upd (upd h.lists L v) h.next (h.lists (h.objs o).lst) = upd (upd h.lists h.next (h.lists (h.objs o).lst)) L v :=
    upd_comm _ _ _ (by omega)
  simp only [copy, setL, e1, e2]

theorem goToks_setL (rec : Heap α → Nat → Heap α × Nat) (b L : Nat) (v : List (HVal α)) (f : Nat)
    (hext : ∀ h n, Ext h (rec h n).1)
    (hrec : ∀ h n, L < h.next → TIn (· < b) (· < b) h f n →
      rec (setL h L v) n = (setL (rec h n).1 L v, (rec h n).2)) :
    ∀ (ts : List (HVal α)) (h : Heap α), b ≤ h.next → L < h.next → (∀ n, HVal.ref n ∈ ts → TIn (· < b) (· < b) h f n) →
      goToks rec (setL h L v) ts = (setL (goToks rec h ts).1 L v, (goToks rec h ts).2) := by
  intro ts
  induction ts with
  | nil => intro h _ _ _; rfl
  | cons t ts ih =>
    intro h hb hL hw
    cases t with
    | atom a =>
      simp only [goToks]
      rw [ih h hb hL (fun n hn => hw n (List.mem_cons_of_mem _ hn))]
    | ref n =>
      simp only [goToks]
      rw [hrec h n hL (hw n (List.mem_cons_self ..))]
      have e := hext h n
      have hw' : ∀ m, HVal.ref m ∈ ts → TIn (· < b) (· < b) (rec h n).1 f m := fun m hm =>
        TIn.agree (fun i (hi : i < b) => e.objs i (by omega)) (fun i (hi : i < b) => e.lists i (by omega))
          (fun _ hi => hi) (fun _ hi => hi) f m (hw m (List.mem_cons_of_mem _ hm))
      rw [ih (rec h n).1 (Nat.le_trans hb e.next) (Nat.lt_of_lt_of_le hL e.next) hw']

theorem deepcopyN_setL (b L : Nat) (v : List (HVal α)) (hbL : b ≤ L) : ∀ (f : Nat) (h : Heap α) (n : Nat),
    L < h.next → TIn (· < b) (· < b) h f n →
    deepcopyN f (setL h L v) n = (setL (deepcopyN f h n).1 L v, (deepcopyN f h n).2) := by
  intro f
  induction f with
  | zero =>
    intro h n hL hw
    exact copy_setL h n L v hL (by have := hw.2.1; omega)
  | succ f ih =>
    intro h n hL hw
    obtain ⟨w1, w2, w3, w4⟩ := hw
    have hne : (h.objs n).lst ≠ L := by omega
    have e1 : (setL h L v).lists ((setL h L v).objs n).lst = h.lists (h.objs n).lst := upd_ne _ _ hne
    have ec := copy_ext h n
    have hw' : ∀ m, HVal.ref m ∈ h.lists (h.objs n).lst → TIn (· < b) (· < b) (copy h n).1 f m := fun m hm =>
      TIn.agree (fun i (hi : i < b) => ec.objs i (by omega)) (fun i (hi : i < b) => ec.lists i (by omega))
        (fun _ hi => hi) (fun _ hi => hi) f m (w4 m hm)
    have hg := goToks_setL (deepcopyN f) b L v f (deepcopyN_ext f) (fun h n => ih h n)
      (h.lists (h.objs n).lst) (copy h n).1 (by rw [copy_next]; omega) (by rw [copy_next]; omega) hw'
    simp only [deepcopyN, e1, copy_setL h n L v hL hne, hg]
    have : (setL h L v).next = h.next := rfl
    rw [this]
    simp only [setL]
    rw [upd_comm _ _ _ (show L ≠ h.next by omega)]

theorem setL_self (h : Heap α) (L : Nat) : setL h L (h.lists L) = h := by
  have : upd h.lists L (h.lists L) = h.lists := by
    funext j; simp only [upd]; by_cases e : j = L <;> simp [e]
  simp only [setL, this]

theorem set_append_len (pre : List (HVal α)) (x y : HVal α) (ts : List (HVal α)) :
    (pre ++ x :: ts).set pre.length y = pre ++ y :: ts := by
  induction pre with
  | nil => rfl
  | cons p pre ih => simp only [List.cons_append, List.length_cons, List.set_cons_succ, ih]

theorem loopToks_eq (f b L : Nat) (hbL : b ≤ L)
    (ih : ∀ (h : Heap α) (n : Nat), TWF h f n → deepcopyLoop f h n = deepcopyN f h n) :
    ∀ (ts : List (HVal α)) (hg : Heap α) (pre : List (HVal α)), L < hg.next →
      (∀ n, HVal.ref n ∈ ts → TIn (· < b) (· < b) hg f n) →
      loopToks (deepcopyLoop f) L (setL hg L (pre ++ ts)) pre.length ts =
        setL (goToks (deepcopyN f) hg ts).1 L (pre ++ (goToks (deepcopyN f) hg ts).2) := by
  intro ts
  induction ts with
  | nil => intro hg pre _ _; rfl
  | cons t ts iht =>
    intro hg pre hL hw
    cases t with
    | atom a =>
      simp only [loopToks, goToks]
      have := iht hg (pre ++ [.atom a]) hL (fun n hn => hw n (List.mem_cons_of_mem _ hn))
      simp only [List.append_assoc, List.singleton_append, List.length_append, List.length_singleton] at this
      exact this
    | ref n =>
      have wn := hw n (List.mem_cons_self ..)
      have wn' : TWF (setL hg L (pre ++ HVal.ref n :: ts)) f n :=
        TIn.agree (h := hg) (h' := setL hg L (pre ++ HVal.ref n :: ts)) (Q := (· < b)) (S := (· < b))
          (fun _ _ => rfl) (fun i (hi : i < b) => upd_ne _ _ (by omega))
          (fun i (hi : i < b) => (by show i < hg.next; omega)) (fun i (hi : i < b) => (by show i < hg.next; omega)) f n wn
      have e1 : deepcopyLoop f (setL hg L (pre ++ HVal.ref n :: ts)) n =
          (setL (deepcopyN f hg n).1 L (pre ++ HVal.ref n :: ts), (deepcopyN f hg n).2) := by
        rw [ih _ n wn', deepcopyN_setL b L _ hbL f hg n hL wn]
      simp only [loopToks, goToks, e1]
      have e := deepcopyN_ext f hg n
      have hw' : ∀ m, HVal.ref m ∈ ts → TIn (· < b) (· < b) (deepcopyN f hg n).1 f m := fun m hm =>
        TIn.agree (fun i (hi : i < b) => e.objs i (by omega)) (fun i (hi : i < b) => e.lists i (by omega))
          (fun _ hi => hi) (fun _ hi => hi) f m (hw m (List.mem_cons_of_mem _ hm))
      have := iht (deepcopyN f hg n).1 (pre ++ [.ref (deepcopyN f hg n).2]) (Nat.lt_of_lt_of_le hL e.next) hw'
      simp only [List.append_assoc, List.singleton_append, List.length_append, List.length_singleton] at this
      rw [← this]
      congr 1
      show ({ (setL (deepcopyN f hg n).1 L (pre ++ HVal.ref n :: ts)) with
          lists := upd (upd (deepcopyN f hg n).1.lists L (pre ++ HVal.ref n :: ts)) L
            ((upd (deepcopyN f hg n).1.lists L (pre ++ HVal.ref n :: ts) L).set pre.length
              (HVal.ref (deepcopyN f hg n).2)) } : Heap α) = _
      rw [upd_same, upd_upd, set_append_len]
      rfl

/-- the statement-by-statement loop and the store-once model are the same function on well-formed token trees -/
theorem deepcopyLoop_eq_N : ∀ (f : Nat) (h : Heap α) (o : Nat), TWF h f o → deepcopyLoop f h o = deepcopyN f h o := by
  intro f
  induction f with
  | zero => intro h o _; rfl
  | succ f ih =>
    intro h o hw
    obtain ⟨w1, w2, w3, w4⟩ := hw
    have ec := copy_ext h o
    have hw' : ∀ m, HVal.ref m ∈ h.lists (h.objs o).lst → TIn (· < h.next) (· < h.next) (copy h o).1 f m := fun m hm =>
      TIn.agree (fun i (hi : i < h.next) => ec.objs i hi) (fun i (hi : i < h.next) => ec.lists i hi)
        (fun _ hi => hi) (fun _ hi => hi) f m (w4 m hm)
    have hl : (copy h o).1.lists h.next = h.lists (h.objs o).lst := upd_same _ _ _
    have := loopToks_eq f h.next h.next (Nat.le_refl _) ih (h.lists (h.objs o).lst) (copy h o).1 []
      (by rw [copy_next]; omega) hw'
    simp only [List.nil_append, List.length_nil] at this
    rw [← hl, setL_self, hl] at this
    simp only [deepcopyLoop, deepcopyN, this]
    rfl

end PP.PRHeap
