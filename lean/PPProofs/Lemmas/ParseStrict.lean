import PPModel.Mod.TermCheck
import PPProofs.Lemmas.ParseAdv
import PPProofs.Lemmas.ParseBound
/-
  Elements that cannot match the empty string: a syntactic (executable) sufficient test `consumes`, and its soundness —
  a successful `_parse` of such an element ends strictly after the location it was called at.  One lemma per helper,
  generic in the recursive call `p`, then induction on the depth of the test.  Used to discharge the side condition
  `Advancing` of the termination theorem (Props/C06Term.lean) by computation.
-/
namespace PP.Parse

/-- a successful call of `p` on element `i` ends strictly after its start -/
def SAdv (p : P) (i : Nat) : Prop := ∀ loc a c e ts, p i loc a c = .ok e ts → loc < e

/-! ### leaves -/

theorem litImpl_sadv {m s : List Char} {loc e : Nat} {ts : List Tok} (h : litImpl m s loc = .ok e ts) : loc < e := by
  unfold litImpl at h
  split at h
  · simp at h
  · split at h
    · rename_i hc
      simp at h
      cases m with
      | nil => simp at hc
      | cons x xs => simp at h; omega
    · simp at h

theorem lit1Impl_sadv {c : Char} {s : List Char} {loc e : Nat} {ts : List Tok} (h : lit1Impl c s loc = .ok e ts) :
    loc < e := by
  unfold lit1Impl at h
  split at h
  · simp at h
  · split at h <;> simp at h; omega

theorem wordSlowImpl_sadv {init body : List Char} {mn : Nat} {mx : Option Nat} {ms kw : Bool} {s : List Char}
    {loc e : Nat} {ts : List Tok} (h : wordSlowImpl init body mn mx ms kw s loc = .ok e ts) : loc < e := by
  unfold wordSlowImpl at h
  grind

theorem wordReImpl_sadv {init body : List Char} {mn : Nat} {mx : Option Nat} {kw : Bool} {s : List Char}
    {loc e : Nat} {ts : List Tok} (h : wordReImpl init body mn mx kw s loc = .ok e ts) : loc < e := by
  unfold wordReImpl at h
  grind

theorem charsNotInImpl_sadv {notc : List Char} {mn : Nat} {mx : Option Nat} {s : List Char} {loc e : Nat}
    {ts : List Tok} (h : charsNotInImpl notc mn mx s loc = .ok e ts) : loc < e := by
  unfold charsNotInImpl at h
  grind

theorem caselessLitImpl_sadv {mU ret s : List Char} {loc e : Nat} {ts : List Tok} (hm : mU ≠ [])
    (h : caselessLitImpl mU ret s loc = .ok e ts) : loc < e := by
  unfold caselessLitImpl at h
  have : 0 < mU.length := List.length_pos_iff.mpr hm
  split at h <;> simp at h
  omega

theorem kwAfter_end {m ident : List Char} {up : Char → Char} {s : List Char} {loc e : Nat} {ts : List Tok}
    (h : kwAfter m ident up s loc = .ok e ts) : e = loc + m.length := by
  unfold kwAfter at h
  split at h
  · simp at h; omega
  · split at h
    · simp at h
    · split at h <;> simp at h; omega

theorem kwTail_end {m ident : List Char} {up : Char → Char} {s : List Char} {loc e : Nat} {ts : List Tok}
    (h : kwTail m ident up s loc = .ok e ts) : e = loc + m.length := by
  unfold kwTail at h
  split at h
  · exact kwAfter_end h
  · split at h
    · simp at h
    · split at h
      · simp at h
      · exact kwAfter_end h

theorem keywordImpl_sadv {m ident : List Char} {cl : Bool} {s : List Char} {loc e : Nat} {ts : List Tok} (hm : m ≠ [])
    (h : keywordImpl m ident cl s loc = .ok e ts) : loc < e := by
  have : 0 < m.length := List.length_pos_iff.mpr hm
  unfold keywordImpl at h
  split at h
  · split at h
    · have := kwTail_end h; omega
    · simp at h
  · split at h
    · simp at h
    · split at h
      · have := kwTail_end h; omega
      · simp at h

/-! ### combinators -/

theorem andRest_sadv {p : P} (hp : Adv p) (isStop : Nat → Bool) (acts : Bool) (slen : Nat) :
    ∀ es, (∃ x ∈ es, isStop x = false ∧ SAdv p x) →
      ∀ stop loc acc e ts, andRest p isStop acts slen es stop loc acc = .ok e ts → loc < e := by
  intro es
  induction es with
  | nil => intro hx; rcases hx with ⟨x, hx, _⟩; simp at hx
  | cons y es ih =>
    intro hx stop loc acc e ts h
    unfold andRest at h
    split at h
    · rename_i hs
      rcases hx with ⟨x, hmem, hns, hsx⟩
      rcases List.mem_cons.mp hmem with rfl | hmem
      · rw [hns] at hs; simp at hs
      · exact ih ⟨x, hmem, hns, hsx⟩ _ _ _ _ _ h
    · cases h0 : p y loc acts true with
      | ok l ts' =>
        rw [h0] at h; simp only at h
        have h1 := hp _ _ _ _ _ _ h0
        have h2 := andRest_adv hp _ _ _ _ _ _ _ _ _ h
        rcases hx with ⟨x, hmem, hns, hsx⟩
        rcases List.mem_cons.mp hmem with rfl | hmem
        · have := hsx _ _ _ _ _ h0; omega
        · have := ih ⟨x, hmem, hns, hsx⟩ _ _ _ _ _ h; omega
      | fail c l => rw [h0] at h; simp only at h; split at h <;> simp at h
      | idx => rw [h0] at h; simp only at h; split at h <;> simp at h
      | hang => rw [h0] at h; simp at h

theorem andImpl_sadv {p : P} (hp : Adv p) (isStop : Nat → Bool) (acts : Bool) (slen : Nat) (es : List Nat)
    (hx : ∃ x ∈ es, isStop x = false ∧ SAdv p x) (loc : Nat) {e : Nat} {ts : List Tok}
    (h : andImpl p isStop acts slen es loc = .ok e ts) : loc < e := by
  unfold andImpl at h
  cases es with
  | nil => simp at h
  | cons e0 rest =>
    simp only at h
    cases h0 : p e0 loc acts false with
    | ok l ts' =>
      rw [h0] at h; simp only at h
      have h1 := hp _ _ _ _ _ _ h0
      have h2 := andRest_adv hp _ _ _ _ _ _ _ _ _ h
      rcases hx with ⟨x, hmem, hns, hsx⟩
      rcases List.mem_cons.mp hmem with rfl | hmem
      · have := hsx _ _ _ _ _ h0; omega
      · have := andRest_sadv hp isStop acts slen rest ⟨x, hmem, hns, hsx⟩ _ _ _ _ _ h; omega
    | fail c l => rw [h0] at h; simp at h
    | idx => rw [h0] at h; simp at h
    | hang => rw [h0] at h; simp at h

theorem mfGo_sadv {p : P} (acts : Bool) (slen loc : Nat) :
    ∀ es, (∀ x ∈ es, SAdv p x) → ∀ mx e ts, mfGo p acts slen loc es mx = .ok e ts → loc < e := by
  intro es
  induction es with
  | nil => intro _ mx e ts h; cases mx <;> simp [mfGo] at h
  | cons x es ih =>
    intro hes mx e ts h
    have ih' := ih (fun y hy => hes y (List.mem_cons_of_mem _ hy))
    unfold mfGo at h
    cases h0 : p x loc acts true with
    | ok l ts' => rw [h0] at h; simp at h; exact h.1 ▸ hes x (by simp) _ _ _ _ _ h0
    | fail c l => rw [h0] at h; cases c <;> first | exact ih' _ _ _ h | simp at h
    | idx => rw [h0] at h; exact ih' _ _ _ h
    | hang => rw [h0] at h; simp at h

theorem enhanceImpl_sadv {p : P} (acts : Bool) (x : Nat) (hx : SAdv p x) (loc : Nat) {e : Nat} {ts : List Tok}
    (h : enhanceImpl p acts (some x) loc = .ok e ts) : loc < e := by
  unfold enhanceImpl at h
  simp only at h
  cases h0 : p x loc acts false with
  | ok l ts' => rw [h0] at h; simp at h; exact h.1 ▸ hx _ _ _ _ _ h0
  | fail c l => rw [h0] at h; cases c <;> simp at h
  | idx => rw [h0] at h; simp at h
  | hang => rw [h0] at h; simp at h

theorem manyImpl_sadv {p : P} (hp : Adv p) (nd : Node) (acts : Bool) (slen x : Nat) (ne : Option Nat) (hx : SAdv p x)
    (loc : Nat) {e : Nat} {ts : List Tok} (h : manyImpl p nd acts slen x ne loc = .ok e ts) : loc < e := by
  unfold manyImpl at h
  simp only at h
  split at h
  · cases h0 : p x loc acts true with
    | ok l ts' =>
      rw [h0] at h; simp only at h
      have := hx _ _ _ _ _ h0
      have := manyLoop_adv hp _ _ _ _ _ _ _ _ _ _ h
      omega
    | fail c l => rw [h0] at h; simp at h
    | idx => rw [h0] at h; simp at h
    | hang => rw [h0] at h; simp at h
  · rename_i hne
    exact absurd h (hne _ _)

theorem orPass2_sadv {p : P} (loc : Nat) :
    ∀ ms, (∀ m ∈ ms, SAdv p m.2) → ∀ longest mx,
      (∀ ll lt, longest = some (ll, lt) → loc < ll) →
      (∀ e ts, orPass2 p loc ms longest mx = .inl (.ok e ts) → loc < e) ∧
      (∀ ll lt mx', orPass2 p loc ms longest mx = .inr (some (ll, lt), mx') → loc < ll) := by
  intro ms
  induction ms with
  | nil =>
    intro _ longest mx hl
    unfold orPass2
    constructor
    · intro e ts h; simp at h
    · intro ll lt mx' h; simp at h; exact hl _ _ h.1
  | cons m ms ih =>
    intro hms longest mx hl
    have ih' := ih (fun y hy => hms y (List.mem_cons_of_mem _ hy))
    rcases m with ⟨loc1, x⟩
    have hx : SAdv p x := hms (loc1, x) (by simp)
    have step : (∀ e ts, orPass2.orStep p loc loc1 x ms longest mx = .inl (.ok e ts) → loc < e) ∧
        (∀ ll lt mx', orPass2.orStep p loc loc1 x ms longest mx = .inr (some (ll, lt), mx') → loc < ll) := by
      unfold orPass2.orStep
      cases h0 : p x loc true true with
      | ok l2 ts2 =>
        simp only
        have hl2 := hx _ _ _ _ _ h0
        by_cases hge : l2 ≥ loc1
        · simp only [hge, if_true]
          constructor
          · intro e ts h; simp at h; omega
          · intro ll lt mx' h; simp at h
        · simp only [hge, if_false]
          apply ih'
          intro ll lt h
          cases longest with
          | none => simp at h; omega
          | some q =>
            rcases q with ⟨ll0, lt0⟩
            simp only at h
            split at h
            · simp at h; omega
            · exact hl _ _ h
      | fail c l =>
        cases c
        · exact ih' _ _ hl
        · simp only; constructor
          · intro e ts h; simp at h
          · intro ll lt mx' h; simp at h
        · simp only; constructor
          · intro e ts h; simp at h
          · intro ll lt mx' h; simp at h
      | idx => simp only; constructor
               · intro e ts h; simp at h
               · intro ll lt mx' h; simp at h
      | hang => simp only; constructor
                · intro e ts h; simp at h
                · intro ll lt mx' h; simp at h
    unfold orPass2
    cases longest with
    | none => exact step
    | some llt =>
      rcases llt with ⟨ll0, lt0⟩
      simp only
      split
      · constructor
        · intro e ts h; simp at h; have := hl _ _ rfl; omega
        · intro ll lt mx' h; simp at h
      · exact step

/-- the candidates collected by Or's first pass are alternatives of the Or -/
theorem orPass1_cands {p : P} (nameLen : Nat → Nat) (slen loc : Nat) :
    ∀ es a a', orPass1 p nameLen slen loc es a = some a' → ∀ m ∈ a'.cands, m ∈ a.cands ∨ m.2 ∈ es := by
  intro es
  induction es with
  | nil => intro a a' h m hm; simp [orPass1] at h; subst h; exact Or.inl hm
  | cons x es ih =>
    intro a a' h m hm
    unfold orPass1 at h
    cases h0 : tryParse p x loc true false with
    | ok l ts =>
      rw [h0] at h; simp only at h
      rcases ih _ _ h m hm with h1 | h1
      · simp only [List.mem_append, List.mem_singleton] at h1
        rcases h1 with h1 | h1
        · exact Or.inl h1
        · subst h1; exact Or.inr (by simp)
      · exact Or.inr (List.mem_cons_of_mem _ h1)
    | fail c l =>
      rw [h0] at h; simp only at h
      split at h
      · rcases ih _ _ h m hm with h1 | h1
        · exact Or.inl h1
        · exact Or.inr (List.mem_cons_of_mem _ h1)
      · split at h
        · rcases ih _ _ h m hm with h1 | h1
          · exact Or.inl h1
          · exact Or.inr (List.mem_cons_of_mem _ h1)
        · rcases ih _ _ h m hm with h1 | h1
          · exact Or.inl h1
          · exact Or.inr (List.mem_cons_of_mem _ h1)
    | idx =>
      rw [h0] at h; simp only at h
      rcases ih _ _ h m hm with h1 | h1
      · exact Or.inl h1
      · exact Or.inr (List.mem_cons_of_mem _ h1)
    | hang => rw [h0] at h; simp at h

theorem orAt_sadv {p : P} (nameLen : Nat → Nat) (slen : Nat) (acts : Bool) (es : List Nat) (hes : ∀ x ∈ es, SAdv p x)
    (loc : Nat) {e : Nat} {ts : List Tok} (h : orAt p nameLen slen acts es loc = .ok e ts) : loc < e := by
  unfold orAt at h
  cases h1 : orPass1 p nameLen slen loc es {} with
  | none => rw [h1] at h; simp at h
  | some a =>
    have hc : ∀ m ∈ sortDesc a.cands, SAdv p m.2 := by
      intro m hm
      rcases orPass1_cands _ _ _ _ _ _ h1 m (mem_sortDesc hm) with h | h
      · simp at h
      · exact hes _ h
    rw [h1] at h
    simp only at h
    split at h
    · exact absurd h (orAfter_notOk _ _ _ _ _)
    · split at h
      · split at h
        · rename_i l0 e0 rest heq
          exact hc (l0, e0) (by rw [heq]; simp) _ _ _ _ _ h
        · simp at h
      · have h2 := orPass2_sadv loc (sortDesc a.cands) hc none a.mx (by intro _ _ h; simp at h)
        generalize orPass2 p loc (sortDesc a.cands) none a.mx = r at h h2
        cases r with
        | inl o => simp only at h; subst h; exact h2.1 _ _ rfl
        | inr q =>
          rcases q with ⟨lg, mx'⟩
          cases lg with
          | none => simp only at h; exact absurd h (orAfter_notOk _ _ _ _ _)
          | some llt =>
            rcases llt with ⟨ll, lt⟩
            simp only at h
            simp at h
            exact h.1 ▸ h2.2 _ _ _ rfl

theorem orImpl_sadv {p : P} (g : Grammar) (nd : Node) (s : List Char) (acts : Bool) (es : List Nat)
    (hes : ∀ x ∈ es, SAdv p x) (loc : Nat) {e : Nat} {ts : List Tok} (h : orImpl p g nd s acts es loc = .ok e ts) :
    loc < e := by
  unfold orImpl at h
  split at h
  · rename_i o hpre; subst h
    split at hpre
    · have := preParse_abort p nd s loc _ hpre; simp [Out.isOk] at this
    · simp at hpre
  · rename_i l hpre
    have h1 := orAt_sadv _ _ _ _ hes _ h
    split at hpre
    · have := preParse_ge p nd s loc l hpre; omega
    · simp at hpre; omega

/-- one level of `_parseNoCache`: if the node's `parseImpl` consumes something whenever it matches, so does the call -/
theorem parseStep_sadv (g : Grammar) (s : List Char) {p : P} {id : Nat} {nd : Node} (hg : g[id]? = some nd)
    (hi : ∀ pre a e ts, parseImpl g p nd s pre a = .ok e ts → pre < e) : SAdv (parseStep g s p) id := by
  intro loc a c e ts h
  unfold parseStep at h
  rw [hg] at h
  simp only at h
  split at h
  · rename_i o hpre; subst h
    split at hpre
    · have := preParse_abort p nd s loc _ hpre; simp [Out.isOk] at this
    · simp at hpre
  · rename_i pre hpre
    have hpl : loc ≤ pre := by
      split at hpre
      · exact preParse_ge p nd s loc pre hpre
      · simp at hpre; omega
    cases hq : parseImpl g p nd s pre a with
    | ok e' ts' =>
      rw [hq] at h
      simp only at h
      have he := hi pre a e' ts' hq
      split at h
      · have := runActs_end _ _ _ _ _ _ h; omega
      · simp at h; omega
    | fail c' l => rw [hq] at h; simp at h
    | idx =>
      rw [hq] at h
      by_cases hc : (nd.mayIdx || decide (pre ≥ s.length)) = true <;> simp [hc] at h
    | hang => rw [hq] at h; simp at h

/-! ### the executable test -/

/-! the test itself (`consumes`) is defined in `PPModel/Mod/TermCheck.lean` (core Lean: the driver evaluates it) -/

theorem consumes_not_stop (g : Grammar) (k x : Nat) (h : consumes g k x = true) :
    (match g[x]? with
      | some n => (match n.kind with
        | .errorStop => true
        | _ => false)
      | none => false) = false := by
  cases k with
  | zero => simp [consumes] at h
  | succ k =>
    unfold consumes at h
    cases hg : g[x]? with
    | none => rfl
    | some nd =>
      rw [hg] at h
      simp only at h ⊢
      cases hk : nd.kind <;> simp [hk] at h ⊢

/-- **soundness of `consumes`**: such an element, whenever it matches — at any fuel, location, flags — ends strictly
    after the location it was called at -/
theorem consumes_sound (g : Grammar) (s : List Char) :
    ∀ k i, consumes g k i = true → ∀ f, SAdv (parse g s f) i := by
  intro k
  induction k with
  | zero => intro i h; simp [consumes] at h
  | succ k ih =>
    intro i h f
    cases f with
    | zero => intro _ _ _ _ _ hp; simp [parse] at hp
    | succ f =>
      unfold consumes at h
      cases hg : g[i]? with
      | none => rw [hg] at h; simp at h
      | some nd =>
        rw [hg] at h
        simp only at h
        show SAdv (parseStep g s (parse g s f)) i
        apply parseStep_sadv g s hg
        intro pre a e ts hq
        unfold parseImpl at hq
        cases hk : nd.kind <;> simp only [hk] at h hq <;> try contradiction
        case lit m => exact litImpl_sadv hq
        case lit1 c => exact lit1Impl_sadv hq
        case word i b mn mx ms kw re =>
          split at hq
          · exact wordReImpl_sadv hq
          · exact wordSlowImpl_sadv hq
        case charsNotIn n mn mx => exact charsNotInImpl_sadv hq
        case caselessLit mU ret => exact caselessLitImpl_sadv (by intro h0; simp [h0] at h) hq
        case keyword m idn cl => exact keywordImpl_sadv (by intro h0; simp [h0] at h) hq
        case or es =>
          rw [List.all_eq_true] at h
          exact orImpl_sadv _ _ _ _ _ (fun x hx => ih x (h x hx) f) _ hq
        case many x ne one =>
          cases one with
          | false => simp at h
          | true =>
            simp only [if_true] at hq
            exact manyImpl_sadv (parse_adv g s f) _ _ _ _ _ (ih x h f) _ hq
        case and es =>
          rw [List.any_eq_true] at h
          rcases h with ⟨x, hx, hcx⟩
          exact andImpl_sadv (parse_adv g s f) _ _ _ _ ⟨x, hx, consumes_not_stop g k x hcx, ih x hcx f⟩ _ hq
        case matchFirst es =>
          rw [List.all_eq_true] at h
          exact mfGo_sadv _ _ _ _ (fun x hx => ih x (h x hx) f) _ _ _ hq
        case located x =>
          cases h0 : parse g s f x pre a false with
          | ok l ts' => rw [h0] at hq; simp at hq; exact hq.1 ▸ ih x h f _ _ _ _ _ h0
          | fail c l => rw [h0] at hq; simp at hq
          | idx => rw [h0] at hq; simp at hq
          | hang => rw [h0] at hq; simp at hq
        case group x => exact enhanceImpl_sadv _ _ (ih x h f) _ hq
        case suppress x => exact enhanceImpl_sadv _ _ (ih x h f) _ hq
        case combine x j => exact enhanceImpl_sadv _ _ (ih x h f) _ hq
        case enhance x => exact enhanceImpl_sadv _ _ (ih x h f) _ hq
        case forward x =>
          cases x with
          | none => simp at h
          | some x => exact enhanceImpl_sadv _ _ (ih x h f) _ hq

end PP.Parse
