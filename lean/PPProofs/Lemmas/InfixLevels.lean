import PPProofs.Lemmas.InfixHolds
/-!
# C16 — the class of tables and trees of `infix_roundtrip`, and the per-level lemmas
-/
namespace PP.Infix
open PP.Parse

/-- the class **T** of operator tables the round-trip theorem quantifies over -/
structure ClassT (t : Table) (cs : List Char) (re : Bool) : Prop where
  /-- the operand is `Word(cs)` with default whitespace handling -/
  base : t.base = mkNode t.white (.word cs cs 1 none false false re) false true
  lsup : t.lsup = true
  rsup : t.rsup = true
  /-- operand characters are not blanks -/
  csW : ∀ c ∈ cs, c ∉ t.white
  /-- levels: binary (either associativity) or prefix; no parse actions -/
  kinds : ∀ lv ∈ t.levels, lv.acts = [] ∧ ((lv.arity = 2 ∧ lv.right = true) ∨ (lv.arity = 1 ∧ lv.right = true))
  lparOk : t.lpar ≠ [] ∧ ∀ c, t.lpar.head? = some c → c ∉ t.white ∧ c ∉ cs
  rparOk : t.rpar ≠ [] ∧ ∀ c, t.rpar.head? = some c → c ∉ t.white ∧ c ∉ cs
  opOk : ∀ lv ∈ t.levels, lv.op1 ≠ [] ∧ ∀ c, lv.op1.head? = some c → c ∉ t.white ∧ c ∉ cs
  /-- spellings are pairwise prefix-incomparable -/
  opsInc : ∀ (i j : Nat) (lvi lvj : Level), t.levels[i]? = some lvi → t.levels[j]? = some lvj → i ≠ j → ¬ lvi.op1 <+: lvj.op1
  parInc : ∀ lv ∈ t.levels, ¬ lv.op1 <+: t.lpar ∧ ¬ t.lpar <+: lv.op1 ∧ ¬ lv.op1 <+: t.rpar ∧ ¬ t.rpar <+: lv.op1

def White (W ws : List Char) : Prop := ∀ c ∈ ws, c ∈ W

/-- trees in the table's normal form: operands of a level come from tighter levels (the recursive operand of a
    right-associative or prefix level may be of the same level); anything may appear inside parentheses -/
def WF (t : Table) (cs : List Char) : Ex → Prop
  | .atom ws w => White t.white ws ∧ w ≠ [] ∧ ∀ c ∈ w, c ∈ cs
  | .paren wl e wr => White t.white wl ∧ White t.white wr ∧ WF t cs e
  | .pre k wo e => ∃ lv, 1 ≤ k ∧ t.levels[k - 1]? = some lv ∧ lv.arity = 1 ∧ lv.right = true ∧
      White t.white wo ∧ WF t cs e ∧ e.lvl ≤ k
  | .bin k a wo b => ∃ lv, 1 ≤ k ∧ t.levels[k - 1]? = some lv ∧ lv.arity = 2 ∧ lv.right = true ∧
      White t.white wo ∧ WF t cs a ∧ WF t cs b ∧ a.lvl < k ∧ b.lvl ≤ k
  | .post .. => False
  | .tern .. => False

/-- blanks before the first token -/
def lead : Ex → List Char
  | .atom ws _ => ws
  | .paren wl _ _ => wl
  | .pre _ wo _ => wo
  | .post _ e _ => lead e
  | .bin _ a _ _ => lead a
  | .tern _ a _ _ _ _ => lead a

/-- the spelling without the blanks before the first token -/
def renderB (t : Table) : Ex → List Char
  | .atom _ w => w
  | .paren _ e wr => t.lpar ++ render t e ++ wr ++ t.rpar
  | .pre k _ e => opOf t k ++ render t e
  | .post k e wo => renderB t e ++ wo ++ opOf t k
  | .bin k a wo b => renderB t a ++ wo ++ opOf t k ++ render t b
  | .tern k a w1 b w2 c => renderB t a ++ w1 ++ opOf t k ++ render t b ++ w2 ++ op2Of t k ++ render t c

theorem render_eq (t : Table) : ∀ e, render t e = lead e ++ renderB t e := by
  intro e
  induction e with
  | atom ws w => rfl
  | paren wl e wr ih => simp [render, lead, renderB]
  | pre k wo e ih => simp [render, lead, renderB]
  | post k e wo ih => simp [render, lead, renderB, ih]
  | bin k a wo b iha ihb => simp [render, lead, renderB, iha]
  | tern k a w1 b w2 c iha ihb ihc => simp [render, lead, renderB, iha]

theorem not_prefix_append {a b : List Char} (r : List Char) (h1 : ¬ a <+: b) (h2 : ¬ b <+: a) : ¬ a <+: b ++ r := by
  intro h
  rcases List.prefix_or_prefix_of_prefix h (List.prefix_append b r) with h | h
  · exact h1 h
  · exact h2 h

theorem not_prefix_of_head {a x : List Char} (ha : a ≠ []) (h : ∀ c, a.head? = some c → ∀ d, x.head? = some d → c ≠ d)
    (hx : x ≠ []) : ¬ a <+: x := by
  intro hp
  obtain ⟨c, a', rfl⟩ := List.exists_cons_of_ne_nil ha
  obtain ⟨d, x', rfl⟩ := List.exists_cons_of_ne_nil hx
  rw [List.cons_prefix_cons] at hp
  exact h c rfl d rfl hp.1

theorem opOf_eq {t : Table} {k : Nat} {lv : Level} (h : t.levels[k - 1]? = some lv) : opOf t k = lv.op1 := by
  simp [opOf, h]

theorem lv_mem {t : Table} {k : Nat} {lv : Level} (h : t.levels[k - 1]? = some lv) : lv ∈ t.levels :=
  List.mem_of_getElem? h

section facts
variable {t : Table} {cs : List Char} {re : Bool} (hT : ClassT t cs re)
include hT

theorem lead_white : ∀ e, WF t cs e → White t.white (lead e) := by
  intro e
  induction e with
  | atom ws w => intro h; exact h.1
  | paren wl e wr ih => intro h; exact h.1
  | pre k wo e ih => intro h; obtain ⟨lv, _, _, _, _, hw, _⟩ := h; exact hw
  | post k e wo ih => intro h; exact absurd h id
  | bin k a wo b iha ihb => intro h; obtain ⟨lv, _, _, _, _, _, ha, _⟩ := h; exact iha ha
  | tern k a w1 b w2 c iha ihb ihc => intro h; exact absurd h id

/-- the first character of the spelling proper is neither a blank nor an operand character, unless it is an atom -/
theorem renderB_head : ∀ e, WF t cs e → ∃ c r, renderB t e = c :: r ∧ c ∉ t.white := by
  intro e
  induction e with
  | atom ws w =>
    intro h
    obtain ⟨c, r, rfl⟩ := List.exists_cons_of_ne_nil h.2.1
    exact ⟨c, r, rfl, hT.csW c (h.2.2 c (by simp))⟩
  | paren wl e wr ih =>
    intro h
    obtain ⟨c, r, hr⟩ := List.exists_cons_of_ne_nil hT.lparOk.1
    refine ⟨c, r ++ render t e ++ wr ++ t.rpar, by simp [renderB, hr], (hT.lparOk.2 c (by simp [hr])).1⟩
  | pre k wo e ih =>
    intro h
    obtain ⟨lv, _, hlv, _, _, _, _⟩ := h
    obtain ⟨c, r, hr⟩ := List.exists_cons_of_ne_nil (hT.opOk lv (lv_mem hlv)).1
    refine ⟨c, r ++ render t e, by simp [renderB, opOf_eq hlv, hr], ((hT.opOk lv (lv_mem hlv)).2 c (by simp [hr])).1⟩
  | post k e wo ih => intro h; exact absurd h id
  | bin k a wo b iha ihb =>
    intro h
    obtain ⟨lv, _, _, _, _, _, ha, _⟩ := h
    obtain ⟨c, r, hr, hc⟩ := iha ha
    exact ⟨c, r ++ wo ++ opOf t k ++ render t b, by simp [renderB, hr], hc⟩
  | tern k a w1 b w2 c iha ihb ihc => intro h; exact absurd h id

/-- an operator of a level above the tree's is not a prefix of its spelling -/
theorem op_not_prefix {k' : Nat} {lv' : Level} (hk' : 1 ≤ k') (hlv' : t.levels[k' - 1]? = some lv') :
    ∀ e, WF t cs e → e.lvl < k' → ∀ suf, ¬ lv'.op1 <+: renderB t e ++ suf := by
  have hop := hT.opOk lv' (lv_mem hlv')
  intro e
  induction e with
  | atom ws w =>
    intro h _ suf
    obtain ⟨c, r, rfl⟩ := List.exists_cons_of_ne_nil h.2.1
    apply not_prefix_of_head hop.1 _ (by simp [renderB])
    intro c' hc' d hd e
    simp [renderB] at hd
    subst hd; subst e
    exact (hop.2 c' hc').2 (h.2.2 c' (by simp))
  | paren wl e wr ih =>
    intro h _ suf
    have hp := hT.parInc lv' (lv_mem hlv')
    simp only [renderB, List.append_assoc]
    exact not_prefix_append _ hp.1 hp.2.1
  | pre k wo e ih =>
    intro h hl suf
    obtain ⟨lv, hk, hlv, _, _, _, _⟩ := h
    simp only [Ex.lvl] at hl
    simp only [renderB, opOf_eq hlv, List.append_assoc]
    exact not_prefix_append _ (hT.opsInc _ _ _ _ hlv' hlv (by omega)) (hT.opsInc _ _ _ _ hlv hlv' (by omega))
  | post k e wo ih => intro h; exact absurd h id
  | bin k a wo b iha ihb =>
    intro h hl suf
    obtain ⟨lv, hk, hlv, _, _, _, ha, _, hla, _⟩ := h
    simp only [Ex.lvl] at hl
    simp only [renderB, List.append_assoc]
    exact iha ha (by omega) _
  | tern k a w1 b w2 c iha ihb ihc => intro h; exact absurd h id

end facts
/-! ### the per-level lemmas -/

/-- what may follow a tree parsed at level `k`: not an operand character, and (after blanks) not the operator of an
    infix level `≤ k` -/
def Follow (t : Table) (cs s : List Char) (k pos : Nat) : Prop :=
  (∀ ch, s[pos]? = some ch → ch ∉ cs) ∧
  ∀ j lv, 1 ≤ j → j ≤ k → t.levels[j - 1]? = some lv → lv.arity = 2 →
    ¬ lv.op1 <+: s.drop (skipWhite t.white s pos)

/-- level `k` parses the spelling of `e` to its documented nesting, wherever it stands and whatever the flags -/
def Goal (t : Table) (cs s : List Char) (e : Ex) (k : Nat) : Prop :=
  ∀ q suf, s.drop q = renderB t e ++ suf → skipWhite t.white s q = q →
    Follow t cs s k (q + (renderB t e).length) →
    ∀ a c loc, preOf t.white s c true loc = q →
      Holds t s (E k) loc a c (.ok (q + (renderB t e).length) [nest t e])

theorem Follow.mono {t : Table} {cs s : List Char} {k k' pos : Nat} (h : Follow t cs s k pos) (hk : k' ≤ k) :
    Follow t cs s k' pos :=
  ⟨h.1, fun j lv h1 h2 h3 h4 => h.2 j lv h1 (by omega) h3 h4⟩

theorem preOf_false (W s : List Char) (loc : Nat) : preOf W s false true loc = loc := by simp [preOf]
theorem preOf_true (W s : List Char) (loc : Nat) : preOf W s true true loc = skipWhite W s loc := by simp [preOf]

theorem head_of_drop_append {s : List Char} {q : Nat} {x y : List Char} {c : Char} {r : List Char}
    (h : s.drop q = x ++ y) (hx : x = c :: r) : (s.drop q).head? = some c := by
  rw [h, hx]; rfl

section levels
variable {t : Table} {cs : List Char} {re : Bool} (hT : ClassT t cs re) (s : List Char)
include hT

theorem g_base : (infixGrammar t)[2]? = some (mkNode t.white (.word cs cs 1 none false false re) false true) := by
  rw [gram_header t (by omega)]
  simp [header, hT.base]

theorem hns : ∀ (i : Nat) (nd : Node), (infixGrammar t)[i]? = some nd → nd.kind ≠ Kind.errorStop :=
  noStop t (by rw [hT.base]; simp [mkNode])

/-- atoms at level 0 (`lastExpr = base | nested`) -/
theorem goal_atom {ws w : List Char} (h : WF t cs (.atom ws w)) : Goal t cs s (.atom ws w) 0 := by
  intro q suf hs hq hf a c loc hloc
  have hg0 : (infixGrammar t)[E 0]? = some (mkNode t.white (.matchFirst [2, nestedId t]) true false) := by
    rw [show E 0 = 0 from rfl, gram_header t (by omega)]; simp [header]
  apply H_mf_ok t s (fb_header t (by unfold E lvlSize; omega)) hg0
  apply HMf.head
  have hrest : ∀ d, suf.head? = some d → d ∉ cs := by
    intro d hd
    apply hf.1 d
    have := drop_add hs
    cases suf with
    | nil => simp at hd
    | cons x xs => simp at hd; subst hd; exact getElem?_of_drop this
  have := H_word_ok t s (a := a) (c := true) (loc := match c with | true => loc | false => q)
    (fb_header t (by omega : 2 < 14)) (g_base hT) (q := q) ?_ h.2.1 hs h.2.2 hrest
  · cases c
    · simp only [preOf_false] at hloc; subst hloc; exact this
    · -- MatchFirst does no pre-parse: its alternatives are called at `loc` itself, with pre-parse on
      exact this
  · cases c
    · simp only [preOf_false] at hloc; subst hloc; rw [preOf_true]; exact hq
    · simpa using hloc

end levels

theorem pre_true_of {W s : List Char} {c : Bool} {loc q : Nat} (h : preOf W s c true loc = q)
    (hq : skipWhite W s q = q) : preOf W s true true loc = q := by
  cases c
  · simp only [preOf_false] at h; subst h; rw [preOf_true]; exact hq
  · exact h

section lift
variable {t : Table} {cs : List Char} {re : Bool} (hT : ClassT t cs re) (s : List Char)
include hT

/-- the alternatives after `matchExpr` in the MatchFirst of level `K`, given that level `K-1` succeeds -/
theorem tail_ok {K loc l : Nat} {a : Bool} {ts : List Tok} (hK : 1 ≤ K)
    (h : Holds t s (E (K - 1)) loc a true (.ok l ts)) : HMf t s a (tailOf t K) loc (.ok l ts) := by
  unfold tailOf
  by_cases h1 : K = 1
  · subst h1
    simp only [if_true]
    have hg0 : (infixGrammar t)[E 0]? = some (mkNode t.white (.matchFirst [2, nestedId t]) true false) := by
      rw [show E 0 = 0 from rfl, gram_header t (by omega)]; simp [header]
    exact H_mf_inv t s (fb_header t (by unfold E lvlSize; omega)) hg0 h
  · simp only [h1, if_false]
    exact HMf.head t s _ h

/-- a tree of a tighter level passes through level `K` unchanged: `matchExpr` fails in its lookahead -/
theorem goal_lift {e : Ex} {K : Nat} {lv : Level} (hK : 1 ≤ K) (hlv : t.levels[K - 1]? = some lv)
    (hwf : WF t cs e) (hl : e.lvl < K) (ih : Goal t cs s e (K - 1)) : Goal t cs s e K := by
  intro q suf hs hq hf a c loc hloc
  have hKn : K ≤ t.levels.length := by
    have := (List.getElem?_eq_some_iff.mp hlv).1; omega
  have hkind := hT.kinds lv (lv_mem hlv)
  have hop := hT.opOk lv (lv_mem hlv)
  have hfbF : ∀ j, j < 14 → j ≠ 3 → (fbIds t).elem (E K + j) = false := by
    intro j hj h3; rw [fb_level t hK hKn hj]; simp [h3]
  have hfbT : (fbIds t).elem (E K + 3) = true := by rw [fb_level t hK hKn (by omega)]; simp
  have g0 : (infixGrammar t)[E K + 0]? = some (mkNode t.white (.forward (some (E K + 1))) true true) := by
    rw [gram_level t hK hlv (by omega)]; simp [levelNodes]
  have g1 : (infixGrammar t)[E K + 1]? = some (mkNode t.white (.matchFirst ((E K + 2) :: tailOf t K)) true false) := by
    rw [gram_level t hK hlv (by omega)]; simp [levelNodes]
  have g2 : (infixGrammar t)[E K + 2]? = some (mkNode t.white (.and [E K + 3, E K + 4]) true true) := by
    rw [gram_level t hK hlv (by omega)]; simp [levelNodes, hkind.1, mkNode]
  have g3 : (infixGrammar t)[E K + 3]? = some (mkNode t.white (.followedBy (E K + 5)) true true) := by
    rw [gram_level t hK hlv (by omega)]; simp [levelNodes]
  have g7 : (infixGrammar t)[E K + 7]? = some (mkNode t.white (litKind lv.op1) false true) := by
    rw [gram_level t hK hlv (by omega)]; simp [levelNodes]
  -- level K-1 on e, for any flags
  have hsub := fun a' c' loc' h' => ih q suf hs hq (hf.mono (by omega)) a' c' loc' h'
  -- the lookahead body fails
  have hbody : ∃ l, Holds t s (E K + 5) q false true (.fail .parse l) := by
    rcases hkind.2 with ⟨ha, hr⟩ | ⟨ha, hr⟩
    · have g5 : (infixGrammar t)[E K + 5]? = some (mkNode t.white (.and [E (K - 1), E K + 7, E K]) true true) := by
        rw [gram_level t hK hlv (by omega)]; simp [levelNodes, ha, hr]
      have hopf : ¬ lv.op1 <+: s.drop (skipWhite t.white s (q + (renderB t e).length)) :=
        hf.2 K lv hK (Nat.le_refl _) hlv ha
      obtain ⟨l, hl⟩ := H_lit_fail t s (a := false) (c := true) (hfbF 7 (by omega) (by omega)) g7 (preOf_true _ _ _) hop.1 hopf
      refine ⟨l, H_and t s (hfbF 5 (by omega) (by omega)) g5 (hns hT) (hsub false false _ ?_) (HRest.cons_fail t s _ hl) (Or.inr ⟨l, rfl⟩)⟩
      rw [preOf_false, preOf_true, hq]
    · have g5 : (infixGrammar t)[E K + 5]? = some (mkNode t.white (.and [E K + 7, E K]) true true) := by
        rw [gram_level t hK hlv (by omega)]; simp [levelNodes, ha, hr]
      have hopf : ¬ lv.op1 <+: s.drop q := by rw [hs]; exact op_not_prefix hT hK hlv e hwf hl suf
      obtain ⟨l, hl⟩ := H_lit_fail t s (a := false) (c := false) (loc := q) (hfbF 7 (by omega) (by omega)) g7 (preOf_false _ _ _) hop.1 hopf
      refine ⟨l, H_and_fail0 t s (hfbF 5 (by omega) (by omega)) g5 (hns hT) ?_⟩
      rw [preOf_true, hq]; exact hl
  obtain ⟨l, hbody⟩ := hbody
  have hm : Holds t s (E K + 2) q a true (.fail .parse l) := by
    apply H_and_fail0 t s (hfbF 2 (by omega) (by omega)) g2 (hns hT)
    rw [preOf_true, hq]
    apply H_fb_fail t s hfbT g3
    rw [preOf_false]; exact hbody
  have htail := tail_ok hT s (a := a) hK (hsub a true q (by rw [preOf_true, hq]))
  have hmf : Holds t s (E K + 1) q a false (.ok (q + (renderB t e).length) [nest t e]) :=
    H_mf_ok t s (hfbF 1 (by omega) (by omega)) g1 (HMf.skip t s hm htail)
  have := H_forward_ok t s (a := a) (c := c) (loc := loc) (hfbF 0 (by omega) (by omega)) g0 (by rw [hloc]; exact hmf)
  simpa using this

end lift

end PP.Infix
