import PPModel.Mod.Settings
/-!
  Helper lemmas for C19 (`PPProofs/Props/C19.lean`): flag tables, well-formedness invariant,
  exact description of `restore (save s) t`, stack discipline of the context machine.
-/
namespace PP.Settings

/-! ### flag tables -/

abbrev keys (fl : Flags) : List String := fl.map (·.1)

theorem keys_setFlag (n : String) (v : Bool) (fl : Flags) : keys (setFlag n v fl) = keys fl := by
  induction fl with
  | nil => rfl
  | cons p ps ih =>
    have h1 : keys (setFlag n v (p :: ps))
        = (if p.1 == n then (p.1, v) else p).1 :: keys (setFlag n v ps) := rfl
    rw [h1, ih]
    show _ = p.1 :: keys ps
    split <;> rfl

theorem getFlag_setFlag (m n : String) (v : Bool) (fl : Flags) :
    getFlag m (setFlag n v fl) = if m = n ∧ m ∈ keys fl then some v else getFlag m fl := by
  induction fl with
  | nil => simp [getFlag, setFlag]
  | cons p ps ih =>
    obtain ⟨k, b⟩ := p
    simp only [getFlag, setFlag, keys, List.map_cons, List.find?_cons, List.mem_cons] at ih ⊢
    by_cases hkn : k = n
    · subst hkn
      by_cases hmk : m = k
      · subst hmk; simp
      · have : (k == m) = false := by simpa using fun h => hmk h.symm
        simp only [beq_self_eq_true, if_true, this]
        rw [ih]
        simp [hmk]
    · have h1 : (k == n) = false := by simpa using hkn
      simp only [h1]
      by_cases hmk : k = m
      · subst hmk
        simp [hkn]
      · have : (k == m) = false := by simpa using hmk
        simp only [this, Bool.false_eq_true, if_false]
        rw [ih]
        have : ¬ m = k := fun h => hmk h.symm
        simp [this]

theorem getFlag_isSome_of_mem {m : String} {fl : Flags} (h : m ∈ keys fl) : (getFlag m fl).isSome := by
  induction fl with
  | nil => simp [keys] at h
  | cons p ps ih =>
    obtain ⟨k, b⟩ := p
    simp only [getFlag, List.find?_cons]
    by_cases hk : k = m
    · simp [hk]
    · have : (k == m) = false := by simpa using hk
      simp only [this]
      apply ih
      simp only [keys, List.map_cons, List.mem_cons] at h
      rcases h with h | h
      · exact absurd h.symm hk
      · exact h

/-- two tables with the same duplicate-free keys and the same value for every key are equal -/
theorem flags_ext : ∀ (fl fl' : Flags), keys fl = keys fl' → (keys fl).Nodup →
    (∀ n ∈ keys fl, getFlag n fl = getFlag n fl') → fl = fl'
  | [], [], _, _, _ => rfl
  | [], _ :: _, h, _, _ => by simp [keys] at h
  | _ :: _, [], h, _, _ => by simp [keys] at h
  | (k, b) :: ps, (k', b') :: ps', hk, hnd, hv => by
    simp only [keys, List.map_cons, List.cons.injEq] at hk
    obtain ⟨hkk, hrest⟩ := hk
    subst hkk
    have hnd' := List.nodup_cons.mp hnd
    have hb : b = b' := by
      have := hv k (by simp [keys])
      simpa [getFlag] using this
    subst hb
    congr 1
    apply flags_ext ps ps' hrest hnd'.2
    intro n hn
    have hne : ¬ k = n := fun h => hnd'.1 (h ▸ hn)
    have hkn : (k == n) = false := by simpa using hne
    have := hv n (by simp only [keys, List.map_cons, List.mem_cons]; exact Or.inr hn)
    simpa [getFlag, List.find?_cons, hkn] using this

theorem keys_restoreCompat (sv fl : Flags) : keys (restoreCompat sv fl) = keys fl := by
  induction sv generalizing fl with
  | nil => rfl
  | cons p ps ih =>
    obtain ⟨n, v⟩ := p
    simp only [restoreCompat]
    rw [ih, keys_setFlag]

/-- value of a key after `restoreCompat`: the saved value if the key was saved (saved keys
    duplicate-free), else untouched -/
theorem getFlag_restoreCompat (m : String) : ∀ (sv fl : Flags), (keys sv).Nodup → m ∈ keys fl →
    getFlag m (restoreCompat sv fl) = if m ∈ keys sv then getFlag m sv else getFlag m fl
  | [], fl, _, _ => by simp [restoreCompat, keys]
  | (n, v) :: ps, fl, hnd, hm => by
    have hnd' := List.nodup_cons.mp hnd
    simp only [restoreCompat]
    rw [getFlag_restoreCompat m ps (setFlag n v fl) hnd'.2 (by rw [keys_setFlag]; exact hm)]
    rw [getFlag_setFlag]
    by_cases hmn : m = n
    · subst hmn
      have : ¬ m ∈ keys ps := hnd'.1
      simp [this, hm, keys, getFlag]
    · have hnm : (n == m) = false := by simpa using fun h => hmn h.symm
      simp [keys, hmn, getFlag, hnm]

/-- `restoreDiag` never raises and equals `restoreCompat` when every saved name is settable -/
theorem restoreDiag_eq (cfg : Cfg) : ∀ (sv fl : Flags),
    (∀ n ∈ keys sv, n ∈ cfg.diagAll ∧ n ∉ cfg.diagFixed) →
    restoreDiag cfg sv fl = (restoreCompat sv fl, none)
  | [], _, _ => rfl
  | (n, v) :: ps, fl, h => by
    have hn := h n (by simp [keys])
    have h1 : cfg.diagFixed.contains n = false := by simpa using hn.2
    have h2 : cfg.diagAll.contains n = true := by simpa using hn.1
    simp only [restoreDiag, cfgSet, h1, h2, Bool.false_eq_true, if_false, if_true, restoreCompat]
    exact restoreDiag_eq cfg ps (setFlag n v fl) (fun m hm => h m (by
      simp only [keys, List.map_cons, List.mem_cons]; exact Or.inr hm))

theorem keys_savedList (names : List String) (fl : Flags) :
    keys (names.map (fun n => (n, (getFlag n fl).getD false))) = names := by
  simp [keys, List.map_map, Function.comp_def]

theorem getFlag_savedList (names : List String) (fl : Flags) (m : String) (hm : m ∈ names) :
    getFlag m (names.map (fun n => (n, (getFlag n fl).getD false))) = some ((getFlag m fl).getD false) := by
  induction names with
  | nil => simp at hm
  | cons k ks ih =>
    simp only [getFlag, List.map_cons, List.find?_cons]
    by_cases hk : k = m
    · subst hk; simp
    · have : (k == m) = false := by simpa using hk
      simp only [this]
      apply ih
      simp only [List.mem_cons] at hm
      rcases hm with h | h
      · exact absurd h.symm hk
      · exact h

/-- restoring the saved copy of table `fl` into any table with the same keys gives back `fl` -/
theorem restoreCompat_saved (names : List String) (fl fl' : Flags) (hnd : names.Nodup)
    (h : keys fl = names) (h' : keys fl' = names) :
    restoreCompat (names.map (fun n => (n, (getFlag n fl).getD false))) fl' = fl := by
  apply flags_ext
  · rw [keys_restoreCompat, h', h]
  · rw [keys_restoreCompat, h']; exact hnd
  · intro n hn
    rw [keys_restoreCompat, h'] at hn
    rw [getFlag_restoreCompat n _ _ (by rw [keys_savedList]; exact hnd) (by rw [h']; exact hn)]
    rw [keys_savedList]
    simp only [hn, if_true]
    rw [getFlag_savedList names fl n hn]
    have := getFlag_isSome_of_mem (m := n) (fl := fl) (by rw [h]; exact hn)
    cases hg : getFlag n fl with
    | none => simp [hg] at this
    | some b => simp

/-! ### well-formedness -/

/-- class data under which `restore` can work: no diagnostic flag is "fixed", and `save` records every
    compatibility flag there is -/
structure CfgOK (cfg : Cfg) : Prop where
  diagNodup : cfg.diagAll.Nodup
  diagNotFixed : ∀ n ∈ cfg.diagAll, n ∉ cfg.diagFixed
  compatSaved : cfg.compatAll = compatSavedNames

/-- invariant of every state reachable through the public setters -/
structure WF (cfg : Cfg) (s : State) : Prop where
  cache : s.packratEnabled = true → s.parseSel = .cache ∧ s.cache.kind ≠ .null
  sel : s.parseSel = .cache → s.packratEnabled = true
  diagKeys : keys s.diag = cfg.diagAll
  compatKeys : keys s.compat = cfg.compatAll

theorem cfgSet_keys (fixed all : List String) (n : String) (v : Bool) (fl : Flags) :
    keys (cfgSet fixed all n v fl).1 = keys fl := by
  unfold cfgSet
  split
  · rfl
  · split
    · exact keys_setFlag n v fl
    · rfl

theorem enableAllWarnings_keys (cfg : Cfg) : ∀ (ns : List String) (fl : Flags),
    keys (enableAllWarnings cfg ns fl).1 = keys fl
  | [], _ => rfl
  | n :: ns, fl => by
    simp only [enableAllWarnings]
    have hk := cfgSet_keys cfg.diagFixed cfg.diagAll n true fl
    cases hc : cfgSet cfg.diagFixed cfg.diagAll n true fl with
    | mk fl' e =>
      rw [hc] at hk
      cases e with
      | none => simp only; rw [enableAllWarnings_keys cfg ns fl']; exact hk
      | some e => exact hk

theorem WF_disableMemo {cfg s} (h : WF cfg s) : WF cfg (disableMemo s) :=
  ⟨by simp [disableMemo, resetCache], by simp [disableMemo, resetCache], h.diagKeys, h.compatKeys⟩

theorem WF_enablePackratTail {cfg s} (sz : Option Int) (h : WF cfg s) : WF cfg (enablePackratTail sz s) := by
  unfold enablePackratTail
  split
  · exact h
  · cases sz <;> exact ⟨by simp, by simp, h.diagKeys, h.compatKeys⟩

theorem WF_enableLRTail {cfg s} (cap : Option Int) (h : WF cfg s) : WF cfg (enableLRTail cap s).1 := by
  unfold enableLRTail
  cases cap with
  | none => exact ⟨h.cache, h.sel, h.diagKeys, h.compatKeys⟩
  | some n =>
    simp only
    split
    · exact ⟨h.cache, h.sel, h.diagKeys, h.compatKeys⟩
    · exact h

theorem WF_stepOp {cfg s} (o : Op) (h : WF cfg s) : WF cfg (stepOp cfg o s).1 := by
  cases o with
  | setDefaultWs c r => exact ⟨h.cache, h.sel, h.diagKeys, h.compatKeys⟩
  | setKwChars c r => exact ⟨h.cache, h.sel, h.diagKeys, h.compatKeys⟩
  | inlineLiterals c r => exact ⟨h.cache, h.sel, h.diagKeys, h.compatKeys⟩
  | setVerbose b => exact ⟨h.cache, h.sel, h.diagKeys, h.compatKeys⟩
  | enablePackrat sz f r =>
    simp only [stepOp, enablePackrat]
    split
    · exact WF_enablePackratTail sz (WF_disableMemo h)
    · split
      · exact h
      · exact WF_enablePackratTail sz h
  | enableLR cap f r =>
    simp only [stepOp, enableLR]
    split
    · exact WF_enableLRTail cap (WF_disableMemo h)
    · split
      · exact h
      · exact WF_enableLRTail cap h
  | disableMemo r => exact WF_disableMemo h
  | resetCache r => exact h
  | diagSet n v =>
    exact ⟨h.cache, h.sel, by simp only [stepOp]; rw [cfgSet_keys]; exact h.diagKeys, h.compatKeys⟩
  | enableAllWarnings =>
    exact ⟨h.cache, h.sel, by simp only [stepOp]; rw [enableAllWarnings_keys]; exact h.diagKeys, h.compatKeys⟩
  | compatSet n v =>
    exact ⟨h.cache, h.sel, h.diagKeys, by simp only [stepOp]; rw [cfgSet_keys]; exact h.compatKeys⟩
  | compatAssign n v =>
    exact ⟨h.cache, h.sel, h.diagKeys, by simp only [stepOp]; rw [keys_setFlag]; exact h.compatKeys⟩
  | newExpr => exact ⟨h.cache, h.sel, h.diagKeys, h.compatKeys⟩
  | copyExpr i =>
    simp only [stepOp]
    split
    · exact ⟨h.cache, h.sel, h.diagKeys, h.compatKeys⟩
    · exact h
  | exprSetWs i c cd => exact ⟨h.cache, h.sel, h.diagKeys, h.compatKeys⟩
  | wrapExpr i =>
    simp only [stepOp]
    split
    · exact ⟨h.cache, h.sel, h.diagKeys, h.compatKeys⟩
    · exact h
  | newFwd => exact ⟨h.cache, h.sel, h.diagKeys, h.compatKeys⟩
  | assignFwd i j =>
    simp only [stepOp]
    split
    · exact ⟨h.cache, h.sel, h.diagKeys, h.compatKeys⟩
    · exact h
  | leaveWs i => exact ⟨h.cache, h.sel, h.diagKeys, h.compatKeys⟩
  | ignoreWs i => exact ⟨h.cache, h.sel, h.diagKeys, h.compatKeys⟩
  | newAlt i =>
    simp only [stepOp]
    split
    · exact ⟨h.cache, h.sel, h.diagKeys, h.compatKeys⟩
    · exact h

/-! ### exact description of `restore (save s) t` -/

/-- the built-ins after `restore (save s) t`: those of `t` (re-synced if the default differs), each
    given back the `whiteChars` it had in `s` -/
def restoredBuiltins (s t : State) : List Expr :=
  assignWs (if t.defaultWs != s.defaultWs then (setDefaultWs s.defaultWs t).builtins else t.builtins)
    (s.builtins.map (·.ws))

/-- what `restore (save s) t` produces: `s`, except that an enabled packrat cache is a *fresh* table of
    the same kind and size (a disabled one is whatever table was left behind), the built-ins are
    `restoredBuiltins` (equal to `s.builtins` whenever `t`'s built-ins are the same objects, see
    `restoredBuiltins_eq`), user expressions are not touched (nor is any class-local attribute, `shadows`),
    and the allocation counter moves on -/
def restoredState (s t : State) : State :=
  { s with
    cache := if s.packratEnabled then ⟨t.gen, s.cache.kind⟩ else t.cache
    gen := if s.packratEnabled then t.gen + 1 else t.gen
    builtins := restoredBuiltins s t
    users := t.users
    shadows := t.shadows }

theorem restoreWs_eq (sv : Saved) (t : State) :
    restoreWs sv t = { t with
      defaultWs := sv.defaultWs
      builtins := assignWs (if t.defaultWs != sv.defaultWs then (setDefaultWs sv.defaultWs t).builtins
                            else t.builtins) sv.builtinWs } := by
  unfold restoreWs
  by_cases hw : t.defaultWs = sv.defaultWs
  · cases t
    simp_all
  · have : (t.defaultWs != sv.defaultWs) = true := by simpa using hw
    simp [this, setDefaultWs]

theorem restore_raw {cfg : Cfg} (hc : CfgOK cfg) {s t : State} (hs : WF cfg s) (ht : WF cfg t) :
    restore cfg (save cfg s) t = (restoredState s t, none) := by
  have hdiag : ∀ d, keys d = cfg.diagAll →
      restoreDiag cfg (save cfg s).diag d = (s.diag, none) := by
    intro d hd
    rw [restoreDiag_eq]
    · simp only [save]
      rw [restoreCompat_saved cfg.diagAll s.diag d hc.diagNodup hs.diagKeys hd]
    · intro n hn
      simp only [save] at hn
      rw [keys_savedList] at hn
      exact ⟨hn, hc.diagNotFixed n hn⟩
  have hcompat : ∀ d, keys d = cfg.compatAll → restoreCompat (save cfg s).compat d = s.compat := by
    intro d hd
    simp only [save]
    rw [← hc.compatSaved]
    have hnd : cfg.compatAll.Nodup := by rw [hc.compatSaved]; decide
    exact restoreCompat_saved cfg.compatAll s.compat d hnd hs.compatKeys hd
  unfold restore
  rw [restoreWs_eq]
  simp only [inlineLiterals]
  rw [hdiag _ ht.diagKeys]
  simp only
  have hcm := hcompat _ ht.compatKeys
  by_cases hp : s.packratEnabled = true
  · have hk := (hs.cache hp).2
    have hsel := (hs.cache hp).1
    simp only [save, hp, if_true, enablePackrat, Bool.false_eq_true, if_false, enablePackratTail]
    simp only [save, hp, if_true] at hcm
    cases hkind : s.cache.kind with
    | null => exact absurd hkind hk
    | fifo n =>
      simp only [Cache.sizeAttr, hkind]
      simp only [restoredState, restoredBuiltins, hp, if_true, hkind]
      rw [hcm] <;> (try (cases s; simp_all))
    | unbounded =>
      simp only [Cache.sizeAttr, hkind]
      simp only [restoredState, restoredBuiltins, hp, if_true, hkind]
      rw [hcm] <;> (try (cases s; simp_all))
  · have hp' : s.packratEnabled = false := by simpa using hp
    simp only [save, hp', Bool.false_eq_true, if_false] at hcm ⊢
    simp only [restoredState, restoredBuiltins, hp', Bool.false_eq_true, if_false]
    rw [hcm] <;> (try (cases s; simp_all))

theorem obs_restoredState (s t : State) : obs (restoredState s t) = obs s := by
  by_cases h : s.packratEnabled = true <;> simp [obs, restoredState, h]

theorem WF_restoredState {cfg s} (t : State) (h : WF cfg s) : WF cfg (restoredState s t) :=
  ⟨by
    intro hp
    have hp' : s.packratEnabled = true := hp
    have := h.cache hp'
    simpa [restoredState, hp'] using this, h.sel, h.diagKeys, h.compatKeys⟩

/-! ### the context machine -/

/-- a saved context taken from a well-formed state -/
def SavedOK (cfg : Cfg) (sv : Saved) : Prop := ∃ s, WF cfg s ∧ sv = save cfg s

structure MachOK (cfg : Cfg) (m : Mach) : Prop where
  wf : WF cfg m.st
  frames : ∀ sv ∈ m.stack, SavedOK cfg sv
  noErr : m.ctxErr = false
  lastOK : ∀ sv, m.last = some sv → SavedOK cfg sv

theorem saveRaises_of_WF {cfg s} (h : WF cfg s) : saveRaises s = false := by
  unfold saveRaises
  cases hp : s.packratEnabled with
  | false => simp
  | true =>
    have := (h.cache hp).2
    simp only [Bool.true_and, beq_eq_false_iff_ne, ne_eq]
    exact this

theorem MachOK_step {cfg : Cfg} (hc : CfgOK cfg) {m : Mach} (c : Cmd) (h : MachOK cfg m) :
    MachOK cfg (stepCmd cfg c m).1 := by
  cases c with
  | op o => exact ⟨WF_stepOp o h.wf, h.frames, h.noErr, h.lastOK⟩
  | enter r =>
    simp only [stepCmd, saveRaises_of_WF h.wf, Bool.false_eq_true, if_false]
    refine ⟨h.wf, ?_, h.noErr, ?_⟩
    · intro sv hsv
      simp only [List.mem_cons] at hsv
      rcases hsv with rfl | hsv
      · exact ⟨m.st, h.wf, rfl⟩
      · exact h.frames sv hsv
    · intro sv hsv
      cases r with
      | true => simp at hsv
      | false => exact h.lastOK sv (by simpa using hsv)
  | exit v =>
    simp only [stepCmd]
    cases hstk : m.stack with
    | nil => exact h
    | cons sv rest =>
      simp only
      have hsvok := h.frames sv (by rw [hstk]; simp)
      obtain ⟨s, hs, rfl⟩ := hsvok
      rw [restore_raw hc hs h.wf]
      refine ⟨WF_restoredState _ hs, ?_, by simp [h.noErr], ?_⟩
      · intro sv' hsv'
        exact h.frames sv' (by rw [hstk]; exact List.mem_cons_of_mem _ hsv')
      · intro sv' hsv'
        simp only [Option.some.injEq] at hsv'
        subst hsv'
        exact ⟨s, hs, rfl⟩
  | restoreLast =>
    simp only [stepCmd]
    cases hl : m.last with
    | none => exact h
    | some sv =>
      simp only
      obtain ⟨s, hs, rfl⟩ := h.lastOK sv hl
      rw [restore_raw hc hs h.wf]
      exact ⟨WF_restoredState _ hs, h.frames, by simp [h.noErr], fun sv' hsv' => h.lastOK sv' (by simpa [hl] using hsv')⟩

theorem MachOK_run {cfg : Cfg} (hc : CfgOK cfg) : ∀ (cs : List Cmd) {m : Mach}, MachOK cfg m →
    MachOK cfg (run cfg cs m)
  | [], _, h => h
  | c :: cs, _, h => MachOK_run hc cs (MachOK_step hc c h)

theorem run_append (cfg : Cfg) : ∀ (a b : List Cmd) (m : Mach), run cfg (a ++ b) m = run cfg b (run cfg a m)
  | [], _, _ => rfl
  | c :: a, b, m => by simp only [List.cons_append, run]; exact run_append cfg a b _

/-- nesting depth bookkeeping: `depthAfter cs d = some d'` iff running `cs` with `d` contexts opened
    (by these commands' own enclosing block) never closes more than it opened, and ends with `d'` open -/
def depthAfter : List Cmd → Nat → Option Nat
  | [], d => some d
  | .op _ :: r, d => depthAfter r d
  | .restoreLast :: r, d => depthAfter r d
  | .enter _ :: r, d => depthAfter r (d + 1)
  | .exit _ :: _, 0 => none
  | .exit _ :: r, d + 1 => depthAfter r d

/-- well-nested command sequence: every `exit` closes an `enter` of the same sequence, none left open -/
def Balanced (cs : List Cmd) : Prop := depthAfter cs 0 = some 0

instance (cs : List Cmd) : Decidable (Balanced cs) := by unfold Balanced; infer_instance

/-- stack discipline: frames below the ones opened by `cs` itself are never touched -/
theorem run_stack {cfg : Cfg} : ∀ (cs : List Cmd) (d d' : Nat) (m : Mach) (pre base : List Saved),
    MachOK cfg m → CfgOK cfg → depthAfter cs d = some d' → m.stack = pre ++ base → pre.length = d →
    ∃ pre', (run cfg cs m).stack = pre' ++ base ∧ pre'.length = d'
  | [], d, d', m, pre, base, _, _, hd, hst, hl => by
    simp only [depthAfter, Option.some.injEq] at hd
    exact ⟨pre, hst, by omega⟩
  | .op o :: r, d, d', m, pre, base, hm, hc, hd, hst, hl => by
    simp only [run]
    exact run_stack r d d' _ pre base (MachOK_step hc _ hm) hc hd (by simpa [stepCmd] using hst) hl
  | .restoreLast :: r, d, d', m, pre, base, hm, hc, hd, hst, hl => by
    simp only [run]
    refine run_stack r d d' _ pre base (MachOK_step hc _ hm) hc hd ?_ hl
    simp only [stepCmd]
    cases m.last <;> simpa using hst
  | .enter _ :: r, d, d', m, pre, base, hm, hc, hd, hst, hl => by
    simp only [run]
    refine run_stack r (d + 1) d' _ (save cfg m.st :: pre) base (MachOK_step hc _ hm) hc hd ?_ (by simp [hl])
    simp only [stepCmd, saveRaises_of_WF hm.wf, Bool.false_eq_true, if_false, hst, List.cons_append]
  | .exit _ :: r, 0, d', m, pre, base, _, _, hd, _, _ => by simp [depthAfter] at hd
  | .exit _ :: r, d + 1, d', m, pre, base, hm, hc, hd, hst, hl => by
    simp only [run]
    cases pre with
    | nil => simp at hl
    | cons p pre1 =>
      refine run_stack r d d' _ pre1 base (MachOK_step hc _ hm) hc hd ?_ (by simpa using hl)
      simp only [stepCmd, hst, List.cons_append]

/-! ### built-ins and user expressions -/

/-- every built-in that follows the default has the default's whitespace set -/
def Synced (s : State) : Prop := ∀ e ∈ s.builtins, e.copyDef = true → e.ws = pySet s.defaultWs

/-- `b` is the same built-in as `a`, possibly after default-whitespace changes -/
def BRel (a b : Expr) : Prop := a.copyDef = b.copyDef ∧ (a.copyDef = false → a.ws = b.ws)

/-- pointwise `BRel` on two lists of built-ins -/
inductive BRelL : List Expr → List Expr → Prop
  | nil : BRelL [] []
  | cons {a b : Expr} {l l' : List Expr} : BRel a b → BRelL l l' → BRelL (a :: l) (b :: l')

theorem BRel_refl (l : List Expr) : BRelL l l := by
  induction l with
  | nil => exact .nil
  | cons a l ih => exact .cons ⟨rfl, fun _ => rfl⟩ ih

theorem BRel_setDefaultWs (c : String) (l l' : List Expr) (h : BRelL l l') :
    BRelL l (l'.map (fun e => if e.copyDef then { e with ws := pySet c } else e)) := by
  induction h with
  | nil => exact .nil
  | @cons a b _ _ hab _ ih =>
    refine .cons ?_ ih
    obtain ⟨h1, h2⟩ := hab
    by_cases hb : b.copyDef = true
    · simp only [hb, if_true]
      exact ⟨by rw [h1, hb], fun hf => by rw [h1, hb] at hf; cases hf⟩
    · simp only [hb]
      exact ⟨h1, h2⟩

theorem Synced_setDefaultWs (c : String) (s : State) : Synced (setDefaultWs c s) := by
  intro e he hcd
  simp only [setDefaultWs, List.mem_map] at he
  obtain ⟨e0, _, rfl⟩ := he
  split at hcd
  · simp [setDefaultWs]
    rename_i h; simp [h]
  · rename_i h; simp_all

theorem enablePackratTail_builtins (sz : Option Int) (s : State) :
    (enablePackratTail sz s).builtins = s.builtins ∧ (enablePackratTail sz s).defaultWs = s.defaultWs := by
  unfold enablePackratTail
  split
  · exact ⟨rfl, rfl⟩
  · cases sz <;> exact ⟨rfl, rfl⟩

theorem enableLRTail_builtins (cap : Option Int) (s : State) :
    (enableLRTail cap s).1.builtins = s.builtins ∧ (enableLRTail cap s).1.defaultWs = s.defaultWs := by
  unfold enableLRTail
  cases cap with
  | none => exact ⟨rfl, rfl⟩
  | some n => simp only; split <;> exact ⟨rfl, rfl⟩

/-- the only thing any operation does to the built-ins is `setDefaultWs` -/
theorem stepOp_builtins (cfg : Cfg) (o : Op) (s : State) :
    ((stepOp cfg o s).1.builtins = s.builtins ∧ (stepOp cfg o s).1.defaultWs = s.defaultWs) ∨
    ∃ c, (stepOp cfg o s).1.builtins = (setDefaultWs c s).builtins ∧ (stepOp cfg o s).1.defaultWs = c := by
  cases o with
  | setDefaultWs c r => exact Or.inr ⟨c, rfl, rfl⟩
  | enablePackrat sz f r =>
    left
    simp only [stepOp, enablePackrat]
    split
    · exact enablePackratTail_builtins sz (disableMemo s)
    · split
      · exact ⟨rfl, rfl⟩
      · exact enablePackratTail_builtins sz s
  | enableLR cap f r =>
    left
    simp only [stepOp, enableLR]
    split
    · exact enableLRTail_builtins cap (disableMemo s)
    · split
      · exact ⟨rfl, rfl⟩
      · exact enableLRTail_builtins cap s
  | copyExpr i =>
    left
    simp only [stepOp]
    split <;> exact ⟨rfl, rfl⟩
  | wrapExpr i =>
    left
    simp only [stepOp]
    split <;> exact ⟨rfl, rfl⟩
  | assignFwd i j =>
    left
    simp only [stepOp]
    split <;> exact ⟨rfl, rfl⟩
  | newAlt i =>
    left
    simp only [stepOp]
    split <;> exact ⟨rfl, rfl⟩
  | _ => exact Or.inl ⟨rfl, rfl⟩

/-- the `copyDefaultWhiteChars` / `skipWhitespace` flags (and "unassigned Forward" marks) of a list of
    built-ins (never changed by any command) -/
def flagsOf (l : List Expr) : List (Bool × Bool × Bool) := l.map (fun e => (e.copyDef, e.fwdEmpty, e.skip))

theorem flagsOf_assignWs : ∀ (l : List Expr) (ws : List (List Char)), flagsOf (assignWs l ws) = flagsOf l
  | [], _ => by simp [assignWs]
  | _ :: _, [] => by simp [assignWs]
  | e :: es, w :: ws => by
    simp only [assignWs, flagsOf, List.map_cons]
    have := flagsOf_assignWs es ws
    simp only [flagsOf] at this
    rw [this]

theorem flagsOf_setDefaultWs (c : String) (s : State) :
    flagsOf (setDefaultWs c s).builtins = flagsOf s.builtins := by
  simp only [setDefaultWs, flagsOf, List.map_map]
  apply List.map_congr_left
  intro e _
  simp only [Function.comp]
  split <;> rfl

/-- giving the same objects back the sets they had in `l` yields `l` -/
theorem assignWs_same : ∀ (l l' : List Expr), flagsOf l' = flagsOf l → assignWs l' (l.map (·.ws)) = l
  | [], [], _ => rfl
  | [], _ :: _, h => by simp [flagsOf] at h
  | _ :: _, [], h => by simp [flagsOf] at h
  | a :: l, b :: l', h => by
    simp only [flagsOf, List.map_cons, List.cons.injEq] at h
    simp only [List.map_cons, assignWs]
    rw [assignWs_same l l' h.2]
    cases a; cases b
    simp_all

theorem flagsOf_restoredBuiltins (s t : State) : flagsOf (restoredBuiltins s t) = flagsOf t.builtins := by
  unfold restoredBuiltins
  rw [flagsOf_assignWs]
  split
  · exact flagsOf_setDefaultWs _ _
  · rfl

/-- the built-ins come back exactly whenever the state inside still has the same built-in objects -/
theorem restoredBuiltins_eq (s t : State) (h : flagsOf t.builtins = flagsOf s.builtins) :
    restoredBuiltins s t = s.builtins := by
  unfold restoredBuiltins
  apply assignWs_same
  split
  · rw [flagsOf_setDefaultWs]; exact h
  · exact h

theorem enablePackratTail_users (sz : Option Int) (s : State) : (enablePackratTail sz s).users = s.users := by
  unfold enablePackratTail
  split
  · rfl
  · cases sz <;> rfl

theorem enableLRTail_users (cap : Option Int) (s : State) : (enableLRTail cap s).1.users = s.users := by
  unfold enableLRTail
  cases cap with
  | none => rfl
  | some n => simp only; split <;> rfl

/-- every operation other than the user's own `set_whitespace_chars` / `fwd <<= e` / `leave_whitespace` /
    `ignore_whitespace` leaves the existing user expressions alone (it may append new ones) -/
theorem stepOp_users (cfg : Cfg) (o : Op) (s : State) (ho : ∀ i c cd, o ≠ .exprSetWs i c cd)
    (ho' : ∀ i j, o ≠ .assignFwd i j) (hl : ∀ i, o ≠ .leaveWs i) (hg : ∀ i, o ≠ .ignoreWs i) :
    ∃ e1, (stepOp cfg o s).1.users = s.users ++ e1 := by
  cases o with
  | exprSetWs i ch cd => exact absurd rfl (ho i ch cd)
  | assignFwd i j => exact absurd rfl (ho' i j)
  | leaveWs i => exact absurd rfl (hl i)
  | ignoreWs i => exact absurd rfl (hg i)
  | newAlt i =>
    simp only [stepOp]
    split
    · exact ⟨[_], rfl⟩
    · exact ⟨[], by simp⟩
  | newExpr => exact ⟨[newExpr s], rfl⟩
  | newFwd => exact ⟨[newFwd s], rfl⟩
  | copyExpr i =>
    simp only [stepOp]
    split
    · exact ⟨[_], rfl⟩
    · exact ⟨[], by simp⟩
  | wrapExpr i =>
    simp only [stepOp]
    split
    · exact ⟨[_], rfl⟩
    · exact ⟨[], by simp⟩
  | enablePackrat sz f r =>
    refine ⟨[], ?_⟩
    simp only [stepOp, enablePackrat, List.append_nil]
    split
    · exact enablePackratTail_users sz (disableMemo s)
    · split
      · rfl
      · exact enablePackratTail_users sz s
  | enableLR cap f r =>
    refine ⟨[], ?_⟩
    simp only [stepOp, enableLR, List.append_nil]
    split
    · exact enableLRTail_users cap (disableMemo s)
    · split
      · rfl
      · exact enableLRTail_users cap s
  | _ => exact ⟨[], by simp [stepOp, setDefaultWs, setKwChars, inlineLiterals, disableMemo, resetCache]⟩

/-! ### canonical sets and the whitespace part of `preParse` -/

theorem mem_insertSorted (x c : Char) : ∀ l : List Char, x ∈ insertSorted c l ↔ x = c ∨ x ∈ l
  | [] => by simp [insertSorted]
  | d :: ds => by
    simp only [insertSorted]
    split
    · simp
    · split
      · rename_i _ heq
        have hcd : c = d := Char.toNat_inj.mp heq
        subst hcd
        simp
      · simp only [List.mem_cons, mem_insertSorted x c ds]
        constructor
        · rintro (h | h | h)
          · exact Or.inr (Or.inl h)
          · exact Or.inl h
          · exact Or.inr (Or.inr h)
        · rintro (h | h | h)
          · exact Or.inr (Or.inl h)
          · exact Or.inl h
          · exact Or.inr (Or.inr h)

/-- the canonical form of `set(chars)` has exactly the characters of `chars` -/
theorem mem_canonSet (x : Char) : ∀ cs : List Char, x ∈ canonSet cs ↔ x ∈ cs
  | [] => by simp [canonSet]
  | c :: cs => by
    have ih := mem_canonSet x cs
    simp only [canonSet, List.foldr_cons] at ih ⊢
    rw [mem_insertSorted, ih]
    simp

theorem mem_pySet (x : Char) (c : String) : x ∈ pySet c ↔ x ∈ c.toList := mem_canonSet x c.toList

theorem dropWhile_spec (p : Char → Bool) : ∀ inp : List Char,
    ∃ pre, inp = pre ++ inp.dropWhile p ∧ (∀ ch ∈ pre, p ch = true) ∧
      (∀ ch rest, inp.dropWhile p = ch :: rest → p ch = false)
  | [] => ⟨[], by simp⟩
  | a :: as => by
    obtain ⟨pre, h1, h2, h3⟩ := dropWhile_spec p as
    cases hp : p a with
    | true =>
      refine ⟨a :: pre, ?_, ?_, ?_⟩
      · simp only [List.dropWhile_cons, hp, if_true, List.cons_append]
        rw [← h1]
      · intro ch hch
        simp only [List.mem_cons] at hch
        rcases hch with rfl | hch
        · exact hp
        · exact h2 ch hch
      · intro ch rest hr
        simp only [List.dropWhile_cons, hp, if_true] at hr
        exact h3 ch rest hr
    | false =>
      refine ⟨[], ?_, by simp, ?_⟩
      · simp [hp]
      · intro ch rest hr
        simp only [List.dropWhile_cons, hp, Bool.false_eq_true, if_false, List.cons.injEq] at hr
        rw [← hr.1]; exact hp

end PP.Settings
