import PPProofs.Lemmas.PRDict
/-! Helper lemmas for C10/C11: the invariant `PRInv`, and how `abs` commutes with the building blocks of
    the `ParseResults` model. -/
namespace PP.PR
open PP.PyList PP.PyDict

variable {α : Type}

/-- the representation invariant: the name table is a dict (unique keys) and no name has an empty
    occurrence list -/
structure PRInv (s : PR α) : Prop where
  nodup : (dkeys s.dict).Nodup
  nonempty : ∀ e ∈ s.dict, e.2 ≠ []

/-- the only side condition of a history: a `ParseResults` *argument* of `+=` / `extend` is itself a well-formed
    object (every object is: `prinv_of_ctor`, `prinv_step`) -/
def OpOk : Op α (PR α) → Prop
  | .iadd o => PRInv o
  | .extendPR o => PRInv o
  | _ => True

theorem Abs.ext' {a b : Abs α} (h1 : a.toks = b.toks) (h2 : a.order = b.order)
    (h3 : ∀ k, a.vals k = b.vals k) (h4 : ∀ k, a.la k = b.la k) : a = b := by
  cases a; cases b
  simp only [Abs.mk.injEq] at *
  exact ⟨h1, h2, funext h3, funext h4⟩

/-! ### lookups -/

theorem getName_abs (s : PR α) (h : PRInv s) (n : String) : getName s n = (abs s).lookup n := by
  unfold getName Abs.lookup abs
  simp only
  cases hd : dget s.dict n with
  | none =>
    have hk : n ∉ dkeys s.dict := (dget_none_iff _ _).mp hd
    by_cases ha : n ∈ s.all <;> simp [ha, hk]
  | some occ =>
    have hk : n ∈ dkeys s.dict := by
      have := dget_isSome_iff s.dict n; rw [hd] at this; simpa using this
    have hne : occ ≠ [] := h.nonempty _ (dget_some_mem hd)
    by_cases ha : n ∈ s.all
    · simp [ha, hk]
    · simp only [ha, not_false_eq_true, if_true, hk, decide_false, Option.getD_some, List.getLast?_map]
      cases hl : occ.getLast? with
      | none => exact absurd (List.getLast?_eq_none_iff.mp hl) hne
      | some vp => simp

theorem lookup_ok_of_mem {s : PR α} (h : PRInv s) {n : String} (hn : n ∈ dkeys s.dict) :
    ∃ w, (abs s).lookup n = .ok w := by
  rw [← getName_abs s h]
  unfold getName
  cases hd : dget s.dict n with
  | none => exact absurd hn ((dget_none_iff _ _).mp hd)
  | some occ =>
    have hne := h.nonempty _ (dget_some_mem hd)
    cases hg : occ.getLast? with
    | none => exact absurd (List.getLast?_eq_none_iff.mp hg) hne
    | some vp => by_cases ha : n ∈ s.all <;> simp [ha, hg]

theorem viewsOf_abs (s : PR α) (h : PRInv s) (ks : List String) : viewsOf s ks = (abs s).lookups ks := by
  induction ks with
  | nil => rfl
  | cons k ks ih =>
    simp only [viewsOf, Abs.lookups, getName_abs s h, ih]
    cases (abs s).lookup k <;> rfl

theorem truthy_abs (s : PR α) : s.truthy = (abs s).truthy := by
  simp [PR.truthy, Abs.truthy, abs, dkeys]

/-! ### name assignment / deletion -/

theorem abs_setOcc (s : PR α) (k : String) (vp : α × Int) : abs (setOcc s k vp) = (abs s).add k vp.1 := by
  apply Abs.ext'
  · rfl
  · by_cases hk : k ∈ dkeys s.dict <;> simp [abs, setOcc, Abs.add, dkeys_dset, hk]
  · intro k'
    simp only [abs, setOcc, Abs.add, dget_dset]
    by_cases h : k' = k <;> simp [h]
  · intro k'; rfl

theorem prinv_setOcc {s : PR α} (h : PRInv s) (k : String) (vp : α × Int) : PRInv (setOcc s k vp) := by
  constructor
  · exact nodup_dkeys_dset _ _ h.nodup
  · intro e he
    rcases mem_dset he with he | he
    · exact h.nonempty e he
    · subst he; simp

theorem abs_ddel (s : PR α) (n : String) : abs { s with dict := ddel s.dict n } = (abs s).remove n := by
  apply Abs.ext'
  · rfl
  · simp [abs, Abs.remove, dkeys_ddel]
  · intro k'
    simp only [abs, Abs.remove, dget_ddel]
    by_cases h : k' = n <;> simp [h]
  · intro k'; rfl

theorem prinv_ddel {s : PR α} (h : PRInv s) (n : String) : PRInv { s with dict := ddel s.dict n } :=
  ⟨nodup_dkeys_ddel _ h.nodup, fun e he => h.nonempty e (mem_ddel he)⟩

/-! ### position fix-ups never touch the abstract state -/

theorem fixDel_eq_dmap (removed : List Int) (d : Dict (List (α × Int))) :
    fixDel removed d = dmap (fun occ => removed.foldl
      (fun occ j => occ.map (fun vp => (vp.1, vp.2 - (if vp.2 > j then 1 else 0)))) occ) d := rfl

theorem fixIns_eq_dmap (index : Int) (d : Dict (List (α × Int))) :
    fixIns index d = dmap (fun occ => occ.map (fun vp => (vp.1, vp.2 + (if vp.2 > index then 1 else 0)))) d := rfl

theorem fixDel_fold_fst (removed : List Int) (occ : List (α × Int)) :
    (removed.foldl (fun occ j => occ.map (fun vp => (vp.1, vp.2 - (if vp.2 > j then 1 else 0)))) occ).map (·.1)
      = occ.map (·.1) := by
  induction removed generalizing occ with
  | nil => rfl
  | cons j js ih => simp only [List.foldl_cons, ih, List.map_map, Function.comp_def]

theorem fixDel_fold_length (removed : List Int) (occ : List (α × Int)) :
    (removed.foldl (fun occ j => occ.map (fun vp => (vp.1, vp.2 - (if vp.2 > j then 1 else 0)))) occ).length
      = occ.length := by
  have := congrArg List.length (fixDel_fold_fst removed occ)
  simpa using this

/-- a dict whose occurrence lists are rewritten value-preservingly has the same abstraction -/
theorem abs_dmap (s : PR α) (t : List α) (f : List (α × Int) → List (α × Int))
    (hf : ∀ occ, (f occ).map (·.1) = occ.map (·.1)) :
    abs { s with toks := t, dict := dmap f s.dict } = { abs s with toks := t } := by
  apply Abs.ext'
  · rfl
  · simp [abs, dkeys_dmap]
  · intro k
    simp only [abs, dget_dmap]
    cases dget s.dict k <;> simp [hf]
  · intro k; rfl

theorem prinv_dmap {s : PR α} (h : PRInv s) (t : List α) (f : List (α × Int) → List (α × Int))
    (hf : ∀ occ, (f occ).map (·.1) = occ.map (·.1)) :
    PRInv { s with toks := t, dict := dmap f s.dict } := by
  constructor
  · simpa [dkeys_dmap] using h.nodup
  · intro e he
    obtain ⟨e0, h0, rfl⟩ := mem_dmap he
    have := h.nonempty e0 h0
    intro hc
    have hc' : f e0.2 = [] := hc
    have h2 := hf e0.2
    rw [hc'] at h2
    exact this (List.map_eq_nil_iff.mp h2.symm)

theorem abs_toks (s : PR α) (t : List α) : abs { s with toks := t } = { abs s with toks := t } := rfl

theorem prinv_toks {s : PR α} (h : PRInv s) (t : List α) : PRInv { s with toks := t } :=
  ⟨h.nodup, h.nonempty⟩

/-! ### `+=`: the loop of single assignments is a pointwise merge -/

namespace Abs

def addMany (a : Abs α) (k : String) (vl : List α) : Abs α := vl.foldl (fun a v => a.add k v) a

def mergeEntries (a : Abs α) (od : Dict (List α)) : Abs α := od.foldl (fun a e => a.addMany e.1 e.2) a

theorem addMany_toks (a : Abs α) (k : String) (vl : List α) : (a.addMany k vl).toks = a.toks := by
  induction vl generalizing a with
  | nil => rfl
  | cons v vs ih => simp only [addMany, List.foldl_cons] at ih ⊢; rw [ih]; rfl

theorem addMany_la (a : Abs α) (k : String) (vl : List α) : (a.addMany k vl).la = a.la := by
  induction vl generalizing a with
  | nil => rfl
  | cons v vs ih => simp only [addMany, List.foldl_cons] at ih ⊢; rw [ih]; rfl

theorem addMany_order_mem (a : Abs α) (k : String) (vl : List α) (h : k ∈ a.order) :
    (a.addMany k vl).order = a.order := by
  induction vl generalizing a with
  | nil => rfl
  | cons v vs ih =>
    simp only [addMany, List.foldl_cons] at ih ⊢
    rw [ih (a.add k v) (by simp [add, h])]
    simp [add, h]

theorem addMany_order (a : Abs α) (k : String) (vl : List α) (hne : vl ≠ []) :
    (a.addMany k vl).order = if k ∈ a.order then a.order else a.order ++ [k] := by
  cases vl with
  | nil => exact absurd rfl hne
  | cons v vs =>
    have h1 : k ∈ (a.add k v).order := by
      by_cases h : k ∈ a.order <;> simp [add, h]
    have := addMany_order_mem (a.add k v) k vs h1
    simp only [addMany, List.foldl_cons] at this ⊢
    rw [this]; rfl

theorem addMany_vals (a : Abs α) (k : String) (vl : List α) (k' : String) :
    (a.addMany k vl).vals k' = if k' = k then a.vals k ++ vl else a.vals k' := by
  induction vl generalizing a with
  | nil => by_cases h : k' = k <;> simp [addMany, h]
  | cons v vs ih =>
    simp only [addMany, List.foldl_cons] at ih ⊢
    rw [ih]
    by_cases h : k' = k <;> simp [add, h]

theorem mergeEntries_toks (a : Abs α) (od : Dict (List α)) : (a.mergeEntries od).toks = a.toks := by
  induction od generalizing a with
  | nil => rfl
  | cons e od ih => simp only [mergeEntries, List.foldl_cons] at ih ⊢; rw [ih, addMany_toks]

theorem mergeEntries_la (a : Abs α) (od : Dict (List α)) : (a.mergeEntries od).la = a.la := by
  induction od generalizing a with
  | nil => rfl
  | cons e od ih => simp only [mergeEntries, List.foldl_cons] at ih ⊢; rw [ih, addMany_la]

theorem mergeEntries_vals (a : Abs α) (od : Dict (List α)) (hn : (dkeys od).Nodup) (k : String) :
    (a.mergeEntries od).vals k = a.vals k ++ (dget od k).getD [] := by
  induction od generalizing a with
  | nil => simp [mergeEntries, dget]
  | cons e od ih =>
    obtain ⟨k0, vl⟩ := e
    simp only [dkeys, List.map_cons, List.nodup_cons] at hn
    simp only [mergeEntries, List.foldl_cons] at ih ⊢
    rw [ih _ hn.2, addMany_vals]
    by_cases h : k = k0
    · subst h
      have : dget od k = none := (dget_none_iff od k).mpr hn.1
      simp [dget, this]
    · have h' : ¬ k0 = k := fun e => h e.symm
      simp [dget, h, h']

theorem mergeEntries_order (a : Abs α) (od : Dict (List α)) (hn : (dkeys od).Nodup)
    (hne : ∀ e ∈ od, e.2 ≠ []) :
    (a.mergeEntries od).order = a.order ++ (dkeys od).filter (fun k => k ∉ a.order) := by
  induction od generalizing a with
  | nil => simp [mergeEntries, dkeys]
  | cons e od ih =>
    obtain ⟨k0, vl⟩ := e
    simp only [dkeys, List.map_cons, List.nodup_cons] at hn
    have hvl : vl ≠ [] := hne (k0, vl) (by simp)
    have hne' : ∀ e ∈ od, e.2 ≠ [] := fun e he => hne e (List.mem_cons_of_mem _ he)
    simp only [mergeEntries, List.foldl_cons] at ih ⊢
    rw [ih _ hn.2 hne', addMany_order _ _ _ hvl]
    by_cases h : k0 ∈ a.order
    · simp [h, dkeys, List.filter_cons]
    · simp only [h, if_false, dkeys, List.map_cons, List.filter_cons, not_false_eq_true, decide_true,
        if_true, List.append_assoc, List.cons_append, List.nil_append]
      congr 2
      apply List.filter_congr
      intro x hx
      have : x ≠ k0 := fun e => hn.1 (e ▸ hx)
      simp [this]

end Abs

theorem abs_foldl_setOcc (s : PR α) (kvs : List (String × (α × Int))) :
    abs (kvs.foldl (fun s kv => setOcc s kv.1 kv.2) s)
      = kvs.foldl (fun a kv => a.add kv.1 kv.2.1) (abs s) := by
  induction kvs generalizing s with
  | nil => rfl
  | cons kv kvs ih => simp only [List.foldl_cons, ih, abs_setOcc]

theorem prinv_foldl_setOcc {s : PR α} (h : PRInv s) (kvs : List (String × (α × Int))) :
    PRInv (kvs.foldl (fun s kv => setOcc s kv.1 kv.2) s) := by
  induction kvs generalizing s with
  | nil => exact h
  | cons kv kvs ih => exact ih (prinv_setOcc h _ _)

theorem foldl_setOcc_toks (s : PR α) (kvs : List (String × (α × Int))) :
    (kvs.foldl (fun s kv => setOcc s kv.1 kv.2) s).toks = s.toks := by
  induction kvs generalizing s with
  | nil => rfl
  | cons kv kvs ih => simp only [List.foldl_cons, ih]; rfl

theorem foldl_setOcc_all (s : PR α) (kvs : List (String × (α × Int))) :
    (kvs.foldl (fun s kv => setOcc s kv.1 kv.2) s).all = s.all := by
  induction kvs generalizing s with
  | nil => rfl
  | cons kv kvs ih => simp only [List.foldl_cons, ih]; rfl

/-- the flattened `otherdictitems` loop of `__iadd__`, seen abstractly -/
theorem foldl_items_abs (a : Abs α) (g : Int → Int) (od : Dict (List (α × Int))) :
    (od.flatMap (fun e => e.2.map (fun v => (e.1, (v.1, g v.2))))).foldl
        (fun a (kv : String × (α × Int)) => a.add kv.1 kv.2.1) a
      = a.mergeEntries (dmap (fun occ => occ.map (·.1)) od) := by
  rw [List.foldl_flatMap]
  induction od generalizing a with
  | nil => rfl
  | cons e od ih =>
    simp only [List.foldl_cons, Abs.mergeEntries, dmap, List.map_cons] at ih ⊢
    rw [ih]
    congr 1
    simp only [Abs.addMany, List.foldl_map]

/-- the name part of `__iadd__` (results.py:458-470) -/
def iaddNames (s o : PR α) : PR α :=
  let offset : Int := s.toks.length
  (o.dict.flatMap (fun e => e.2.map (fun v => (e.1, (v.1, if v.2 < 0 then offset else v.2 + offset))))).foldl
    (fun s kv => setOcc s kv.1 kv.2) s

theorem iadd_eq (s o : PR α) :
    iadd s o = if o.truthy then
        { iaddNames s o with toks := s.toks ++ o.toks,
                             all := s.all ++ o.all.filter (fun n => n ∉ s.all) }
      else { s with all := s.all ++ o.all.filter (fun n => n ∉ s.all) } := by
  unfold iadd
  cases ht : o.truthy
  · simp
  · simp only [Bool.not_true, Bool.false_eq_true, if_false, if_true]
    cases hd : o.dict with
    | nil => simp [iaddNames, hd]
    | cons e d =>
      simp only [List.isEmpty_cons, Bool.false_eq_true, if_false, iaddNames, hd, foldl_setOcc_toks,
        foldl_setOcc_all]

theorem abs_iaddNames (s o : PR α) (ho : PRInv o) :
    abs (iaddNames s o) =
      { abs s with order := (abs s).order ++ (abs o).order.filter (fun k => k ∉ (abs s).order),
                   vals := fun k => (abs s).vals k ++ (abs o).vals k } := by
  unfold iaddNames
  simp only
  rw [abs_foldl_setOcc,
    foldl_items_abs (abs s) (fun p => if p < 0 then (s.toks.length : Int) else p + (s.toks.length : Int))]
  have hn : (dkeys (dmap (fun occ : List (α × Int) => occ.map (·.1)) o.dict)).Nodup := by
    rw [dkeys_dmap]; exact ho.nodup
  have hne : ∀ e ∈ dmap (fun occ : List (α × Int) => occ.map (·.1)) o.dict, e.2 ≠ [] := by
    intro e he
    obtain ⟨e0, h0, rfl⟩ := mem_dmap he
    have := ho.nonempty e0 h0
    simpa using this
  apply Abs.ext'
  · rw [Abs.mergeEntries_toks]
  · rw [Abs.mergeEntries_order _ _ hn hne, dkeys_dmap]; rfl
  · intro k
    rw [Abs.mergeEntries_vals _ _ hn, dget_dmap]
    simp only [abs]
    cases dget o.dict k <;> simp
  · intro k; rw [Abs.mergeEntries_la]

theorem falsy_abs {o : PR α} (h : o.truthy = false) :
    (abs o).toks = [] ∧ (abs o).order = [] ∧ ∀ k, (abs o).vals k = [] := by
  simp only [PR.truthy, Bool.or_eq_false_iff, Bool.not_eq_false', List.isEmpty_iff] at h
  refine ⟨h.1, by simp [abs, dkeys, h.2], fun k => by simp [abs, h.2, dget]⟩

theorem la_union (s o : PR α) (k : String) :
    decide (k ∈ s.all ++ o.all.filter (fun n => n ∉ s.all)) = (decide (k ∈ s.all) || decide (k ∈ o.all)) := by
  simp only [List.mem_append, List.mem_filter, decide_eq_true_eq]
  by_cases h1 : k ∈ s.all <;> by_cases h2 : k ∈ o.all <;> simp [h1, h2]

/-- `+=` is the merge of list and multimap, for every well-formed argument (empty or not) -/
theorem abs_iadd (s o : PR α) (ho : PRInv o) : abs (iadd s o) = (abs s).merge (abs o) := by
  rw [iadd_eq]
  cases ht : o.truthy
  · obtain ⟨h1, h2, h3⟩ := falsy_abs ht
    apply Abs.ext'
    · show s.toks = (abs s).toks ++ (abs o).toks
      rw [h1]; simp [abs]
    · show dkeys s.dict = (abs s).order ++ (abs o).order.filter _
      rw [h2]; simp [abs]
    · intro k
      show (abs s).vals k = (abs s).vals k ++ (abs o).vals k
      rw [h3]; simp
    · intro k
      simp only [Abs.merge, abs, Bool.false_eq_true, if_false]
      exact la_union s o k
  · simp only [if_true]
    have := abs_iaddNames s o ho
    apply Abs.ext'
    · show s.toks ++ o.toks = _; rfl
    · have h2 := congrArg Abs.order this
      simpa [Abs.merge, abs] using h2
    · intro k
      have h2 := congrFun (congrArg Abs.vals this) k
      simpa [Abs.merge, abs] using h2
    · intro k
      simp only [Abs.merge, abs]
      exact la_union s o k

theorem prinv_iadd {s o : PR α} (h : PRInv s) : PRInv (iadd s o) := by
  rw [iadd_eq]
  split
  · have := prinv_foldl_setOcc h
      (o.dict.flatMap (fun e => e.2.map (fun v => (e.1, (v.1, if v.2 < 0 then (s.toks.length : Int) else v.2 + (s.toks.length : Int))))))
    exact ⟨this.nodup, this.nonempty⟩
  · exact ⟨h.nodup, h.nonempty⟩

/-! ### `del` / `insert` on the token list -/

theorem abs_fixDel (s : PR α) (t : List α) (R : List Int) :
    abs { s with toks := t, dict := fixDel R s.dict } = { abs s with toks := t } := by
  rw [fixDel_eq_dmap]; exact abs_dmap s t _ (fixDel_fold_fst R)

theorem prinv_fixDel {s : PR α} (h : PRInv s) (t : List α) (R : List Int) :
    PRInv { s with toks := t, dict := fixDel R s.dict } := by
  rw [fixDel_eq_dmap]; exact prinv_dmap h t _ (fixDel_fold_fst R)

theorem abs_fixIns (s : PR α) (t : List α) (i : Int) :
    abs { s with toks := t, dict := fixIns i s.dict } = { abs s with toks := t } := by
  rw [fixIns_eq_dmap]
  exact abs_dmap s t _ (fun occ => by simp [List.map_map, Function.comp_def])

theorem prinv_fixIns {s : PR α} (h : PRInv s) (t : List α) (i : Int) :
    PRInv { s with toks := t, dict := fixIns i s.dict } := by
  rw [fixIns_eq_dmap]
  exact prinv_dmap h t _ (fun occ => by simp [List.map_map, Function.comp_def])

theorem indices_step_none (a b : Option Int) (n : Nat) :
    ∃ x y, (Slice.mk a b none).indices n = some (x, y, 1) := by
  simp [Slice.indices]

theorem delInt_some {s : PR α} {i : Int} {t : List α} (h : delIdx s.toks i = some t) :
    ∃ R, delInt s i = some { s with toks := t, dict := fixDel R s.dict } := by
  unfold delInt
  simp only [h]
  obtain ⟨x, y, hxy⟩ := indices_step_none (some (if i < 0 then i + (s.toks.length : Int) else i))
    (some ((if i < 0 then i + (s.toks.length : Int) else i) + 1)) s.toks.length
  rw [hxy]
  exact ⟨_, rfl⟩

theorem delInt_none {s : PR α} {i : Int} (h : delIdx s.toks i = none) : delInt s i = none := by
  unfold delInt; simp only [h]

theorem delSliceOp_some {s : PR α} {sl : Slice} {t : List α} (h : delSlice s.toks sl = some t) :
    ∃ R, delSliceOp s sl = some { s with toks := t, dict := fixDel R s.dict } := by
  unfold delSliceOp
  simp only [h]
  unfold delSlice at h
  cases hi : sl.indices s.toks.length with
  | none => simp [hi] at h
  | some abc => obtain ⟨a, b, c⟩ := abc; exact ⟨_, rfl⟩

theorem delSliceOp_none {s : PR α} {sl : Slice} (h : delSlice s.toks sl = none) : delSliceOp s sl = none := by
  unfold delSliceOp; simp only [h]

end PP.PR
