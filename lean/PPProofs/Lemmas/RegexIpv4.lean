import PPProofs.Lemmas.Regex
/-! Helper lemmas for the `ipv4_address` language theorem (`Props/C18More.lean`): the preferred result of a
    backtracking concatenation when only one intermediate position lets the continuation go on; the ten digits. -/
namespace PP.Regex
open Re

/-- if the continuation `k` fails at every intermediate result except (copies of) `a`, and `a` is among the
    results, the preferred overall result is the preferred result of `k a` -/
theorem head?_flatMap_unique {α β : Type} (k : α → List β) (a : α) : ∀ (l : List α), a ∈ l →
    (∀ e ∈ l, e = a ∨ k e = []) → (l.flatMap k).head? = (k a).head? := by
  intro l
  induction l with
  | nil => intro h; simp at h
  | cons x t ih =>
    intro hin h
    by_cases hx : x = a
    · subst hx
      cases hk : k x with
      | nil =>
        have hall : ∀ e ∈ t, k e = [] := by
          intro e he
          rcases h e (by simp [he]) with rfl | h'
          · exact hk
          · exact h'
        have : t.flatMap k = [] := by simpa [List.flatMap_eq_nil_iff] using hall
        simp [List.flatMap_cons, hk, this]
      | cons b bs => simp [List.flatMap_cons, hk]
    · have hkx : k x = [] := (h x (by simp)).resolve_left hx
      have hin' : a ∈ t := by
        rcases List.mem_cons.1 hin with rfl | h'
        · exact absurd rfl hx
        · exact h'
      simp only [List.flatMap_cons, hkx, List.nil_append]
      exact ih hin' (fun e he => h e (by simp [he]))

def digitChars : List Char := ['0', '1', '2', '3', '4', '5', '6', '7', '8', '9']

theorem mem_digitChars (c : Char) (h0 : '0' ≤ c) (h9 : c ≤ '9') : c ∈ digitChars := by
  have e : c = Char.ofNat c.toNat := (Char.ofNat_toNat c).symm
  have a0 : 48 ≤ c.toNat := by
    have := Char.le_def.1 h0; simpa [UInt32.le_iff_toNat_le] using this
  have a9 : c.toNat ≤ 57 := by
    have := Char.le_def.1 h9; simpa [UInt32.le_iff_toNat_le] using this
  generalize c.toNat = n at e a0 a9
  subst e
  have : n = 48 ∨ n = 49 ∨ n = 50 ∨ n = 51 ∨ n = 52 ∨ n = 53 ∨ n = 54 ∨ n = 55 ∨ n = 56 ∨ n = 57 := by omega
  rcases this with rfl | rfl | rfl | rfl | rfl | rfl | rfl | rfl | rfl | rfl <;> decide

end PP.Regex
