import PPModel.Mod.LeftRec
import PPProofs.Lemmas.ParseRename
/-!
# Frame lemma for the left-recursion model: Forward-free parts of the table never consult the in-growth entries

`FwdFree g D`: the part `D` of the node table is closed under "refers to", every id in it is present, and it contains no
assigned Forward.  On such a part `parseLR g s f env` is the plain parser `parse g s f`, for every environment.
-/
namespace PP.Parse

theorem Kind.mapIds_id (k : Kind) : k.mapIds id = k := by
  cases k <;> simp [Kind.mapIds]

theorem Node.mapIds_id (n : Node) : n.mapIds id = n := by
  cases n; simp [Node.mapIds, Kind.mapIds_id]

structure FwdFree (g : Grammar) (D : Nat → Prop) : Prop where
  present : ∀ i, D i → ∃ n, g[i]? = some n
  closed : ∀ i n, D i → g[i]? = some n → ∀ c ∈ n.children, D c
  noFwd : ∀ i n e, D i → g[i]? = some n → n.kind ≠ .forward (some e)

theorem FwdFree.sim {g : Grammar} {D : Nat → Prop} (h : FwdFree g D) : Sim g g id D :=
  ⟨fun i hi => by
      obtain ⟨n, hn⟩ := h.present i hi
      exact ⟨n, n, hn, hn, by rw [Node.mapIds_id]⟩,
   h.closed, fun _ _ _ _ _ _ _ _ => rfl⟩

theorem parseLR_frame (g : Grammar) (s : List Char) {D : Nat → Prop} (h : FwdFree g D) :
    ∀ f env, Agree (parseLR g s f env) (parse g s f) id D := by
  intro f
  induction f with
  | zero => intro env i _ loc a c; rfl
  | succ f ih =>
    intro env i hi loc a c
    have step : parseLR g s (f + 1) env i loc a c = parseStep g s (parseLR g s f env) i loc a c := by
      simp only [parseLR]
      unfold parseStepWith parseStep
      obtain ⟨n, hn⟩ := h.present i hi
      simp only [hn]
      have hk : ∀ e, n.kind ≠ Kind.forward (some e) := fun e => h.noFwd i n e hi hn
      cases hkk : n.kind <;> first | rfl | skip
      rename_i e
      cases e with
      | none => rfl
      | some e => exact absurd hkk (hk e)
    rw [step]
    exact parseStep_rename h.sim s (ih env) i hi loc a c

end PP.Parse
