import PPModel.Mod.LineCol
/-! Helper lemmas for C14 (`col`/`lineno`/`line`). -/
namespace PP.LineCol

theorem rfindNl_some : ∀ (s : List Char) (hi i : Nat), rfindNl s hi = some i →
    i < hi ∧ s[i]? = some '\n' ∧ ∀ j, i < j → j < hi → s[j]? ≠ some '\n' := by
  intro s
  induction s with
  | nil => intro hi i h; simp [rfindNl] at h
  | cons c cs ih =>
    intro hi i h
    cases hi with
    | zero => simp [rfindNl] at h
    | succ hi =>
      simp only [rfindNl] at h
      cases hr : rfindNl cs hi with
      | some k =>
        rw [hr] at h
        simp at h
        subst h
        obtain ⟨h1, h2, h3⟩ := ih hi k hr
        refine ⟨by omega, by simpa using h2, ?_⟩
        intro j hj1 hj2
        cases j with
        | zero => omega
        | succ j => simpa using h3 j (by omega) (by omega)
      | none =>
        rw [hr] at h
        simp at h
        obtain ⟨hc, hi0⟩ := h
        subst hi0
        refine ⟨by omega, by simp [hc], ?_⟩
        intro j hj1 hj2
        cases j with
        | zero => omega
        | succ j =>
          have := rfindNl_none_aux cs hi hr j (by omega)
          simpa using this
where
  rfindNl_none_aux : ∀ (s : List Char) (hi : Nat), rfindNl s hi = none →
      ∀ j, j < hi → s[j]? ≠ some '\n' := by
    intro s
    induction s with
    | nil => intro hi _ j _; simp
    | cons c cs ih =>
      intro hi h j hj
      cases hi with
      | zero => omega
      | succ hi =>
        simp only [rfindNl] at h
        cases hr : rfindNl cs hi with
        | some k => rw [hr] at h; simp at h
        | none =>
          rw [hr] at h
          simp at h
          cases j with
          | zero => simpa using h
          | succ j => simpa using ih hi hr j (by omega)

theorem rfindNl_none (s : List Char) (hi : Nat) (h : rfindNl s hi = none) :
    ∀ j, j < hi → s[j]? ≠ some '\n' := rfindNl_some.rfindNl_none_aux s hi h

theorem findNl_some : ∀ (s : List Char) (lo j : Nat), findNl s lo = some j →
    lo ≤ j ∧ s[j]? = some '\n' ∧ ∀ i, lo ≤ i → i < j → s[i]? ≠ some '\n' := by
  intro s
  induction s with
  | nil => intro lo j h; simp [findNl] at h
  | cons c cs ih =>
    intro lo j h
    cases lo with
    | zero =>
      simp only [findNl] at h
      by_cases hc : (c == '\n') = true
      · simp [hc] at h; subst h
        refine ⟨by omega, by simpa using hc, ?_⟩
        intro i _ hi; omega
      · simp [hc] at h
        obtain ⟨k, hk, rfl⟩ := h
        obtain ⟨_, h2, h3⟩ := ih 0 k hk
        refine ⟨by omega, by simpa using h2, ?_⟩
        intro i _ hi
        cases i with
        | zero => simpa using hc
        | succ i => simpa using h3 i (by omega) (by omega)
    | succ lo =>
      simp only [findNl] at h
      simp at h
      obtain ⟨k, hk, rfl⟩ := h
      obtain ⟨h1, h2, h3⟩ := ih lo k hk
      refine ⟨by omega, by simpa using h2, ?_⟩
      intro i hi1 hi2
      cases i with
      | zero => omega
      | succ i => simpa using h3 i (by omega) (by omega)

theorem findNl_none : ∀ (s : List Char) (lo : Nat), findNl s lo = none →
    ∀ i, lo ≤ i → s[i]? ≠ some '\n' := by
  intro s
  induction s with
  | nil => intro lo _ i _; simp
  | cons c cs ih =>
    intro lo h i hi
    cases lo with
    | zero =>
      simp only [findNl] at h
      by_cases hc : (c == '\n') = true
      · simp [hc] at h
      · simp [hc] at h
        cases i with
        | zero => simpa using hc
        | succ i => simpa using ih 0 h i (by omega)
    | succ lo =>
      simp only [findNl] at h
      simp at h
      cases i with
      | zero => omega
      | succ i => simpa using ih lo h i (by omega)

theorem countNl_eq : ∀ (s : List Char) (hi : Nat), countNl s hi = (s.take hi).count '\n' := by
  intro s
  induction s with
  | nil => intro hi; simp [countNl]
  | cons c cs ih =>
    intro hi
    cases hi with
    | zero => simp [countNl]
    | succ hi =>
      simp only [countNl, List.take_succ_cons, List.count_cons, ih]
      by_cases hc : c = '\n' <;> simp [hc] <;> omega

end PP.LineCol
