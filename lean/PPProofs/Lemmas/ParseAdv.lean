import PPModel.Mod.Parse
import PPProofs.Lemmas.ParseFwd
/-
  A successful `_parse` never ends before the location it was called at — for every element of the model, by induction
  over the fuel, one lemma per helper.  Discharges the hypothesis `Fwd p` of the scan_string theorems (C08) for the
  model parser, and gives C06's "a match lies inside [loc, …]" for every call.
-/
namespace PP.Parse

/-- a successful call of `p` ends at or after its start -/
def Adv (p : P) : Prop := ∀ id loc a c e ts, p id loc a c = .ok e ts → loc ≤ e

theorem tryParse_adv {p : P} (hp : Adv p) {e loc : Nat} {rf da : Bool} {l : Nat} {ts : List Tok}
    (h : tryParse p e loc rf da = .ok l ts) : loc ≤ l := by
  unfold tryParse at h
  cases h0 : p e loc da true with
  | ok l' ts' => rw [h0] at h; simp at h; exact h.1 ▸ hp _ _ _ _ _ _ h0
  | fail c l' => rw [h0] at h; simp only at h; split at h <;> simp at h
  | idx => rw [h0] at h; simp at h
  | hang => rw [h0] at h; simp at h

theorem andRest_adv {p : P} (hp : Adv p) (isStop : Nat → Bool) (acts : Bool) (slen : Nat) :
    ∀ es stop loc acc e ts, andRest p isStop acts slen es stop loc acc = .ok e ts → loc ≤ e := by
  intro es
  induction es with
  | nil => intro _ loc acc e ts h; simp [andRest] at h; omega
  | cons x es ih =>
    intro stop loc acc e ts h
    unfold andRest at h
    split at h
    · exact ih _ _ _ _ _ h
    · cases h0 : p x loc acts true with
      | ok l ts' =>
        rw [h0] at h; simp only at h
        have := hp _ _ _ _ _ _ h0
        have := ih _ _ _ _ _ h
        omega
      | fail c l => rw [h0] at h; simp only at h; split at h <;> simp at h
      | idx => rw [h0] at h; simp only at h; split at h <;> simp at h
      | hang => rw [h0] at h; simp at h

theorem andImpl_adv {p : P} (hp : Adv p) (isStop : Nat → Bool) (acts : Bool) (slen : Nat) (es : List Nat) (loc : Nat)
    {e : Nat} {ts : List Tok} (h : andImpl p isStop acts slen es loc = .ok e ts) : loc ≤ e := by
  unfold andImpl at h
  cases es with
  | nil => simp at h
  | cons e0 rest =>
    simp only at h
    cases h0 : p e0 loc acts false with
    | ok l ts' =>
      rw [h0] at h; simp only at h
      have := hp _ _ _ _ _ _ h0
      have := andRest_adv hp _ _ _ _ _ _ _ _ _ h
      omega
    | fail c l => rw [h0] at h; simp at h
    | idx => rw [h0] at h; simp at h
    | hang => rw [h0] at h; simp at h

theorem mfGo_adv {p : P} (hp : Adv p) (acts : Bool) (slen loc : Nat) :
    ∀ es mx e ts, mfGo p acts slen loc es mx = .ok e ts → loc ≤ e := by
  intro es
  induction es with
  | nil => intro mx e ts h; cases mx <;> simp [mfGo] at h
  | cons x es ih =>
    intro mx e ts h
    unfold mfGo at h
    cases h0 : p x loc acts true with
    | ok l ts' => rw [h0] at h; simp at h; exact h.1 ▸ hp _ _ _ _ _ _ h0
    | fail c l => rw [h0] at h; cases c <;> first | exact ih _ _ _ h | simp at h
    | idx => rw [h0] at h; exact ih _ _ _ h
    | hang => rw [h0] at h; simp at h

theorem orPass2_adv {p : P} (hp : Adv p) (loc : Nat) :
    ∀ ms longest mx,
      (∀ ll lt, longest = some (ll, lt) → loc ≤ ll) →
      (∀ e ts, orPass2 p loc ms longest mx = .inl (.ok e ts) → loc ≤ e) ∧
      (∀ ll lt mx', orPass2 p loc ms longest mx = .inr (some (ll, lt), mx') → loc ≤ ll) := by
  intro ms
  induction ms with
  | nil =>
    intro longest mx hl
    unfold orPass2
    constructor
    · intro e ts h; simp at h
    · intro ll lt mx' h; simp at h; exact hl _ _ h.1
  | cons m ms ih =>
    intro longest mx hl
    rcases m with ⟨loc1, x⟩
    have step : (∀ e ts, orPass2.orStep p loc loc1 x ms longest mx = .inl (.ok e ts) → loc ≤ e) ∧
        (∀ ll lt mx', orPass2.orStep p loc loc1 x ms longest mx = .inr (some (ll, lt), mx') → loc ≤ ll) := by
      unfold orPass2.orStep
      cases h0 : p x loc true true with
      | ok l2 ts2 =>
        simp only
        have hl2 := hp _ _ _ _ _ _ h0
        by_cases hge : l2 ≥ loc1
        · simp only [hge, if_true]
          constructor
          · intro e ts h; simp at h; omega
          · intro ll lt mx' h; simp at h
        · simp only [hge, if_false]
          apply ih
          intro ll lt h
          cases longest with
          | none => simp at h; omega
          | some q =>
            rcases q with ⟨ll0, lt0⟩
            simp only at h
            split at h
            · simp at h; omega
            · exact hl _ _ h
      | fail c l =>
        cases c
        · exact ih _ _ hl
        · simp only; constructor
          · intro e ts h; simp at h
          · intro ll lt mx' h; simp at h
        · simp only; constructor
          · intro e ts h; simp at h
          · intro ll lt mx' h; simp at h
      | idx => simp only; constructor
               · intro e ts h; simp at h
               · intro ll lt mx' h; simp at h
      | hang => simp only; constructor
                · intro e ts h; simp at h
                · intro ll lt mx' h; simp at h
    unfold orPass2
    cases longest with
    | none => exact step
    | some llt =>
      rcases llt with ⟨ll0, lt0⟩
      simp only
      split
      · constructor
        · intro e ts h; simp at h; have := hl _ _ rfl; omega
        · intro ll lt mx' h; simp at h
      · exact step

theorem orAfter_notOk (fatals : List Fatal) (mx : Option Nat) (loc : Nat) (e : Nat) (ts : List Tok) :
    orAfter fatals mx loc ≠ .ok e ts := by
  unfold orAfter
  cases pickFatal fatals with
  | some f => simp
  | none => cases mx <;> simp

theorem orAt_adv {p : P} (hp : Adv p) (nameLen : Nat → Nat) (slen : Nat) (acts : Bool) (es : List Nat) (loc : Nat)
    {e : Nat} {ts : List Tok} (h : orAt p nameLen slen acts es loc = .ok e ts) : loc ≤ e := by
  unfold orAt at h
  cases h1 : orPass1 p nameLen slen loc es {} with
  | none => rw [h1] at h; simp at h
  | some a =>
    rw [h1] at h
    simp only at h
    split at h
    · exact absurd h (orAfter_notOk _ _ _ _ _)
    · split at h
      · split at h
        · exact hp _ _ _ _ _ _ h
        · simp at h
      · have h2 := orPass2_adv hp loc (sortDesc a.cands) none a.mx (by intro _ _ h; simp at h)
        generalize orPass2 p loc (sortDesc a.cands) none a.mx = r at h h2
        cases r with
        | inl o => simp only at h; subst h; exact h2.1 _ _ rfl
        | inr q =>
          rcases q with ⟨lg, mx'⟩
          cases lg with
          | none => simp only at h; exact absurd h (orAfter_notOk _ _ _ _ _)
          | some llt =>
            rcases llt with ⟨ll, lt⟩
            simp only at h
            simp at h
            exact h.1 ▸ h2.2 _ _ _ rfl

theorem orImpl_adv {p : P} (hp : Adv p) (g : Grammar) (nd : Node) (s : List Char) (acts : Bool) (es : List Nat)
    (loc : Nat) {e : Nat} {ts : List Tok} (h : orImpl p g nd s acts es loc = .ok e ts) : loc ≤ e := by
  unfold orImpl at h
  split at h
  · rename_i o hpre; subst h
    split at hpre
    · have := preParse_abort p nd s loc _ hpre; simp [Out.isOk] at this
    · simp at hpre
  · rename_i l hpre
    have h1 := orAt_adv hp _ _ _ _ _ h
    split at hpre
    · have := preParse_ge p nd s loc l hpre; omega
    · simp at hpre; omega

theorem manyLoop_adv {p : P} (hp : Adv p) (nd : Node) (acts : Bool) (slen x : Nat) (ne : Option Nat) :
    ∀ k loc acc e ts, manyLoop p nd acts slen x ne k loc acc = .ok e ts → loc ≤ e := by
  intro k
  induction k with
  | zero => intro loc acc e ts h; simp [manyLoop] at h
  | succ k ih =>
    intro loc acc e ts h
    unfold manyLoop at h
    cases hs : stopCheck p ne loc with
    | none => rw [hs] at h; simp at h
    | some b =>
      rw [hs] at h
      cases b with
      | true => simp at h; omega
      | false =>
        simp only at h
        cases hm : manyPre p nd slen loc with
        | abort o =>
          rw [hm] at h
          cases o with
          | ok e' ts' =>
            exfalso
            unfold manyPre at hm
            split at hm
            · simp at hm
            · have := skipIgnorables_abort p slen nd.ignore _ _ _ hm; simp [Out.isOk] at this
          | fail c l => cases c <;> simp at h <;> omega
          | idx => simp at h; omega
          | hang => simp at h
        | «at» preloc =>
          rw [hm] at h
          simp only at h
          cases h0 : p x preloc acts true with
          | ok l ts' =>
            rw [h0] at h; simp only at h
            split at h
            · simp at h
            · have := ih _ _ _ _ h; omega
          | fail c l => rw [h0] at h; cases c <;> simp at h <;> omega
          | idx => rw [h0] at h; simp at h; omega
          | hang => rw [h0] at h; simp at h

theorem manyImpl_adv {p : P} (hp : Adv p) (nd : Node) (acts : Bool) (slen x : Nat) (ne : Option Nat) (loc : Nat)
    {e : Nat} {ts : List Tok} (h : manyImpl p nd acts slen x ne loc = .ok e ts) : loc ≤ e := by
  unfold manyImpl at h
  simp only at h
  split at h
  · cases h0 : p x loc acts true with
    | ok l ts' =>
      rw [h0] at h; simp only at h
      have := hp _ _ _ _ _ _ h0
      have := manyLoop_adv hp _ _ _ _ _ _ _ _ _ _ h
      omega
    | fail c l => rw [h0] at h; simp at h
    | idx => rw [h0] at h; simp at h
    | hang => rw [h0] at h; simp at h
  · rename_i hne
    exact absurd h (hne _ _)

theorem ignLoop_adv {p : P} (hp : Adv p) (i : Nat) : ∀ k t r, ignLoop p i k t = .inr r → t ≤ r := by
  intro k
  induction k with
  | zero => intro t r h; simp [ignLoop] at h
  | succ k ih =>
    intro t r h
    unfold ignLoop at h
    cases h0 : tryParse p i t false false with
    | ok l ts =>
      rw [h0] at h; simp only at h
      have := tryParse_adv hp h0
      split at h
      · simp at h; omega
      · have := ih _ _ h; omega
    | fail c l => rw [h0] at h; simp at h; omega
    | idx => rw [h0] at h; simp at h
    | hang => rw [h0] at h; simp at h

theorem ignLoop_notOk {p : P} (i : Nat) : ∀ k t e ts, ignLoop p i k t ≠ .inl (.ok e ts) := by
  intro k
  induction k with
  | zero => intro t e ts; simp [ignLoop]
  | succ k ih =>
    intro t e ts
    unfold ignLoop
    cases tryParse p i t false false with
    | ok l ts' => simp only; split; simp; exact ih _ _ _
    | fail c l => simp
    | idx => simp
    | hang => simp

theorem ignStep_adv {p : P} (hp : Adv p) (slen : Nat) (ig : Option Nat) (t r : Nat)
    (h : ignStep p slen ig t = .inr r) : t ≤ r := by
  unfold ignStep at h
  cases ig with
  | none => simp at h; omega
  | some i => exact ignLoop_adv hp _ _ _ _ h

theorem ignStep_notOk {p : P} (slen : Nat) (ig : Option Nat) (t e : Nat) (ts : List Tok) :
    ignStep p slen ig t ≠ .inl (.ok e ts) := by
  unfold ignStep
  cases ig with
  | none => simp
  | some i => exact ignLoop_notOk _ _ _ _ _

theorem skipScan_adv {p : P} (hp : Adv p) (slen x : Nat) (fo ig : Option Nat) (loc0 : Nat) :
    ∀ k t, (∀ r, skipScan p slen x fo ig loc0 k t = .inr r → t ≤ r) ∧
           (∀ e ts, skipScan p slen x fo ig loc0 k t ≠ .inl (.ok e ts)) := by
  intro k
  induction k with
  | zero => intro t; simp [skipScan]
  | succ k ih =>
    intro t
    unfold skipScan
    split
    · simp
    · cases failOnCheck p fo t with
      | none => simp
      | some b =>
        cases b with
        | true => simp
        | false =>
          simp only
          cases hi : ignStep p slen ig t with
          | inl o =>
            simp only
            constructor
            · intro r h; simp at h
            · intro e ts h; simp at h; subst h; exact ignStep_notOk _ _ _ _ _ hi
          | inr t' =>
            simp only
            have ht := ignStep_adv hp _ _ _ _ hi
            cases h0 : p x t' false false with
            | ok l ts' => simp only; constructor
                          · intro r h; simp at h; omega
                          · intro e ts h; simp at h
            | fail c l =>
              cases c
              · simp only
                have := ih (t' + 1)
                constructor
                · intro r h; have := this.1 r h; omega
                · exact this.2
              · simp
              · simp
            | idx =>
              simp only
              have := ih (t' + 1)
              constructor
              · intro r h; have := this.1 r h; omega
              · exact this.2
            | hang => simp

theorem skipToImpl_adv {p : P} (hp : Adv p) (s : List Char) (acts : Bool) (x : Nat) (incl : Bool) (fo ig : Option Nat)
    (loc : Nat) {e : Nat} {ts : List Tok} (h : skipToImpl p s acts x incl fo ig loc = .ok e ts) : loc ≤ e := by
  unfold skipToImpl at h
  have hs := skipScan_adv hp s.length x fo ig loc (s.length + 2) loc
  generalize skipScan p s.length x fo ig loc (s.length + 2) loc = r at h hs
  cases r with
  | inl o => simp only at h; subst h; exact absurd rfl (hs.2 _ _)
  | inr t =>
    have ht := hs.1 t rfl
    simp only at h
    split at h
    · cases h0 : p x t acts false with
      | ok l ts' => rw [h0] at h; simp at h; have := hp _ _ _ _ _ _ h0; omega
      | fail c l => rw [h0] at h; simp at h
      | idx => rw [h0] at h; simp at h
      | hang => rw [h0] at h; simp at h
    · simp at h; omega

theorem enhanceImpl_adv {p : P} (hp : Adv p) (acts : Bool) (x : Option Nat) (loc : Nat) {e : Nat} {ts : List Tok}
    (h : enhanceImpl p acts x loc = .ok e ts) : loc ≤ e := by
  unfold enhanceImpl at h
  cases x with
  | none => simp at h
  | some x =>
    simp only at h
    cases h0 : p x loc acts false with
    | ok l ts' => rw [h0] at h; simp at h; exact h.1 ▸ hp _ _ _ _ _ _ h0
    | fail c l => rw [h0] at h; cases c <;> simp at h
    | idx => rw [h0] at h; simp at h
    | hang => rw [h0] at h; simp at h

theorem runActs_end : ∀ (as : List Act) (start e : Nat) (ts : List Tok) (e' : Nat) (ts' : List Tok),
    runActs as start e ts = .ok e' ts' → e' = e := by
  intro as
  induction as with
  | nil => intro _ _ _ _ _ h; simp [runActs] at h; exact h.1.symm
  | cons a as ih =>
    intro start e ts e' ts' h
    unfold runActs at h
    cases a <;> first | exact ih _ _ _ _ _ h | simp at h

/-! leaves -/

theorem litImpl_adv {m s : List Char} {loc e : Nat} {ts : List Tok} (h : litImpl m s loc = .ok e ts) : loc ≤ e := by
  unfold litImpl at h
  split at h
  · simp at h
  · split at h <;> simp at h; omega

theorem lit1Impl_adv {c : Char} {s : List Char} {loc e : Nat} {ts : List Tok} (h : lit1Impl c s loc = .ok e ts) :
    loc ≤ e := by
  unfold lit1Impl at h
  split at h
  · simp at h
  · split at h <;> simp at h; omega

theorem caselessLitImpl_adv {mU ret s : List Char} {loc e : Nat} {ts : List Tok}
    (h : caselessLitImpl mU ret s loc = .ok e ts) : loc ≤ e := by
  unfold caselessLitImpl at h
  split at h <;> simp at h; omega

theorem kwAfter_adv {m ident : List Char} {up : Char → Char} {s : List Char} {loc e : Nat} {ts : List Tok}
    (h : kwAfter m ident up s loc = .ok e ts) : loc ≤ e := by
  unfold kwAfter at h
  split at h
  · simp at h; omega
  · split at h
    · simp at h
    · split at h <;> simp at h; omega

theorem kwTail_adv {m ident : List Char} {up : Char → Char} {s : List Char} {loc e : Nat} {ts : List Tok}
    (h : kwTail m ident up s loc = .ok e ts) : loc ≤ e := by
  unfold kwTail at h
  split at h
  · exact kwAfter_adv h
  · split at h
    · simp at h
    · split at h
      · simp at h
      · exact kwAfter_adv h

theorem keywordImpl_adv {m ident : List Char} {cl : Bool} {s : List Char} {loc e : Nat} {ts : List Tok}
    (h : keywordImpl m ident cl s loc = .ok e ts) : loc ≤ e := by
  unfold keywordImpl at h
  split at h
  · split at h
    · exact kwTail_adv h
    · simp at h
  · split at h
    · simp at h
    · split at h
      · exact kwTail_adv h
      · simp at h

theorem wordSlowImpl_adv {init body : List Char} {mn : Nat} {mx : Option Nat} {ms kw : Bool} {s : List Char}
    {loc e : Nat} {ts : List Tok} (h : wordSlowImpl init body mn mx ms kw s loc = .ok e ts) : loc ≤ e := by
  unfold wordSlowImpl at h
  grind

theorem wordReImpl_adv {init body : List Char} {mn : Nat} {mx : Option Nat} {kw : Bool} {s : List Char}
    {loc e : Nat} {ts : List Tok} (h : wordReImpl init body mn mx kw s loc = .ok e ts) : loc ≤ e := by
  unfold wordReImpl at h
  grind

theorem charsNotInImpl_adv {notc : List Char} {mn : Nat} {mx : Option Nat} {s : List Char} {loc e : Nat}
    {ts : List Tok} (h : charsNotInImpl notc mn mx s loc = .ok e ts) : loc ≤ e := by
  unfold charsNotInImpl at h
  grind

theorem stringEndImpl_adv {s : List Char} {loc e : Nat} {ts : List Tok} (h : stringEndImpl s loc = .ok e ts) :
    loc ≤ e := by
  unfold stringEndImpl at h
  grind

theorem lineEndImpl_adv {s : List Char} {loc e : Nat} {ts : List Tok} (h : lineEndImpl s loc = .ok e ts) :
    loc ≤ e := by
  unfold lineEndImpl at h
  grind

theorem wordStartImpl_adv {cs s : List Char} {loc e : Nat} {ts : List Tok} (h : wordStartImpl cs s loc = .ok e ts) :
    loc ≤ e := by
  unfold wordStartImpl at h
  grind

theorem wordEndImpl_adv {cs s : List Char} {loc e : Nat} {ts : List Tok} (h : wordEndImpl cs s loc = .ok e ts) :
    loc ≤ e := by
  unfold wordEndImpl at h
  grind

/-- every `parseImpl` ends at or after the location it is given -/
theorem parseImpl_adv {p : P} (hp : Adv p) (g : Grammar) (nd : Node) (s : List Char) (loc : Nat) (acts : Bool)
    {e : Nat} {ts : List Tok} (h : parseImpl g p nd s loc acts = .ok e ts) : loc ≤ e := by
  unfold parseImpl at h
  cases hk : nd.kind <;> simp only [hk] at h
  case lit m => exact litImpl_adv h
  case lit1 c => exact lit1Impl_adv h
  case empty => simp at h; omega
  case errorStop => simp at h; omega
  case noMatch => simp at h
  case caselessLit mU ret => exact caselessLitImpl_adv h
  case keyword m i c => exact keywordImpl_adv h
  case word i b mn mx ms kw re =>
    split at h
    · exact wordReImpl_adv h
    · exact wordSlowImpl_adv h
  case charsNotIn n mn mx => exact charsNotInImpl_adv h
  case stringStart =>
    split at h
    · simp at h; omega
    · split at h
      · split at h <;> simp at h; omega
      · rename_i o hpre; subst h
        have := preParse_abort p nd s 0 _ hpre; simp [Out.isOk] at this
  case stringEnd => exact stringEndImpl_adv h
  case lineStart w nl => split at h <;> simp at h; omega
  case lineEnd => exact lineEndImpl_adv h
  case wordStart cs => exact wordStartImpl_adv h
  case wordEnd cs => exact wordEndImpl_adv h
  case and es => exact andImpl_adv hp _ _ _ _ _ h
  case matchFirst es => exact mfGo_adv hp _ _ _ _ _ _ _ h
  case or es => exact orImpl_adv hp _ _ _ _ _ _ h
  case opt x d =>
    cases h0 : p x loc acts false with
    | ok l ts' => rw [h0] at h; simp at h; exact h.1 ▸ hp _ _ _ _ _ _ h0
    | fail c l => rw [h0] at h; cases c <;> simp at h <;> omega
    | idx => rw [h0] at h; simp at h; omega
    | hang => rw [h0] at h; simp at h
  case many x ne one =>
    split at h
    · exact manyImpl_adv hp _ _ _ _ _ _ h
    · cases hm : manyImpl p nd acts s.length x ne loc with
      | ok l ts' => rw [hm] at h; simp at h; exact h.1 ▸ manyImpl_adv hp _ _ _ _ _ _ hm
      | fail c l => rw [hm] at h; cases c <;> simp at h <;> omega
      | idx => rw [hm] at h; simp at h; omega
      | hang => rw [hm] at h; simp at h
  case notAny x =>
    cases hc : canParseNext p x loc acts with
    | none => rw [hc] at h; simp at h
    | some b => rw [hc] at h; cases b <;> simp at h; omega
  case followedBy x =>
    cases h0 : p x loc acts true with
    | ok l ts' => rw [h0] at h; simp at h; omega
    | fail c l => rw [h0] at h; simp at h
    | idx => rw [h0] at h; simp at h
    | hang => rw [h0] at h; simp at h
  case located x =>
    cases h0 : p x loc acts false with
    | ok l ts' => rw [h0] at h; simp at h; exact h.1 ▸ hp _ _ _ _ _ _ h0
    | fail c l => rw [h0] at h; simp at h
    | idx => rw [h0] at h; simp at h
    | hang => rw [h0] at h; simp at h
  case group x => exact enhanceImpl_adv hp _ _ _ h
  case suppress x => exact enhanceImpl_adv hp _ _ _ h
  case combine x j => exact enhanceImpl_adv hp _ _ _ h
  case enhance x => exact enhanceImpl_adv hp _ _ _ h
  case forward x => exact enhanceImpl_adv hp _ _ _ h
  case skipTo x incl fo ig => exact skipToImpl_adv hp _ _ _ _ _ _ _ h

theorem parseStep_adv (g : Grammar) (s : List Char) {p : P} (hp : Adv p) : Adv (parseStep g s p) := by
  intro id loc a c e ts h
  unfold parseStep at h
  cases hg : g[id]? with
  | none => rw [hg] at h; simp at h
  | some nd =>
    rw [hg] at h
    simp only at h
    split at h
    · rename_i o hpre; subst h
      split at hpre
      · have := preParse_abort p nd s loc _ hpre; simp [Out.isOk] at this
      · simp at hpre
    · rename_i pre hpre
      have hpl : loc ≤ pre := by
        split at hpre
        · exact preParse_ge p nd s loc pre hpre
        · simp at hpre; omega
      cases hi : parseImpl g p nd s pre a with
      | ok e' ts' =>
        rw [hi] at h
        simp only at h
        have he := parseImpl_adv hp g nd s pre a hi
        split at h
        · have := runActs_end _ _ _ _ _ _ h; omega
        · simp at h; omega
      | fail c' l => rw [hi] at h; simp at h
      | idx =>
        rw [hi] at h
        by_cases hc : (nd.mayIdx || decide (pre ≥ s.length)) = true <;> simp [hc] at h
      | hang => rw [hi] at h; simp at h

/-- **every successful parse moves forward**: for every grammar, input, fuel and call -/
theorem parse_adv (g : Grammar) (s : List Char) : ∀ f, Adv (parse g s f) := by
  intro f
  induction f with
  | zero => intro _ _ _ _ _ _ h; simp [parse] at h
  | succ f ih => exact parseStep_adv g s ih

end PP.Parse
