import PPModel.Mod.Infix
/-!
# C16 — closure-level lemmas about `parseStepX` on the nodes `infixGrammar` is made of
-/
namespace PP.Infix
open PP.Parse

/-! ### strings -/

theorem takeWhile_white_length {W : List Char} (ws x : List Char)
    (hws : ∀ c ∈ ws, c ∈ W) (hx : ∀ c, x.head? = some c → c ∉ W) :
    ((ws ++ x).takeWhile (mem · W)).length = ws.length := by
  induction ws with
  | nil =>
    cases x with
    | nil => rfl
    | cons c cs =>
      have : c ∉ W := hx c rfl
      simp [mem, this]
  | cons c cs ih =>
    have hc : c ∈ W := hws c (by simp)
    simp only [List.cons_append, List.takeWhile, mem, List.elem_eq_mem, decide_eq_true hc, List.length_cons]
    rw [← ih (fun d hd => hws d (by simp [hd]))]
    simp [mem]

theorem skipWhite_eq {W s : List Char} {loc : Nat} {ws x : List Char}
    (h : s.drop loc = ws ++ x) (hws : ∀ c ∈ ws, c ∈ W) (hx : ∀ c, x.head? = some c → c ∉ W) :
    skipWhite W s loc = loc + ws.length := by
  unfold skipWhite
  rw [h, takeWhile_white_length ws x hws hx]

theorem drop_add {s : List Char} {loc : Nat} {a b : List Char} (h : s.drop loc = a ++ b) :
    s.drop (loc + a.length) = b := by
  rw [← List.drop_drop, h, List.drop_left]

theorem getElem?_of_drop {s : List Char} {loc : Nat} {c : Char} {r : List Char} (h : s.drop loc = c :: r) :
    s[loc]? = some c := by
  have := congrArg (·[0]?) h
  simpa using this

theorem getElem?_none_of_drop {s : List Char} {loc : Nat} (h : s.drop loc = []) : s[loc]? = none := by
  rw [List.drop_eq_nil_iff] at h
  simp [h]

theorem length_le_of_drop_nil {s : List Char} {loc : Nat} (h : s.drop loc = []) : s.length ≤ loc :=
  List.drop_eq_nil_iff.mp h

theorem startsWithAt_iff (s m : List Char) (loc : Nat) : startsWithAt s m loc = true ↔ m <+: s.drop loc := by
  unfold startsWithAt
  rw [beq_iff_eq, List.prefix_iff_eq_take]
  exact eq_comm


/-! ### one `_parseNoCache` step on a plain node -/

section step
variable (fb : List Nat) (g : Grammar) (s : List Char)

/-- where the node starts matching: after its own pre-parse -/
def preOf (W : List Char) (s : List Char) (c cp : Bool) (loc : Nat) : Nat :=
  if c && cp then skipWhite W s loc else loc

/-- post-processing of `_parseNoCache` for a node without parse actions -/
def fin (nd : Node) (slen pre : Nat) (r : Out) : Out :=
  match (match r with
    | .idx => if nd.mayIdx || pre ≥ slen then Out.fail .parse slen else .idx
    | r => r) with
  | .ok e ts => .ok e (postParse nd ts)
  | o => o

theorem stepX_plain {W : List Char} {k : Kind} {mi cp : Bool} {p : P} {id loc : Nat} {a c : Bool}
    (hfb : fb.elem id = false) (hg : g[id]? = some (mkNode W k mi cp))
    (hk : ∀ w nl, k ≠ .lineStart w nl) :
    parseStepX fb g s p id loc a c =
      fin (mkNode W k mi cp) s.length (preOf W s c cp loc)
        (parseImpl g p (mkNode W k mi cp) s (preOf W s c cp loc) a) := by
  unfold parseStepX
  rw [hfb]
  simp only [Bool.false_eq_true, if_false]
  unfold parseStep
  rw [hg]
  simp only
  have hpre : (if (c && (mkNode W k mi cp).callPre) = true then preParse p (mkNode W k mi cp) s loc else PreR.at loc)
      = PreR.at (preOf W s c cp loc) := by
    unfold preOf
    by_cases hc : (c && cp) = true
    · have : (c && (mkNode W k mi cp).callPre) = true := by simpa [mkNode] using hc
      rw [if_pos this, if_pos hc]
      unfold preParse
      cases k <;> first | (exfalso; exact hk _ _ rfl) | simp [mkNode]
    · have : ¬ (c && (mkNode W k mi cp).callPre) = true := by simpa [mkNode] using hc
      rw [if_neg this, if_neg hc]
  rw [hpre]
  simp only [fin]
  cases parseImpl g p (mkNode W k mi cp) s (preOf W s c cp loc) a <;> simp [mkNode]
  by_cases hc : mi = true ∨ s.length ≤ preOf W s c cp loc <;> simp [hc]

end step

/-! ### leaves -/

theorem takeWhile_length_gen (ok : Char → Bool) (w x : List Char)
    (hw : ∀ c ∈ w, ok c = true) (hx : ∀ c, x.head? = some c → ok c = false) :
    ((w ++ x).takeWhile ok).length = w.length := by
  induction w with
  | nil =>
    cases x with
    | nil => rfl
    | cons c cs => simp [hx c rfl]
  | cons c cs ih =>
    have hc : ok c = true := hw c (by simp)
    simp only [List.cons_append, List.takeWhile, hc, List.length_cons]
    rw [ih (fun d hd => hw d (by simp [hd]))]

theorem slice_eq {s : List Char} {q : Nat} {w rest : List Char} (h : s.drop q = w ++ rest) :
    slice s q (q + w.length) = w := by
  unfold slice
  rw [List.drop_take, h]
  simp

theorem runLen_eq (ok : Char → Bool) {s : List Char} {q : Nat} {w rest : List Char} (h : s.drop q = w ++ rest)
    (hw : ∀ c ∈ w, ok c = true) (hx : ∀ c, rest.head? = some c → ok c = false) :
    runLen ok s q s.length = w.length := by
  unfold runLen
  have hlen : (s.drop q).length ≤ s.length := by simp
  rw [List.take_of_length_le hlen, h]
  exact takeWhile_length_gen ok w rest hw hx

section leaves
variable (fb : List Nat) (g : Grammar) (s : List Char)

theorem lit_ok {W m rest : List Char} {p : P} {id loc q : Nat} {a c : Bool}
    (hfb : fb.elem id = false) (hg : g[id]? = some (mkNode W (litKind m) false true))
    (hq : preOf W s c true loc = q) (hm : m ≠ []) (hs : s.drop q = m ++ rest) :
    parseStepX fb g s p id loc a c = .ok (q + m.length) [.s m] := by
  have hk : ∀ w nl, litKind m ≠ .lineStart w nl := by
    intro w nl; unfold litKind; split <;> simp
  rw [stepX_plain fb g s hfb hg hk, hq]
  obtain ⟨c0, m', rfl⟩ := List.exists_cons_of_ne_nil hm
  have h0 : s[q]? = some c0 := getElem?_of_drop hs
  cases m' with
  | nil =>
    simp [litKind, parseImpl, mkNode, lit1Impl, h0, fin, postParse]
  | cons c1 m'' =>
    have hsw : startsWithAt s (c0 :: c1 :: m'') q = true := (startsWithAt_iff _ _ _).mpr ⟨rest, hs.symm⟩
    simp [litKind, parseImpl, mkNode, litImpl, h0, hsw, fin, postParse]

theorem lit_fail {W m : List Char} {p : P} {id loc q : Nat} {a c : Bool}
    (hfb : fb.elem id = false) (hg : g[id]? = some (mkNode W (litKind m) false true))
    (hq : preOf W s c true loc = q) (hm : m ≠ []) (hs : ¬ m <+: s.drop q) :
    ∃ l, parseStepX fb g s p id loc a c = .fail .parse l := by
  have hk : ∀ w nl, litKind m ≠ .lineStart w nl := by
    intro w nl; unfold litKind; split <;> simp
  rw [stepX_plain fb g s hfb hg hk, hq]
  obtain ⟨c0, m', rfl⟩ := List.exists_cons_of_ne_nil hm
  cases hd : s.drop q with
  | nil =>
    have h0 : s[q]? = none := getElem?_none_of_drop hd
    have hl : s.length ≤ q := length_le_of_drop_nil hd
    cases m' with
    | nil => exact ⟨s.length, by simp [litKind, parseImpl, mkNode, lit1Impl, h0, fin, hl]⟩
    | cons c1 m'' => exact ⟨s.length, by simp [litKind, parseImpl, mkNode, litImpl, h0, fin, hl]⟩
  | cons d r =>
    have h0 : s[q]? = some d := getElem?_of_drop hd
    cases m' with
    | nil =>
      have hne : d ≠ c0 := by
        intro e; apply hs; rw [hd, e]; exact ⟨r, rfl⟩
      exact ⟨q, by simp [litKind, parseImpl, mkNode, lit1Impl, h0, fin, hne]⟩
    | cons c1 m'' =>
      have hsw : startsWithAt s (c0 :: c1 :: m'') q = false := by
        cases h : startsWithAt s (c0 :: c1 :: m'') q with
        | false => rfl
        | true => exact absurd ((startsWithAt_iff _ _ _).mp h) hs
      exact ⟨q, by simp [litKind, parseImpl, mkNode, litImpl, h0, hsw, fin]⟩

theorem word_ok {W cs w rest : List Char} {re : Bool} {p : P} {id loc q : Nat} {a c : Bool}
    (hfb : fb.elem id = false) (hg : g[id]? = some (mkNode W (.word cs cs 1 none false false re) false true))
    (hq : preOf W s c true loc = q) (hw : w ≠ []) (hs : s.drop q = w ++ rest)
    (hin : ∀ d ∈ w, d ∈ cs) (hout : ∀ d, rest.head? = some d → d ∉ cs) :
    parseStepX fb g s p id loc a c = .ok (q + w.length) [.s w] := by
  rw [stepX_plain fb g s hfb hg (by intro w nl; simp), hq]
  obtain ⟨c0, w', rfl⟩ := List.exists_cons_of_ne_nil hw
  have h0 : s[q]? = some c0 := getElem?_of_drop hs
  have hc0 : mem c0 cs = true := by simpa [mem] using hin c0 (by simp)
  have hs1 : s.drop (q + 1) = w' ++ rest := by
    have := drop_add (a := [c0]) (b := w' ++ rest) (by simpa using hs)
    simpa using this
  have hrun : runLen (fun x => mem x cs) s (q + 1) s.length = w'.length :=
    runLen_eq _ hs1 (fun d hd => by simpa [mem] using hin d (by simp [hd]))
      (fun d hd => by simpa [mem] using hout d hd)
  have hsl : slice s q (q + 1 + w'.length) = c0 :: w' := by
    have := slice_eq hs
    simpa [Nat.add_assoc, Nat.add_comm 1] using this
  cases re <;>
    simp [parseImpl, mkNode, wordReImpl, wordSlowImpl, h0, hc0, hrun, hsl, fin, postParse]
  · have h1 : ¬ (q + 1 + w'.length - q = 0) := by omega
    simp only [h1, if_false]
    congr 1; omega
  · omega

theorem word_fail {W cs : List Char} {re : Bool} {p : P} {id loc q : Nat} {a c : Bool}
    (hfb : fb.elem id = false) (hg : g[id]? = some (mkNode W (.word cs cs 1 none false false re) false true))
    (hq : preOf W s c true loc = q) (hout : ∀ d, (s.drop q).head? = some d → d ∉ cs) :
    ∃ l, parseStepX fb g s p id loc a c = .fail .parse l := by
  rw [stepX_plain fb g s hfb hg (by intro w nl; simp), hq]
  cases hd : s.drop q with
  | nil =>
    have h0 : s[q]? = none := getElem?_none_of_drop hd
    have hl : s.length ≤ q := length_le_of_drop_nil hd
    cases re
    · exact ⟨s.length, by simp [parseImpl, mkNode, wordSlowImpl, h0, fin, hl]⟩
    · exact ⟨q, by simp [parseImpl, mkNode, wordReImpl, h0, fin]⟩
  | cons d r =>
    have h0 : s[q]? = some d := getElem?_of_drop hd
    have hne : mem d cs = false := by
      have := hout d (by rw [hd]; rfl)
      simpa [mem] using this
    cases re
    · exact ⟨q, by simp [parseImpl, mkNode, wordSlowImpl, h0, fin, hne]⟩
    · exact ⟨q, by simp [parseImpl, mkNode, wordReImpl, h0, fin, hne]⟩

end leaves

/-! ### combinators -/

section comb
variable (fb : List Nat) (g : Grammar) (s : List Char)

theorem forward_ok {W : List Char} {p : P} {id e loc l : Nat} {a c : Bool} {ts : List Tok}
    (hfb : fb.elem id = false) (hg : g[id]? = some (mkNode W (.forward (some e)) true true))
    (h : p e (preOf W s c true loc) a false = .ok l ts) :
    parseStepX fb g s p id loc a c = .ok l ts := by
  rw [stepX_plain fb g s hfb hg (by intro w nl; simp)]
  simp [parseImpl, mkNode, enhanceImpl, h, fin, postParse]

theorem group_ok {W : List Char} {p : P} {id e loc l : Nat} {a c : Bool} {ts : List Tok}
    (hfb : fb.elem id = false) (hg : g[id]? = some (mkNode W (.group e) true true))
    (h : p e (preOf W s c true loc) a false = .ok l ts) :
    parseStepX fb g s p id loc a c = .ok l [.g ts] := by
  rw [stepX_plain fb g s hfb hg (by intro w nl; simp)]
  simp [parseImpl, mkNode, enhanceImpl, h, fin, postParse]

theorem suppress_ok {W : List Char} {p : P} {id e loc l : Nat} {a c : Bool} {ts : List Tok}
    (hfb : fb.elem id = false) (hg : g[id]? = some (mkNode W (.suppress e) false true))
    (h : p e (preOf W s c true loc) a false = .ok l ts) :
    parseStepX fb g s p id loc a c = .ok l [] := by
  rw [stepX_plain fb g s hfb hg (by intro w nl; simp)]
  simp [parseImpl, mkNode, enhanceImpl, h, fin, postParse]

theorem suppress_fail {W : List Char} {p : P} {id e loc l : Nat} {a c : Bool}
    (hfb : fb.elem id = false) (hg : g[id]? = some (mkNode W (.suppress e) false true))
    (h : p e (preOf W s c true loc) a false = .fail .parse l) :
    ∃ l', parseStepX fb g s p id loc a c = .fail .parse l' := by
  rw [stepX_plain fb g s hfb hg (by intro w nl; simp)]
  refine ⟨if l = 0 then preOf W s c true loc else l, ?_⟩
  simp [parseImpl, mkNode, enhanceImpl, h, fin]

theorem opt_ok {W : List Char} {p : P} {id e loc l : Nat} {a c : Bool} {ts : List Tok}
    (hfb : fb.elem id = false) (hg : g[id]? = some (mkNode W (.opt e none) false true))
    (h : p e (preOf W s c true loc) a false = .ok l ts) :
    parseStepX fb g s p id loc a c = .ok l ts := by
  rw [stepX_plain fb g s hfb hg (by intro w nl; simp)]
  simp [parseImpl, mkNode, h, fin, postParse]

/-- a `MatchFirst` node: no pre-parse of its own (callPreparse = False), alternatives tried in order -/
theorem mf_eq {W : List Char} {p : P} {id loc : Nat} {a c : Bool} {es : List Nat}
    (hfb : fb.elem id = false) (hg : g[id]? = some (mkNode W (.matchFirst es) true false)) :
    parseStepX fb g s p id loc a c
      = fin (mkNode W (.matchFirst es) true false) s.length loc (mfGo p a s.length loc es none) := by
  rw [stepX_plain fb g s hfb hg (by intro w nl; simp)]
  simp [parseImpl, mkNode, preOf]

theorem mfGo_ne_idx (p : P) (a : Bool) (slen loc : Nat) : ∀ es mx, mfGo p a slen loc es mx ≠ .idx := by
  intro es
  induction es with
  | nil => intro mx; cases mx <;> simp [mfGo]
  | cons e es ih =>
    intro mx
    unfold mfGo
    cases hp : p e loc a true with
    | ok l ts => simp
    | fail c l => cases c <;> simp [ih]
    | idx => simp [ih]
    | hang => simp

theorem mf_ok {W : List Char} {p : P} {id loc l : Nat} {a c : Bool} {es : List Nat} {ts : List Tok}
    (hfb : fb.elem id = false) (hg : g[id]? = some (mkNode W (.matchFirst es) true false))
    (h : mfGo p a s.length loc es none = .ok l ts) :
    parseStepX fb g s p id loc a c = .ok l ts := by
  rw [mf_eq fb g s hfb hg, h]
  simp [fin, postParse, mkNode]

/-- inversion: an `ok` of the MatchFirst node is an `ok` of its alternatives loop -/
theorem mf_ok_inv {W : List Char} {p : P} {id loc l : Nat} {a c : Bool} {es : List Nat} {ts : List Tok}
    (hfb : fb.elem id = false) (hg : g[id]? = some (mkNode W (.matchFirst es) true false))
    (h : parseStepX fb g s p id loc a c = .ok l ts) :
    mfGo p a s.length loc es none = .ok l ts := by
  rw [mf_eq fb g s hfb hg] at h
  cases hm : mfGo p a s.length loc es none with
  | ok l' ts' => rw [hm] at h; simpa [fin, postParse, mkNode] using h
  | fail c l' => rw [hm] at h; simp [fin] at h
  | idx => exact absurd hm (mfGo_ne_idx _ _ _ _ _ _)
  | hang => rw [hm] at h; simp [fin] at h

theorem mfGo_ok_mx (p : P) (a : Bool) (slen loc : Nat) {l : Nat} {ts : List Tok} :
    ∀ es mx mx', mfGo p a slen loc es mx = .ok l ts → mfGo p a slen loc es mx' = .ok l ts := by
  intro es
  induction es with
  | nil => intro mx mx' h; cases mx <;> simp [mfGo] at h
  | cons e es ih =>
    intro mx mx' h
    unfold mfGo at h ⊢
    cases hp : p e loc a true with
    | ok l1 ts1 => rw [hp] at h; exact h
    | fail c l1 =>
      rw [hp] at h
      cases c <;> first | exact ih _ _ h | simp at h
    | idx => rw [hp] at h; exact ih _ _ h
    | hang => rw [hp] at h; simp at h

theorem mfGo_head_ok {p : P} {a : Bool} {slen loc e l : Nat} {ts : List Tok} (es : List Nat) (mx : Option Nat)
    (h : p e loc a true = .ok l ts) : mfGo p a slen loc (e :: es) mx = .ok l ts := by
  unfold mfGo; rw [h]

theorem mfGo_skip {p : P} {a : Bool} {slen loc e l0 : Nat} (es : List Nat) (mx : Option Nat)
    (h : p e loc a true = .fail .parse l0) :
    ∃ mx', mfGo p a slen loc (e :: es) mx = mfGo p a slen loc es mx' := by
  refine ⟨(match mx with
        | none => some l0
        | some m => if l0 > m then some l0 else some m), ?_⟩
  conv => lhs; unfold mfGo
  simp only [h]
  try rfl

/-- an `And` node -/
theorem and_eq {W : List Char} {p : P} {id loc : Nat} {a c : Bool} {es : List Nat}
    (hfb : fb.elem id = false) (hg : g[id]? = some (mkNode W (.and es) true true))
    (hns : ∀ (i : Nat) (nd : Node), g[i]? = some nd → nd.kind ≠ Kind.errorStop) :
    parseStepX fb g s p id loc a c
      = fin (mkNode W (.and es) true true) s.length (preOf W s c true loc)
          (andImpl p (fun _ => false) a s.length es (preOf W s c true loc)) := by
  rw [stepX_plain fb g s hfb hg (by intro w nl; simp)]
  congr 1
  simp only [parseImpl, mkNode]
  congr 1
  funext i
  cases hi : g[i]? with
  | none => rfl
  | some n =>
    have := hns i n hi
    cases hk : n.kind <;> first | exact absurd hk this | simp [hk]

theorem fin_and_ok {W : List Char} {es : List Nat} {slen pre l : Nat} {ts : List Tok} :
    fin (mkNode W (.and es) true true) slen pre (.ok l ts) = .ok l ts := by
  simp [fin, postParse, mkNode]

theorem fin_and_fail {W : List Char} {es : List Nat} {slen pre l : Nat} :
    fin (mkNode W (.and es) true true) slen pre (.fail .parse l) = .fail .parse l := by
  simp [fin]

theorem andRest_cons_ok {p : P} {a : Bool} {slen e loc l : Nat} {ts : List Tok} (es : List Nat) (stop : Bool)
    (acc : List Tok) (h : p e loc a true = .ok l ts) :
    andRest p (fun _ => false) a slen (e :: es) stop loc acc = andRest p (fun _ => false) a slen es stop l (acc ++ ts) := by
  simp [andRest, h]

theorem andRest_cons_fail {p : P} {a : Bool} {slen e loc l : Nat} (es : List Nat)
    (acc : List Tok) (h : p e loc a true = .fail .parse l) :
    andRest p (fun _ => false) a slen (e :: es) false loc acc = .fail .parse l := by
  simp [andRest, h]

/-- the captive `_FB` lookahead -/
theorem fb_eq {W : List Char} {p : P} {id e loc : Nat} {a c : Bool}
    (hfb : fb.elem id = true) (hg : g[id]? = some (mkNode W (.followedBy e) true true)) :
    parseStepX fb g s p id loc a c =
      (match p e (preOf W s c true loc) false true with
       | .ok _ _ => .ok (preOf W s c true loc) []
       | .fail .parse l => .fail .parse l
       | .fail _ _ => .fail .parse (preOf W s c true loc)
       | .idx => .fail .parse s.length
       | .hang => .hang) := by
  unfold parseStepX
  rw [hfb, hg]
  simp only [if_true, mkNode, Bool.and_true]
  by_cases hc : c = true
  · subst hc
    simp only [preOf, Bool.and_self, if_true, preParse, List.isEmpty_nil]
    cases hp : p e (skipWhite W s loc) false true with
    | ok l ts => simp [fbImpl, tryParse, hp, postParse]
    | fail cl l => cases cl <;> simp [fbImpl, tryParse, hp, Exc.isFatal]
    | idx => simp [fbImpl, tryParse, hp]
    | hang => simp [fbImpl, tryParse, hp]
  · have hc' : c = false := by cases c <;> simp_all
    subst hc'
    simp only [preOf, Bool.false_and, Bool.false_eq_true, if_false]
    cases hp : p e loc false true with
    | ok l ts => simp [fbImpl, tryParse, hp, postParse]
    | fail cl l => cases cl <;> simp [fbImpl, tryParse, hp, Exc.isFatal]
    | idx => simp [fbImpl, tryParse, hp]
    | hang => simp [fbImpl, tryParse, hp]

/-- `OneOrMore` -/
theorem many_eq {W : List Char} {p : P} {id e loc : Nat} {a c mi : Bool}
    (hfb : fb.elem id = false) (hg : g[id]? = some (mkNode W (.many e none true) mi true)) :
    parseStepX fb g s p id loc a c
      = fin (mkNode W (.many e none true) mi true) s.length (preOf W s c true loc)
          (manyImpl p (mkNode W (.many e none true) mi true) a s.length e none (preOf W s c true loc)) := by
  rw [stepX_plain fb g s hfb hg (by intro w nl; simp)]
  simp [parseImpl, mkNode]

theorem manyLoop_stop {p : P} {nd : Node} {a : Bool} {slen e loc l0 k : Nat} (acc : List Tok)
    (hign : nd.ignore = []) (h : p e loc a true = .fail .parse l0) :
    manyLoop p nd a slen e none (k + 1) loc acc = .ok loc acc := by
  simp [manyLoop, stopCheck, manyPre, hign, h]

theorem manyLoop_step {p : P} {nd : Node} {a : Bool} {slen e loc l k : Nat} {ts : List Tok} (acc : List Tok)
    (hign : nd.ignore = []) (h : p e loc a true = .ok l ts) (hl : loc < l) :
    manyLoop p nd a slen e none (k + 1) loc acc = manyLoop p nd a slen e none k l (acc ++ ts) := by
  have : ¬ l ≤ loc := by omega
  simp [manyLoop, stopCheck, manyPre, hign, h, this]

end comb

end PP.Infix
