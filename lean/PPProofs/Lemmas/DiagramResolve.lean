import PPProofs.Lemmas.DiagramBounds
/-! Helper lemmas for C20: on a filled heap without dangling references whose references decrease a
    rank bounded by the heap size, `resolve` (fuel `|heap|+1`) yields a tree without `None` / `""`. -/
namespace PP.Diagram

def slotsOf : Kw → List Slot
  | .leaf => []
  | .item v => [v]
  | .items l => l

/-- every reference stored in a partial decreases `rank` -/
def RankedHeap (heap : List PNode) (rank : Nat → Nat) : Prop :=
  ∀ r n, heap[r]? = some n → ∀ c, Slot.ref c ∈ slotsOf n.kw → rank c < rank r

/-- executable form -/
def rankedHeapB (heap : List PNode) (rank : Nat → Nat) : Bool :=
  (List.range heap.length).all (fun r =>
    match heap[r]? with
    | some n => (slotsOf n.kw).all (fun v =>
        match v with
        | .ref c => decide (rank c < rank r)
        | _ => true)
    | none => true)

theorem rankedHeap_of_B {heap : List PNode} {rank : Nat → Nat} (h : rankedHeapB heap rank = true) :
    RankedHeap heap rank := by
  intro r n hn c hc
  unfold rankedHeapB at h
  rw [List.all_eq_true] at h
  have := h r (List.mem_range.mpr (List.getElem?_eq_some_iff.mp hn).1)
  rw [hn] at this
  simp only [List.all_eq_true] at this
  have := this _ hc
  simpa using this

theorem hasRawL_false (ts : List Tree) (h : ∀ t ∈ ts, t.hasRaw = false) : Tree.hasRawL ts = false := by
  induction ts with
  | nil => simp [Tree.hasRawL]
  | cons a as ih =>
    simp only [Tree.hasRawL, Bool.or_eq_false_iff]
    exact ⟨h a (List.mem_cons_self ..), ih (fun t ht => h t (List.mem_cons_of_mem _ ht))⟩

theorem resolve_noRaw (heap : List PNode) (hfill : ∀ nd ∈ heap, nd.kw.filled = true)
    (hB : ∀ nd ∈ heap, nd.kw.inB heap.length = true) (rank : Nat → Nat) (hr : RankedHeap heap rank) :
    ∀ f c, c < heap.length → rank c < f → (resolve heap f (.ref c)).hasRaw = false := by
  intro f
  induction f with
  | zero => intro c _ h; exact absurd h (by omega)
  | succ f ih =>
    intro c hc hrk
    have hn := List.getElem?_eq_getElem hc
    generalize heap[c] = n at hn
    have hmem : n ∈ heap := List.mem_of_getElem? hn
    have hf := hfill n hmem
    have hb := hB n hmem
    have hrn := hr c n hn
    unfold resolve
    simp only [hn]
    have key : ∀ v ∈ slotsOf n.kw, (resolve heap f v).hasRaw = false := by
      intro v hv
      cases v with
      | none =>
        exfalso
        cases hk : n.kw with
        | leaf => rw [hk] at hv; simp [slotsOf] at hv
        | item w => rw [hk] at hv hf; simp only [slotsOf, List.mem_singleton] at hv; subst hv; simp [Kw.filled, Slot.isRef] at hf
        | items l =>
          rw [hk] at hv hf
          simp only [Kw.filled, List.all_eq_true] at hf
          have := hf _ hv
          simp [Slot.isRef] at this
      | empty =>
        exfalso
        cases hk : n.kw with
        | leaf => rw [hk] at hv; simp [slotsOf] at hv
        | item w => rw [hk] at hv hf; simp only [slotsOf, List.mem_singleton] at hv; subst hv; simp [Kw.filled, Slot.isRef] at hf
        | items l =>
          rw [hk] at hv hf
          simp only [Kw.filled, List.all_eq_true] at hf
          have := hf _ hv
          simp [Slot.isRef] at this
      | ref c' =>
        have hlt : c' < heap.length := by
          cases hk : n.kw with
          | leaf => rw [hk] at hv; simp [slotsOf] at hv
          | item w =>
            rw [hk] at hv hb
            simp only [slotsOf, List.mem_singleton] at hv
            subst hv
            simpa [Kw.inB, Slot.inB] using hb
          | items l =>
            rw [hk] at hv hb
            simp only [Kw.inB, List.all_eq_true] at hb
            have := hb _ hv
            simpa [Slot.inB] using this
        exact ih c' hlt (by have := hrn c' hv; omega)
    cases hk : n.kw with
    | leaf => simp [Tree.hasRaw, Tree.hasRawL]
    | item v =>
      simp only [Tree.hasRaw]
      refine hasRawL_false _ ?_
      intro t ht
      simp only [List.mem_singleton] at ht
      subst ht
      exact key v (by rw [hk]; simp [slotsOf])
    | items l =>
      simp only [Tree.hasRaw]
      refine hasRawL_false _ ?_
      intro t ht
      obtain ⟨v, hv, rfl⟩ := List.mem_map.mp ht
      exact key v (by rw [hk]; exact hv)

/-- the height of a partial, computed with a fuel (a valid rank whenever the heap is acyclic) -/
def heightOf (heap : List PNode) : Nat → Nat → Nat
  | 0, _ => 0
  | f + 1, r =>
    match heap[r]? with
    | none => 0
    | some n => ((slotsOf n.kw).map (fun v =>
        match v with
        | .ref c => heightOf heap f c + 1
        | _ => 0)).foldl max 0

end PP.Diagram
