import PPProofs.Props.C01SemDef
import PPProofs.Props.C01
import PPProofs.Lemmas.ParseBound
/-!
Helper lemmas for `Props/C01Sem.lean`: each loop helper of the transcribed algorithm agrees with the corresponding
task of the declarative reading, for every behaviour `p` of the sub-expressions that agrees with it.
-/
namespace PP.Parse

/-- the recursive call agrees with the reading on every node task -/
def AgreeP (g : Grammar) (s : List Char) (p : P) : Prop :=
  ∀ id loc a cp, Agrees g s (.node id loc cp) (p id loc a cp)

@[simp] theorem agrees_ok (g : Grammar) (s : List Char) (t : Task) (e : Nat) (ts : List Tok) :
    Agrees g s t (.ok e ts) = Sem g s t (some (e, ts)) := rfl
@[simp] theorem agrees_fail (g : Grammar) (s : List Char) (t : Task) (c : Exc) (l : Nat) :
    Agrees g s t (.fail c l) = (c = .parse ∧ Sem g s t none) := rfl
@[simp] theorem agrees_idx (g : Grammar) (s : List Char) (t : Task) : Agrees g s t .idx = False := rfl
@[simp] theorem agrees_hang (g : Grammar) (s : List Char) (t : Task) : Agrees g s t .hang = True := rfl

/-- transport along a derivation step that keeps the result: if `o` agrees with `t`, and every result of `t` is a
    result of `t'`, then `o` agrees with `t'` -/
theorem Agrees.lift {g : Grammar} {s : List Char} {t t' : Task} (hl : ∀ r, Sem g s t r → Sem g s t' r) :
    ∀ {o : Out}, Agrees g s t o → Agrees g s t' o
  | .ok _ _, h => hl _ h
  | .fail _ _, h => ⟨h.1, hl _ h.2⟩
  | .idx, h => h
  | .hang, _ => trivial

theorem andRest_sound {g : Grammar} {s : List Char} {p : P} (hp : AgreeP g s p) (isStop : Nat → Bool)
    (hns : ∀ e, isStop e = false) (a : Bool) (slen : Nat) :
    ∀ es loc acc, Agrees g s (.seq es loc acc) (andRest p isStop a slen es false loc acc) := by
  intro es
  induction es with
  | nil => intro loc acc; simp only [andRest, agrees_ok]; exact .seqNil
  | cons e es ih =>
    intro loc acc
    have h := hp e loc a true
    unfold andRest
    simp only [hns e, Bool.false_eq_true, if_false]
    cases hpe : p e loc a true with
    | ok l ts =>
      rw [hpe] at h
      simp only [agrees_ok] at h
      exact Agrees.lift (fun r hr => .seqOk h hr) (ih l (acc ++ ts))
    | fail c l =>
      rw [hpe] at h; simp only [agrees_fail] at h ⊢
      exact ⟨h.1, .seqFail h.2⟩
    | idx => rw [hpe] at h; exact h.elim
    | hang => trivial

theorem mfGo_sound {g : Grammar} {s : List Char} {p : P} (hp : AgreeP g s p) (a : Bool) (slen loc : Nat) :
    ∀ es mx, Agrees g s (.alt es loc) (mfGo p a slen loc es mx) := by
  intro es
  induction es with
  | nil => intro mx; cases mx <;> simp only [mfGo, agrees_fail] <;> exact ⟨trivial, .altNil⟩
  | cons e es ih =>
    intro mx
    have h := hp e loc a true
    unfold mfGo
    cases hpe : p e loc a true with
    | ok l ts => rw [hpe] at h; simp only [agrees_ok] at h ⊢; exact .altOk h
    | fail c l =>
      rw [hpe] at h; simp only [agrees_fail] at h
      obtain ⟨hc, hs⟩ := h
      subst hc
      simp only
      exact Agrees.lift (fun r hr => .altNext hs hr) (ih _)
    | idx => rw [hpe] at h; exact h.elim
    | hang => trivial

/-- a repetition's further iterations never fail: they stop -/
theorem star_ne_none {g : Grammar} {s : List Char} {t : Task} {r : Res} (h : Sem g s t r) :
    ∀ e l ts, t = .star e l ts → r ≠ none := by
  induction h with
  | starStop _ => intro _ _ _ _; simp
  | starStep _ _ _ _ ih2 => intro _ _ _ _; exact ih2 _ _ _ rfl
  | _ => intro _ _ _ hT; cases hT

theorem manyLoop_sound {g : Grammar} {s : List Char} {p : P} (hp : AgreeP g s p) (nd : Node)
    (hi : nd.ignore = []) (a : Bool) (slen e : Nat) :
    ∀ k loc acc, Agrees g s (.star e loc acc) (manyLoop p nd a slen e none k loc acc) := by
  intro k
  induction k with
  | zero => intro loc acc; simp [manyLoop]
  | succ k ih =>
    intro loc acc
    have h := hp e loc a true
    unfold manyLoop
    simp only [stopCheck, manyPre, hi, List.isEmpty_nil, if_true]
    cases hpe : p e loc a true with
    | ok l ts =>
      rw [hpe] at h; simp only [agrees_ok] at h
      by_cases hl : l ≤ loc
      · simp [hl]
      · simp only [hl, if_false]
        exact Agrees.lift (fun r hr => .starStep h (by omega) hr) (ih l (acc ++ ts))
    | fail c l =>
      rw [hpe] at h; simp only [agrees_fail] at h
      obtain ⟨hc, hs⟩ := h
      subst hc
      simp only [agrees_ok]
      exact .starStop hs
    | idx => rw [hpe] at h; exact h.elim
    | hang => trivial

/-- `_MultipleMatch.parseImpl` without `stop_on`: the first iteration, then the loop -/
theorem manyImpl_sound {g : Grammar} {s : List Char} {p : P} (hp : AgreeP g s p) (nd : Node)
    (hi : nd.ignore = []) (a : Bool) (slen e loc : Nat) :
    match manyImpl p nd a slen e none loc with
    | .ok l ts => ∃ l1 t1, Sem g s (.node e loc true) (some (l1, t1)) ∧ Sem g s (.star e l1 t1) (some (l, ts))
    | .fail c _ => c = .parse ∧ Sem g s (.node e loc true) none
    | .idx => False
    | .hang => True := by
  have h := hp e loc a true
  unfold manyImpl
  simp only
  cases hpe : p e loc a true with
  | ok l ts =>
    rw [hpe] at h; simp only [agrees_ok] at h
    have h2 := manyLoop_sound hp nd hi a slen e (slen + 2) l ts
    simp only
    cases hr : manyLoop p nd a slen e none (slen + 2) l ts with
    | ok l2 t2 => rw [hr] at h2; exact ⟨l, ts, h, h2⟩
    | fail c l2 =>
      -- the loop never fails: a `star` task has no `none` result
      rw [hr] at h2; simp only [agrees_fail] at h2
      exact absurd rfl (star_ne_none h2.2 _ _ _ rfl)
    | idx => rw [hr] at h2; exact h2.elim
    | hang => trivial
  | fail c l => rw [hpe] at h; exact h
  | idx => rw [hpe] at h; exact h.elim
  | hang => trivial

/-- agreement at the level of `parseImpl`: a raw `IndexError` of a terminal (reading past the end) is a non-match that
    `_parseNoCache` is going to convert -/
def AgreesImpl (g : Grammar) (s : List Char) (nd : Node) (loc : Nat) : Out → Prop
  | .idx => s.length ≤ loc ∧ Sem g s (.impl nd loc) none
  | o => Agrees g s (.impl nd loc) o

theorem AgreesImpl.of_agrees {g : Grammar} {s : List Char} {nd : Node} {loc : Nat} :
    ∀ {o : Out}, Agrees g s (.impl nd loc) o → AgreesImpl g s nd loc o
  | .ok _ _, h => h
  | .fail _ _, h => h
  | .idx, h => h.elim
  | .hang, _ => trivial

theorem lit_head {s m : List Char} {loc : Nat} {c : Char} (hc : s[loc]? = some c)
    (hm : (s.drop loc).take m.length = m) (hne : m ≠ []) : m.head? = some c := by
  obtain ⟨hlt, hget⟩ := List.getElem?_eq_some_iff.mp hc
  rw [List.drop_eq_getElem_cons hlt, hget] at hm
  cases m with
  | nil => exact absurd rfl hne
  | cons x xs =>
    simp only [List.length_cons, List.take_succ_cons, List.cons.injEq] at hm
    simp [hm.1]

theorem enhance_sound {g : Grammar} {s : List Char} {p : P} (hp : AgreeP g s p) (nd : Node) (e loc : Nat) (a : Bool)
    (hw : wrapped nd.kind = some e) : Agrees g s (.impl nd loc) (enhanceImpl p a (some e) loc) := by
  have h := hp e loc a false
  unfold enhanceImpl
  simp only
  cases hpe : p e loc a false with
  | ok l ts => rw [hpe] at h; simp only [agrees_ok] at h ⊢; exact .wrap hw h
  | fail c l =>
    rw [hpe] at h; simp only [agrees_fail] at h
    obtain ⟨hc, hs⟩ := h
    subst hc
    simp only [agrees_fail]
    exact ⟨trivial, .wrap hw hs⟩
  | idx => rw [hpe] at h; exact h.elim
  | hang => trivial

theorem isStop_false {g : Grammar} (hg : Plain g) (i : Nat) :
    (match g[i]? with
      | some n => (match n.kind with
        | .errorStop => true
        | _ => false)
      | none => false) = false := by
  cases hgi : g[i]? with
  | none => rfl
  | some n =>
    have hn := hg n (List.mem_of_getElem? hgi)
    simp only [plainNode, Bool.and_eq_true] at hn
    cases hk : n.kind <;> simp_all [plainKind]

/-! ### the reading is a partial function -/


theorem leaf_wrapped_absurd {k : Kind} {s : List Char} {loc : Nat} {r : Res} {e : Nat}
    (h1 : leafSem k s loc = some r) (h2 : wrapped k = some e) : False := by
  cases k <;> simp_all [leafSem, wrapped, termImpl]

theorem Sem.det {g : Grammar} {s : List Char} {t : Task} {r1 : Res} (h1 : Sem g s t r1) :
    ∀ r2, Sem g s t r2 → r1 = r2 := by
  induction h1 with
  | node hg _ ih =>
    intro r2 h2
    cases h2 with
    | node hg2 h2' => rw [hg] at hg2; cases hg2; rw [ih _ h2']
  | leaf hl =>
    intro r2 h2
    cases h2 with
    | wrap hw _ => exact (leaf_wrapped_absurd hl hw).elim
    | _ => simp_all [leafSem, termImpl]
  | andFail hk _ ih =>
    intro r2 h2
    cases h2 with
    | leaf hl => simp_all [leafSem, termImpl]
    | wrap hw _ => simp_all [wrapped]
    | andFail hk2 _ => rfl
    | andOk hk2 h0 _ => rw [hk] at hk2; cases hk2; exact absurd (ih _ h0) (by simp)
    | _ => simp_all
  | andOk hk _ _ ih0 ih1 =>
    intro r2 h2
    cases h2 with
    | leaf hl => simp_all [leafSem, termImpl]
    | wrap hw _ => simp_all [wrapped]
    | andFail hk2 h0 => rw [hk] at hk2; cases hk2; exact absurd (ih0 _ h0) (by simp)
    | andOk hk2 h0 h1 =>
      rw [hk] at hk2; cases hk2
      have := ih0 _ h0
      simp only [Option.some.injEq, Prod.mk.injEq] at this
      obtain ⟨rfl, rfl⟩ := this
      exact ih1 _ h1
    | _ => simp_all
  | seqNil => intro r2 h2; cases h2; rfl
  | seqFail _ ih =>
    intro r2 h2
    cases h2 with
    | seqFail _ => rfl
    | seqOk h0 _ => exact absurd (ih _ h0) (by simp)
  | seqOk _ _ ih0 ih1 =>
    intro r2 h2
    cases h2 with
    | seqFail h0 => exact absurd (ih0 _ h0) (by simp)
    | seqOk h0 h1 =>
      have := ih0 _ h0
      simp only [Option.some.injEq, Prod.mk.injEq] at this
      obtain ⟨rfl, rfl⟩ := this
      exact ih1 _ h1
  | matchFirst hk _ ih =>
    intro r2 h2
    cases h2 with
    | leaf hl => simp_all [leafSem, termImpl]
    | wrap hw _ => simp_all [wrapped]
    | matchFirst hk2 h0 => rw [hk] at hk2; cases hk2; exact ih _ h0
    | _ => simp_all
  | altNil => intro r2 h2; cases h2; rfl
  | altOk _ ih =>
    intro r2 h2
    cases h2 with
    | altOk h0 => exact ih _ h0
    | altNext h0 _ => exact absurd (ih _ h0) (by simp)
  | altNext _ _ ih0 ih1 =>
    intro r2 h2
    cases h2 with
    | altOk h0 => exact absurd (ih0 _ h0) (by simp)
    | altNext _ h1 => exact ih1 _ h1
  | opt hk _ ih =>
    intro r2 h2
    cases h2 with
    | leaf hl => simp_all [leafSem, termImpl]
    | wrap hw _ => simp_all [wrapped]
    | opt hk2 h0 => rw [hk] at hk2; cases hk2; rw [ih _ h0]
    | _ => simp_all
  | manyFail hk _ ih =>
    intro r2 h2
    cases h2 with
    | leaf hl => simp_all [leafSem, termImpl]
    | wrap hw _ => simp_all [wrapped]
    | manyFail hk2 _ => rw [hk] at hk2; cases hk2; rfl
    | manyOk hk2 h0 _ => rw [hk] at hk2; cases hk2; exact absurd (ih _ h0) (by simp)
    | _ => simp_all
  | manyOk hk _ _ ih0 ih1 =>
    intro r2 h2
    cases h2 with
    | leaf hl => simp_all [leafSem, termImpl]
    | wrap hw _ => simp_all [wrapped]
    | manyFail hk2 h0 => rw [hk] at hk2; cases hk2; exact absurd (ih0 _ h0) (by simp)
    | manyOk hk2 h0 h1 =>
      rw [hk] at hk2; cases hk2
      have := ih0 _ h0
      simp only [Option.some.injEq, Prod.mk.injEq] at this
      obtain ⟨rfl, rfl⟩ := this
      exact ih1 _ h1
    | _ => simp_all
  | starStop _ ih =>
    intro r2 h2
    cases h2 with
    | starStop _ => rfl
    | starStep h0 _ _ => exact absurd (ih _ h0) (by simp)
  | starStep _ _ _ ih0 ih1 =>
    intro r2 h2
    cases h2 with
    | starStop h0 => exact absurd (ih0 _ h0) (by simp)
    | starStep h0 _ h1 =>
      have := ih0 _ h0
      simp only [Option.some.injEq, Prod.mk.injEq] at this
      obtain ⟨rfl, rfl⟩ := this
      exact ih1 _ h1
  | notAny hk _ ih =>
    intro r2 h2
    cases h2 with
    | leaf hl => simp_all [leafSem, termImpl]
    | wrap hw _ => simp_all [wrapped]
    | notAny hk2 h0 => rw [hk] at hk2; cases hk2; rw [ih _ h0]
    | _ => simp_all
  | followedBy hk _ ih =>
    intro r2 h2
    cases h2 with
    | leaf hl => simp_all [leafSem, termImpl]
    | wrap hw _ => simp_all [wrapped]
    | followedBy hk2 h0 => rw [hk] at hk2; cases hk2; rw [ih _ h0]
    | _ => simp_all
  | or hk _ ih =>
    intro r2 h2
    cases h2 with
    | leaf hl => simp_all [leafSem, termImpl]
    | wrap hw _ => simp_all [wrapped]
    | or hk2 h0 => rw [hk] at hk2; cases hk2; exact ih _ h0
    | _ => simp_all
  | orNil => intro r2 h2; cases h2; rfl
  | orCons _ _ ih0 ih1 =>
    intro r2 h2
    cases h2 with
    | orCons h0 h1 => rw [ih0 _ h0, ih1 _ h1]
  | wrap hw _ ih =>
    intro r2 h2
    cases h2 with
    | leaf hl => exact (leaf_wrapped_absurd hl hw).elim
    | wrap hw2 h0 => rw [hw] at hw2; cases hw2; exact ih _ h0
    | _ => simp_all [wrapped]

/-! ### `^` -/

/-- how the best trial candidate relates to a result of the reading -/
def OrRel (g : Grammar) (s : List Char) (loc : Nat) : Option (Nat × Nat) → Res → Prop
  | none, none => True
  | some b, some x => b.1 = x.1 ∧ Sem g s (.node b.2 loc true) (some x)
  | _, _ => False

/-- the trial pass's candidate entry of one alternative -/
def trialCand (p : P) (loc e : Nat) : Option (Nat × Nat) :=
  match tryParse p e loc true false with
  | .ok l _ => some (l, e)
  | _ => none

theorem tryParse_true (p : P) (e loc : Nat) (da : Bool) : tryParse p e loc true da = p e loc da true := by
  unfold tryParse
  cases p e loc da true <;> simp

theorem orPass1_nohang (p : P) (nl : Nat → Nat) (slen loc : Nat) :
    ∀ es a a', orPass1 p nl slen loc es a = some a' → ∀ e ∈ es, p e loc false true ≠ .hang := by
  intro es
  induction es with
  | nil => intro _ _ _ e he; cases he
  | cons e es ih =>
    intro a a' h x hx
    unfold orPass1 at h
    rw [tryParse_true] at h
    cases hp : p e loc false true with
    | hang => rw [hp] at h; simp at h
    | ok l ts =>
      rw [hp] at h
      rcases List.mem_cons.mp hx with rfl | hx
      · rw [hp]; simp
      · exact ih _ _ h x hx
    | idx =>
      rw [hp] at h
      rcases List.mem_cons.mp hx with rfl | hx
      · rw [hp]; simp
      · exact ih _ _ h x hx
    | fail c l =>
      rw [hp] at h
      rcases List.mem_cons.mp hx with rfl | hx
      · rw [hp]; simp
      · simp only at h
        split at h
        · exact ih _ _ h x hx
        · split at h <;> exact ih _ _ h x hx

theorem orPass1_some (p : P) (nl : Nat → Nat) (slen loc : Nat) :
    ∀ es a, (∀ e ∈ es, p e loc false true ≠ .hang) → ∃ a', orPass1 p nl slen loc es a = some a' := by
  intro es
  induction es with
  | nil => intro a _; exact ⟨a, rfl⟩
  | cons e es ih =>
    intro a h
    have he := h e (List.mem_cons_self)
    have hes : ∀ x ∈ es, p x loc false true ≠ .hang := fun x hx => h x (List.mem_cons_of_mem _ hx)
    unfold orPass1
    rw [tryParse_true]
    cases hp : p e loc false true with
    | hang => exact absurd hp he
    | ok l ts => exact ih _ hes
    | idx => exact ih _ hes
    | fail c l =>
      simp only
      split
      · exact ih _ hes
      · split <;> exact ih _ hes

theorem orPass1_fatals {g : Grammar} {s : List Char} {p : P} (hp : AgreeP g s p) (nl : Nat → Nat) (slen loc : Nat) :
    ∀ es a a', orPass1 p nl slen loc es a = some a' → a.fatals = [] → a'.fatals = [] := by
  intro es
  induction es with
  | nil => intro a a' h hf; simp [orPass1] at h; subst h; exact hf
  | cons e es ih =>
    intro a a' h hf
    have hag := hp e loc false true
    unfold orPass1 at h
    rw [tryParse_true] at h
    cases hpe : p e loc false true with
    | hang => rw [hpe] at h; simp at h
    | ok l ts => rw [hpe] at h; exact ih _ _ h hf
    | idx => rw [hpe] at hag; exact hag.elim
    | fail c l =>
      rw [hpe] at hag h
      obtain ⟨hc, _⟩ := hag
      subst hc
      simp only [Exc.isFatal, Bool.false_eq_true, if_false, hf, List.isEmpty_nil, Bool.not_true] at h
      exact ih _ _ h (by simpa using hf)

/-- the reading of the scan, from the trial parses: exists, and its result is the best candidate -/
theorem orScan_sound {g : Grammar} {s : List Char} {p : P} (hp : AgreeP g s p) (loc : Nat) :
    ∀ es, (∀ e ∈ es, p e loc false true ≠ .hang) →
      ∃ r, Sem g s (.orScan es loc) r ∧ OrRel g s loc (best (es.filterMap (trialCand p loc))) r := by
  intro es
  induction es with
  | nil => intro _; exact ⟨none, .orNil, trivial⟩
  | cons e es ih =>
    intro h
    obtain ⟨r2, hs2, hr2⟩ := ih (fun x hx => h x (List.mem_cons_of_mem _ hx))
    have hag := hp e loc false true
    have he := h e (List.mem_cons_self)
    cases hpe : p e loc false true with
    | hang => exact absurd hpe he
    | idx => rw [hpe] at hag; exact hag.elim
    | fail c l =>
      rw [hpe] at hag
      refine ⟨pick none r2, .orCons hag.2 hs2, ?_⟩
      have : trialCand p loc e = none := by simp [trialCand, tryParse_true, hpe]
      simp only [List.filterMap_cons, this, pick]
      exact hr2
    | ok l ts =>
      rw [hpe] at hag
      simp only [agrees_ok] at hag
      refine ⟨pick (some (l, ts)) r2, .orCons hag hs2, ?_⟩
      have : trialCand p loc e = some (l, e) := by simp [trialCand, tryParse_true, hpe]
      simp only [List.filterMap_cons, this, best]
      cases hb : best (List.filterMap (trialCand p loc) es) with
      | none =>
        rw [hb] at hr2
        cases r2 with
        | none => exact ⟨rfl, hag⟩
        | some y => exact hr2.elim
      | some b =>
        rw [hb] at hr2
        cases r2 with
        | none => exact hr2.elim
        | some y =>
          obtain ⟨h1, h2⟩ := hr2
          simp only [pick, ← h1]
          by_cases hgt : b.1 > l
          · simp only [hgt, if_true]; exact ⟨h1, h2⟩
          · simp only [hgt, if_false]; exact ⟨rfl, hag⟩

theorem best_mem : ∀ (cs : List (Nat × Nat)) (b : Nat × Nat), best cs = some b → b ∈ cs := by
  intro cs b h
  obtain ⟨pre, post, hcs, _, _⟩ := best_spec cs b h
  rw [hcs]; simp

/-- candidates of a completed trial pass (started from the empty accumulator) -/
theorem orPass1_cands_eq (p : P) (nl : Nat → Nat) (slen loc : Nat) (es : List Nat) (a : OrAcc)
    (h : orPass1 p nl slen loc es {} = some a) : a.cands = es.filterMap (trialCand p loc) := by
  have := orPass1_cands p nl slen loc es {} a h
  rw [this]
  simp only [List.nil_append]
  congr 1

theorem trialCand_spec {p : P} {loc : Nat} {es : List Nat} {b : Nat × Nat} (hb : b ∈ es.filterMap (trialCand p loc)) :
    b.2 ∈ es ∧ ∃ ts, p b.2 loc false true = .ok b.1 ts := by
  obtain ⟨e, he, hc⟩ := List.mem_filterMap.mp hb
  unfold trialCand at hc
  rw [tryParse_true] at hc
  cases hp : p e loc false true with
  | ok l ts => rw [hp] at hc; simp at hc; subst hc; exact ⟨he, ts, hp⟩
  | fail c l => rw [hp] at hc; simp at hc
  | idx => rw [hp] at hc; simp at hc
  | hang => rw [hp] at hc; simp at hc

/-- with a best candidate `b`, `Or` returns the (re-)parse of that alternative — also in the pass with actions, where
    the re-parse reaches the trial's end because the reading is deterministic -/
theorem orAt_eq {g : Grammar} {s : List Char} {p : P} (hp : AgreeP g s p) (nl : Nat → Nat) (slen : Nat) (acts : Bool)
    (es : List Nat) (loc : Nat) (a : OrAcc) (h1 : orPass1 p nl slen loc es {} = some a) (b : Nat × Nat)
    (hb : best a.cands = some b) : orAt p nl slen acts es loc = p b.2 loc acts true := by
  cases acts with
  | false => exact (or_longest_leftmost p nl slen es loc a h1 b hb).1
  | true =>
    have hne : a.cands.isEmpty = false := by
      cases hc : a.cands with
      | nil => rw [hc] at hb; simp [best] at hb
      | cons x xs => rfl
    have hh := sortDesc_head a.cands
    rw [hb] at hh
    have hmem : b ∈ es.filterMap (trialCand p loc) := by
      rw [← orPass1_cands_eq p nl slen loc es a h1]; exact best_mem _ _ hb
    obtain ⟨_, ts0, htrial⟩ := trialCand_spec hmem
    have hag0 := hp b.2 loc false true
    rw [htrial] at hag0
    simp only [agrees_ok] at hag0
    cases hs : sortDesc a.cands with
    | nil => rw [hs] at hh; simp at hh
    | cons m ms =>
      rw [hs] at hh; simp at hh; subst hh
      obtain ⟨m1, m2⟩ := m
      have hag := hp m2 loc true true
      simp only [orAt, h1, hne, Bool.false_eq_true, if_false, Bool.not_true, hs]
      cases hre : p m2 loc true true with
      | ok l2 ts =>
        rw [hre] at hag
        simp only [agrees_ok] at hag
        have := Sem.det hag0 _ hag
        simp only [Option.some.injEq, Prod.mk.injEq] at this
        have hge : l2 ≥ m1 := by omega
        simp [orPass2, orPass2.orStep, hre, hge]
      | fail c l =>
        rw [hre] at hag
        exact absurd (Sem.det hag0 _ hag.2) (by simp)
      | idx => rw [hre] at hag; exact hag.elim
      | hang => simp [orPass2, orPass2.orStep, hre]

theorem orAt_sound {g : Grammar} {s : List Char} {p : P} (hp : AgreeP g s p) (nl : Nat → Nat) (slen : Nat) (acts : Bool)
    (es : List Nat) (loc : Nat) : Agrees g s (.orScan es loc) (orAt p nl slen acts es loc) := by
  cases h1 : orPass1 p nl slen loc es {} with
  | none => simp [orAt, h1]
  | some a =>
    obtain ⟨r, hs, hrel⟩ := orScan_sound hp loc es (orPass1_nohang p nl slen loc es {} a h1)
    rw [← orPass1_cands_eq p nl slen loc es a h1] at hrel
    have hfat := orPass1_fatals hp nl slen loc es {} a h1 rfl
    cases hb : best a.cands with
    | none =>
      rw [hb] at hrel
      have hemp : a.cands = [] := by
        cases hc : a.cands with
        | nil => rfl
        | cons x xs =>
          rw [hc] at hb
          simp only [best] at hb
          cases h2 : best xs with
          | none => simp [h2] at hb
          | some c => simp only [h2] at hb; split at hb <;> simp at hb
      cases r with
      | some x => exact hrel.elim
      | none =>
        simp only [orAt, h1, hemp, List.isEmpty_nil, if_true, orAfter, hfat, pickFatal]
        cases a.mx <;> exact ⟨rfl, hs⟩
    | some b =>
      rw [hb] at hrel
      rw [orAt_eq hp nl slen acts es loc a h1 b hb]
      cases r with
      | none => exact hrel.elim
      | some x =>
        obtain ⟨_, hsb⟩ := hrel
        have hag := hp b.2 loc acts true
        cases hre : p b.2 loc acts true with
        | ok l ts =>
          rw [hre] at hag
          simp only [agrees_ok] at hag ⊢
          have := Sem.det hsb _ hag
          rw [← this]; exact hs
        | fail c l =>
          rw [hre] at hag
          exact absurd (Sem.det hsb _ hag.2) (by simp)
        | idx => rw [hre] at hag; exact hag.elim
        | hang => trivial

theorem best_none : ∀ (cs : List (Nat × Nat)), best cs = none → cs = [] := by
  intro cs hb
  cases cs with
  | nil => rfl
  | cons x xs =>
    simp only [best] at hb
    cases h2 : best xs with
    | none => simp [h2] at hb
    | some c => simp only [h2] at hb; split at hb <;> simp at hb

/-- `Or` returns as soon as every alternative's parse (trial and real) returns -/
theorem orAt_nohang {g : Grammar} {s : List Char} {p : P} (hp : AgreeP g s p) (nl : Nat → Nat) (slen : Nat) (acts : Bool)
    (es : List Nat) (loc : Nat) (hnh : ∀ e ∈ es, ∀ a, p e loc a true ≠ .hang) : orAt p nl slen acts es loc ≠ .hang := by
  obtain ⟨a, h1⟩ := orPass1_some p nl slen loc es {} (fun e he => hnh e he false)
  cases hb : best a.cands with
  | none =>
    have hemp := best_none _ hb
    simp only [orAt, h1, hemp, List.isEmpty_nil, if_true, orAfter]
    split
    · simp
    · split <;> simp
  | some b =>
    rw [orAt_eq hp nl slen acts es loc a h1 b hb]
    have hmem : b ∈ es.filterMap (trialCand p loc) := by
      rw [← orPass1_cands_eq p nl slen loc es a h1]; exact best_mem _ _ hb
    exact hnh b.2 (trialCand_spec hmem).1 acts

/-! ### the character-class terminals behave like terminals -/


def TermOk (s : List Char) (loc : Nat) (o : Out) : Prop :=
  (o = .idx → s.length ≤ loc) ∧ (∀ c l, o = .fail c l → c = .parse) ∧ o ≠ .hang

theorem caselessLit_ok (mU ret s : List Char) (loc : Nat) : TermOk s loc (caselessLitImpl mU ret s loc) := by
  unfold caselessLitImpl TermOk; split <;> simp

theorem kwAfter_ok (m ident : List Char) (up : Char → Char) (s : List Char) (loc : Nat) :
    TermOk s loc (kwAfter m ident up s loc) := by
  unfold kwAfter TermOk
  split
  · simp
  · split
    · rename_i h _ hn; simp at hn; omega
    · split <;> simp

theorem kwTail_ok (m ident : List Char) (up : Char → Char) (s : List Char) (loc : Nat) :
    TermOk s loc (kwTail m ident up s loc) := by
  unfold kwTail
  split
  · exact kwAfter_ok ..
  · split
    · rename_i hn; simp at hn; unfold TermOk; simp; omega
    · split
      · unfold TermOk; simp
      · exact kwAfter_ok ..

theorem keyword_ok (m ident : List Char) (cl : Bool) (s : List Char) (loc : Nat) :
    TermOk s loc (keywordImpl m ident cl s loc) := by
  unfold keywordImpl
  split
  · split
    · exact kwTail_ok ..
    · unfold TermOk; simp
  · split
    · rename_i hn; simp at hn; unfold TermOk; simp; omega
    · split
      · exact kwTail_ok ..
      · unfold TermOk; simp

theorem TermOk.ok (s : List Char) (loc e : Nat) (ts : List Tok) : TermOk s loc (.ok e ts) := by simp [TermOk]
theorem TermOk.failp (s : List Char) (loc l : Nat) : TermOk s loc (.fail .parse l) := by simp [TermOk]
theorem TermOk.ite {s : List Char} {loc : Nat} {c : Prop} [Decidable c] {a b : Out} (ha : TermOk s loc a)
    (hb : TermOk s loc b) : TermOk s loc (if c then a else b) := by split <;> assumption
theorem TermOk.idx {s : List Char} {loc : Nat} (h : s.length ≤ loc) : TermOk s loc .idx := by simp [TermOk, h]

theorem wordSlow_ok (i b : List Char) (mn : Nat) (mx : Option Nat) (ms kw : Bool) (s : List Char) (loc : Nat) :
    TermOk s loc (wordSlowImpl i b mn mx ms kw s loc) := by
  unfold wordSlowImpl
  split
  · rename_i hn; simp at hn; exact TermOk.idx hn
  · dsimp only
    repeat' (first | apply TermOk.ite | apply TermOk.ok | apply TermOk.failp)

theorem wordRe_ok (i b : List Char) (mn : Nat) (mx : Option Nat) (kw : Bool) (s : List Char) (loc : Nat) :
    TermOk s loc (wordReImpl i b mn mx kw s loc) := by
  unfold wordReImpl
  split
  · apply TermOk.failp
  · dsimp only
    repeat' (first | apply TermOk.ite | apply TermOk.ok | apply TermOk.failp)
    split <;> first | apply TermOk.ok | apply TermOk.failp

theorem charsNotIn_ok (n : List Char) (mn : Nat) (mx : Option Nat) (s : List Char) (loc : Nat) :
    TermOk s loc (charsNotInImpl n mn mx s loc) := by
  unfold charsNotInImpl
  split
  · rename_i hn; simp at hn; exact TermOk.idx hn
  · dsimp only
    repeat' (first | apply TermOk.ite | apply TermOk.ok | apply TermOk.failp)

theorem lineEnd_ok (s : List Char) (loc : Nat) : TermOk s loc (lineEndImpl s loc) := by
  unfold lineEndImpl TermOk
  split
  · split <;> simp
  · split <;> simp

theorem wordStart_ok (cs s : List Char) (loc : Nat) : TermOk s loc (wordStartImpl cs s loc) := by
  unfold wordStartImpl TermOk
  split
  · simp
  · split
    · rename_i hn; simp at hn; simp; omega
    · split
      · simp
      · split
        · rename_i hn; simp at hn; simp; omega
        · split <;> simp

theorem wordEnd_ok (cs s : List Char) (loc : Nat) : TermOk s loc (wordEndImpl cs s loc) := by
  unfold wordEndImpl TermOk
  split
  · rename_i hlt
    simp at hlt
    split
    · rename_i hn; simp at hn; omega
    · split
      · simp
      · simp only; split
        · rename_i hn
          split at hn <;> simp at hn <;> omega
        · split <;> simp
  · simp

theorem termImpl_ok {k : Kind} {s : List Char} {loc : Nat} {o : Out} (h : termImpl k s loc = some o) : TermOk s loc o := by
  unfold termImpl at h
  split at h <;> simp only [Option.some.injEq, reduceCtorEq] at h <;> subst h
  · exact caselessLit_ok ..
  · exact keyword_ok ..
  · split
    · exact wordRe_ok ..
    · exact wordSlow_ok ..
  · exact charsNotIn_ok ..
  · exact lineEnd_ok ..
  · exact wordStart_ok ..
  · exact wordEnd_ok ..


theorem term_sound {g : Grammar} {s : List Char} {nd : Node} {loc : Nat} {o : Out}
    (h : termImpl nd.kind s loc = some o) : AgreesImpl g s nd loc o := by
  have hl : leafSem nd.kind s loc = some (outRes o) := by
    cases hk : nd.kind <;> simp_all [leafSem, termImpl]
  obtain ⟨h1, h2, h3⟩ := termImpl_ok h
  cases o with
  | ok e ts => exact .leaf hl
  | fail c l => exact ⟨h2 c l rfl, .leaf hl⟩
  | idx => exact ⟨h1 rfl, .leaf hl⟩
  | hang => exact absurd rfl h3

theorem optDefault_plain {g : Grammar} (hg : Plain g) {nd : Node} (hacts : nd.acts = []) (e : Nat)
    (d : Option (List Char)) : optNoMatch nd (optDefault g e d) = dfltToks d := by
  cases d with
  | none => simp [optNoMatch, optDefault, dfltToks, hacts]
  | some v =>
    have : optDefault g e (some v) = [.s v] := by
      unfold optDefault
      cases hge : g[e]? with
      | none => rfl
      | some n =>
        have hn := hg n (List.mem_of_getElem? hge)
        simp only [plainNode, Bool.and_eq_true, List.isEmpty_iff] at hn
        simp [hn.1.2]
    simp [this, optNoMatch, dfltToks]

theorem preParse_plain (p : P) (nd : Node) (hn : plainNode nd = true) (s : List Char) (loc : Nat) :
    preParse p nd s loc = .at (if nd.skipWs then skipWhite nd.white s loc else loc) := by
  simp only [plainNode, Bool.and_eq_true, List.isEmpty_iff] at hn
  obtain ⟨⟨hk, _⟩, hign⟩ := hn
  unfold preParse
  cases hkind : nd.kind <;> simp_all [plainKind]

theorem orImpl_pre (g : Grammar) (p : P) (nd : Node) (hn : plainNode nd = true) (s : List Char) (es : List Nat)
    (loc : Nat) : (if es.all (callPreOf g) = true then preParse p nd s loc else PreR.at loc) =
      .at (orStart g nd s es loc) := by
  rw [preParse_plain p nd hn]
  unfold orStart
  cases es.all (callPreOf g) <;> cases nd.skipWs <;> simp

theorem parseImpl_sound {g : Grammar} {s : List Char} {p : P} (hg : Plain g) (hp : AgreeP g s p) (nd : Node)
    (hn : plainNode nd = true) (loc : Nat) (a : Bool) : AgreesImpl g s nd loc (parseImpl g p nd s loc a) := by
  have hn0 := hn
  simp only [plainNode, Bool.and_eq_true, List.isEmpty_iff] at hn
  obtain ⟨⟨hk, hacts⟩, hign⟩ := hn
  unfold parseImpl
  cases hkind : nd.kind with
  | lit m =>
    simp only [hkind, plainKind, Bool.not_eq_true', List.isEmpty_eq_false_iff] at hk
    simp only [litImpl]
    cases hc : s[loc]? with
    | none =>
      have hlen : s.length ≤ loc := by simpa using hc
      exact ⟨hlen, .leaf (by simp [leafSem, hkind]; omega)⟩
    | some c =>
      have hlt : loc < s.length := (List.getElem?_eq_some_iff.mp hc).1
      by_cases hm : (s.drop loc).take m.length = m
      · have hh := lit_head hc hm hk
        simp only [startsWithAt, hh, hm, beq_self_eq_true, Bool.and_self, if_true]
        exact .leaf (by simp [leafSem, hkind, hlt, hm])
      · have : startsWithAt s m loc = false := by simp [startsWithAt, hm]
        simp only [this, Bool.and_false, Bool.false_eq_true, if_false]
        exact ⟨rfl, .leaf (by simp [leafSem, hkind, hm])⟩
  | lit1 c =>
    simp only [lit1Impl]
    cases hc : s[loc]? with
    | none =>
      have hlen : s.length ≤ loc := by simpa using hc
      exact ⟨hlen, .leaf (by simp [leafSem, hkind, hc])⟩
    | some d =>
      by_cases hd : d = c
      · subst hd; simp only [beq_self_eq_true, if_true]
        exact .leaf (by simp [leafSem, hkind, hc])
      · simp only [beq_iff_eq, hd, if_false]
        exact ⟨rfl, .leaf (by simp [leafSem, hkind, hc, hd])⟩
  | empty => exact .leaf (by simp [leafSem, hkind])
  | noMatch => exact ⟨rfl, .leaf (by simp [leafSem, hkind])⟩
  | stringEnd =>
    simp only [stringEndImpl]
    by_cases h1 : loc < s.length
    · simp only [h1, if_true]; exact ⟨rfl, .leaf (by simp [leafSem, hkind, h1])⟩
    · simp only [h1, if_false]
      by_cases h2 : loc = s.length
      · simp only [h2, beq_self_eq_true, if_true]
        exact .leaf (by simp [leafSem, hkind])
      · simp only [beq_iff_eq, h2, if_false]
        exact .leaf (by simp [leafSem, hkind, h1, h2])
  | and es =>
    simp only [hkind, plainKind, Bool.not_eq_true', List.isEmpty_eq_false_iff] at hk
    cases es with
    | nil => exact absurd rfl hk
    | cons e0 rest =>
      simp only [andImpl]
      have h := hp e0 loc a false
      cases hpe : p e0 loc a false with
      | ok l ts =>
        rw [hpe] at h; simp only [agrees_ok] at h
        apply AgreesImpl.of_agrees
        exact Agrees.lift (fun r hr => .andOk hkind h hr) (andRest_sound hp _ (isStop_false hg) a s.length rest l ts)
      | fail c l => rw [hpe] at h; simp only [agrees_fail] at h; exact ⟨h.1, .andFail hkind h.2⟩
      | idx => rw [hpe] at h; exact h.elim
      | hang => trivial
  | matchFirst es =>
    apply AgreesImpl.of_agrees
    exact Agrees.lift (fun r hr => .matchFirst hkind hr) (mfGo_sound hp a s.length loc es none)
  | or es =>
    unfold orImpl
    simp only [orImpl_pre g p nd hn0 s es loc]
    exact AgreesImpl.of_agrees (Agrees.lift (fun r hr => .or hkind hr) (orAt_sound hp _ s.length a es _))
  | opt e d =>
    have h := hp e loc a false
    simp only
    cases hpe : p e loc a false with
    | ok l ts => rw [hpe] at h; simp only [agrees_ok] at h; exact Sem.opt hkind h
    | fail c l =>
      rw [hpe] at h; simp only [agrees_fail] at h
      obtain ⟨hc, hs⟩ := h
      subst hc
      simp only [optDefault_plain hg hacts]
      exact Sem.opt hkind hs
    | idx => rw [hpe] at h; exact h.elim
    | hang => trivial
  | many e ne one =>
    cases ne with
    | some v => simp [hkind, plainKind] at hk
    | none =>
      have h := manyImpl_sound hp nd hign a s.length e loc
      cases one with
      | true =>
        simp only [if_true]
        cases hr : manyImpl p nd a s.length e none loc with
        | ok l ts =>
          rw [hr] at h; obtain ⟨l1, t1, h1, h2⟩ := h
          exact Sem.manyOk hkind h1 h2
        | fail c l => rw [hr] at h; exact ⟨h.1, Sem.manyFail (one := true) hkind h.2⟩
        | idx => rw [hr] at h; exact h.elim
        | hang => trivial
      | false =>
        simp only [Bool.false_eq_true, if_false]
        cases hr : manyImpl p nd a s.length e none loc with
        | ok l ts =>
          rw [hr] at h; obtain ⟨l1, t1, h1, h2⟩ := h
          exact Sem.manyOk hkind h1 h2
        | fail c l =>
          rw [hr] at h; obtain ⟨hc, hs⟩ := h
          subst hc
          exact Sem.manyFail (one := false) hkind hs
        | idx => rw [hr] at h; exact h.elim
        | hang => trivial
  | notAny e =>
    have h := hp e loc a true
    simp only [canParseNext, tryParse]
    cases hpe : p e loc a true with
    | ok l ts => rw [hpe] at h; simp only [agrees_ok] at h; exact ⟨rfl, Sem.notAny hkind h⟩
    | fail c l =>
      rw [hpe] at h; simp only [agrees_fail] at h
      obtain ⟨hc, hs⟩ := h
      subst hc
      exact Sem.notAny hkind hs
    | idx => rw [hpe] at h; exact h.elim
    | hang => trivial
  | followedBy e =>
    have h := hp e loc a true
    simp only
    cases hpe : p e loc a true with
    | ok l ts => rw [hpe] at h; simp only [agrees_ok] at h; exact Sem.followedBy hkind h
    | fail c l => rw [hpe] at h; simp only [agrees_fail] at h; exact ⟨h.1, Sem.followedBy hkind h.2⟩
    | idx => rw [hpe] at h; exact h.elim
    | hang => trivial
  | group e => exact AgreesImpl.of_agrees (enhance_sound hp nd e loc a (by simp [wrapped, hkind]))
  | suppress e => exact AgreesImpl.of_agrees (enhance_sound hp nd e loc a (by simp [wrapped, hkind]))
  | combine e j => exact AgreesImpl.of_agrees (enhance_sound hp nd e loc a (by simp [wrapped, hkind]))
  | enhance e => exact AgreesImpl.of_agrees (enhance_sound hp nd e loc a (by simp [wrapped, hkind]))
  | forward e =>
    cases e with
    | none => simp [hkind, plainKind] at hk
    | some e => exact AgreesImpl.of_agrees (enhance_sound hp nd e loc a (by simp [wrapped, hkind]))
  | caselessLit mU ret => exact term_sound (by simp [termImpl, hkind])
  | keyword m ident cl => exact term_sound (by simp [termImpl, hkind])
  | word i b mn mx ms kw re => exact term_sound (by simp [termImpl, hkind])
  | charsNotIn n mn mx => exact term_sound (by simp [termImpl, hkind])
  | lineEnd => exact term_sound (by simp [termImpl, hkind])
  | wordStart cs => exact term_sound (by simp [termImpl, hkind])
  | wordEnd cs => exact term_sound (by simp [termImpl, hkind])
  | _ => simp [hkind, plainKind] at hk

theorem pre_eq_startAt (p : P) (nd : Node) (hn : plainNode nd = true) (s : List Char) (loc : Nat) (cp : Bool) :
    (if (cp && nd.callPre) = true then preParse p nd s loc else PreR.at loc) = .at (startAt nd s loc cp) := by
  rw [preParse_plain p nd hn]
  unfold startAt
  cases cp <;> cases nd.callPre <;> cases nd.skipWs <;> simp

/-- one unfolding of `_parseNoCache` preserves agreement with the reading -/
theorem parseStep_sound {g : Grammar} {s : List Char} {p : P} (hg : Plain g) (hp : AgreeP g s p) :
    AgreeP g s (parseStep g s p) := by
  intro id loc a cp
  unfold parseStep
  cases hgi : g[id]? with
  | none => trivial
  | some nd =>
    have hn := hg nd (List.mem_of_getElem? hgi)
    have hacts : nd.acts = [] := by
      simp only [plainNode, Bool.and_eq_true, List.isEmpty_iff] at hn; exact hn.1.2
    simp only [pre_eq_startAt p nd hn, hacts, List.isEmpty_nil, Bool.not_true, Bool.false_and, Bool.false_eq_true,
      if_false]
    have h := parseImpl_sound hg hp nd hn (startAt nd s loc cp) a
    cases hr : parseImpl g p nd s (startAt nd s loc cp) a with
    | ok e ts =>
      rw [hr] at h
      exact Sem.node hgi (r := some (e, ts)) h
    | fail c l =>
      rw [hr] at h
      exact ⟨h.1, Sem.node hgi (r := none) h.2⟩
    | idx =>
      rw [hr] at h
      obtain ⟨hlen, hs⟩ := h
      have : (nd.mayIdx || decide (startAt nd s loc cp ≥ s.length)) = true := by simp [hlen]
      simp only [this, if_true]
      exact ⟨rfl, Sem.node hgi (r := none) hs⟩
    | hang => trivial

/-- **soundness of the algorithm w.r.t. the reading**, at every fuel -/
theorem parse_sound {g : Grammar} {s : List Char} (hg : Plain g) : ∀ f, AgreeP g s (parse g s f) := by
  intro f
  induction f with
  | zero => intro _ _ _ _; trivial
  | succ f ih => exact parseStep_sound hg ih

/-! ### completeness: every result of the reading is returned, given enough fuel -/


/-- outcome `o` is exactly the result `r` of the reading (failure locations are diagnostics) -/
def Ret : Out → Res → Prop
  | o, some x => o = .ok x.1 x.2
  | o, none => ∃ l, o = .fail .parse l

theorem Ret.ne_hang {o : Out} {r : Res} (h : Ret o r) : o ≠ .hang := by
  cases r with
  | none => obtain ⟨l, rfl⟩ := h; simp
  | some x => cases h; simp

/-- the same at the level of `parseImpl`, where a terminal reading past the end still shows as `IndexError` -/
def RetI (s : List Char) (loc : Nat) : Out → Res → Prop
  | o, some x => o = .ok x.1 x.2
  | o, none => (∃ l, o = .fail .parse l) ∨ (o = .idx ∧ s.length ≤ loc)

theorem RetI.of_ret {s : List Char} {loc : Nat} {o : Out} {r : Res} (h : Ret o r) : RetI s loc o r := by
  cases r with
  | none => exact Or.inl h
  | some x => exact h

def isStopG (g : Grammar) : Nat → Bool := fun i =>
  match g[i]? with
  | some n => (match n.kind with
    | .errorStop => true
    | _ => false)
  | none => false

/-- what completeness means for each kind of task (all locations inside the string: `≤ len + 1`) -/
def CompleteT (g : Grammar) (s : List Char) : Task → Res → Prop
  | .node id loc cp, r => loc ≤ s.length + 1 → ∃ f, ∀ a, Ret (parse g s f id loc a cp) r
  | .impl nd loc, r => plainNode nd = true → loc ≤ s.length + 1 →
      ∃ f, ∀ a, RetI s loc (parseImpl g (parse g s f) nd s loc a) r
  | .seq es loc acc, r => loc ≤ s.length + 1 →
      ∃ f, ∀ a, Ret (andRest (parse g s f) (isStopG g) a s.length es false loc acc) r
  | .alt es loc, r => loc ≤ s.length + 1 → ∃ f, ∀ a mx, Ret (mfGo (parse g s f) a s.length loc es mx) r
  | .star e loc acc, r => loc ≤ s.length + 1 →
      ∃ f, ∀ a (nd : Node) k, nd.ignore = [] → s.length + 2 - loc ≤ k →
        Ret (manyLoop (parse g s f) nd a s.length e none k loc acc) r
  | .orScan es loc, _ => loc ≤ s.length + 1 → ∃ f, ∀ e ∈ es, ∀ a, parse g s f e loc a true ≠ .hang

theorem isStopG_false {g : Grammar} (hg : Plain g) (e : Nat) : isStopG g e = false := isStop_false hg e

theorem parse_lift {g : Grammar} {s : List Char} {f id loc : Nat} {a cp : Bool} {o : Out} (k : Nat)
    (h : parse g s f id loc a cp = o) (hn : o ≠ .hang) : parse g s (f + k) id loc a cp = o :=
  parse_mono g s f k id loc a cp o h hn

theorem parse_lift' {g : Grammar} {s : List Char} {f id loc : Nat} {a cp : Bool} {o : Out} (k : Nat)
    (h : parse g s f id loc a cp = o) (hn : o ≠ .hang) : parse g s (k + f) id loc a cp = o := by
  rw [Nat.add_comm]; exact parse_lift k h hn

theorem ok_le {g : Grammar} {s : List Char} {f id loc l : Nat} {a cp : Bool} {ts : List Tok}
    (h : parse g s f id loc a cp = .ok l ts) (hl : loc ≤ s.length + 1) : l ≤ s.length + 1 := by
  have := parse_bnd g s f id loc a cp hl
  rw [h] at this; exact this

theorem plain_acts {nd : Node} (hn : plainNode nd = true) : nd.acts = [] := by
  simp only [plainNode, Bool.and_eq_true, List.isEmpty_iff] at hn; exact hn.1.2
theorem plain_ign {nd : Node} (hn : plainNode nd = true) : nd.ignore = [] := by
  simp only [plainNode, Bool.and_eq_true, List.isEmpty_iff] at hn; exact hn.2

theorem startAt_le (nd : Node) (s : List Char) (loc : Nat) (cp : Bool) (hl : loc ≤ s.length + 1) :
    startAt nd s loc cp ≤ s.length + 1 := by
  unfold startAt
  split
  · exact skipWhite_le _ _ _ _ (by omega) hl
  · exact hl

theorem leaf_nohang {g : Grammar} {p : P} {nd : Node} {s : List Char} {loc : Nat} {r : Res} (a : Bool)
    (hl : leafSem nd.kind s loc = some r) : parseImpl g p nd s loc a ≠ .hang := by
  unfold parseImpl
  cases hk : nd.kind <;> simp only [hk, leafSem, termImpl, Option.map_none, reduceCtorEq] at hl ⊢
  case lit m =>
    unfold litImpl
    split
    · simp
    · split <;> simp
  case lit1 c =>
    unfold lit1Impl
    split
    · simp
    · split <;> simp
  case empty => simp
  case noMatch => simp
  case stringEnd =>
    unfold stringEndImpl
    split
    · simp
    · split <;> simp
  case caselessLit mU ret => exact (caselessLit_ok ..).2.2
  case keyword m i c => exact (keyword_ok ..).2.2
  case word i b mn mx ms kw re =>
    split
    · exact (wordRe_ok ..).2.2
    · exact (wordSlow_ok ..).2.2
  case charsNotIn n mn mx => exact (charsNotIn_ok ..).2.2
  case lineEnd => exact (lineEnd_ok ..).2.2
  case wordStart cs => exact (wordStart_ok ..).2.2
  case wordEnd cs => exact (wordEnd_ok ..).2.2

theorem agreeP_zero (g : Grammar) (s : List Char) : AgreeP g s (parse g s 0) := fun _ _ _ _ => trivial

theorem Sem.complete {g : Grammar} {s : List Char} (hg : Plain g) {t : Task} {r : Res} (h : Sem g s t r) :
    CompleteT g s t r := by
  induction h with
  | @node id loc cp nd r hgi _ ih =>
    intro hl
    have hn := hg nd (List.mem_of_getElem? hgi)
    obtain ⟨f, hf⟩ := ih hn (startAt_le nd s loc cp hl)
    refine ⟨f + 1, fun a => ?_⟩
    show Ret (parseStep g s (parse g s f) id loc a cp) _
    unfold parseStep
    simp only [hgi, pre_eq_startAt _ nd hn, plain_acts hn, List.isEmpty_nil, Bool.not_true, Bool.false_and,
      Bool.false_eq_true, if_false]
    have h1 := hf a
    cases r with
    | some x =>
      simp only [RetI] at h1
      rw [h1]; simp [Ret]
    | none =>
      simp only [RetI] at h1
      rcases h1 with ⟨l, h1⟩ | ⟨h1, hlen⟩
      · rw [h1]; exact ⟨l, rfl⟩
      · rw [h1]
        have : (nd.mayIdx || decide (startAt nd s loc cp ≥ s.length)) = true := by simp [hlen]
        simp only [this, if_true]
        exact ⟨_, rfl⟩
  | @leaf nd loc r hl =>
    intro hn _
    refine ⟨0, fun a => ?_⟩
    have hs := parseImpl_sound hg (agreeP_zero g s) nd hn loc a
    have hnh := leaf_nohang (g := g) (p := parse g s 0) a hl
    cases ho : parseImpl g (parse g s 0) nd s loc a with
    | ok e ts =>
      rw [ho] at hs
      have := Sem.det (Sem.leaf hl) _ hs
      subst this; rfl
    | fail c l =>
      rw [ho] at hs
      have := Sem.det (Sem.leaf hl) _ hs.2
      subst this; exact Or.inl ⟨l, by rw [hs.1]⟩
    | idx =>
      rw [ho] at hs
      have := Sem.det (Sem.leaf hl) _ hs.2
      subst this; exact Or.inr ⟨rfl, hs.1⟩
    | hang => exact absurd ho hnh
  | @andFail nd loc e0 rest hk _ ih =>
    intro hn hl
    obtain ⟨f, hf⟩ := ih hl
    refine ⟨f, fun a => ?_⟩
    obtain ⟨l, h1⟩ := hf a
    unfold parseImpl
    simp only [hk, andImpl, h1]
    exact Or.inl ⟨l, rfl⟩
  | @andOk nd loc e0 rest l ts r hk _ _ ih0 ih1 =>
    intro hn hl
    obtain ⟨f0, hf0⟩ := ih0 hl
    have hl1 : l ≤ s.length + 1 := ok_le (hf0 true) hl
    obtain ⟨f1, hf1⟩ := ih1 hl1
    refine ⟨f0 + f1, fun a => ?_⟩
    unfold parseImpl
    simp only [hk, andImpl, parse_lift f1 (hf0 a) (by simp)]
    apply RetI.of_ret
    have h2 := hf1 a
    have := andRest_mono (parse_mono g s f1 f0) (isStopG g) a s.length rest false l ts h2.ne_hang
    rw [Nat.add_comm f1 f0] at this
    show Ret (andRest (parse g s (f0 + f1)) (isStopG g) a s.length rest false l ts) r
    rw [this]; exact h2
  | @seqNil loc acc => intro _; exact ⟨0, fun a => rfl⟩
  | @seqFail e es loc acc _ ih =>
    intro hl
    obtain ⟨f, hf⟩ := ih hl
    refine ⟨f, fun a => ?_⟩
    obtain ⟨l, h1⟩ := hf a
    unfold andRest
    simp only [isStopG_false hg e, Bool.false_eq_true, if_false, h1]
    exact ⟨l, rfl⟩
  | @seqOk e es loc acc l ts r _ _ ih0 ih1 =>
    intro hl
    obtain ⟨f0, hf0⟩ := ih0 hl
    have hl1 : l ≤ s.length + 1 := ok_le (hf0 true) hl
    obtain ⟨f1, hf1⟩ := ih1 hl1
    refine ⟨f0 + f1, fun a => ?_⟩
    unfold andRest
    simp only [isStopG_false hg e, Bool.false_eq_true, if_false, parse_lift f1 (hf0 a) (by simp)]
    have h2 := hf1 a
    have := andRest_mono (parse_mono g s f1 f0) (isStopG g) a s.length es false l (acc ++ ts) h2.ne_hang
    rw [Nat.add_comm f1 f0] at this
    show Ret (andRest (parse g s (f0 + f1)) (isStopG g) a s.length es false l (acc ++ ts)) r
    rw [this]; exact h2
  | @matchFirst nd loc es r hk _ ih =>
    intro hn hl
    obtain ⟨f, hf⟩ := ih hl
    refine ⟨f, fun a => ?_⟩
    unfold parseImpl
    simp only [hk]
    exact RetI.of_ret (hf a none)
  | @altNil loc =>
    intro _
    refine ⟨0, fun a mx => ?_⟩
    cases mx <;> exact ⟨_, rfl⟩
  | @altOk e es loc x _ ih =>
    intro hl
    obtain ⟨f, hf⟩ := ih hl
    refine ⟨f, fun a mx => ?_⟩
    have h1 : parse g s f e loc a true = .ok x.1 x.2 := hf a
    unfold mfGo
    simp only [h1]
    rfl
  | @altNext e es loc r _ _ ih0 ih1 =>
    intro hl
    obtain ⟨f0, hf0⟩ := ih0 hl
    obtain ⟨f1, hf1⟩ := ih1 hl
    refine ⟨f0 + f1, fun a mx => ?_⟩
    obtain ⟨l, h1⟩ := hf0 a
    unfold mfGo
    simp only [parse_lift f1 h1 (by simp)]
    have key : ∀ mx', Ret (mfGo (parse g s (f0 + f1)) a s.length loc es mx') r := fun mx' => by
      have h2 := hf1 a mx'
      have := mfGo_mono (parse_mono g s f1 f0) a s.length loc es mx' h2.ne_hang
      rw [Nat.add_comm f1 f0] at this
      rw [this]; exact h2
    exact key _
  | @orNil loc => intro _; exact ⟨0, fun e he => by cases he⟩
  | @orCons e es loc r1 r2 _ _ ih0 ih1 =>
    intro hl
    obtain ⟨f0, hf0⟩ := ih0 hl
    obtain ⟨f1, hf1⟩ := ih1 hl
    refine ⟨f0 + f1, fun x hx a => ?_⟩
    rcases List.mem_cons.mp hx with rfl | hx
    · have h := (hf0 a).ne_hang
      rw [parse_lift f1 rfl h]; exact h
    · have h := hf1 x hx a
      rw [parse_lift' f0 rfl h]; exact h
  | @or nd loc es r hk hscan ih =>
    intro hn hl
    have hl' : orStart g nd s es loc ≤ s.length + 1 := by
      unfold orStart
      split
      · exact skipWhite_le _ _ _ _ (by omega) hl
      · exact hl
    obtain ⟨f, hf⟩ := ih hl'
    refine ⟨f, fun a => ?_⟩
    have hs := parseImpl_sound (s := s) hg (parse_sound hg f) nd hn loc a
    have hnh : parseImpl g (parse g s f) nd s loc a ≠ .hang := by
      unfold parseImpl
      simp only [hk]
      unfold orImpl
      simp only [orImpl_pre g _ nd hn s es loc]
      exact orAt_nohang (s := s) (parse_sound hg f) _ _ a es _ hf
    have hsem : Sem g s (.impl nd loc) r := .or hk hscan
    cases ho : parseImpl g (parse g s f) nd s loc a with
    | ok e ts =>
      rw [ho] at hs
      have := Sem.det hsem _ hs
      subst this; rfl
    | fail c l =>
      rw [ho] at hs
      have := Sem.det hsem _ hs.2
      subst this; exact Or.inl ⟨l, by rw [hs.1]⟩
    | idx =>
      rw [ho] at hs
      have := Sem.det hsem _ hs.2
      subst this; exact Or.inr ⟨rfl, hs.1⟩
    | hang => exact absurd ho hnh
  | @opt nd loc e d r hk _ ih =>
    intro hn hl
    obtain ⟨f, hf⟩ := ih hl
    refine ⟨f, fun a => ?_⟩
    have h1 := hf a
    unfold parseImpl
    simp only [hk]
    cases r with
    | some x => simp only [Ret] at h1; rw [h1]; rfl
    | none =>
      obtain ⟨l, h1⟩ := h1
      rw [h1]; simp only [optDefault_plain hg (plain_acts hn)]; rfl
  | @manyFail nd loc e one hk _ ih =>
    intro hn hl
    obtain ⟨f, hf⟩ := ih hl
    refine ⟨f, fun a => ?_⟩
    obtain ⟨l, h1⟩ := hf a
    have hm : manyImpl (parse g s f) nd a s.length e none loc = .fail .parse l := by
      unfold manyImpl; simp only [h1]
    unfold parseImpl
    simp only [hk, hm]
    cases one with
    | true => exact Or.inl ⟨l, rfl⟩
    | false => rfl
  | @manyOk nd loc e one l ts r hk _ hstar ih0 ih1 =>
    intro hn hl
    obtain ⟨f0, hf0⟩ := ih0 hl
    have hl1 : l ≤ s.length + 1 := ok_le (hf0 true) hl
    obtain ⟨f1, hf1⟩ := ih1 hl1
    refine ⟨f0 + f1, fun a => ?_⟩
    have h2 := hf1 a nd (s.length + 2) (plain_ign hn) (by omega)
    have hmono := manyLoop_mono (parse_mono g s f1 f0) nd a s.length e none (s.length + 2) l ts h2.ne_hang
    rw [Nat.add_comm f1 f0] at hmono
    have hm : manyImpl (parse g s (f0 + f1)) nd a s.length e none loc =
        manyLoop (parse g s f1) nd a s.length e none (s.length + 2) l ts := by
      unfold manyImpl; simp only [parse_lift f1 (hf0 a) (by simp)]; exact hmono
    obtain ⟨x, rfl⟩ : ∃ x, r = some x := by
      cases r with
      | none => exact absurd rfl (star_ne_none hstar _ _ _ rfl)
      | some x => exact ⟨x, rfl⟩
    simp only [Ret] at h2
    unfold parseImpl
    simp only [hk, hm, h2]
    cases one <;> rfl
  | @starStop e loc acc _ ih =>
    intro hl
    obtain ⟨f, hf⟩ := ih hl
    refine ⟨f, fun a nd k hi hk => ?_⟩
    obtain ⟨l, h1⟩ := hf a
    obtain ⟨k, rfl⟩ : ∃ k', k = k' + 1 := ⟨k - 1, by omega⟩
    unfold manyLoop
    simp only [stopCheck, manyPre, hi, List.isEmpty_nil, if_true, h1]
    rfl
  | @starStep e loc acc l ts r _ hlt _ ih0 ih1 =>
    intro hl
    obtain ⟨f0, hf0⟩ := ih0 hl
    have hl1 : l ≤ s.length + 1 := ok_le (hf0 true) hl
    obtain ⟨f1, hf1⟩ := ih1 hl1
    refine ⟨f0 + f1, fun a nd k hi hk => ?_⟩
    obtain ⟨k, rfl⟩ : ∃ k', k = k' + 1 := ⟨k - 1, by omega⟩
    have h2 := hf1 a nd k hi (by omega)
    have hmono := manyLoop_mono (parse_mono g s f1 f0) nd a s.length e none k l (acc ++ ts) h2.ne_hang
    rw [Nat.add_comm f1 f0] at hmono
    unfold manyLoop
    simp only [stopCheck, manyPre, hi, List.isEmpty_nil, if_true, parse_lift f1 (hf0 a) (by simp)]
    have : ¬ l ≤ loc := by omega
    simp only [this, if_false]
    rw [hmono]; exact h2
  | @notAny nd loc e r hk _ ih =>
    intro hn hl
    obtain ⟨f, hf⟩ := ih hl
    refine ⟨f, fun a => ?_⟩
    have h1 := hf a
    unfold parseImpl
    simp only [hk, canParseNext, tryParse]
    cases r with
    | some x => simp only [Ret] at h1; rw [h1]; exact Or.inl ⟨loc, rfl⟩
    | none => obtain ⟨l, h1⟩ := h1; rw [h1]; rfl
  | @followedBy nd loc e r hk _ ih =>
    intro hn hl
    obtain ⟨f, hf⟩ := ih hl
    refine ⟨f, fun a => ?_⟩
    have h1 := hf a
    unfold parseImpl
    simp only [hk]
    cases r with
    | some x => simp only [Ret] at h1; rw [h1]; rfl
    | none => obtain ⟨l, h1⟩ := h1; rw [h1]; exact Or.inl ⟨l, rfl⟩
  | @wrap nd loc e r hw _ ih =>
    intro hn hl
    obtain ⟨f, hf⟩ := ih hl
    refine ⟨f, fun a => ?_⟩
    have h1 := hf a
    have he : parseImpl g (parse g s f) nd s loc a = enhanceImpl (parse g s f) a (some e) loc := by
      unfold parseImpl
      cases hk : nd.kind with
      | forward e' =>
        cases e' with
        | none => simp [wrapped, hk] at hw
        | some e' => simp only [wrapped, hk, Option.some.injEq] at hw; subst hw; rfl
      | _ => simp_all [wrapped]
    rw [he]
    unfold enhanceImpl
    cases r with
    | some x => simp only [Ret] at h1; simp only [h1]; rfl
    | none => obtain ⟨l, h1⟩ := h1; simp only [h1]; exact Or.inl ⟨_, rfl⟩


end PP.Parse
