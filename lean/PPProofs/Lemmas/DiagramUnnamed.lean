import PPProofs.Lemmas.DiagramConv
/-! C20 helper: elements without a (truthy) custom name are never named, marked or extracted by
    `_to_diagram_element`. This is why a second visit of an unnamed element converts it again. -/
namespace PP.Diagram


/-- every unnamed element: its ElementState (if any) has `name = None`, `extract = False`; it has no diagram -/
def UInv (g : Grammar) (s : St) : Prop :=
  ∀ u, truthy (customOf g u) = false →
    (∀ st, aget s.lookup u = some st → st.name = none ∧ st.extract = false) ∧ aget s.diagrams u = none

theorem UInv_tables {g : Grammar} {s s' : St} (h1 : s'.lookup = s.lookup) (h2 : s'.diagrams = s.diagrams)
    (h : UInv g s) : UInv g s' := by
  intro u hu; rw [h1, h2]; exact h u hu

theorem UInv_mark {g : Grammar} {s : St} {el : Nat} (nm : Option String) (f : Bool)
    (hel : truthy (customOf g el) = true) (h : UInv g s) : UInv g (markForExtraction g s el nm f) := by
  intro u hu
  have hne : u ≠ el := by intro e; rw [e, hel] at hu; exact absurd hu (by simp)
  rw [mark_lookup_ne _ _ _ _ _ _ hne, mark_diagrams_ne _ _ _ _ _ _ hne]
  exact h u hu

theorem UInv_extract {g : Grammar} {s : St} {el : Nat}
    (hel : truthy (customOf g el) = true) (h : UInv g s) : UInv g (extractIntoDiagram s el) := by
  intro u hu
  have hne : u ≠ el := by intro e; rw [e, hel] at hu; exact absurd hu (by simp)
  rw [extract_lookup_ne _ _ _ hne, extract_diagrams_ne _ _ _ hne]
  exact h u hu

theorem UInv_setKw {g : Grammar} (s : St) (r : Nat) (kw : Kw) (h : UInv g s) : UInv g (s.setKw r kw) :=
  UInv_tables rfl rfl h

theorem UInv_annotate {g : Grammar} (o : Opts) (n : Node) (r : Option Nat) (s : St) (h : UInv g s) :
    UInv g (annotate o n r s).2 := by
  unfold annotate
  split
  · exact h
  · split
    · exact UInv_tables rfl rfl h
    · exact h

theorem post1_lookup (n : Node) (hint : Option String) (ret : Nat) (s : St) :
    (post1 n hint ret s).2.lookup = s.lookup := by
  unfold post1; split <;> rfl

theorem post1_diagrams (n : Node) (hint : Option String) (ret : Nat) (s : St) :
    (post1 n hint ret s).2.diagrams = s.diagrams := by
  unfold post1; split <;> rfl

theorem setComplete_diagrams (s : St) (el : Nat) : (setComplete s el).diagrams = s.diagrams := by
  unfold setComplete; split <;> rfl

theorem setComplete_lookup_ne (s : St) (el k : Nat) (h : k ≠ el) :
    aget (setComplete s el).lookup k = aget s.lookup k := by
  unfold setComplete; split
  · exact aget_aset_ne _ _ _ _ h
  · rfl

theorem setComplete_lookup_same (s : St) (el : Nat) :
    aget (setComplete s el).lookup el = (aget s.lookup el).map (fun st => { st with complete := true }) := by
  unfold setComplete
  cases h : aget s.lookup el with
  | none => simp [h]
  | some st => simp [aget_aset_same]

theorem UInv_setComplete {g : Grammar} (s : St) (el : Nat) (h : UInv g s) : UInv g (setComplete s el) := by
  intro u hu
  rw [setComplete_diagrams]
  refine ⟨?_, (h u hu).2⟩
  intro st' hst'
  by_cases hue : u = el
  · subst hue
    rw [setComplete_lookup_same] at hst'
    cases hl : aget s.lookup u with
    | none => simp [hl] at hst'
    | some st =>
      simp only [hl, Option.map_some, Option.some.injEq] at hst'
      subst hst'
      exact (h u hu).1 st hl
  · rw [setComplete_lookup_ne _ _ _ hue] at hst'
    exact (h u hu).1 st' hst'

theorem UInv_post {g : Grammar} (el : Nat) (n : Node) (hint : Option String) (ret : Nat) (s : St)
    (hg : g[el]? = some n) (h : UInv g s) : UInv g (post el n hint ret s).2 := by
  have h1 : UInv g (post1 n hint ret s).2 := UInv_tables (post1_lookup ..) (post1_diagrams ..) h
  have h2 := UInv_setComplete _ el h1
  unfold post
  simp only
  split
  · rename_i st hl
    split
    · rename_i hex
      simp only [Bool.and_eq_true] at hex
      have hel : truthy (customOf g el) = true := by
        cases ht : truthy (customOf g el) with
        | true => rfl
        | false =>
          have := ((h2 el ht).1 st hl).2
          rw [this] at hex
          exact absurd hex.1 (by simp)
      exact UInv_tables rfl rfl (UInv_extract hel h2)
    · exact h2
  · exact h2

theorem seenOf_named {g : Grammar} {s : St} {el : Nat} {st : EState} (h : seenOf g s el = .named st) :
    worth g el = true ∧ aget s.lookup el = some st ∧ st.name.isSome = true := by
  unfold seenOf at h
  split at h
  · rename_i hw
    split at h
    · rename_i st' hst'
      split at h
      · rename_i hn
        simp only [Seen.named.injEq] at h
        subst h
        exact ⟨hw, hst', hn⟩
      · split at h <;> exact absurd h (by simp)
    · split at h <;> exact absurd h (by simp)
  · exact absurd h (by simp)

theorem UInv_register {g : Grammar} {s : St} {el : Nat} {n : Node} (p : Option Nat) (i : Nat) (pn : PNode)
    (hg : g[el]? = some n) (h : UInv g s) : UInv g (register g s el n p i pn).2 := by
  unfold register
  simp only
  have hreg : UInv g { (s.alloc pn).2 with
      index := (s.alloc pn).2.index + 1,
      lookup := aset (s.alloc pn).2.lookup el
        { converted := (s.alloc pn).1, parent := p, parentIndex := i,
          number := (s.alloc pn).2.index + 1 } } := by
    intro u hu
    refine ⟨?_, (h u hu).2⟩
    intro st' hst'
    by_cases hue : u = el
    · subst hue
      simp only [aget_aset_same, Option.some.injEq] at hst'
      subst hst'
      exact ⟨rfl, rfl⟩
    · simp only [aget_aset_ne _ _ _ _ hue] at hst'
      exact (h u hu).1 st' hst'
  split
  · rename_i hc
    have hel : truthy (customOf g el) = true := by
      unfold customOf; rw [hg]; exact hc
    exact UInv_mark _ _ hel hreg
  · exact hreg

theorem UInv_pre_ret {g : Grammar} {o : Opts} {el : Nat} {n : Node} {p : Option Nat} {i : Nat}
    {hint : Option String} {s : St} {r : Option Nat} {s' : St}
    (hg : g[el]? = some n) (h : UInv g s) (hp : pre g o el n p i hint s = .ret r s') : UInv g s' := by
  unfold pre at hp
  split at hp
  · exact absurd hp (by simp)
  · cases hs : seenOf g s el with
    | named st =>
      simp only [hs, Pre.ret.injEq] at hp
      obtain ⟨_, hl, hn⟩ := seenOf_named hs
      have hel : truthy (customOf g el) = true := by
        cases ht : truthy (customOf g el) with
        | true => rfl
        | false =>
          have := ((h el ht).1 st hl).1
          rw [this] at hn
          exact absurd hn (by simp)
      rw [← hp.2]
      exact UInv_tables rfl rfl (UInv_mark _ _ hel h)
    | inDiagram d =>
      simp only [hs, Pre.ret.injEq] at hp
      rw [← hp.2]
      exact UInv_tables rfl rfl h
    | fresh =>
      simp only [hs] at hp
      unfold preFresh at hp
      split at hp
      · simp only [Pre.ret.injEq] at hp; rw [← hp.2]; exact h
      · split at hp
        · simp only [Pre.ret.injEq] at hp; rw [← hp.2]; exact h
        · exact absurd hp (by simp)

theorem UInv_pre_loop {g : Grammar} {o : Opts} {el : Nat} {n : Node} {p : Option Nat} {i : Nat}
    {hint : Option String} {s : St} {r : Nat} {s' : St}
    (hg : g[el]? = some n) (h : UInv g s) (hp : pre g o el n p i hint s = .loop r s') : UInv g s' := by
  unfold pre at hp
  split at hp
  · exact absurd hp (by simp)
  · cases hs : seenOf g s el with
    | named st => simp [hs] at hp
    | inDiagram d => simp [hs] at hp
    | fresh =>
      simp only [hs] at hp
      unfold preFresh at hp
      split at hp
      · exact absurd hp (by simp)
      · split at hp
        · exact absurd hp (by simp)
        · rename_i pn hd
          simp only [Pre.loop.injEq] at hp
          rw [← hp.2]
          exact UInv_register p i pn hg h

/-- **unnamed elements are never named, marked or extracted** by any terminating conversion -/
theorem conv_UInv (g : Grammar) (o : Opts) :
    ∀ fuel el p i h s r s', UInv g s → conv g o fuel el p i h s = some (r, s') → UInv g s' :=
  conv_inv g o (UInv g) (fun s r kw h => UInv_setKw s r kw h)
    (fun _ _ _ _ _ _ _ _ hg h hp => UInv_pre_ret hg h hp)
    (fun _ _ _ _ _ _ _ _ hg h hp => UInv_pre_loop hg h hp)
    (fun el n h ret s hg hI => UInv_post el n h ret s hg hI)
    (fun n r s h => UInv_annotate o n r s h)

theorem UInv_init (g : Grammar) : UInv g {} := by
  intro u _; exact ⟨fun st h => by simp [aget] at h, rfl⟩

end PP.Diagram
