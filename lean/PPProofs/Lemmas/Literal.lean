import PPProofs.Lemmas.WordPaths
/-! Literal variants (`Literal.__new__` picks Empty / _SingleCharLiteral / Literal) -/
namespace PP.WordPaths

theorem drop_take_one (s : List Char) (loc : Nat) :
    (s.drop loc).take 1 = match s[loc]? with | some d => [d] | none => [] := by
  cases h : s[loc]? with
  | none =>
    have : s.length ≤ loc := by simpa using h
    simp [List.drop_eq_nil_of_le this]
  | some d => rw [drop_eq_cons h]; rfl

/-- the one-character variant does what the general `Literal.parseImpl` would do -/
theorem literalSingle_eq_long (c : Char) (s : List Char) (loc : Nat) :
    literalSingle c s loc = literalLong [c] s loc := by
  unfold literalSingle literalLong isPrefixAt
  simp only [List.length_cons, List.length_nil, Nat.zero_add, List.head?_cons]
  rw [drop_take_one]
  cases h : s[loc]? with
  | none =>
    have : ¬ loc < s.length := by
      have : s.length ≤ loc := by simpa using h
      omega
    simp [this]
  | some d =>
    have hl : loc < s.length := by
      rcases Nat.lt_or_ge loc s.length with hl | hl
      · exact hl
      · have : s[loc]? = none := by simp [hl]
        rw [this] at h; cases h
    by_cases hdc : d = c
    · subst hdc; simp [hl]
    · simp [hdc, hl]

/-- `Literal(m)` at `loc`: succeeds iff the text starts with `m` at `loc` (and, for a non-empty `m`,
    `loc` is inside the text), and then ends at `loc + len(m)` -/
theorem literal_spec' (m s : List Char) (loc : Nat) :
    literal m s loc =
      if isPrefixAt m s loc && (m.isEmpty || decide (loc < s.length)) then some (loc + m.length)
      else none := by
  unfold literal
  split
  · simp [isPrefixAt]
  · rename_i c
    rw [literalSingle_eq_long]
    unfold literalLong
    simp only [List.isEmpty_cons, Bool.false_or, List.length_cons, List.length_nil, Nat.zero_add,
      List.head?_cons]
    by_cases hl : loc < s.length
    · by_cases hp : isPrefixAt [c] s loc = true
      · have : s[loc]? = some c := by
          unfold isPrefixAt at hp
          simp only [List.length_cons, List.length_nil, Nat.zero_add] at hp
          rw [drop_take_one] at hp
          cases h : s[loc]? with
          | none => rw [h] at hp; simp at hp
          | some d => rw [h] at hp; simp at hp; simp [hp]
        have h2 : s[loc] = c := by
          rw [List.getElem?_eq_getElem hl] at this; exact Option.some.inj this
        simp [hl, hp, h2]
      · simp [hl, hp]
    · simp [hl]
  · rename_i hne1 hne2
    unfold literalLong
    by_cases hl : loc < s.length
    · by_cases hp : isPrefixAt m s loc = true
      · have hm : m ≠ [] := fun h => hne1 h
        have : s[loc]? = m.head? := by
          unfold isPrefixAt at hp
          have hp' : (s.drop loc).take m.length = m := by simpa using hp
          cases m with
          | nil => exact absurd rfl hm
          | cons a as =>
            have hs : s[loc]? = some s[loc] := by simp [hl]
            rw [drop_eq_cons hs] at hp'
            simp only [List.length_cons, List.take_succ_cons, List.cons.injEq] at hp'
            simp [hs, hp'.1]
        have hme : m.isEmpty = false := by cases m <;> simp_all
        have h2 : some s[loc] = m.head? := by
          rw [List.getElem?_eq_getElem hl] at this; exact this
        simp [hl, hp, h2, hme]
      · simp [hl, hp]
    · have hme : m.isEmpty = false := by cases m <;> simp_all
      simp [hl, hme]

end PP.WordPaths
