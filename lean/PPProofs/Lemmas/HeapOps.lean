import PPModel.Mod.HeapOps
/-!
# Heap operations of C12 — what each operation may touch (no parsing here)

* `ignorePush_frame`: `x.ignore(s)` changes only list objects held by elements reachable from `x`
* `copyOp_spec`: `copy()` only allocates (old objects and old list objects are untouched) and keeps the invariant
  "every element owns its list object"
* `wsOp_spec`: `leave_whitespace()` / `ignore_whitespace()` change the object they are called on and allocate; nothing else
-/
namespace PP.Heap
open PP.Parse

/-! ### invariant -/

/-- every `cell` is allocated -/
def WF (h : Heap) : Prop := ∀ (i : Nat) (o : Obj), h.objs[i]? = some o → o.cell < h.cells.length

/-- no two elements hold the same `ignoreExprs` list object -/
def NoAliasL (objs : List Obj) : Prop :=
  ∀ (i j : Nat) (oi oj : Obj), objs[i]? = some oi → objs[j]? = some oj → oi.cell = oj.cell → i = j

def NoAlias (h : Heap) : Prop := NoAliasL h.objs

def Inv (h : Heap) : Prop := WF h ∧ NoAlias h

theorem invCheck_sound (h : Heap) (hc : invCheck h = true) : Inv h := by
  unfold invCheck at hc
  rw [Bool.and_eq_true, List.all_eq_true, decide_eq_true_eq] at hc
  obtain ⟨hwf, hnd⟩ := hc
  constructor
  · intro i o hio
    have := hwf o (List.mem_of_getElem? hio)
    simpa using this
  · show NoAliasL h.objs
    intro i j oi oj hi hj hc
    rw [List.nodup_iff_pairwise_ne, List.pairwise_iff_getElem] at hnd
    have hi' : (h.objs.map (·.cell))[i]? = some oi.cell := by rw [List.getElem?_map, hi]; rfl
    have hj' : (h.objs.map (·.cell))[j]? = some oj.cell := by rw [List.getElem?_map, hj]; rfl
    obtain ⟨hil, hie⟩ := List.getElem?_eq_some_iff.mp hi'
    obtain ⟨hjl, hje⟩ := List.getElem?_eq_some_iff.mp hj'
    rcases Nat.lt_trichotomy i j with hlt | heq | hgt
    · exact absurd (hie.trans (hc.trans hje.symm)) (hnd i j hil hjl hlt)
    · exact heq
    · exact absurd (hje.trans (hc.symm.trans hie.symm)) (hnd j i hjl hil hgt)

/-! ### ignore -/

/-- `D` is closed under `recurse()` -/
def SubClosed (objs : List Obj) (D : Nat → Prop) : Prop :=
  ∀ (i : Nat) (o : Obj), D i → objs[i]? = some o → ∀ k ∈ sub o.node.kind, D k

/-- list object `c` is not held by any element of `D` -/
def CellFree (objs : List Obj) (D : Nat → Prop) (c : Nat) : Prop :=
  ∀ (i : Nat) (o : Obj), D i → objs[i]? = some o → o.cell ≠ c

theorem appendCell_length (cells : List (List Nat)) (c s : Nat) : (appendCell cells c s).length = cells.length := by
  unfold appendCell; exact List.length_modify _ _ _

theorem appendCell_ne (cells : List (List Nat)) (c s c' : Nat) (h : c ≠ c') :
    (appendCell cells c s)[c']? = cells[c']? := by
  unfold appendCell
  rw [List.getElem?_modify]
  cases cells[c']? with
  | none => rfl
  | some l => simp [h]

/-- what one call may touch: lengths are kept, list objects not held inside `D` are kept -/
def PushOk (objs : List Obj) (D : Nat → Prop) (cells cells' : List (List Nat)) : Prop :=
  cells'.length = cells.length ∧ ∀ c, CellFree objs D c → cells'[c]? = cells[c]?

theorem PushOk.refl (objs : List Obj) (D : Nat → Prop) (cells : List (List Nat)) : PushOk objs D cells cells :=
  ⟨rfl, fun _ _ => rfl⟩

theorem PushOk.trans {objs : List Obj} {D : Nat → Prop} {a b c : List (List Nat)}
    (h1 : PushOk objs D a b) (h2 : PushOk objs D b c) : PushOk objs D a c :=
  ⟨h2.1.trans h1.1, fun x hx => (h2.2 x hx).trans (h1.2 x hx)⟩

theorem PushOk.append {objs : List Obj} {D : Nat → Prop} (cells : List (List Nat)) {x : Nat} {o : Obj} (s : Nat)
    (hx : D x) (ho : objs[x]? = some o) : PushOk objs D cells (appendCell cells o.cell s) :=
  ⟨appendCell_length _ _ _, fun _ hc => appendCell_ne _ _ _ _ (hc x o hx ho)⟩

theorem pushList_frame (objs : List Obj) (D : Nat → Prop)
    (rec : List (List Nat) → Nat → Option (List (List Nat)))
    (hrec : ∀ cells k cells', D k → rec cells k = some cells' → PushOk objs D cells cells') :
    ∀ (ks : List Nat) (cells cells' : List (List Nat)), (∀ k ∈ ks, D k) → pushList rec cells ks = some cells' →
      PushOk objs D cells cells' := by
  intro ks
  induction ks with
  | nil => intro cells cells' _ h; simp only [pushList, Option.some.injEq] at h; subst h; exact PushOk.refl _ _ _
  | cons k ks ih =>
    intro cells cells' hks h
    simp only [pushList] at h
    cases hr : rec cells k with
    | none => rw [hr] at h; cases h
    | some c1 =>
      rw [hr] at h
      exact (hrec cells k c1 (hks k (by simp)) hr).trans (ih c1 cells' (fun k' hk' => hks k' (by simp [hk'])) h)

/-- **ignore touches only the list objects of the elements reachable from `x`.**  For every set `D` of elements
    that contains `x` and is closed under `recurse()`: the list objects not held by an element of `D` are unchanged
    (and no element changes at all: the operation is a function on the cells). -/
theorem ignorePush_frame (objs : List Obj) (D : Nat → Prop) (hD : SubClosed objs D) :
    ∀ (f : Nat) (cells : List (List Nat)) (x s : Nat) (cells' : List (List Nat)), D x →
      ignorePush objs f cells x s = some cells' → PushOk objs D cells cells' := by
  intro f
  induction f with
  | zero => intro cells x s cells' _ h; simp [ignorePush] at h
  | succ f ih =>
    intro cells x s cells' hx h
    simp only [ignorePush] at h
    cases ho : objs[x]? with
    | none => rw [ho] at h; cases h
    | some o =>
      rw [ho] at h
      simp only at h
      split at h
      · simp only [Option.some.injEq] at h; subst h; exact PushOk.refl _ _ _
      · have happ := PushOk.append (D := D) cells s hx ho
        have hsub : ∀ k ∈ sub o.node.kind, D k := hD x o hx ho
        have hpl : ∀ c', pushList (fun c k => ignorePush objs f c k s) (appendCell cells o.cell s) (sub o.node.kind) = some c' →
            PushOk objs D cells c' := fun c' hc' =>
          happ.trans (pushList_frame objs D _ (fun c k c'' hk hr => ih c k s c'' hk hr) _ _ _ hsub hc')
        split at h
        · cases h
        · simp only [Option.some.injEq] at h; subst h; exact happ
        · split at h
          · simp only [Option.some.injEq] at h; subst h; exact happ
          · exact hpl _ h
        · exact hpl _ h

theorem ignore_inv (h h' : Heap) (fuel x s : Nat) (hop : h.ignore fuel x s = some h') (hinv : Inv h) : Inv h' := by
  unfold Heap.ignore at hop
  cases hc : ignorePush h.objs fuel h.cells x s with
  | none => rw [hc] at hop; cases hop
  | some c =>
    rw [hc] at hop
    simp only [Option.some.injEq] at hop
    subst hop
    have hlen : c.length = h.cells.length :=
      (ignorePush_frame h.objs (fun _ => True) (fun _ _ _ _ _ _ => trivial) fuel h.cells x s c trivial hc).1
    refine ⟨?_, hinv.2⟩
    intro i o hio
    show o.cell < c.length
    rw [hlen]
    exact hinv.1 i o hio

/-! ### copy -/

/-- `h'` is `h` plus newly allocated elements and list objects -/
def Ext (h h' : Heap) : Prop := ∃ no nc, h'.objs = h.objs ++ no ∧ h'.cells = h.cells ++ nc

theorem Ext.refl (h : Heap) : Ext h h := ⟨[], [], by simp, by simp⟩

theorem Ext.trans {a b c : Heap} : Ext a b → Ext b c → Ext a c := by
  rintro ⟨n1, c1, h1, h1'⟩ ⟨n2, c2, h2, h2'⟩
  exact ⟨n1 ++ n2, c1 ++ c2, by rw [h2, h1, List.append_assoc], by rw [h2', h1', List.append_assoc]⟩

theorem Ext.objs_le {h h' : Heap} : Ext h h' → h.objs.length ≤ h'.objs.length := by
  rintro ⟨no, _, ho, _⟩; rw [ho, List.length_append]; omega

theorem Ext.cells_le {h h' : Heap} : Ext h h' → h.cells.length ≤ h'.cells.length := by
  rintro ⟨_, nc, _, hc⟩; rw [hc, List.length_append]; omega

theorem Ext.getObj {h h' : Heap} {i : Nat} (e : Ext h h') (hi : i < h.objs.length) : h'.objs[i]? = h.objs[i]? := by
  obtain ⟨no, _, ho, _⟩ := e
  rw [ho, List.getElem?_append_left hi]

theorem Ext.getCell {h h' : Heap} {c : Nat} (e : Ext h h') (hc : c < h.cells.length) : h'.cells[c]? = h.cells[c]? := by
  obtain ⟨_, nc, _, hcs⟩ := e
  rw [hcs, List.getElem?_append_left hc]

theorem getElem?_snoc {α : Type} {l : List α} {a x : α} {i : Nat} (h : (l ++ [a])[i]? = some x) :
    (i < l.length ∧ l[i]? = some x) ∨ (i = l.length ∧ x = a) := by
  rcases Nat.lt_or_ge i l.length with hlt | hge
  · rw [List.getElem?_append_left hlt] at h; exact Or.inl ⟨hlt, h⟩
  · rw [List.getElem?_append_right hge] at h
    have h0 : i - l.length = 0 := by
      cases hk : i - l.length with
      | zero => rfl
      | succ k => rw [hk] at h; simp at h
    rw [h0] at h
    simp at h
    exact Or.inr ⟨by omega, h.symm⟩

/-- allocating an element together with a NEW list object keeps the invariant -/
theorem inv_snoc (h : Heap) (o' : Obj) (content : List Nat) (hinv : Inv h) (hc : o'.cell = h.cells.length) :
    Inv { objs := h.objs ++ [o'], cells := h.cells ++ [content] } := by
  obtain ⟨hwf, hna⟩ := hinv
  constructor
  · intro i o hio
    show o.cell < (h.cells ++ [content]).length
    rw [List.length_append]
    rcases getElem?_snoc hio with ⟨_, hold⟩ | ⟨_, hnew⟩
    · have := hwf i o hold; simp; omega
    · subst hnew; rw [hc]; simp
  · intro i j oi oj hi hj hcell
    rcases getElem?_snoc hi with ⟨_, hio⟩ | ⟨hin, hinew⟩ <;> rcases getElem?_snoc hj with ⟨_, hjo⟩ | ⟨hjn, hjnew⟩
    · exact hna i j oi oj hio hjo hcell
    · subst hjnew; have := hwf i oi hio; rw [hcell, hc] at this; omega
    · subst hinew; have := hwf j oj hjo; rw [← hcell, hc] at this; omega
    · omega

theorem copyElem_inv (dw : List Char) (h : Heap) (o : Obj) (k : Kind) (hinv : Inv h) : Inv (copyElem dw h o k).1 := by
  unfold copyElem
  exact inv_snoc h _ _ hinv rfl

theorem copyElem_ext (dw : List Char) (h : Heap) (o : Obj) (k : Kind) : Ext h (copyElem dw h o k).1 := by
  unfold copyElem
  exact ⟨_, _, rfl, rfl⟩

/-- what one `copy()` guarantees: invariant kept, only allocation, the result is a new element -/
def CopyOk (h h' : Heap) (j : Nat) : Prop := Inv h' ∧ Ext h h' ∧ h.objs.length ≤ j ∧ j < h'.objs.length

theorem copyElem_ok (dw : List Char) (h h0 : Heap) (o : Obj) (k : Kind) (hinv : Inv h) (e : Ext h0 h) :
    CopyOk h0 (copyElem dw h o k).1 (copyElem dw h o k).2 := by
  refine ⟨copyElem_inv dw h o k hinv, e.trans (copyElem_ext dw h o k), ?_, ?_⟩
  · show h0.objs.length ≤ h.objs.length
    exact e.objs_le
  · show h.objs.length < (h.objs ++ [_]).length
    simp

theorem copyList_spec (rec : Heap → Nat → Option (Heap × Nat))
    (hrec : ∀ h i h' j, Inv h → rec h i = some (h', j) → CopyOk h h' j) :
    ∀ (es : List Nat) (h h' : Heap) (ks : List Nat), Inv h → copyList rec h es = some (h', ks) →
      Inv h' ∧ Ext h h' ∧ ∀ k ∈ ks, h.objs.length ≤ k ∧ k < h'.objs.length := by
  intro es
  induction es with
  | nil =>
    intro h h' ks hinv hc
    simp only [copyList, Option.some.injEq, Prod.mk.injEq] at hc
    obtain ⟨rfl, rfl⟩ := hc
    exact ⟨hinv, Ext.refl _, by simp⟩
  | cons e es ih =>
    intro h h' ks hinv hc
    simp only [copyList] at hc
    cases hr : rec h e with
    | none => rw [hr] at hc; cases hc
    | some r =>
      obtain ⟨h1, k⟩ := r
      rw [hr] at hc
      simp only at hc
      cases hl : copyList rec h1 es with
      | none => rw [hl] at hc; cases hc
      | some r2 =>
        obtain ⟨h2, ks'⟩ := r2
        rw [hl] at hc
        simp only [Option.some.injEq, Prod.mk.injEq] at hc
        obtain ⟨rfl, rfl⟩ := hc
        obtain ⟨i1, e1, lo1, hi1⟩ := hrec h e h1 k hinv hr
        obtain ⟨i2, e2, b2⟩ := ih h1 h2 ks' i1 hl
        refine ⟨i2, e1.trans e2, ?_⟩
        intro k' hk'
        rcases List.mem_cons.mp hk' with rfl | hk''
        · exact ⟨lo1, Nat.lt_of_lt_of_le hi1 e2.objs_le⟩
        · exact ⟨Nat.le_trans e1.objs_le (b2 k' hk'').1, (b2 k' hk'').2⟩

/-- **copy() only allocates and keeps the invariant.**  `copy()` (deep for And/MatchFirst/Or, shallow otherwise)
    leaves every existing element and every existing list object untouched, returns a NEW element, and every element
    of the new heap again owns its list object. -/
theorem copyOp_spec (dw : List Char) :
    ∀ (f : Nat) (h : Heap) (i : Nat) (h' : Heap) (j : Nat), Inv h → copyOp dw f h i = some (h', j) → CopyOk h h' j := by
  intro f
  induction f with
  | zero => intro h i h' j _ hc; simp [copyOp] at hc
  | succ f ih =>
    intro h i h' j hinv hc
    simp only [copyOp] at hc
    cases ho : h.objs[i]? with
    | none => rw [ho] at hc; cases hc
    | some o =>
      rw [ho] at hc
      simp only at hc
      split at hc
      · -- ParseExpression.copy
        cases hl : copyList (copyOp dw f) h (sub o.node.kind) with
        | none => rw [hl] at hc; cases hc
        | some r =>
          obtain ⟨h1, ks⟩ := r
          rw [hl] at hc
          simp only [Option.some.injEq] at hc
          obtain ⟨i1, e1, _⟩ := copyList_spec (copyOp dw f) ih _ h h1 ks hinv hl
          have := copyElem_ok dw h1 h o (withSub o.node.kind ks) i1 e1
          rw [hc] at this
          exact this
      · split at hc
        · cases hc
        · simp only [Option.some.injEq] at hc
          have := copyElem_ok dw h h o o.node.kind hinv (Ext.refl h)
          rw [hc] at this
          exact this
      · simp only [Option.some.injEq] at hc
        have := copyElem_ok dw h h o o.node.kind hinv (Ext.refl h)
        rw [hc] at this
        exact this

/-! ### leave_whitespace / ignore_whitespace -/

/-- elements other than `x` that existed in `h` are untouched, list objects are only allocated -/
def Keeps (x : Nat) (h h' : Heap) : Prop :=
  h.objs.length ≤ h'.objs.length ∧ (∃ nc, h'.cells = h.cells ++ nc) ∧
  ∀ i, i < h.objs.length → i ≠ x → h'.objs[i]? = h.objs[i]?

theorem modify_cell {objs : List Obj} {x i : Nat} {f : Obj → Obj} (hf : ∀ o, (f o).cell = o.cell) {o' : Obj}
    (h : (objs.modify x f)[i]? = some o') : ∃ o, objs[i]? = some o ∧ o'.cell = o.cell := by
  rw [List.getElem?_modify] at h
  cases ho : objs[i]? with
  | none => rw [ho] at h; cases h
  | some o =>
    rw [ho] at h
    simp only [Option.map_eq_map, Option.map_some, Option.some.injEq] at h
    refine ⟨o, rfl, ?_⟩
    subst h
    split
    · exact hf o
    · rfl

theorem modify_ne {objs : List Obj} {x i : Nat} (f : Obj → Obj) (h : i ≠ x) : (objs.modify x f)[i]? = objs[i]? := by
  rw [List.getElem?_modify]
  cases objs[i]? with
  | none => rfl
  | some o => simp [Ne.symm h]

theorem modify_inv (h : Heap) (x : Nat) (f : Obj → Obj) (hf : ∀ o, (f o).cell = o.cell) (hinv : Inv h) :
    Inv { h with objs := h.objs.modify x f } := by
  obtain ⟨hwf, hna⟩ := hinv
  constructor
  · intro i o' hio
    obtain ⟨o, ho, hc⟩ := modify_cell hf hio
    show o'.cell < h.cells.length
    rw [hc]; exact hwf i o ho
  · intro i j oi oj hi hj hcell
    obtain ⟨o1, ho1, hc1⟩ := modify_cell hf hi
    obtain ⟨o2, ho2, hc2⟩ := modify_cell hf hj
    exact hna i j o1 o2 ho1 ho2 (by rw [← hc1, ← hc2]; exact hcell)

theorem wsList_spec (rec : Heap → Nat → Option Heap) (n0 : Nat)
    (hrec : ∀ h k h', Inv h → rec h k = some h' → Inv h' ∧ Keeps k h h') :
    ∀ (ks : List Nat) (h h' : Heap), Inv h → n0 ≤ h.objs.length → (∀ k ∈ ks, n0 ≤ k) → wsList rec h ks = some h' →
      Inv h' ∧ h.objs.length ≤ h'.objs.length ∧ (∃ nc, h'.cells = h.cells ++ nc) ∧
      ∀ i, i < n0 → h'.objs[i]? = h.objs[i]? := by
  intro ks
  induction ks with
  | nil =>
    intro h h' hinv _ _ hw
    simp only [wsList, Option.some.injEq] at hw
    subst hw
    exact ⟨hinv, Nat.le_refl _, ⟨[], by simp⟩, fun _ _ => rfl⟩
  | cons k ks ih =>
    intro h h' hinv hn hks hw
    simp only [wsList] at hw
    cases hr : rec h k with
    | none => rw [hr] at hw; cases hw
    | some h1 =>
      rw [hr] at hw
      obtain ⟨i1, l1, ⟨nc1, c1⟩, k1⟩ := hrec h k h1 hinv hr
      obtain ⟨i2, l2, ⟨nc2, c2⟩, k2⟩ := ih h1 h' i1 (Nat.le_trans hn l1) (fun k' hk' => hks k' (by simp [hk'])) hw
      refine ⟨i2, Nat.le_trans l1 l2, ⟨nc1 ++ nc2, by rw [c2, c1, List.append_assoc]⟩, ?_⟩
      intro i hi
      rw [k2 i hi]
      have hk : n0 ≤ k := hks k (by simp)
      exact k1 i (by omega) (by omega)

theorem setSkip_cell (v : Bool) (o : Obj) : (setSkip v o).cell = o.cell := rfl
theorem setSub_cell (ks : List Nat) (o : Obj) : (setSub ks o).cell = o.cell := rfl

/-- **leave_whitespace() / ignore_whitespace() change the object they are called on and allocate; nothing else.**
    Every other existing element and every existing list object is untouched (children are COPIED before they are
    changed, at every level), and the invariant is kept. -/
theorem wsOp_spec (dw : List Char) (v : Bool) :
    ∀ (f : Nat) (h : Heap) (x : Nat) (h' : Heap), Inv h → wsOp dw v f h x = some h' → Inv h' ∧ Keeps x h h' := by
  intro f
  induction f with
  | zero => intro h x h' _ hw; simp [wsOp] at hw
  | succ f ih =>
    intro h x h' hinv hw
    simp only [wsOp] at hw
    cases ho : h.objs[x]? with
    | none => rw [ho] at hw; cases hw
    | some o =>
      rw [ho] at hw
      simp only at hw
      have inv0 : Inv { h with objs := h.objs.modify x (setSkip v) } := modify_inv h x _ (setSkip_cell v) hinv
      have keep0 : Keeps x h { h with objs := h.objs.modify x (setSkip v) } :=
        ⟨by simp, ⟨[], by simp⟩, fun i _ hne => modify_ne _ hne⟩
      split at hw
      · simp only [Option.some.injEq] at hw; subst hw; exact ⟨inv0, keep0⟩
      · simp only [Option.some.injEq] at hw; subst hw; exact ⟨inv0, keep0⟩
      · cases hl : copyList (copyOp dw f) { h with objs := h.objs.modify x (setSkip v) } (sub o.node.kind) with
        | none => rw [hl] at hw; cases hw
        | some r =>
          obtain ⟨h1, ks⟩ := r
          rw [hl] at hw
          simp only at hw
          obtain ⟨i1, e1, b1⟩ := copyList_spec (copyOp dw f) (copyOp_spec dw f) _ _ h1 ks inv0 hl
          have len0 : ({ h with objs := h.objs.modify x (setSkip v) } : Heap).objs.length = h.objs.length := by simp
          have inv2 : Inv { h1 with objs := h1.objs.modify x (setSub ks) } := modify_inv h1 x _ (setSub_cell ks) i1
          have hle1 : h.objs.length ≤ h1.objs.length := by have := e1.objs_le; rw [len0] at this; exact this
          obtain ⟨i3, l3, ⟨nc3, c3⟩, k3⟩ := wsList_spec (wsOp dw v f) h.objs.length (ih) ks _ h' inv2
            (by simpa using hle1) (fun k hk => by have := (b1 k hk).1; rw [len0] at this; exact this) hw
          obtain ⟨no1, nc1, ho1, hc1⟩ := e1
          refine ⟨i3, ⟨?_, ⟨nc1 ++ nc3, ?_⟩, ?_⟩⟩
          · have : h1.objs.length ≤ h'.objs.length := by simpa using l3
            omega
          · rw [c3]; show h1.cells ++ nc3 = _; rw [hc1, List.append_assoc]
          · intro i hi hne
            rw [k3 i hi]
            show (h1.objs.modify x (setSub ks))[i]? = _
            rw [modify_ne _ hne, ho1, List.getElem?_append_left (by simpa using hi)]
            exact modify_ne _ hne

end PP.Heap
